(* Lemmas about Model/Inbox.v (C08). *)
From Coq Require Import List NArith Lia Permutation Bool.
From Echo Require Import Base.FinMap Base.Order Base.Bytes Model.Inbox.
Import ListNotations.
Open Scope N_scope.

(* ------------------------------------------------------------------ *)
(* generic finite-map facts not in Base/FinMap.v *)

Section FM.
  Context {K V : Type}.
  Variable cmp : K -> K -> comparison.
  Hypothesis L : OrderLaws cmp.

  Let ceq := ol_eq cmp L.
  Let cas := ol_antisym cmp L.
  Let ctr := ol_trans cmp L.

  Lemma fm_refl k : cmp k k = Eq.
  Proof. apply ceq; reflexivity. Qed.

  Lemma fm_neq k k' : k <> k' -> cmp k k' <> Eq.
  Proof. intros Hne E. apply ceq in E. contradiction. Qed.

  Lemma fm_dec (a b : K) : {a = b} + {a <> b}.
  Proof.
    destruct (cmp a b) eqn:E.
    - left; apply ceq; exact E.
    - right; intro; subst; rewrite fm_refl in E; discriminate.
    - right; intro; subst; rewrite fm_refl in E; discriminate.
  Qed.

  (* [find] is a linear scan, so it also describes "first binding of k" in an
     unsorted list; bulk insert-if-absent keeps old bindings, then first ones. *)
  Lemma find_fold_ins (l : list (K * V)) : forall m k, sorted cmp m ->
    find cmp k (fold_left (fun m kv => ins cmp (fst kv) (snd kv) m) l m) =
    match find cmp k m with Some x => Some x | None => find cmp k l end.
  Proof.
    induction l as [|[k1 v1] r IH]; intros m k Hs; cbn [fold_left fst snd].
    - cbn. destruct (find cmp k m); reflexivity.
    - rewrite IH by (apply ins_sorted; auto).
      cbn [find]. destruct (cmp k k1) eqn:E.
      + apply ceq in E; subst k1. rewrite find_ins_same by auto.
        destruct (find cmp k m); reflexivity.
      + rewrite find_ins_other; auto. intro; subst. rewrite fm_refl in E; discriminate.
      + rewrite find_ins_other; auto. intro; subst. rewrite fm_refl in E; discriminate.
  Qed.

  Lemma fold_ins_sorted' (l : list (K * V)) m :
    sorted cmp m -> sorted cmp (fold_left (fun m kv => ins cmp (fst kv) (snd kv) m) l m).
  Proof. apply fold_ins_sorted; auto. Qed.

  Lemma find_some_in k v (m : list (K * V)) : find cmp k m = Some v -> In (k, v) m.
  Proof. apply find_in; auto. Qed.

  Lemma in_find_some k v (m : list (K * V)) : In (k, v) m -> exists v', find cmp k m = Some v'.
  Proof.
    induction m as [|[k1 v1] r IH]; intros Hin; [destruct Hin|].
    cbn. destruct (cmp k k1) eqn:E; eauto.
    - destruct Hin as [Hx|Hin]; [inversion Hx; subst; rewrite fm_refl in E; discriminate|auto].
    - destruct Hin as [Hx|Hin]; [inversion Hx; subst; rewrite fm_refl in E; discriminate|auto].
  Qed.

  Lemma sorted_nodup_keys (m : list (K * V)) : sorted cmp m -> NoDup (map fst m).
  Proof.
    induction m as [|[k v] r IH]; intros Hs; cbn; [constructor|].
    cbn in Hs. destruct Hs as [Hlb Hs]. constructor; auto.
    intro Hin. apply in_map_iff in Hin. destruct Hin as [[k' v'] [E Hin]]. cbn in E; subst k'.
    pose proof (lb_all cmp ctr k r Hs Hlb k v' Hin) as Hlt. rewrite fm_refl in Hlt. discriminate.
  Qed.

  Lemma set_same k v (m : list (K * V)) : sorted cmp m -> find cmp k m = Some v -> set cmp k v m = m.
  Proof.
    induction m as [|[k1 v1] r IH]; cbn; intros Hs Hf; [discriminate|].
    destruct Hs as [Hlb Hs]. destruct (cmp k k1) eqn:E.
    - apply ceq in E; subst. inversion Hf; reflexivity.
    - exfalso. rewrite (find_lb_none cmp ctr k r) in Hf; [discriminate|auto|].
      destruct r as [|[k2 v2] r2]; [exact I|]. cbn in *. eapply ctr; eauto.
    - f_equal. auto.
  Qed.

  (* values do not influence the shape of a map *)
  Lemma find_map_val {W} (f : V -> W) k (m : list (K * V)) :
    find cmp k (map (fun kv => (fst kv, f (snd kv))) m) = option_map f (find cmp k m).
  Proof.
    induction m as [|[k1 v1] r IH]; cbn; [reflexivity|].
    destruct (cmp k k1); auto.
  Qed.

  Lemma sorted_map_val {W} (f : V -> W) (m : list (K * V)) :
    sorted cmp m -> sorted cmp (map (fun kv => (fst kv, f (snd kv))) m).
  Proof.
    induction m as [|[k1 v1] r IH]; cbn; [tauto|]. intros [Hlb Hs]. split; auto.
    destruct r as [|[k2 v2] r2]; cbn in *; auto.
  Qed.

  Lemma keys_ext (m1 m2 : list (K * V)) : sorted cmp m1 -> sorted cmp m2 ->
    (forall k, mem cmp k m1 = mem cmp k m2) -> map fst m1 = map fst m2.
  Proof.
    intros H1 H2 Hm.
    assert (E : map (fun kv => (fst kv, tt)) m1 = map (fun kv => (fst kv, tt)) m2).
    { apply (sorted_ext cmp ceq cas ctr).
      - apply (sorted_map_val (fun _ => tt)); auto.
      - apply (sorted_map_val (fun _ => tt)); auto.
      - intros k. rewrite !(find_map_val (fun _ => tt)).
        specialize (Hm k). unfold mem in Hm.
        destruct (find cmp k m1), (find cmp k m2); cbn; auto; discriminate. }
    apply (f_equal (map fst)) in E. rewrite !map_map in E. cbn in E. exact E.
  Qed.

  (* sorted prefix / suffix *)
  Lemma sorted_app_inv (a b : list (K * V)) : sorted cmp (a ++ b) ->
    sorted cmp a /\ sorted cmp b /\
    (forall k v k' v', In (k, v) a -> In (k', v') b -> cmp k k' = Lt).
  Proof.
    induction a as [|[k v] a IH]; cbn [app]; intros Hs.
    - split; [exact I|]. split; [exact Hs|]. intros ? ? ? ? [].
    - cbn in Hs. destruct Hs as [Hlb Hs]. destruct (IH Hs) as [Ha [Hb Hab]].
      split; [|split; [exact Hb|]].
      + cbn. split; auto. destruct a as [|[k2 v2] a2]; [exact I|]. exact Hlb.
      + intros k0 v0 k' v' [E|Hin] Hin'.
        * inversion E; subst. eapply (lb_all cmp ctr k0 (a ++ b) Hs Hlb). apply in_or_app. right. exact Hin'.
        * eapply Hab; eauto.
  Qed.
End FM.

(* ------------------------------------------------------------------ *)
(* order laws of the key types *)

Lemma bool_order : OrderLaws bool_cmp.
Proof.
  split.
  - intros [] []; cbn; split; intros; congruence.
  - intros [] []; reflexivity.
  - intros [] [] []; cbn; congruence.
Qed.

Lemma rref_order : OrderLaws rref_cmp.
Proof. repeat apply pair_order; apply N_order. Qed.
Lemma parent_order : OrderLaws parent_cmp.
Proof. apply pair_order; [apply bool_order|apply rref_order]. Qed.
Lemma hkey_order : OrderLaws hkey_cmp.
Proof. apply pair_order; apply N_order. Qed.
Lemma ckey_order : OrderLaws ckey_cmp.
Proof. apply pair_order; [apply hkey_order|apply N_order]. Qed.
Lemma nkey_order : OrderLaws nkey_cmp.
Proof. apply pair_order; [apply N_order|apply bytes_order]. Qed.

Definition n_eq := ol_eq _ N_order.
Definition n_as := ol_antisym _ N_order.
Definition n_tr := ol_trans _ N_order.
Definition h_eq := ol_eq _ hkey_order.
Definition h_as := ol_antisym _ hkey_order.
Definition h_tr := ol_trans _ hkey_order.
Definition c_eq := ol_eq _ ckey_order.
Definition c_as := ol_antisym _ ckey_order.
Definition c_tr := ol_trans _ ckey_order.
Definition p_eq := ol_eq _ parent_order.
Definition p_as := ol_antisym _ parent_order.
Definition p_tr := ol_trans _ parent_order.

Notation isorted := (sorted N.compare).
Notation hsorted := (sorted hkey_cmp).
Notation csorted := (sorted ckey_cmp).

Ltac fn := try exact n_eq; try exact n_as; try exact n_tr.
Ltac fh := try exact h_eq; try exact h_as; try exact h_tr.
Ltac fc := try exact c_eq; try exact c_as; try exact c_tr.
Ltac fp := try exact p_eq; try exact p_as; try exact p_tr.

(* ------------------------------------------------------------------ *)
(* canonical parent sets: identity ignores order and multiplicity of parents *)

Lemma parent_set_as_fold ps m :
  fold_left (fun m p => ins parent_cmp p tt m) ps m =
  fold_left (fun m kv => ins parent_cmp (fst kv) (snd kv) m) (map (fun p => (p, tt)) ps) m.
Proof. revert m; induction ps as [|p r IH]; intros m; cbn; auto. Qed.

Lemma parent_set_sorted ps : sorted parent_cmp (parent_set ps).
Proof. unfold parent_set. rewrite parent_set_as_fold. apply fold_ins_sorted; fp. exact I. Qed.

Lemma find_pairs_tt p ps :
  find parent_cmp p (map (fun q : parent => (q, tt)) ps) = if in_dec (fm_dec parent_cmp parent_order) p ps then Some tt else None.
Proof.
  induction ps as [|q r IH]; cbn [map find]; [reflexivity|].
  destruct (parent_cmp p q) eqn:E.
  - apply p_eq in E; subst q. destruct (in_dec _ p (p :: r)) as [|n]; [reflexivity|].
    exfalso; apply n; left; reflexivity.
  - rewrite IH. destruct (in_dec _ p r) as [i|n], (in_dec _ p (q :: r)) as [i'|n']; auto.
    + exfalso; apply n'; right; exact i.
    + destruct i' as [->|]; [|contradiction]. rewrite (fm_refl parent_cmp parent_order) in E. discriminate.
  - rewrite IH. destruct (in_dec _ p r) as [i|n], (in_dec _ p (q :: r)) as [i'|n']; auto.
    + exfalso; apply n'; right; exact i.
    + destruct i' as [->|]; [|contradiction]. rewrite (fm_refl parent_cmp parent_order) in E. discriminate.
Qed.

Lemma find_parent_set p ps :
  find parent_cmp p (parent_set ps) = if in_dec (fm_dec parent_cmp parent_order) p ps then Some tt else None.
Proof.
  unfold parent_set. rewrite parent_set_as_fold.
  rewrite (find_fold_ins parent_cmp parent_order) by exact I. cbn [find].
  apply find_pairs_tt.
Qed.

Lemma canon_parents_set_eq ps1 ps2 :
  (forall p, In p ps1 <-> In p ps2) -> canon_parents ps1 = canon_parents ps2.
Proof.
  intros Hs. unfold canon_parents. f_equal.
  apply (sorted_ext parent_cmp p_eq p_as p_tr); try apply parent_set_sorted.
  intros p. rewrite !find_parent_set.
  destruct (in_dec _ p ps1) as [i|n], (in_dec _ p ps2) as [i'|n']; auto.
  - exfalso; apply n', Hs, i.
  - exfalso; apply n, Hs, i'.
Qed.

Lemma canon_parents_perm ps1 ps2 : Permutation ps1 ps2 -> canon_parents ps1 = canon_parents ps2.
Proof.
  intros HP. apply canon_parents_set_eq. intros p; split; apply Permutation_in; auto using Permutation_sym.
Qed.

Lemma canon_parents_dup p ps : canon_parents (p :: p :: ps) = canon_parents (p :: ps).
Proof. apply canon_parents_set_eq. intros q; cbn; tauto. Qed.

Lemma canon_parents_in p ps : In p (canon_parents ps) <-> In p ps.
Proof.
  unfold canon_parents. split.
  - intros Hin. apply in_map_iff in Hin. destruct Hin as [[q []] [E Hin]]. cbn in E; subst q.
    apply (in_find parent_cmp p_eq p_as p_tr) in Hin; [|apply parent_set_sorted].
    rewrite find_parent_set in Hin. destruct (in_dec _ p ps); [assumption|discriminate].
  - intros Hin. pose proof (find_parent_set p ps) as F.
    destruct (in_dec _ p ps) as [|n]; [|contradiction].
    apply (find_in parent_cmp p_eq) in F. apply in_map_iff. exists (p, tt). auto.
Qed.

(* the id is a function of (kind, bytes, parent SET): not of the target, not of the
   order or multiplicity in which parents are cited *)
Lemma id_function_of_content_l (H : bytes -> N) t1 t2 k b ps1 ps2 :
  (forall p, In p ps1 <-> In p ps2) ->
  ingress_id H (mk_envelope t1 k b ps1) = ingress_id H (mk_envelope t2 k b ps2).
Proof.
  intros Hs. unfold ingress_id, env_preimage, mk_envelope; cbn.
  rewrite (canon_parents_set_eq ps1 ps2 Hs). reflexivity.
Qed.

(* ------------------------------------------------------------------ *)
(* HeadInbox: ingest *)

Lemma ingest_policy ib i e : ib_policy (fst (ingest ib i e)) = ib_policy ib.
Proof.
  unfold ingest. destruct (policy_accepts (ib_policy ib) e); [|reflexivity].
  destruct (find N.compare i (ib_pending ib)); reflexivity.
Qed.

Lemma ingest_pending ib i e : isorted (ib_pending ib) ->
  ib_pending (fst (ingest ib i e)) =
  if policy_accepts (ib_policy ib) e then ins N.compare i e (ib_pending ib) else ib_pending ib.
Proof.
  intros Hs. unfold ingest. destruct (policy_accepts (ib_policy ib) e); [|reflexivity].
  destruct (find N.compare i (ib_pending ib)) eqn:F; cbn; [|reflexivity].
  symmetry. eapply ins_occupied; fn; eauto.
Qed.

Lemma ingest_sorted ib i e : isorted (ib_pending ib) -> isorted (ib_pending (fst (ingest ib i e))).
Proof.
  intros Hs. rewrite ingest_pending by exact Hs.
  destruct (policy_accepts (ib_policy ib) e); [apply ins_sorted; fn|]; auto.
Qed.

(* Occupied entry / rejected: the inbox is unchanged, whatever the envelope *)
Lemma ingest_result_spec ib i e : isorted (ib_pending ib) ->
  match snd (ingest ib i e) with
  | Accepted => policy_accepts (ib_policy ib) e = true /\ find N.compare i (ib_pending ib) = None /\
                find N.compare i (ib_pending (fst (ingest ib i e))) = Some e
  | Duplicate => policy_accepts (ib_policy ib) e = true /\ fst (ingest ib i e) = ib /\
                 exists x, find N.compare i (ib_pending ib) = Some x
  | Rejected => policy_accepts (ib_policy ib) e = false /\ fst (ingest ib i e) = ib
  end.
Proof.
  intros Hs. unfold ingest. destruct (policy_accepts (ib_policy ib) e) eqn:A; cbn; [|auto].
  destruct (find N.compare i (ib_pending ib)) eqn:F; cbn.
  - eauto.
  - split; [reflexivity|]. split; [reflexivity|].
    rewrite find_ins_same by (fn; auto). rewrite F. reflexivity.
Qed.

Section WithHashProofs.
  Variable H : bytes -> N.
  Notation iid := (ingress_id H).

  Definition kvs (p : policy) (l : list envelope) : list (N * envelope) :=
    map (fun e => (iid e, e)) (filter (policy_accepts p) l).

  Lemma ingest_all_spec l : forall ib, isorted (ib_pending ib) ->
    ingest_all H ib l =
    {| ib_pending := fold_left (fun m kv => ins N.compare (fst kv) (snd kv) m) (kvs (ib_policy ib) l) (ib_pending ib);
       ib_policy := ib_policy ib |}.
  Proof.
    induction l as [|e r IH]; intros ib Hs.
    - destruct ib; reflexivity.
    - unfold ingest_all in *. cbn [fold_left].
      rewrite IH by (apply ingest_sorted; exact Hs).
      rewrite ingest_policy, ingest_pending by exact Hs.
      unfold kvs. cbn [filter]. destruct (policy_accepts (ib_policy ib) e); reflexivity.
  Qed.

  Lemma ingest_all_sorted l ib : isorted (ib_pending ib) -> isorted (ib_pending (ingest_all H ib l)).
  Proof.
    intros Hs. rewrite ingest_all_spec by exact Hs. cbn. apply fold_ins_sorted; fn; auto.
  Qed.

  Lemma ingest_all_policy l ib : isorted (ib_pending ib) -> ib_policy (ingest_all H ib l) = ib_policy ib.
  Proof. intros Hs. rewrite ingest_all_spec by exact Hs. reflexivity. Qed.

  Lemma find_kvs_some p l k e :
    find N.compare k (kvs p l) = Some e -> In e l /\ policy_accepts p e = true /\ iid e = k.
  Proof.
    unfold kvs. induction l as [|x r IH]; cbn [filter map find]; [discriminate|].
    destruct (policy_accepts p x) eqn:A; cbn [map find].
    - destruct (N.compare k (iid x)) eqn:E.
      + apply N.compare_eq in E. intros Hx; inversion Hx; subst. auto using in_eq.
      + intros Hx. destruct (IH Hx) as [? [? ?]]. auto using in_cons.
      + intros Hx. destruct (IH Hx) as [? [? ?]]. auto using in_cons.
    - intros Hx. destruct (IH Hx) as [? [? ?]]. auto using in_cons.
  Qed.

  Lemma find_kvs_in p l e :
    In e l -> policy_accepts p e = true -> exists e', find N.compare (iid e) (kvs p l) = Some e'.
  Proof.
    unfold kvs. induction l as [|x r IH]; intros Hin A; [destruct Hin|].
    cbn [filter]. destruct Hin as [->|Hin].
    - rewrite A. cbn [map find]. rewrite N.compare_refl. eauto.
    - destruct (policy_accepts p x); cbn [map find]; auto.
      destruct (N.compare (iid e) (iid x)); eauto.
  Qed.

  (* The hypothesis under which first-wins is invisible: within the submitted
     collection an ingress id names one envelope. *)
  Definition id_determines_envelope (l : list envelope) : Prop :=
    forall e1 e2, In e1 l -> In e2 l -> iid e1 = iid e2 -> e1 = e2.

  Lemma find_kvs_set p l1 l2 k :
    id_determines_envelope l1 -> (forall e, In e l1 <-> In e l2) ->
    find N.compare k (kvs p l1) = find N.compare k (kvs p l2).
  Proof.
    intros Hd Hs.
    assert (Hd2 : id_determines_envelope l2).
    { intros e1 e2 H1 H2. apply Hd; apply Hs; assumption. }
    destruct (find N.compare k (kvs p l1)) as [e|] eqn:F1.
    - destruct (find_kvs_some _ _ _ _ F1) as [Hin [A E]].
      destruct (find_kvs_in p l2 e (proj1 (Hs e) Hin) A) as [e' F2]. rewrite E in F2.
      destruct (find_kvs_some _ _ _ _ F2) as [Hin' [_ E']].
      rewrite F2. f_equal. apply Hd2; auto. apply Hs; auto. congruence.
    - destruct (find N.compare k (kvs p l2)) as [e|] eqn:F2; [|reflexivity].
      destruct (find_kvs_some _ _ _ _ F2) as [Hin [A E]].
      destruct (find_kvs_in p l1 e (proj2 (Hs e) Hin) A) as [e' F1']. congruence.
  Qed.

  (* ingest_order_free *)
  Lemma ingest_all_set ib l1 l2 :
    isorted (ib_pending ib) -> id_determines_envelope l1 -> (forall e, In e l1 <-> In e l2) ->
    ingest_all H ib l1 = ingest_all H ib l2.
  Proof.
    intros Hs Hd Hset. rewrite !ingest_all_spec by exact Hs. f_equal.
    apply (sorted_ext N.compare n_eq n_as n_tr); try (apply fold_ins_sorted; fn; auto).
    intros k. rewrite !(find_fold_ins N.compare N_order) by exact Hs.
    destruct (find N.compare k (ib_pending ib)); [reflexivity|].
    apply find_kvs_set; auto.
  Qed.

  (* without any hypothesis the pending ID SET is still arrival-order free *)
  Lemma ingest_all_ids_set ib l1 l2 :
    isorted (ib_pending ib) -> (forall e, In e l1 <-> In e l2) ->
    map fst (ib_pending (ingest_all H ib l1)) = map fst (ib_pending (ingest_all H ib l2)).
  Proof.
    intros Hs Hset. rewrite !ingest_all_spec by exact Hs. cbn [ib_pending].
    apply (keys_ext N.compare N_order); try (apply fold_ins_sorted; fn; auto).
    intros k. unfold mem. rewrite !(find_fold_ins N.compare N_order) by exact Hs.
    destruct (find N.compare k (ib_pending ib)); [reflexivity|].
    destruct (find N.compare k (kvs (ib_policy ib) l1)) as [e|] eqn:F1.
    - destruct (find_kvs_some _ _ _ _ F1) as [Hin [A E]].
      destruct (find_kvs_in (ib_policy ib) l2 e (proj1 (Hset e) Hin) A) as [e' F2].
      rewrite E in F2. rewrite F2. reflexivity.
    - destruct (find N.compare k (kvs (ib_policy ib) l2)) as [e|] eqn:F2; [|reflexivity].
      destruct (find_kvs_some _ _ _ _ F2) as [Hin [A E]].
      destruct (find_kvs_in (ib_policy ib) l1 e (proj2 (Hset e) Hin) A) as [e' F1']. congruence.
  Qed.

  (* a retry is a no-op: same id while pending => Duplicate and the inbox is unchanged *)
  Lemma ingest_retry ib e e' : isorted (ib_pending ib) -> iid e' = iid e ->
    policy_accepts (ib_policy ib) e = true -> policy_accepts (ib_policy ib) e' = true ->
    ingest (fst (ingest ib (iid e) e)) (iid e') e' = (fst (ingest ib (iid e) e), Duplicate).
  Proof.
    intros Hs E A A'. rewrite E.
    assert (F : exists x, find N.compare (iid e) (ib_pending (fst (ingest ib (iid e) e))) = Some x).
    { rewrite ingest_pending, A by exact Hs. rewrite find_ins_same by (fn; auto).
      destruct (find N.compare (iid e) (ib_pending ib)); eauto. }
    destruct F as [x F]. unfold ingest at 1. rewrite ingest_policy, A', F. reflexivity.
  Qed.

  (* F11: the id does not cover the target and Occupied keeps the FIRST envelope:
     two spellings of one content leave an order-dependent retained envelope. *)
  Lemma ingest_target_spelling_witness :
    exists e1 e2 : envelope,
      content e1 = content e2 /\ iid e1 = iid e2 /\ e1 <> e2 /\
      ingest_all H (inbox_new AcceptAll) [e1; e2] <> ingest_all H (inbox_new AcceptAll) [e2; e1] /\
      map fst (ib_pending (ingest_all H (inbox_new AcceptAll) [e1; e2])) =
      map fst (ib_pending (ingest_all H (inbox_new AcceptAll) [e2; e1])).
  Proof.
    exists (mk_envelope (TDefault 1) 7 [1; 2] []), (mk_envelope (TExact 1 5) 7 [1; 2] []).
    split; [reflexivity|]. split; [reflexivity|]. split; [discriminate|].
    unfold ingest_all, ingest, inbox_new. cbn [fold_left fst snd ib_policy ib_pending policy_accepts find ins].
    assert (E : iid (mk_envelope (TExact 1 5) 7 [1; 2] []) = iid (mk_envelope (TDefault 1) 7 [1; 2] [])) by reflexivity.
    rewrite E. cbn [find ins fst snd ib_pending ib_policy]. rewrite N.compare_refl. cbn.
    split; [discriminate|reflexivity].
  Qed.
End WithHashProofs.

(* ------------------------------------------------------------------ *)
(* HeadInbox: inbox_admit *)

Lemma take_drop {A} (l : list A) : forall n, takeN l n ++ dropN l n = l.
Proof.
  induction l as [|x r IH]; intros n; cbn; [reflexivity|].
  destruct (n =? 0); cbn; [reflexivity|]. rewrite IH. reflexivity.
Qed.

Lemma takeN_len {A} (l : list A) : forall n, lenN (takeN l n) = N.min n (lenN l).
Proof.
  unfold lenN. induction l as [|x r IH]; intros n; cbn [takeN length].
  - cbn. lia.
  - destruct (n =? 0) eqn:E.
    + apply N.eqb_eq in E; subst. cbn. lia.
    + apply N.eqb_neq in E. cbn [length]. rewrite !Nat2N.inj_succ, IH. lia.
Qed.

(* admit_canonical: the batch is the prefix of the id-ordered pending map of
   length min(budget, |pending|) (everything, for AcceptAll / KindFilter);
   it is strictly ascending and every admitted id is below every id left pending. *)
Lemma admit_spec ib ib' batch : isorted (ib_pending ib) -> inbox_admit ib = (ib', batch) ->
  ib_pending ib = batch ++ ib_pending ib' /\ ib_policy ib' = ib_policy ib /\
  lenN batch = match ib_policy ib with Budgeted n => N.min n (lenN (ib_pending ib)) | _ => lenN (ib_pending ib) end /\
  isorted batch /\ isorted (ib_pending ib') /\
  (forall i e j e', In (i, e) batch -> In (j, e') (ib_pending ib') -> i < j).
Proof.
  intros Hs Ha.
  assert (Happ : ib_pending ib = batch ++ ib_pending ib' /\ ib_policy ib' = ib_policy ib /\
          lenN batch = match ib_policy ib with Budgeted n => N.min n (lenN (ib_pending ib)) | _ => lenN (ib_pending ib) end).
  { unfold inbox_admit in Ha. destruct (ib_policy ib) eqn:P; inversion Ha; subst; cbn [ib_pending ib_policy].
    - rewrite app_nil_r; auto.
    - rewrite app_nil_r; auto.
    - rewrite take_drop, takeN_len; auto. }
  destruct Happ as [Happ [Hp Hl]]. split; [exact Happ|]. split; [exact Hp|]. split; [exact Hl|].
  rewrite Happ in Hs. destruct (sorted_app_inv N.compare N_order _ _ Hs) as [Ha' [Hb Hab]].
  split; [exact Ha'|]. split; [exact Hb|].
  intros i e j e' Hi Hj. apply N.compare_lt_iff. eapply Hab; eauto.
Qed.

Lemma admit_batch_nodup ib ib' batch : isorted (ib_pending ib) -> inbox_admit ib = (ib', batch) ->
  NoDup (map fst batch).
Proof.
  intros Hs Ha. destruct (admit_spec _ _ _ Hs Ha) as [_ [_ [_ [Hb _]]]].
  apply (sorted_nodup_keys N.compare N_order). exact Hb.
Qed.

(* commit_with_state's dedupe of the admitted batch never drops anything *)
Lemma commit_dedupe_id batch : forall seen,
  NoDup (map fst batch) -> (forall i, In i seen -> ~ In i (map fst batch)) ->
  commit_dedupe seen batch = batch.
Proof.
  induction batch as [|[i e] r IH]; intros seen Hnd Hseen; cbn; [reflexivity|].
  cbn in Hnd. inversion Hnd as [|a l Hni Hnd']; subst.
  destruct (existsb (N.eqb i) seen) eqn:E.
  - apply existsb_exists in E. destruct E as [x [Hx Ex]]. apply N.eqb_eq in Ex; subst x.
    exfalso. apply (Hseen i Hx). left; reflexivity.
  - f_equal. apply IH; auto. intros j [->|Hj]; [exact Hni|].
    intro Hin. apply (Hseen j Hj). right; exact Hin.
Qed.

(* ------------------------------------------------------------------ *)
(* runtime slice: well-formedness *)

Definition cmem (x : ckey) (cm : list (ckey * unit)) : Prop := mem ckey_cmp x cm = true.

Lemma mem_set {K V} (cmp : K -> K -> comparison) (L : OrderLaws cmp) k' k (v : V) m :
  mem cmp k' (set cmp k v m) = true <-> k' = k \/ mem cmp k' m = true.
Proof.
  unfold mem. destruct (fm_dec cmp L k' k) as [->|Hne].
  - rewrite find_set_same by apply (ol_eq cmp L). tauto.
  - rewrite find_set_other by (try apply (ol_eq cmp L); auto). tauto.
Qed.

Lemma sorted_filter {V} (f : N * V -> bool) (m : list (N * V)) : isorted m -> isorted (filter f m).
Proof.
  induction m as [|[k v] r IH]; cbn; [tauto|]. intros [Hlb Hs].
  destruct (f (k, v)); [|auto]. cbn. split; [|auto].
  assert (Hall : forall k' v', In (k', v') (filter f r) -> N.compare k k' = Lt).
  { intros k' v' Hin. apply filter_In in Hin. eapply (lb_all N.compare n_tr k r Hs Hlb); apply Hin. }
  destruct (filter f r) as [|[k2 v2] r2]; [exact I|]. cbn. eapply Hall. left; reflexivity.
Qed.

Lemma filter_find_sub {V} (f : N * V -> bool) (m : list (N * V)) i : isorted m ->
  mem N.compare i (filter f m) = true -> mem N.compare i m = true.
Proof.
  intros Hs. unfold mem. destruct (find N.compare i (filter f m)) eqn:F; [|discriminate]. intros _.
  apply (find_in N.compare n_eq) in F. apply filter_In in F. destruct F as [Hin _].
  rewrite (in_find N.compare n_eq n_as n_tr _ _ _ Hs Hin). reflexivity.
Qed.

Definition heads_ok (hs : list (hkey * hstate)) : Prop :=
  hsorted hs /\ forall h s, In (h, s) hs -> isorted (ib_pending (hs_inbox s)).

(* pending ∩ committed = ∅, per head *)
Definition heads_disjoint (hs : list (hkey * hstate)) (cm : list (ckey * unit)) : Prop :=
  forall h s i, In (h, s) hs -> mem N.compare i (ib_pending (hs_inbox s)) = true -> ~ cmem (h, i) cm.

Definition rt_wf (rt : runtime) : Prop :=
  heads_ok (rt_heads rt) /\ csorted (rt_committed rt) /\ heads_disjoint (rt_heads rt) (rt_committed rt).

Lemma with_inbox_eta s : with_inbox s (hs_inbox s) = s.
Proof. destruct s; reflexivity. Qed.

Lemma heads_ok_set hs h s : heads_ok hs -> isorted (ib_pending (hs_inbox s)) -> heads_ok (set hkey_cmp h s hs).
Proof.
  intros [Hs Hin] Hi. split; [apply set_sorted; fh; auto|].
  intros h' s' Hin'.
  assert (Hso : hsorted (set hkey_cmp h s hs)) by (apply set_sorted; fh; auto).
  pose proof (in_find hkey_cmp h_eq h_as h_tr _ _ _ Hso Hin') as F.
  destruct (fm_dec hkey_cmp hkey_order h' h) as [->|Hne].
  - rewrite find_set_same in F by fh. inversion F; subst; auto.
  - rewrite find_set_other in F by (fh; auto). apply (find_in hkey_cmp h_eq) in F. eauto.
Qed.

Lemma in_set_cases (hs : list (hkey * hstate)) h s h' s' : hsorted hs -> In (h', s') (set hkey_cmp h s hs) ->
  (h' = h /\ s' = s) \/ (h' <> h /\ In (h', s') hs).
Proof.
  intros Hs Hin.
  assert (Hso : hsorted (set hkey_cmp h s hs)) by (apply set_sorted; fh; auto).
  pose proof (in_find hkey_cmp h_eq h_as h_tr _ _ _ Hso Hin) as F.
  destruct (fm_dec hkey_cmp hkey_order h' h) as [->|Hne].
  - rewrite find_set_same in F by fh. inversion F; auto.
  - rewrite find_set_other in F by (fh; auto). apply (find_in hkey_cmp h_eq) in F. auto.
Qed.

(* ------------------------------------------------------------------ *)
(* the scheduler pass *)

Lemma nodup_app_intro {A} (a b : list A) :
  NoDup a -> NoDup b -> (forall x, In x a -> In x b -> False) -> NoDup (a ++ b).
Proof.
  induction a as [|x a IH]; intros Ha Hb Hd; cbn; [exact Hb|].
  inversion Ha as [|y l Hni Hnd]; subst. constructor.
  - intro Hin. apply in_app_iff in Hin. destruct Hin as [Hin|Hin]; [contradiction|].
    eapply Hd; [left; reflexivity|exact Hin].
  - apply IH; auto. intros z Hz Hz'. eapply Hd; [right; exact Hz|exact Hz'].
Qed.

Definition batch_commits (hb : hkey * list (N * envelope)) : list ckey :=
  map (fun ie => (fst hb, fst ie)) (snd hb).
Definition commits (bs : list (hkey * list (N * envelope))) : list ckey := flat_map batch_commits bs.

Lemma record_committed_spec h (batch : list (N * envelope)) : forall cm, csorted cm ->
  csorted (record_committed h batch cm) /\
  forall x, cmem x (record_committed h batch cm) <-> cmem x cm \/ In x (batch_commits (h, batch)).
Proof.
  unfold record_committed, batch_commits. cbn [fst snd].
  induction batch as [|[i e] r IH]; intros cm Hs; cbn [fold_left map].
  - split; [exact Hs|]. intros x; cbn; tauto.
  - destruct (IH (set ckey_cmp (h, i) tt cm)) as [Hs' Hm]; [apply set_sorted; fc; auto|].
    split; [exact Hs'|]. intros x. rewrite Hm. unfold cmem at 1. rewrite (mem_set ckey_cmp ckey_order).
    cbn [fst In]. unfold cmem. intuition congruence.
Qed.

Lemma hsorted_keys_gt h (s : hstate) r : hsorted ((h, s) :: r) -> forall h' s', In (h', s') r -> h' <> h.
Proof.
  cbn. intros [Hlb Hs] h' s' Hin E. subst h'.
  pose proof (lb_all hkey_cmp h_tr h r Hs Hlb h s' Hin) as Hlt.
  rewrite (fm_refl hkey_cmp hkey_order) in Hlt. discriminate.
Qed.

Lemma inbox_admit_pending_sub ib ib' batch i : isorted (ib_pending ib) -> inbox_admit ib = (ib', batch) ->
  mem N.compare i (ib_pending ib') = true ->
  mem N.compare i (ib_pending ib) = true /\ ~ In i (map fst batch).
Proof.
  intros Hs Ha Hm. destruct (admit_spec _ _ _ Hs Ha) as [Happ [_ [_ [_ [Hs' Hlt]]]]].
  unfold mem in *. destruct (find N.compare i (ib_pending ib')) as [e|] eqn:F; [|discriminate].
  apply (find_in N.compare n_eq) in F. split.
  - assert (Hin : In (i, e) (ib_pending ib)) by (rewrite Happ; apply in_or_app; right; exact F).
    rewrite (in_find N.compare n_eq n_as n_tr _ _ _ Hs Hin). reflexivity.
  - intro Hin. apply in_map_iff in Hin. destruct Hin as [[j e'] [E Hin]]. cbn in E; subst j.
    specialize (Hlt i e' i e Hin F). lia.
Qed.

Lemma inbox_admit_batch_sub ib ib' batch i e : isorted (ib_pending ib) -> inbox_admit ib = (ib', batch) ->
  In (i, e) batch -> mem N.compare i (ib_pending ib) = true.
Proof.
  intros Hs Ha Hin. destruct (admit_spec _ _ _ Hs Ha) as [Happ _].
  assert (Hin' : In (i, e) (ib_pending ib)) by (rewrite Happ; apply in_or_app; left; exact Hin).
  unfold mem. rewrite (in_find N.compare n_eq n_as n_tr _ _ _ Hs Hin'). reflexivity.
Qed.

(* one pass over the heads: what it commits is fresh, duplicate free, and the
   invariant pending ∩ committed = ∅ is re-established *)
Lemma pass_heads_spec hs : forall cm hs' cm' bs,
  heads_ok hs -> csorted cm -> heads_disjoint hs cm ->
  pass_heads hs cm = (hs', cm', bs) ->
  map fst hs' = map fst hs /\ heads_ok hs' /\ csorted cm' /\
  (forall x, cmem x cm' <-> cmem x cm \/ In x (commits bs)) /\
  NoDup (commits bs) /\
  (forall x, In x (commits bs) -> ~ cmem x cm /\ In (fst x) (map fst hs)) /\
  heads_disjoint hs' cm' /\
  (forall h b, In (h, b) bs -> NoDup (map fst b) /\ b <> []).
Proof.
  induction hs as [|[h s] r IH]; intros cm hs' cm' bs Hok Hcs Hdj Hp.
  - cbn in Hp. inversion Hp; subst. cbn.
    repeat split; auto; try tauto; try constructor; try (intros ? ? []); try (intros ? ? ? []).
  - assert (Hokr : heads_ok r).
    { destruct Hok as [Hs Hin]. split; [cbn in Hs; tauto|]. intros; eapply Hin; right; eauto. }
    assert (Hne : forall h' s', In (h', s') r -> h' <> h) by (apply (hsorted_keys_gt h s r); apply Hok).
    assert (Hsi : isorted (ib_pending (hs_inbox s))) by (eapply (proj2 Hok); left; reflexivity).
    assert (Hdjr : forall cm0, (forall x, cmem x cm0 -> cmem x cm \/ fst x = h) -> heads_disjoint r cm0).
    { intros cm0 Hsub h' s' i Hin Hm Hc. destruct (Hsub _ Hc) as [Hc'|E].
      - eapply Hdj; [right; exact Hin|exact Hm|exact Hc'].
      - cbn in E. eapply Hne; eauto. }
    cbn [pass_heads] in Hp. destruct (hs_admitted s) eqn:Adm.
    + destruct (inbox_admit (hs_inbox s)) as [ib' batch] eqn:Ha.
      assert (Hdd : commit_dedupe [] batch = batch).
      { apply commit_dedupe_id; [|intros ? []].
        apply (sorted_nodup_keys N.compare N_order). apply (admit_spec _ _ _ Hsi Ha). }
      rewrite Hdd in Hp. clear Hdd.
      destruct batch as [|b0 bt].
      * (* nothing admitted *)
        destruct (pass_heads r cm) as [[r' cm1] bs1] eqn:Hr. injection Hp as E1 E2 E3; subst hs' cm' bs.
        destruct (IH cm r' cm1 bs1 Hokr Hcs (Hdjr cm (fun x Hx => or_introl Hx)) Hr)
          as [Hk [Hok' [Hcs' [Hm [Hnd [Hfresh [Hdj' Hbs]]]]]]].
        destruct (admit_spec _ _ _ Hsi Ha) as [Happ [_ [_ [_ [Hs' _]]]]]. cbn [app] in Happ.
        split; [cbn; f_equal; exact Hk|].
        split.
        { destruct Hok' as [Hs1 Hin1]. split.
          - cbn. split; [|exact Hs1]. destruct Hok as [[Hlb _] _].
            destruct r' as [|[k2 v2] r2]; [exact I|]. destruct r as [|[k3 v3] r3]; [discriminate|].
            cbn in Hk. inversion Hk; subst. exact Hlb.
          - intros h' s' [E|Hin]; [inversion E; subst; cbn; exact Hs'|eauto]. }
        split; [exact Hcs'|]. split; [exact Hm|]. split; [exact Hnd|].
        split; [intros x Hx; destruct (Hfresh x Hx); split; auto; cbn; right; auto|].
        split; [|exact Hbs].
        intros h' s' i [E|Hin] Hmem Hc.
        -- inversion E; subst h' s'; clear E. cbn [with_inbox hs_inbox] in Hmem.
           rewrite <- Happ in Hmem. apply Hm in Hc. destruct Hc as [Hc|Hc].
           ++ eapply Hdj; [left; reflexivity|exact Hmem|exact Hc].
           ++ destruct (Hfresh _ Hc) as [_ Hin]. cbn in Hin. apply in_map_iff in Hin.
              destruct Hin as [[h2 s2] [E2 Hin]]. cbn in E2; subst h2. eapply Hne; eauto.
        -- eapply Hdj'; eauto.
      * (* a batch is committed *)
        set (batch := b0 :: bt) in *.
        destruct (record_committed_spec h batch cm Hcs) as [Hcs1 Hm1].
        destruct (pass_heads r (record_committed h batch cm)) as [[r' cm1] bs1] eqn:Hr.
        injection Hp as E1 E2 E3; subst hs' cm' bs.
        assert (Hdj1 : heads_disjoint r (record_committed h batch cm)).
        { apply Hdjr. intros x Hx. apply Hm1 in Hx. destruct Hx as [Hx|Hx]; [auto|].
          right. unfold batch_commits in Hx. apply in_map_iff in Hx. destruct Hx as [ie [E _]]. subst x. reflexivity. }
        destruct (IH _ r' cm1 bs1 Hokr Hcs1 Hdj1 Hr)
          as [Hk [Hok' [Hcs' [Hm [Hnd [Hfresh [Hdj' Hbs]]]]]]].
        destruct (admit_spec _ _ _ Hsi Ha) as [Happ [_ [_ [Hsb [Hs' _]]]]].
        assert (Hndb : NoDup (map fst batch)) by (apply (sorted_nodup_keys N.compare N_order); exact Hsb).
        assert (Hbc : forall x, In x (batch_commits (h, batch)) -> fst x = h /\ ~ cmem x cm).
        { intros x Hx. unfold batch_commits in Hx. cbn [fst snd] in Hx. apply in_map_iff in Hx.
          destruct Hx as [[i e] [E Hin]]. subst x. split; [reflexivity|]. cbn [fst].
          eapply Hdj; [left; reflexivity|]. eapply inbox_admit_batch_sub; eauto. }
        split; [cbn; f_equal; exact Hk|].
        split.
        { destruct Hok' as [Hs1 Hin1]. split.
          - cbn. split; [|exact Hs1]. destruct Hok as [[Hlb _] _].
            destruct r' as [|[k2 v2] r2]; [exact I|]. destruct r as [|[k3 v3] r3]; [discriminate|].
            cbn in Hk. inversion Hk; subst. exact Hlb.
          - intros h' s' [E|Hin]; [inversion E; subst; cbn; exact Hs'|eauto]. }
        split; [exact Hcs'|].
        split.
        { intros x. rewrite Hm, Hm1. unfold commits. cbn [flat_map]. rewrite in_app_iff. tauto. }
        split.
        { unfold commits. cbn [flat_map]. apply nodup_app_intro.
          - unfold batch_commits. cbn [fst snd].
            clear - Hndb. induction batch as [|[i e] bt' IHb]; cbn; [constructor|].
            cbn in Hndb. inversion Hndb as [|a l Hni Hnd']; subst. constructor; auto.
            intro Hin. apply Hni. apply in_map_iff in Hin. destruct Hin as [[j e'] [E Hin]].
            inversion E; subst. apply in_map_iff. exists (i, e'). auto.
          - exact Hnd.
          - intros x Hx Hx'. destruct (Hbc x Hx) as [E _]. destruct (Hfresh x Hx') as [_ Hin].
            apply in_map_iff in Hin. destruct Hin as [[h2 s2] [E2 Hin]]. cbn in E2. eapply Hne; eauto. congruence. }
        split.
        { intros x Hx. unfold commits in Hx. cbn [flat_map] in Hx. apply in_app_iff in Hx. destruct Hx as [Hx|Hx].
          - destruct (Hbc x Hx) as [E Hn]. split; [exact Hn|]. cbn. left. auto.
          - destruct (Hfresh x Hx) as [Hn Hin]. split; [|cbn; right; exact Hin].
            intro Hc. apply Hn. apply Hm1. left. exact Hc. }
        split.
        { intros h' s' i [E|Hin] Hmem Hc.
          - inversion E; subst h' s'; clear E. cbn [with_inbox hs_inbox] in Hmem.
            destruct (inbox_admit_pending_sub _ _ _ i Hsi Ha Hmem) as [Hp' Hnb].
            apply Hm in Hc. destruct Hc as [Hc|Hc].
            + apply Hm1 in Hc. destruct Hc as [Hc|Hc].
              * eapply Hdj; [left; reflexivity|exact Hp'|exact Hc].
              * apply Hnb. unfold batch_commits in Hc. cbn [fst snd] in Hc. apply in_map_iff in Hc.
                destruct Hc as [[j e'] [E Hin]]. inversion E; subst. apply in_map_iff. exists (i, e'). auto.
            + destruct (Hfresh _ Hc) as [_ Hin]. cbn in Hin. apply in_map_iff in Hin.
              destruct Hin as [[h2 s2] [E2 Hin]]. cbn in E2; subst h2. eapply Hne; eauto.
          - eapply Hdj'; eauto. }
        intros h' b [E|Hin]; [inversion E; subst; split; [exact Hndb|discriminate]|eauto].
    + (* head not admitted: skipped *)
      destruct (pass_heads r cm) as [[r' cm1] bs1] eqn:Hr. injection Hp as E1 E2 E3; subst hs' cm' bs.
      destruct (IH cm r' cm1 bs1 Hokr Hcs (Hdjr cm (fun x Hx => or_introl Hx)) Hr)
        as [Hk [Hok' [Hcs' [Hm [Hnd [Hfresh [Hdj' Hbs]]]]]]].
      split; [cbn; f_equal; exact Hk|].
      split.
      { destruct Hok' as [Hs1 Hin1]. split.
        - cbn. split; [|exact Hs1]. destruct Hok as [[Hlb _] _].
          destruct r' as [|[k2 v2] r2]; [exact I|]. destruct r as [|[k3 v3] r3]; [discriminate|].
          cbn in Hk. inversion Hk; subst. exact Hlb.
        - intros h' s' [E|Hin]; [inversion E; subst; exact Hsi|eauto]. }
      split; [exact Hcs'|]. split; [exact Hm|]. split; [exact Hnd|].
      split; [intros x Hx; destruct (Hfresh x Hx); split; auto; cbn; right; auto|].
      split; [|exact Hbs].
      intros h' s' i [E|Hin] Hmem Hc.
      * inversion E; subst h' s'; clear E. apply Hm in Hc. destruct Hc as [Hc|Hc].
        -- eapply Hdj; [left; reflexivity|exact Hmem|exact Hc].
        -- destruct (Hfresh _ Hc) as [_ Hin]. cbn in Hin. apply in_map_iff in Hin.
           destruct Hin as [[h2 s2] [E2 Hin]]. cbn in E2; subst h2. eapply Hne; eauto.
      * eapply Hdj'; eauto.
Qed.

(* ------------------------------------------------------------------ *)
(* runtime steps *)

Definition hkey_eqb (a b : hkey) : bool := match hkey_cmp a b with Eq => true | _ => false end.

Lemma hkey_eqb_eq a b : hkey_eqb a b = true <-> a = b.
Proof. unfold hkey_eqb. destruct (hkey_cmp a b) eqn:E; split; intros X; try discriminate; try reflexivity.
  - apply h_eq; exact E.
  - subst. rewrite (fm_refl hkey_cmp hkey_order) in E. discriminate.
  - subst. rewrite (fm_refl hkey_cmp hkey_order) in E. discriminate.
Qed.

Lemma mem_ins_cases {V} i0 i (e : V) m : isorted m ->
  mem N.compare i0 (ins N.compare i e m) = true -> i0 = i \/ mem N.compare i0 m = true.
Proof.
  intros Hs. unfold mem. destruct (N.eq_dec i0 i) as [->|Hne]; [auto|].
  rewrite find_ins_other by (fn; auto). auto.
Qed.

Section RuntimeProofs.
  Variable H : bytes -> N.
  Notation iid := (ingress_id H).

  (* does this submission reach the inbox of head h? *)
  Definition goes (rt : runtime) (e : envelope) (h : hkey) : bool :=
    match resolve rt (e_target e) with
    | RHead h' => hkey_eqb h' h && negb (mem ckey_cmp (h, iid e) (rt_committed rt))
    | _ => false
    end.

  Lemma submit_fields rt e :
    rt_worlds (fst (submit H rt e)) = rt_worlds rt /\ rt_defaults (fst (submit H rt e)) = rt_defaults rt /\
    rt_named (fst (submit H rt e)) = rt_named rt /\ rt_committed (fst (submit H rt e)) = rt_committed rt.
  Proof.
    unfold submit. destruct (resolve rt (e_target e)); cbn; auto.
    destruct (mem ckey_cmp (h, iid e) (rt_committed rt)); cbn; auto.
    destruct (find hkey_cmp h (rt_heads rt)); cbn; auto.
    destruct (ingest (hs_inbox h0) (iid e) e) as [ib' []]; cbn; auto.
  Qed.

  Lemma opt_id {A} (o : option A) : match o with Some s => Some s | None => None end = o.
  Proof. destruct o; reflexivity. Qed.

  Lemma submit_heads rt e h : rt_wf rt ->
    find hkey_cmp h (rt_heads (fst (submit H rt e))) =
    match find hkey_cmp h (rt_heads rt) with
    | Some s => Some (if goes rt e h then with_inbox s (fst (ingest (hs_inbox s) (iid e) e)) else s)
    | None => None
    end.
  Proof.
    intros [[Hhs Hin] [Hcs Hdj]]. unfold submit, goes.
    destruct (resolve rt (e_target e)) as [h'| | |] eqn:R; cbn [fst]; try (symmetry; apply opt_id).
    destruct (hkey_eqb h' h) eqn:Eq.
    - apply hkey_eqb_eq in Eq; subst h'. cbn [andb].
      destruct (mem ckey_cmp (h, iid e) (rt_committed rt)) eqn:C; cbn [fst negb]; [symmetry; apply opt_id|].
      destruct (find hkey_cmp h (rt_heads rt)) as [s|] eqn:F; cbn [fst]; [|rewrite F; reflexivity].
      assert (Hsi : isorted (ib_pending (hs_inbox s))) by (eapply Hin; apply (find_in hkey_cmp h_eq); exact F).
      pose proof (ingest_result_spec (hs_inbox s) (iid e) e Hsi) as Sp.
      destruct (ingest (hs_inbox s) (iid e) e) as [ib' []] eqn:I; cbn [fst snd] in *.
      + cbn [with_heads rt_heads]. rewrite find_set_same by fh. reflexivity.
      + destruct Sp as [_ [-> _]]. rewrite F, with_inbox_eta. reflexivity.
      + destruct Sp as [_ ->]. rewrite F, with_inbox_eta. reflexivity.
    - cbn [andb].
      assert (Hne : h <> h') by (intro; subst; rewrite (proj2 (hkey_eqb_eq h' h') eq_refl) in Eq; discriminate).
      destruct (mem ckey_cmp (h', iid e) (rt_committed rt)); cbn [fst]; [symmetry; apply opt_id|].
      destruct (find hkey_cmp h' (rt_heads rt)) as [s|] eqn:F; cbn [fst]; [|symmetry; apply opt_id].
      destruct (ingest (hs_inbox s) (iid e) e) as [ib' []]; cbn [fst]; try (symmetry; apply opt_id).
      cbn [with_heads rt_heads]. rewrite find_set_other by (fh; auto). symmetry; apply opt_id.
  Qed.

  Lemma submit_wf rt e : rt_wf rt -> rt_wf (fst (submit H rt e)).
  Proof.
    intros Hwf. pose proof Hwf as [[Hhs Hin] [Hcs Hdj]]. unfold submit.
    destruct (resolve rt (e_target e)) as [h| | |]; cbn [fst]; auto.
    destruct (mem ckey_cmp (h, iid e) (rt_committed rt)) eqn:C; cbn [fst]; auto.
    destruct (find hkey_cmp h (rt_heads rt)) as [s|] eqn:F; cbn [fst]; auto.
    assert (Hsi : isorted (ib_pending (hs_inbox s))) by (eapply Hin; apply (find_in hkey_cmp h_eq); exact F).
    pose proof (ingest_sorted (hs_inbox s) (iid e) e Hsi) as Hs'.
    pose proof (ingest_pending (hs_inbox s) (iid e) e Hsi) as Hp.
    destruct (ingest (hs_inbox s) (iid e) e) as [ib' []] eqn:I; cbn [fst] in *; auto.
    split; [|split].
    - cbn. apply heads_ok_set; [split; assumption|exact Hs'].
    - exact Hcs.
    - cbn [with_heads rt_heads rt_committed]. intros h' s' i Hin' Hm.
      destruct (in_set_cases _ _ _ _ _ Hhs Hin') as [[-> ->]|[Hne Hold]].
      + cbn [with_inbox hs_inbox] in Hm. rewrite Hp in Hm.
        destruct (policy_accepts (ib_policy (hs_inbox s)) e).
        * destruct (mem_ins_cases _ _ _ _ Hsi Hm) as [->|Hm'].
          -- unfold cmem. rewrite C. discriminate.
          -- eapply Hdj; [apply (find_in hkey_cmp h_eq); exact F|exact Hm'].
        * eapply Hdj; [apply (find_in hkey_cmp h_eq); exact F|exact Hm].
      + eapply Hdj; eauto.
  Qed.

  Lemma mem_heads_submit rt e h : rt_wf rt ->
    mem hkey_cmp h (rt_heads (fst (submit H rt e))) = mem hkey_cmp h (rt_heads rt).
  Proof.
    intros Hwf. unfold mem. rewrite submit_heads by exact Hwf.
    destruct (find hkey_cmp h (rt_heads rt)); reflexivity.
  Qed.

  Lemma resolve_submit rt e t : rt_wf rt -> resolve (fst (submit H rt e)) t = resolve rt t.
  Proof.
    intros Hwf. destruct (submit_fields rt e) as [_ [Hd [Hn _]]].
    destruct t; cbn; rewrite ?Hd, ?Hn, ?mem_heads_submit by exact Hwf; reflexivity.
  Qed.

  Lemma goes_submit rt e e' h : rt_wf rt -> goes (fst (submit H rt e)) e' h = goes rt e' h.
  Proof.
    intros Hwf. unfold goes. rewrite resolve_submit by exact Hwf.
    destruct (submit_fields rt e) as [_ [_ [_ ->]]]. reflexivity.
  Qed.

  Lemma submit_all_wf l : forall rt, rt_wf rt -> rt_wf (submit_all H rt l).
  Proof.
    unfold submit_all. induction l as [|e r IH]; intros rt Hwf; cbn; auto. apply IH, submit_wf, Hwf.
  Qed.

  Lemma submit_all_fields l : forall rt,
    rt_worlds (submit_all H rt l) = rt_worlds rt /\ rt_defaults (submit_all H rt l) = rt_defaults rt /\
    rt_named (submit_all H rt l) = rt_named rt /\ rt_committed (submit_all H rt l) = rt_committed rt.
  Proof.
    unfold submit_all. induction l as [|e r IH]; intros rt; cbn; auto.
    destruct (IH (fst (submit H rt e))) as [A [B [C D]]]. destruct (submit_fields rt e) as [A' [B' [C' D']]].
    repeat split; congruence.
  Qed.

  (* bulk submission = per head, bulk ingestion of what is routed to that head *)
  Lemma submit_all_heads l : forall rt h, rt_wf rt ->
    find hkey_cmp h (rt_heads (submit_all H rt l)) =
    match find hkey_cmp h (rt_heads rt) with
    | Some s => Some (with_inbox s (ingest_all H (hs_inbox s) (filter (fun e => goes rt e h) l)))
    | None => None
    end.
  Proof.
    induction l as [|e r IH]; intros rt h Hwf.
    - cbn. destruct (find hkey_cmp h (rt_heads rt)) as [s|]; [|reflexivity]. unfold ingest_all. cbn.
      rewrite with_inbox_eta. reflexivity.
    - unfold submit_all in *. cbn [fold_left]. rewrite IH by (apply submit_wf; exact Hwf).
      rewrite submit_heads by exact Hwf.
      destruct (find hkey_cmp h (rt_heads rt)) as [s|]; [|reflexivity]. f_equal.
      rewrite (filter_ext (fun e0 => goes (fst (submit H rt e)) e0 h) (fun e0 => goes rt e0 h))
        by (intros; apply goes_submit; exact Hwf).
      cbn [filter]. destruct (goes rt e h); [|reflexivity].
      destruct s as [ib adm]. cbn [with_inbox hs_inbox hs_admitted]. unfold ingest_all. reflexivity.
  Qed.

  Definition id_determines_envelope_per_head (rt : runtime) (l : list envelope) : Prop :=
    forall e1 e2, In e1 l -> In e2 l -> iid e1 = iid e2 ->
      resolve rt (e_target e1) = resolve rt (e_target e2) -> e1 = e2.

  (* pass_order_free: the whole runtime state after a window of submissions depends on the
     submitted SET only; hence so do all later passes, dispositions and commits *)
  Lemma submit_all_set rt l1 l2 : rt_wf rt -> id_determines_envelope_per_head rt l1 ->
    (forall e, In e l1 <-> In e l2) -> submit_all H rt l1 = submit_all H rt l2.
  Proof.
    intros Hwf Hd Hset.
    destruct (submit_all_fields l1 rt) as [A1 [B1 [C1 D1]]]. destruct (submit_all_fields l2 rt) as [A2 [B2 [C2 D2]]].
    assert (Hh : rt_heads (submit_all H rt l1) = rt_heads (submit_all H rt l2)).
    { apply (sorted_ext hkey_cmp h_eq h_as h_tr).
      - apply (submit_all_wf l1 rt Hwf).
      - apply (submit_all_wf l2 rt Hwf).
      - intros h. rewrite !submit_all_heads by exact Hwf.
        destruct (find hkey_cmp h (rt_heads rt)) as [s|] eqn:F; [|reflexivity]. do 2 f_equal.
        apply ingest_all_set.
        + destruct Hwf as [[_ Hin] _]. eapply Hin. apply (find_in hkey_cmp h_eq). exact F.
        + intros e1 e2 H1 H2 E. apply filter_In in H1. apply filter_In in H2.
          destruct H1 as [H1 G1], H2 as [H2 G2]. apply Hd; auto.
          unfold goes in G1, G2.
          destruct (resolve rt (e_target e1)) as [h1| | |]; try discriminate.
          destruct (resolve rt (e_target e2)) as [h2| | |]; try discriminate.
          apply andb_true_iff in G1. apply andb_true_iff in G2.
          destruct G1 as [G1 _], G2 as [G2 _]. apply hkey_eqb_eq in G1. apply hkey_eqb_eq in G2. congruence.
        + intros e. rewrite !filter_In. rewrite Hset. tauto. }
    destruct (submit_all H rt l1), (submit_all H rt l2). cbn in *. congruence.
  Qed.

  (* --- steps preserve the invariant and commit only fresh pairs --- *)
  Lemma step_spec rt o rt1 x : rt_wf rt -> step H rt o = (rt1, x) ->
    rt_wf rt1 /\ NoDup (commits_of x) /\
    (forall y, In y (commits_of x) -> ~ cmem y (rt_committed rt)) /\
    (forall y, cmem y (rt_committed rt1) <-> cmem y (rt_committed rt) \/ In y (commits_of x)).
  Proof.
    intros Hwf Hst. destruct o as [e| |h p|h b]; cbn [step] in Hst.
    - pose proof (submit_wf rt e Hwf) as Hwf'. destruct (submit_fields rt e) as [_ [_ [_ Hc]]].
      destruct (submit H rt e) as [rt' d]. inversion Hst; subst. cbn [fst] in *.
      split; [exact Hwf'|]. cbn. split; [constructor|]. split; [intros ? []|]. intros y. rewrite Hc. tauto.
    - destruct Hwf as [Hok [Hcs Hdj]].
      destruct (pass_heads (rt_heads rt) (rt_committed rt)) as [[hs' cm'] bs] eqn:Hp.
      inversion Hst; subst; clear Hst.
      destruct (pass_heads_spec _ _ _ _ _ Hok Hcs Hdj Hp) as [_ [Hok' [Hcs' [Hm [Hnd [Hfresh [Hdj' _]]]]]]].
      split; [split; [exact Hok'|split; [exact Hcs'|exact Hdj']]|].
      change (commits_of (OPass bs)) with (commits bs).
      split; [exact Hnd|]. split; [intros y Hy; apply (Hfresh y Hy)|]. exact Hm.
    - destruct (find hkey_cmp h (rt_heads rt)) as [s|] eqn:F; inversion Hst; subst; clear Hst; cbn [commits_of].
      + split; [|split; [constructor|split; [intros ? []|intros; cbn; tauto]]].
        destruct Hwf as [[Hhs Hin] [Hcs Hdj]].
        assert (Hsi : isorted (ib_pending (hs_inbox s))) by (eapply Hin; apply (find_in hkey_cmp h_eq); exact F).
        split; [|split; [exact Hcs|]].
        * cbn. apply heads_ok_set; [split; assumption|]. cbn. apply sorted_filter; exact Hsi.
        * cbn [with_heads rt_heads rt_committed]. intros h' s' i Hin' Hm.
          destruct (in_set_cases _ _ _ _ _ Hhs Hin') as [[-> ->]|[Hne Hold]]; [|eapply Hdj; eauto].
          cbn in Hm. apply filter_find_sub in Hm; [|exact Hsi].
          eapply Hdj; [apply (find_in hkey_cmp h_eq); exact F|exact Hm].
      + split; [exact Hwf|]. split; [constructor|]. split; [intros ? []|]. intros; cbn; tauto.
    - destruct (find hkey_cmp h (rt_heads rt)) as [s|] eqn:F; inversion Hst; subst; clear Hst; cbn [commits_of].
      + split; [|split; [constructor|split; [intros ? []|intros; cbn; tauto]]].
        destruct Hwf as [[Hhs Hin] [Hcs Hdj]].
        assert (Hsi : isorted (ib_pending (hs_inbox s))) by (eapply Hin; apply (find_in hkey_cmp h_eq); exact F).
        split; [|split; [exact Hcs|]].
        * cbn. apply heads_ok_set; [split; assumption|exact Hsi].
        * cbn [with_heads rt_heads rt_committed]. intros h' s' i Hin' Hm.
          destruct (in_set_cases _ _ _ _ _ Hhs Hin') as [[-> ->]|[Hne Hold]]; [|eapply Hdj; eauto].
          cbn in Hm. eapply Hdj; [apply (find_in hkey_cmp h_eq); exact F|exact Hm].
      + split; [exact Hwf|]. split; [constructor|]. split; [intros ? []|]. intros; cbn; tauto.
  Qed.

  (* at_most_once, with the exact content of committed_ingress *)
  Lemma run_spec ops : forall rt rt' outs, rt_wf rt -> run H rt ops = (rt', outs) ->
    rt_wf rt' /\ NoDup (all_commits outs) /\
    (forall y, In y (all_commits outs) -> ~ cmem y (rt_committed rt)) /\
    (forall y, cmem y (rt_committed rt') <-> cmem y (rt_committed rt) \/ In y (all_commits outs)).
  Proof.
    induction ops as [|o r IH]; intros rt rt' outs Hwf Hr; cbn [run] in Hr.
    - inversion Hr; subst. cbn. split; [exact Hwf|]. split; [constructor|]. split; [intros ? []|]. intros y; tauto.
    - destruct (step H rt o) as [rt1 x] eqn:Hs. destruct (run H rt1 r) as [rt2 xs] eqn:Hr2.
      inversion Hr; subst; clear Hr.
      destruct (step_spec _ _ _ _ Hwf Hs) as [Hwf1 [Hnd1 [Hf1 Hm1]]].
      destruct (IH _ _ _ Hwf1 Hr2) as [Hwf2 [Hnd2 [Hf2 Hm2]]].
      split; [exact Hwf2|]. unfold all_commits. cbn [flat_map]. fold (all_commits xs).
      split.
      { apply nodup_app_intro; auto. intros y Hy Hy'. apply (Hf2 y Hy'). apply Hm1. right. exact Hy. }
      split.
      { intros y Hy. apply in_app_iff in Hy. destruct Hy as [Hy|Hy]; [apply Hf1; exact Hy|].
        intro Hc. apply (Hf2 y Hy). apply Hm1. left. exact Hc. }
      intros y. rewrite Hm2, Hm1, in_app_iff. tauto.
  Qed.

  (* a retry after the commit is a Duplicate and changes nothing *)
  Lemma submit_committed_duplicate rt e h :
    resolve rt (e_target e) = RHead h -> cmem (h, iid e) (rt_committed rt) ->
    submit H rt e = (rt, DDuplicate h (iid e)).
  Proof. intros R C. unfold submit. rewrite R. unfold cmem in C. rewrite C. reflexivity. Qed.

  (* a retry while pending is a Duplicate and changes nothing *)
  Lemma submit_pending_duplicate rt e h s :
    resolve rt (e_target e) = RHead h -> ~ cmem (h, iid e) (rt_committed rt) ->
    find hkey_cmp h (rt_heads rt) = Some s -> policy_accepts (ib_policy (hs_inbox s)) e = true ->
    mem N.compare (iid e) (ib_pending (hs_inbox s)) = true ->
    submit H rt e = (rt, DDuplicate h (iid e)).
  Proof.
    intros R C F A M. unfold submit. rewrite R. unfold cmem in C.
    destruct (mem ckey_cmp (h, iid e) (rt_committed rt)); [exfalso; apply C; reflexivity|].
    rewrite F. unfold ingest. rewrite A. unfold mem in M.
    destruct (find N.compare (iid e) (ib_pending (hs_inbox s))); [reflexivity|discriminate].
  Qed.
End RuntimeProofs.

(* ------------------------------------------------------------------ *)
(* the id preimage is uniquely decodable inside each domain *)

Lemma app_inj_len {A} (a1 a2 r1 r2 : list A) :
  length a1 = length a2 -> a1 ++ r1 = a2 ++ r2 -> a1 = a2 /\ r1 = r2.
Proof.
  revert a2; induction a1 as [|x a1 IH]; intros [|y a2] Hl E; cbn in *; try discriminate; auto.
  inversion E; subst. destruct (IH a2) as [-> ->]; auto.
Qed.

Lemma pow256_32 : 256 ^ N.of_nat 32 = 2 ^ 256.
Proof. vm_compute. reflexivity. Qed.
Lemma pow256_8 : 256 ^ N.of_nat 8 = 2 ^ 64.
Proof. vm_compute. reflexivity. Qed.

Lemma be32_inj x y : x < 2 ^ 256 -> y < 2 ^ 256 -> be_bytes 32 x = be_bytes 32 y -> x = y.
Proof.
  intros Hx Hy E. unfold be_bytes in E. apply (f_equal (@rev N)) in E. rewrite !rev_involutive in E.
  apply (le_bytes_inj 32); rewrite ?pow256_32; auto.
Qed.

Lemma le8_inj x y : x < 2 ^ 64 -> y < 2 ^ 64 -> le_bytes 8 x = le_bytes 8 y -> x = y.
Proof. intros Hx Hy E. apply (le_bytes_inj 8); rewrite ?pow256_8; auto. Qed.

Definition wf_rref (r : rref) : Prop :=
  match r with
  | (wl, (t, (g, (c, (s, (k, d)))))) =>
      wl < 2 ^ 256 /\ t < 2 ^ 64 /\ g < 2 ^ 64 /\ c < 2 ^ 256 /\ s < 2 ^ 256 /\ k < 2 ^ 256 /\ d < 2 ^ 256
  end.

Definition wf_content (k : N) (b : bytes) (ps : list parent) : Prop :=
  k < 2 ^ 256 /\ lenN b < 2 ^ 64 /\ lenN ps < 2 ^ 64 /\ Forall (fun p => wf_rref (snd p)) ps.

Lemma rref_bytes_len r : length (rref_bytes r) = 176%nat.
Proof.
  destruct r as [wl [t [g [c [s [k d]]]]]]. unfold rref_bytes.
  rewrite !app_length, !be_bytes_length, !le_bytes_length. reflexivity.
Qed.

Ltac split_fixed E :=
  let E1 := fresh "E" in let E2 := fresh "E" in
  apply app_inj_len in E; [destruct E as [E1 E2]|rewrite ?be_bytes_length, ?le_bytes_length; reflexivity].

Lemma rref_bytes_inj r1 r2 : wf_rref r1 -> wf_rref r2 -> rref_bytes r1 = rref_bytes r2 -> r1 = r2.
Proof.
  destruct r1 as [w1 [t1 [g1 [c1 [s1 [k1 d1]]]]]], r2 as [w2 [t2 [g2 [c2 [s2 [k2 d2]]]]]].
  cbn [wf_rref rref_bytes]. intros [A1 [A2 [A3 [A4 [A5 [A6 A7]]]]]] [B1 [B2 [B3 [B4 [B5 [B6 B7]]]]]] E.
  apply app_inj_len in E; [|rewrite !be_bytes_length; reflexivity]. destruct E as [E1 E].
  apply app_inj_len in E; [|rewrite !le_bytes_length; reflexivity]. destruct E as [E2 E].
  apply app_inj_len in E; [|rewrite !le_bytes_length; reflexivity]. destruct E as [E3 E].
  apply app_inj_len in E; [|rewrite !be_bytes_length; reflexivity]. destruct E as [E4 E].
  apply app_inj_len in E; [|rewrite !be_bytes_length; reflexivity]. destruct E as [E5 E].
  apply app_inj_len in E; [|rewrite !be_bytes_length; reflexivity]. destruct E as [E6 E7].
  apply be32_inj in E1, E4, E5, E6, E7; auto. apply le8_inj in E2, E3; auto. congruence.
Qed.

Lemma parent_bytes_inj p1 p2 r1 r2 : wf_rref (snd p1) -> wf_rref (snd p2) ->
  parent_bytes p1 ++ r1 = parent_bytes p2 ++ r2 -> p1 = p2 /\ r1 = r2.
Proof.
  destruct p1 as [[] q1], p2 as [[] q2]; unfold parent_bytes; cbn [fst snd]; intros W1 W2 E;
    try (cbn in E; discriminate).
  - rewrite <- !app_assoc in E. apply app_inv_head in E.
    apply app_inj_len in E; [|rewrite !rref_bytes_len; reflexivity]. destruct E as [E ->].
    apply rref_bytes_inj in E; auto. subst; auto.
  - rewrite <- !app_assoc in E. apply app_inv_head in E.
    apply app_inj_len in E; [|rewrite !rref_bytes_len; reflexivity]. destruct E as [E ->].
    apply rref_bytes_inj in E; auto. subst; auto.
Qed.

Lemma parents_bytes_inj ps1 : forall ps2,
  Forall (fun p => wf_rref (snd p)) ps1 -> Forall (fun p => wf_rref (snd p)) ps2 ->
  length ps1 = length ps2 -> flat_map parent_bytes ps1 = flat_map parent_bytes ps2 -> ps1 = ps2.
Proof.
  induction ps1 as [|p r IH]; intros [|q r2] W1 W2 Hl E; cbn in *; try discriminate; auto.
  inversion W1; inversion W2; subst.
  apply parent_bytes_inj in E; auto. destruct E as [-> E]. f_equal. apply IH; auto.
Qed.

Lemma lenN_inj {A B} (a : list A) (b : list B) : lenN a = lenN b -> length a = length b.
Proof. unfold lenN. apply Nat2N.inj. Qed.

Lemma id_preimage_inj k1 b1 ps1 k2 b2 ps2 :
  wf_content k1 b1 ps1 -> wf_content k2 b2 ps2 -> (ps1 = [] <-> ps2 = []) ->
  id_preimage k1 b1 ps1 = id_preimage k2 b2 ps2 -> k1 = k2 /\ b1 = b2 /\ ps1 = ps2.
Proof.
  intros [K1 [L1 [P1 W1]]] [K2 [L2 [P2 W2]]] Hd E. unfold id_preimage in E.
  destruct ps1 as [|p1 r1], ps2 as [|p2 r2].
  - apply app_inv_head in E. apply app_inj_len in E; [|rewrite !be_bytes_length; reflexivity].
    destruct E as [E ->]. apply be32_inj in E; auto.
  - exfalso. assert (X : p2 :: r2 = []) by (apply Hd; reflexivity). discriminate.
  - exfalso. assert (X : p1 :: r1 = []) by (apply Hd; reflexivity). discriminate.
  - apply app_inv_head in E.
    apply app_inj_len in E; [|rewrite !be_bytes_length; reflexivity]. destruct E as [E1 E].
    apply app_inj_len in E; [|rewrite !le_bytes_length; reflexivity]. destruct E as [E2 E].
    apply be32_inj in E1; auto. apply le8_inj in E2; auto.
    apply app_inj_len in E; [|apply lenN_inj; exact E2]. destruct E as [-> E].
    apply app_inj_len in E; [|rewrite !le_bytes_length; reflexivity]. destruct E as [E3 E].
    apply le8_inj in E3; auto.
    apply parents_bytes_inj in E; auto. apply lenN_inj; exact E3.
Qed.

Definition Collision (H : bytes -> N) : Prop := exists x y, x <> y /\ H x = H y.

Lemma bytes_eq_dec (a b : bytes) : {a = b} + {a <> b}.
Proof. apply list_eq_dec, N.eq_dec. Qed.

(* equal ingress ids name equal content inside a domain, or exhibit a hash collision *)
Lemma ingress_id_binds (H : bytes -> N) e1 e2 :
  wf_content (e_kind e1) (e_bytes e1) (e_parents e1) -> wf_content (e_kind e2) (e_bytes e2) (e_parents e2) ->
  (e_parents e1 = [] <-> e_parents e2 = []) ->
  ingress_id H e1 = ingress_id H e2 -> content e1 = content e2 \/ Collision H.
Proof.
  intros W1 W2 Hd E. unfold ingress_id in E.
  destruct (bytes_eq_dec (env_preimage e1) (env_preimage e2)) as [Ep|Ne].
  - left. destruct (id_preimage_inj _ _ _ _ _ _ W1 W2 Hd Ep) as [A [B C]]. unfold content. congruence.
  - right. exists (env_preimage e1), (env_preimage e2). auto.
Qed.

(* ... but NOT across the two domains: a parentless intent whose (hand-made) kind starts with
   the bytes "causal:v2\0" can have the very same preimage as a causal intent. *)
Definition alias_kind : N := N.shiftl 0x63617573616c3a763200 176.
Definition alias_bytes : bytes :=
  repeat 0 10 ++ le_bytes 8 0 ++ le_bytes 8 1 ++ parent_bytes (false, (0, (0, (0, (0, (0, (0, 0))))))).
Definition alias_parent : parent := (false, (0, (0, (0, (0, (0, (0, 0))))))).

Lemma cross_domain_alias :
  wf_content alias_kind alias_bytes [] /\ wf_content 0 [] [alias_parent] /\
  id_preimage alias_kind alias_bytes [] = id_preimage 0 [] [alias_parent] /\
  (alias_kind, alias_bytes, @nil parent) <> (0, @nil N, [alias_parent]).
Proof.
  split; [|split; [|split]].
  - unfold wf_content. split; [vm_compute; reflexivity|]. split; [vm_compute; reflexivity|].
    split; [vm_compute; reflexivity|constructor].
  - unfold wf_content. split; [vm_compute; reflexivity|]. split; [vm_compute; reflexivity|].
    split; [vm_compute; reflexivity|]. constructor; [|constructor]. cbn. repeat split; vm_compute; reflexivity.
  - vm_compute. reflexivity.
  - discriminate.
Qed.

(* ------------------------------------------------------------------ *)
(* admit_partitioned *)

Lemma split_sel_spec f : forall p limit s m, isorted p -> split_sel f limit p = (s, m) ->
  (forall x, In x p <-> In x s \/ In x m) /\ isorted s /\ isorted m /\
  (forall x, In x s -> f x = true) /\
  (match limit with Some n => lenN s <= n | None => True end) /\
  (* the selection is a prefix of the category in id order: anything of the category left
     behind is above everything selected, and is only left behind when the limit is hit *)
  (forall x y, In x s -> In y m -> f y = true -> fst x < fst y) /\
  (forall y, In y m -> f y = true -> match limit with Some n => lenN s = n | None => False end).
Proof.
  induction p as [|x r IH]; intros limit s m Hs Hsp; cbn [split_sel] in Hsp.
  - inversion Hsp; subst. split; [intros y; cbn; tauto|]. split; [exact I|]. split; [exact I|].
    split; [intros ? []|]. split; [destruct limit; [apply N.le_0_l|exact I]|].
    split; [intros ? ? []|intros ? []].
  - assert (Hsr : isorted r) by (destruct x; cbn in Hs; tauto).
    assert (Hlt : forall y, In y r -> fst x < fst y).
    { destruct x as [k v]. cbn in Hs. destruct Hs as [Hlb Hs']. intros [k' v'] Hy. cbn.
      apply N.compare_lt_iff. eapply (lb_all N.compare n_tr k r Hs' Hlb). exact Hy. }
    destruct (f x && negb (lim_zero limit)) eqn:C.
    + destruct (split_sel f (lim_dec limit) r) as [s1 m1] eqn:Hr. inversion Hsp; subst; clear Hsp.
      apply andb_true_iff in C. destruct C as [Fx Lz].
      destruct (IH _ _ _ Hsr Hr) as [Hin [Hss [Hsm [Hf [Hlen [Hpre Hleft]]]]]].
      split; [intros y; cbn; rewrite Hin; tauto|].
      split.
      { destruct x as [k v]. cbn. split; [|exact Hss].
        destruct s1 as [|[k2 v2] s2]; [exact I|]. cbn.
        apply N.compare_lt_iff. apply (Hlt (k2, v2)). apply Hin. left. left. reflexivity. }
      split; [exact Hsm|]. split; [intros y [<-|Hy]; auto|].
      split.
      { destruct limit as [n|]; [|exact I]. cbn in Hlen, Lz. unfold lenN in *. cbn [length].
        rewrite Nat2N.inj_succ. destruct n; [discriminate|]. lia. }
      split.
      { intros a y [<-|Ha] Hy Fy; [apply Hlt; apply Hin; right; exact Hy|eauto]. }
      intros y Hy Fy. specialize (Hleft y Hy Fy). destruct limit as [n|]; [|exact Hleft].
      cbn in Hleft, Lz. unfold lenN in *. cbn [length]. rewrite Nat2N.inj_succ. destruct n; [discriminate|]. lia.
    + destruct (split_sel f limit r) as [s1 m1] eqn:Hr. inversion Hsp; subst; clear Hsp.
      destruct (IH _ _ _ Hsr Hr) as [Hin [Hss [Hsm [Hf [Hlen [Hpre Hleft]]]]]].
      split; [intros y; cbn; rewrite Hin; tauto|].
      split; [exact Hss|].
      split.
      { destruct x as [k v]. cbn. split; [|exact Hsm].
        destruct m1 as [|[k2 v2] m2]; [exact I|]. cbn.
        apply N.compare_lt_iff. apply (Hlt (k2, v2)). apply Hin. right. left. reflexivity. }
      split; [exact Hf|]. split; [exact Hlen|].
      split.
      { intros a y Ha [<-|Hy] Fy; [|eauto].
        (* x itself is of the category but was not selected: the limit is 0, so s is empty *)
        rewrite Fy in C. cbn in C. destruct limit as [[|n]|]; try discriminate.
        cbn in Hlen. destruct s as [|? ?]; [destruct Ha|]. unfold lenN in Hlen. cbn in Hlen. lia. }
      intros y [<-|Hy] Fy; [|exact (Hleft y Hy Fy)].
      rewrite Fy in C. cbn in C. destruct limit as [[|n]|]; try discriminate.
      cbn in Hlen. destruct s as [|? ?]; [reflexivity|]. unfold lenN in Hlen. cbn in Hlen. lia.
Qed.

(* admit_partitioned: the batch never mixes the two execution categories, is ascending,
   and together with what stays pending is exactly the old pending map *)
Lemma admit_partitioned_spec ib pk pl tick ib' batch : isorted (ib_pending ib) ->
  admit_partitioned ib pk pl tick = (ib', batch) ->
  (forall x, In x (ib_pending ib) <-> In x batch \/ In x (ib_pending ib')) /\
  isorted batch /\ isorted (ib_pending ib') /\ ib_policy ib' = ib_policy ib /\
  (exists sel, forall x, In x batch -> in_part pk x = sel) /\
  (match ib_policy ib with Budgeted n => lenN batch <= n | _ => True end).
Proof.
  intros Hs Ha. unfold admit_partitioned in Ha.
  destruct (negb (existsb (in_part pk) (ib_pending ib) || existsb (fun ie => negb (in_part pk ie)) (ib_pending ib))).
  - inversion Ha; subst. split; [intros x; cbn; tauto|]. split; [exact I|]. split; [exact Hs|].
    split; [reflexivity|]. split; [exists true; intros ? []|].
    destruct (ib_policy ib'); auto. apply N.le_0_l.
  - set (sel := if existsb (in_part pk) (ib_pending ib) && existsb (fun ie => negb (in_part pk ie)) (ib_pending ib)
                then N.even tick else existsb (in_part pk) (ib_pending ib)) in *.
    set (plim := match ib_policy ib with Budgeted n => Some n | _ => None end) in *.
    set (limit := if sel then lim_min plim (Some pl) else plim) in *.
    destruct (split_sel (fun ie => Bool.eqb (in_part pk ie) sel) limit (ib_pending ib)) as [s m] eqn:Hsp.
    inversion Ha; subst; clear Ha. cbn [ib_pending ib_policy].
    destruct (split_sel_spec _ _ _ _ _ Hs Hsp) as [Hin [Hss [Hsm [Hf [Hlen _]]]]].
    split; [exact Hin|]. split; [exact Hss|]. split; [exact Hsm|]. split; [reflexivity|].
    split; [exists sel; intros x Hx; apply eqb_prop, Hf, Hx|].
    subst limit plim. destruct (ib_policy ib) as [| |n]; auto.
    destruct sel; cbn in Hlen; [|exact Hlen]. lia.
Qed.

(* ------------------------------------------------------------------ *)
(* runtimes built through register_writer_head are well formed *)

Lemma rt_empty_wf ws : rt_wf (rt_empty ws).
Proof.
  split; [split; [exact I|intros ? ? []]|]. split; [exact I|]. intros ? ? ? [].
Qed.

Lemma register_head_wf rt h p nm d : rt_wf rt -> rt_wf (fst (register_head rt h p nm d)).
Proof.
  intros Hwf. unfold register_head.
  destruct (negb (existsb (N.eqb (fst h)) (rt_worlds rt))); [exact Hwf|].
  destruct (mem hkey_cmp h (rt_heads rt)); [exact Hwf|].
  destruct (d && mem N.compare (fst h) (rt_defaults rt)); [exact Hwf|].
  destruct (match nm with Some nm0 => mem nkey_cmp (fst h, nm0) (rt_named rt) | None => false end); [exact Hwf|].
  destruct Hwf as [[Hhs Hin] [Hcs Hdj]]. cbn [fst]. split; [|split].
  - cbn [rt_heads]. apply heads_ok_set; [split; assumption|exact I].
  - exact Hcs.
  - cbn [rt_heads rt_committed]. intros h' s' i Hin' Hm.
    destruct (in_set_cases _ _ _ _ _ Hhs Hin') as [[-> ->]|[Hne Hold]]; [cbn in Hm; discriminate|].
    eapply Hdj; eauto.
Qed.

Lemma retry_after_commit (H : bytes -> N) ops rt rt' outs e h :
  rt_wf rt -> run H rt ops = (rt', outs) ->
  In (h, ingress_id H e) (all_commits outs) -> resolve rt' (e_target e) = RHead h ->
  submit H rt' e = (rt', DDuplicate h (ingress_id H e)).
Proof.
  intros Hwf Hr Hin R. destruct (run_spec H ops rt rt' outs Hwf Hr) as [_ [_ [_ Hm]]].
  apply submit_committed_duplicate; [exact R|]. apply Hm. right. exact Hin.
Qed.

Lemma at_most_once_l (H : bytes -> N) ops rt rt' outs :
  rt_wf rt -> run H rt ops = (rt', outs) ->
  NoDup (all_commits outs) /\
  (forall y, In y (all_commits outs) -> ~ cmem y (rt_committed rt)) /\
  (forall y, cmem y (rt_committed rt') <-> cmem y (rt_committed rt) \/ In y (all_commits outs)).
Proof. intros Hwf Hr. destruct (run_spec H ops rt rt' outs Hwf Hr) as [_ [A [B C]]]. auto. Qed.

Lemma pass_order_free_l (H : bytes -> N) rt l1 l2 ops :
  rt_wf rt -> id_determines_envelope_per_head H rt l1 -> (forall e, In e l1 <-> In e l2) ->
  run H (submit_all H rt l1) ops = run H (submit_all H rt l2) ops.
Proof. intros Hwf Hd Hs. rewrite (submit_all_set H rt l1 l2 Hwf Hd Hs). reflexivity. Qed.

Lemma commit_dedupe_noop_l ib ib' batch :
  isorted (ib_pending ib) -> inbox_admit ib = (ib', batch) -> commit_dedupe [] batch = batch.
Proof.
  intros Hs Ha. apply commit_dedupe_id; [|intros ? []]. eapply admit_batch_nodup; eauto.
Qed.

Lemma admit_arrival_independent (H : bytes -> N) ib l1 l2 :
  isorted (ib_pending ib) -> id_determines_envelope H l1 -> (forall e, In e l1 <-> In e l2) ->
  inbox_admit (ingest_all H ib l1) = inbox_admit (ingest_all H ib l2).
Proof. intros Hs Hd Hset. rewrite (ingest_all_set H ib l1 l2 Hs Hd Hset). reflexivity. Qed.
