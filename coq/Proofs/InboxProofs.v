(* Lemmas about Model/Inbox.v (C08). *)
From Coq Require Import List NArith Lia Permutation Bool.
From Echo Require Import Base.FinMap Base.Order Base.Bytes Model.Inbox.
Import ListNotations.
Open Scope N_scope.

(* ------------------------------------------------------------------ *)
(* generic finite-map facts not in Base/FinMap.v *)

Section FM.
  Context {K V : Type}.
  Variable cmp : K -> K -> comparison.
  Hypothesis L : OrderLaws cmp.

  Let ceq := ol_eq cmp L.
  Let cas := ol_antisym cmp L.
  Let ctr := ol_trans cmp L.

  Lemma fm_refl k : cmp k k = Eq.
  Proof. apply ceq; reflexivity. Qed.

  Lemma fm_neq k k' : k <> k' -> cmp k k' <> Eq.
  Proof. intros Hne E. apply ceq in E. contradiction. Qed.

  Lemma fm_dec (a b : K) : {a = b} + {a <> b}.
  Proof.
    destruct (cmp a b) eqn:E.
    - left; apply ceq; exact E.
    - right; intro; subst; rewrite fm_refl in E; discriminate.
    - right; intro; subst; rewrite fm_refl in E; discriminate.
  Qed.

  (* [find] is a linear scan, so it also describes "first binding of k" in an
     unsorted list; bulk insert-if-absent keeps old bindings, then first ones. *)
  Lemma find_fold_ins (l : list (K * V)) : forall m k, sorted cmp m ->
    find cmp k (fold_left (fun m kv => ins cmp (fst kv) (snd kv) m) l m) =
    match find cmp k m with Some x => Some x | None => find cmp k l end.
  Proof.
    induction l as [|[k1 v1] r IH]; intros m k Hs; cbn [fold_left fst snd].
    - cbn. destruct (find cmp k m); reflexivity.
    - rewrite IH by (apply ins_sorted; auto).
      cbn [find]. destruct (cmp k k1) eqn:E.
      + apply ceq in E; subst k1. rewrite find_ins_same by auto.
        destruct (find cmp k m); reflexivity.
      + rewrite find_ins_other; auto. intro; subst. rewrite fm_refl in E; discriminate.
      + rewrite find_ins_other; auto. intro; subst. rewrite fm_refl in E; discriminate.
  Qed.

  Lemma fold_ins_sorted' (l : list (K * V)) m :
    sorted cmp m -> sorted cmp (fold_left (fun m kv => ins cmp (fst kv) (snd kv) m) l m).
  Proof. apply fold_ins_sorted; auto. Qed.

  Lemma find_some_in k v (m : list (K * V)) : find cmp k m = Some v -> In (k, v) m.
  Proof. apply find_in; auto. Qed.

  Lemma in_find_some k v (m : list (K * V)) : In (k, v) m -> exists v', find cmp k m = Some v'.
  Proof.
    induction m as [|[k1 v1] r IH]; intros Hin; [destruct Hin|].
    cbn. destruct (cmp k k1) eqn:E; eauto.
    - destruct Hin as [Hx|Hin]; [inversion Hx; subst; rewrite fm_refl in E; discriminate|auto].
    - destruct Hin as [Hx|Hin]; [inversion Hx; subst; rewrite fm_refl in E; discriminate|auto].
  Qed.

  Lemma sorted_nodup_keys (m : list (K * V)) : sorted cmp m -> NoDup (map fst m).
  Proof.
    induction m as [|[k v] r IH]; intros Hs; cbn; [constructor|].
    cbn in Hs. destruct Hs as [Hlb Hs]. constructor; auto.
    intro Hin. apply in_map_iff in Hin. destruct Hin as [[k' v'] [E Hin]]. cbn in E; subst k'.
    pose proof (lb_all cmp ctr k r Hs Hlb k v' Hin) as Hlt. rewrite fm_refl in Hlt. discriminate.
  Qed.

  Lemma set_same k v (m : list (K * V)) : sorted cmp m -> find cmp k m = Some v -> set cmp k v m = m.
  Proof.
    induction m as [|[k1 v1] r IH]; cbn; intros Hs Hf; [discriminate|].
    destruct Hs as [Hlb Hs]. destruct (cmp k k1) eqn:E.
    - apply ceq in E; subst. inversion Hf; reflexivity.
    - exfalso. rewrite (find_lb_none cmp ctr k r) in Hf; [discriminate|auto|].
      destruct r as [|[k2 v2] r2]; [exact I|]. cbn in *. eapply ctr; eauto.
    - f_equal. auto.
  Qed.

  (* values do not influence the shape of a map *)
  Lemma find_map_val {W} (f : V -> W) k (m : list (K * V)) :
    find cmp k (map (fun kv => (fst kv, f (snd kv))) m) = option_map f (find cmp k m).
  Proof.
    induction m as [|[k1 v1] r IH]; cbn; [reflexivity|].
    destruct (cmp k k1); auto.
  Qed.

  Lemma sorted_map_val {W} (f : V -> W) (m : list (K * V)) :
    sorted cmp m -> sorted cmp (map (fun kv => (fst kv, f (snd kv))) m).
  Proof.
    induction m as [|[k1 v1] r IH]; cbn; [tauto|]. intros [Hlb Hs]. split; auto.
    destruct r as [|[k2 v2] r2]; cbn in *; auto.
  Qed.

  Lemma keys_ext (m1 m2 : list (K * V)) : sorted cmp m1 -> sorted cmp m2 ->
    (forall k, mem cmp k m1 = mem cmp k m2) -> map fst m1 = map fst m2.
  Proof.
    intros H1 H2 Hm.
    assert (E : map (fun kv => (fst kv, tt)) m1 = map (fun kv => (fst kv, tt)) m2).
    { apply (sorted_ext cmp ceq cas ctr).
      - apply (sorted_map_val (fun _ => tt)); auto.
      - apply (sorted_map_val (fun _ => tt)); auto.
      - intros k. rewrite !(find_map_val (fun _ => tt)).
        specialize (Hm k). unfold mem in Hm.
        destruct (find cmp k m1), (find cmp k m2); cbn; auto; discriminate. }
    apply (f_equal (map fst)) in E. rewrite !map_map in E. cbn in E. exact E.
  Qed.

  (* sorted prefix / suffix *)
  Lemma sorted_app_inv (a b : list (K * V)) : sorted cmp (a ++ b) ->
    sorted cmp a /\ sorted cmp b /\
    (forall k v k' v', In (k, v) a -> In (k', v') b -> cmp k k' = Lt).
  Proof.
    induction a as [|[k v] a IH]; cbn [app]; intros Hs.
    - split; [exact I|]. split; [exact Hs|]. intros ? ? ? ? [].
    - cbn in Hs. destruct Hs as [Hlb Hs]. destruct (IH Hs) as [Ha [Hb Hab]].
      split; [|split; [exact Hb|]].
      + cbn. split; auto. destruct a as [|[k2 v2] a2]; [exact I|]. exact Hlb.
      + intros k0 v0 k' v' [E|Hin] Hin'.
        * inversion E; subst. eapply (lb_all cmp ctr k0 (a ++ b) Hs Hlb). apply in_or_app. right. exact Hin'.
        * eapply Hab; eauto.
  Qed.
End FM.

(* ------------------------------------------------------------------ *)
(* order laws of the key types *)

Lemma bool_order : OrderLaws bool_cmp.
Proof.
  split.
  - intros [] []; cbn; split; intros; congruence.
  - intros [] []; reflexivity.
  - intros [] [] []; cbn; congruence.
Qed.

Lemma rref_order : OrderLaws rref_cmp.
Proof. repeat apply pair_order; apply N_order. Qed.
Lemma parent_order : OrderLaws parent_cmp.
Proof. apply pair_order; [apply bool_order|apply rref_order]. Qed.
Lemma hkey_order : OrderLaws hkey_cmp.
Proof. apply pair_order; apply N_order. Qed.
Lemma ckey_order : OrderLaws ckey_cmp.
Proof. apply pair_order; [apply hkey_order|apply N_order]. Qed.
Lemma nkey_order : OrderLaws nkey_cmp.
Proof. apply pair_order; [apply N_order|apply bytes_order]. Qed.

Definition n_eq := ol_eq _ N_order.
Definition n_as := ol_antisym _ N_order.
Definition n_tr := ol_trans _ N_order.
Definition h_eq := ol_eq _ hkey_order.
Definition h_as := ol_antisym _ hkey_order.
Definition h_tr := ol_trans _ hkey_order.
Definition c_eq := ol_eq _ ckey_order.
Definition c_as := ol_antisym _ ckey_order.
Definition c_tr := ol_trans _ ckey_order.
Definition p_eq := ol_eq _ parent_order.
Definition p_as := ol_antisym _ parent_order.
Definition p_tr := ol_trans _ parent_order.

Notation isorted := (sorted N.compare).
Notation hsorted := (sorted hkey_cmp).
Notation csorted := (sorted ckey_cmp).

Ltac fn := try exact n_eq; try exact n_as; try exact n_tr.
Ltac fh := try exact h_eq; try exact h_as; try exact h_tr.
Ltac fc := try exact c_eq; try exact c_as; try exact c_tr.
Ltac fp := try exact p_eq; try exact p_as; try exact p_tr.

(* ------------------------------------------------------------------ *)
(* canonical parent sets: identity ignores order and multiplicity of parents *)

Lemma parent_set_as_fold ps m :
  fold_left (fun m p => ins parent_cmp p tt m) ps m =
  fold_left (fun m kv => ins parent_cmp (fst kv) (snd kv) m) (map (fun p => (p, tt)) ps) m.
Proof. revert m; induction ps as [|p r IH]; intros m; cbn; auto. Qed.

Lemma parent_set_sorted ps : sorted parent_cmp (parent_set ps).
Proof. unfold parent_set. rewrite parent_set_as_fold. apply fold_ins_sorted; fp. exact I. Qed.

Lemma find_pairs_tt p ps :
  find parent_cmp p (map (fun q : parent => (q, tt)) ps) = if in_dec (fm_dec parent_cmp parent_order) p ps then Some tt else None.
Proof.
  induction ps as [|q r IH]; cbn [map find]; [reflexivity|].
  destruct (parent_cmp p q) eqn:E.
  - apply p_eq in E; subst q. destruct (in_dec _ p (p :: r)) as [|n]; [reflexivity|].
    exfalso; apply n; left; reflexivity.
  - rewrite IH. destruct (in_dec _ p r) as [i|n], (in_dec _ p (q :: r)) as [i'|n']; auto.
    + exfalso; apply n'; right; exact i.
    + destruct i' as [->|]; [|contradiction]. rewrite (fm_refl parent_cmp parent_order) in E. discriminate.
  - rewrite IH. destruct (in_dec _ p r) as [i|n], (in_dec _ p (q :: r)) as [i'|n']; auto.
    + exfalso; apply n'; right; exact i.
    + destruct i' as [->|]; [|contradiction]. rewrite (fm_refl parent_cmp parent_order) in E. discriminate.
Qed.

Lemma find_parent_set p ps :
  find parent_cmp p (parent_set ps) = if in_dec (fm_dec parent_cmp parent_order) p ps then Some tt else None.
Proof.
  unfold parent_set. rewrite parent_set_as_fold.
  rewrite (find_fold_ins parent_cmp parent_order) by exact I. cbn [find].
  apply find_pairs_tt.
Qed.

Lemma canon_parents_set_eq ps1 ps2 :
  (forall p, In p ps1 <-> In p ps2) -> canon_parents ps1 = canon_parents ps2.
Proof.
  intros Hs. unfold canon_parents. f_equal.
  apply (sorted_ext parent_cmp p_eq p_as p_tr); try apply parent_set_sorted.
  intros p. rewrite !find_parent_set.
  destruct (in_dec _ p ps1) as [i|n], (in_dec _ p ps2) as [i'|n']; auto.
  - exfalso; apply n', Hs, i.
  - exfalso; apply n, Hs, i'.
Qed.

Lemma canon_parents_perm ps1 ps2 : Permutation ps1 ps2 -> canon_parents ps1 = canon_parents ps2.
Proof.
  intros HP. apply canon_parents_set_eq. intros p; split; apply Permutation_in; auto using Permutation_sym.
Qed.

Lemma canon_parents_dup p ps : canon_parents (p :: p :: ps) = canon_parents (p :: ps).
Proof. apply canon_parents_set_eq. intros q; cbn; tauto. Qed.

Lemma canon_parents_in p ps : In p (canon_parents ps) <-> In p ps.
Proof.
  unfold canon_parents. split.
  - intros Hin. apply in_map_iff in Hin. destruct Hin as [[q []] [E Hin]]. cbn in E; subst q.
    apply (in_find parent_cmp p_eq p_as p_tr) in Hin; [|apply parent_set_sorted].
    rewrite find_parent_set in Hin. destruct (in_dec _ p ps); [assumption|discriminate].
  - intros Hin. pose proof (find_parent_set p ps) as F.
    destruct (in_dec _ p ps) as [|n]; [|contradiction].
    apply (find_in parent_cmp p_eq) in F. apply in_map_iff. exists (p, tt). auto.
Qed.

(* the id is a function of (kind, bytes, parent SET): not of the target, not of the
   order or multiplicity in which parents are cited *)
Lemma id_function_of_content_l (H : bytes -> N) t1 t2 k b ps1 ps2 :
  (forall p, In p ps1 <-> In p ps2) ->
  ingress_id H (mk_envelope t1 k b ps1) = ingress_id H (mk_envelope t2 k b ps2).
Proof.
  intros Hs. unfold ingress_id, env_preimage, mk_envelope; cbn.
  rewrite (canon_parents_set_eq ps1 ps2 Hs). reflexivity.
Qed.

(* ------------------------------------------------------------------ *)
(* HeadInbox: ingest *)

Lemma ingest_policy ib i e : ib_policy (fst (ingest ib i e)) = ib_policy ib.
Proof.
  unfold ingest. destruct (policy_accepts (ib_policy ib) e); [|reflexivity].
  destruct (find N.compare i (ib_pending ib)); reflexivity.
Qed.

Lemma ingest_pending ib i e : isorted (ib_pending ib) ->
  ib_pending (fst (ingest ib i e)) =
  if policy_accepts (ib_policy ib) e then ins N.compare i e (ib_pending ib) else ib_pending ib.
Proof.
  intros Hs. unfold ingest. destruct (policy_accepts (ib_policy ib) e); [|reflexivity].
  destruct (find N.compare i (ib_pending ib)) eqn:F; cbn; [|reflexivity].
  symmetry. eapply ins_occupied; fn; eauto.
Qed.

Lemma ingest_sorted ib i e : isorted (ib_pending ib) -> isorted (ib_pending (fst (ingest ib i e))).
Proof.
  intros Hs. rewrite ingest_pending by exact Hs.
  destruct (policy_accepts (ib_policy ib) e); [apply ins_sorted; fn|]; auto.
Qed.

(* Occupied entry / rejected: the inbox is unchanged, whatever the envelope *)
Lemma ingest_result_spec ib i e : isorted (ib_pending ib) ->
  match snd (ingest ib i e) with
  | Accepted => policy_accepts (ib_policy ib) e = true /\ find N.compare i (ib_pending ib) = None /\
                find N.compare i (ib_pending (fst (ingest ib i e))) = Some e
  | Duplicate => policy_accepts (ib_policy ib) e = true /\ fst (ingest ib i e) = ib /\
                 exists x, find N.compare i (ib_pending ib) = Some x
  | Rejected => policy_accepts (ib_policy ib) e = false /\ fst (ingest ib i e) = ib
  end.
Proof.
  intros Hs. unfold ingest. destruct (policy_accepts (ib_policy ib) e) eqn:A; cbn; [|auto].
  destruct (find N.compare i (ib_pending ib)) eqn:F; cbn.
  - eauto.
  - split; [reflexivity|]. split; [reflexivity|].
    rewrite find_ins_same by (fn; auto). rewrite F. reflexivity.
Qed.

Section WithHashProofs.
  Variable H : bytes -> N.
  Notation iid := (ingress_id H).

  Definition kvs (p : policy) (l : list envelope) : list (N * envelope) :=
    map (fun e => (iid e, e)) (filter (policy_accepts p) l).

  Lemma ingest_all_spec l : forall ib, isorted (ib_pending ib) ->
    ingest_all H ib l =
    {| ib_pending := fold_left (fun m kv => ins N.compare (fst kv) (snd kv) m) (kvs (ib_policy ib) l) (ib_pending ib);
       ib_policy := ib_policy ib |}.
  Proof.
    induction l as [|e r IH]; intros ib Hs.
    - destruct ib; reflexivity.
    - unfold ingest_all in *. cbn [fold_left].
      rewrite IH by (apply ingest_sorted; exact Hs).
      rewrite ingest_policy, ingest_pending by exact Hs.
      unfold kvs. cbn [filter]. destruct (policy_accepts (ib_policy ib) e); reflexivity.
  Qed.

  Lemma ingest_all_sorted l ib : isorted (ib_pending ib) -> isorted (ib_pending (ingest_all H ib l)).
  Proof.
    intros Hs. rewrite ingest_all_spec by exact Hs. cbn. apply fold_ins_sorted; fn; auto.
  Qed.

  Lemma ingest_all_policy l ib : isorted (ib_pending ib) -> ib_policy (ingest_all H ib l) = ib_policy ib.
  Proof. intros Hs. rewrite ingest_all_spec by exact Hs. reflexivity. Qed.

  Lemma find_kvs_some p l k e :
    find N.compare k (kvs p l) = Some e -> In e l /\ policy_accepts p e = true /\ iid e = k.
  Proof.
    unfold kvs. induction l as [|x r IH]; cbn [filter map find]; [discriminate|].
    destruct (policy_accepts p x) eqn:A; cbn [map find].
    - destruct (N.compare k (iid x)) eqn:E.
      + apply N.compare_eq in E. intros Hx; inversion Hx; subst. auto using in_eq.
      + intros Hx. destruct (IH Hx) as [? [? ?]]. auto using in_cons.
      + intros Hx. destruct (IH Hx) as [? [? ?]]. auto using in_cons.
    - intros Hx. destruct (IH Hx) as [? [? ?]]. auto using in_cons.
  Qed.

  Lemma find_kvs_in p l e :
    In e l -> policy_accepts p e = true -> exists e', find N.compare (iid e) (kvs p l) = Some e'.
  Proof.
    unfold kvs. induction l as [|x r IH]; intros Hin A; [destruct Hin|].
    cbn [filter]. destruct Hin as [->|Hin].
    - rewrite A. cbn [map find]. rewrite N.compare_refl. eauto.
    - destruct (policy_accepts p x); cbn [map find]; auto.
      destruct (N.compare (iid e) (iid x)); eauto.
  Qed.

  (* The hypothesis under which first-wins is invisible: within the submitted
     collection an ingress id names one envelope. *)
  Definition id_determines_envelope (l : list envelope) : Prop :=
    forall e1 e2, In e1 l -> In e2 l -> iid e1 = iid e2 -> e1 = e2.

  Lemma find_kvs_set p l1 l2 k :
    id_determines_envelope l1 -> (forall e, In e l1 <-> In e l2) ->
    find N.compare k (kvs p l1) = find N.compare k (kvs p l2).
  Proof.
    intros Hd Hs.
    assert (Hd2 : id_determines_envelope l2).
    { intros e1 e2 H1 H2. apply Hd; apply Hs; assumption. }
    destruct (find N.compare k (kvs p l1)) as [e|] eqn:F1.
    - destruct (find_kvs_some _ _ _ _ F1) as [Hin [A E]].
      destruct (find_kvs_in p l2 e (proj1 (Hs e) Hin) A) as [e' F2]. rewrite E in F2.
      destruct (find_kvs_some _ _ _ _ F2) as [Hin' [_ E']].
      rewrite F2. f_equal. apply Hd2; auto. apply Hs; auto. congruence.
    - destruct (find N.compare k (kvs p l2)) as [e|] eqn:F2; [|reflexivity].
      destruct (find_kvs_some _ _ _ _ F2) as [Hin [A E]].
      destruct (find_kvs_in p l1 e (proj2 (Hs e) Hin) A) as [e' F1']. congruence.
  Qed.

  (* ingest_order_free *)
  Lemma ingest_all_set ib l1 l2 :
    isorted (ib_pending ib) -> id_determines_envelope l1 -> (forall e, In e l1 <-> In e l2) ->
    ingest_all H ib l1 = ingest_all H ib l2.
  Proof.
    intros Hs Hd Hset. rewrite !ingest_all_spec by exact Hs. f_equal.
    apply (sorted_ext N.compare n_eq n_as n_tr); try (apply fold_ins_sorted; fn; auto).
    intros k. rewrite !(find_fold_ins N.compare N_order) by exact Hs.
    destruct (find N.compare k (ib_pending ib)); [reflexivity|].
    apply find_kvs_set; auto.
  Qed.

  (* without any hypothesis the pending ID SET is still arrival-order free *)
  Lemma ingest_all_ids_set ib l1 l2 :
    isorted (ib_pending ib) -> (forall e, In e l1 <-> In e l2) ->
    map fst (ib_pending (ingest_all H ib l1)) = map fst (ib_pending (ingest_all H ib l2)).
  Proof.
    intros Hs Hset. rewrite !ingest_all_spec by exact Hs. cbn [ib_pending].
    apply (keys_ext N.compare N_order); try (apply fold_ins_sorted; fn; auto).
    intros k. unfold mem. rewrite !(find_fold_ins N.compare N_order) by exact Hs.
    destruct (find N.compare k (ib_pending ib)); [reflexivity|].
    destruct (find N.compare k (kvs (ib_policy ib) l1)) as [e|] eqn:F1.
    - destruct (find_kvs_some _ _ _ _ F1) as [Hin [A E]].
      destruct (find_kvs_in (ib_policy ib) l2 e (proj1 (Hset e) Hin) A) as [e' F2].
      rewrite E in F2. rewrite F2. reflexivity.
    - destruct (find N.compare k (kvs (ib_policy ib) l2)) as [e|] eqn:F2; [|reflexivity].
      destruct (find_kvs_some _ _ _ _ F2) as [Hin [A E]].
      destruct (find_kvs_in (ib_policy ib) l1 e (proj2 (Hset e) Hin) A) as [e' F1']. congruence.
  Qed.

  (* a retry is a no-op: same id while pending => Duplicate and the inbox is unchanged *)
  Lemma ingest_retry ib e e' : isorted (ib_pending ib) -> iid e' = iid e ->
    policy_accepts (ib_policy ib) e = true -> policy_accepts (ib_policy ib) e' = true ->
    ingest (fst (ingest ib (iid e) e)) (iid e') e' = (fst (ingest ib (iid e) e), Duplicate).
  Proof.
    intros Hs E A A'. rewrite E.
    assert (F : exists x, find N.compare (iid e) (ib_pending (fst (ingest ib (iid e) e))) = Some x).
    { rewrite ingest_pending, A by exact Hs. rewrite find_ins_same by (fn; auto).
      destruct (find N.compare (iid e) (ib_pending ib)); eauto. }
    destruct F as [x F]. unfold ingest at 1. rewrite ingest_policy, A', F. reflexivity.
  Qed.

  (* F11: the id does not cover the target and Occupied keeps the FIRST envelope:
     two spellings of one content leave an order-dependent retained envelope. *)
  Lemma ingest_target_spelling_witness :
    exists e1 e2 : envelope,
      content e1 = content e2 /\ iid e1 = iid e2 /\ e1 <> e2 /\
      ingest_all H (inbox_new AcceptAll) [e1; e2] <> ingest_all H (inbox_new AcceptAll) [e2; e1] /\
      map fst (ib_pending (ingest_all H (inbox_new AcceptAll) [e1; e2])) =
      map fst (ib_pending (ingest_all H (inbox_new AcceptAll) [e2; e1])).
  Proof.
    exists (mk_envelope (TDefault 1) 7 [1; 2] []), (mk_envelope (TExact 1 5) 7 [1; 2] []).
    split; [reflexivity|]. split; [reflexivity|]. split; [discriminate|].
    unfold ingest_all, ingest, inbox_new. cbn [fold_left fst snd ib_policy ib_pending policy_accepts find ins].
    assert (E : iid (mk_envelope (TExact 1 5) 7 [1; 2] []) = iid (mk_envelope (TDefault 1) 7 [1; 2] [])) by reflexivity.
    rewrite E. cbn [find ins fst snd ib_pending ib_policy]. rewrite N.compare_refl. cbn.
    split; [discriminate|reflexivity].
  Qed.
End WithHashProofs.

(* ------------------------------------------------------------------ *)
(* HeadInbox: inbox_admit *)

Lemma take_drop {A} (l : list A) : forall n, takeN l n ++ dropN l n = l.
Proof.
  induction l as [|x r IH]; intros n; cbn; [reflexivity|].
  destruct (n =? 0); cbn; [reflexivity|]. rewrite IH. reflexivity.
Qed.

Lemma takeN_len {A} (l : list A) : forall n, lenN (takeN l n) = N.min n (lenN l).
Proof.
  unfold lenN. induction l as [|x r IH]; intros n; cbn [takeN length].
  - cbn. lia.
  - destruct (n =? 0) eqn:E.
    + apply N.eqb_eq in E; subst. cbn. lia.
    + apply N.eqb_neq in E. cbn [length]. rewrite !Nat2N.inj_succ, IH. lia.
Qed.

(* admit_canonical: the batch is the prefix of the id-ordered pending map of
   length min(budget, |pending|) (everything, for AcceptAll / KindFilter);
   it is strictly ascending and every admitted id is below every id left pending. *)
Lemma admit_spec ib ib' batch : isorted (ib_pending ib) -> inbox_admit ib = (ib', batch) ->
  ib_pending ib = batch ++ ib_pending ib' /\ ib_policy ib' = ib_policy ib /\
  lenN batch = match ib_policy ib with Budgeted n => N.min n (lenN (ib_pending ib)) | _ => lenN (ib_pending ib) end /\
  isorted batch /\ isorted (ib_pending ib') /\
  (forall i e j e', In (i, e) batch -> In (j, e') (ib_pending ib') -> i < j).
Proof.
  intros Hs Ha.
  assert (Happ : ib_pending ib = batch ++ ib_pending ib' /\ ib_policy ib' = ib_policy ib /\
          lenN batch = match ib_policy ib with Budgeted n => N.min n (lenN (ib_pending ib)) | _ => lenN (ib_pending ib) end).
  { unfold inbox_admit in Ha. destruct (ib_policy ib) eqn:P; inversion Ha; subst; cbn [ib_pending ib_policy].
    - rewrite app_nil_r; auto.
    - rewrite app_nil_r; auto.
    - rewrite take_drop, takeN_len; auto. }
  destruct Happ as [Happ [Hp Hl]]. split; [exact Happ|]. split; [exact Hp|]. split; [exact Hl|].
  rewrite Happ in Hs. destruct (sorted_app_inv N.compare N_order _ _ Hs) as [Ha' [Hb Hab]].
  split; [exact Ha'|]. split; [exact Hb|].
  intros i e j e' Hi Hj. apply N.compare_lt_iff. eapply Hab; eauto.
Qed.

Lemma admit_batch_nodup ib ib' batch : isorted (ib_pending ib) -> inbox_admit ib = (ib', batch) ->
  NoDup (map fst batch).
Proof.
  intros Hs Ha. destruct (admit_spec _ _ _ Hs Ha) as [_ [_ [_ [Hb _]]]].
  apply (sorted_nodup_keys N.compare N_order). exact Hb.
Qed.

(* commit_with_state's dedupe of the admitted batch never drops anything *)
Lemma commit_dedupe_id batch : forall seen,
  NoDup (map fst batch) -> (forall i, In i seen -> ~ In i (map fst batch)) ->
  commit_dedupe seen batch = batch.
Proof.
  induction batch as [|[i e] r IH]; intros seen Hnd Hseen; cbn; [reflexivity|].
  cbn in Hnd. inversion Hnd as [|a l Hni Hnd']; subst.
  destruct (existsb (N.eqb i) seen) eqn:E.
  - apply existsb_exists in E. destruct E as [x [Hx Ex]]. apply N.eqb_eq in Ex; subst x.
    exfalso. apply (Hseen i Hx). left; reflexivity.
  - f_equal. apply IH; auto. intros j [->|Hj]; [exact Hni|].
    intro Hin. apply (Hseen j Hj). right; exact Hin.
Qed.

(* ------------------------------------------------------------------ *)
(* runtime slice: well-formedness *)

Definition cmem (x : ckey) (cm : list (ckey * unit)) : Prop := mem ckey_cmp x cm = true.

Lemma mem_set {K V} (cmp : K -> K -> comparison) (L : OrderLaws cmp) k' k (v : V) m :
  mem cmp k' (set cmp k v m) = true <-> k' = k \/ mem cmp k' m = true.
Proof.
  unfold mem. destruct (fm_dec cmp L k' k) as [->|Hne].
  - rewrite find_set_same by apply (ol_eq cmp L). tauto.
  - rewrite find_set_other by (try apply (ol_eq cmp L); auto). tauto.
Qed.

Lemma sorted_filter {V} (f : N * V -> bool) (m : list (N * V)) : isorted m -> isorted (filter f m).
Proof.
  induction m as [|[k v] r IH]; cbn; [tauto|]. intros [Hlb Hs].
  destruct (f (k, v)); [|auto]. cbn. split; [|auto].
  assert (Hall : forall k' v', In (k', v') (filter f r) -> N.compare k k' = Lt).
  { intros k' v' Hin. apply filter_In in Hin. eapply (lb_all N.compare n_tr k r Hs Hlb); apply Hin. }
  destruct (filter f r) as [|[k2 v2] r2]; [exact I|]. cbn. eapply Hall. left; reflexivity.
Qed.

Lemma filter_find_sub {V} (f : N * V -> bool) (m : list (N * V)) i : isorted m ->
  mem N.compare i (filter f m) = true -> mem N.compare i m = true.
Proof.
  intros Hs. unfold mem. destruct (find N.compare i (filter f m)) eqn:F; [|discriminate]. intros _.
  apply (find_in N.compare n_eq) in F. apply filter_In in F. destruct F as [Hin _].
  rewrite (in_find N.compare n_eq n_as n_tr _ _ _ Hs Hin). reflexivity.
Qed.

Definition heads_ok (hs : list (hkey * hstate)) : Prop :=
  hsorted hs /\ forall h s, In (h, s) hs -> isorted (ib_pending (hs_inbox s)).

(* pending ∩ committed = ∅, per head *)
Definition heads_disjoint (hs : list (hkey * hstate)) (cm : list (ckey * unit)) : Prop :=
  forall h s i, In (h, s) hs -> mem N.compare i (ib_pending (hs_inbox s)) = true -> ~ cmem (h, i) cm.

Definition rt_wf (rt : runtime) : Prop :=
  heads_ok (rt_heads rt) /\ csorted (rt_committed rt) /\ heads_disjoint (rt_heads rt) (rt_committed rt).

Lemma with_inbox_eta s : with_inbox s (hs_inbox s) = s.
Proof. destruct s; reflexivity. Qed.

Lemma heads_ok_set hs h s : heads_ok hs -> isorted (ib_pending (hs_inbox s)) -> heads_ok (set hkey_cmp h s hs).
Proof.
  intros [Hs Hin] Hi. split; [apply set_sorted; fh; auto|].
  intros h' s' Hin'.
  assert (Hso : hsorted (set hkey_cmp h s hs)) by (apply set_sorted; fh; auto).
  pose proof (in_find hkey_cmp h_eq h_as h_tr _ _ _ Hso Hin') as F.
  destruct (fm_dec hkey_cmp hkey_order h' h) as [->|Hne].
  - rewrite find_set_same in F by fh. inversion F; subst; auto.
  - rewrite find_set_other in F by (fh; auto). apply (find_in hkey_cmp h_eq) in F. eauto.
Qed.

Lemma in_set_cases (hs : list (hkey * hstate)) h s h' s' : hsorted hs -> In (h', s') (set hkey_cmp h s hs) ->
  (h' = h /\ s' = s) \/ (h' <> h /\ In (h', s') hs).
Proof.
  intros Hs Hin.
  assert (Hso : hsorted (set hkey_cmp h s hs)) by (apply set_sorted; fh; auto).
  pose proof (in_find hkey_cmp h_eq h_as h_tr _ _ _ Hso Hin) as F.
  destruct (fm_dec hkey_cmp hkey_order h' h) as [->|Hne].
  - rewrite find_set_same in F by fh. inversion F; auto.
  - rewrite find_set_other in F by (fh; auto). apply (find_in hkey_cmp h_eq) in F. auto.
Qed.

(* ------------------------------------------------------------------ *)
(* the scheduler pass *)

Definition batch_commits (hb : hkey * list (N * envelope)) : list ckey :=
  map (fun ie => (fst hb, fst ie)) (snd hb).
Definition commits (bs : list (hkey * list (N * envelope))) : list ckey := flat_map batch_commits bs.

Lemma record_committed_spec h (batch : list (N * envelope)) : forall cm, csorted cm ->
  csorted (record_committed h batch cm) /\
  forall x, cmem x (record_committed h batch cm) <-> cmem x cm \/ In x (batch_commits (h, batch)).
Proof.
  unfold record_committed, batch_commits. cbn [fst snd].
  induction batch as [|[i e] r IH]; intros cm Hs; cbn [fold_left map].
  - split; [exact Hs|]. intros x; cbn; tauto.
  - destruct (IH (set ckey_cmp (h, i) tt cm)) as [Hs' Hm]; [apply set_sorted; fc; auto|].
    split; [exact Hs'|]. intros x. rewrite Hm. unfold cmem at 1. rewrite (mem_set ckey_cmp ckey_order).
    cbn [fst In]. unfold cmem. intuition congruence.
Qed.

Lemma hsorted_keys_gt h (s : hstate) r : hsorted ((h, s) :: r) -> forall h' s', In (h', s') r -> h' <> h.
Proof.
  cbn. intros [Hlb Hs] h' s' Hin E. subst h'.
  pose proof (lb_all hkey_cmp h_tr h r Hs Hlb h s' Hin) as Hlt.
  rewrite (fm_refl hkey_cmp hkey_order) in Hlt. discriminate.
Qed.

Lemma inbox_admit_pending_sub ib ib' batch i : isorted (ib_pending ib) -> inbox_admit ib = (ib', batch) ->
  mem N.compare i (ib_pending ib') = true ->
  mem N.compare i (ib_pending ib) = true /\ ~ In i (map fst batch).
Proof.
  intros Hs Ha Hm. destruct (admit_spec _ _ _ Hs Ha) as [Happ [_ [_ [_ [Hs' Hlt]]]]].
  unfold mem in *. destruct (find N.compare i (ib_pending ib')) as [e|] eqn:F; [|discriminate].
  apply (find_in N.compare n_eq) in F. split.
  - assert (Hin : In (i, e) (ib_pending ib)) by (rewrite Happ; apply in_or_app; right; exact F).
    rewrite (in_find N.compare n_eq n_as n_tr _ _ _ Hs Hin). reflexivity.
  - intro Hin. apply in_map_iff in Hin. destruct Hin as [[j e'] [E Hin]]. cbn in E; subst j.
    specialize (Hlt i e' i e Hin F). lia.
Qed.

Lemma inbox_admit_batch_sub ib ib' batch i e : isorted (ib_pending ib) -> inbox_admit ib = (ib', batch) ->
  In (i, e) batch -> mem N.compare i (ib_pending ib) = true.
Proof.
  intros Hs Ha Hin. destruct (admit_spec _ _ _ Hs Ha) as [Happ _].
  assert (Hin' : In (i, e) (ib_pending ib)) by (rewrite Happ; apply in_or_app; left; exact Hin).
  unfold mem. rewrite (in_find N.compare n_eq n_as n_tr _ _ _ Hs Hin'). reflexivity.
Qed.

(* one pass over the heads: what it commits is fresh, duplicate free, and the
   invariant pending ∩ committed = ∅ is re-established *)
Lemma pass_heads_spec hs : forall cm hs' cm' bs,
  heads_ok hs -> csorted cm -> heads_disjoint hs cm ->
  pass_heads hs cm = (hs', cm', bs) ->
  map fst hs' = map fst hs /\ heads_ok hs' /\ csorted cm' /\
  (forall x, cmem x cm' <-> cmem x cm \/ In x (commits bs)) /\
  NoDup (commits bs) /\
  (forall x, In x (commits bs) -> ~ cmem x cm /\ In (fst x) (map fst hs)) /\
  heads_disjoint hs' cm' /\
  (forall h b, In (h, b) bs -> NoDup (map fst b) /\ b <> []).
Proof.
  induction hs as [|[h s] r IH]; intros cm hs' cm' bs Hok Hcs Hdj Hp.
  - cbn in Hp. inversion Hp; subst. cbn.
    repeat split; auto; try tauto; try constructor; try (intros ? ? []); try (intros ? ? ? []).
  - assert (Hokr : heads_ok r).
    { destruct Hok as [Hs Hin]. split; [cbn in Hs; tauto|]. intros; eapply Hin; right; eauto. }
    assert (Hne : forall h' s', In (h', s') r -> h' <> h) by (apply (hsorted_keys_gt h s r); apply Hok).
    assert (Hsi : isorted (ib_pending (hs_inbox s))) by (eapply (proj2 Hok); left; reflexivity).
    assert (Hdjr : forall cm0, (forall x, cmem x cm0 -> cmem x cm \/ fst x = h) -> heads_disjoint r cm0).
    { intros cm0 Hsub h' s' i Hin Hm Hc. destruct (Hsub _ Hc) as [Hc'|E].
      - eapply Hdj; [right; exact Hin|exact Hm|exact Hc'].
      - cbn in E. eapply Hne; eauto. }
    cbn [pass_heads] in Hp. destruct (hs_admitted s) eqn:Adm.
    + destruct (inbox_admit (hs_inbox s)) as [ib' batch] eqn:Ha.
      destruct batch as [|b0 bt].
      * (* nothing admitted *)
        destruct (pass_heads r cm) as [[r' cm1] bs1] eqn:Hr. injection Hp as E1 E2 E3; subst hs' cm' bs.
        destruct (IH cm r' cm1 bs1 Hokr Hcs (Hdjr cm (fun x Hx => or_introl Hx)) Hr)
          as [Hk [Hok' [Hcs' [Hm [Hnd [Hfresh [Hdj' Hbs]]]]]]].
        destruct (admit_spec _ _ _ Hsi Ha) as [Happ [_ [_ [_ [Hs' _]]]]]. cbn [app] in Happ.
        split; [cbn; f_equal; exact Hk|].
        split.
        { destruct Hok' as [Hs1 Hin1]. split.
          - cbn. split; [|exact Hs1]. destruct Hok as [[Hlb _] _].
            destruct r' as [|[k2 v2] r2]; [exact I|]. destruct r as [|[k3 v3] r3]; [discriminate|].
            cbn in Hk. inversion Hk; subst. exact Hlb.
          - intros h' s' [E|Hin]; [inversion E; subst; cbn; exact Hs'|eauto]. }
        split; [exact Hcs'|]. split; [exact Hm|]. split; [exact Hnd|].
        split; [intros x Hx; destruct (Hfresh x Hx); split; auto; cbn; right; auto|].
        split; [|exact Hbs].
        intros h' s' i [E|Hin] Hmem Hc.
        -- inversion E; subst h' s'; clear E. cbn [with_inbox hs_inbox] in Hmem.
           rewrite <- Happ in Hmem. apply Hm in Hc. destruct Hc as [Hc|Hc].
           ++ eapply Hdj; [left; reflexivity|exact Hmem|exact Hc].
           ++ destruct (Hfresh _ Hc) as [_ Hin]. cbn in Hin. apply in_map_iff in Hin.
              destruct Hin as [[h2 s2] [E2 Hin]]. cbn in E2; subst h2. eapply Hne; eauto.
        -- eapply Hdj'; eauto.
      * (* a batch is committed *)
        set (batch := b0 :: bt) in *.
        destruct (record_committed_spec h batch cm Hcs) as [Hcs1 Hm1].
        destruct (pass_heads r (record_committed h batch cm)) as [[r' cm1] bs1] eqn:Hr.
        injection Hp as E1 E2 E3; subst hs' cm' bs.
        assert (Hdj1 : heads_disjoint r (record_committed h batch cm)).
        { apply Hdjr. intros x Hx. apply Hm1 in Hx. destruct Hx as [Hx|Hx]; [auto|].
          right. unfold batch_commits in Hx. apply in_map_iff in Hx. destruct Hx as [ie [E _]]. subst x. reflexivity. }
        destruct (IH _ r' cm1 bs1 Hokr Hcs1 Hdj1 Hr)
          as [Hk [Hok' [Hcs' [Hm [Hnd [Hfresh [Hdj' Hbs]]]]]]].
        destruct (admit_spec _ _ _ Hsi Ha) as [Happ [_ [_ [Hsb [Hs' _]]]]].
        assert (Hndb : NoDup (map fst batch)) by (apply (sorted_nodup_keys N.compare N_order); exact Hsb).
        assert (Hbc : forall x, In x (batch_commits (h, batch)) -> fst x = h /\ ~ cmem x cm).
        { intros x Hx. unfold batch_commits in Hx. cbn [fst snd] in Hx. apply in_map_iff in Hx.
          destruct Hx as [[i e] [E Hin]]. subst x. split; [reflexivity|]. cbn [fst].
          eapply Hdj; [left; reflexivity|]. eapply inbox_admit_batch_sub; eauto. }
        split; [cbn; f_equal; exact Hk|].
        split.
        { destruct Hok' as [Hs1 Hin1]. split.
          - cbn. split; [|exact Hs1]. destruct Hok as [[Hlb _] _].
            destruct r' as [|[k2 v2] r2]; [exact I|]. destruct r as [|[k3 v3] r3]; [discriminate|].
            cbn in Hk. inversion Hk; subst. exact Hlb.
          - intros h' s' [E|Hin]; [inversion E; subst; cbn; exact Hs'|eauto]. }
        split; [exact Hcs'|].
        split.
        { intros x. rewrite Hm, Hm1. unfold commits. cbn [flat_map]. rewrite in_app_iff. tauto. }
        split.
        { unfold commits. cbn [flat_map]. apply NoDup_app_intro.
          - unfold batch_commits. cbn [fst snd]. apply FinFun.Injective_map_NoDup_in || idtac.
            clear - Hndb. induction batch as [|[i e] bt' IHb]; cbn; [constructor|].
            cbn in Hndb. inversion Hndb as [|a l Hni Hnd']; subst. constructor; auto.
            intro Hin. apply Hni. apply in_map_iff in Hin. destruct Hin as [[j e'] [E Hin]].
            inversion E; subst. apply in_map_iff. exists (i, e'). auto.
          - exact Hnd.
          - intros x Hx Hx'. destruct (Hbc x Hx) as [E _]. destruct (Hfresh x Hx') as [_ Hin].
            apply in_map_iff in Hin. destruct Hin as [[h2 s2] [E2 Hin]]. cbn in E2. eapply Hne; eauto. congruence. }
        split.
        { intros x Hx. unfold commits in Hx. cbn [flat_map] in Hx. apply in_app_iff in Hx. destruct Hx as [Hx|Hx].
          - destruct (Hbc x Hx) as [E Hn]. split; [exact Hn|]. cbn. left. auto.
          - destruct (Hfresh x Hx) as [Hn Hin]. split; [|cbn; right; exact Hin].
            intro Hc. apply Hn. apply Hm1. left. exact Hc. }
        split.
        { intros h' s' i [E|Hin] Hmem Hc.
          - inversion E; subst h' s'; clear E. cbn [with_inbox hs_inbox] in Hmem.
            destruct (inbox_admit_pending_sub _ _ _ i Hsi Ha Hmem) as [Hp' Hnb].
            apply Hm in Hc. destruct Hc as [Hc|Hc].
            + apply Hm1 in Hc. destruct Hc as [Hc|Hc].
              * eapply Hdj; [left; reflexivity|exact Hp'|exact Hc].
              * apply Hnb. unfold batch_commits in Hc. cbn [fst snd] in Hc. apply in_map_iff in Hc.
                destruct Hc as [[j e'] [E Hin]]. inversion E; subst. apply in_map_iff. exists (i, e'). auto.
            + destruct (Hfresh _ Hc) as [_ Hin]. cbn in Hin. apply in_map_iff in Hin.
              destruct Hin as [[h2 s2] [E2 Hin]]. cbn in E2; subst h2. eapply Hne; eauto.
          - eapply Hdj'; eauto. }
        intros h' b [E|Hin]; [inversion E; subst; split; [exact Hndb|discriminate]|eauto].
    + (* head not admitted: skipped *)
      destruct (pass_heads r cm) as [[r' cm1] bs1] eqn:Hr. injection Hp as E1 E2 E3; subst hs' cm' bs.
      destruct (IH cm r' cm1 bs1 Hokr Hcs (Hdjr cm (fun x Hx => or_introl Hx)) Hr)
        as [Hk [Hok' [Hcs' [Hm [Hnd [Hfresh [Hdj' Hbs]]]]]]].
      split; [cbn; f_equal; exact Hk|].
      split.
      { destruct Hok' as [Hs1 Hin1]. split.
        - cbn. split; [|exact Hs1]. destruct Hok as [[Hlb _] _].
          destruct r' as [|[k2 v2] r2]; [exact I|]. destruct r as [|[k3 v3] r3]; [discriminate|].
          cbn in Hk. inversion Hk; subst. exact Hlb.
        - intros h' s' [E|Hin]; [inversion E; subst; exact Hsi|eauto]. }
      split; [exact Hcs'|]. split; [exact Hm|]. split; [exact Hnd|].
      split; [intros x Hx; destruct (Hfresh x Hx); split; auto; cbn; right; auto|].
      split; [|exact Hbs].
      intros h' s' i [E|Hin] Hmem Hc.
      * inversion E; subst h' s'; clear E. apply Hm in Hc. destruct Hc as [Hc|Hc].
        -- eapply Hdj; [left; reflexivity|exact Hmem|exact Hc].
        -- destruct (Hfresh _ Hc) as [_ Hin]. cbn in Hin. apply in_map_iff in Hin.
           destruct Hin as [[h2 s2] [E2 Hin]]. cbn in E2; subst h2. eapply Hne; eauto.
      * eapply Hdj'; eauto.
Qed.
