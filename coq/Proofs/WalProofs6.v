(* Lemmas about Model/Wal.v, part 6 (C11): what the recovery DOES detect at the frame level -
   a deleted interior frame and a duplicated frame break LSN continuity. *)
From Coq Require Import List NArith Lia Bool Arith.
From Echo Require Import Base.Bytes Model.Wal Proofs.WalProofs Proofs.WalProofs2.
Import ListNotations.
Open Scope N_scope.

Section Sort.
Context {A : Type}.
Variable key : A -> N.

Lemma inc_keys_app a b :
  inc_keys key a -> inc_keys key b ->
  (forall x y, In x a -> In y b -> key x <= key y) -> inc_keys key (a ++ b).
Proof.
  induction a as [|x a IH]; intros Ha Hb Hab; [exact Hb|].
  destruct Ha as [Hx Ha]. cbn [app inc_keys]. split.
  - apply Forall_app. split; [exact Hx|].
    apply Forall_forall. intros y Hy. apply Hab; [left; reflexivity|exact Hy].
  - apply IH; auto. intros u v Hu Hv. apply Hab; [right; exact Hu|exact Hv].
Qed.
End Sort.

Section WithHash.
Variable H : bytes -> N.
Notation fr_ok := (fr_ok H).

(* the order check fails at the first frame that does not continue the LSN sequence *)
Lemma check_order_break a : forall l prev g b,
  consec l a -> Forall fr_ok a -> a <> [] -> fr_ok g -> f_lsn g <> l + lenN a ->
  (prev = None \/ exists p, prev = Some p /\ l = p + 1) ->
  check_order H prev (a ++ g :: b) = Err VLsn.
Proof.
  induction a as [|f a IH]; intros l prev g b Hc Ho Hn Hg Hne Hp; [congruence|].
  destruct Hc as [Hf Hc]. inversion Ho as [|? ? Hf0 Ho']; subst.
  cbn [app check_order]. unfold WalProofs2.fr_ok in Hf0. rewrite Hf0.
  assert (Hstep : check_order H (Some (f_lsn f)) (a ++ g :: b) = Err VLsn).
  { destruct a as [|f' a'].
    - cbn [app check_order]. unfold WalProofs2.fr_ok in Hg. rewrite Hg.
      rewrite lenN_cons in Hne. unfold lenN in Hne. cbn [length] in Hne.
      replace (f_lsn g =? f_lsn f + 1) with false; [reflexivity|].
      symmetry. apply N.eqb_neq. lia.
    - apply (IH (f_lsn f + 1) (Some (f_lsn f)) g b).
      + exact Hc.
      + exact Ho'.
      + discriminate.
      + exact Hg.
      + rewrite lenN_cons in Hne. lia.
      + right. exists (f_lsn f). split; reflexivity. }
  destruct Hp as [->|(p & -> & Hl)]; [exact Hstep|].
  replace (f_lsn f =? p + 1) with true by (symmetry; apply N.eqb_eq; lia).
  exact Hstep.
Qed.

(* C11 frame_edit_detected (1): deleting a frame that is neither the first nor the last of the log *)
Theorem interior_frame_deletion_detected l0 a f b cs :
  consec l0 (a ++ f :: b) -> Forall fr_ok (a ++ f :: b) -> a <> [] -> b <> [] ->
  recover_fc H (a ++ b) cs = Err VLsn.
Proof.
  intros Hc Ho Ha Hb.
  apply consec_app in Hc. destruct Hc as [Hca Hcb]. destruct Hcb as [Hf Hcb].
  apply Forall_app in Ho. destruct Ho as [Hoa Hob]. inversion Hob as [|? ? Hof Hob']; subst.
  destruct b as [|g b']; [congruence|]. destruct Hcb as [Hg Hcb]. inversion Hob' as [|? ? Hog Hob'']; subst.
  unfold recover_fc, validate_order.
  rewrite sort_by_sorted.
  - rewrite (check_order_break a l0 None g b'); [reflexivity|exact Hca|exact Hoa|exact Ha|exact Hog|lia|left; reflexivity].
  - apply inc_keys_app.
    + eapply consec_inc; exact Hca.
    + eapply (consec_inc (l0 + lenN a + 1)). split; [exact Hg|exact Hcb].
    + intros x y Hx Hy.
      pose proof (consec_bounds _ _ Hca) as Ba. rewrite Forall_forall in Ba. specialize (Ba x Hx).
      assert (Hcb2 : consec (l0 + lenN a + 1) (g :: b')) by (split; [exact Hg|exact Hcb]).
      pose proof (consec_bounds _ _ Hcb2) as Bb. rewrite Forall_forall in Bb. specialize (Bb y Hy).
      cbv beta in *. lia.
Qed.

(* C11 frame_edit_detected (2): a frame that occurs twice *)
Theorem duplicated_frame_detected l0 a f b cs :
  consec l0 (a ++ f :: b) -> Forall fr_ok (a ++ f :: b) ->
  recover_fc H (a ++ f :: f :: b) cs = Err VLsn.
Proof.
  intros Hc Ho.
  apply consec_app in Hc. destruct Hc as [Hca Hcb]. destruct Hcb as [Hf Hcb].
  apply Forall_app in Ho. destruct Ho as [Hoa Hob]. inversion Hob as [|? ? Hof Hob']; subst.
  unfold recover_fc, validate_order.
  rewrite sort_by_sorted.
  - replace (a ++ f :: f :: b) with ((a ++ [f]) ++ f :: b) by (rewrite <- app_assoc; reflexivity).
    rewrite (check_order_break (a ++ [f]) l0 None f b); [reflexivity| | | |exact Hof| |left; reflexivity].
    + apply consec_app. split; [exact Hca|]. split; [exact Hf|exact I].
    + apply Forall_app. split; [exact Hoa|constructor; [exact Hof|constructor]].
    + destruct a; discriminate.
    + rewrite lenN_app. unfold lenN at 2. cbn [length]. lia.
  - apply inc_keys_app.
    + eapply consec_inc; exact Hca.
    + change (Forall (fun y => f_lsn f <= f_lsn y) (f :: b) /\ inc_keys f_lsn (f :: b)). split.
      * constructor; [lia|].
        eapply Forall_impl; [|apply consec_bounds; exact Hcb]. cbv beta. intros y [? ?]. lia.
      * eapply (consec_inc (l0 + lenN a)). split; [exact Hf|exact Hcb].
    + intros x y Hx Hy.
      pose proof (consec_bounds _ _ Hca) as Ba. rewrite Forall_forall in Ba. specialize (Ba x Hx).
      assert (Hcb2 : consec (l0 + lenN a) (f :: b)) by (split; [exact Hf|exact Hcb]).
      pose proof (consec_bounds _ _ Hcb2) as Bb. rewrite Forall_forall in Bb.
      destruct Hy as [<-|Hy]; [cbv beta in *; lia|].
      specialize (Bb y Hy). cbv beta in *. lia.
Qed.

End WithHash.

(* ------------------------------------------------------------------ a log written by three writer epochs *)
(* The commit-marker tiling of recover_from_frames_and_commits does not look at writer epochs; the
   theorems quantify over logs with any epochs.  This concrete log has one transaction per epoch. *)
Definition exPe (e i : N) : tx_params :=
  {| p_epoch := e; p_seg := 1; p_tx := 200 + i; p_txkind := 1; p_codec := 2; p_schema := 3;
     p_domain := 4; p_dur := 1; p_froot := 9 |}.
Definition ex2_t1 : wtx := mk_tx exH (exPe 5 1) 0 77 78 [(1, [1; 2]); (2, [])].
Definition ex2_t2 : wtx := mk_tx exH (exPe 6 2) 2 77 78 [(6, [7])].
Definition ex2_t3 : wtx := mk_tx exH (exPe 7 3) 3 77 78 [(1, [9]); (22, [0])].
Definition ex2_t4 : wtx := mk_tx exH (exPe 7 4) 5 77 78 [(2, [3])].
Definition ex_log2 : list wtx := [ex2_t1; ex2_t2; ex2_t3; ex2_t4].

Lemma ex2_log_valid : log_valid exH 0 ex_log2.
Proof.
  split.
  - repeat constructor; try (vm_compute; reflexivity).
  - vm_compute. repeat split; reflexivity.
Qed.
