(* Generic theorems about Model/Fmt.v, proved once by induction on format descriptors, and their
   instances for the transcribed record descriptors. *)
From Coq Require Import List NArith Bool PeanoNat Lia.
From Echo Require Import Base.Bytes Base.Order Model.Fmt.
Import ListNotations.
Open Scope N_scope.

Section FmtInd.
  Variable P : fmt -> Prop.
  Hypothesis HU : forall w, P (FU w).
  Hypothesis HRaw : forall n, P (FRaw n).
  Hypothesis HConst : forall c, P (FConst c).
  Hypothesis HOpt : forall f, P f -> P (FOpt f).
  Hypothesis HBytes : forall w, P (FBytes w).
  Hypothesis HVec : forall w f, P f -> P (FVec w f).
  Hypothesis HSeq : forall l, Forall P l -> P (FSeq l).
  Hypothesis HEnum : forall alts, Forall (fun a => P (snd a)) alts -> P (FEnum alts).
  Fixpoint fmt_ind' (f : fmt) : P f :=
    match f with
    | FU w => HU w | FRaw n => HRaw n | FConst c => HConst c
    | FOpt f' => HOpt f' (fmt_ind' f')
    | FBytes w => HBytes w
    | FVec w f' => HVec w f' (fmt_ind' f')
    | FSeq l => HSeq l ((fix go (l : list fmt) : Forall P l :=
                           match l with [] => Forall_nil _ | x :: r => Forall_cons _ (fmt_ind' x) (go r) end) l)
    | FEnum alts => HEnum alts ((fix go (l : list (N * fmt)) : Forall (fun a => P (snd a)) l :=
                                  match l with [] => Forall_nil _ | a :: r => Forall_cons _ (fmt_ind' (snd a)) (go r) end) alts)
    end.
End FmtInd.

Lemma obind_some {A B} (o : option A) (f : A -> option B) y :
  obind o f = Some y -> exists a, o = Some a /\ f a = Some y.
Proof. destruct o; cbn; [eauto|discriminate]. Qed.

Lemma wfb_cons b l : wf_bytes (b :: l) = true <-> b < 256 /\ wf_bytes l = true.
Proof. unfold wf_bytes; cbn [forallb]. rewrite andb_true_iff. unfold byteb. rewrite N.ltb_lt. tauto. Qed.
Lemma wfb_app a b : wf_bytes (a ++ b) = true <-> wf_bytes a = true /\ wf_bytes b = true.
Proof. rewrite wf_bytes_app, andb_true_iff. tauto. Qed.
Lemma wfb_firstn n l : wf_bytes l = true -> wf_bytes (firstn n l) = true.
Proof.
  revert l; induction n as [|n IH]; intros [|x l] H; cbn [firstn]; auto.
  apply wfb_cons in H as [Hx Hl]. apply wfb_cons. auto.
Qed.

Lemma from_le_lt l : wf_bytes l = true -> from_le l < 256 ^ N.of_nat (length l).
Proof.
  induction l as [|x l IH]; intros H; [cbn; lia|].
  apply wfb_cons in H as [Hx Hl]. specialize (IH Hl).
  cbn [from_le length]. replace (N.of_nat (S (length l))) with (N.succ (N.of_nat (length l))) by lia.
  rewrite N.pow_succ_r'. nia.
Qed.

Lemma le_from_le l : wf_bytes l = true -> le_bytes (length l) (from_le l) = l.
Proof.
  induction l as [|x l IH]; intros H; [reflexivity|].
  apply wfb_cons in H as [Hx Hl]. cbn [length le_bytes from_le].
  replace (x + 256 * from_le l) with (x + from_le l * 256) by lia.
  rewrite N.mod_add, N.div_add by lia. rewrite N.mod_small, N.div_small by auto. cbn [N.add].
  rewrite IH; auto.
Qed.

(* read_le *)
Lemma read_le_some w b n r : read_le w b = Some (n, r) ->
  exists ext, b = ext ++ r /\ length ext = w /\ n = from_le ext.
Proof.
  unfold read_le. destruct (Nat.ltb_spec (length b) w) as [|Hge]; [discriminate|]. intros H; inversion H; subst.
  exists (firstn w b). split; [symmetry; apply firstn_skipn|]. split; [apply firstn_length_le; auto|reflexivity].
Qed.

Lemma read_le_app w n rest : n < 256 ^ N.of_nat w -> read_le w (le_bytes w n ++ rest) = Some (n, rest).
Proof.
  intros H. unfold read_le. rewrite app_length, le_bytes_length.
  destruct (Nat.ltb_spec (w + length rest) w); [lia|].
  rewrite <- (le_bytes_length w n) at 1 3. rewrite firstn_app, Nat.sub_diag, firstn_all. cbn [firstn]. rewrite app_nil_r.
  rewrite skipn_app, Nat.sub_diag, skipn_all. cbn [skipn app].
  rewrite from_le_le_bytes, N.mod_small; auto.
Qed.

Lemma starts_with_some c b r : starts_with c b = Some r -> b = c ++ r.
Proof.
  revert b; induction c as [|x c IH]; intros b H; cbn in H; [inversion H; reflexivity|].
  destruct b as [|y b]; [discriminate|]. destruct (N.eqb_spec x y); [|discriminate]. subst. cbn. f_equal. auto.
Qed.
Lemma starts_with_app c r : starts_with c (c ++ r) = Some r.
Proof. induction c as [|x c IH]; [reflexivity|]. cbn. rewrite N.eqb_refl. exact IH. Qed.

(* named versions of the local loops *)
Fixpoint enc_list (e : fval -> option bytes) (l : list fval) : option bytes :=
  match l with
  | [] => Some []
  | x :: r => obind (e x) (fun bx => obind (enc_list e r) (fun br => Some (bx ++ br)))
  end.

Fixpoint enc_seq (fs : list fmt) (vs : list fval) : option bytes :=
  match fs, vs with
  | [], [] => Some []
  | f1 :: fr, x :: vr => obind (enc_fmt f1 x) (fun bx => obind (enc_seq fr vr) (fun br => Some (bx ++ br)))
  | _, _ => None
  end.

Fixpoint dec_seq (fs : list fmt) (b : bytes) : option (fval * bytes) :=
  match fs with
  | [] => Some (XSeq [], b)
  | f1 :: fr =>
      obind (dec_fmt f1 b) (fun '(x, b1) =>
      obind (dec_seq fr b1) (fun '(v, b2) => match v with XSeq xs => Some (XSeq (x :: xs), b2) | _ => None end))
  end.

Lemma enc_vec_eq w f l :
  enc_fmt (FVec w f) (XVec l) =
  if lenN l <? 256 ^ N.of_nat w then obind (enc_list (enc_fmt f) l) (fun body => Some (le_bytes w (lenN l) ++ body)) else None.
Proof.
  cbn [enc_fmt]. destruct (lenN l <? 256 ^ N.of_nat w); [|reflexivity].
  match goal with |- obind ?a _ = obind ?b _ => assert (E : a = b); [|rewrite E; reflexivity] end.
  induction l as [|x l IH]; [reflexivity|]. cbn [enc_list]. rewrite <- IH. reflexivity.
Qed.

Lemma enc_seq_eq fs vs : enc_fmt (FSeq fs) (XSeq vs) = enc_seq fs vs.
Proof.
  reflexivity.
Qed.

Lemma dec_seq_eq fs b : dec_fmt (FSeq fs) b = dec_seq fs b.
Proof.
  reflexivity.
Qed.

Lemma enc_enum_eq alts c x :
  enc_fmt (FEnum alts) (XEnum c x) =
  if c <? 256 then match find_alt c alts with Some f => obind (enc_fmt f x) (fun b => Some (c :: b)) | None => None end else None.
Proof.
  cbn [enc_fmt]. destruct (c <? 256); [|reflexivity].
  induction alts as [|[c' f'] r IH]; [reflexivity|]. cbn [find_alt]. destruct (c =? c'); [reflexivity|exact IH].
Qed.

Lemma dec_enum_eq alts c r :
  dec_fmt (FEnum alts) (c :: r) =
  match find_alt c alts with Some f => obind (dec_fmt f r) (fun '(x, r1) => Some (XEnum c x, r1)) | None => None end.
Proof.
  cbn [dec_fmt]. induction alts as [|[c' f'] ar IH]; [reflexivity|]. cbn [find_alt]. destruct (c =? c'); [reflexivity|exact IH].
Qed.

Lemma find_alt_in c alts f : find_alt c alts = Some f -> In (c, f) alts.
Proof.
  induction alts as [|[c' f'] r IH]; cbn; [discriminate|]. destruct (N.eqb_spec c c').
  - intros H; inversion H; subst. auto.
  - auto.
Qed.

(* ------------------------------------------------------------------ accepted => canonical *)
Definition canon_f (f : fmt) : Prop :=
  forall b v rest, wf_bytes b = true -> dec_fmt f b = Some (v, rest) ->
    exists pre, b = pre ++ rest /\ enc_fmt f v = Some pre.

Lemma dec_items_canon f (Hf : canon_f f) :
  forall k n b xs rest, wf_bytes b = true -> dec_items (dec_fmt f) k n b = Some (xs, rest) ->
    exists pre, b = pre ++ rest /\ enc_list (enc_fmt f) xs = Some pre /\ lenN xs = n.
Proof.
  induction k as [|k IH]; intros n b xs rest Hwf H; cbn [dec_items] in H.
  - destruct (N.eqb_spec n 0) as [->|]; [|discriminate]. inversion H; subst. exists []. auto.
  - destruct (N.eqb_spec n 0) as [->|Hn0]; [inversion H; subst; exists []; auto|].
    apply obind_some in H as ((x & b1) & Hx & H). apply obind_some in H as ((xs' & b2) & Hs & H). inversion H; subst.
    destruct (Hf _ _ _ Hwf Hx) as (p1 & -> & E1). apply wfb_app in Hwf as [_ Hw1].
    destruct (IH _ _ _ _ Hw1 Hs) as (p2 & -> & E2 & L2).
    exists (p1 ++ p2). split; [rewrite app_assoc; reflexivity|]. split.
    + cbn [enc_list]. rewrite E1, E2. reflexivity.
    + unfold lenN in *. cbn [length]. lia.
Qed.

Lemma fmt_canonical_core : forall f, canon_f f.
Proof.
  induction f using fmt_ind'; intros b v rest Hwf Hd.
  - cbn [dec_fmt] in Hd. apply obind_some in Hd as ((n & r) & Hr & Hd). inversion Hd; subst.
    apply read_le_some in Hr as (ext & -> & Hl & ->). apply wfb_app in Hwf as [Hwe _].
    exists ext. split; auto. cbn [enc_fmt]. pose proof (from_le_lt ext Hwe) as B. rewrite Hl in B.
    apply N.ltb_lt in B. rewrite B. rewrite <- Hl, le_from_le; auto.
  - cbn [dec_fmt] in Hd. destruct (Nat.ltb_spec (length b) n); [discriminate|]. inversion Hd; subst.
    exists (firstn n b). split; [symmetry; apply firstn_skipn|]. cbn [enc_fmt].
    rewrite firstn_length_le by auto. rewrite Nat.eqb_refl, (wfb_firstn n b Hwf). reflexivity.
  - cbn [dec_fmt] in Hd. apply obind_some in Hd as (r & Hr & Hd). inversion Hd; subst.
    apply starts_with_some in Hr. exists c. split; auto.
  - cbn [dec_fmt] in Hd. destruct b as [|t r]; [discriminate|]. apply wfb_cons in Hwf as [Ht Hwr].
    destruct (N.eqb_spec t 0) as [->|T0].
    + inversion Hd; subst. exists [0]. split; reflexivity.
    + destruct (N.eqb_spec t 1) as [->|T1]; [|discriminate].
      apply obind_some in Hd as ((x & r1) & Hx & Hd). inversion Hd; subst.
      destruct (IHf _ _ _ Hwr Hx) as (pre & -> & E). exists (1 :: pre). split; [reflexivity|].
      cbn [enc_fmt]. rewrite E. reflexivity.
  - cbn [dec_fmt] in Hd. apply obind_some in Hd as ((n & r) & Hr & Hd).
    apply read_le_some in Hr as (ext & -> & Hl & ->). apply wfb_app in Hwf as [Hwe Hwr].
    destruct (N.ltb_spec (lenN r) (from_le ext)) as [|Hle]; [discriminate|]. inversion Hd; subst.
    exists (ext ++ firstn (N.to_nat (from_le ext)) r). split.
    + rewrite <- app_assoc. f_equal. symmetry. apply firstn_skipn.
    + cbn [enc_fmt].
      assert (L : lenN (firstn (N.to_nat (from_le ext)) r) = from_le ext).
      { unfold lenN in *. rewrite firstn_length_le by lia. lia. }
      rewrite L. pose proof (from_le_lt ext Hwe) as B. apply N.ltb_lt in B. rewrite B.
      rewrite (wfb_firstn _ r Hwr). cbn [andb]. rewrite le_from_le; auto.
  - cbn [dec_fmt] in Hd. apply obind_some in Hd as ((n & r) & Hr & Hd).
    apply read_le_some in Hr as (ext & -> & Hl & ->). apply wfb_app in Hwf as [Hwe Hwr].
    apply obind_some in Hd as ((xs & r1) & Hs & Hd). inversion Hd; subst.
    destruct (dec_items_canon f IHf _ _ _ _ _ Hwr Hs) as (body & -> & Eb & Ln).
    exists (ext ++ body). split; [rewrite app_assoc; reflexivity|].
    rewrite enc_vec_eq, Ln. pose proof (from_le_lt ext Hwe) as B. apply N.ltb_lt in B. rewrite B.
    rewrite Eb. cbn [obind]. rewrite le_from_le; auto.
  - rewrite dec_seq_eq in Hd. revert b v rest Hwf Hd.
    induction H as [|f fs Hf HF IH]; intros b v rest Hwf Hd; cbn [dec_seq] in Hd.
    + inversion Hd; subst. exists []. split; reflexivity.
    + apply obind_some in Hd as ((x & b1) & Hx & Hd). apply obind_some in Hd as ((v' & b2) & Hs & Hd).
      destruct v' as [| | | | | | |xs|]; try discriminate. inversion Hd; subst.
      destruct (Hf _ _ _ Hwf Hx) as (p1 & -> & E1). apply wfb_app in Hwf as [_ Hw1].
      destruct (IH _ _ _ Hw1 Hs) as (p2 & -> & E2). rewrite enc_seq_eq in E2.
      exists (p1 ++ p2). split; [rewrite app_assoc; reflexivity|].
      rewrite enc_seq_eq. cbn [enc_seq]. rewrite E1, E2. reflexivity.
  - destruct b as [|c r]; [discriminate|]. apply wfb_cons in Hwf as [Hc Hwr].
    rewrite dec_enum_eq in Hd. destruct (find_alt c alts) as [f|] eqn:Ef; [|discriminate].
    apply obind_some in Hd as ((x & r1) & Hx & Hd). inversion Hd; subst.
    rewrite Forall_forall in H. pose proof (H _ (find_alt_in _ _ _ Ef)) as Hf. cbn [snd] in Hf.
    destruct (Hf _ _ _ Hwr Hx) as (pre & -> & E). exists (c :: pre). split; [reflexivity|].
    rewrite enc_enum_eq. apply N.ltb_lt in Hc. rewrite Hc, Ef, E. reflexivity.
Qed.

(* ------------------------------------------------------------------ decode . encode = id *)
Definition rt_f (f : fmt) : Prop :=
  forall v pre, enc_fmt f v = Some pre -> forall rest, dec_fmt f (pre ++ rest) = Some (v, rest).

Lemma enc_min_size : forall f v pre, enc_fmt f v = Some pre -> (min_size f <= length pre)%nat.
Proof.
  induction f using fmt_ind'; intros v pre He.
  - destruct v; try discriminate. cbn [enc_fmt] in He. destruct (n <? 256 ^ N.of_nat w); [|discriminate].
    inversion He. rewrite le_bytes_length. cbn. lia.
  - destruct v; try discriminate. cbn [enc_fmt] in He. destruct (Nat.eqb_spec (length bs) n); [|discriminate].
    destruct (wf_bytes bs); [|discriminate]. inversion He; subst. cbn. lia.
  - destruct v; try discriminate. inversion He. cbn. lia.
  - destruct v; try discriminate; cbn [enc_fmt] in He.
    + inversion He. cbn. lia.
    + apply obind_some in He as (b & _ & He). inversion He. cbn. lia.
  - destruct v; try discriminate. cbn [enc_fmt] in He.
    destruct ((lenN bs <? 256 ^ N.of_nat w) && wf_bytes bs); [|discriminate]. inversion He.
    rewrite app_length, le_bytes_length. cbn. lia.
  - destruct v; try discriminate. rewrite enc_vec_eq in He. destruct (lenN l <? 256 ^ N.of_nat w); [|discriminate].
    apply obind_some in He as (body & _ & He). inversion He. rewrite app_length, le_bytes_length. cbn. lia.
  - destruct v; try discriminate. rewrite enc_seq_eq in He. revert l0 pre He.
    induction H as [|f fs Hf HF IH]; intros vs pre He; destruct vs as [|x vs]; cbn [enc_seq] in He; try discriminate.
    + inversion He. cbn. lia.
    + apply obind_some in He as (bx & Ex & He). apply obind_some in He as (br & Er & He). inversion He; subst.
      specialize (Hf _ _ Ex). specialize (IH _ _ Er). rewrite app_length. cbn [min_size fold_right] in *. lia.
  - destruct v; try discriminate. rewrite enc_enum_eq in He. destruct (code <? 256); [|discriminate].
    destruct (find_alt code alts); [|discriminate]. apply obind_some in He as (b & _ & He). inversion He. cbn. lia.
Qed.

Lemma enc_list_rt f (Hf : rt_f f) (Hmin : (1 <= min_size f)%nat) :
  forall l body, enc_list (enc_fmt f) l = Some body ->
  forall k rest, (length l <= k)%nat -> dec_items (dec_fmt f) k (lenN l) (body ++ rest) = Some (l, rest).
Proof.
  induction l as [|x l IH]; intros body He k rest Hk; cbn [enc_list] in He.
  - inversion He. destruct k; reflexivity.
  - apply obind_some in He as (bx & Ex & He). apply obind_some in He as (br & Er & He). inversion He; subst.
    destruct k as [|k]; [cbn in Hk; lia|]. cbn [dec_items].
    destruct (N.eqb_spec (lenN (x :: l)) 0) as [E0|_]; [unfold lenN in E0; cbn in E0; lia|].
    rewrite <- app_assoc, (Hf _ _ Ex). cbn [obind].
    replace (lenN (x :: l) - 1) with (lenN l) by (unfold lenN; cbn [length]; lia).
    rewrite (IH _ Er k rest) by (cbn [length] in Hk; lia). reflexivity.
Qed.

Lemma enc_list_len f (Hmin : (1 <= min_size f)%nat) l body :
  enc_list (enc_fmt f) l = Some body -> (length l <= length body)%nat.
Proof.
  revert body; induction l as [|x l IH]; intros body He; cbn [enc_list] in He; [inversion He; cbn; lia|].
  apply obind_some in He as (bx & Ex & He). apply obind_some in He as (br & Er & He). inversion He; subst.
  pose proof (enc_min_size _ _ _ Ex). specialize (IH _ Er). rewrite app_length. cbn [length]. lia.
Qed.

Lemma fmt_roundtrip_core : forall f, wf_fmt f = true -> rt_f f.
Proof.
  induction f using fmt_ind'; intros Hwf v pre He rest.
  - destruct v; try discriminate. cbn [enc_fmt] in He. destruct (N.ltb_spec n (256 ^ N.of_nat w)); [|discriminate].
    inversion He; subst. cbn [dec_fmt]. rewrite read_le_app by auto. reflexivity.
  - destruct v; try discriminate. cbn [enc_fmt] in He. destruct (Nat.eqb_spec (length bs) n); [|discriminate].
    destruct (wf_bytes bs); [|discriminate]. inversion He; subst. cbn [dec_fmt].
    rewrite app_length. destruct (Nat.ltb_spec (length pre + length rest) (length pre)); [lia|].
    rewrite firstn_app, Nat.sub_diag, firstn_all. cbn [firstn]. rewrite app_nil_r.
    rewrite skipn_app, Nat.sub_diag, skipn_all. reflexivity.
  - destruct v; try discriminate. inversion He; subst. cbn [dec_fmt]. rewrite starts_with_app. reflexivity.
  - destruct v; try discriminate; cbn [enc_fmt] in He.
    + inversion He. reflexivity.
    + apply obind_some in He as (b & Eb & He). inversion He; subst. cbn [dec_fmt app N.eqb Pos.eqb].
      cbn [wf_fmt] in Hwf. rewrite (IHf Hwf _ _ Eb). reflexivity.
  - destruct v; try discriminate. cbn [enc_fmt] in He.
    destruct (N.ltb_spec (lenN bs) (256 ^ N.of_nat w)); [|discriminate]. destruct (wf_bytes bs); [|discriminate].
    inversion He; subst. cbn [dec_fmt]. rewrite <- app_assoc, read_le_app by auto. cbn [obind].
    destruct (N.ltb_spec (lenN (bs ++ rest)) (lenN bs)) as [Hbad|_]; [unfold lenN in Hbad; rewrite app_length in Hbad; lia|].
    unfold lenN. rewrite Nat2N.id, firstn_app, Nat.sub_diag, firstn_all. cbn [firstn]. rewrite app_nil_r.
    rewrite skipn_app, Nat.sub_diag, skipn_all. reflexivity.
  - destruct v; try discriminate. rewrite enc_vec_eq in He.
    destruct (N.ltb_spec (lenN l) (256 ^ N.of_nat w)); [|discriminate].
    apply obind_some in He as (body & Eb & He). inversion He; subst.
    cbn [wf_fmt] in Hwf. apply andb_true_iff in Hwf as [Hwf Hmin]. apply Nat.leb_le in Hmin.
    cbn [dec_fmt]. rewrite <- app_assoc, read_le_app by auto. cbn [obind].
    rewrite (enc_list_rt f (IHf Hwf) Hmin l body Eb).
    + reflexivity.
    + pose proof (enc_list_len f Hmin l body Eb). rewrite app_length. lia.
  - destruct v; try discriminate. rewrite enc_seq_eq in He. rewrite dec_seq_eq.
    cbn [wf_fmt] in Hwf. revert l0 pre He rest.
    induction H as [|f fs Hf HF IH]; intros vs pre He rest; destruct vs as [|x vs]; cbn [enc_seq] in He; try discriminate.
    + inversion He. reflexivity.
    + apply obind_some in He as (bx & Ex & He). apply obind_some in He as (br & Er & He). inversion He; subst.
      cbn [forallb] in Hwf. apply andb_true_iff in Hwf as [W1 W2].
      cbn [dec_seq]. rewrite <- app_assoc, (Hf W1 _ _ Ex). cbn [obind]. rewrite (IH W2 _ _ Er). reflexivity.
  - destruct v; try discriminate. rewrite enc_enum_eq in He. destruct (code <? 256); [|discriminate].
    destruct (find_alt code alts) as [f|] eqn:Ef; [|discriminate].
    apply obind_some in He as (b & Eb & He). inversion He; subst.
    cbn [app]. rewrite dec_enum_eq, Ef.
    cbn [wf_fmt] in Hwf. rewrite forallb_forall in Hwf. pose proof (Hwf _ (find_alt_in _ _ _ Ef)) as Wf. cbn [snd] in Wf.
    rewrite Forall_forall in H. rewrite (H _ (find_alt_in _ _ _ Ef) Wf _ _ Eb). reflexivity.
Qed.

(* ------------------------------------------------------------------ top level *)
Theorem fmt_roundtrip_top f v b : wf_fmt f = true -> enc_fmt f v = Some b -> dec_top f b = Some v.
Proof.
  intros W E. unfold dec_top. pose proof (fmt_roundtrip_core f W v b E []) as H. rewrite app_nil_r in H. rewrite H. reflexivity.
Qed.

Theorem fmt_canonical_top f b v : wf_bytes b = true -> dec_top f b = Some v -> enc_fmt f v = Some b.
Proof.
  intros W H. unfold dec_top in H. destruct (dec_fmt f b) as [[v' rest]|] eqn:E; [|discriminate].
  destruct rest; [|discriminate]. inversion H; subst.
  destruct (fmt_canonical_core f _ _ _ W E) as (pre & -> & Ee). rewrite app_nil_r. exact Ee.
Qed.

Theorem fmt_enc_injective f v1 v2 b : wf_fmt f = true -> enc_fmt f v1 = Some b -> enc_fmt f v2 = Some b -> v1 = v2.
Proof.
  intros W E1 E2. pose proof (fmt_roundtrip_top f v1 b W E1). pose proof (fmt_roundtrip_top f v2 b W E2). congruence.
Qed.

Theorem fmt_trailing_rejected f b v x xs : wf_fmt f = true -> wf_bytes b = true -> dec_top f b = Some v -> dec_top f (b ++ x :: xs) = None.
Proof.
  intros W Wb H. pose proof (fmt_canonical_top f b v Wb H) as E.
  unfold dec_top. rewrite (fmt_roundtrip_core f W v b E (x :: xs)). reflexivity.
Qed.

(* ------------------------------------------------------------------ instances *)
Lemma all_descriptors_wf : forallb wf_fmt all_descriptors = true.
Proof. vm_compute. reflexivity. Qed.

(* StrandForkRecord (DESIGN F8, fixed in /repo): the decoder rejects writer heads that are not in
   canonical order, so accepted payloads re-encode identically *)
Lemma bytes_eqb_eq x y : bytes_eqb x y = true -> x = y.
Proof. unfold bytes_eqb. destruct (list_eq_dec N.eq_dec x y); [auto|discriminate]. Qed.

Section FvalInd.
  Variable P : fval -> Prop.
  Hypothesis HU : forall n, P (XU n).
  Hypothesis HRaw : forall b, P (XRaw b).
  Hypothesis HUnit : P XUnit.
  Hypothesis HNone : P XNone.
  Hypothesis HSome : forall v, P v -> P (XSome v).
  Hypothesis HBytes : forall b, P (XBytes b).
  Hypothesis HVec : forall l, Forall P l -> P (XVec l).
  Hypothesis HSeq : forall l, Forall P l -> P (XSeq l).
  Hypothesis HEnum : forall c v, P v -> P (XEnum c v).
  Fixpoint fval_ind' (v : fval) : P v :=
    match v with
    | XU n => HU n | XRaw b => HRaw b | XUnit => HUnit | XNone => HNone
    | XSome x => HSome x (fval_ind' x) | XBytes b => HBytes b
    | XVec l => HVec l ((fix go (l : list fval) : Forall P l :=
                           match l with [] => Forall_nil _ | x :: r => Forall_cons _ (fval_ind' x) (go r) end) l)
    | XSeq l => HSeq l ((fix go (l : list fval) : Forall P l :=
                           match l with [] => Forall_nil _ | x :: r => Forall_cons _ (fval_ind' x) (go r) end) l)
    | XEnum c x => HEnum c x (fval_ind' x)
    end.
End FvalInd.

Lemma fval_eqb_eq : forall a b, fval_eqb a b = true -> a = b.
Proof.
  induction a using fval_ind'; intros y E; destruct y; cbn [fval_eqb] in E; try discriminate.
  - apply N.eqb_eq in E. congruence.
  - apply bytes_eqb_eq in E. congruence.
  - reflexivity.
  - reflexivity.
  - f_equal. auto.
  - apply bytes_eqb_eq in E. congruence.
  - f_equal. revert l0 E. induction H as [|x l Hx HF IH]; intros [|y m] E; try discriminate; [reflexivity|].
    apply andb_true_iff in E as [E1 E2]. f_equal; auto.
  - f_equal. revert l0 E. induction H as [|x l Hx HF IH]; intros [|y m] E; try discriminate; [reflexivity|].
    apply andb_true_iff in E as [E1 E2]. f_equal; auto.
  - apply andb_true_iff in E as [E1 E2]. apply N.eqb_eq in E1. f_equal; auto.
Qed.

Theorem strand_fork_canonical_core b v :
  wf_bytes b = true -> strand_fork_dec b = Some v -> strand_fork_enc v = Some b.
Proof.
  intros W H. unfold strand_fork_dec in H. destruct (dec_top d_strand_fork b) as [v'|] eqn:E; [|discriminate].
  destruct (fval_eqb (canonicalize_fork v') v') eqn:Q; [|discriminate]. inversion H; subst v'.
  unfold strand_fork_enc. rewrite (fval_eqb_eq _ _ Q). apply fmt_canonical_top; auto.
Qed.

(* the pre-fix witness (heads in descending order) is now rejected *)
Definition fork_witness : bytes :=
  repeat 0 96 ++ le_bytes 8 7 ++ repeat 0 96 ++ le_bytes 8 2 ++ repeat 1 64 ++ repeat 0 64 ++ repeat 0 64 ++ [0].

Lemma fork_witness_rejected :
  wf_bytes fork_witness = true /\ dec_top d_strand_fork fork_witness <> None /\ strand_fork_dec fork_witness = None.
Proof. split; [vm_compute; reflexivity|]. split; [vm_compute; discriminate|vm_compute; reflexivity]. Qed.
