(* Lemmas about Model/Sched.v, part B: the 20-pass LSD radix sort realises the same total
   order as the comparison sort with cmp_thin (C03 / C01). *)
From Coq Require Import List Arith NArith ZArith Lia Bool Permutation Sorting.Sorted.
From Echo Require Import Model.Sched.
Import ListNotations.
Open Scope N_scope.

(* ---------- insertion sort basics ---------- *)

Lemma insert_by_perm {A} (key : A -> N) x l : Permutation (x :: l) (insert_by key x l).
Proof.
  induction l as [|y r IH]; cbn; [apply Permutation_refl|].
  destruct (key x <=? key y); [apply Permutation_refl|].
  eapply perm_trans; [apply perm_swap|]. apply perm_skip, IH.
Qed.

Lemma isort_by_perm {A} (key : A -> N) l : Permutation l (isort_by key l).
Proof.
  induction l as [|x l IH]; cbn; [constructor|].
  eapply perm_trans; [apply perm_skip, IH|]. apply insert_by_perm.
Qed.

Lemma Forall_perm {A} (P : A -> Prop) l l' : Permutation l l' -> Forall P l -> Forall P l'.
Proof. intros HP HF. rewrite Forall_forall in *. intros x Hx. apply HF. eapply Permutation_in; [apply Permutation_sym; exact HP|exact Hx]. Qed.

Definition Lex {A} (key : A -> N) (R : A -> A -> Prop) (a b : A) : Prop :=
  key a < key b \/ (key a = key b /\ R a b).

Lemma SS_impl {A} (R1 R2 : A -> A -> Prop) l :
  (forall a b, R1 a b -> R2 a b) -> StronglySorted R1 l -> StronglySorted R2 l.
Proof.
  intros H. induction 1 as [|a l Hs IH Hf]; constructor; auto.
  eapply Forall_impl; [|exact Hf]. auto.
Qed.

Lemma Lex_key_le {A} (key : A -> N) R a b : Lex key R a b -> key a <= key b.
Proof. intros [H|[H _]]; lia. Qed.

(* stability: inserting into a list already sorted by (key, then R) keeps it sorted by
   (key, then R) provided x is R-before everything already there *)
Lemma insert_by_SS {A} (key : A -> N) (R : A -> A -> Prop) x L :
  StronglySorted (Lex key R) L -> Forall (R x) L ->
  StronglySorted (Lex key R) (insert_by key x L).
Proof.
  induction L as [|y r IH]; intros Hs Hf; cbn.
  - constructor; constructor.
  - inversion Hs as [|? ? Hsr Hfy]; subst. inversion Hf as [|? ? Rxy Hfr]; subst.
    destruct (N.leb_spec (key x) (key y)) as [Hle|Hgt].
    + constructor; [exact Hs|]. constructor.
      * unfold Lex. destruct (N.eq_dec (key x) (key y)); [right; auto|left; lia].
      * rewrite Forall_forall in *. intros z Hz.
        pose proof (Lex_key_le _ _ _ _ (Hfy z Hz)) as Hyz.
        unfold Lex. destruct (N.eq_dec (key x) (key z)); [right; auto|left; lia].
    + constructor; [apply IH; assumption|].
      eapply Forall_perm; [apply insert_by_perm|].
      constructor; [left; lia|exact Hfy].
Qed.

Lemma isort_by_SS {A} (key : A -> N) (R : A -> A -> Prop) l :
  StronglySorted R l -> StronglySorted (Lex key R) (isort_by key l).
Proof.
  induction 1 as [|x l Hs IH Hf]; cbn; [constructor|].
  apply insert_by_SS; [exact IH|].
  eapply Forall_perm; [apply isort_by_perm|exact Hf].
Qed.

(* ---------- the chain of passes ---------- *)

Fixpoint chain (rps : list N) : thin -> thin -> Prop :=
  match rps with
  | [] => fun _ _ => True
  | p :: older => Lex (fun r => bucket16 r p) (chain older)
  end.

Lemma radix_fold_SS ps : forall rps l,
  StronglySorted (chain rps) l ->
  StronglySorted (chain (rev ps ++ rps)) (fold_left (fun acc p => radix_pass p acc) ps l).
Proof.
  induction ps as [|p ps IH]; intros rps l Hs; cbn [fold_left rev app]; [exact Hs|].
  rewrite <- app_assoc. cbn [app]. apply IH.
  unfold radix_pass. cbn [chain]. apply isort_by_SS. exact Hs.
Qed.

Lemma SS_True {A} (l : list A) : StronglySorted (fun _ _ => True) l.
Proof. induction l; constructor; auto. apply Forall_forall; auto. Qed.

Lemma radix_sort_chain l : StronglySorted (chain (rev passes)) (radix_sort l).
Proof.
  unfold radix_sort. pose proof (radix_fold_SS passes [] l (SS_True l)) as H.
  rewrite app_nil_r in H. exact H.
Qed.

Lemma radix_sort_perm l : Permutation l (radix_sort l).
Proof.
  unfold radix_sort. generalize passes. intros ps. revert l.
  induction ps as [|p ps IH]; intros l; cbn; [apply Permutation_refl|].
  eapply perm_trans; [|apply IH]. unfold radix_pass. apply isort_by_perm.
Qed.

(* ---------- digits of the 320-bit key ---------- *)

Definition digit (r : thin) (p : N) : N := (thin_key r / two16 ^ p) mod two16.

Lemma digit_high A C B m j : 1 < B -> C < B ^ m -> m <= j ->
  ((A * B ^ m + C) / B ^ j) mod B = (A / B ^ (j - m)) mod B.
Proof.
  intros HB HC Hj. replace j with (m + (j - m)) at 1 by lia.
  rewrite N.pow_add_r. rewrite <- N.div_div by (apply N.pow_nonzero; lia).
  rewrite N.div_add_l by (apply N.pow_nonzero; lia).
  rewrite (N.div_small C) by exact HC. rewrite N.add_0_r. reflexivity.
Qed.

Lemma digit_low A C B m j : 1 < B -> j < m ->
  ((A * B ^ m + C) / B ^ j) mod B = (C / B ^ j) mod B.
Proof.
  intros HB Hj. replace m with ((m - j - 1) + 1 + j) at 1 by lia.
  rewrite !N.pow_add_r, N.pow_1_r.
  replace (A * (B ^ (m - j - 1) * B * B ^ j)) with ((A * B ^ (m - j - 1) * B) * B ^ j) by lia.
  rewrite N.div_add_l by (apply N.pow_nonzero; lia).
  rewrite N.add_comm. rewrite N.mod_add by lia. reflexivity.
Qed.

Lemma thin_key_split r :
  thin_key r = t_scope r * two16 ^ 4 + (t_rule r * two16 ^ 2 + t_nonce r).
Proof.
  unfold thin_key, two32. change (two16 ^ 4) with 18446744073709551616.
  change (two16 ^ 2) with 4294967296. lia.
Qed.

Lemma bucket16_digit r p : wf_thin r -> p < 20 -> bucket16 r p = digit r p.
Proof.
  intros (Hs & Hr & Hn) Hp. unfold digit. rewrite thin_key_split.
  assert (HB : 1 < two16) by (unfold two16; lia).
  assert (Hn2 : t_nonce r < two16 ^ 2) by (change (two16 ^ 2) with two32; exact Hn).
  assert (Hlow : t_rule r * two16 ^ 2 + t_nonce r < two16 ^ 4).
  { change (two16 ^ 4) with (two32 * two32). change (two16 ^ 2) with two32. unfold two32 in *. nia. }
  unfold bucket16, u16_from_u32_le, u16_be_from_pair32.
  destruct (N.eqb_spec p 0) as [->|N0].
  { rewrite digit_low by (auto; lia). rewrite digit_low by (auto; lia). reflexivity. }
  destruct (N.eqb_spec p 1) as [->|N1].
  { rewrite digit_low by (auto; lia). rewrite digit_low by (auto; lia). reflexivity. }
  destruct (N.eqb_spec p 2) as [->|N2].
  { rewrite digit_low by (auto; lia). rewrite digit_high by (auto; lia). reflexivity. }
  destruct (N.eqb_spec p 3) as [->|N3].
  { rewrite digit_low by (auto; lia). rewrite digit_high by (auto; lia). reflexivity. }
  rewrite digit_high by (auto; lia).
  replace (15 - (19 - p)) with (p - 4) by lia. reflexivity.
Qed.

Fixpoint chainK (n : nat) : thin -> thin -> Prop :=
  match n with
  | O => fun _ _ => True
  | S m => Lex (fun r => bucket16 r (N.of_nat m)) (chainK m)
  end.

Lemma chain_is_chainK : chain (rev passes) = chainK 20.
Proof. reflexivity. Qed.

Lemma key_split K n :
  K mod two16 ^ N.of_nat (S n) = K mod two16 ^ N.of_nat n + two16 ^ N.of_nat n * ((K / two16 ^ N.of_nat n) mod two16).
Proof.
  replace (N.of_nat (S n)) with (N.succ (N.of_nat n)) by lia.
  rewrite N.pow_succ_r', N.mul_comm.
  apply N.mod_mul_r; unfold two16; [apply N.pow_nonzero|]; lia.
Qed.

Lemma chainK_key n a b :
  (n <= 20)%nat -> wf_thin a -> wf_thin b -> chainK n a b ->
  thin_key a mod two16 ^ N.of_nat n <= thin_key b mod two16 ^ N.of_nat n.
Proof.
  intros Hn Ha Hb. induction n as [|n IH]; intros Hc.
  - cbn. rewrite !N.mod_1_r. lia.
  - cbn [chainK] in Hc. rewrite !key_split.
    unfold Lex in Hc. cbv beta in Hc.
    rewrite !bucket16_digit in Hc by (auto; lia).
    unfold digit in Hc.
    set (B := two16 ^ N.of_nat n) in *.
    assert (HB : 0 < B) by (unfold B, two16; apply N.neq_0_lt_0, N.pow_nonzero; lia).
    pose proof (N.mod_lt (thin_key a) B ltac:(lia)) as Ha'.
    pose proof (N.mod_lt (thin_key b) B ltac:(lia)) as Hb'.
    set (da := (thin_key a / B) mod two16) in *. set (db := (thin_key b / B) mod two16) in *.
    clearbody da db B.
    destruct Hc as [Hlt|[Heq Hrest]].
    + assert (B * (da + 1) <= B * db) by (apply N.mul_le_mono_l; clear - Hlt; lia).
      rewrite N.mul_add_distr_l, N.mul_1_r in H.
      generalize dependent (thin_key a mod B). generalize dependent (thin_key b mod B).
      generalize dependent (B * da). generalize dependent (B * db). clear. intros. lia.
    + rewrite Heq. specialize (IH ltac:(lia) Hrest). clear - IH. lia.
Qed.

Lemma thin_key_bound r : wf_thin r -> thin_key r < two16 ^ 20.
Proof.
  intros (Hs & Hr & Hn). unfold thin_key, two32 in *.
  change (two16 ^ 20) with (2 ^ 256 * 4294967296 * 4294967296).
  assert (t_scope r + 1 <= 2 ^ 256) by lia.
  assert ((t_scope r * 4294967296 + t_rule r + 1) <= 2 ^ 256 * 4294967296) by nia.
  nia.
Qed.

Lemma chainK20_key a b : wf_thin a -> wf_thin b -> chainK 20 a b -> thin_key a <= thin_key b.
Proof.
  intros Ha Hb Hc. pose proof (chainK_key 20 a b ltac:(lia) Ha Hb Hc) as H.
  change (N.of_nat 20) with 20 in H.
  rewrite !N.mod_small in H by (apply thin_key_bound; assumption). exact H.
Qed.

(* ---------- uniqueness of the sorted permutation when keys are distinct ---------- *)

Lemma NoDup_map_inj_in {A} (key : A -> N) l x y :
  NoDup (map key l) -> In x l -> In y l -> key x = key y -> x = y.
Proof.
  induction l as [|z l IH]; intros Hnd Hx Hy E; [destruct Hx|].
  cbn in Hnd. inversion Hnd as [|? ? Hni Hnd']; subst.
  destruct Hx as [->|Hx], Hy as [->|Hy]; auto.
  - exfalso. apply Hni. rewrite E. apply in_map; exact Hy.
  - exfalso. apply Hni. rewrite <- E. apply in_map; exact Hx.
Qed.

Lemma sorted_perm_unique {A} (key : A -> N) l1 : forall l2,
  StronglySorted (fun a b => key a <= key b) l1 ->
  StronglySorted (fun a b => key a <= key b) l2 ->
  Permutation l1 l2 -> NoDup (map key l1) -> l1 = l2.
Proof.
  induction l1 as [|x r1 IH]; intros l2 H1 H2 HP Hnd.
  - apply Permutation_nil in HP; subst; reflexivity.
  - destruct l2 as [|y r2]; [apply Permutation_sym, Permutation_nil in HP; discriminate|].
    inversion H1 as [|? ? Hs1 Hf1]; subst. inversion H2 as [|? ? Hs2 Hf2]; subst.
    assert (Hxy : x = y).
    { assert (Hyin : In y (x :: r1)) by (eapply Permutation_in; [apply Permutation_sym; exact HP|left; reflexivity]).
      assert (Hxin : In x (y :: r2)) by (eapply Permutation_in; [exact HP|left; reflexivity]).
      destruct Hyin as [->|Hyin]; [reflexivity|].
      destruct Hxin as [->|Hxin]; [reflexivity|].
      rewrite Forall_forall in Hf1, Hf2.
      pose proof (Hf1 y Hyin). pose proof (Hf2 x Hxin).
      apply (NoDup_map_inj_in key (x :: r1)); auto; [left; reflexivity|right; exact Hyin|lia]. }
    subst y. f_equal. apply IH; auto.
    + eapply Permutation_cons_inv; exact HP.
    + cbn in Hnd. inversion Hnd; assumption.
Qed.

(* ---------- comparison sort with cmp_thin ---------- *)

Lemma cmp_thin_key a b : wf_thin a -> wf_thin b -> cmp_thin a b = (thin_key a ?= thin_key b).
Proof.
  intros (Hs1 & Hr1 & Hn1) (Hs2 & Hr2 & Hn2). unfold cmp_thin, thin_key, two32 in *.
  destruct (N.compare_spec (t_scope a) (t_scope b)) as [E|L|G].
  - rewrite E. destruct (N.compare_spec (t_rule a) (t_rule b)) as [E2|L2|G2].
    + rewrite E2. destruct (N.compare_spec (t_nonce a) (t_nonce b)) as [E3|L3|G3].
      * rewrite E3. symmetry. apply N.compare_refl.
      * symmetry. apply N.compare_lt_iff. lia.
      * symmetry. apply N.compare_gt_iff. lia.
    + symmetry. apply N.compare_lt_iff. nia.
    + symmetry. apply N.compare_gt_iff. nia.
  - symmetry. apply N.compare_lt_iff. nia.
  - symmetry. apply N.compare_gt_iff. nia.
Qed.

Lemma insert_cmp_by x l :
  wf_thin x -> Forall wf_thin l -> insert_cmp cmp_thin x l = insert_by thin_key x l.
Proof.
  intros Hx. induction 1 as [|y r Hy Hr IH]; cbn; [reflexivity|].
  rewrite cmp_thin_key by assumption.
  destruct (N.compare_spec (thin_key x) (thin_key y)) as [E|L|G];
    destruct (N.leb_spec (thin_key x) (thin_key y)); try lia; try reflexivity.
  f_equal. exact IH.
Qed.

Lemma isort_cmp_by l : Forall wf_thin l -> isort_cmp cmp_thin l = isort_by thin_key l.
Proof.
  induction 1 as [|x l Hx Hl IH]; [reflexivity|].
  unfold isort_cmp, isort_by in *. cbn [fold_right].
  rewrite IH. apply insert_cmp_by; [exact Hx|].
  fold (isort_by thin_key l).
  eapply Forall_perm; [apply isort_by_perm|exact Hl].
Qed.

Lemma small_sort_sorted l : Forall wf_thin l ->
  StronglySorted (fun a b => thin_key a <= thin_key b) (small_sort l).
Proof.
  intros Hw. unfold small_sort. rewrite isort_cmp_by by exact Hw.
  eapply SS_impl; [|apply (isort_by_SS thin_key (fun _ _ => True)); apply SS_True].
  intros a b. apply Lex_key_le.
Qed.

Lemma small_sort_perm l : Forall wf_thin l -> Permutation l (small_sort l).
Proof. intros Hw. unfold small_sort. rewrite isort_cmp_by by exact Hw. apply isort_by_perm. Qed.

Lemma radix_sort_sorted l : Forall wf_thin l ->
  StronglySorted (fun a b => thin_key a <= thin_key b) (radix_sort l).
Proof.
  intros Hw. pose proof (radix_sort_chain l) as Hs. rewrite chain_is_chainK in Hs.
  assert (Hw' : Forall wf_thin (radix_sort l)) by (eapply Forall_perm; [apply radix_sort_perm|exact Hw]).
  revert Hs Hw'. generalize (radix_sort l). intros L Hs Hw'.
  induction Hs as [|a L Hs IH Hf]; constructor.
  - apply IH. inversion Hw'; assumption.
  - inversion Hw' as [|? ? Ha HL]; subst. rewrite Forall_forall in *. intros b Hb.
    apply chainK20_key; auto.
Qed.

(* Both sides of the threshold realise the same order. *)
Theorem radix_eq_small l :
  Forall wf_thin l -> NoDup (map thin_key l) -> radix_sort l = small_sort l.
Proof.
  intros Hw Hnd. apply (sorted_perm_unique thin_key).
  - apply radix_sort_sorted; exact Hw.
  - apply small_sort_sorted; exact Hw.
  - eapply perm_trans; [apply Permutation_sym, radix_sort_perm|apply small_sort_perm; exact Hw].
  - eapply Permutation_NoDup; [|exact Hnd]. apply Permutation_map, radix_sort_perm.
Qed.

Theorem drain_thin_sorted l :
  Forall wf_thin l -> NoDup (map thin_key l) ->
  drain_thin l = small_sort l /\
  Permutation l (drain_thin l) /\
  StronglySorted (fun a b => thin_key a <= thin_key b) (drain_thin l).
Proof.
  intros Hw Hnd. unfold drain_thin. destruct (_ <=? _).
  - split; [reflexivity|]. split; [apply small_sort_perm|apply small_sort_sorted]; exact Hw.
  - rewrite radix_eq_small by assumption.
    split; [reflexivity|]. split; [apply small_sort_perm|apply small_sort_sorted]; exact Hw.
Qed.
