(* Float lemmas for Model/Cbor.v: bit fields as div/mod, exact narrowing/widening between
   binary64 and binary16/binary32 on bit patterns, exhaustive facts about the 2^16 halves. *)
From Coq Require Import List NArith ZArith Bool Lia.
From Echo Require Import Base.Bytes Base.Order Model.Cbor.
Import ListNotations.
Open Scope N_scope.

(* ================================================================== generic bit-field lemmas *)
(* ------------------------------------------------------------------ bit fields as div/mod *)
Lemma shr_spec a n : shr a n = a / 2 ^ n.
Proof. apply N.shiftr_div_pow2. Qed.
Lemma shl_spec a n : shl a n = a * 2 ^ n.
Proof. apply N.shiftl_mul_pow2. Qed.
Lemma low_spec a n : low a n = a mod 2 ^ n.
Proof. apply N.land_ones. Qed.

Lemma pow2_pos n : 0 < 2 ^ n.
Proof. apply N.neq_0_lt_0, N.pow_nonzero. lia. Qed.

Lemma fman_lt mb b : fman mb b < 2 ^ mb.
Proof. unfold fman. rewrite low_spec. apply N.mod_lt. pose proof (pow2_pos mb). lia. Qed.

Lemma fexp_lt eb mb b : fexp eb mb b < 2 ^ eb.
Proof. unfold fexp. rewrite low_spec. apply N.mod_lt. pose proof (pow2_pos eb). lia. Qed.

Lemma fsign_lt eb mb b : b < 2 ^ (1 + eb + mb) -> fsign eb mb b < 2.
Proof.
  intros H. unfold fsign. rewrite shr_spec. apply N.div_lt_upper_bound.
  - pose proof (pow2_pos (eb + mb)). lia.
  - replace (1 + eb + mb) with (N.succ (eb + mb)) in H by lia. rewrite N.pow_succ_r' in H. lia.
Qed.

Lemma pack_fields eb mb b : fpack eb mb (fsign eb mb b) (fexp eb mb b) (fman mb b) = b.
Proof.
  unfold fpack, fsign, fexp, fman. rewrite !shl_spec, !shr_spec, !low_spec.
  pose proof (pow2_pos mb) as P1. pose proof (pow2_pos eb) as P2.
  rewrite (N.add_comm eb mb), N.pow_add_r.
  rewrite <- N.div_div by lia.
  set (q := b / 2 ^ mb).
  pose proof (N.div_mod b (2 ^ mb) ltac:(lia)) as Hb. fold q in Hb.
  pose proof (N.div_mod q (2 ^ eb) ltac:(lia)) as Hq.
  set (x := q / 2 ^ eb) in *. set (y := q mod 2 ^ eb) in *. set (z := b mod 2 ^ mb) in *.
  set (M := 2 ^ mb) in *. set (E := 2 ^ eb) in *.
  transitivity (M * (E * x + y) + z); [ring|]. rewrite <- Hq. symmetry. exact Hb.
Qed.

Lemma fields_pack eb mb s e m : e < 2 ^ eb -> m < 2 ^ mb ->
  fsign eb mb (fpack eb mb s e m) = s /\ fexp eb mb (fpack eb mb s e m) = e /\ fman mb (fpack eb mb s e m) = m.
Proof.
  intros He Hm. unfold fpack, fsign, fexp, fman. rewrite !shl_spec, !shr_spec, !low_spec.
  pose proof (pow2_pos mb) as P1. pose proof (pow2_pos eb) as P2.
  rewrite (N.add_comm eb mb), N.pow_add_r.
  assert (E1 : (s * (2 ^ mb * 2 ^ eb) + e * 2 ^ mb + m) / 2 ^ mb = s * 2 ^ eb + e).
  { replace (s * (2 ^ mb * 2 ^ eb) + e * 2 ^ mb + m) with ((s * 2 ^ eb + e) * 2 ^ mb + m) by lia.
    rewrite N.div_add_l by lia. rewrite (N.div_small m) by auto. lia. }
  split; [|split].
  - rewrite <- N.div_div by lia. rewrite E1. rewrite N.div_add_l by lia. rewrite (N.div_small e) by auto. lia.
  - rewrite E1. rewrite N.add_comm, N.mod_add by lia. apply N.mod_small; auto.
  - replace (s * (2 ^ mb * 2 ^ eb) + e * 2 ^ mb + m) with (m + (s * 2 ^ eb + e) * 2 ^ mb) by lia.
    rewrite N.mod_add by lia. apply N.mod_small; auto.
Qed.

Lemma fpack_lt eb mb s e m : s < 2 -> e < 2 ^ eb -> m < 2 ^ mb -> fpack eb mb s e m < 2 ^ (1 + eb + mb).
Proof.
  intros Hs He Hm. unfold fpack. rewrite !shl_spec.
  replace (1 + eb + mb) with (N.succ (eb + mb)) by lia. rewrite N.pow_succ_r', N.pow_add_r.
  pose proof (pow2_pos mb). pose proof (pow2_pos eb). nia.
Qed.

(* ------------------------------------------------------------------ mantissa shifting *)
Lemma shift_exact m d : m mod 2 ^ d = 0 -> (m / 2 ^ d) * 2 ^ d = m.
Proof.
  intros H. pose proof (pow2_pos d). rewrite (N.div_mod m (2 ^ d)) at 2 by lia. rewrite H. lia.
Qed.

Lemma shift_lt m a d : m < 2 ^ (a + d) -> m / 2 ^ d < 2 ^ a.
Proof.
  intros H. pose proof (pow2_pos d). apply N.div_lt_upper_bound; [lia|]. rewrite N.pow_add_r in H. lia.
Qed.

Lemma mul_shift_back m d : (m * 2 ^ d) mod 2 ^ d = 0 /\ (m * 2 ^ d) / 2 ^ d = m.
Proof. pose proof (pow2_pos d). split; [apply N.mod_mul; lia|apply N.div_mul; lia]. Qed.

Lemma N_log2_unique' a b c : a = 2 ^ b + c -> c < 2 ^ b -> N.log2 a = b.
Proof. intros -> H. apply N.log2_unique; [lia|]. split; [lia|]. rewrite N.pow_succ_r'. lia. Qed.

(* subnormal targets: the significand 2^52 + m shifted right by k = 52 - p *)
Lemma subnormal_narrow m p :
  p <= 52 -> m < 2 ^ 52 -> (2 ^ 52 + m) mod 2 ^ (52 - p) = 0 ->
  let M := (2 ^ 52 + m) / 2 ^ (52 - p) in
  2 ^ p <= M /\ M < 2 ^ (p + 1) /\ (M - 2 ^ p) * 2 ^ (52 - p) = m /\ N.log2 M = p.
Proof.
  intros Hp Hm Hmod M.
  pose proof (pow2_pos (52 - p)) as Pk. pose proof (pow2_pos p) as Pp.
  assert (E52 : 2 ^ 52 = 2 ^ p * 2 ^ (52 - p)).
  { rewrite <- N.pow_add_r. f_equal. lia. }
  assert (EM : M * 2 ^ (52 - p) = 2 ^ 52 + m) by (apply shift_exact; auto).
  assert (L1 : 2 ^ p <= M) by nia.
  assert (L2 : M < 2 ^ (p + 1)).
  { rewrite N.pow_add_r. change (2 ^ 1) with 2. nia. }
  split; auto. split; auto. split.
  - rewrite N.mul_sub_distr_r. rewrite EM, <- E52. lia.
  - apply (N_log2_unique' M p (M - 2 ^ p)); [lia|].
    rewrite N.pow_add_r in L2. change (2 ^ 1) with 2 in L2. lia.
Qed.

Lemma subnormal_widen M p :
  p <= 52 -> 2 ^ p <= M -> M < 2 ^ (p + 1) ->
  let m := (M - 2 ^ p) * 2 ^ (52 - p) in
  m < 2 ^ 52 /\ (2 ^ 52 + m) mod 2 ^ (52 - p) = 0 /\ (2 ^ 52 + m) / 2 ^ (52 - p) = M.
Proof.
  intros Hp L1 L2 m.
  pose proof (pow2_pos (52 - p)) as Pk. pose proof (pow2_pos p) as Pp.
  assert (E52 : 2 ^ 52 = 2 ^ p * 2 ^ (52 - p)).
  { rewrite <- N.pow_add_r. f_equal. lia. }
  rewrite N.pow_add_r in L2. change (2 ^ 1) with 2 in L2.
  assert (Es : 2 ^ 52 + m = M * 2 ^ (52 - p)).
  { unfold m. rewrite N.mul_sub_distr_r, <- E52.
    assert (2 ^ 52 <= M * 2 ^ (52 - p)) by nia. lia. }
  split; [|split].
  - unfold m. nia.
  - rewrite Es. apply N.mod_mul. lia.
  - rewrite Es. apply N.div_mul. lia.
Qed.

(* ================================================================== binary32 *)
Lemma widen32_eq h : widen32 h =
  let s := fsign 8 23 h in let e := fexp 8 23 h in let m := fman 23 h in
  if e =? 255 then
    if m =? 0 then fpack 11 52 s 2047 0 else fpack 11 52 s 2047 (N.lor (2 ^ 51) (shl m 29))
  else if e =? 0 then
    if m =? 0 then fpack 11 52 s 0 0
    else let p := N.log2 m in fpack 11 52 s (p + 1024 - 127 - 23) (shl (m - 2 ^ p) (52 - p))
  else fpack 11 52 s (e + 1023 - 127) (shl m 29).
Proof. reflexivity. Qed.

Lemma narrow32_eq b : narrow32 b =
  let s := fsign 11 52 b in let e := fexp 11 52 b in let m := fman 52 b in
  if e =? 2047 then (if m =? 0 then Some (fpack 8 23 s 255 0) else None)
  else if e =? 0 then (if m =? 0 then Some (fpack 8 23 s 0 0) else None)
  else if (897 <=? e) && (e <=? 1150) then
    if low m 29 =? 0 then Some (fpack 8 23 s (e + 127 - 1023) (shr m 29)) else None
  else if (874 <=? e) && (e <=? 896) then
    let p := e - 874 in let k := 52 - p in let sig := 2 ^ 52 + m in
    if low sig k =? 0 then Some (fpack 8 23 s 0 (shr sig k)) else None
  else None.
Proof. reflexivity. Qed.

Lemma some_inj {A} (x y : A) : Some x = Some y -> x = y.
Proof. intros H; injection H; auto. Qed.

Definition P52 : 2 ^ 52 = 4503599627370496 := eq_refl.
Definition P23 : 2 ^ 23 = 8388608 := eq_refl.
Definition P29 : 2 ^ 29 = 536870912 := eq_refl.
Definition P8 : 2 ^ 8 = 256 := eq_refl.
Definition P11 : 2 ^ 11 = 2048 := eq_refl.

Lemma narrow32_some b s32 : b < 2 ^ 64 -> narrow32 b = Some s32 -> widen32 s32 = b /\ s32 < 4294967296.
Proof.
  intros Hb H. rewrite narrow32_eq in H. cbv zeta in H.
  pose proof (pack_fields 11 52 b) as Hpack.
  pose proof (fsign_lt 11 52 b Hb) as Hs. pose proof (fexp_lt 11 52 b) as He. pose proof (fman_lt 52 b) as Hm.
  revert Hpack Hs He Hm H. generalize (fsign 11 52 b) (fexp 11 52 b) (fman 52 b).
  intros s e m Hpack Hs He Hm H.
  rewrite P11 in He. rewrite P52 in Hm.
  assert (Hlt : forall e' m', e' < 2 ^ 8 -> m' < 2 ^ 23 -> fpack 8 23 s e' m' < 4294967296).
  { intros e' m' A B. apply (fpack_lt 8 23 s e' m' Hs A B). }
  rewrite widen32_eq. cbv zeta.
  destruct (N.eqb_spec e 2047) as [E2047|NE2047].
  { destruct (N.eqb_spec m 0) as [M0|]; [|discriminate]. apply some_inj in H. subst s32.
    destruct (fields_pack 8 23 s 255 0) as (F1 & F2 & F3); [rewrite P8; lia|rewrite P23; lia|].
    rewrite F1, F2, F3. cbn [N.eqb Pos.eqb]. split; [|apply Hlt; [rewrite P8|rewrite P23]; lia].
    rewrite <- Hpack. rewrite E2047, M0. reflexivity. }
  destruct (N.eqb_spec e 0) as [E0|NE0].
  { destruct (N.eqb_spec m 0) as [M0|]; [|discriminate]. apply some_inj in H. subst s32.
    destruct (fields_pack 8 23 s 0 0) as (F1 & F2 & F3); [rewrite P8; lia|rewrite P23; lia|].
    rewrite F1, F2, F3. cbn [N.eqb Pos.eqb]. split; [|apply Hlt; [rewrite P8|rewrite P23]; lia].
    rewrite <- Hpack. rewrite E0, M0. reflexivity. }
  destruct ((897 <=? e) && (e <=? 1150)) eqn:Enorm.
  { apply andb_true_iff in Enorm as [A B]. apply N.leb_le in A, B.
    rewrite low_spec, shr_spec in H.
    destruct (N.eqb_spec (m mod 2 ^ 29) 0) as [Mz|]; [|discriminate]. apply some_inj in H. subst s32.
    assert (Hm32 : m / 2 ^ 29 < 2 ^ 23).
    { apply shift_lt. change (2 ^ (23 + 29)) with 4503599627370496. exact Hm. }
    destruct (fields_pack 8 23 s (e + 127 - 1023) (m / 2 ^ 29)) as (F1 & F2 & F3); [rewrite P8; lia|exact Hm32|].
    rewrite F1, F2, F3.
    destruct (N.eqb_spec (e + 127 - 1023) 255); [lia|]. destruct (N.eqb_spec (e + 127 - 1023) 0); [lia|].
    split; [|apply Hlt; [rewrite P8; lia|exact Hm32]].
    rewrite shl_spec, (shift_exact m 29 Mz).
    rewrite <- Hpack. f_equal. lia. }
  destruct ((874 <=? e) && (e <=? 896)) eqn:Esub; [|discriminate].
  apply andb_true_iff in Esub as [A B]. apply N.leb_le in A, B.
  rewrite low_spec, shr_spec in H.
  destruct (N.eqb_spec ((2 ^ 52 + m) mod 2 ^ (52 - (e - 874))) 0) as [Mz|]; [|discriminate].
  apply some_inj in H. subst s32.
  assert (Hp : e - 874 <= 52) by lia.
  assert (Hm' : m < 2 ^ 52) by (rewrite P52; exact Hm).
  destruct (subnormal_narrow m (e - 874) Hp Hm' Mz) as (L1 & L2 & EM & Elog).
  set (M := (2 ^ 52 + m) / 2 ^ (52 - (e - 874))) in *.
  assert (HM23 : M < 2 ^ 23).
  { eapply N.lt_le_trans; [exact L2|]. apply N.pow_le_mono_r; lia. }
  destruct (fields_pack 8 23 s 0 M) as (F1 & F2 & F3); [rewrite P8; lia|exact HM23|].
  rewrite F1, F2, F3. cbn [N.eqb].
  assert (M0 : M <> 0). { pose proof (pow2_pos (e - 874)). lia. }
  destruct (N.eqb_spec M 0); [contradiction|].
  split; [|apply Hlt; [rewrite P8; lia|exact HM23]].
  rewrite Elog, shl_spec, EM. rewrite <- Hpack. f_equal. lia.
Qed.

(* ================================================================== binary16 (same script as binary32) *)
Definition P5 : 2 ^ 5 = 32 := eq_refl.
Definition P10 : 2 ^ 10 = 1024 := eq_refl.
Definition P42 : 2 ^ 42 = 4398046511104 := eq_refl.

Lemma widen16_eq h : widen16 h =
  let s := fsign 5 10 h in let e := fexp 5 10 h in let m := fman 10 h in
  if e =? 31 then
    if m =? 0 then fpack 11 52 s 2047 0 else fpack 11 52 s 2047 (N.lor (2 ^ 51) (shl m 42))
  else if e =? 0 then
    if m =? 0 then fpack 11 52 s 0 0
    else let p := N.log2 m in fpack 11 52 s (p + 1024 - 15 - 10) (shl (m - 2 ^ p) (52 - p))
  else fpack 11 52 s (e + 1023 - 15) (shl m 42).
Proof. reflexivity. Qed.

Lemma narrow16_eq b : narrow16 b =
  let s := fsign 11 52 b in let e := fexp 11 52 b in let m := fman 52 b in
  if e =? 2047 then (if m =? 0 then Some (fpack 5 10 s 31 0) else None)
  else if e =? 0 then (if m =? 0 then Some (fpack 5 10 s 0 0) else None)
  else if (1009 <=? e) && (e <=? 1038) then
    if low m 42 =? 0 then Some (fpack 5 10 s (e + 15 - 1023) (shr m 42)) else None
  else if (999 <=? e) && (e <=? 1008) then
    let p := e - 999 in let k := 52 - p in let sig := 2 ^ 52 + m in
    if low sig k =? 0 then Some (fpack 5 10 s 0 (shr sig k)) else None
  else None.
Proof. reflexivity. Qed.

Lemma narrow16_some b s16 : b < 2 ^ 64 -> narrow16 b = Some s16 -> widen16 s16 = b /\ s16 < 65536.
Proof.
  intros Hb H. rewrite narrow16_eq in H. cbv zeta in H.
  pose proof (pack_fields 11 52 b) as Hpack.
  pose proof (fsign_lt 11 52 b Hb) as Hs. pose proof (fexp_lt 11 52 b) as He. pose proof (fman_lt 52 b) as Hm.
  revert Hpack Hs He Hm H. generalize (fsign 11 52 b) (fexp 11 52 b) (fman 52 b).
  intros s e m Hpack Hs He Hm H.
  rewrite P11 in He. rewrite P52 in Hm.
  assert (Hlt : forall e' m', e' < 2 ^ 5 -> m' < 2 ^ 10 -> fpack 5 10 s e' m' < 65536).
  { intros e' m' A B. apply (fpack_lt 5 10 s e' m' Hs A B). }
  rewrite widen16_eq. cbv zeta.
  destruct (N.eqb_spec e 2047) as [E2047|NE2047].
  { destruct (N.eqb_spec m 0) as [M0|]; [|discriminate]. apply some_inj in H. subst s16.
    destruct (fields_pack 5 10 s 31 0) as (F1 & F2 & F3); [rewrite P5; lia|rewrite P10; lia|].
    rewrite F1, F2, F3. cbn [N.eqb Pos.eqb]. split; [|apply Hlt; [rewrite P5|rewrite P10]; lia].
    rewrite <- Hpack. rewrite E2047, M0. reflexivity. }
  destruct (N.eqb_spec e 0) as [E0|NE0].
  { destruct (N.eqb_spec m 0) as [M0|]; [|discriminate]. apply some_inj in H. subst s16.
    destruct (fields_pack 5 10 s 0 0) as (F1 & F2 & F3); [rewrite P5; lia|rewrite P10; lia|].
    rewrite F1, F2, F3. cbn [N.eqb Pos.eqb]. split; [|apply Hlt; [rewrite P5|rewrite P10]; lia].
    rewrite <- Hpack. rewrite E0, M0. reflexivity. }
  destruct ((1009 <=? e) && (e <=? 1038)) eqn:Enorm.
  { apply andb_true_iff in Enorm as [A B]. apply N.leb_le in A, B.
    rewrite low_spec, shr_spec in H.
    destruct (N.eqb_spec (m mod 2 ^ 42) 0) as [Mz|]; [|discriminate]. apply some_inj in H. subst s16.
    assert (Hm16 : m / 2 ^ 42 < 2 ^ 10).
    { apply shift_lt. change (2 ^ (10 + 42)) with 4503599627370496. exact Hm. }
    destruct (fields_pack 5 10 s (e + 15 - 1023) (m / 2 ^ 42)) as (F1 & F2 & F3); [rewrite P5; lia|exact Hm16|].
    rewrite F1, F2, F3.
    destruct (N.eqb_spec (e + 15 - 1023) 31); [lia|]. destruct (N.eqb_spec (e + 15 - 1023) 0); [lia|].
    split; [|apply Hlt; [rewrite P5; lia|exact Hm16]].
    rewrite shl_spec, (shift_exact m 42 Mz).
    rewrite <- Hpack. f_equal. lia. }
  destruct ((999 <=? e) && (e <=? 1008)) eqn:Esub; [|discriminate].
  apply andb_true_iff in Esub as [A B]. apply N.leb_le in A, B.
  rewrite low_spec, shr_spec in H.
  destruct (N.eqb_spec ((2 ^ 52 + m) mod 2 ^ (52 - (e - 999))) 0) as [Mz|]; [|discriminate].
  apply some_inj in H. subst s16.
  assert (Hp : e - 999 <= 52) by lia.
  assert (Hm' : m < 2 ^ 52) by (rewrite P52; exact Hm).
  destruct (subnormal_narrow m (e - 999) Hp Hm' Mz) as (L1 & L2 & EM & Elog).
  set (M := (2 ^ 52 + m) / 2 ^ (52 - (e - 999))) in *.
  assert (HM10 : M < 2 ^ 10).
  { eapply N.lt_le_trans; [exact L2|]. apply N.pow_le_mono_r; lia. }
  destruct (fields_pack 5 10 s 0 M) as (F1 & F2 & F3); [rewrite P5; lia|exact HM10|].
  rewrite F1, F2, F3. cbn [N.eqb].
  assert (M0 : M <> 0). { pose proof (pow2_pos (e - 999)). lia. }
  destruct (N.eqb_spec M 0); [contradiction|].
  split; [|apply Hlt; [rewrite P5; lia|exact HM10]].
  rewrite Elog, shl_spec, EM. rewrite <- Hpack. f_equal. lia.
Qed.

(* ================================================================== narrow32 o widen32, infinities, integer range *)
Lemma lor_lt a b n : a < 2 ^ n -> b < 2 ^ n -> N.lor a b < 2 ^ n.
Proof.
  intros Ha Hb. destruct (N.eq_dec (N.lor a b) 0) as [E|NE]; [rewrite E; apply pow2_pos|].
  apply N.log2_lt_pow2; [lia|]. rewrite N.log2_lor.
  destruct (N.eq_dec a 0) as [->|Na]; destruct (N.eq_dec b 0) as [->|Nb].
  - cbn in NE. contradiction.
  - rewrite N.max_r by (cbn; lia). apply N.log2_lt_pow2; lia.
  - rewrite N.max_l by (cbn; lia). apply N.log2_lt_pow2; lia.
  - apply N.max_lub_lt; apply N.log2_lt_pow2; lia.
Qed.

Lemma narrow32_widen32 s : s < 4294967296 -> f64_is_nan (widen32 s) = false -> narrow32 (widen32 s) = Some s.
Proof.
  intros Hs32. change 4294967296 with (2 ^ (1 + 8 + 23)) in Hs32.
  pose proof (pack_fields 8 23 s) as Hpack.
  pose proof (fsign_lt 8 23 s Hs32) as Hs. pose proof (fexp_lt 8 23 s) as He. pose proof (fman_lt 23 s) as Hm.
  rewrite widen32_eq. cbv zeta.
  revert Hpack Hs He Hm. generalize (fsign 8 23 s) (fexp 8 23 s) (fman 23 s).
  intros s0 e m Hpack Hs He Hm Hnan.
  rewrite P8 in He. rewrite P23 in Hm.
  rewrite narrow32_eq. cbv zeta.
  destruct (N.eqb_spec e 255) as [E255|NE255].
  { destruct (N.eqb_spec m 0) as [M0|NM0].
    - destruct (fields_pack 11 52 s0 2047 0) as (F1 & F2 & F3); [rewrite P11; lia|rewrite P52; lia|].
      rewrite F1, F2, F3. cbn [N.eqb Pos.eqb]. rewrite <- Hpack, E255, M0. reflexivity.
    - exfalso. revert Hnan. unfold f64_is_nan.
      assert (Hl : N.lor (2 ^ 51) (shl m 29) < 2 ^ 52).
      { apply lor_lt; [apply N.pow_lt_mono_r; lia|]. rewrite shl_spec, P29, P52. lia. }
      destruct (fields_pack 11 52 s0 2047 (N.lor (2 ^ 51) (shl m 29))) as (F1 & F2 & F3); [rewrite P11; lia|exact Hl|].
      rewrite F2, F3. cbn [N.eqb Pos.eqb andb].
      destruct (N.eqb_spec (N.lor (2 ^ 51) (shl m 29)) 0) as [Z|_]; [|discriminate].
      apply N.lor_eq_0_iff in Z as [Z _]. pose proof (pow2_pos 51). lia. }
  destruct (N.eqb_spec e 0) as [E0|NE0].
  { destruct (N.eqb_spec m 0) as [M0|NM0].
    - destruct (fields_pack 11 52 s0 0 0) as (F1 & F2 & F3); [rewrite P11; lia|rewrite P52; lia|].
      rewrite F1, F2, F3. cbn [N.eqb Pos.eqb]. rewrite <- Hpack, E0, M0. reflexivity.
    - set (p := N.log2 m).
      assert (Hlog : 2 ^ p <= m < 2 ^ N.succ p) by (apply N.log2_spec; lia).
      destruct Hlog as [L1 L2]. rewrite <- N.add_1_r in L2.
      assert (Hp22 : p <= 22).
      { apply N.lt_succ_r. apply (N.pow_lt_mono_r_iff 2); [lia|]. rewrite N.pow_succ_r'. 
        change (2 * 2 ^ 22) with 8388608. lia. }
      assert (Hp : p <= 52) by lia.
      destruct (subnormal_widen m p Hp L1 L2) as (B1 & B2 & B3).
      rewrite shl_spec.
      set (m' := (m - 2 ^ p) * 2 ^ (52 - p)) in *.
      destruct (fields_pack 11 52 s0 (p + 1024 - 127 - 23) m') as (F1 & F2 & F3); [rewrite P11; lia|exact B1|].
      rewrite F1, F2, F3.
      destruct (N.eqb_spec (p + 1024 - 127 - 23) 2047); [lia|].
      destruct (N.eqb_spec (p + 1024 - 127 - 23) 0); [lia|].
      destruct (N.leb_spec 897 (p + 1024 - 127 - 23)); [lia|]. cbn [andb].
      destruct (N.leb_spec 874 (p + 1024 - 127 - 23)); [|lia].
      destruct (N.leb_spec (p + 1024 - 127 - 23) 896); [|lia]. cbn [andb].
      replace (p + 1024 - 127 - 23 - 874) with p by lia.
      rewrite low_spec, shr_spec, B2, B3. cbn [N.eqb]. rewrite <- Hpack, E0. reflexivity. }
  destruct (fields_pack 11 52 s0 (e + 1023 - 127) (shl m 29)) as (F1 & F2 & F3);
    [rewrite P11; lia|rewrite shl_spec, P29, P52; lia|].
  rewrite F1, F2, F3.
  destruct (N.eqb_spec (e + 1023 - 127) 2047); [lia|].
  destruct (N.eqb_spec (e + 1023 - 127) 0); [lia|].
  destruct (N.leb_spec 897 (e + 1023 - 127)); [|lia].
  destruct (N.leb_spec (e + 1023 - 127) 1150); [|lia]. cbn [andb].
  rewrite low_spec, shr_spec, shl_spec.
  destruct (mul_shift_back m 29) as [Z1 Z2]. rewrite Z1, Z2. cbn [N.eqb].
  rewrite <- Hpack. do 2 f_equal. lia.
Qed.

Lemma inf_fields b : f64_is_inf b = true -> fexp 11 52 b = 2047 /\ fman 52 b = 0.
Proof.
  unfold f64_is_inf. intros H. apply andb_true_iff in H as [A B]. apply N.eqb_eq in A, B. auto.
Qed.

Lemma inf_narrow16 b : f64_is_inf b = true -> narrow16 b <> None.
Proof.
  intros H. destruct (inf_fields b H) as [A B]. unfold narrow16, narrow. cbv zeta. rewrite A, B. discriminate.
Qed.

Lemma inf_bits b : b < 2 ^ 64 -> f64_is_inf b = true ->
  b = if fsign 11 52 b =? 0 then 0x7ff0000000000000 else 0xfff0000000000000.
Proof.
  intros Hb H. destruct (inf_fields b H) as [A B].
  pose proof (pack_fields 11 52 b) as Hpack. pose proof (fsign_lt 11 52 b Hb) as Hs.
  rewrite A, B in Hpack. revert Hpack Hs. generalize (fsign 11 52 b). intros s Hpack Hs.
  assert (s = 0 \/ s = 1) as [->| ->] by lia; rewrite <- Hpack; reflexivity.
Qed.

Lemma zsgn_range s n : n < 2 ^ 64 -> (- 2 ^ 64 <= zsgn s n < 2 ^ 64)%Z.
Proof.
  intros H. change (2 ^ 64) with 18446744073709551616 in H. change (2 ^ 64)%Z with 18446744073709551616%Z.
  unfold zsgn. destruct (s =? 0); lia.
Qed.

Lemma f64_to_int_range b z : f64_to_int b = Some z -> (- 2 ^ 64 <= z < 2 ^ 64)%Z.
Proof.
  unfold f64_to_int. cbv zeta. pose proof (fman_lt 52 b) as Hm. revert Hm.
  generalize (fsign 11 52 b) (fexp 11 52 b) (fman 52 b). intros s e m Hm H.
  destruct (e =? 2047); [discriminate|].
  destruct (e =? 0).
  { destruct (m =? 0); [|discriminate]. apply some_inj in H. subst z. cbn. lia. }
  destruct (N.leb_spec 1075 e) as [Hge|Hlt].
  - destruct (N.ltb_spec e 1087) as [Hlt87|Hge87].
    + apply some_inj in H. subst z. apply zsgn_range. rewrite shl_spec.
      assert (2 ^ (e - 1075) <= 2 ^ 11) by (apply N.pow_le_mono_r; lia).
      rewrite P52 in *. change (2 ^ 11) with 2048 in *. change (2 ^ 64) with 18446744073709551616. nia.
    + destruct ((e =? 1087) && (m =? 0) && (s =? 1)); [|discriminate]. apply some_inj in H. subst z. cbn. lia.
  - destruct (53 <=? 1075 - e); [discriminate|].
    destruct (low (2 ^ 52 + m) (1075 - e) =? 0); [|discriminate]. apply some_inj in H. subst z.
    apply zsgn_range. rewrite shr_spec.
    eapply N.le_lt_trans; [apply N.div_le_upper_bound with (q := 2 ^ 52 + m)|].
    + apply N.pow_nonzero. lia.
    + pose proof (pow2_pos (1075 - e)). nia.
    + rewrite P52 in *. change (2 ^ 64) with 18446744073709551616. lia.
Qed.

(* ================================================================== exhaustive half-precision facts *)
(* exhaustive check over all numbers below 2^k by bit splitting (no big nat, no big list) *)
Fixpoint all_below (k : nat) (p : N -> bool) : bool :=
  match k with
  | O => p 0
  | S k' => all_below k' (fun x => p (2 * x)) && all_below k' (fun x => p (2 * x + 1))
  end.

Lemma lt2_cases r : r < 2 -> r = 0 \/ r = 1.
Proof. lia. Qed.

Lemma all_below_spec k : forall p, all_below k p = true -> forall h, h < 2 ^ N.of_nat k -> p h = true.
Proof.
  induction k as [|k IH]; intros p H h Hh.
  - cbn in Hh. assert (h = 0) by lia. subst. exact H.
  - cbn [all_below] in H. apply andb_true_iff in H as [H0 H1].
    replace (N.of_nat (S k)) with (N.succ (N.of_nat k)) in Hh by lia. rewrite N.pow_succ_r' in Hh.
    assert (N2 : 2 <> 0) by discriminate.
    pose proof (N.div_mod h 2 N2) as E.
    assert (Hq : h / 2 < 2 ^ N.of_nat k) by (apply N.div_lt_upper_bound; [exact N2|exact Hh]).
    assert (Hr : h mod 2 < 2) by (apply N.mod_lt; exact N2).
    destruct (lt2_cases _ Hr) as [R|R]; rewrite R in E.
    + rewrite E, N.add_0_r. apply (IH _ H0 _ Hq).
    + rewrite E. apply (IH _ H1 _ Hq).
Qed.

Definition half_ok (h : N) : bool :=
  let f := widen16 h in
  (f <? 2 ^ 64) &&
  (if f64_is_nan f then true
   else match narrow16 f with Some h' => h' =? h | None => false end) &&
  (if f64_is_inf f then ((h =? 0x7c00) && (fsign 11 52 f =? 0)) || ((h =? 0xfc00) && (fsign 11 52 f =? 1)) else true).

Lemma half_ok_all : all_below 16 half_ok = true.
Proof. vm_compute. reflexivity. Qed.

Lemma half_ok_h h : h < 65536 -> half_ok h = true.
Proof. intros H. apply (all_below_spec 16 _ half_ok_all). exact H. Qed.

Lemma widen16_bound h : h < 65536 -> widen16 h < 2 ^ 64.
Proof.
  intros H. pose proof (half_ok_h h H) as K. unfold half_ok in K. cbv zeta in K.
  apply andb_true_iff in K as [K _]. apply andb_true_iff in K as [K _]. apply N.ltb_lt in K. exact K.
Qed.

Lemma widen16_nonnan_narrow h : h < 65536 -> f64_is_nan (widen16 h) = false -> narrow16 (widen16 h) = Some h.
Proof.
  intros H Hn. pose proof (half_ok_h h H) as K. unfold half_ok in K. cbv zeta in K.
  apply andb_true_iff in K as [K _]. apply andb_true_iff in K as [_ K]. rewrite Hn in K.
  destruct (narrow16 (widen16 h)) as [h'|]; [|discriminate]. apply N.eqb_eq in K. subst. reflexivity.
Qed.

Lemma widen16_inf h : h < 65536 -> f64_is_inf (widen16 h) = true ->
  (h = 0x7c00 /\ fsign 11 52 (widen16 h) = 0) \/ (h = 0xfc00 /\ fsign 11 52 (widen16 h) = 1).
Proof.
  intros H Hi. pose proof (half_ok_h h H) as K. unfold half_ok in K. cbv zeta in K.
  apply andb_true_iff in K as [_ K]. rewrite Hi in K.
  apply orb_true_iff in K as [K|K]; apply andb_true_iff in K as [A B]; apply N.eqb_eq in A, B; auto.
Qed.

(* ================================================================== narrowing = exact representability *)
Lemma narrow_not_nan eb mb b h : narrow eb mb b = Some h -> f64_is_nan b = false.
Proof.
  unfold narrow, f64_is_nan. cbv zeta. destruct (fexp 11 52 b =? 2047); [|reflexivity].
  destruct (fman 52 b =? 0); [reflexivity|discriminate].
Qed.

(* the model's narrowing is exactly "representable in the narrower format" *)
Theorem narrow32_exact_core b s : b < 2 ^ 64 ->
  (narrow32 b = Some s <-> s < 4294967296 /\ widen32 s = b /\ f64_is_nan b = false).
Proof.
  intros Hb. split.
  - intros H. destruct (narrow32_some b s Hb H) as [A B]. split; auto. split; auto. apply (narrow_not_nan 8 23 b s H).
  - intros (A & B & C). rewrite <- B in *. apply narrow32_widen32; auto.
Qed.

Theorem narrow16_exact_core b h : b < 2 ^ 64 ->
  (narrow16 b = Some h <-> h < 65536 /\ widen16 h = b /\ f64_is_nan b = false).
Proof.
  intros Hb. split.
  - intros H. destruct (narrow16_some b h Hb H) as [A B]. split; auto. split; auto. apply (narrow_not_nan 5 10 b h H).
  - intros (A & B & C). rewrite <- B in *. apply widen16_nonnan_narrow; auto.
Qed.

