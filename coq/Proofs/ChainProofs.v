(* C05 proofs, part 1: the preimage encoders are injective on well-formed values (self-delimiting: fixed widths,
   tags, length prefixes); commit id / patch digest / receipt digest bind their content up to a collision of H;
   append-only / gap-free store invariants. *)
From Coq Require Import List NArith Bool Lia PeanoNat.
From Echo Require Import Base.Bytes Model.Chain.
Import ListNotations.
Open Scope N_scope.

Lemma app_eq_len {A} (a b r1 r2 : list A) :
  length a = length b -> a ++ r1 = b ++ r2 -> a = b /\ r1 = r2.
Proof.
  revert b; induction a as [|x a IH]; intros [|y b] L E; cbn in *; try discriminate; auto.
  injection E as -> E. injection L as L. destruct (IH b L E) as [-> ->]. auto.
Qed.

Definition pinj {A} (wf : A -> bool) (enc : A -> bytes) : Prop :=
  forall x y r1 r2, wf x = true -> wf y = true -> enc x ++ r1 = enc y ++ r2 -> x = y /\ r1 = r2.

Lemma pow256_32 : 256 ^ N.of_nat 32 = two256.
Proof. vm_compute. reflexivity. Qed.
Lemma pow256_8 : 256 ^ N.of_nat 8 = 2 ^ 64.
Proof. vm_compute. reflexivity. Qed.
Lemma pow256_4 : 256 ^ N.of_nat 4 = 2 ^ 32.
Proof. vm_compute. reflexivity. Qed.

Lemma le_pinj n x y r1 r2 :
  x < 256 ^ N.of_nat n -> y < 256 ^ N.of_nat n -> le_bytes n x ++ r1 = le_bytes n y ++ r2 -> x = y /\ r1 = r2.
Proof.
  intros Hx Hy E.
  apply app_eq_len in E; [|rewrite !le_bytes_length; reflexivity].
  destruct E as [E ->]. split; auto. eapply le_bytes_inj; eauto.
Qed.

Lemma id32_pinj : pinj idb id32.
Proof.
  intros x y r1 r2 Hx Hy E. unfold idb in *. apply N.ltb_lt in Hx, Hy.
  rewrite <- pow256_32 in Hx, Hy.
  unfold id32, be_bytes in E.
  apply app_eq_len in E; [|rewrite !rev_length, !le_bytes_length; reflexivity].
  destruct E as [E ->]. split; auto.
  apply (f_equal (@rev N)) in E. rewrite !rev_involutive in E.
  eapply le_bytes_inj; eauto.
Qed.
Lemma u64le_pinj : pinj u64b u64le.
Proof.
  intros x y r1 r2 Hx Hy E. unfold u64b in *. apply N.ltb_lt in Hx, Hy. rewrite <- pow256_8 in Hx, Hy.
  eapply le_pinj; eauto.
Qed.
Lemma u32le_pinj : pinj u32b u32le.
Proof.
  intros x y r1 r2 Hx Hy E. unfold u32b in *. apply N.ltb_lt in Hx, Hy. rewrite <- pow256_4 in Hx, Hy.
  eapply le_pinj; eauto.
Qed.

Global Opaque id32 u64le u32le u16le.
(* ---- tactics *)
Ltac split_wf :=
  repeat match goal with
  | H : _ && _ = true |- _ => apply andb_prop in H; destruct H
  end.
Ltac norm_app H := cbn [app] in H; repeat (rewrite <- app_assoc in H; cbn [app] in H).
Ltac use_id32 E :=
  match type of E with
  | id32 ?a ++ _ = id32 ?b ++ _ =>
    let Hn := fresh "Hid" in
    destruct (id32_pinj a b _ _ ltac:(assumption) ltac:(assumption) E) as [Hn E']; clear E; rename E' into E;
    try subst a
  end.

Lemma cons_inj {A} (a b : A) l m : a :: l = b :: m -> a = b /\ l = m.
Proof. intros E; injection E; auto. Qed.
Ltac cons_inv E := let Hh := fresh "Hh" in apply cons_inj in E; destruct E as [Hh E].

Lemma akey_pinj : pinj wf_akey enc_akey.
Proof.
  intros [e1 w1 l1 p1] [e2 w2 l2 p2] r1 r2 Hx Hy E.
  unfold wf_akey in *; cbn [ak_warp ak_local] in *. split_wf.
  unfold enc_akey, owner_tag, plane_tag in E; cbn [ak_edge ak_warp ak_local ak_plane] in E.
  norm_app E. cons_inv E. cons_inv E.
  apply id32_pinj in E; auto. destruct E as [-> E]. apply id32_pinj in E; auto. destruct E as [-> ->].
  split; auto.
  assert (e1 = e2) as -> by (destruct e1, e2; try reflexivity; discriminate).
  assert (p1 = p2) as -> by (destruct p1, p2; try reflexivity; discriminate).
  reflexivity.
Qed.

Ltac id_step E :=
  match type of E with
  | id32 ?a ++ _ = id32 ?b ++ _ =>
    let Hn := fresh "Hid" in
    apply id32_pinj in E; [destruct E as [Hn E]; try subst a | assumption | assumption]
  end.

Lemma akey_opt_pinj : pinj (fun k => match k with None => true | Some k => wf_akey k end) enc_akey_opt.
Proof.
  intros [k1|] [k2|] r1 r2 Hx Hy E; cbn [enc_akey_opt] in E; norm_app E; cons_inv E; try discriminate.
  - apply akey_pinj in E; auto. destruct E as [-> ->]. auto.
  - subst; auto.
Qed.

Lemma aval_pinj : pinj wf_aval enc_aval.
Proof.
  intros [t1 d1|w1] [t2 d2|w2] r1 r2 Hx Hy E; cbn [wf_aval enc_aval] in *; split_wf;
    norm_app E; cons_inv E; try discriminate.
  - id_step E. apply u64le_pinj in E; auto. destruct E as [L E].
    apply app_eq_len in E.
    + destruct E as [-> ->]; auto.
    + unfold lenN in L. lia.
  - id_step E. subst. auto.
Qed.

Lemma aval_opt_pinj : pinj (fun v => match v with None => true | Some x => wf_aval x end) enc_aval_opt.
Proof.
  intros [k1|] [k2|] r1 r2 Hx Hy E; cbn [enc_aval_opt] in E; norm_app E; cons_inv E; try discriminate.
  - apply aval_pinj in E; auto. destruct E as [-> ->]. auto.
  - subst; auto.
Qed.

Lemma pinit_pinj : pinj wf_pinit enc_pinit.
Proof.
  intros [|t1] [|t2] r1 r2 Hx Hy E; cbn [wf_pinit enc_pinit] in *; norm_app E; cons_inv E; try discriminate.
  - subst; auto.
  - id_step E. subst; auto.
Qed.

Lemma slot_pinj : pinj wf_slot enc_slot.
Proof.
  intros [w1 l1|w1 l1|k1|w1 p1] [w2 l2|w2 l2|k2|w2 p2] r1 r2 Hx Hy E; cbn [wf_slot enc_slot] in *; split_wf;
    norm_app E; cons_inv E; try discriminate.
  - id_step E. id_step E. subst; auto.
  - id_step E. id_step E. subst; auto.
  - apply akey_pinj in E; auto. destruct E as [-> ->]; auto.
  - id_step E. apply u64le_pinj in E; auto. destruct E as [-> ->]; auto.
Qed.

Lemma op_pinj : pinj wf_op enc_op.
Proof.
  intros [k1 cw1 cr1 i1|w1 rn1 p1|w1|w1 l1 t1|w1 l1|w1 f1 i1 t1 ty1|w1 f1 i1|k1 v1]
         [k2 cw2 cr2 i2|w2 rn2 p2|w2|w2 l2 t2|w2 l2|w2 f2 i2 t2 ty2|w2 f2 i2|k2 v2] r1 r2 Hx Hy E;
    cbn [wf_op enc_op] in *; split_wf; norm_app E; cons_inv E; try discriminate.
  - apply akey_pinj in E; auto. destruct E as [-> E]. id_step E. id_step E.
    apply pinit_pinj in E; auto. destruct E as [-> ->]; auto.
  - id_step E. id_step E. apply akey_opt_pinj in E; auto. destruct E as [-> ->]; auto.
  - id_step E. subst; auto.
  - id_step E. id_step E. id_step E. subst; auto.
  - id_step E. id_step E. subst; auto.
  - id_step E. id_step E. id_step E. id_step E. id_step E. subst; auto.
  - id_step E. id_step E. id_step E. subst; auto.
  - apply akey_pinj in E; auto. destruct E as [-> E]. apply aval_opt_pinj in E; auto. destruct E as [-> ->]; auto.
Qed.

(* element lists *)
Lemma flat_pinj {A} (wf : A -> bool) (enc : A -> bytes) :
  pinj wf enc -> forall l1 l2 r1 r2, length l1 = length l2 -> forallb wf l1 = true -> forallb wf l2 = true ->
  flat enc l1 ++ r1 = flat enc l2 ++ r2 -> l1 = l2 /\ r1 = r2.
Proof.
  intros Hp l1; induction l1 as [|x l1 IH]; intros [|y l2] r1 r2 L W1 W2 E; cbn in L; try discriminate.
  - cbn in E. auto.
  - unfold flat in E; cbn [map concat] in E. rewrite <- !app_assoc in E.
    cbn [forallb] in W1, W2. split_wf.
    apply Hp in E; auto. destruct E as [-> E].
    apply IH in E; auto. destruct E as [-> ->]; auto.
Qed.

Lemma counted_pinj {A} (wf : A -> bool) (enc : A -> bytes) :
  pinj wf enc -> forall l1 l2 r1 r2, u64b (lenN l1) = true -> u64b (lenN l2) = true ->
  forallb wf l1 = true -> forallb wf l2 = true ->
  u64le (lenN l1) ++ flat enc l1 ++ r1 = u64le (lenN l2) ++ flat enc l2 ++ r2 -> l1 = l2 /\ r1 = r2.
Proof.
  intros Hp l1 l2 r1 r2 B1 B2 W1 W2 E.
  apply u64le_pinj in E; auto. destruct E as [L E].
  eapply flat_pinj; eauto. unfold lenN in L. lia.
Qed.

Lemma pbody_eta p : p = {| pb_policy := pb_policy p; pb_rule_pack := pb_rule_pack p; pb_status := pb_status p;
                           pb_in := pb_in p; pb_out := pb_out p; pb_ops := pb_ops p |}.
Proof. destruct p; reflexivity. Qed.

Theorem patch_preimage_inj_proof p1 p2 :
  wf_pbody p1 = true -> wf_pbody p2 = true -> patch_preimage p1 = patch_preimage p2 -> p1 = p2.
Proof.
  intros W1 W2 E. unfold wf_pbody in *. split_wf.
  unfold patch_preimage in E.
  apply app_inv_head in E. apply app_inv_head in E.
  apply u32le_pinj in E; auto. destruct E as [Ep E].
  id_step E. cbn [app] in E. cons_inv E.
  unfold enc_slots, enc_ops in E. rewrite <- !app_assoc in E.
  apply (counted_pinj wf_slot enc_slot slot_pinj) in E; auto. destruct E as [Ein E].
  apply (counted_pinj wf_slot enc_slot slot_pinj) in E; auto. destruct E as [Eout E].
  rewrite <- (app_nil_r (flat enc_op (pb_ops p1))), <- (app_nil_r (flat enc_op (pb_ops p2))) in E.
  apply (counted_pinj wf_op enc_op op_pinj) in E; auto. destruct E as [Eops _].
  rewrite (pbody_eta p1), (pbody_eta p2). congruence.
Qed.

Lemma cbody_eta c : c = {| cb_parents := cb_parents c; cb_root := cb_root c; cb_pdig := cb_pdig c;
                           cb_policy := cb_policy c |}.
Proof. destruct c; reflexivity. Qed.

Theorem commit_preimage_inj_proof c1 c2 :
  wf_cbody c1 = true -> wf_cbody c2 = true -> commit_preimage c1 = commit_preimage c2 -> c1 = c2.
Proof.
  intros W1 W2 E. unfold wf_cbody in *. split_wf.
  unfold commit_preimage in E.
  apply app_inv_head in E. apply app_inv_head in E.
  apply (counted_pinj idb id32 id32_pinj) in E; auto. destruct E as [Ep E].
  id_step E. id_step E.
  rewrite <- (app_nil_r (u32le (cb_policy c1))), <- (app_nil_r (u32le (cb_policy c2))) in E.
  apply u32le_pinj in E; auto. destruct E as [Epol _].
  rewrite (cbody_eta c1), (cbody_eta c2). congruence.
Qed.


(* ------------------------------------------------------------------------------------------------ binding *)
Section Binds.
  Variable H : bytes -> N.

  Lemma hash_eq_cases (x y : bytes) : H x = H y -> x = y \/ Collision H.
  Proof.
    intros E. destruct (list_eq_dec N.eq_dec x y) as [->|Hn]; [left; reflexivity|].
    right. exists x, y. auto.
  Qed.

  Theorem commit_binds_proof c1 c2 :
    wf_cbody c1 = true -> wf_cbody c2 = true -> commit_id H c1 = commit_id H c2 -> c1 = c2 \/ Collision H.
  Proof.
    intros W1 W2 E. destruct (hash_eq_cases _ _ E) as [E'|C]; auto.
    left. apply commit_preimage_inj_proof; auto.
  Qed.

  Theorem patch_binds_proof p1 p2 :
    wf_pbody p1 = true -> wf_pbody p2 = true -> patch_digest H p1 = patch_digest H p2 -> p1 = p2 \/ Collision H.
  Proof.
    intros W1 W2 E. destruct (hash_eq_cases _ _ E) as [E'|C]; auto.
    left. apply patch_preimage_inj_proof; auto.
  Qed.

  (* -------------------------------------------------------------------------------------------- append *)
  Lemma find_set_same w h st x : find_wl w st = Some x -> find_wl w (set_wl w h st) = Some h.
  Proof.
    induction st as [|[k y] r IH]; cbn; [discriminate|].
    destruct (k =? w) eqn:Ek; cbn; rewrite Ek; auto.
  Qed.
  Lemma find_set_other w w' h st : w' <> w -> find_wl w' (set_wl w h st) = find_wl w' st.
  Proof.
    intros Hn. induction st as [|[k y] r IH]; cbn; auto.
    destruct (k =? w) eqn:Ek; cbn.
    - apply N.eqb_eq in Ek. subst k. destruct (w =? w') eqn:E2; auto. apply N.eqb_eq in E2. congruence.
    - destruct (k =? w'); auto.
  Qed.

  Lemma append_local_inv st e st' :
    append_local H st e = inr st' ->
    exists h, find_wl (e_wl e) st = Some h /\ validate_local H st (lenN (h_entries h)) e = None /\
      st' = set_wl (e_wl e) {| h_u0 := h_u0 h; h_boundary := h_boundary h; h_entries := h_entries h ++ [e] |} st.
  Proof.
    unfold append_local. destruct (find_wl (e_wl e) st) as [h|]; [|discriminate].
    destruct (validate_local H st (lenN (h_entries h)) e) eqn:V; [discriminate|].
    intros E; injection E as <-. eauto.
  Qed.

  Lemma validate_local_shared st t e : validate_local H st t e = None -> validate_shared st t e = None.
  Proof. unfold validate_local. destruct (validate_shared st t e); [discriminate|auto]. Qed.

  Lemma lookup_app_l {A} (l r : list A) i x : lookupN l i = Some x -> lookupN (l ++ r) i = Some x.
  Proof.
    unfold lookupN. intros E. rewrite nth_error_app1; auto. apply nth_error_Some. congruence.
  Qed.

  (* append-only: every stored entry stays where it is; the appended worldline grows by exactly the new entry *)
  Theorem append_only_proof st e st' :
    append_local H st e = inr st' ->
    (forall w t e0, lookup st w t = Some e0 -> lookup st' w t = Some e0) /\
    (forall w, w <> e_wl e -> find_wl w st' = find_wl w st) /\
    (exists h, find_wl (e_wl e) st = Some h /\
       find_wl (e_wl e) st' = Some {| h_u0 := h_u0 h; h_boundary := h_boundary h; h_entries := h_entries h ++ [e] |}
       /\ e_tick e = lenN (h_entries h)).
  Proof.
    intros A. destruct (append_local_inv _ _ _ A) as (h & F & V & ->).
    split; [|split].
    - intros w t e0. unfold lookup.
      destruct (N.eq_dec w (e_wl e)) as [->|Hn].
      + rewrite F. rewrite (find_set_same _ _ _ _ F). cbn [h_entries]. apply lookup_app_l.
      + rewrite find_set_other; auto.
    - intros w Hn. apply find_set_other; auto.
    - exists h. split; auto. split; [eapply find_set_same; eauto|].
      apply validate_local_shared in V. unfold validate_shared in V.
      destruct (e_tick e =? lenN (h_entries h)) eqn:Et; [apply N.eqb_eq; auto|discriminate].
  Qed.

  (* the invariant *)
  Definition entry_ok (st : store) (w : N) (i : nat) (e : entry) : Prop :=
    e_tick e = N.of_nat i /\ e_wl e = w /\ strictly_increasing (parent_ids e) = true /\
    forall p, In p (e_parents e) -> exists e', lookup st (pr_wl p) (pr_tick p) = Some e' /\ e_commit e' = pr_commit p.
  Definition store_ok (st : store) : Prop :=
    forall w h i e, find_wl w st = Some h -> nth_error (h_entries h) i = Some e -> entry_ok st w i e.

  Lemma parents_resolve_none st ps :
    parents_resolve st ps = None ->
    forall p, In p ps -> exists e', lookup st (pr_wl p) (pr_tick p) = Some e' /\ e_commit e' = pr_commit p.
  Proof.
    induction ps as [|q r IH]; cbn; intros V p [].
    - subst q. destruct (lookup st (pr_wl p) (pr_tick p)) as [e'|]; [|discriminate].
      destruct (e_commit e' =? pr_commit p) eqn:Ec; [|discriminate]. apply N.eqb_eq in Ec. eauto.
    - destruct (lookup st (pr_wl q) (pr_tick q)) as [e'|]; [|discriminate].
      destruct (e_commit e' =? pr_commit q); [|discriminate]. auto.
  Qed.

  Lemma append_preserves_ok st e st' : store_ok st -> append_local H st e = inr st' -> store_ok st'.
  Proof.
    intros Hok A. destruct (append_only_proof _ _ _ A) as (Hkeep & Hother & h & F & F' & Et).
    destruct (append_local_inv _ _ _ A) as (h0 & F0 & V & _). rewrite F in F0. injection F0 as <-.
    apply validate_local_shared in V. unfold validate_shared in V.
    destruct (e_tick e =? lenN (h_entries h)); [|discriminate]. cbn [negb] in V.
    destruct (strictly_increasing (parent_ids e)) eqn:Hs; [|discriminate]. cbn [negb] in V.
    intros w hw i x Fw Nx.
    assert (Hmono : forall w0 i0 x0, entry_ok st w0 i0 x0 -> entry_ok st' w0 i0 x0).
    { intros w0 i0 x0 (A1 & A2 & A3 & A4). repeat split; auto.
      intros p Hp. destruct (A4 p Hp) as (e' & L & C). exists e'. auto. }
    destruct (N.eq_dec w (e_wl e)) as [->|Hn].
    - rewrite F' in Fw. injection Fw as <-. cbn [h_entries] in Nx.
      destruct (Nat.lt_ge_cases i (length (h_entries h))) as [Hlt|Hge].
      + rewrite nth_error_app1 in Nx; auto. apply Hmono. eapply Hok; eauto.
      + rewrite nth_error_app2 in Nx; auto.
        destruct (i - length (h_entries h))%nat eqn:Ed; cbn in Nx; [|destruct n; discriminate].
        injection Nx as <-. repeat split; auto.
        * rewrite Et. unfold lenN. f_equal. lia.
        * intros p Hp. destruct (parents_resolve_none _ _ V p Hp) as (e' & L & C). exists e'. auto.
    - rewrite Hother in Fw; auto. apply Hmono. eapply Hok; eauto.
  Qed.

  (* stores reachable from freshly registered worldlines by any sequence of accepted appends *)
  Inductive reach : store -> Prop :=
  | reach_init st : (forall w h, find_wl w st = Some h -> h_entries h = []) -> reach st
  | reach_append st e st' : reach st -> append_local H st e = inr st' -> reach st'.

  Theorem append_gapfree_proof st : reach st -> store_ok st.
  Proof.
    induction 1 as [st Hinit|st e st' _ IH A].
    - intros w h i e F Nx. rewrite (Hinit _ _ F) in Nx. destruct i; discriminate.
    - eapply append_preserves_ok; eauto.
  Qed.

  (* the coordinator takes the parents from the worldline tip: super_tick_inner *)
  Inductive reach_coord : store -> Prop :=
  | rc_init st : (forall w h, find_wl w st = Some h -> h_entries h = []) -> reach_coord st
  | rc_commit st e st' : reach_coord st -> e_parents e = tip_ref st (e_wl e) -> append_local H st e = inr st' ->
                         reach_coord st'.

  Definition linked_at (es : list entry) (i : nat) (e : entry) : Prop :=
    match i with
    | O => e_parents e = []
    | S j => exists e0, nth_error es j = Some e0 /\ e_parents e = [e_ref e0]
    end.

  Lemma rev_cons_last {A} (l : list A) x r : rev l = x :: r -> l = rev r ++ [x].
  Proof. intros E. rewrite <- (rev_involutive l), E. reflexivity. Qed.

  Theorem coordinator_chain_linked_proof st :
    reach_coord st ->
    forall w h i e, find_wl w st = Some h -> nth_error (h_entries h) i = Some e -> linked_at (h_entries h) i e.
  Proof.
    induction 1 as [st Hinit|st e st' _ IH P A].
    - intros w h i e F Nx. rewrite (Hinit _ _ F) in Nx. destruct i; discriminate.
    - destruct (append_only_proof _ _ _ A) as (Hkeep & Hother & h & F & F' & Et).
      intros w hw i x Fw Nx.
      destruct (N.eq_dec w (e_wl e)) as [->|Hn].
      + rewrite F' in Fw. injection Fw as <-. cbn [h_entries] in *.
        destruct (Nat.lt_ge_cases i (length (h_entries h))) as [Hlt|Hge].
        * rewrite nth_error_app1 in Nx; auto. specialize (IH _ _ _ _ F Nx).
          destruct i; cbn in *; auto. destruct IH as (e0 & N0 & Pe). exists e0. split; auto.
          rewrite nth_error_app1; auto. lia.
        * rewrite nth_error_app2 in Nx; auto.
          destruct (i - length (h_entries h))%nat eqn:Ed; cbn in Nx; [|destruct n; discriminate].
          injection Nx as <-. assert (i = length (h_entries h)) as -> by lia.
          unfold tip_ref in P. rewrite F in P.
          destruct (rev (h_entries h)) as [|x r] eqn:Er.
          -- assert (h_entries h = []) as Hnil by (rewrite <- (rev_involutive (h_entries h)), Er; reflexivity).
             rewrite Hnil. cbn. auto.
          -- apply rev_cons_last in Er. rewrite Er. rewrite app_length. cbn [length].
             replace (length (rev r) + 1)%nat with (S (length (rev r))) by lia. cbn.
             exists x. split; auto. rewrite <- app_assoc. rewrite nth_error_app2; auto.
             rewrite Nat.sub_diag. reflexivity.
      + rewrite Hother in Fw; auto. eapply IH; eauto.
  Qed.
End Binds.
