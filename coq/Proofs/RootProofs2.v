(* Lemmas about Model/Root.v (C06), part 2: layout freedom of the reachable content and of the
   state-root preimage. *)
From Coq Require Import List NArith Lia Permutation Bool Sorting.Sorted.
From Echo Require Import Base.FinMap Base.Order Base.Bytes Model.Root Proofs.RootProofs.
Import ListNotations.
Open Scope N_scope.

(* ------------------------------------------------------------------ *)
(* sort_by: a permutation, sorted, and canonical when keys are distinct *)

Section SortBy.
  Context {A : Type} (key : A -> N).

  Lemma insert_by_perm x l : Permutation (insert_by key x l) (x :: l).
  Proof.
    induction l as [|y r IH]; cbn; auto.
    destruct (N.compare (key x) (key y)); auto.
    rewrite IH. apply perm_swap.
  Qed.

  Lemma sort_by_perm l : Permutation (sort_by key l) l.
  Proof.
    induction l as [|x r IH]; cbn; auto.
    rewrite insert_by_perm. constructor. exact IH.
  Qed.

  Definition kle (a b : A) : Prop := key a <= key b.

  Lemma insert_by_sorted x l : StronglySorted kle l -> StronglySorted kle (insert_by key x l).
  Proof.
    induction l as [|y r IH]; cbn; intros Hs.
    - constructor; constructor.
    - inversion Hs as [|? ? Hr Hall]; subst.
      destruct (N.compare (key x) (key y)) eqn:E.
      + constructor; auto. constructor.
        * unfold kle. rewrite N.compare_eq_iff in E. lia.
        * eapply Forall_impl; [|exact Hall]. unfold kle. rewrite N.compare_eq_iff in E. intros; lia.
      + constructor; auto. constructor.
        * unfold kle. rewrite N.compare_lt_iff in E. lia.
        * eapply Forall_impl; [|exact Hall]. unfold kle. rewrite N.compare_lt_iff in E. intros; lia.
      + constructor; auto.
        assert (HP : Permutation (insert_by key x r) (x :: r)) by apply insert_by_perm.
        apply Permutation_sym in HP.
        eapply Permutation_Forall; [exact HP|].
        constructor; auto. unfold kle. rewrite N.compare_gt_iff in E. lia.
  Qed.

  Lemma sort_by_sorted l : StronglySorted kle (sort_by key l).
  Proof. induction l; cbn; [constructor|apply insert_by_sorted; auto]. Qed.

  Lemma sorted_perm_unique l1 : forall l2,
    StronglySorted kle l1 -> StronglySorted kle l2 -> Permutation l1 l2 ->
    NoDup (map key l1) -> l1 = l2.
  Proof.
    induction l1 as [|a r1 IH]; intros l2 H1 H2 HP Hnd.
    - apply Permutation_nil in HP; auto.
    - destruct l2 as [|b r2]; [apply Permutation_sym, Permutation_nil in HP; discriminate|].
      inversion H1 as [|? ? Hr1 Ha]; subst. inversion H2 as [|? ? Hr2 Hb]; subst.
      assert (Eab : a = b).
      { assert (Hin_a : In a (b :: r2)) by (eapply Permutation_in; [exact HP|left; auto]).
        assert (Hin_b : In b (a :: r1)) by (eapply Permutation_in; [apply Permutation_sym; exact HP|left; auto]).
        destruct Hin_a as [->|Hin_a]; auto.
        destruct Hin_b as [->|Hin_b]; auto.
        rewrite Forall_forall in Ha, Hb.
        pose proof (Ha _ Hin_b) as L1. pose proof (Hb _ Hin_a) as L2. unfold kle in *.
        assert (Ek : key a = key b) by lia.
        cbn in Hnd. inversion Hnd as [|? ? Hni _]; subst.
        exfalso. apply Hni. rewrite Ek. apply in_map; auto. }
      subst b. f_equal. apply IH; auto.
      + eapply Permutation_cons_inv; eauto.
      + cbn in Hnd. inversion Hnd; auto.
  Qed.

  Lemma sort_by_canonical l1 l2 :
    Permutation l1 l2 -> NoDup (map key l1) -> sort_by key l1 = sort_by key l2.
  Proof.
    intros HP Hnd. apply sorted_perm_unique; try apply sort_by_sorted.
    - rewrite !sort_by_perm. exact HP.
    - eapply Permutation_NoDup; [|exact Hnd]. apply Permutation_map, Permutation_sym, sort_by_perm.
  Qed.
End SortBy.

(* ------------------------------------------------------------------ *)
(* sorted maps: filtering by key, mapping values *)

Section MapLemmas.
  Context {K V : Type} (cmp : K -> K -> comparison) (L : OrderLaws cmp).
  Let ceq := ol_eq cmp L.
  Let cas := ol_antisym cmp L.
  Let ctr := ol_trans cmp L.

  Definition fkey (P : K -> bool) (m : list (K * V)) := filter (fun kv => P (fst kv)) m.

  Lemma lb_filter P k (m : list (K * V)) : sorted cmp m -> lb cmp k m -> lb cmp k (fkey P m).
  Proof.
    intros Hs Hlb. pose proof (lb_all cmp ctr k m Hs Hlb) as Hall.
    unfold fkey. destruct (filter (fun kv => P (fst kv)) m) as [|[k1 v1] r] eqn:E; [exact I|].
    cbn. assert (Hin : In (k1, v1) (filter (fun kv => P (fst kv)) m)) by (rewrite E; left; auto).
    apply filter_In in Hin. destruct Hin as [Hin _]. eapply Hall; eauto.
  Qed.

  Lemma sorted_filter P (m : list (K * V)) : sorted cmp m -> sorted cmp (fkey P m).
  Proof.
    induction m as [|[k v] r IH]; cbn; intros Hs; auto.
    destruct Hs as [Hlb Hs]. destruct (P k); cbn; auto.
    split; auto. apply lb_filter; auto.
  Qed.

  Lemma find_filter P k (m : list (K * V)) : sorted cmp m ->
    find cmp k (fkey P m) = if P k then find cmp k m else None.
  Proof.
    induction m as [|[k1 v1] r IH]; cbn; intros Hs.
    - destruct (P k); reflexivity.
    - destruct Hs as [Hlb Hs]. destruct (cmp k k1) eqn:E.
      + apply ceq in E; subst k1. destruct (P k) eqn:EP; cbn.
        * rewrite (proj2 (ceq k k) eq_refl). reflexivity.
        * apply (find_lb_none cmp ctr); [apply sorted_filter; auto|apply lb_filter; auto].
      + destruct (P k1); cbn; [rewrite E|]; apply IH; auto.
      + destruct (P k1); cbn; [rewrite E|]; apply IH; auto.
  Qed.

  Lemma filter_key_ext P (m1 m2 : list (K * V)) : sorted cmp m1 -> sorted cmp m2 ->
    (forall k, P k = true -> find cmp k m1 = find cmp k m2) -> fkey P m1 = fkey P m2.
  Proof.
    intros H1 H2 H. apply (sorted_ext cmp ceq cas ctr); try apply sorted_filter; auto.
    intros k. rewrite !find_filter by auto. destruct (P k) eqn:E; auto.
  Qed.
End MapLemmas.

Section MapVals.
  Context {K V W : Type} (cmp : K -> K -> comparison).
  Definition map_vals (h : V -> W) (m : list (K * V)) : list (K * W) := map (fun kv => (fst kv, h (snd kv))) m.

  Lemma sorted_map_vals h m : sorted cmp m -> sorted cmp (map_vals h m).
  Proof.
    induction m as [|[k v] r IH]; cbn; auto. intros [Hlb Hs]. split; auto.
    destruct r as [|[k2 v2] r2]; cbn in *; auto.
  Qed.

  Lemma find_map_vals h k m : find cmp k (map_vals h m) = option_map h (find cmp k m).
  Proof.
    induction m as [|[k1 v1] r IH]; cbn; auto. destruct (cmp k k1); auto.
  Qed.
End MapVals.

Lemma flat_map_flat_map {A B C} (f : A -> list B) (g : B -> list C) l :
  flat_map g (flat_map f l) = flat_map (fun x => flat_map g (f x)) l.
Proof. induction l as [|x l IH]; cbn; auto. rewrite flat_map_app, IH. reflexivity. Qed.

Lemma flat_map_fkey {K V B} (P : K -> bool) (f : K * V -> list B) m :
  flat_map (fun kv => if P (fst kv) then f kv else []) m = flat_map f (fkey P m).
Proof.
  induction m as [|kv m IH]; cbn; auto. destruct (P (fst kv)); cbn; rewrite IH; reflexivity.
Qed.

(* ------------------------------------------------------------------ *)
(* the preimage is the encoding of the reachable content *)

Lemma hash_nodes_content st w rn : hash_nodes st w rn = flat_map enc_cnode (content_nodes st w rn).
Proof.
  unfold hash_nodes, content_nodes. rewrite flat_map_flat_map. apply flat_map_ext. intros nt.
  destruct (nmem (w, fst nt) rn); cbn; rewrite ?app_nil_r; reflexivity.
Qed.

Lemma flat_map_map {A B C} (f : A -> B) (g : B -> list C) l :
  flat_map g (map f l) = flat_map (fun x => g (f x)) l.
Proof. induction l; cbn; congruence. Qed.

Lemma hash_buckets_content st w rn : hash_buckets st w rn = flat_map enc_cbucket (content_buckets st w rn).
Proof.
  unfold hash_buckets, content_buckets. rewrite flat_map_flat_map. apply flat_map_ext. intros fb.
  destruct (nmem (w, fst fb) rn); cbn; rewrite ?app_nil_r; [|reflexivity].
  unfold enc_cbucket. cbn [fst snd]. unfold lenN. rewrite map_length, flat_map_map. reflexivity.
Qed.

Lemma hash_warp_content s rn w : hash_warp s rn w = flat_map enc_cwarp (content_warp s rn w).
Proof.
  unfold hash_warp, content_warp. destruct (get_inst s w) as [i|]; [|reflexivity].
  destruct (get_store s w) as [st|]; [|reflexivity].
  cbn. rewrite app_nil_r. unfold enc_cwarp. cbn.
  rewrite hash_nodes_content, hash_buckets_content. reflexivity.
Qed.

Theorem root_preimage_factor s r : root_preimage s r = enc_content (reach_content s r).
Proof.
  unfold root_preimage, reach_content. destruct (reach s r) as [rn rw]. unfold enc_content. cbn [fst snd].
  do 3 f_equal. rewrite flat_map_flat_map. apply flat_map_ext. intros wu. apply hash_warp_content.
Qed.

(* DESIGN statement: the preimage depends on the state only through its reachable content. *)
Theorem root_layout_free_w s1 s2 r :
  reach_content s1 r = reach_content s2 r -> root_preimage s1 r = root_preimage s2 r.
Proof. intros H. rewrite !root_preimage_factor, H. reflexivity. Qed.

(* ------------------------------------------------------------------ *)
(* extracting the invariants *)

Lemma nodupb_spec l : nodupb l = true -> NoDup l.
Proof.
  induction l as [|x r IH]; cbn; intros H; [constructor|].
  apply andb_true_iff in H. destruct H as [H1 H2]. constructor; auto.
  intros Hin. apply negb_true_iff in H1.
  assert (existsb (N.eqb x) r = true) by (apply existsb_exists; exists x; split; [auto|apply N.eqb_refl]).
  congruence.
Qed.

Lemma NoDup_app_inv {A} (l1 l2 : list A) : NoDup (l1 ++ l2) -> NoDup l1 /\ NoDup l2.
Proof.
  induction l1 as [|a l1 IH]; cbn; intros H; [split; [constructor|exact H]|].
  inversion H as [|? ? Hni Hnd]; subst. destruct (IH Hnd) as [H1 H2]. split; auto.
  constructor; auto. intros Hin. apply Hni. apply in_app_iff; left; exact Hin.
Qed.

Lemma nodup_segment {A B C} (f : B -> C) (g : A -> list B) l x :
  NoDup (map f (flat_map g l)) -> In x l -> NoDup (map f (g x)).
Proof.
  induction l as [|a l IH]; cbn; intros Hnd Hin; [destruct Hin|destruct Hin as [->|Hin]].
  - rewrite map_app in Hnd. apply NoDup_app_inv in Hnd. tauto.
  - rewrite map_app in Hnd. apply NoDup_app_inv in Hnd. apply IH; tauto.
Qed.

Record WfStore (st : store) : Prop := {
  wfs_nodes : sorted N.compare (st_nodes st);
  wfs_from : sorted N.compare (st_from st);
  wfs_natt : sorted N.compare (st_natt st);
  wfs_eatt : sorted N.compare (st_eatt st);
  wfs_bucket : forall n b, find N.compare n (st_from st) = Some b ->
                 b <> [] /\ (forall e, In e b -> e_from e = n) /\ NoDup (map e_id b);
  wfs_ids : NoDup (map e_id (all_edges st))
}.

Lemma wf_store_spec st : wf_store st = true -> WfStore st.
Proof.
  unfold wf_store. rewrite !andb_true_iff. intros [[[[[H1 H2] H3] H4] H5] H6].
  pose proof (nodupb_spec _ H6) as Hnd.
  split; try (apply sortedb_spec; assumption); auto.
  intros n b F. apply (find_in N.compare n_eq) in F.
  rewrite forallb_forall in H5. specialize (H5 _ F). cbn in H5.
  apply andb_true_iff in H5. destruct H5 as [Hne Hfrom].
  split; [destruct b; [discriminate|discriminate]|]. split.
  - intros e He. rewrite forallb_forall in Hfrom. apply N.eqb_eq. apply Hfrom; auto.
  - unfold all_edges in Hnd. apply (nodup_segment e_id snd _ (n, b) Hnd F).
Qed.

Lemma wf_state_store s w st : wf_state s = true -> get_store s w = Some st -> WfStore st.
Proof.
  unfold wf_state. rewrite !andb_true_iff. intros [[[[H1 H2] H3] H4] H5] F.
  apply wf_store_spec. rewrite forallb_forall in H3.
  apply (find_in N.compare n_eq) in F. apply (H3 _ F).
Qed.

Lemma wf_state_sorted s : wf_state s = true ->
  sorted N.compare (s_stores s) /\ sorted N.compare (s_insts s).
Proof.
  unfold wf_state. rewrite !andb_true_iff. intros [[[[H1 H2] H3] H4] H5].
  split; apply sortedb_spec; assumption.
Qed.

(* ------------------------------------------------------------------ *)
(* states that agree on the reachable part have the same reachable sets *)

Lemma opt_perm_in (x y : option (list edge)) e :
  opt_rel (@Permutation edge) x y ->
  (In e (match x with Some b => b | None => [] end) <-> In e (match y with Some b => b | None => [] end)).
Proof.
  destruct x as [a|], y as [b|]; cbn; intros H; try tauto.
  split; apply Permutation_in; [exact H|apply Permutation_sym; exact H].
Qed.

Lemma same_at_fwd s1 s2 k a :
  same_at s1 s2 k -> get_store s1 (fst k) = Some a ->
  exists b, get_store s2 (fst k) = Some b /\
    find N.compare (snd k) (st_nodes a) = find N.compare (snd k) (st_nodes b) /\
    find N.compare (snd k) (st_natt a) = find N.compare (snd k) (st_natt b) /\
    opt_rel (@Permutation edge) (find N.compare (snd k) (st_from a)) (find N.compare (snd k) (st_from b)) /\
    (forall e, In e (bucket_of a (snd k)) <-> In e (bucket_of b (snd k))) /\
    (forall e, In e (bucket_of a (snd k)) ->
               find N.compare (e_id e) (st_eatt a) = find N.compare (e_id e) (st_eatt b)).
Proof.
  unfold same_at. intros H E. rewrite E in H. destruct (get_store s2 (fst k)) as [b|]; [|destruct H].
  cbn in H. destruct H as (H1 & H2 & H3 & H4). exists b.
  split; [reflexivity|]. split; [exact H1|]. split; [exact H2|]. split; [exact H3|]. split; [|exact H4].
  intros e. unfold bucket_of. apply opt_perm_in; exact H3.
Qed.

Lemma same_at_bwd s1 s2 k b :
  same_at s1 s2 k -> get_store s2 (fst k) = Some b -> exists a, get_store s1 (fst k) = Some a.
Proof.
  unfold same_at. intros H E. rewrite E in H. destruct (get_store s1 (fst k)) as [a|]; [|destruct H].
  exists a; reflexivity.
Qed.

Lemma reach_agree s1 s2 r : agree_on_reachable s1 s2 r ->
  (forall k, Reach s1 r k <-> Reach s2 r k) /\ (forall w, ReachW s1 r w <-> ReachW s2 r w).
Proof.
  intros [Hk Hw].
  assert (F : forall k, Reach s1 r k -> Reach s2 r k).
  { intros k H. induction H as [|k st e Hr IH Est He|k st c i Hr IH Est E1 E2|k st e c i Hr IH Est He E1 E2].
    - constructor.
    - destruct (same_at_fwd _ _ _ _ (Hk _ Hr) Est) as (b & Eb & _ & _ & _ & Hin & _).
      eapply R_edge; [exact IH|exact Eb|apply Hin; exact He].
    - destruct (same_at_fwd _ _ _ _ (Hk _ Hr) Est) as (b & Eb & _ & Hna & _ & _ & _).
      assert (HW : ReachW s1 r c) by (eapply RW_node; eauto).
      destruct (Hw _ HW) as [Ei _].
      eapply R_node_portal; [exact IH|exact Eb|rewrite <- Hna; exact E1|rewrite <- Ei; exact E2].
    - destruct (same_at_fwd _ _ _ _ (Hk _ Hr) Est) as (b & Eb & _ & _ & _ & Hin & Hea).
      assert (HW : ReachW s1 r c) by (eapply RW_edge; eauto).
      destruct (Hw _ HW) as [Ei _].
      eapply R_edge_portal; [exact IH|exact Eb|apply Hin; exact He|rewrite <- (Hea _ He); exact E1|rewrite <- Ei; exact E2]. }
  assert (B : forall k, Reach s2 r k -> Reach s1 r k).
  { intros k H. induction H as [|k st e Hr IH Est He|k st c i Hr IH Est E1 E2|k st e c i Hr IH Est He E1 E2].
    - constructor.
    - destruct (same_at_bwd _ _ _ _ (Hk _ IH) Est) as (a & Ea).
      destruct (same_at_fwd _ _ _ _ (Hk _ IH) Ea) as (b & Eb & _ & _ & _ & Hin & _).
      rewrite Est in Eb; inversion Eb; subst b.
      eapply R_edge; [exact IH|exact Ea|apply Hin; exact He].
    - destruct (same_at_bwd _ _ _ _ (Hk _ IH) Est) as (a & Ea).
      destruct (same_at_fwd _ _ _ _ (Hk _ IH) Ea) as (b & Eb & _ & Hna & _ & _ & _).
      rewrite Est in Eb; inversion Eb; subst b.
      assert (HW : ReachW s1 r c) by (eapply RW_node; [exact IH|exact Ea|rewrite Hna; exact E1]).
      destruct (Hw _ HW) as [Ei _].
      eapply R_node_portal; [exact IH|exact Ea|rewrite Hna; exact E1|rewrite Ei; exact E2].
    - destruct (same_at_bwd _ _ _ _ (Hk _ IH) Est) as (a & Ea).
      destruct (same_at_fwd _ _ _ _ (Hk _ IH) Ea) as (b & Eb & _ & _ & _ & Hin & Hea).
      rewrite Est in Eb; inversion Eb; subst b.
      assert (He' : In e (bucket_of a (snd k))) by (apply Hin; exact He).
      assert (HW : ReachW s1 r c) by (eapply RW_edge; [exact IH|exact Ea|exact He'|rewrite (Hea _ He'); exact E1]).
      destruct (Hw _ HW) as [Ei _].
      eapply R_edge_portal; [exact IH|exact Ea|exact He'|rewrite (Hea _ He'); exact E1|rewrite Ei; exact E2]. }
  split; [intros k; split; auto|].
  intros w; split; intros H.
  - destruct H as [|k st c Hr Est E|k st e c Hr Est He E].
    + constructor.
    + destruct (same_at_fwd _ _ _ _ (Hk _ Hr) Est) as (b & Eb & _ & Hna & _ & _ & _).
      eapply RW_node; [apply F; exact Hr|exact Eb|rewrite <- Hna; exact E].
    + destruct (same_at_fwd _ _ _ _ (Hk _ Hr) Est) as (b & Eb & _ & _ & _ & Hin & Hea).
      eapply RW_edge; [apply F; exact Hr|exact Eb|apply Hin; exact He|rewrite <- (Hea _ He); exact E].
  - destruct H as [|k st c Hr Est E|k st e c Hr Est He E].
    + constructor.
    + pose proof (B _ Hr) as Hr1.
      destruct (same_at_bwd _ _ _ _ (Hk _ Hr1) Est) as (a & Ea).
      destruct (same_at_fwd _ _ _ _ (Hk _ Hr1) Ea) as (b & Eb & _ & Hna & _ & _ & _).
      rewrite Est in Eb; inversion Eb; subst b.
      eapply RW_node; [exact Hr1|exact Ea|rewrite Hna; exact E].
    + pose proof (B _ Hr) as Hr1.
      destruct (same_at_bwd _ _ _ _ (Hk _ Hr1) Est) as (a & Ea).
      destruct (same_at_fwd _ _ _ _ (Hk _ Hr1) Ea) as (b & Eb & _ & _ & _ & Hin & Hea).
      rewrite Est in Eb; inversion Eb; subst b.
      assert (He' : In e (bucket_of a (snd k))) by (apply Hin; exact He).
      eapply RW_edge; [exact Hr1|exact Ea|exact He'|rewrite (Hea _ He'); exact E].
Qed.

Lemma reach_sets_agree s1 s2 r : agree_on_reachable s1 s2 r -> reach s1 r = reach s2 r.
Proof.
  intros HA. destruct (reach_agree _ _ _ HA) as [Hk Hw].
  destruct (reach_spec s1 r) as (rn1 & rw1 & E1 & S1 & T1 & N1 & W1).
  destruct (reach_spec s2 r) as (rn2 & rw2 & E2 & S2 & T2 & N2 & W2).
  rewrite E1, E2. f_equal.
  - apply (set_ext nkey_cmp nk_order); auto. intros k. change (nmem k rn1 = nmem k rn2).
    destruct (nmem k rn1) eqn:A, (nmem k rn2) eqn:B; auto.
    + assert (C : nmem k rn2 = true) by (apply N2, Hk, N1; exact A). congruence.
    + assert (C : nmem k rn1 = true) by (apply N1, Hk, N2; exact B). congruence.
  - apply (set_ext N.compare N_order); auto. intros w. change (wmem w rw1 = wmem w rw2).
    destruct (wmem w rw1) eqn:A, (wmem w rw2) eqn:B; auto.
    + assert (C : wmem w rw2 = true) by (apply W2, Hw, W1; exact A). congruence.
    + assert (C : wmem w rw1 = true) by (apply W1, Hw, W2; exact B). congruence.
Qed.

(* ------------------------------------------------------------------ *)
(* ... and the same reachable content *)

Lemma Permutation_filter {A} (f : A -> bool) l l' :
  Permutation l l' -> Permutation (filter f l) (filter f l').
Proof.
  induction 1 as [|x l l' HP IH|x y l|l l' l'' H1 IH1 H2 IH2]; cbn; auto.
  - destruct (f x); auto.
  - destruct (f x), (f y); auto. apply perm_swap.
  - eapply perm_trans; eauto.
Qed.

Lemma NoDup_map_filter {A B} (g : A -> B) (f : A -> bool) l :
  NoDup (map g l) -> NoDup (map g (filter f l)).
Proof.
  induction l as [|x l IH]; cbn; intros H; auto.
  inversion H as [|? ? Hni Hnd]; subst. destruct (f x); cbn; auto.
  constructor; auto. intros Hin. apply Hni.
  apply in_map_iff in Hin. destruct Hin as (y & E & Hy). apply filter_In in Hy.
  apply in_map_iff. exists y. tauto.
Qed.

Lemma flat_map_ext_in {A B} (f g : A -> list B) l :
  (forall x, In x l -> f x = g x) -> flat_map f l = flat_map g l.
Proof.
  induction l as [|x l IH]; cbn; intros H; auto.
  rewrite H by (left; auto). rewrite IH; auto.
Qed.

Definition bucket_canon (st : store) (w : N) (rn : nset) (b : list edge) : list cedge :=
  map (cedge_of st) (sort_by e_id (filter (fun e => nmem (w, e_to e) rn) b)).

Lemma content_buckets_alt st w rn :
  content_buckets st w rn =
  fkey (fun n => nmem (w, n) rn) (map_vals (bucket_canon st w rn) (st_from st)).
Proof.
  unfold content_buckets, fkey, map_vals. induction (st_from st) as [|fb m IH]; cbn; auto.
  destruct (nmem (w, fst fb) rn); cbn; rewrite IH; reflexivity.
Qed.

Lemma content_nodes_alt st w rn :
  content_nodes st w rn =
  map (fun nt => (fst nt, (snd nt, find N.compare (fst nt) (st_natt st))))
      (fkey (fun n => nmem (w, n) rn) (st_nodes st)).
Proof.
  unfold content_nodes, fkey. induction (st_nodes st) as [|nt m IH]; cbn; auto.
  destruct (nmem (w, fst nt) rn); cbn; rewrite IH; reflexivity.
Qed.

Lemma same_at_both s1 s2 w n a b :
  same_at s1 s2 (w, n) -> get_store s1 w = Some a -> get_store s2 w = Some b ->
  find N.compare n (st_nodes a) = find N.compare n (st_nodes b) /\
  find N.compare n (st_natt a) = find N.compare n (st_natt b) /\
  opt_rel (@Permutation edge) (find N.compare n (st_from a)) (find N.compare n (st_from b)) /\
  (forall e, In e (bucket_of a n) -> find N.compare (e_id e) (st_eatt a) = find N.compare (e_id e) (st_eatt b)).
Proof.
  intros H Ea Eb. destruct (same_at_fwd _ _ _ _ H Ea) as (b' & Eb' & H1 & H2 & H3 & _ & H4).
  cbn [fst snd] in *. rewrite Eb in Eb'. inversion Eb'; subst b'. auto.
Qed.

Lemma content_warp_agree s1 s2 r rn rw w :
  wf_state s1 = true -> wf_state s2 = true -> agree_on_reachable s1 s2 r ->
  reach s1 r = (rn, rw) -> wmem w rw = true ->
  content_warp s1 rn w = content_warp s2 rn w.
Proof.
  intros W1 W2 HA ER Hw.
  destruct (reach_spec s1 r) as (rn' & rw' & E & S1 & S2 & HN & HW).
  rewrite ER in E. inversion E; subst rn' rw'. clear E.
  destruct HA as [Hk Hww].
  destruct (Hww w (proj1 (HW w) Hw)) as [Ei Es].
  unfold content_warp. rewrite <- Ei. destruct (get_inst s1 w) as [i|]; [|reflexivity].
  destruct (get_store s1 w) as [a|] eqn:Ea, (get_store s2 w) as [b|] eqn:Eb; try discriminate; [|reflexivity].
  pose proof (wf_state_store _ _ _ W1 Ea) as Wa. pose proof (wf_state_store _ _ _ W2 Eb) as Wb.
  assert (SA : forall n, nmem (w, n) rn = true -> same_at s1 s2 (w, n)).
  { intros n Hn. apply Hk, HN; exact Hn. }
  f_equal. f_equal.
  - rewrite !content_nodes_alt.
    assert (EF : fkey (fun n => nmem (w, n) rn) (st_nodes a) = fkey (fun n => nmem (w, n) rn) (st_nodes b)).
    { apply (filter_key_ext N.compare N_order); [apply Wa|apply Wb|].
      intros n Hn. apply (same_at_both _ _ _ _ _ _ (SA n Hn) Ea Eb). }
    rewrite EF. apply map_ext_in. intros [n ty] Hin. cbn [fst snd].
    apply filter_In in Hin. destruct Hin as [_ Hn]. cbn in Hn.
    destruct (same_at_both _ _ _ _ _ _ (SA n Hn) Ea Eb) as (_ & H2 & _). rewrite H2. reflexivity.
  - rewrite !content_buckets_alt.
    apply (filter_key_ext N.compare N_order); try (apply sorted_map_vals; [apply Wa|apply Wb]).
    + apply sorted_map_vals; apply Wa.
    + apply sorted_map_vals; apply Wb.
    + intros n Hn. rewrite !find_map_vals.
      destruct (same_at_both _ _ _ _ _ _ (SA n Hn) Ea Eb) as (_ & _ & H3 & H4).
      unfold bucket_of in H4.
      destruct (find N.compare n (st_from a)) as [x|] eqn:Fx, (find N.compare n (st_from b)) as [y|] eqn:Fy;
        cbn in H3; try contradiction; [|reflexivity].
      cbn [option_map]. f_equal. unfold bucket_canon.
      destruct (wfs_bucket a Wa n x Fx) as (_ & _ & Hnd).
      rewrite (sort_by_canonical e_id _ (filter (fun e => nmem (w, e_to e) rn) y)).
      * apply map_ext_in. intros e He. unfold cedge_of.
        assert (Hex : In e x).
        { eapply Permutation_in; [apply Permutation_sym; exact H3|].
          assert (Hf : In e (filter (fun e => nmem (w, e_to e) rn) y)).
          { eapply Permutation_in; [apply sort_by_perm|exact He]. }
          apply filter_In in Hf. tauto. }
        rewrite (H4 e Hex). reflexivity.
      * apply Permutation_filter; exact H3.
      * apply NoDup_map_filter; exact Hnd.
Qed.

(* Layout freedom, semantic form: bucket insertion order and everything unreachable are free. *)
Theorem reach_content_layout_free_w s1 s2 r :
  wf_state s1 = true -> wf_state s2 = true -> agree_on_reachable s1 s2 r ->
  reach_content s1 r = reach_content s2 r.
Proof.
  intros W1 W2 HA. unfold reach_content. rewrite <- (reach_sets_agree _ _ _ HA).
  destruct (reach s1 r) as [rn rw] eqn:ER. f_equal.
  destruct (reach_spec s1 r) as (rn' & rw' & E & S1 & S2 & _).
  rewrite ER in E. inversion E; subst rn' rw'.
  apply flat_map_ext_in. intros [w []] Hin. cbn [fst].
  eapply content_warp_agree; eauto.
  unfold wmem, mem. rewrite (in_find N.compare n_eq n_as n_tr w tt rw S2 Hin). reflexivity.
Qed.

Theorem root_layout_free_sem_w s1 s2 r :
  wf_state s1 = true -> wf_state s2 = true -> agree_on_reachable s1 s2 r ->
  root_preimage s1 r = root_preimage s2 r.
Proof.
  intros W1 W2 HA. apply root_layout_free_w, reach_content_layout_free_w; auto.
Qed.

(* ------------------------------------------------------------------ *)
(* What the byte stream does bind: every encoder is prefix-free, so with the section counts
   (skeleton) fixed the content can be read back uniquely. *)

Definition id_ok (x : N) : Prop := x < 2 ^ 256.
Definition len_ok (x : N) : Prop := x < 2 ^ 64.
Definition byte_ok (x : N) : Prop := x < 256.

Definition att_ok (a : att) : Prop :=
  match a with
  | Atom ty bs => id_ok ty /\ len_ok (lenN bs)
  | Descend w => id_ok w
  end.
Definition oatt_ok (o : option att) : Prop := match o with None => True | Some a => att_ok a end.
Definition akey_ok (k : akey) : Prop :=
  byte_ok (ak_owner k) /\ byte_ok (ak_plane k) /\ id_ok (ak_warp k) /\ id_ok (ak_local k).
Definition oakey_ok (o : option akey) : Prop := match o with None => True | Some k => akey_ok k end.
Definition cnode_ok (n : cnode) : Prop := id_ok (fst n) /\ (id_ok (fst (snd n)) /\ oatt_ok (snd (snd n))).
Definition cedge_ok (e : cedge) : Prop :=
  id_ok (fst e) /\ (id_ok (fst (snd e)) /\ (id_ok (fst (snd (snd e))) /\ oatt_ok (snd (snd (snd e))))).
Definition cbucket_ok (b : cbucket) : Prop :=
  id_ok (fst b) /\ len_ok (lenN (snd b)) /\ Forall cedge_ok (snd b).
Definition cwarp_ok (c : cwarp) : Prop :=
  id_ok (cw_id c) /\ id_ok (cw_root c) /\ oakey_ok (cw_parent c) /\
  Forall cnode_ok (cw_nodes c) /\ Forall cbucket_ok (cw_buckets c).
Definition content_ok (c : content) : Prop :=
  id_ok (fst (fst c)) /\ id_ok (snd (fst c)) /\ Forall cwarp_ok (snd c).

Definition PF {A} (ok : A -> Prop) (enc : A -> bytes) : Prop :=
  forall x1 x2 r1 r2, ok x1 -> ok x2 -> enc x1 ++ r1 = enc x2 ++ r2 -> x1 = x2 /\ r1 = r2.

Lemma app_eq_len {A} (a1 : list A) : forall a2 r1 r2,
  length a1 = length a2 -> a1 ++ r1 = a2 ++ r2 -> a1 = a2 /\ r1 = r2.
Proof.
  induction a1 as [|x a1 IH]; intros [|y a2] r1 r2 HL HE; cbn in *; try discriminate; auto.
  inversion HE; subst. destruct (IH a2 r1 r2) as [-> ->]; auto.
Qed.

Lemma rev_inj {A} (l1 l2 : list A) : rev l1 = rev l2 -> l1 = l2.
Proof. intros H. rewrite <- (rev_involutive l1), <- (rev_involutive l2), H. reflexivity. Qed.

Lemma PF_id32 : PF id_ok id32.
Proof.
  intros x1 x2 r1 r2 H1 H2 HE. unfold id32 in HE.
  destruct (app_eq_len _ _ _ _ (eq_trans (be_bytes_length 32 x1) (eq_sym (be_bytes_length 32 x2))) HE) as [E ->].
  split; [|reflexivity]. unfold be_bytes in E. apply rev_inj in E.
  apply (le_bytes_inj 32); auto.
Qed.

Lemma PF_u64 : PF len_ok u64le.
Proof.
  intros x1 x2 r1 r2 H1 H2 HE. unfold u64le in HE.
  destruct (app_eq_len _ _ _ _ (eq_trans (le_bytes_length 8 x1) (eq_sym (le_bytes_length 8 x2))) HE) as [E ->].
  split; [|reflexivity]. apply (le_bytes_inj 8); auto.
Qed.

Lemma PF_byte : PF (fun _ : N => True) (fun b => [b]).
Proof. intros x1 x2 r1 r2 _ _ HE. inversion HE; auto. Qed.

Lemma PF_pair {A B} okA okB (encA : A -> bytes) (encB : B -> bytes) :
  PF okA encA -> PF okB encB ->
  PF (fun p : A * B => okA (fst p) /\ okB (snd p)) (fun p => encA (fst p) ++ encB (snd p)).
Proof.
  intros PA PB [a1 b1] [a2 b2] r1 r2 [Ha1 Hb1] [Ha2 Hb2] HE. cbn [fst snd] in *.
  rewrite <- ?app_assoc in HE.
  destruct (PA _ _ _ _ Ha1 Ha2 HE) as [-> HE2].
  destruct (PB _ _ _ _ Hb1 Hb2 HE2) as [-> ->]. auto.
Qed.

Lemma PF_list {A} ok (enc : A -> bytes) : PF ok enc ->
  forall l1 l2 r1 r2, length l1 = length l2 -> Forall ok l1 -> Forall ok l2 ->
    flat_map enc l1 ++ r1 = flat_map enc l2 ++ r2 -> l1 = l2 /\ r1 = r2.
Proof.
  intros P. induction l1 as [|x l1 IH]; intros [|y l2] r1 r2 HL F1 F2 HE; cbn in *; try discriminate; auto.
  inversion F1; subst. inversion F2; subst. rewrite <- ?app_assoc in HE.
  destruct (P _ _ _ _ H1 H3 HE) as [-> HE2].
  destruct (IH l2 r1 r2) as [-> ->]; auto.
Qed.

Lemma lenN_inj {A} (l1 l2 : list A) : lenN l1 = lenN l2 -> length l1 = length l2.
Proof. unfold lenN. lia. Qed.

Lemma cons_eq {A} (a b : A) x y : a :: x = b :: y -> a = b /\ x = y.
Proof. intros H; inversion H; auto. Qed.

Lemma PF_oatt : PF oatt_ok enc_oatt.
Proof.
  intros [[t1 b1|w1]|] [[t2 b2|w2]|] r1 r2 H1 H2 HE; cbn [enc_oatt enc_att app] in HE; try discriminate.
  - apply cons_eq in HE. destruct HE as [_ HE]. apply cons_eq in HE. destruct HE as [_ HE'].
    cbn in H1, H2. destruct H1 as [Ht1 Hl1], H2 as [Ht2 Hl2].
    rewrite <- ?app_assoc in HE'.
    destruct (PF_id32 _ _ _ _ Ht1 Ht2 HE') as [-> HE2].
    destruct (PF_u64 _ _ _ _ Hl1 Hl2 HE2) as [EL HE3].
    destruct (app_eq_len _ _ _ _ (lenN_inj _ _ EL) HE3) as [-> ->]. auto.
  - apply cons_eq in HE. destruct HE as [_ HE]. apply cons_eq in HE. destruct HE as [_ HE'].
    cbn in H1, H2.
    destruct (PF_id32 _ _ _ _ H1 H2 HE') as [-> ->]. auto.
  - apply cons_eq in HE. destruct HE as [_ ->]. auto.
Qed.

Lemma PF_oakey : PF oakey_ok enc_oakey.
Proof.
  intros [[o1 p1 w1 l1]|] [[o2 p2 w2 l2]|] r1 r2 H1 H2 HE;
    cbn [enc_oakey enc_akey app ak_owner ak_plane ak_warp ak_local] in HE; try discriminate.
  2: { apply cons_eq in HE. destruct HE as [_ ->]. auto. }
  apply cons_eq in HE. destruct HE as [_ HE]. apply cons_eq in HE. destruct HE as [-> HE].
  apply cons_eq in HE. destruct HE as [-> HE']. cbn in H1, H2.
  destruct H1 as (_ & _ & Hw1 & Hl1), H2 as (_ & _ & Hw2 & Hl2). cbn in *.
  rewrite <- ?app_assoc in HE'.
  destruct (PF_id32 _ _ _ _ Hw1 Hw2 HE') as [-> HE2].
  destruct (PF_id32 _ _ _ _ Hl1 Hl2 HE2) as [-> ->]. auto.
Qed.

Lemma PF_cnode : PF cnode_ok enc_cnode.
Proof. exact (PF_pair _ _ _ _ PF_id32 (PF_pair _ _ _ _ PF_id32 PF_oatt)). Qed.

Lemma PF_cedge : PF cedge_ok enc_cedge.
Proof. exact (PF_pair _ _ _ _ PF_id32 (PF_pair _ _ _ _ PF_id32 (PF_pair _ _ _ _ PF_id32 PF_oatt))). Qed.

(* a bucket carries its own edge count *)
Lemma PF_cbucket : PF cbucket_ok enc_cbucket.
Proof.
  intros [f1 e1] [f2 e2] r1 r2 (Hf1 & Hn1 & He1) (Hf2 & Hn2 & He2) HE.
  unfold enc_cbucket in HE. cbn [fst snd] in *. rewrite <- ?app_assoc in HE.
  destruct (PF_id32 _ _ _ _ Hf1 Hf2 HE) as [-> HE2].
  destruct (PF_u64 _ _ _ _ Hn1 Hn2 HE2) as [EL HE3].
  destruct (PF_list _ _ PF_cedge _ _ _ _ (lenN_inj _ _ EL) He1 He2 HE3) as [-> ->]. auto.
Qed.

(* an instance section is readable once its two counts are known *)
Lemma cwarp_inj c1 c2 r1 r2 :
  cwarp_ok c1 -> cwarp_ok c2 ->
  length (cw_nodes c1) = length (cw_nodes c2) -> length (cw_buckets c1) = length (cw_buckets c2) ->
  enc_cwarp c1 ++ r1 = enc_cwarp c2 ++ r2 -> c1 = c2 /\ r1 = r2.
Proof.
  destruct c1 as [w1 ro1 p1 n1 b1], c2 as [w2 ro2 p2 n2 b2]. unfold cwarp_ok, enc_cwarp. cbn.
  intros (Hw1 & Hr1 & Hp1 & Hn1 & Hb1) (Hw2 & Hr2 & Hp2 & Hn2 & Hb2) LN LB HE.
  rewrite <- ?app_assoc in HE.
  destruct (PF_id32 _ _ _ _ Hw1 Hw2 HE) as [-> HE2].
  destruct (PF_id32 _ _ _ _ Hr1 Hr2 HE2) as [-> HE3].
  destruct (PF_oakey _ _ _ _ Hp1 Hp2 HE3) as [-> HE4].
  destruct (PF_list _ _ PF_cnode _ _ _ _ LN Hn1 Hn2 HE4) as [-> HE5].
  destruct (PF_list _ _ PF_cbucket _ _ _ _ LB Hb1 Hb2 HE5) as [-> ->]. auto.
Qed.

Lemma cwarps_inj l1 : forall l2,
  Forall cwarp_ok l1 -> Forall cwarp_ok l2 ->
  map (fun w => (length (cw_nodes w), length (cw_buckets w))) l1 =
  map (fun w => (length (cw_nodes w), length (cw_buckets w))) l2 ->
  flat_map enc_cwarp l1 = flat_map enc_cwarp l2 -> l1 = l2.
Proof.
  induction l1 as [|c1 l1 IH]; intros [|c2 l2] F1 F2 SK HE; cbn in *; try discriminate; auto.
  inversion F1; subst. inversion F2; subst. inversion SK as [[LN LB SK']].
  destruct (cwarp_inj _ _ _ _ H1 H3 LN LB HE) as [-> HE2]. f_equal. apply IH; auto.
Qed.

(* Partial injectivity: equal skeleton => the preimage binds the root key and every field of every
   reachable record (node type, attachment tag/type/length/bytes, edge id/type/target, bucket
   source and edge count, instance id/root/parent). *)
Theorem enc_content_inj_same_skeleton c1 c2 :
  content_ok c1 -> content_ok c2 -> skeleton c1 = skeleton c2 ->
  enc_content c1 = enc_content c2 -> c1 = c2.
Proof.
  destruct c1 as [[rw1 rn1] l1], c2 as [[rw2 rn2] l2]. unfold content_ok, skeleton, enc_content. cbn [fst snd].
  intros (Ha1 & Hb1 & F1) (Ha2 & Hb2 & F2) SK HE.
  apply app_inv_head in HE.
  assert (HE' : id32 rw1 ++ id32 rn1 ++ flat_map enc_cwarp l1 = id32 rw2 ++ id32 rn2 ++ flat_map enc_cwarp l2) by exact HE.
  destruct (PF_id32 _ _ _ _ Ha1 Ha2 HE') as [-> HE2].
  destruct (PF_id32 _ _ _ _ Hb1 Hb2 HE2) as [-> HE3].
  f_equal. apply cwarps_inj; auto.
Qed.

(* state-level corollary *)
Theorem root_injective_same_skeleton_w s1 s2 r1 r2 :
  content_ok (reach_content s1 r1) -> content_ok (reach_content s2 r2) ->
  skeleton (reach_content s1 r1) = skeleton (reach_content s2 r2) ->
  root_preimage s1 r1 = root_preimage s2 r2 ->
  reach_content s1 r1 = reach_content s2 r2.
Proof.
  intros O1 O2 SK HE. rewrite !root_preimage_factor in HE.
  apply enc_content_inj_same_skeleton; auto.
Qed.

(* ------------------------------------------------------------------ *)
(* single mutations of the reachable content *)

Inductive content_mut : content -> content -> Prop :=
| CM_inplace c1 c2 :
    skeleton c1 = skeleton c2 -> c1 <> c2 -> content_mut c1 c2
| CM_node r ws ws' w ro p ns ns' n bs :
    content_mut (r, ws ++ mkCwarp w ro p (ns ++ ns') bs :: ws')
                (r, ws ++ mkCwarp w ro p (ns ++ n :: ns') bs :: ws')
| CM_bucket r ws ws' w ro p ns bs bs' b :
    content_mut (r, ws ++ mkCwarp w ro p ns (bs ++ bs') :: ws')
                (r, ws ++ mkCwarp w ro p ns (bs ++ b :: bs') :: ws')
| CM_warp r ws ws' c :
    content_mut (r, ws ++ ws') (r, ws ++ c :: ws').

Lemma id32_length x : length (id32 x) = 32%nat.
Proof. apply be_bytes_length. Qed.

Lemma enc_cnode_pos n : (0 < length (enc_cnode n))%nat.
Proof. unfold enc_cnode. rewrite app_length, id32_length. lia. Qed.
Lemma enc_cbucket_pos b : (0 < length (enc_cbucket b))%nat.
Proof. unfold enc_cbucket. rewrite app_length, id32_length. lia. Qed.
Lemma enc_cwarp_pos c : (0 < length (enc_cwarp c))%nat.
Proof. unfold enc_cwarp. rewrite app_length, id32_length. lia. Qed.

Lemma len_neq {A} (l1 l2 : list A) : length l1 <> length l2 -> l1 <> l2.
Proof. intros H E. apply H. rewrite E. reflexivity. Qed.

Theorem content_mut_changes_preimage c1 c2 :
  content_ok c1 -> content_ok c2 -> content_mut c1 c2 ->
  enc_content c1 <> enc_content c2 /\ enc_content c2 <> enc_content c1.
Proof.
  intros O1 O2 M.
  assert (H : enc_content c1 <> enc_content c2); [|split; [exact H|intros E; apply H; symmetry; exact E]].
  destruct M as [c1 c2 SK NE|r ws ws' w ro p ns ns' n bs|r ws ws' w ro p ns bs bs' b|r ws ws' c].
  - intros E. apply NE. apply enc_content_inj_same_skeleton; auto.
  - apply len_neq. unfold enc_content. cbn [fst snd].
    rewrite !app_length, !flat_map_app. cbn [flat_map]. rewrite !app_length.
    unfold enc_cwarp. cbn [cw_id cw_root cw_parent cw_nodes cw_buckets].
    rewrite !app_length, !flat_map_app. cbn [flat_map]. rewrite !app_length.
    pose proof (enc_cnode_pos n). lia.
  - apply len_neq. unfold enc_content. cbn [fst snd].
    rewrite !app_length, !flat_map_app. cbn [flat_map]. rewrite !app_length.
    unfold enc_cwarp. cbn [cw_id cw_root cw_parent cw_nodes cw_buckets].
    rewrite !app_length, !flat_map_app. cbn [flat_map]. rewrite !app_length.
    pose proof (enc_cbucket_pos b). lia.
  - apply len_neq. unfold enc_content. cbn [fst snd].
    rewrite !app_length, !flat_map_app. cbn [flat_map]. rewrite !app_length.
    pose proof (enc_cwarp_pos c). lia.
Qed.

(* ------------------------------------------------------------------ *)
(* hash level *)

Theorem state_root_same_skeleton_w (H : bytes -> N) s1 s2 r1 r2 :
  content_ok (reach_content s1 r1) -> content_ok (reach_content s2 r2) ->
  skeleton (reach_content s1 r1) = skeleton (reach_content s2 r2) ->
  state_root H s1 r1 = state_root H s2 r2 ->
  reach_content s1 r1 = reach_content s2 r2 \/ Collision H.
Proof.
  intros O1 O2 SK HE. unfold state_root in HE.
  destruct (list_eq_dec N.eq_dec (root_preimage s1 r1) (root_preimage s2 r2)) as [E|NE].
  - left. apply root_injective_same_skeleton_w; auto.
  - right. exists (root_preimage s1 r1), (root_preimage s2 r2). split; auto.
Qed.

(* ------------------------------------------------------------------ *)
(* the example pair really satisfies the hypotheses of the semantic theorem *)

Lemma mem_in_keys {K} (cmp : K -> K -> comparison) (ceq : forall a b, cmp a b = Eq <-> a = b)
  k (m : list (K * unit)) : mem cmp k m = true -> In k (map fst m).
Proof.
  unfold mem. destruct (find cmp k m) as [[]|] eqn:F; [|discriminate]. intros _.
  apply (find_in cmp ceq) in F. apply in_map_iff. exists (k, tt). auto.
Qed.

Lemma ex_agree : agree_on_reachable ex_s1 ex_s2 ex_root.
Proof.
  destruct (reach_spec ex_s1 ex_root) as (rn & rw & E & _ & _ & HN & HW).
  vm_compute in E. inversion E; subst rn rw. clear E.
  split.
  - intros k Hk. apply HN in Hk. apply (mem_in_keys nkey_cmp nk_eq) in Hk. cbn in Hk.
    destruct Hk as [<-|[<-|[<-|[]]]]; vm_compute.
    + repeat split; auto; try apply perm_swap; try (intros e [<-|[<-|[]]]; reflexivity).
    + repeat split; auto; try (intros e []).
    + repeat split; auto; try (intros e []).
  - intros w Hw. apply HW in Hw. apply (mem_in_keys N.compare n_eq) in Hw. cbn in Hw.
    destruct Hw as [<-|[<-|[]]]; vm_compute; auto.
Qed.

(* ------------------------------------------------------------------ *)
(* a boolean check of [content_ok] (used to discharge it on concrete contents) *)

Definition idb (x : N) : bool := x <? 2 ^ 256.
Definition lenb (x : N) : bool := x <? 2 ^ 64.
Definition att_okb (a : att) : bool :=
  match a with Atom ty bs => idb ty && lenb (lenN bs) | Descend w => idb w end.
Definition oatt_okb (o : option att) : bool := match o with None => true | Some a => att_okb a end.
Definition akey_okb (k : akey) : bool :=
  (ak_owner k <? 256) && (ak_plane k <? 256) && idb (ak_warp k) && idb (ak_local k).
Definition oakey_okb (o : option akey) : bool := match o with None => true | Some k => akey_okb k end.
Definition cnode_okb (n : cnode) : bool := idb (fst n) && (idb (fst (snd n)) && oatt_okb (snd (snd n))).
Definition cedge_okb (e : cedge) : bool :=
  idb (fst e) && (idb (fst (snd e)) && (idb (fst (snd (snd e))) && oatt_okb (snd (snd (snd e))))).
Definition cbucket_okb (b : cbucket) : bool :=
  idb (fst b) && lenb (lenN (snd b)) && forallb cedge_okb (snd b).
Definition cwarp_okb (c : cwarp) : bool :=
  idb (cw_id c) && idb (cw_root c) && oakey_okb (cw_parent c) &&
  forallb cnode_okb (cw_nodes c) && forallb cbucket_okb (cw_buckets c).
Definition content_okb (c : content) : bool :=
  idb (fst (fst c)) && idb (snd (fst c)) && forallb cwarp_okb (snd c).

Lemma idb_ok x : idb x = true -> id_ok x.
Proof. unfold idb, id_ok. apply N.ltb_lt. Qed.
Lemma lenb_ok x : lenb x = true -> len_ok x.
Proof. unfold lenb, len_ok. apply N.ltb_lt. Qed.

Lemma oatt_okb_ok o : oatt_okb o = true -> oatt_ok o.
Proof.
  destruct o as [[ty bs|w]|]; cbn; auto.
  - rewrite andb_true_iff. intros [H1 H2]. split; [apply idb_ok|apply lenb_ok]; auto.
  - apply idb_ok.
Qed.

Lemma oakey_okb_ok o : oakey_okb o = true -> oakey_ok o.
Proof.
  destruct o as [k|]; cbn; auto. unfold akey_okb, akey_ok, byte_ok.
  rewrite !andb_true_iff. intros [[[H1 H2] H3] H4].
  repeat split; try (apply N.ltb_lt; assumption); apply idb_ok; assumption.
Qed.

Lemma forallb_Forall {A} (f : A -> bool) (P : A -> Prop) l :
  (forall x, f x = true -> P x) -> forallb f l = true -> Forall P l.
Proof.
  intros H. induction l as [|x l IH]; cbn; intros E; constructor.
  - apply H. apply andb_true_iff in E. tauto.
  - apply IH. apply andb_true_iff in E. tauto.
Qed.

Lemma cnode_okb_ok n : cnode_okb n = true -> cnode_ok n.
Proof.
  unfold cnode_okb, cnode_ok. rewrite !andb_true_iff. intros [H1 [H2 H3]].
  repeat split; try (apply idb_ok; assumption). apply oatt_okb_ok; assumption.
Qed.

Lemma cedge_okb_ok e : cedge_okb e = true -> cedge_ok e.
Proof.
  unfold cedge_okb, cedge_ok. rewrite !andb_true_iff. intros [H1 [H2 [H3 H4]]].
  repeat split; try (apply idb_ok; assumption). apply oatt_okb_ok; assumption.
Qed.

Lemma cbucket_okb_ok b : cbucket_okb b = true -> cbucket_ok b.
Proof.
  unfold cbucket_okb, cbucket_ok. rewrite !andb_true_iff. intros [[H1 H2] H3].
  repeat split; [apply idb_ok|apply lenb_ok|]; auto.
  eapply forallb_Forall; [apply cedge_okb_ok|exact H3].
Qed.

Lemma cwarp_okb_ok c : cwarp_okb c = true -> cwarp_ok c.
Proof.
  unfold cwarp_okb, cwarp_ok. rewrite !andb_true_iff. intros [[[[H1 H2] H3] H4] H5].
  repeat split; try (apply idb_ok; assumption).
  - apply oakey_okb_ok; assumption.
  - eapply forallb_Forall; [apply cnode_okb_ok|exact H4].
  - eapply forallb_Forall; [apply cbucket_okb_ok|exact H5].
Qed.

Lemma content_okb_ok c : content_okb c = true -> content_ok c.
Proof.
  unfold content_okb, content_ok. rewrite !andb_true_iff. intros [[H1 H2] H3].
  repeat split; try (apply idb_ok; assumption).
  eapply forallb_Forall; [apply cwarp_okb_ok|exact H3].
Qed.
