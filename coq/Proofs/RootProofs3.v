(* Lemmas about Model/Root.v (C06), part 3: the columnar accumulator computes the same
   reachable sets and the same byte stream (up to the domain prefix) as snapshot.rs. *)
From Coq Require Import List NArith Lia Permutation Bool.
From Echo Require Import Base.FinMap Base.Order Base.Bytes Model.Root Proofs.RootProofs Proofs.RootProofs2.
Import ListNotations.
Open Scope N_scope.

(* ------------------------------------------------------------------ *)
(* BTreeMap filled by repeated insert *)

Section OfList.
  Context {K V : Type} (cmp : K -> K -> comparison) (L : OrderLaws cmp).
  Let ceq := ol_eq cmp L.
  Let cas := ol_antisym cmp L.
  Let ctr := ol_trans cmp L.

  Lemma key_dec (a b : K) : {a = b} + {a <> b}.
  Proof.
    destruct (cmp a b) eqn:E.
    - left. apply ceq; exact E.
    - right. intros ->. rewrite (proj2 (ceq b b) eq_refl) in E. discriminate.
    - right. intros ->. rewrite (proj2 (ceq b b) eq_refl) in E. discriminate.
  Qed.

  Lemma fold_set_sorted (l : list (K * V)) : forall m, sorted cmp m ->
    sorted cmp (fold_left (fun m kv => set cmp (fst kv) (snd kv) m) l m).
  Proof.
    induction l as [|[k v] l IH]; cbn; intros m Hs; auto.
    apply IH. apply (set_sorted cmp ceq cas); exact Hs.
  Qed.

  Lemma fold_set_find (l : list (K * V)) : forall m k v,
    NoDup (map fst l) ->
    (find cmp k (fold_left (fun m kv => set cmp (fst kv) (snd kv) m) l m) = Some v <->
     In (k, v) l \/ (~ In k (map fst l) /\ find cmp k m = Some v)).
  Proof.
    induction l as [|[k1 v1] l IH]; cbn [fold_left map fst snd In]; intros m k v Hnd.
    - split; [intros H; right; split; [intros []|exact H]|intros [[]|[_ H]]; exact H].
    - inversion Hnd as [|? ? Hni Hnd']; subst. rewrite IH by exact Hnd'.
      destruct (key_dec k k1) as [->|Hne].
      + rewrite (find_set_same cmp ceq). split.
        * intros [H|[Hn E]]; [left; right; exact H|]. inversion E; subst. left; left; reflexivity.
        * intros [[E|H]|[Hn _]].
          -- inversion E; subst. right. split; [exact Hni|reflexivity].
          -- exfalso. apply Hni. apply in_map_iff. exists (k1, v). split; auto.
          -- exfalso. apply Hn. left; reflexivity.
      + rewrite (find_set_other cmp ceq) by exact Hne. split.
        * intros [H|[Hn E]]; [left; right; exact H|]. right. split; [|exact E].
          intros [E'|H']; [apply Hne; symmetry; exact E'|apply Hn; exact H'].
        * intros [[E|H]|[Hn E]].
          -- inversion E; subst. exfalso; apply Hne; reflexivity.
          -- left; exact H.
          -- right. split; [|exact E]. intros H'. apply Hn. right; exact H'.
  Qed.

  Lemma of_list_set_sorted (l : list (K * V)) : sorted cmp (of_list_set cmp l).
  Proof. apply fold_set_sorted. exact I. Qed.

  Lemma of_list_set_find (l : list (K * V)) k v : NoDup (map fst l) ->
    (find cmp k (of_list_set cmp l) = Some v <-> In (k, v) l).
  Proof.
    intros Hnd. unfold of_list_set. rewrite fold_set_find by exact Hnd. cbn.
    split; [intros [H|[_ H]]; [exact H|discriminate]|intros H; left; exact H].
  Qed.

  Lemma of_list_set_in (l : list (K * V)) k v : NoDup (map fst l) ->
    (In (k, v) (of_list_set cmp l) <-> In (k, v) l).
  Proof.
    intros Hnd. split.
    - intros H. apply (proj1 (of_list_set_find l k v Hnd)).
      apply (in_find cmp ceq cas ctr); [apply of_list_set_sorted|exact H].
    - intros H. apply (find_in cmp ceq). apply (proj2 (of_list_set_find l k v Hnd)). exact H.
  Qed.

  Lemma sorted_nodup_keys (m : list (K * V)) : sorted cmp m -> NoDup (map fst m).
  Proof.
    induction m as [|[k v] r IH]; cbn; intros Hs; [constructor|].
    destruct Hs as [Hlb Hs]. constructor; auto.
    intros Hin. apply in_map_iff in Hin. destruct Hin as ([k' v'] & E & Hin). cbn in E; subst k'.
    pose proof (lb_all cmp ctr k r Hs Hlb k v' Hin) as H.
    rewrite (proj2 (ceq k k) eq_refl) in H. discriminate.
  Qed.

  Lemma sorted_find_iff (m : list (K * V)) k v : sorted cmp m -> (find cmp k m = Some v <-> In (k, v) m).
  Proof. intros Hs. split; [apply (find_in cmp ceq)|apply (in_find cmp ceq cas ctr); exact Hs]. Qed.

  Lemma find_eq_of_iff (m1 m2 : list (K * V)) k :
    (forall v, find cmp k m1 = Some v <-> find cmp k m2 = Some v) -> find cmp k m1 = find cmp k m2.
  Proof.
    intros H. destruct (find cmp k m1) as [v1|] eqn:E1.
    - symmetry. apply H. reflexivity.
    - destruct (find cmp k m2) as [v2|] eqn:E2; auto.
      assert (None = Some v2) by (apply H; reflexivity). discriminate.
  Qed.

  (* filled from an already sorted map: same lookups *)
  Lemma of_list_set_sorted_find (m : list (K * V)) k : sorted cmp m ->
    find cmp k (of_list_set cmp m) = find cmp k m.
  Proof.
    intros Hs. apply find_eq_of_iff. intros v.
    rewrite of_list_set_find by (apply sorted_nodup_keys; exact Hs).
    symmetry. apply sorted_find_iff; exact Hs.
  Qed.
End OfList.

(* keys of a two-level map flattened into one *)
Lemma nodup_flat_keys {S A K} (key : N -> A -> K) (inner : S -> list A) (stores : list (N * S)) :
  (forall w a w' a', key w a = key w' a' -> w = w' /\ a = a') ->
  NoDup (map fst stores) ->
  (forall w st, In (w, st) stores -> NoDup (inner st)) ->
  NoDup (flat_map (fun wst => map (key (fst wst)) (inner (snd wst))) stores).
Proof.
  intros Hinj. induction stores as [|[w st] l IH]; cbn; intros Hnd Hin; [constructor|].
  inversion Hnd as [|? ? Hni Hnd']; subst.
  apply NoDup_app_intro.
  - assert (H : NoDup (inner st)) by (apply (Hin w); left; reflexivity).
    clear -H Hinj. induction H as [|a r Hn _ IHr]; cbn; constructor; auto.
    intros Hm. apply in_map_iff in Hm. destruct Hm as (a' & E & Ha'). apply Hinj in E. destruct E as [_ ->]. auto.
  - apply IH; auto. intros w' st' H'. apply (Hin w'). right; exact H'.
  - intros x Hx1 Hx2. apply in_map_iff in Hx1. destruct Hx1 as (a & <- & Ha).
    apply in_flat_map in Hx2. destruct Hx2 as ([w' st'] & Hws & Hx2). cbn in Hx2.
    apply in_map_iff in Hx2. destruct Hx2 as (a' & E & Ha'). apply Hinj in E. destruct E as [-> _].
    apply Hni. apply in_map_iff. exists (w, st'). split; auto.
Qed.

(* ------------------------------------------------------------------ *)
(* from_warp_state: what the accumulator tables contain *)

Definition akey_tuple (k : akey) : N * (N * (N * N)) := (ak_owner k, (ak_warp k, (ak_local k, ak_plane k))).
Definition tuple_cmp := pair_cmp N.compare (pair_cmp N.compare (pair_cmp N.compare N.compare)).

Lemma akey_cmp_tuple a b : akey_cmp a b = tuple_cmp (akey_tuple a) (akey_tuple b).
Proof. destruct a, b. reflexivity. Qed.

Lemma akey_tuple_inj a b : akey_tuple a = akey_tuple b -> a = b.
Proof. destruct a, b. unfold akey_tuple. cbn. intros H. inversion H. reflexivity. Qed.

Lemma akey_order : OrderLaws akey_cmp.
Proof.
  assert (T : OrderLaws tuple_cmp) by (repeat apply pair_order; apply N_order).
  split.
  - intros a b. rewrite akey_cmp_tuple, (ol_eq _ T). split; [apply akey_tuple_inj|intros ->; reflexivity].
  - intros a b. rewrite !akey_cmp_tuple. apply (ol_antisym _ T).
  - intros a b c. rewrite !akey_cmp_tuple. apply (ol_trans _ T).
Qed.

Lemma map_flat_map' {A B C} (f : B -> C) (g : A -> list B) l :
  map f (flat_map g l) = flat_map (fun x => map f (g x)) l.
Proof. induction l as [|x l IH]; cbn; auto. rewrite map_app, IH. reflexivity. Qed.

(* a two-level map (warp -> inner map) flattened under a composite key *)
Lemma flat_spec {S A K V} (key : N -> A -> K) (kof : S -> list (A * V)) (stores : list (N * S)) :
  (forall w x w' x', key w x = key w' x' -> w = w' /\ x = x') ->
  NoDup (map fst stores) ->
  (forall w st, In (w, st) stores -> NoDup (map fst (kof st))) ->
  let l := flat_map (fun wst => map (fun av => (key (fst wst) (fst av), snd av)) (kof (snd wst))) stores in
  NoDup (map fst l) /\
  forall k v, In (k, v) l <-> exists w st x, In (w, st) stores /\ In (x, v) (kof st) /\ k = key w x.
Proof.
  intros Hinj Hnd Hin l. split.
  - unfold l. rewrite map_flat_map'.
    rewrite (flat_map_ext _ (fun wst => map (key (fst wst)) (map fst (kof (snd wst))))).
    + apply (nodup_flat_keys key (fun st => map fst (kof st))); auto.
    + intros [w st]. cbn. rewrite !map_map. reflexivity.
  - intros k v. unfold l. rewrite in_flat_map. split.
    + intros ([w st] & Hws & Hm). cbn in Hm. apply in_map_iff in Hm.
      destruct Hm as ([x v'] & E & Hx). cbn in E. inversion E; subst. exists w, st, x. auto.
    + intros (w & st & x & Hws & Hx & ->). exists (w, st). split; auto. cbn.
      apply in_map_iff. exists (x, v). auto.
Qed.

Section FromState.
  Variable s : state.
  Hypothesis W : wf_state s = true.

  Let Sst : sorted N.compare (s_stores s) := proj1 (wf_state_sorted s W).
  Let Sin : sorted N.compare (s_insts s) := proj2 (wf_state_sorted s W).

  Lemma stores_nodup : NoDup (map fst (s_stores s)).
  Proof. apply (sorted_nodup_keys N.compare N_order). exact Sst. Qed.

  Lemma store_in w st : In (w, st) (s_stores s) <-> get_store s w = Some st.
  Proof. unfold get_store. symmetry. apply (sorted_find_iff N.compare N_order). exact Sst. Qed.

  Lemma wf_store_of w st : get_store s w = Some st -> WfStore st.
  Proof. apply wf_state_store. exact W. Qed.

  Lemma a_insts_spec w : find N.compare w (a_insts (from_state s)) = get_inst s w.
  Proof. cbn [from_state a_insts]. apply (of_list_set_sorted_find N.compare N_order). exact Sin. Qed.

  Lemma nk_pair_inj : forall (w x w' x' : N), (w, x) = (w', x') -> w = w' /\ x = x'.
  Proof. intros w x w' x' H. inversion H. auto. Qed.
  Lemma node_alpha_inj : forall w x w' x', node_alpha w x = node_alpha w' x' -> w = w' /\ x = x'.
  Proof. intros w x w' x' H. inversion H. auto. Qed.
  Lemma edge_beta_inj : forall w x w' x', edge_beta w x = edge_beta w' x' -> w = w' /\ x = x'.
  Proof. intros w x w' x' H. inversion H. auto. Qed.

  Lemma a_nodes_sorted : sorted nkey_cmp (a_nodes (from_state s)).
  Proof. apply (of_list_set_sorted nkey_cmp nk_order). Qed.
  Lemma a_edges_sorted : sorted nkey_cmp (a_edges (from_state s)).
  Proof. apply (of_list_set_sorted nkey_cmp nk_order). Qed.

  Lemma a_nodes_spec w n ty :
    find nkey_cmp (w, n) (a_nodes (from_state s)) = Some ty <->
    exists st, get_store s w = Some st /\ find N.compare n (st_nodes st) = Some ty.
  Proof.
    cbn [from_state a_nodes].
    destruct (flat_spec (fun w n => (w, n)) st_nodes (s_stores s) nk_pair_inj stores_nodup) as [Hnd Hin].
    { intros w' st' H. apply (sorted_nodup_keys N.compare N_order). apply (wf_store_of w'). apply store_in; exact H. }
    rewrite (of_list_set_find nkey_cmp nk_order) by exact Hnd. rewrite Hin. split.
    - intros (w' & st & x & Hws & Hx & E). inversion E; subst. exists st. split; [apply store_in; exact Hws|].
      apply (sorted_find_iff N.compare N_order); [apply (wf_store_of w'); apply store_in; exact Hws|exact Hx].
    - intros (st & Est & F). exists w, st, n. split; [apply store_in; exact Est|]. split; [|reflexivity].
      apply (find_in N.compare n_eq); exact F.
  Qed.

  Lemma a_natt_spec w n :
    find akey_cmp (node_alpha w n) (a_natt (from_state s)) =
    match get_store s w with Some st => find N.compare n (st_natt st) | None => None end.
  Proof.
    cbn [from_state a_natt].
    destruct (flat_spec node_alpha st_natt (s_stores s) node_alpha_inj stores_nodup) as [Hnd Hin].
    { intros w' st' H. apply (sorted_nodup_keys N.compare N_order). apply (wf_store_of w'). apply store_in; exact H. }
    match goal with |- ?lhs = ?rhs => destruct rhs as [v|] eqn:R end.
    - apply (of_list_set_find akey_cmp akey_order); [exact Hnd|]. apply Hin.
      destruct (get_store s w) as [st|] eqn:Est; [|discriminate].
      exists w, st, n. split; [apply store_in; exact Est|]. split; [|reflexivity].
      apply (find_in N.compare n_eq); exact R.
    - match goal with |- ?lhs = None => destruct lhs as [v|] eqn:F end; [|reflexivity].
      apply (of_list_set_find akey_cmp akey_order) in F; [|exact Hnd]. apply Hin in F.
      destruct F as (w' & st & x & Hws & Hx & E). apply node_alpha_inj in E. destruct E as [<- <-].
      apply store_in in Hws. rewrite Hws in R.
      apply (sorted_find_iff N.compare N_order) in Hx; [|apply (wf_store_of w); exact Hws]. congruence.
  Qed.

  Lemma a_eatt_spec w n :
    find akey_cmp (edge_beta w n) (a_eatt (from_state s)) =
    match get_store s w with Some st => find N.compare n (st_eatt st) | None => None end.
  Proof.
    cbn [from_state a_eatt].
    destruct (flat_spec edge_beta st_eatt (s_stores s) edge_beta_inj stores_nodup) as [Hnd Hin].
    { intros w' st' H. apply (sorted_nodup_keys N.compare N_order). apply (wf_store_of w'). apply store_in; exact H. }
    match goal with |- ?lhs = ?rhs => destruct rhs as [v|] eqn:R end.
    - apply (of_list_set_find akey_cmp akey_order); [exact Hnd|]. apply Hin.
      destruct (get_store s w) as [st|] eqn:Est; [|discriminate].
      exists w, st, n. split; [apply store_in; exact Est|]. split; [|reflexivity].
      apply (find_in N.compare n_eq); exact R.
    - match goal with |- ?lhs = None => destruct lhs as [v|] eqn:F end; [|reflexivity].
      apply (of_list_set_find akey_cmp akey_order) in F; [|exact Hnd]. apply Hin in F.
      destruct F as (w' & st & x & Hws & Hx & E). apply edge_beta_inj in E. destruct E as [<- <-].
      apply store_in in Hws. rewrite Hws in R.
      apply (sorted_find_iff N.compare N_order) in Hx; [|apply (wf_store_of w); exact Hws]. congruence.
  Qed.

  Lemma a_edges_spec w eid e :
    In ((w, eid), e) (a_edges (from_state s)) <->
    exists st, get_store s w = Some st /\ In e (all_edges st) /\ eid = e_id e.
  Proof.
    cbn [from_state a_edges].
    destruct (flat_spec (fun w n => (w, n)) (fun st => map (fun e => (e_id e, e)) (all_edges st))
                (s_stores s) nk_pair_inj stores_nodup) as [Hnd Hin].
    { intros w' st' H. rewrite map_map. cbn. apply (wfs_ids st'). apply (wf_store_of w'). apply store_in; exact H. }
    cbn zeta in Hnd, Hin.
    rewrite (flat_map_ext _ (fun wst => map (fun e => ((fst wst, e_id e), e)) (all_edges (snd wst)))) in Hnd, Hin
      by (intros [w' st']; cbn; rewrite map_map; reflexivity).
    rewrite (of_list_set_in nkey_cmp nk_order) by exact Hnd. rewrite Hin. split.
    - intros (w' & st & x & Hws & Hx & E). inversion E; subst. apply in_map_iff in Hx.
      destruct Hx as (e' & E' & He'). inversion E'; subst. exists st. split; [apply store_in; exact Hws|auto].
    - intros (st & Est & He & ->). exists w, st, (e_id e). split; [apply store_in; exact Est|]. split; [|reflexivity].
      apply in_map_iff. exists e. auto.
  Qed.
End FromState.

(* what it means for accumulator tables to represent a state *)
Record Rep (a : acc) (s : state) : Prop := {
  rep_insts : forall w, find N.compare w (a_insts a) = get_inst s w;
  rep_nodes_sorted : sorted nkey_cmp (a_nodes a);
  rep_edges_sorted : sorted nkey_cmp (a_edges a);
  rep_insts_sorted : sorted N.compare (a_insts a);
  rep_natt_sorted : sorted akey_cmp (a_natt a);
  rep_eatt_sorted : sorted akey_cmp (a_eatt a);
  rep_nodes : forall w n ty,
    find nkey_cmp (w, n) (a_nodes a) = Some ty <->
    exists st, get_store s w = Some st /\ find N.compare n (st_nodes st) = Some ty;
  rep_natt : forall w n,
    find akey_cmp (node_alpha w n) (a_natt a) =
    match get_store s w with Some st => find N.compare n (st_natt st) | None => None end;
  rep_eatt : forall w n,
    find akey_cmp (edge_beta w n) (a_eatt a) =
    match get_store s w with Some st => find N.compare n (st_eatt st) | None => None end;
  rep_edges : forall w eid e,
    In ((w, eid), e) (a_edges a) <->
    exists st, get_store s w = Some st /\ In e (all_edges st) /\ eid = e_id e
}.

Lemma from_state_rep s : wf_state s = true -> Rep (from_state s) s.
Proof.
  intros W. split.
  - apply a_insts_spec; exact W.
  - apply a_nodes_sorted.
  - apply a_edges_sorted.
  - apply (of_list_set_sorted N.compare N_order).
  - apply (of_list_set_sorted akey_cmp akey_order).
  - apply (of_list_set_sorted akey_cmp akey_order).
  - apply a_nodes_spec; exact W.
  - apply a_natt_spec; exact W.
  - apply a_eatt_spec; exact W.
  - apply a_edges_spec; exact W.
Qed.

(* ------------------------------------------------------------------ *)
(* compute_reachability visits the same items as collect_reachable_graph *)

Lemma greach_ext (step1 step2 : nkey -> list item) r :
  (forall cur k', In (INode k') (step1 cur) <-> In (INode k') (step2 cur)) ->
  forall k, GReach step1 r k <-> GReach step2 r k.
Proof.
  intros H k. split; intros G; induction G as [|k k' Hk IH Hin]; try constructor.
  - eapply GR_step; [exact IH|apply H; exact Hin].
  - eapply GR_step; [exact IH|apply H; exact Hin].
Qed.

Lemma greachw_ext (step1 step2 : nkey -> list item) r :
  (forall cur k', In (INode k') (step1 cur) <-> In (INode k') (step2 cur)) ->
  (forall cur w, In (IWarp w) (step1 cur) <-> In (IWarp w) (step2 cur)) ->
  forall w, GReachW step1 r w <-> GReachW step2 r w.
Proof.
  intros HN HW w. unfold GReachW. split; (intros [->|(k & Hk & Hin)]; [left; reflexivity|right]);
    exists k; (split; [apply (greach_ext step1 step2 r HN); exact Hk|apply HW; exact Hin]).
Qed.

Section AccReach.
  Variable s : state.
  Hypothesis W : wf_state s = true.
  Variable a : acc.
  Hypothesis R : Rep a s.

  Lemma bucket_iff w st n e : get_store s w = Some st ->
    (In e (bucket_of st n) <-> In e (all_edges st) /\ e_from e = n).
  Proof.
    intros Est. pose proof (wf_store_of s W w st Est) as Wst. split.
    - intros He. split; [eapply in_bucket_all_edges; exact He|].
      unfold bucket_of in He. destruct (find N.compare n (st_from st)) as [b|] eqn:F; [|destruct He].
      destruct (wfs_bucket st Wst n b F) as (_ & Hf & _). apply Hf; exact He.
    - intros [He Hf]. unfold all_edges in He. apply in_flat_map in He. destruct He as ([n' b] & Hnb & He). cbn in He.
      apply (sorted_find_iff N.compare N_order) in Hnb; [|apply Wst].
      destruct (wfs_bucket st Wst n' b Hnb) as (_ & Hf' & _). rewrite (Hf' e He) in Hf. subst n'.
      unfold bucket_of. rewrite Hnb. exact He.
  Qed.

  Lemma in_step_acc_node cur k' :
    In (INode k') (step_acc a cur) <-> In (INode k') (step_store s cur).
  Proof.
    rewrite in_step_store_node. unfold step_acc. rewrite in_app_iff, in_flat_map. split.
    - intros [([[w eid] e] & Hkv & Hin)|Hin].
      + cbn [fst snd] in Hin.
        destruct ((w =? fst cur) && (e_from e =? snd cur)) eqn:C; [|destruct Hin].
        apply andb_true_iff in C. destruct C as [C1 C2]. apply N.eqb_eq in C1, C2. subst w.
        apply (rep_edges a s R) in Hkv. destruct Hkv as (st & Est & He & ->).
        exists st. split; [exact Est|]. left. exists e. split; [apply (bucket_iff _ _ _ _ Est); auto|].
        destruct Hin as [E|Hin]; [left; inversion E; reflexivity|right].
        apply in_att_items_node in Hin. destruct Hin as (c & i & E1 & E2 & ->).
        rewrite (rep_eatt a s R), Est in E1. rewrite (rep_insts a s R) in E2. exists c, i; auto.
      + apply in_att_items_node in Hin. destruct Hin as (c & i & E1 & E2 & ->).
        rewrite (rep_natt a s R) in E1. rewrite (rep_insts a s R) in E2.
        destruct (get_store s (fst cur)) as [st|] eqn:Est; [|discriminate].
        exists st. split; [reflexivity|]. right. exists c, i; auto.
    - intros (st & Est & [(e & He & H)|(c & i & E1 & E2 & ->)]).
      + left. exists ((fst cur, e_id e), e). apply (bucket_iff _ _ _ _ Est) in He. destruct He as [He Hf]. split.
        * apply (rep_edges a s R). exists st; auto.
        * cbn [fst snd]. rewrite N.eqb_refl, (proj2 (N.eqb_eq _ _) Hf). cbn [andb].
          destruct H as [->|(c & i & E1 & E2 & ->)]; [left; reflexivity|right].
          apply in_att_items_node. exists c, i. rewrite (rep_eatt a s R), Est, (rep_insts a s R). auto.
      + right. apply in_att_items_node. exists c, i. rewrite (rep_natt a s R), Est, (rep_insts a s R). auto.
  Qed.

  Lemma in_step_acc_warp cur w' :
    In (IWarp w') (step_acc a cur) <-> In (IWarp w') (step_store s cur).
  Proof.
    rewrite in_step_store_warp. unfold step_acc. rewrite in_app_iff, in_flat_map. split.
    - intros [([[w eid] e] & Hkv & Hin)|Hin].
      + cbn [fst snd] in Hin.
        destruct ((w =? fst cur) && (e_from e =? snd cur)) eqn:C; [|destruct Hin].
        apply andb_true_iff in C. destruct C as [C1 C2]. apply N.eqb_eq in C1, C2. subst w.
        apply (rep_edges a s R) in Hkv. destruct Hkv as (st & Est & He & ->).
        exists st. split; [exact Est|]. left. exists e. split; [apply (bucket_iff _ _ _ _ Est); auto|].
        destruct Hin as [E|Hin]; [discriminate|].
        apply in_att_items_warp in Hin. rewrite (rep_eatt a s R), Est in Hin. exact Hin.
      + apply in_att_items_warp in Hin. rewrite (rep_natt a s R) in Hin.
        destruct (get_store s (fst cur)) as [st|] eqn:Est; [|discriminate].
        exists st. split; [reflexivity|]. right. exact Hin.
    - intros (st & Est & [(e & He & H)|H]).
      + left. exists ((fst cur, e_id e), e). apply (bucket_iff _ _ _ _ Est) in He. destruct He as [He Hf]. split.
        * apply (rep_edges a s R). exists st; auto.
        * cbn [fst snd]. rewrite N.eqb_refl, (proj2 (N.eqb_eq _ _) Hf). cbn [andb].
          right. apply in_att_items_warp. rewrite (rep_eatt a s R), Est. exact H.
      + right. apply in_att_items_warp. rewrite (rep_natt a s R), Est. exact H.
  Qed.

  Definition acc_universe (a0 : acc) : list nkey :=
    map (fun kv => (fst (fst kv), e_to (snd kv))) (a_edges a0)
    ++ map (fun wi => (fst wi, i_root (snd wi))) (a_insts a0).

  Lemma step_acc_universe cur k' : In (INode k') (step_acc a cur) -> In k' (acc_universe a).
  Proof.
    unfold step_acc, acc_universe. rewrite !in_app_iff, in_flat_map.
    assert (Hi : forall o, In (INode k') (att_items (a_insts a) o) ->
                 In k' (map (fun wi => (fst wi, i_root (snd wi))) (a_insts a))).
    { intros o H. apply in_att_items_node in H. destruct H as (c & i & _ & E & ->).
      apply in_map_iff. exists (c, i). split; [reflexivity|]. apply (find_in N.compare n_eq); exact E. }
    intros [([[w eid] e] & Hkv & Hin)|Hin].
    - cbn [fst snd] in Hin.
      destruct ((w =? fst cur) && (e_from e =? snd cur)) eqn:C; [|destruct Hin].
      apply andb_true_iff in C. destruct C as [C1 _]. apply N.eqb_eq in C1. subst w.
      destruct Hin as [E|Hin]; [|right; eapply Hi; exact Hin].
      left. inversion E; subst. apply in_map_iff. exists ((fst cur, eid), e). auto.
    - right. eapply Hi; exact Hin.
  Qed.

  Theorem acc_reach_eq r : acc_reach a r = reach s r.
  Proof.
    destruct (reach_spec s r) as (rn & rw & E & S1 & S2 & HN & HW).
    destruct (gbfs_spec (step_acc a) r (acc_universe a)
                step_acc_universe (acc_fuel a))
      as (rn' & rw' & E' & S1' & S2' & HN' & HW').
    { unfold acc_fuel, acc_universe. rewrite app_length, !map_length. apply le_S, le_n. }
    unfold acc_reach. rewrite E', E. f_equal.
    - apply (set_ext nkey_cmp nk_order); auto. intros k. change (nmem k rn' = nmem k rn).
      destruct (nmem k rn') eqn:A, (nmem k rn) eqn:B; auto.
      + assert (C : nmem k rn = true); [|congruence].
        apply HN, greach_reach, (greach_ext _ _ r in_step_acc_node), HN'. exact A.
      + assert (C : nmem k rn' = true); [|congruence].
        apply HN', (greach_ext _ _ r in_step_acc_node), greach_reach, HN. exact B.
    - apply (set_ext N.compare N_order); auto. intros w. change (wmem w rw' = wmem w rw).
      destruct (wmem w rw') eqn:A, (wmem w rw) eqn:B; auto.
      + assert (C : wmem w rw = true); [|congruence].
        apply HW, greachw_reachw, (greachw_ext _ _ r in_step_acc_node in_step_acc_warp), HW'. exact A.
      + assert (C : wmem w rw' = true); [|congruence].
        apply HW', (greachw_ext _ _ r in_step_acc_node in_step_acc_warp), greachw_reachw, HW. exact B.
  Qed.
End AccReach.

(* ------------------------------------------------------------------ *)
(* the hashed byte stream: nodes *)

Lemma opt_eq_of_iff {A} (o1 o2 : option A) : (forall v, o1 = Some v <-> o2 = Some v) -> o1 = o2.
Proof.
  intros H. destruct o1 as [v1|].
  - symmetry. apply H. reflexivity.
  - destruct o2 as [v2|]; auto. assert (None = Some v2) by (apply H; reflexivity). discriminate.
Qed.

Lemma sorted_map_key w {V} (m : list (N * V)) :
  sorted N.compare m -> sorted nkey_cmp (map (fun nt => ((w, fst nt), snd nt)) m).
Proof.
  induction m as [|[n v] r IH]; cbn; auto. intros [Hlb Hs]. split; auto.
  destruct r as [|[n2 v2] r2]; cbn in *; auto.
  unfold nkey_cmp, pair_cmp. cbn. rewrite N.compare_refl. exact Hlb.
Qed.

Lemma find_map_key w w' n {V} (m : list (N * V)) :
  find nkey_cmp (w', n) (map (fun nt => ((w, fst nt), snd nt)) m) =
  if w' =? w then find N.compare n m else None.
Proof.
  induction m as [|[n1 v1] r IH]; cbn; [destruct (w' =? w); reflexivity|].
  unfold nkey_cmp at 1, pair_cmp. cbn [fst snd].
  destruct (N.compare w' w) eqn:E.
  - apply N.compare_eq_iff in E. subst w'. rewrite N.eqb_refl in *. destruct (N.compare n n1); auto.
  - rewrite IH. assert (w' =? w = false) by (apply N.eqb_neq; intros ->; rewrite N.compare_refl in E; discriminate).
    rewrite H. reflexivity.
  - rewrite IH. assert (w' =? w = false) by (apply N.eqb_neq; intros ->; rewrite N.compare_refl in E; discriminate).
    rewrite H. reflexivity.
Qed.

(* edges_by_source: grouping by source in table order *)
Lemma group_fold_sorted (l : list edge) : forall m, sorted N.compare m ->
  sorted N.compare (fold_left (fun m e => push_edge (e_from e) e m) l m).
Proof.
  induction l as [|e l IH]; cbn; intros m Hs; auto. apply IH. unfold push_edge.
  destruct (find N.compare (e_from e) m); apply (set_sorted N.compare n_eq n_as); exact Hs.
Qed.

Lemma group_fold_find (l : list edge) : forall m n, sorted N.compare m ->
  find N.compare n (fold_left (fun m e => push_edge (e_from e) e m) l m) =
  match find N.compare n m, filter (fun e => e_from e =? n) l with
  | Some b, x => Some (b ++ x)
  | None, [] => None
  | None, x => Some x
  end.
Proof.
  induction l as [|e l IH]; cbn [fold_left filter]; intros m n Hs.
  - destruct (find N.compare n m); [rewrite app_nil_r|]; reflexivity.
  - assert (Hs' : sorted N.compare (push_edge (e_from e) e m)).
    { unfold push_edge. destruct (find N.compare (e_from e) m); apply (set_sorted N.compare n_eq n_as); exact Hs. }
    rewrite IH by exact Hs'. unfold push_edge.
    destruct (e_from e =? n) eqn:E.
    + apply N.eqb_eq in E. subst n.
      destruct (find N.compare (e_from e) m) as [b|] eqn:F.
      * rewrite (find_set_same N.compare n_eq). rewrite <- app_assoc. reflexivity.
      * rewrite (find_set_same N.compare n_eq). reflexivity.
    + assert (Hne : n <> e_from e) by (intros ->; rewrite N.eqb_refl in E; discriminate).
      destruct (find N.compare (e_from e) m) as [b|];
        rewrite (find_set_other N.compare n_eq) by exact Hne; reflexivity.
Qed.

Lemma group_by_source_sorted l : sorted N.compare (group_by_source l).
Proof. apply group_fold_sorted. exact I. Qed.

Lemma group_by_source_find l n :
  find N.compare n (group_by_source l) =
  match filter (fun e => e_from e =? n) l with [] => None | x => Some x end.
Proof. unfold group_by_source. rewrite group_fold_find by exact I. reflexivity. Qed.

Lemma filter_all {A} (f : A -> bool) l : (forall x, In x l -> f x = true) -> filter f l = l.
Proof.
  induction l as [|x l IH]; cbn; intros H; auto.
  rewrite H by (left; auto). f_equal. apply IH. intros y Hy. apply H. right; exact Hy.
Qed.

Lemma filter_none {A} (f : A -> bool) l : (forall x, In x l -> f x = true -> False) -> filter f l = [].
Proof.
  induction l as [|x l IH]; cbn; intros H; auto.
  destruct (f x) eqn:E; [exfalso; eapply H; [left; reflexivity|exact E]|].
  apply IH. intros y Hy. apply H. right; exact Hy.
Qed.

Lemma nodup_snd_of_fst {A B} (g : B -> A) (l : list (A * B)) :
  (forall kv, In kv l -> fst kv = g (snd kv)) -> NoDup (map fst l) -> NoDup (map snd l).
Proof.
  intros H Hnd. apply (NoDup_map_inv g).
  rewrite map_map. rewrite (map_ext_in _ fst); [exact Hnd|].
  intros kv Hkv. symmetry. apply H; exact Hkv.
Qed.

Section AccBody.
  Variable s : state.
  Hypothesis W : wf_state s = true.
  Variable rn : nset.
  Variable w : N.
  Variable st : store.
  Hypothesis Est : get_store s w = Some st.
  (* the reachable set is closed under the edges of this instance *)
  Hypothesis Hclosed : forall n e, nmem (w, n) rn = true -> In e (bucket_of st n) -> nmem (w, e_to e) rn = true.

  Variable a : acc.
  Hypothesis R : Rep a s.
  Let Wst : WfStore st := wf_store_of s W w st Est.
  Let P (n : N) : bool := nmem (w, n) rn.
  Let Pacc (k : nkey) : bool := (fst k =? w) && nmem k rn.

  Lemma acc_nodes_filtered :
    fkey Pacc (a_nodes a) = map (fun nt => ((w, fst nt), snd nt)) (fkey P (st_nodes st)).
  Proof.
    apply (sorted_ext nkey_cmp nk_eq nk_as nk_tr).
    - apply (sorted_filter nkey_cmp nk_order). apply (rep_nodes_sorted a s R).
    - apply sorted_map_key. apply (sorted_filter N.compare N_order). apply Wst.
    - intros [w' n]. rewrite (find_filter nkey_cmp nk_order) by apply (rep_nodes_sorted a s R).
      rewrite find_map_key, (find_filter N.compare N_order) by apply Wst.
      unfold Pacc, P. cbn [fst]. destruct (w' =? w) eqn:Ew; [|reflexivity].
      apply N.eqb_eq in Ew. subst w'. cbn [andb]. destruct (nmem (w, n) rn); [|reflexivity].
      apply opt_eq_of_iff. intros ty. rewrite (rep_nodes a s R). split.
      + intros (st' & E & F). rewrite Est in E. inversion E; subst st'. exact F.
      + intros F. exists st. auto.
  Qed.

  Lemma acc_nodes_bytes :
    flat_map (fun kt => if (fst (fst kt) =? w) && nmem (fst kt) rn
                        then id32 (snd (fst kt)) ++ id32 (snd kt)
                             ++ enc_oatt (find akey_cmp (node_alpha w (snd (fst kt))) (a_natt a))
                        else []) (a_nodes a)
    = hash_nodes st w rn.
  Proof.
    unfold hash_nodes.
    transitivity (flat_map (fun kt : nkey * N => id32 (snd (fst kt)) ++ id32 (snd kt)
               ++ enc_oatt (find akey_cmp (node_alpha w (snd (fst kt))) (a_natt a))) (fkey Pacc (a_nodes a))).
    { exact (flat_map_fkey Pacc _ (a_nodes a)). }
    transitivity (flat_map (fun nt : N * N => id32 (fst nt) ++ id32 (snd nt)
               ++ enc_oatt (find N.compare (fst nt) (st_natt st))) (fkey P (st_nodes st))).
    2: { symmetry. exact (flat_map_fkey P _ (st_nodes st)). }
    rewrite acc_nodes_filtered, flat_map_map. apply flat_map_ext. intros [n ty]. cbn [fst snd].
    rewrite (rep_natt a s R), Est. reflexivity.
  Qed.

  (* ---- buckets ---- *)
  Let toreach (e : edge) : bool := nmem (w, e_to e) rn.
  Let cond (kv : nkey * edge) : bool :=
    (fst (fst kv) =? w) && nmem (w, e_from (snd kv)) rn && nmem (w, e_to (snd kv)) rn.
  Let EL : list edge := flat_map (fun kv => if cond kv then [snd kv] else []) (a_edges a).

  Lemma EL_alt : EL = map snd (filter cond (a_edges a)).
  Proof.
    unfold EL. induction (a_edges a) as [|kv l IH]; cbn; auto.
    destruct (cond kv); cbn; rewrite IH; reflexivity.
  Qed.

  Lemma in_EL e :
    In e EL <-> In e (all_edges st) /\ nmem (w, e_from e) rn = true /\ nmem (w, e_to e) rn = true.
  Proof.
    rewrite EL_alt, in_map_iff. split.
    - intros ([[w' eid] e'] & E & Hin). cbn in E. subst e'. apply filter_In in Hin. destruct Hin as [Hin C].
      unfold cond in C. cbn [fst snd] in C. rewrite !andb_true_iff in C. destruct C as [[C1 C2] C3].
      apply N.eqb_eq in C1. subst w'. apply (rep_edges a s R) in Hin.
      destruct Hin as (st' & E' & He & _). rewrite Est in E'. inversion E'; subst st'. auto.
    - intros (He & C2 & C3). exists ((w, e_id e), e). split; [reflexivity|]. apply filter_In. split.
      + apply (rep_edges a s R). exists st. auto.
      + unfold cond. cbn [fst snd]. rewrite N.eqb_refl, C2, C3. reflexivity.
  Qed.

  Lemma nodup_EL : NoDup EL.
  Proof.
    rewrite EL_alt. apply (nodup_snd_of_fst (fun e => (w, e_id e))).
    - intros [[w' eid] e] Hin. apply filter_In in Hin. destruct Hin as [Hin C]. cbn [fst snd].
      unfold cond in C. cbn [fst snd] in C. rewrite !andb_true_iff in C. destruct C as [[C1 _] _].
      apply N.eqb_eq in C1. subst w'. apply (rep_edges a s R) in Hin.
      destruct Hin as (_ & _ & _ & ->). reflexivity.
    - apply NoDup_map_filter. apply (sorted_nodup_keys nkey_cmp nk_order). apply (rep_edges_sorted a s R).
  Qed.

  Lemma acc_buckets_map :
    map_vals (sort_by e_id) (group_by_source EL) =
    map_vals (fun b => sort_by e_id (filter toreach b)) (fkey P (st_from st)).
  Proof.
    apply (sorted_ext N.compare n_eq n_as n_tr).
    - apply sorted_map_vals, group_by_source_sorted.
    - apply sorted_map_vals. apply (sorted_filter N.compare N_order). apply Wst.
    - intros n. rewrite !find_map_vals, group_by_source_find.
      rewrite (find_filter N.compare N_order) by apply Wst.
      set (X := filter (fun e => e_from e =? n) EL).
      assert (HX : forall e, In e X <-> In e (bucket_of st n) /\ P n = true).
      { intros e. unfold X. rewrite filter_In, in_EL, (bucket_iff s W w st n e Est). unfold P. split.
        - intros [(He & C2 & C3) Hf]. apply N.eqb_eq in Hf. subst n. auto.
        - intros [[He Hf] Hp]. subst n. split; [|apply N.eqb_refl]. split; [exact He|]. split; [exact Hp|].
          apply (Hclosed (e_from e)); [exact Hp|]. apply (bucket_iff s W w st _ e Est). auto. }
      destruct (P n) eqn:Pn.
      + unfold bucket_of in HX. destruct (find N.compare n (st_from st)) as [b|] eqn:F.
        * destruct (wfs_bucket st Wst n b F) as (Hne & _ & Hnd).
          assert (HP : Permutation b X).
          { apply NoDup_Permutation.
            - apply (NoDup_map_inv e_id). exact Hnd.
            - unfold X. apply NoDup_filter. exact nodup_EL.
            - intros e. rewrite HX. tauto. }
          assert (Hfa : filter toreach b = b).
          { apply filter_all. intros e He. unfold toreach. apply (Hclosed n); [exact Pn|].
            unfold bucket_of. rewrite F. exact He. }
          cbn [option_map]. rewrite Hfa.
          destruct X as [|x X'] eqn:EX.
          { apply Permutation_sym, Permutation_nil in HP. contradiction. }
          cbn [option_map]. f_equal. symmetry. apply sort_by_canonical; [exact HP|exact Hnd].
        * assert (X = []) as ->; [|reflexivity].
          destruct X as [|x X']; auto. exfalso. apply (proj1 (HX x) (or_introl eq_refl)).
      + assert (X = []) as ->; [|reflexivity].
        destruct X as [|x X']; auto. exfalso. destruct (proj1 (HX x) (or_introl eq_refl)) as [_ H]. discriminate.
  Qed.

  Lemma acc_buckets_bytes :
    flat_map (fun fb => let es := sort_by e_id (snd fb) in
                        id32 (fst fb) ++ u64le (lenN es) ++ flat_map (acc_enc_edge a w) es)
             (group_by_source EL)
    = hash_buckets st w rn.
  Proof.
    unfold hash_buckets.
    transitivity (flat_map (fun fb : N * list edge => id32 (fst fb) ++ u64le (lenN (snd fb)) ++ flat_map (enc_edge st) (snd fb))
                    (map_vals (sort_by e_id) (group_by_source EL))).
    { unfold map_vals. rewrite flat_map_map. apply flat_map_ext. intros [n b]. cbn [fst snd].
      do 2 f_equal. apply flat_map_ext. intros e. unfold acc_enc_edge, enc_edge.
      rewrite (rep_eatt a s R), Est. reflexivity. }
    rewrite acc_buckets_map.
    transitivity (flat_map (fun fb : N * list edge =>
                    let es := sort_by e_id (filter toreach (snd fb)) in
                    id32 (fst fb) ++ u64le (lenN es) ++ flat_map (enc_edge st) es) (fkey P (st_from st))).
    { unfold map_vals. rewrite flat_map_map. reflexivity. }
    symmetry. exact (flat_map_fkey P _ (st_from st)).
  Qed.
End AccBody.

(* ------------------------------------------------------------------ *)
(* the two state-root implementations agree *)

Section AccFinal.
  Variable s : state.
  Hypothesis W : wf_state s = true.
  Variable a : acc.
  Hypothesis R : Rep a s.

  Lemma wf_sync_store w i : get_inst s w = Some i -> exists st, get_store s w = Some st.
  Proof.
    intros Ei. unfold wf_state in W. rewrite !andb_true_iff in W. destruct W as [[[[_ _] _] H4] _].
    rewrite forallb_forall in H4. apply (find_in N.compare n_eq) in Ei. specialize (H4 _ Ei). cbn in H4.
    destruct (get_store s w) as [st|]; [exists st; reflexivity|discriminate].
  Qed.

  Lemma acc_hash_warp_eq r rn rw w :
    reach s r = (rn, rw) -> acc_hash_warp a rn w = hash_warp s rn w.
  Proof.
    intros ER. unfold acc_hash_warp, hash_warp. rewrite (rep_insts a s R).
    destruct (get_inst s w) as [i|] eqn:Ei; [|reflexivity].
    destruct (wf_sync_store w i Ei) as (st & Est). rewrite Est.
    assert (Hclosed : forall n e, nmem (w, n) rn = true -> In e (bucket_of st n) -> nmem (w, e_to e) rn = true).
    { destruct (reach_spec s r) as (rn' & rw' & E & _ & _ & HN & _).
      rewrite ER in E. inversion E; subst rn' rw'.
      intros n e Hn He. apply HN. apply HN in Hn.
      exact (R_edge s r (w, n) st e Hn Est He). }
    do 3 f_equal.
    rewrite <- (acc_nodes_bytes s W rn w st Est a R), <- (acc_buckets_bytes s W rn w st Est Hclosed a R).
    reflexivity.
  Qed.

  (* any accumulator that represents s hashes the same byte stream after the domain prefix *)
  Theorem acc_body_agrees r : root_preimage s r = state_root_v1 ++ acc_root_body a r.
  Proof.
    unfold root_preimage, acc_root_body. rewrite (acc_reach_eq s W a R r).
    destruct (reach s r) as [rn rw] eqn:ER. do 3 f_equal.
    apply flat_map_ext. intros wu. symmetry. eapply acc_hash_warp_eq; exact ER.
  Qed.

  Theorem acc_agrees_rep r : acc_root_preimage a r = root_preimage s r.
  Proof. unfold acc_root_preimage, acc_prefix. symmetry. apply acc_body_agrees. Qed.
End AccFinal.

Theorem acc_agrees_w s r : wf_state s = true ->
  acc_root_preimage (from_state s) r = root_preimage s r.
Proof. intros W. apply acc_agrees_rep; [exact W|apply from_state_rep; exact W]. Qed.
