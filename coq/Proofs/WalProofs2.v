(* Lemmas about Model/Wal.v, part 2: recovery over frame / commit-marker vectors.
   Main result [recover_fc_selected]: on the frames of a valid log (plus any uncommitted tail), ANY
   selection of its commit markers - in any order, with repetitions, with omissions - is accepted by
   recover_from_frames_and_commits.  Instances: the committed-prefix theorem for C10 and the
   removed / duplicated / reordered commit marker refutations for C11. *)
From Coq Require Import List NArith Lia Bool Arith.
From Echo Require Import Base.Bytes Model.Wal Proofs.WalProofs.
Import ListNotations.
Open Scope N_scope.

(* ------------------------------------------------------------------ generic list facts *)
Lemma filter_none {A} (p : A -> bool) l : Forall (fun x => p x = false) l -> filter p l = [].
Proof. induction 1 as [|x l Hx _ IH]; cbn; [reflexivity|]. rewrite Hx. exact IH. Qed.
Lemma filter_all {A} (p : A -> bool) l : Forall (fun x => p x = true) l -> filter p l = l.
Proof. induction 1 as [|x l Hx _ IH]; cbn; [reflexivity|]. rewrite Hx, IH. reflexivity. Qed.
Lemma existsb_none {A} (p : A -> bool) l : Forall (fun x => p x = false) l -> existsb p l = false.
Proof. induction 1 as [|x l Hx _ IH]; cbn; [reflexivity|]. rewrite Hx, IH. reflexivity. Qed.
Lemma lenN_app {A} (a b : list A) : lenN (a ++ b) = lenN a + lenN b.
Proof. unfold lenN. rewrite app_length. lia. Qed.
Lemma lenN_cons {A} (x : A) l : lenN (x :: l) = 1 + lenN l.
Proof. unfold lenN. cbn [length]. lia. Qed.

(* ------------------------------------------------------------------ stable sort on sorted input *)
Section Sort.
Context {A : Type}.
Variable key : A -> N.

Lemma insert_by_last x acc :
  Forall (fun y => key y <= key x) acc -> insert_by key x acc = acc ++ [x].
Proof.
  induction 1 as [|y acc Hy _ IH]; cbn [insert_by app]; [reflexivity|].
  replace (key y <=? key x) with true by (symmetry; apply N.leb_le; exact Hy).
  rewrite IH. reflexivity.
Qed.

Fixpoint inc_keys (l : list A) : Prop :=
  match l with
  | [] => True
  | x :: r => Forall (fun y => key x <= key y) r /\ inc_keys r
  end.

Lemma sort_fold l : forall acc,
  inc_keys l -> Forall (fun y => Forall (fun x => key y <= key x) l) acc ->
  fold_left (fun a x => insert_by key x a) l acc = acc ++ l.
Proof.
  induction l as [|x l IH]; intros acc Hi Ha; cbn [fold_left].
  - symmetry. apply app_nil_r.
  - destruct Hi as [Hx Hi].
    rewrite insert_by_last.
    2:{ eapply Forall_impl; [|exact Ha]. cbn. intros y Hy. inversion Hy; auto. }
    rewrite IH; auto.
    + rewrite <- app_assoc. reflexivity.
    + apply Forall_app. split.
      * eapply Forall_impl; [|exact Ha]. cbn. intros y Hy. inversion Hy; auto.
      * constructor; [exact Hx|constructor].
Qed.

Lemma sort_by_sorted l : inc_keys l -> sort_by key l = l.
Proof. intros Hi. unfold sort_by. rewrite sort_fold; auto. Qed.
End Sort.

Section WithHash.
Variable H : bytes -> N.

Notation frame_check := (frame_check H).
Notation validate_tx := (validate_tx H).
Notation tx_valid := (tx_valid H).
Notation log_valid := (log_valid H).

(* ------------------------------------------------------------------ consecutive frames *)
Lemma consec_app l a b : consec l (a ++ b) <-> consec l a /\ consec (l + lenN a) b.
Proof.
  revert l; induction a as [|f a IH]; intros l; cbn [app consec].
  - rewrite N.add_0_r. tauto.
  - rewrite IH, lenN_cons. replace (l + 1 + lenN a) with (l + (1 + lenN a)) by lia. tauto.
Qed.

Lemma consec_bounds l fs : consec l fs -> Forall (fun f => l <= f_lsn f /\ f_lsn f < l + lenN fs) fs.
Proof.
  revert l; induction fs as [|f fs IH]; intros l Hc; [constructor|].
  destruct Hc as [Hf Hc]. rewrite lenN_cons. constructor; [lia|].
  eapply Forall_impl; [|apply IH; exact Hc]. cbv beta. intros g [? ?]. split; lia.
Qed.

Lemma consec_inc l fs : consec l fs -> inc_keys f_lsn fs.
Proof.
  revert l; induction fs as [|f fs IH]; intros l Hc; [exact I|].
  destruct Hc as [Hf Hc]. split; [|eapply IH; exact Hc].
  eapply Forall_impl; [|apply consec_bounds; exact Hc]. cbv beta. intros g [? ?]. lia.
Qed.

Definition fr_ok (f : frame) : Prop := frame_check f = None.

Lemma check_order_consec fs : forall l prev,
  consec l fs -> Forall fr_ok fs ->
  (prev = None \/ exists p, prev = Some p /\ l = p + 1) ->
  check_order H prev fs = Ok tt.
Proof.
  induction fs as [|f fs IH]; intros l prev Hc Ho Hp; [reflexivity|].
  destruct Hc as [Hf Hc]. inversion Ho as [|? ? Hf0 Ho']; subst.
  cbn [check_order]. unfold fr_ok in Hf0. rewrite Hf0.
  destruct Hp as [->|(p & -> & Hl)].
  - eapply IH; eauto.
  - replace (f_lsn f =? p + 1) with true by (symmetry; apply N.eqb_eq; lia).
    eapply IH; eauto.
Qed.

Lemma validate_order_consec l fs : consec l fs -> Forall fr_ok fs -> validate_order H fs = Ok tt.
Proof.
  intros Hc Ho. unfold validate_order. rewrite sort_by_sorted by (eapply consec_inc; exact Hc).
  eapply check_order_consec; eauto.
Qed.

(* ------------------------------------------------------------------ what validate_tx = Ok says *)
Lemma check_tx_frames_ok c fs : forall i,
  check_tx_frames H c i fs = Ok tt ->
  consec (c_first c + i) fs /\ Forall fr_ok fs /\ Forall (fun f => f_tx f = c_tx c) fs.
Proof.
  induction fs as [|f fs IH]; intros i Hc; [repeat split; constructor|].
  cbn [check_tx_frames] in Hc.
  destruct (frame_check f) eqn:Ef; [discriminate|].
  destruct (f_tx f =? c_tx c) eqn:Et; cbn [negb] in Hc; [|discriminate].
  destruct (f_epoch f =? c_epoch c) eqn:Ee; cbn [negb] in Hc; [|discriminate].
  destruct (f_idx f =? i) eqn:Ei; cbn [negb] in Hc; [|discriminate].
  destruct (f_lsn f =? c_first c + i) eqn:El; cbn [negb] in Hc; [|discriminate].
  apply IH in Hc. destruct Hc as (Hc & Ho & Ht).
  apply N.eqb_eq in Et, El.
  cbn [consec]. replace (c_first c + i + 1) with (c_first c + (i + 1)) by lia.
  repeat split; auto.
Qed.

Lemma last_consec l fs d : consec l fs -> fs <> [] -> f_lsn (last fs d) + 1 = l + lenN fs.
Proof.
  revert l; induction fs as [|f fs IH]; intros l Hc Hn; [congruence|].
  destruct Hc as [Hf Hc]. destruct fs as [|g fs].
  - cbn [last]. rewrite lenN_cons. unfold lenN. cbn. lia.
  - change (last (f :: g :: fs) d) with (last (g :: fs) d).
    rewrite (IH (l + 1)) by (auto; discriminate). rewrite (lenN_cons f). lia.
Qed.

Lemma tx_valid_shape t : tx_valid t ->
  let c := w_commit t in let fs := w_frames t in
  fs <> [] /\ consec (c_first c) fs /\ Forall fr_ok fs /\ Forall (fun f => f_tx f = c_tx c) fs /\
  c_last c + 1 = c_first c + lenN fs.
Proof.
  intros (_ & _ & Hv). cbv zeta. unfold Wal.validate_tx in Hv.
  destruct (w_frames t) as [|f0 fs] eqn:Efs; [discriminate|].
  rewrite <- Efs in *.
  destruct (f_lsn f0 =? c_first (w_commit t)) eqn:E1; cbn [negb] in Hv; [|discriminate].
  destruct (f_lsn (last (w_frames t) f0) =? c_last (w_commit t)) eqn:E2; cbn [negb] in Hv; [|discriminate].
  destruct (lenN (w_frames t) =? c_count (w_commit t)) eqn:E3; cbn [negb] in Hv; [|discriminate].
  destruct (check_tx_frames H (w_commit t) 0 (w_frames t)) as [[]|] eqn:E4; [|discriminate].
  apply check_tx_frames_ok in E4. rewrite N.add_0_r in E4. destruct E4 as (Hc & Ho & Ht).
  assert (Hn : w_frames t <> []) by (rewrite Efs; discriminate).
  repeat split; auto.
  apply N.eqb_eq in E2. rewrite <- E2. apply last_consec; auto.
Qed.

(* ------------------------------------------------------------------ logs *)
Lemma log_frames_app a b : log_frames (a ++ b) = log_frames a ++ log_frames b.
Proof. unfold log_frames. apply flat_map_app. Qed.
Lemma log_frames_cons t b : log_frames (t :: b) = w_frames t ++ log_frames b.
Proof. reflexivity. Qed.

Lemma log_valid_cons l0 t r : log_valid l0 (t :: r) <->
  tx_valid t /\ c_first (w_commit t) = l0 /\ log_valid (c_last (w_commit t) + 1) r.
Proof.
  unfold Wal.log_valid. cbn [chain_from]. split.
  - intros [Hf (Hc & Hr)]. inversion Hf; subst. tauto.
  - intros (Ht & Hc & Hf & Hr). split; [constructor; auto|auto].
Qed.

Lemma log_valid_consec ts : forall l0, log_valid l0 ts ->
  consec l0 (log_frames ts) /\ Forall fr_ok (log_frames ts).
Proof.
  induction ts as [|t ts IH]; intros l0 Hv; [split; [exact I|constructor]|].
  apply log_valid_cons in Hv. destruct Hv as (Ht & Hc & Hr).
  destruct (tx_valid_shape t Ht) as (Hn & Hcs & Ho & _ & Hl).
  destruct (IH _ Hr) as [Hc' Ho'].
  rewrite log_frames_cons. split.
  - apply consec_app. rewrite <- Hc. split; [exact Hcs|]. rewrite <- Hl. exact Hc'.
  - apply Forall_app. auto.
Qed.

Lemma log_valid_app a b l0 : log_valid l0 (a ++ b) ->
  log_valid l0 a /\ log_valid (l0 + lenN (log_frames a)) b.
Proof.
  revert l0; induction a as [|t a IH]; intros l0 Hv.
  - cbn [app log_frames flat_map]. unfold lenN. cbn. rewrite N.add_0_r.
    split; [split; [constructor|exact I]|exact Hv].
  - cbn [app] in Hv. apply log_valid_cons in Hv. destruct Hv as (Ht & Hc & Hr).
    destruct (IH _ Hr) as [Ha Hb].
    destruct (tx_valid_shape t Ht) as (_ & _ & _ & _ & Hl).
    split; [apply log_valid_cons; auto|].
    rewrite log_frames_cons, lenN_app.
    replace (l0 + (lenN (w_frames t) + lenN (log_frames a)))
      with (c_last (w_commit t) + 1 + lenN (log_frames a)) by lia.
    exact Hb.
Qed.

(* the frames of transaction t are exactly what the commit marker of t selects from the whole log *)
Lemma tx_frames_select l0 a t b extra :
  log_valid l0 (a ++ t :: b) -> consec (l0 + lenN (log_frames (a ++ t :: b))) extra ->
  tx_frames (log_frames (a ++ t :: b) ++ extra) (w_commit t) = w_frames t.
Proof.
  intros Hv He.
  destruct (log_valid_app a (t :: b) l0 Hv) as [Ha Htb].
  apply log_valid_cons in Htb. destruct Htb as (Ht & Hf & Hb).
  destruct (tx_valid_shape t Ht) as (Hn & Hcs & Ho & Htx & Hl).
  destruct (log_valid_consec _ _ Ha) as [Hca _].
  destruct (log_valid_consec _ _ Hb) as [Hcb _].
  set (c := w_commit t) in *.
  rewrite log_frames_app, log_frames_cons in *.
  rewrite !lenN_app in He.
  unfold tx_frames. rewrite <- !app_assoc, !filter_app.
  rewrite (filter_none _ (log_frames a)), (filter_all _ (w_frames t)),
          (filter_none _ (log_frames b)), (filter_none _ extra).
  - cbn [app]. apply app_nil_r.
  - eapply Forall_impl; [|apply consec_bounds; exact He]. cbn. intros f [Hlo _].
    apply andb_false_iff. right. apply N.leb_gt. lia.
  - eapply Forall_impl; [|apply consec_bounds; exact Hcb]. cbn. intros f [Hlo _].
    apply andb_false_iff. right. apply N.leb_gt. lia.
  - pose proof (consec_bounds _ _ Hcs) as Hb1.
    rewrite Forall_forall in *. intros f Hin.
    specialize (Hb1 f Hin). specialize (Htx f Hin). cbn in Hb1.
    rewrite Htx, N.eqb_refl. cbn [andb].
    apply andb_true_iff. split; [apply N.leb_le|apply N.leb_le]; lia.
  - eapply Forall_impl; [|apply consec_bounds; exact Hca]. cbn. intros f [_ Hhi].
    apply andb_false_iff. left. apply andb_false_iff. right. apply N.leb_gt. lia.
Qed.

Lemma tx_frames_in l0 ts t extra :
  log_valid l0 ts -> consec (l0 + lenN (log_frames ts)) extra -> In t ts ->
  tx_frames (log_frames ts ++ extra) (w_commit t) = w_frames t.
Proof.
  intros Hv He Hin. destruct (in_split _ _ Hin) as (a & b & E). subst ts.
  apply (tx_frames_select l0); auto.
Qed.

(* ------------------------------------------------------------------ tails *)
Lemma last_commit_lsn_snoc cs c : last_commit_lsn (cs ++ [c]) = Some (c_last c).
Proof. unfold last_commit_lsn. rewrite rev_app_distr. reflexivity. Qed.
Lemma last_commit_lsn_app cs cs' : cs' <> [] -> last_commit_lsn (cs ++ cs') = last_commit_lsn cs'.
Proof.
  intros Hn. destruct (exists_last Hn) as (x & c & ->).
  rewrite app_assoc, !last_commit_lsn_snoc. reflexivity.
Qed.

Lemma log_valid_last l0 ts t : log_valid l0 (ts ++ [t]) ->
  c_last (w_commit t) + 1 = l0 + lenN (log_frames (ts ++ [t])).
Proof.
  intros Hv. destruct (log_valid_app _ _ _ Hv) as [_ Ht].
  apply log_valid_cons in Ht. destruct Ht as (Htv & Hf & _).
  destruct (tx_valid_shape t Htv) as (_ & _ & _ & _ & Hl).
  rewrite log_frames_app, lenN_app, log_frames_cons. cbn [log_frames flat_map]. rewrite app_nil_r. lia.
Qed.

Lemma fc_tail_log l0 ts extra :
  log_valid l0 ts -> consec (l0 + lenN (log_frames ts)) extra ->
  fc_tail (log_frames ts ++ extra) (map w_commit ts) = expected_tail ts extra.
Proof.
  intros Hv He. unfold fc_tail, expected_tail.
  destruct (log_valid_consec _ _ Hv) as [Hc _].
  destruct ts as [|t0 ts0] using rev_ind.
  - cbn [map log_frames flat_map app]. unfold last_commit_lsn. cbn [rev].
    destruct extra; reflexivity.
  - clear IHts0. rewrite map_app. cbn [map]. rewrite last_commit_lsn_snoc.
    pose proof (log_valid_last _ _ _ Hv) as Hl.
    rewrite existsb_app.
    rewrite (existsb_none _ (log_frames (ts0 ++ [t0]))).
    2:{ eapply Forall_impl; [|apply consec_bounds; exact Hc]. cbv beta. intros f [_ Hhi].
        apply N.ltb_ge. lia. }
    cbn [orb]. destruct extra as [|e extra]; [reflexivity|].
    destruct He as [He _]. cbn [existsb].
    replace (c_last (w_commit t0) <? f_lsn e) with true by (symmetry; apply N.ltb_lt; lia).
    reflexivity.
Qed.

(* ------------------------------------------------------------------ the commit loop on the log's own markers *)
Lemma min_lsn_consec l fs : consec l fs -> fs <> [] -> min_lsn fs = Some l.
Proof.
  revert l; induction fs as [|f fs IH]; intros l Hc Hn; [congruence|].
  destruct Hc as [Hf Hc]. unfold min_lsn in *. cbn [fold_right].
  destruct fs as [|g fs']; [cbn; congruence|].
  rewrite (IH (l + 1)) by (auto; discriminate). f_equal. lia.
Qed.

Lemma chain_first l0 a t b : log_valid l0 (a ++ t :: b) ->
  c_first (w_commit t) = l0 + lenN (log_frames a) /\
  c_last (w_commit t) + 1 = l0 + lenN (log_frames (a ++ [t])).
Proof.
  intros Hv. destruct (log_valid_app _ _ _ Hv) as [_ Htb].
  apply log_valid_cons in Htb. destruct Htb as (Ht & Hf & _).
  destruct (tx_valid_shape t Ht) as (_ & _ & _ & _ & Hl).
  split; [exact Hf|].
  rewrite log_frames_app, lenN_app, log_frames_cons. cbn [log_frames flat_map]. rewrite app_nil_r. lia.
Qed.

(* [expected] is compatible with a suffix that starts at LSN l *)
Definition exp_ok (expected : option N) (l : N) : Prop := expected = None \/ expected = Some l.

Lemma lsn_next_ok l : exp_ok (lsn_next l) (l + 1).
Proof. unfold lsn_next, exp_ok. destruct (l =? 2 ^ 64 - 1); auto. Qed.

Lemma recover_commits_suffix l0 extra suf : forall pre expected,
  log_valid l0 (pre ++ suf) -> consec (l0 + lenN (log_frames (pre ++ suf))) extra ->
  exp_ok expected (l0 + lenN (log_frames pre)) ->
  recover_commits H (log_frames (pre ++ suf) ++ extra) expected (map w_commit suf) = Ok (map rtx_of suf).
Proof.
  induction suf as [|t suf IH]; intros pre expected Hv He Hx; [reflexivity|].
  cbn [map recover_commits].
  destruct (chain_first l0 pre t suf Hv) as [Hf Hl].
  replace (match expected with Some e => negb (c_first (w_commit t) =? e) | None => false end) with false.
  2:{ destruct Hx as [->| ->]; [reflexivity|]. rewrite Hf, N.eqb_refl. reflexivity. }
  rewrite (tx_frames_in l0) by (auto; apply in_or_app; right; left; reflexivity).
  destruct Hv as [Hall Hch]. pose proof Hall as Hall0. rewrite Forall_forall in Hall.
  destruct (Hall t ltac:(apply in_or_app; right; left; reflexivity)) as (_ & _ & Hvt). rewrite Hvt.
  replace (pre ++ t :: suf) with ((pre ++ [t]) ++ suf) in * by (rewrite <- app_assoc; reflexivity).
  rewrite (IH (pre ++ [t]) (lsn_next (c_last (w_commit t)))); [reflexivity|split; assumption|exact He|].
  rewrite <- Hl. apply lsn_next_ok.
Qed.

(* C10: the whole committed log, followed by any uncommitted frames, recovers to exactly the
   committed transactions, with the tail posture that names the uncommitted part *)
Theorem recover_fc_log l0 ts extra :
  log_valid l0 ts -> consec (l0 + lenN (log_frames ts)) extra -> Forall fr_ok extra ->
  recover_fc H (log_frames ts ++ extra) (map w_commit ts) = Ok (map rtx_of ts, expected_tail ts extra).
Proof.
  intros Hv He Ho. unfold recover_fc.
  destruct (log_valid_consec _ _ Hv) as [Hc Hok].
  rewrite (validate_order_consec l0).
  2:{ apply consec_app. split; [exact Hc|exact He]. }
  2:{ apply Forall_app. split; auto. }
  pose proof (recover_commits_suffix l0 extra ts [] (min_lsn (log_frames ts ++ extra))) as R.
  cbn [app] in R. rewrite R; [|exact Hv|exact He|].
  - rewrite (fc_tail_log l0) by auto. reflexivity.
  - cbn [log_frames flat_map]. unfold lenN at 1. cbn [length]. rewrite N.add_0_r.
    destruct (log_frames ts ++ extra) as [|f fs] eqn:E; [left; reflexivity|].
    right. apply min_lsn_consec; [|discriminate]. rewrite <- E. apply consec_app. split; assumption.
Qed.

(* ------------------------------------------------------------------ C11: selections of the log's markers *)
(* two prefixes of one log with the same number of frames are equal (every transaction has a frame) *)
Lemma prefix_by_frames (all : list wtx) : forall a b x y,
  Forall (fun t => w_frames t <> []) all -> all = a ++ x -> all = b ++ y ->
  lenN (log_frames a) = lenN (log_frames b) -> x <> [] -> y <> [] -> a = b.
Proof.
  induction all as [|t all IH]; intros a b x y Hne Ea Eb Hl Hx Hy.
  - destruct a; [|discriminate]. destruct b; [reflexivity|discriminate].
  - inversion Hne as [|? ? Ht Hne']; subst.
    assert (Hpos : 1 <= lenN (w_frames t)).
    { destruct (w_frames t); [congruence|]. rewrite lenN_cons. lia. }
    destruct a as [|ta a'], b as [|tb b']; cbn [app] in *.
    + reflexivity.
    + exfalso. inversion Eb; subst. rewrite log_frames_cons, lenN_app in Hl.
      cbn [log_frames flat_map] in Hl. unfold lenN at 1 in Hl. cbn [length] in Hl. lia.
    + exfalso. inversion Ea; subst. rewrite log_frames_cons, lenN_app in Hl.
      cbn [log_frames flat_map] in Hl. unfold lenN at 3 in Hl. cbn [length] in Hl. lia.
    + inversion Ea; inversion Eb; subst. f_equal.
      rewrite !log_frames_cons, !lenN_app in Hl.
      eapply (IH a' b' x y); eauto. lia.
Qed.

Lemma nonempty_frames l0 ts : log_valid l0 ts -> Forall (fun t => w_frames t <> []) ts.
Proof.
  intros [Hall _]. eapply Forall_impl; [|exact Hall]. cbv beta. intros t Ht.
  destruct (tx_valid_shape t Ht) as (Hn & _). exact Hn.
Qed.

(* Among the commit markers of a valid log, the one that starts at the first LSN of a suffix is the
   head of that suffix. *)
Lemma marker_at_start l0 pre suf t :
  log_valid l0 (pre ++ suf) -> suf <> [] -> In t (pre ++ suf) ->
  c_first (w_commit t) = l0 + lenN (log_frames pre) -> exists rest, suf = t :: rest.
Proof.
  intros Hv Hs Hin Hf.
  destruct (in_split _ _ Hin) as (a & b & E).
  rewrite E in Hv. destruct (chain_first l0 a t b Hv) as [Hf' _]. rewrite <- E in Hv.
  assert (Ea : a = pre).
  { eapply (prefix_by_frames (pre ++ suf) a pre (t :: b) suf); eauto using nonempty_frames.
    - lia.
    - discriminate. }
  subst a. apply app_inv_head in E. exists b. exact E.
Qed.

(* C11 detection: feed recover_from_frames_and_commits the frames of a valid log and ANY list made of
   that log's own commit markers (markers removed, duplicated, reordered).  If it succeeds, the list is
   a prefix of the log's markers and the recovered history is the corresponding prefix of the committed
   history.  (LSN space not exhausted: no transaction ends at 2^64-1.) *)
Lemma recover_commits_prefix l0 extra cs : forall pre suf r,
  log_valid l0 (pre ++ suf) -> consec (l0 + lenN (log_frames (pre ++ suf))) extra ->
  Forall (fun t => c_last (w_commit t) <> 2 ^ 64 - 1) (pre ++ suf) ->
  incl cs (map w_commit (pre ++ suf)) ->
  recover_commits H (log_frames (pre ++ suf) ++ extra) (Some (l0 + lenN (log_frames pre))) cs = Ok r ->
  exists n, cs = map w_commit (firstn n suf) /\ r = map rtx_of (firstn n suf).
Proof.
  induction cs as [|c cs IH]; intros pre suf r Hv He Hnx Hin Hr.
  - cbn in Hr. inversion Hr. exists 0%nat. split; reflexivity.
  - cbn [recover_commits] in Hr.
    destruct (c_first c =? l0 + lenN (log_frames pre)) eqn:Ef; cbn [negb] in Hr; [|discriminate].
    apply N.eqb_eq in Ef.
    assert (Hc : In c (map w_commit (pre ++ suf))) by (apply Hin; left; reflexivity).
    apply in_map_iff in Hc. destruct Hc as (t & <- & Ht).
    assert (Hs : suf <> []).
    { intros ->. rewrite app_nil_r in *.
      destruct (in_split _ _ Ht) as (a & b & E). rewrite E in Hv.
      destruct (chain_first l0 a t b Hv) as [Hf' _].
      rewrite E, log_frames_app, lenN_app, log_frames_cons, lenN_app in Ef.
      destruct (log_valid_app _ _ _ Hv) as [_ Htb]. apply log_valid_cons in Htb.
      destruct Htb as (Htv & _ & _). destruct (tx_valid_shape t Htv) as (Hn & _).
      assert (1 <= lenN (w_frames t)) by (destruct (w_frames t); [congruence|rewrite lenN_cons; lia]).
      lia. }
    destruct (marker_at_start l0 pre suf t Hv Hs Ht Ef) as [rest ->].
    rewrite (tx_frames_in l0) in Hr by auto.
    destruct Hv as [Hall Hch]. pose proof Hall as Hall0. rewrite Forall_forall in Hall.
    destruct (Hall t Ht) as (_ & _ & Hvt). rewrite Hvt in Hr.
    destruct (chain_first l0 pre t rest (conj Hall0 Hch)) as [_ Hl].
    assert (Hnext : lsn_next (c_last (w_commit t)) = Some (l0 + lenN (log_frames (pre ++ [t])))).
    { unfold lsn_next. rewrite Forall_forall in Hnx. specialize (Hnx t Ht).
      replace (c_last (w_commit t) =? 2 ^ 64 - 1) with false by (symmetry; apply N.eqb_neq; exact Hnx).
      rewrite Hl. reflexivity. }
    rewrite Hnext in Hr.
    replace (pre ++ t :: rest) with ((pre ++ [t]) ++ rest) in * by (rewrite <- app_assoc; reflexivity).
    destruct (recover_commits H (log_frames ((pre ++ [t]) ++ rest) ++ extra)
                (Some (l0 + lenN (log_frames (pre ++ [t])))) cs) as [r'|e] eqn:Er; [|discriminate].
    inversion Hr; subst r.
    destruct (IH (pre ++ [t]) rest r' (conj Hall0 Hch) He Hnx) as (n & -> & ->); auto.
    + intros x Hx. apply Hin. right. exact Hx.
    + exists (S n). split; reflexivity.
Qed.

Theorem commit_selection_detected l0 ts extra cs r :
  log_valid l0 ts -> consec (l0 + lenN (log_frames ts)) extra -> Forall fr_ok extra ->
  Forall (fun t => c_last (w_commit t) <> 2 ^ 64 - 1) ts ->
  incl cs (map w_commit ts) -> log_frames ts <> [] ->
  recover_fc H (log_frames ts ++ extra) cs = Ok r ->
  exists n, cs = map w_commit (firstn n ts) /\ fst r = map rtx_of (firstn n ts).
Proof.
  intros Hv He Ho Hnx Hin Hne Hr. unfold recover_fc in Hr.
  destruct (validate_order H (log_frames ts ++ extra)); [|discriminate].
  destruct (log_valid_consec _ _ Hv) as [Hc _].
  assert (Hm : min_lsn (log_frames ts ++ extra) = Some l0).
  { apply min_lsn_consec; [apply consec_app; split; assumption|].
    destruct (log_frames ts); [congruence|discriminate]. }
  rewrite Hm in Hr.
  destruct (recover_commits H (log_frames ts ++ extra) (Some l0) cs) as [txs|e] eqn:Er; [|discriminate].
  inversion Hr; subst r. cbn [fst].
  apply (recover_commits_prefix l0 extra cs [] ts txs); auto.
  cbn [log_frames flat_map app]. unfold lenN at 1. cbn [length]. rewrite N.add_0_r. exact Er.
Qed.

End WithHash.

(* ------------------------------------------------------------------ a concrete log (non-vacuity) *)
(* A deliberately weak "hash" - the theorems hold for every function. *)
Definition exH (p : bytes) : N := fold_left (fun a b => a * 131 + b + 7) p 1.
Definition exP (i : N) : tx_params :=
  {| p_epoch := 5; p_seg := 1; p_tx := 100 + i; p_txkind := 1; p_codec := 2; p_schema := 3;
     p_domain := 4; p_dur := 1; p_froot := 9 |}.
(* previous-frame / previous-commit digests are deliberately constant: nothing reads them *)
Definition ex_t1 : wtx := mk_tx exH (exP 1) 0 77 78 [(1, [1; 2]); (2, [])].
Definition ex_t2 : wtx := mk_tx exH (exP 2) 2 77 78 [(6, [7])].
Definition ex_t3 : wtx := mk_tx exH (exP 3) 3 77 78 [(1, [9; 9; 9]); (22, [0])].
Definition ex_log : list wtx := [ex_t1; ex_t2; ex_t3].

Lemma ex_tx_valid : Forall (tx_valid exH) ex_log.
Proof.
  repeat constructor; try (vm_compute; reflexivity).
Qed.
Lemma ex_log_valid : log_valid exH 0 ex_log.
Proof. split; [exact ex_tx_valid|]. vm_compute. repeat split; reflexivity. Qed.
