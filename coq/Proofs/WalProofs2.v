(* Lemmas about Model/Wal.v, part 2: recovery over frame / commit-marker vectors.
   Main result [recover_fc_selected]: on the frames of a valid log (plus any uncommitted tail), ANY
   selection of its commit markers - in any order, with repetitions, with omissions - is accepted by
   recover_from_frames_and_commits.  Instances: the committed-prefix theorem for C10 and the
   removed / duplicated / reordered commit marker refutations for C11. *)
From Coq Require Import List NArith Lia Bool Arith.
From Echo Require Import Base.Bytes Model.Wal Proofs.WalProofs.
Import ListNotations.
Open Scope N_scope.

(* ------------------------------------------------------------------ generic list facts *)
Lemma filter_none {A} (p : A -> bool) l : Forall (fun x => p x = false) l -> filter p l = [].
Proof. induction 1 as [|x l Hx _ IH]; cbn; [reflexivity|]. rewrite Hx. exact IH. Qed.
Lemma filter_all {A} (p : A -> bool) l : Forall (fun x => p x = true) l -> filter p l = l.
Proof. induction 1 as [|x l Hx _ IH]; cbn; [reflexivity|]. rewrite Hx, IH. reflexivity. Qed.
Lemma existsb_none {A} (p : A -> bool) l : Forall (fun x => p x = false) l -> existsb p l = false.
Proof. induction 1 as [|x l Hx _ IH]; cbn; [reflexivity|]. rewrite Hx, IH. reflexivity. Qed.
Lemma lenN_app {A} (a b : list A) : lenN (a ++ b) = lenN a + lenN b.
Proof. unfold lenN. rewrite app_length. lia. Qed.
Lemma lenN_cons {A} (x : A) l : lenN (x :: l) = 1 + lenN l.
Proof. unfold lenN. cbn [length]. lia. Qed.

(* ------------------------------------------------------------------ stable sort on sorted input *)
Section Sort.
Context {A : Type}.
Variable key : A -> N.

Lemma insert_by_last x acc :
  Forall (fun y => key y <= key x) acc -> insert_by key x acc = acc ++ [x].
Proof.
  induction 1 as [|y acc Hy _ IH]; cbn [insert_by app]; [reflexivity|].
  replace (key y <=? key x) with true by (symmetry; apply N.leb_le; exact Hy).
  rewrite IH. reflexivity.
Qed.

Fixpoint inc_keys (l : list A) : Prop :=
  match l with
  | [] => True
  | x :: r => Forall (fun y => key x <= key y) r /\ inc_keys r
  end.

Lemma sort_fold l : forall acc,
  inc_keys l -> Forall (fun y => Forall (fun x => key y <= key x) l) acc ->
  fold_left (fun a x => insert_by key x a) l acc = acc ++ l.
Proof.
  induction l as [|x l IH]; intros acc Hi Ha; cbn [fold_left].
  - symmetry. apply app_nil_r.
  - destruct Hi as [Hx Hi].
    rewrite insert_by_last.
    2:{ eapply Forall_impl; [|exact Ha]. cbn. intros y Hy. inversion Hy; auto. }
    rewrite IH; auto.
    + rewrite <- app_assoc. reflexivity.
    + apply Forall_app. split.
      * eapply Forall_impl; [|exact Ha]. cbn. intros y Hy. inversion Hy; auto.
      * constructor; [exact Hx|constructor].
Qed.

Lemma sort_by_sorted l : inc_keys l -> sort_by key l = l.
Proof. intros Hi. unfold sort_by. rewrite sort_fold; auto. Qed.
End Sort.

Section WithHash.
Variable H : bytes -> N.

Notation frame_check := (frame_check H).
Notation validate_tx := (validate_tx H).
Notation tx_valid := (tx_valid H).
Notation log_valid := (log_valid H).

(* ------------------------------------------------------------------ consecutive frames *)
Lemma consec_app l a b : consec l (a ++ b) <-> consec l a /\ consec (l + lenN a) b.
Proof.
  revert l; induction a as [|f a IH]; intros l; cbn [app consec].
  - rewrite N.add_0_r. tauto.
  - rewrite IH, lenN_cons. replace (l + 1 + lenN a) with (l + (1 + lenN a)) by lia. tauto.
Qed.

Lemma consec_bounds l fs : consec l fs -> Forall (fun f => l <= f_lsn f /\ f_lsn f < l + lenN fs) fs.
Proof.
  revert l; induction fs as [|f fs IH]; intros l Hc; [constructor|].
  destruct Hc as [Hf Hc]. rewrite lenN_cons. constructor; [lia|].
  eapply Forall_impl; [|apply IH; exact Hc]. cbv beta. intros g [? ?]. split; lia.
Qed.

Lemma consec_inc l fs : consec l fs -> inc_keys f_lsn fs.
Proof.
  revert l; induction fs as [|f fs IH]; intros l Hc; [exact I|].
  destruct Hc as [Hf Hc]. split; [|eapply IH; exact Hc].
  eapply Forall_impl; [|apply consec_bounds; exact Hc]. cbv beta. intros g [? ?]. lia.
Qed.

Definition fr_ok (f : frame) : Prop := frame_check f = None.

Lemma check_order_consec fs : forall l prev,
  consec l fs -> Forall fr_ok fs ->
  (prev = None \/ exists p, prev = Some p /\ l = p + 1) ->
  check_order H prev fs = Ok tt.
Proof.
  induction fs as [|f fs IH]; intros l prev Hc Ho Hp; [reflexivity|].
  destruct Hc as [Hf Hc]. inversion Ho as [|? ? Hf0 Ho']; subst.
  cbn [check_order]. unfold fr_ok in Hf0. rewrite Hf0.
  destruct Hp as [->|(p & -> & Hl)].
  - eapply IH; eauto.
  - replace (f_lsn f =? p + 1) with true by (symmetry; apply N.eqb_eq; lia).
    eapply IH; eauto.
Qed.

Lemma validate_order_consec l fs : consec l fs -> Forall fr_ok fs -> validate_order H fs = Ok tt.
Proof.
  intros Hc Ho. unfold validate_order. rewrite sort_by_sorted by (eapply consec_inc; exact Hc).
  eapply check_order_consec; eauto.
Qed.

(* ------------------------------------------------------------------ what validate_tx = Ok says *)
Lemma check_tx_frames_ok c fs : forall i,
  check_tx_frames H c i fs = Ok tt ->
  consec (c_first c + i) fs /\ Forall fr_ok fs /\ Forall (fun f => f_tx f = c_tx c) fs.
Proof.
  induction fs as [|f fs IH]; intros i Hc; [repeat split; constructor|].
  cbn [check_tx_frames] in Hc.
  destruct (frame_check f) eqn:Ef; [discriminate|].
  destruct (f_tx f =? c_tx c) eqn:Et; cbn [negb] in Hc; [|discriminate].
  destruct (f_epoch f =? c_epoch c) eqn:Ee; cbn [negb] in Hc; [|discriminate].
  destruct (f_idx f =? i) eqn:Ei; cbn [negb] in Hc; [|discriminate].
  destruct (f_lsn f =? c_first c + i) eqn:El; cbn [negb] in Hc; [|discriminate].
  apply IH in Hc. destruct Hc as (Hc & Ho & Ht).
  apply N.eqb_eq in Et, El.
  cbn [consec]. replace (c_first c + i + 1) with (c_first c + (i + 1)) by lia.
  repeat split; auto.
Qed.

Lemma last_consec l fs d : consec l fs -> fs <> [] -> f_lsn (last fs d) + 1 = l + lenN fs.
Proof.
  revert l; induction fs as [|f fs IH]; intros l Hc Hn; [congruence|].
  destruct Hc as [Hf Hc]. destruct fs as [|g fs].
  - cbn [last]. rewrite lenN_cons. unfold lenN. cbn. lia.
  - change (last (f :: g :: fs) d) with (last (g :: fs) d).
    rewrite (IH (l + 1)) by (auto; discriminate). rewrite (lenN_cons f). lia.
Qed.

Lemma tx_valid_shape t : tx_valid t ->
  let c := w_commit t in let fs := w_frames t in
  fs <> [] /\ consec (c_first c) fs /\ Forall fr_ok fs /\ Forall (fun f => f_tx f = c_tx c) fs /\
  c_last c + 1 = c_first c + lenN fs.
Proof.
  intros (_ & _ & Hv). cbv zeta. unfold Wal.validate_tx in Hv.
  destruct (w_frames t) as [|f0 fs] eqn:Efs; [discriminate|].
  rewrite <- Efs in *.
  destruct (f_lsn f0 =? c_first (w_commit t)) eqn:E1; cbn [negb] in Hv; [|discriminate].
  destruct (f_lsn (last (w_frames t) f0) =? c_last (w_commit t)) eqn:E2; cbn [negb] in Hv; [|discriminate].
  destruct (lenN (w_frames t) =? c_count (w_commit t)) eqn:E3; cbn [negb] in Hv; [|discriminate].
  destruct (check_tx_frames H (w_commit t) 0 (w_frames t)) as [[]|] eqn:E4; [|discriminate].
  apply check_tx_frames_ok in E4. rewrite N.add_0_r in E4. destruct E4 as (Hc & Ho & Ht).
  assert (Hn : w_frames t <> []) by (rewrite Efs; discriminate).
  repeat split; auto.
  apply N.eqb_eq in E2. rewrite <- E2. apply last_consec; auto.
Qed.

(* ------------------------------------------------------------------ logs *)
Lemma log_frames_app a b : log_frames (a ++ b) = log_frames a ++ log_frames b.
Proof. unfold log_frames. apply flat_map_app. Qed.
Lemma log_frames_cons t b : log_frames (t :: b) = w_frames t ++ log_frames b.
Proof. reflexivity. Qed.

Lemma log_valid_cons l0 t r : log_valid l0 (t :: r) <->
  tx_valid t /\ c_first (w_commit t) = l0 /\ log_valid (c_last (w_commit t) + 1) r.
Proof.
  unfold Wal.log_valid. cbn [chain_from]. split.
  - intros [Hf (Hc & Hr)]. inversion Hf; subst. tauto.
  - intros (Ht & Hc & Hf & Hr). split; [constructor; auto|auto].
Qed.

Lemma log_valid_consec ts : forall l0, log_valid l0 ts ->
  consec l0 (log_frames ts) /\ Forall fr_ok (log_frames ts).
Proof.
  induction ts as [|t ts IH]; intros l0 Hv; [split; [exact I|constructor]|].
  apply log_valid_cons in Hv. destruct Hv as (Ht & Hc & Hr).
  destruct (tx_valid_shape t Ht) as (Hn & Hcs & Ho & _ & Hl).
  destruct (IH _ Hr) as [Hc' Ho'].
  rewrite log_frames_cons. split.
  - apply consec_app. rewrite <- Hc. split; [exact Hcs|]. rewrite <- Hl. exact Hc'.
  - apply Forall_app. auto.
Qed.

Lemma log_valid_app a b l0 : log_valid l0 (a ++ b) ->
  log_valid l0 a /\ log_valid (l0 + lenN (log_frames a)) b.
Proof.
  revert l0; induction a as [|t a IH]; intros l0 Hv.
  - cbn [app log_frames flat_map]. unfold lenN. cbn. rewrite N.add_0_r.
    split; [split; [constructor|exact I]|exact Hv].
  - cbn [app] in Hv. apply log_valid_cons in Hv. destruct Hv as (Ht & Hc & Hr).
    destruct (IH _ Hr) as [Ha Hb].
    destruct (tx_valid_shape t Ht) as (_ & _ & _ & _ & Hl).
    split; [apply log_valid_cons; auto|].
    rewrite log_frames_cons, lenN_app.
    replace (l0 + (lenN (w_frames t) + lenN (log_frames a)))
      with (c_last (w_commit t) + 1 + lenN (log_frames a)) by lia.
    exact Hb.
Qed.

(* the frames of transaction t are exactly what the commit marker of t selects from the whole log *)
Lemma tx_frames_select l0 a t b extra :
  log_valid l0 (a ++ t :: b) -> consec (l0 + lenN (log_frames (a ++ t :: b))) extra ->
  tx_frames (log_frames (a ++ t :: b) ++ extra) (w_commit t) = w_frames t.
Proof.
  intros Hv He.
  destruct (log_valid_app a (t :: b) l0 Hv) as [Ha Htb].
  apply log_valid_cons in Htb. destruct Htb as (Ht & Hf & Hb).
  destruct (tx_valid_shape t Ht) as (Hn & Hcs & Ho & Htx & Hl).
  destruct (log_valid_consec _ _ Ha) as [Hca _].
  destruct (log_valid_consec _ _ Hb) as [Hcb _].
  set (c := w_commit t) in *.
  rewrite log_frames_app, log_frames_cons in *.
  rewrite !lenN_app in He.
  unfold tx_frames. rewrite <- !app_assoc, !filter_app.
  rewrite (filter_none _ (log_frames a)), (filter_all _ (w_frames t)),
          (filter_none _ (log_frames b)), (filter_none _ extra).
  - cbn [app]. apply app_nil_r.
  - eapply Forall_impl; [|apply consec_bounds; exact He]. cbn. intros f [Hlo _].
    apply andb_false_iff. right. apply N.leb_gt. lia.
  - eapply Forall_impl; [|apply consec_bounds; exact Hcb]. cbn. intros f [Hlo _].
    apply andb_false_iff. right. apply N.leb_gt. lia.
  - pose proof (consec_bounds _ _ Hcs) as Hb1.
    rewrite Forall_forall in *. intros f Hin.
    specialize (Hb1 f Hin). specialize (Htx f Hin). cbn in Hb1.
    rewrite Htx, N.eqb_refl. cbn [andb].
    apply andb_true_iff. split; [apply N.leb_le|apply N.leb_le]; lia.
  - eapply Forall_impl; [|apply consec_bounds; exact Hca]. cbn. intros f [_ Hhi].
    apply andb_false_iff. left. apply andb_false_iff. right. apply N.leb_gt. lia.
Qed.

Lemma tx_frames_in l0 ts t extra :
  log_valid l0 ts -> consec (l0 + lenN (log_frames ts)) extra -> In t ts ->
  tx_frames (log_frames ts ++ extra) (w_commit t) = w_frames t.
Proof.
  intros Hv He Hin. destruct (in_split _ _ Hin) as (a & b & E). subst ts.
  apply (tx_frames_select l0); auto.
Qed.

(* ------------------------------------------------------------------ main theorem *)
Theorem recover_fc_selected l0 ts extra sel :
  log_valid l0 ts -> consec (l0 + lenN (log_frames ts)) extra -> Forall fr_ok extra ->
  incl sel ts ->
  recover_fc H (log_frames ts ++ extra) (map w_commit sel) =
  Ok (map rtx_of sel, fc_tail (log_frames ts ++ extra) (map w_commit sel)).
Proof.
  intros Hv He Hoe Hin.
  unfold recover_fc.
  destruct (log_valid_consec _ _ Hv) as [Hc Ho].
  rewrite (validate_order_consec l0).
  2:{ apply consec_app. split; [exact Hc|exact He]. }
  2:{ apply Forall_app. split; auto. }
  assert (Hrc : recover_commits H (log_frames ts ++ extra) (map w_commit sel) = Ok (map rtx_of sel)).
  { induction sel as [|t sel IH]; [reflexivity|].
    cbn [map recover_commits].
    assert (Ht : In t ts) by (apply Hin; left; reflexivity).
    rewrite (tx_frames_in l0) by auto.
    destruct Hv as [Hall _]. rewrite Forall_forall in Hall.
    destruct (Hall t Ht) as (_ & _ & Hvt). rewrite Hvt.
    rewrite IH; [reflexivity|].
    intros x Hx. apply Hin. right. exact Hx. }
  rewrite Hrc. reflexivity.
Qed.

(* ------------------------------------------------------------------ tails *)
Lemma last_commit_lsn_snoc cs c : last_commit_lsn (cs ++ [c]) = Some (c_last c).
Proof. unfold last_commit_lsn. rewrite rev_app_distr. reflexivity. Qed.
Lemma last_commit_lsn_app cs cs' : cs' <> [] -> last_commit_lsn (cs ++ cs') = last_commit_lsn cs'.
Proof.
  intros Hn. destruct (exists_last Hn) as (x & c & ->).
  rewrite app_assoc, !last_commit_lsn_snoc. reflexivity.
Qed.

Lemma log_valid_last l0 ts t : log_valid l0 (ts ++ [t]) ->
  c_last (w_commit t) + 1 = l0 + lenN (log_frames (ts ++ [t])).
Proof.
  intros Hv. destruct (log_valid_app _ _ _ Hv) as [_ Ht].
  apply log_valid_cons in Ht. destruct Ht as (Htv & Hf & _).
  destruct (tx_valid_shape t Htv) as (_ & _ & _ & _ & Hl).
  rewrite log_frames_app, lenN_app, log_frames_cons. cbn [log_frames flat_map]. rewrite app_nil_r. lia.
Qed.

Lemma fc_tail_log l0 ts extra :
  log_valid l0 ts -> consec (l0 + lenN (log_frames ts)) extra ->
  fc_tail (log_frames ts ++ extra) (map w_commit ts) = expected_tail ts extra.
Proof.
  intros Hv He. unfold fc_tail, expected_tail.
  destruct (log_valid_consec _ _ Hv) as [Hc _].
  destruct ts as [|t0 ts0] using rev_ind.
  - cbn [map log_frames flat_map app]. unfold last_commit_lsn. cbn [rev].
    destruct extra; reflexivity.
  - clear IHts0. rewrite map_app. cbn [map]. rewrite last_commit_lsn_snoc.
    pose proof (log_valid_last _ _ _ Hv) as Hl.
    rewrite existsb_app.
    rewrite (existsb_none _ (log_frames (ts0 ++ [t0]))).
    2:{ eapply Forall_impl; [|apply consec_bounds; exact Hc]. cbv beta. intros f [_ Hhi].
        apply N.ltb_ge. lia. }
    cbn [orb]. destruct extra as [|e extra]; [reflexivity|].
    destruct He as [He _]. cbn [existsb].
    replace (c_last (w_commit t0) <? f_lsn e) with true by (symmetry; apply N.ltb_lt; lia).
    reflexivity.
Qed.

(* C10: the whole committed log, followed by any uncommitted frames, recovers to exactly the
   committed transactions, with the tail posture that names the uncommitted part *)
Theorem recover_fc_log l0 ts extra :
  log_valid l0 ts -> consec (l0 + lenN (log_frames ts)) extra -> Forall fr_ok extra ->
  recover_fc H (log_frames ts ++ extra) (map w_commit ts) = Ok (map rtx_of ts, expected_tail ts extra).
Proof.
  intros Hv He Ho. rewrite (recover_fc_selected l0) by (auto using incl_refl).
  rewrite (fc_tail_log l0) by auto. reflexivity.
Qed.

(* C11 (F7), universally: removing the commit marker of any transaction that is not the last one is
   accepted - the transaction silently disappears and the tail is reported Clean *)
Theorem commit_removal_accepted l0 a t b :
  log_valid l0 (a ++ t :: b) -> b <> [] ->
  recover_fc H (log_frames (a ++ t :: b)) (map w_commit (a ++ b)) = Ok (map rtx_of (a ++ b), TClean).
Proof.
  intros Hv Hb.
  pose proof (recover_fc_selected l0 (a ++ t :: b) [] (a ++ b) Hv) as R.
  rewrite app_nil_r in R. rewrite R; [|exact I|constructor|].
  2:{ intros x Hx. apply in_app_or in Hx. apply in_or_app. destruct Hx; [left|right; right]; auto. }
  f_equal. f_equal.
  pose proof (fc_tail_log l0 (a ++ t :: b) [] Hv) as T. rewrite app_nil_r in T.
  unfold fc_tail in *. rewrite !map_app in *. cbn [map] in T.
  rewrite last_commit_lsn_app by (destruct b; [congruence|discriminate]).
  rewrite last_commit_lsn_app in T by discriminate.
  change (w_commit t :: map w_commit b) with ([w_commit t] ++ map w_commit b) in T.
  rewrite last_commit_lsn_app in T by (destruct b; [congruence|discriminate]).
  apply T. exact I.
Qed.

(* ... a commit marker that occurs twice yields the transaction twice ... *)
Theorem commit_duplicate_accepted l0 a t b :
  log_valid l0 (a ++ t :: b) ->
  recover_fc H (log_frames (a ++ t :: b)) (map w_commit (a ++ t :: t :: b)) =
  Ok (map rtx_of (a ++ t :: t :: b), TClean).
Proof.
  intros Hv.
  pose proof (recover_fc_selected l0 (a ++ t :: b) [] (a ++ t :: t :: b) Hv) as R.
  rewrite app_nil_r in R. rewrite R; [|exact I|constructor|].
  2:{ intros x Hx. apply in_app_or in Hx. apply in_or_app.
      destruct Hx as [Hx|[Hx|Hx]]; [left; auto|right; left; auto|right; auto]. }
  f_equal. f_equal.
  pose proof (fc_tail_log l0 (a ++ t :: b) [] Hv) as T. rewrite app_nil_r in T.
  unfold fc_tail in *. rewrite !map_app in *. cbn [map] in *.
  rewrite last_commit_lsn_app by discriminate.
  rewrite last_commit_lsn_app in T by discriminate.
  change (w_commit t :: w_commit t :: map w_commit b)
    with ([w_commit t] ++ w_commit t :: map w_commit b).
  rewrite last_commit_lsn_app by discriminate.
  apply T. exact I.
Qed.

(* ... and two adjacent commit markers in the wrong order yield the transactions in the wrong order *)
Theorem commit_swap_accepted l0 a t1 t2 b :
  log_valid l0 (a ++ t1 :: t2 :: b) -> b <> [] ->
  recover_fc H (log_frames (a ++ t1 :: t2 :: b)) (map w_commit (a ++ t2 :: t1 :: b)) =
  Ok (map rtx_of (a ++ t2 :: t1 :: b), TClean).
Proof.
  intros Hv Hb.
  pose proof (recover_fc_selected l0 (a ++ t1 :: t2 :: b) [] (a ++ t2 :: t1 :: b) Hv) as R.
  rewrite app_nil_r in R. rewrite R; [|exact I|constructor|].
  2:{ intros x Hx. apply in_app_or in Hx. apply in_or_app.
      destruct Hx as [Hx|[Hx|[Hx|Hx]]]; [left; auto|right; right; left; auto|right; left; auto|right; right; right; auto]. }
  f_equal. f_equal.
  pose proof (fc_tail_log l0 (a ++ t1 :: t2 :: b) [] Hv) as T. rewrite app_nil_r in T.
  unfold fc_tail in *. rewrite !map_app in *. cbn [map] in *.
  assert (Hmb : map w_commit b <> []) by (destruct b; [congruence|discriminate]).
  change (w_commit t2 :: w_commit t1 :: map w_commit b)
    with ([w_commit t2; w_commit t1] ++ map w_commit b).
  change (w_commit t1 :: w_commit t2 :: map w_commit b)
    with ([w_commit t1; w_commit t2] ++ map w_commit b) in T.
  rewrite app_assoc, last_commit_lsn_app by exact Hmb.
  rewrite app_assoc, last_commit_lsn_app in T by exact Hmb.
  apply T. exact I.
Qed.

End WithHash.

(* ------------------------------------------------------------------ a concrete log (non-vacuity) *)
(* A deliberately weak "hash" - the theorems hold for every function. *)
Definition exH (p : bytes) : N := fold_left (fun a b => a * 131 + b + 7) p 1.
Definition exP (i : N) : tx_params :=
  {| p_epoch := 5; p_seg := 1; p_tx := 100 + i; p_txkind := 1; p_codec := 2; p_schema := 3;
     p_domain := 4; p_dur := 1; p_froot := 9 |}.
(* previous-frame / previous-commit digests are deliberately constant: nothing reads them *)
Definition ex_t1 : wtx := mk_tx exH (exP 1) 0 77 78 [(1, [1; 2]); (2, [])].
Definition ex_t2 : wtx := mk_tx exH (exP 2) 2 77 78 [(6, [7])].
Definition ex_t3 : wtx := mk_tx exH (exP 3) 3 77 78 [(1, [9; 9; 9]); (22, [0])].
Definition ex_log : list wtx := [ex_t1; ex_t2; ex_t3].

Lemma ex_tx_valid : Forall (tx_valid exH) ex_log.
Proof.
  repeat constructor; try (vm_compute; reflexivity).
Qed.
Lemma ex_log_valid : log_valid exH 0 ex_log.
Proof. split; [exact ex_tx_valid|]. vm_compute. repeat split; reflexivity. Qed.
