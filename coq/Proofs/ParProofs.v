(* Lemmas about the parallel-execution part of Model/Tick.v (C02, C14): every shard policy is
   invisible after the merge; a poisoning item fails the tick under every schedule. *)
From Coq Require Import List Arith NArith Lia Bool Permutation.
From Echo Require Import Model.Sched Model.Tick Proofs.TickProofs.
Import ListNotations.
Open Scope N_scope.

Lemma per_shard_concat shards :
  concat (map (flat_map c_ops) (filter (fun s => negb (is_nil s)) shards)) = flat_map c_ops (concat shards).
Proof.
  induction shards as [|s shards IH]; cbn; [reflexivity|].
  rewrite flat_map_app. destruct s as [|c s]; cbn; [exact IH|].
  rewrite IH. reflexivity.
Qed.

Theorem policy_perm p shards workers assign : (0 < workers)%nat ->
  Permutation (concat (policy_deltas p shards workers assign)) (flat_map c_ops (concat shards)).
Proof.
  intros Hw. destruct p; cbn [policy_deltas];
    try (apply schedule_perm; exact Hw); rewrite per_shard_concat; apply Permutation_refl.
Qed.

Theorem policy_invisible p q shards w1 w2 a1 a2 : (0 < w1)%nat -> (0 < w2)%nat ->
  merge (concat (policy_deltas p shards w1 a1)) = merge (concat (policy_deltas q shards w2 a2)).
Proof.
  intros H1 H2. apply merge_perm.
  eapply perm_trans; [apply policy_perm; exact H1|apply Permutation_sym, policy_perm; exact H2].
Qed.

(* ---------- poison ---------- *)

Section PoisonProofs.
  Variable bad : cand -> bool.

  Definition dead (o : option (list mop)) : bool := match o with None => true | Some _ => false end.

  Lemma poisoned_cons o ws : poisoned (o :: ws) = dead o || poisoned ws.
  Proof. reflexivity. Qed.

  Lemma poisoned_set_nth ws w x d :
    nth w ws None = Some d -> poisoned ws = true -> poisoned (set_nth w x ws) = true.
  Proof.
    revert w; induction ws as [|o ws IH]; intros w Hn Hp; [discriminate|].
    rewrite poisoned_cons in Hp.
    destruct w as [|w]; cbn [set_nth nth] in *; rewrite poisoned_cons.
    - subst o. cbn [dead orb] in Hp. rewrite Hp. apply orb_true_r.
    - apply orb_true_iff in Hp. destruct Hp as [Hp|Hp]; [rewrite Hp; reflexivity|].
      rewrite (IH w Hn Hp). apply orb_true_r.
  Qed.

  Lemma poisoned_set_nth_none ws w : (w < length ws)%nat -> poisoned (set_nth w None ws) = true.
  Proof.
    revert w; induction ws as [|o ws IH]; intros w Hw; cbn [length] in Hw; [lia|].
    destruct w as [|w]; cbn [set_nth]; rewrite poisoned_cons; [reflexivity|].
    rewrite IH by lia. apply orb_true_r.
  Qed.

  Lemma poisoned_false_set_some ws w d :
    poisoned ws = false -> poisoned (set_nth w (Some d) ws) = false.
  Proof.
    revert w; induction ws as [|o ws IH]; intros w Hp; [destruct w; reflexivity|].
    rewrite poisoned_cons in Hp. apply orb_false_iff in Hp. destruct Hp as [Ho Hp].
    destruct w as [|w]; cbn [set_nth]; rewrite poisoned_cons; [exact Hp|].
    rewrite Ho, IH by exact Hp. reflexivity.
  Qed.

  Lemma set_nth_length {A} (ws : list A) w x : length (set_nth w x ws) = length ws.
  Proof. revert w; induction ws as [|o ws IH]; intros [|w]; cbn; auto. Qed.

  Lemma dead_stays_dead units : forall assign ws,
    poisoned ws = true -> poisoned (run_poison bad units assign ws) = true.
  Proof.
    induction units as [|u us IH]; intros assign ws Hp; cbn; [exact Hp|].
    destruct (first_live ws _ _) as [w|]; [|exact Hp].
    destruct (nth w ws None) as [d|] eqn:Hn; [|exact Hp].
    apply IH. eapply poisoned_set_nth; eauto.
  Qed.

  Lemma all_live_nth ws i : poisoned ws = false -> (i < length ws)%nat -> exists d, nth i ws None = Some d.
  Proof.
    revert i; induction ws as [|o ws IH]; intros i Hp Hi; cbn in Hi; [lia|].
    rewrite poisoned_cons in Hp. apply orb_false_iff in Hp. destruct Hp as [Ho Hp].
    destruct i as [|i]; cbn.
    - destruct o; [eauto|discriminate].
    - apply IH; [exact Hp|lia].
  Qed.

  Lemma first_live_all_live ws start fuel :
    poisoned ws = false -> (0 < length ws)%nat -> (0 < fuel)%nat ->
    first_live ws start fuel = Some (Nat.modulo start (length ws)).
  Proof.
    intros Hp Hl Hf. destruct fuel as [|f]; [lia|]. cbn.
    destruct (all_live_nth ws (Nat.modulo start (length ws)) Hp) as [d Hd].
    - apply Nat.mod_upper_bound. lia.
    - rewrite Hd. reflexivity.
  Qed.

  Lemma exec_items_bad u : forall d, (exists c, In c u /\ bad c = true) -> exec_items bad u d = None.
  Proof.
    induction u as [|c u IH]; intros d [x [Hx Hb]]; [destruct Hx|].
    cbn. destruct (bad c) eqn:E; [reflexivity|].
    apply IH. destruct Hx as [->|Hx]; [congruence|eauto].
  Qed.

  Lemma poison_reaches units : forall assign ws,
    (0 < length ws)%nat ->
    (exists u c, In u units /\ In c u /\ bad c = true) ->
    poisoned (run_poison bad units assign ws) = true.
  Proof.
    induction units as [|u us IH]; intros assign ws Hl (u0 & c & Hu & Hc & Hb); [destruct Hu|].
    destruct (poisoned ws) eqn:Hp; [apply dead_stays_dead; exact Hp|].
    cbn [run_poison].
    rewrite (first_live_all_live ws _ (length ws) Hp Hl Hl).
    set (w := Nat.modulo _ (length ws)).
    assert (Hw : (w < length ws)%nat) by (apply Nat.mod_upper_bound; lia).
    destruct (all_live_nth ws w Hp Hw) as [d Hd]. rewrite Hd.
    destruct (exec_items bad u d) as [d'|] eqn:E.
    - apply IH; [rewrite set_nth_length; exact Hl|].
      destruct Hu as [->|Hu]; [|eauto].
      rewrite (exec_items_bad u0 d) in E by eauto. discriminate.
    - apply dead_stays_dead. apply poisoned_set_nth_none. exact Hw.
  Qed.

  (* A violating item anywhere fails the whole tick, for every worker count and claim order. *)
  Theorem poison_total units workers assign :
    (0 < workers)%nat ->
    (exists u c, In u units /\ In c u /\ bad c = true) ->
    run_enforced bad units workers assign = Failed.
  Proof.
    intros Hw Hex. unfold run_enforced.
    rewrite poison_reaches; [reflexivity| |exact Hex].
    rewrite repeat_length. exact Hw.
  Qed.

  (* ... and only then: with no violating item no schedule fails. *)
  Lemma no_poison_live units : forall assign ws,
    (forall u c, In u units -> In c u -> bad c = false) ->
    poisoned ws = false -> poisoned (run_poison bad units assign ws) = false.
  Proof.
    induction units as [|u us IH]; intros assign ws Hg Hp; cbn; [exact Hp|].
    destruct (first_live ws _ _) as [w|]; [|exact Hp].
    destruct (nth w ws None) as [d|] eqn:Hn; [|exact Hp].
    assert (E : exists d', exec_items bad u d = Some d').
    { assert (Hu : forall c, In c u -> bad c = false) by (intros c Hc; apply (Hg u c); [left; reflexivity|exact Hc]).
      clear - Hu. revert d. induction u as [|c u IH]; intros d; cbn; [eauto|].
      rewrite (Hu c (or_introl eq_refl)). apply IH. intros; apply Hu; right; assumption. }
    destruct E as [d' ->]. apply IH.
    - intros u1 c1 Hu1 Hc1. apply (Hg u1 c1); [right; exact Hu1|exact Hc1].
    - apply poisoned_false_set_some; exact Hp.
  Qed.

  Theorem honest_never_fails units workers assign :
    (forall u c, In u units -> In c u -> bad c = false) ->
    exists ds, run_enforced bad units workers assign = Deltas ds.
  Proof.
    intros Hg. unfold run_enforced.
    rewrite no_poison_live; [eauto|exact Hg|].
    clear. induction workers; cbn; auto.
  Qed.
End PoisonProofs.
