(* Lemmas about Model/Patch.v (C04). *)
From Coq Require Import List NArith Lia Bool Permutation Sorted.
From Echo Require Import Base.FinMap Base.Order Model.Patch.
Import ListNotations.
Open Scope N_scope.

(* ------------------------------------------------------------------ *)
(* failures are never swallowed *)

Lemma apply_loop_app st t pre post :
  apply_loop st t (pre ++ post) =
  match apply_loop st t pre with
  | Ok (st', t') => apply_loop st' t' post
  | Err e => Err e
  end.
Proof.
  revert st t; induction pre as [|o pre IH]; intros st t; cbn [app apply_loop]; [reflexivity|].
  destruct (apply_op st o); [apply IH|reflexivity].
Qed.

Lemma apply_op_err_propagates pre o post a s t e :
  apply_loop a false pre = Ok (s, t) -> apply_op s o = Err e ->
  apply_ops (pre ++ o :: post) a = Err e.
Proof.
  intros Hpre Ho. unfold apply_ops. rewrite apply_loop_app, Hpre. cbn [apply_loop]. rewrite Ho. reflexivity.
Qed.

Lemma apply_ops_ok_iff ops a s :
  apply_ops ops a = Ok s <->
  exists t, apply_loop a false ops = Ok (s, t) /\ (t = true -> validate_portal_invariants s = Ok tt).
Proof.
  unfold apply_ops. destruct (apply_loop a false ops) as [[s' t]|e].
  - destruct t.
    + destruct (validate_portal_invariants s') as [[]|e] eqn:V.
      * split; [intros H; inversion H; subst; exists true; split; auto|].
        intros [t [H _]]; inversion H; subst; reflexivity.
      * split; [discriminate|]. intros [t [H Hv]]. inversion H; subst.
        specialize (Hv eq_refl). congruence.
    + split; [intros H; inversion H; subst; exists false; split; [reflexivity|discriminate]|].
      intros [t [H _]]; inversion H; subst; reflexivity.
  - split; [discriminate|]. intros [t [H _]]; discriminate.
Qed.

(* ------------------------------------------------------------------ *)
(* witnesses (replayed on the implementation by corpus/C04) *)

(* F1: edge 9 moves from source node 1 to source node 2 and keeps its atom attachment *)
Definition w1_before : state :=
  mk_state [(1, mk_store [(1,7);(2,7);(3,7)] [(9,(1,3,8))] [] [(9, Atom 5 [1;2])])] [(1,(1,None))].
Definition w1_after : state :=
  mk_state [(1, mk_store [(1,7);(2,7);(3,7)] [(9,(2,3,8))] [] [(9, Atom 5 [1;2])])] [(1,(1,None))].
Definition w1_third : state :=
  mk_state [(1, mk_store [(1,7);(2,7);(3,7)] [(9,(2,3,8))] [] [])] [(1,(1,None))].

(* edge 9 (1 -> 3) is re-targeted to node 2 while node 3 is deleted *)
Definition w2_before : state :=
  mk_state [(1, mk_store [(1,7);(2,7);(3,7)] [(9,(1,3,8))] [] [])] [(1,(1,None))].
Definition w2_after : state :=
  mk_state [(1, mk_store [(1,7);(2,7)] [(9,(1,2,8))] [] [])] [(1,(1,None))].
Definition w2_ops : list op := [DeleteEdge 1 1 9; DeleteNode 1 3; UpsertEdge 1 9 1 2 8].

(* a portal into new instance 4 is opened on node 2, which is created in the same tick *)
Definition w3_before : state := mk_state [(1, mk_store [(1,7)] [] [] [])] [(1,(1,None))].
Definition w3_after : state :=
  mk_state [(1, mk_store [(1,7);(2,7)] [] [(2, Descend 4)] []); (4, mk_store [(5,6)] [] [] [])]
           [(1,(1,None)); (4,(5,Some (node_alpha 1 2)))].
Definition w3_ops : list op :=
  [UpsertWI 4 5 (Some (node_alpha 1 2)); UpsertNode 1 2 7; UpsertNode 4 5 6; SetAtt (node_alpha 1 2) (Some (Descend 4))].

Lemma w1_facts :
  wfb w1_before = true /\ wfb w1_after = true /\
  apply_ops [UpsertEdge 1 9 2 3 8] w1_before = Ok w1_after /\
  diff w1_before w1_after = [DeleteEdge 1 1 9; UpsertEdge 1 9 2 3 8] /\
  apply_ops (diff w1_before w1_after) w1_before = Ok w1_third /\ w1_third <> w1_after.
Proof. repeat split; try (vm_compute; reflexivity). discriminate. Qed.

Lemma w2_facts :
  wfb w2_before = true /\ wfb w2_after = true /\
  apply_ops (patch_new w2_ops) w2_before = Ok w2_after /\
  diff w2_before w2_after = [DeleteNode 1 3; UpsertEdge 1 9 1 2 8] /\
  apply_ops (diff w2_before w2_after) w2_before = Err (NodeNotIsolated 1 3).
Proof. repeat split; vm_compute; reflexivity. Qed.

Lemma w3_facts :
  wfb w3_before = true /\ wfb w3_after = true /\
  apply_ops (patch_new w3_ops) w3_before = Ok w3_after /\
  diff w3_before w3_after = [OpenPortal (node_alpha 1 2) 4 5 (Some 6); UpsertNode 1 2 7] /\
  apply_ops (diff w3_before w3_after) w3_before = Err (MissingNode 1 2).
Proof. repeat split; vm_compute; reflexivity. Qed.
