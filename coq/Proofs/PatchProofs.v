(* Lemmas about Model/Patch.v (C04). *)
From Coq Require Import List NArith Lia Bool Permutation Sorted.
From Echo Require Import Base.FinMap Base.Order Model.Patch.
Import ListNotations.
Open Scope N_scope.

(* ------------------------------------------------------------------ *)
(* failures are never swallowed *)

Lemma apply_loop_app st t pre post :
  apply_loop st t (pre ++ post) =
  match apply_loop st t pre with
  | Ok (st', t') => apply_loop st' t' post
  | Err e => Err e
  end.
Proof.
  revert st t; induction pre as [|o pre IH]; intros st t; cbn [app apply_loop]; [reflexivity|].
  destruct (apply_op st o); [apply IH|reflexivity].
Qed.

Lemma apply_op_err_propagates pre o post a s t e :
  apply_loop a false pre = Ok (s, t) -> apply_op s o = Err e ->
  apply_ops (pre ++ o :: post) a = Err e.
Proof.
  intros Hpre Ho. unfold apply_ops. rewrite apply_loop_app, Hpre. cbn [apply_loop]. rewrite Ho. reflexivity.
Qed.

Lemma apply_ops_ok_iff ops a s :
  apply_ops ops a = Ok s <->
  exists t, apply_loop a false ops = Ok (s, t) /\ (t = true -> validate_portal_invariants s = Ok tt).
Proof.
  unfold apply_ops. destruct (apply_loop a false ops) as [[s' t]|e].
  - destruct t.
    + destruct (validate_portal_invariants s') as [[]|e] eqn:V.
      * split; [intros H; inversion H; subst; exists true; split; auto|].
        intros [t [H _]]; inversion H; subst; reflexivity.
      * split; [discriminate|]. intros [t [H Hv]]. inversion H; subst.
        specialize (Hv eq_refl). congruence.
    + split; [intros H; inversion H; subst; exists false; split; [reflexivity|discriminate]|].
      intros [t [H _]]; inversion H; subst; reflexivity.
  - split; [discriminate|]. intros [t [H _]]; discriminate.
Qed.

(* ------------------------------------------------------------------ *)
(* N-keyed sorted maps *)

Definition Neq := ol_eq _ N_order.
Definition Nas := ol_antisym _ N_order.
Definition Ntr := ol_trans _ N_order.

Section NMap.
  Context {V : Type}.
  Implicit Types (m : list (N * V)).

  Lemma nf_set k k' v m : nfind k' (nset k v m) = if k' =? k then Some v else nfind k' m.
  Proof.
    destruct (N.eqb_spec k' k) as [->|Hne].
    - apply find_set_same; exact Neq.
    - apply find_set_other; [exact Neq|exact Hne].
  Qed.

  Lemma nf_del k k' m : nsorted m -> nfind k' (ndel k m) = if k' =? k then None else nfind k' m.
  Proof.
    intros Hs. destruct (N.eqb_spec k' k) as [->|Hne].
    - apply find_del_same; [exact Neq|exact Ntr|exact Hs].
    - apply find_del_other; [exact Neq|exact Hne].
  Qed.

  Lemma ns_set k v m : nsorted m -> nsorted (nset k v m).
  Proof. apply set_sorted; [exact Neq|exact Nas]. Qed.

  Lemma ns_del k m : nsorted m -> nsorted (ndel k m).
  Proof. apply del_sorted; exact Ntr. Qed.

  Lemma n_ext m1 m2 : nsorted m1 -> nsorted m2 -> (forall k, nfind k m1 = nfind k m2) -> m1 = m2.
  Proof. apply sorted_ext; [exact Neq|exact Nas|exact Ntr]. Qed.

  Lemma nf_in k v m : nfind k m = Some v -> In (k, v) m.
  Proof. apply find_in; exact Neq. Qed.

  Lemma n_in_f k v m : nsorted m -> In (k, v) m -> nfind k m = Some v.
  Proof. apply in_find; [exact Neq|exact Nas|exact Ntr]. Qed.

  Lemma nf_opt_set k k' (v : option V) m :
    nsorted m -> nfind k' (opt_set k v m) = if k' =? k then v else nfind k' m.
  Proof. intros Hs. destruct v; cbn [opt_set]; [apply nf_set|apply nf_del, Hs]. Qed.

  Lemma ns_opt_set k (v : option V) m : nsorted m -> nsorted (opt_set k v m).
  Proof. intros Hs. destruct v; cbn [opt_set]; [apply ns_set|apply ns_del]; exact Hs. Qed.

  Lemma nmem_find k m : nmem k m = match nfind k m with Some _ => true | None => false end.
  Proof. reflexivity. Qed.

  Lemma nmem_set k k' v m : nmem k' (nset k v m) = (k' =? k) || nmem k' m.
  Proof. unfold mem. rewrite nf_set. destruct (k' =? k); reflexivity. Qed.

  Lemma nmem_del k k' m : nsorted m -> nmem k' (ndel k m) = negb (k' =? k) && nmem k' m.
  Proof. intros Hs. unfold mem. rewrite nf_del by exact Hs. destruct (k' =? k); reflexivity. Qed.

  Lemma nsorted_NoDup m : nsorted m -> NoDup (map fst m).
  Proof.
    induction m as [|[k v] r IH]; cbn; intros Hs; [constructor|].
    destruct Hs as [Hlb Hs]. constructor; [|auto].
    intros Hin. apply in_map_iff in Hin. destruct Hin as [[k' v'] [E Hin]]. cbn in E; subst k'.
    pose proof (lb_all N.compare Ntr k r Hs Hlb k v' Hin) as H.
    rewrite N.compare_refl in H. discriminate.
  Qed.
End NMap.

(* ------------------------------------------------------------------ *)
(* boolean equalities *)

Lemma list_eqb_spec a b : list_eqb a b = true <-> a = b.
Proof.
  revert b; induction a as [|x a IH]; destruct b as [|y b]; cbn; try (split; [reflexivity|reflexivity] || split; discriminate).
  rewrite andb_true_iff, N.eqb_eq, IH. split; [intros [-> ->]; reflexivity|intros H; inversion H; auto].
Qed.

Lemma att_eqb_spec a b : att_eqb a b = true <-> a = b.
Proof.
  destruct a as [t d|x], b as [t' d'|x']; cbn; try (split; discriminate).
  - rewrite andb_true_iff, N.eqb_eq, list_eqb_spec. split; [intros [-> ->]; reflexivity|intros H; inversion H; auto].
  - rewrite N.eqb_eq. split; [intros ->; reflexivity|intros H; inversion H; auto].
Qed.

Lemma akey_eqb_spec a b : akey_eqb a b = true <-> a = b.
Proof.
  destruct a as [e1 b1 w1 i1], b as [e2 b2 w2 i2]; unfold akey_eqb; cbn.
  rewrite !andb_true_iff, !eqb_true_iff, !N.eqb_eq.
  split; [intros [[[-> ->] ->] ->]; reflexivity|intros H; inversion H; auto].
Qed.

Lemma opt_eqb_spec {A} (eqb : A -> A -> bool) :
  (forall x y, eqb x y = true <-> x = y) -> forall a b, opt_eqb eqb a b = true <-> a = b.
Proof.
  intros H [x|] [y|]; cbn; try (split; [reflexivity|reflexivity] || split; discriminate).
  rewrite H. split; [intros ->; reflexivity|intros E; inversion E; auto].
Qed.

Lemma erec_eqb_spec a b : erec_eqb a b = true <-> a = b.
Proof.
  destruct a as [[f t] y], b as [[f' t'] y']; unfold erec_eqb, e_from, e_to, e_ty; cbn.
  rewrite !andb_true_iff, !N.eqb_eq. split; [intros [[-> ->] ->]; reflexivity|intros H; inversion H; auto].
Qed.

Lemma imeta_eqb_spec a b : imeta_eqb a b = true <-> a = b.
Proof.
  destruct a as [r p], b as [r' p']; unfold imeta_eqb; cbn.
  rewrite andb_true_iff, N.eqb_eq, (opt_eqb_spec akey_eqb akey_eqb_spec).
  split; [intros [-> ->]; reflexivity|intros H; inversion H; auto].
Qed.

Lemma att_eqb_refl a : att_eqb a a = true.
Proof. apply att_eqb_spec; reflexivity. Qed.
Lemma akey_eqb_refl a : akey_eqb a a = true.
Proof. apply akey_eqb_spec; reflexivity. Qed.

Lemma att_eqb_false a b : att_eqb a b = false <-> a <> b.
Proof. rewrite <- att_eqb_spec. destruct (att_eqb a b); split; congruence. Qed.
Lemma akey_eqb_false a b : akey_eqb a b = false <-> a <> b.
Proof. rewrite <- akey_eqb_spec. destruct (akey_eqb a b); split; congruence. Qed.

(* ------------------------------------------------------------------ *)
(* structural invariant kept by every op: canonical maps, stores and instances in step *)


Lemma WFs_split st : WFs st <-> Struct st /\ Owned st.
Proof.
  unfold WFs, Struct, Owned. split.
  - intros (H1 & H2 & H3 & H4). split; [split; [exact H1|split; [exact H2|split; [exact H3|]]]|].
    + intros w s Hs. exact (proj1 (H4 w s Hs)).
    + intros w s Hs. exact (proj2 (H4 w s Hs)).
  - intros ((H1 & H2 & H3 & H4) & H5). split; [exact H1|split; [exact H2|split; [exact H3|]]].
    intros w s Hs. split; [exact (H4 w s Hs)|exact (H5 w s Hs)].
Qed.

Lemma empty_store_sorted : store_sorted empty_store.
Proof. repeat split. Qed.

Lemma sync_store_inst st w : Struct st -> (get_store st w = None <-> get_inst st w = None).
Proof.
  intros (_ & _ & Hsync & _). specialize (Hsync w). unfold get_store, get_inst, mem in *.
  destruct (nfind w (st_stores st)), (nfind w (st_insts st)); split; intros; congruence.
Qed.

Lemma Struct_put_store st w s s0 :
  Struct st -> get_store st w = Some s0 -> store_sorted s -> Struct (put_store st w s).
Proof.
  intros (H1 & H2 & H3 & H4) Hg Hs. unfold put_store. split; [|split; [|split]]; cbn.
  - apply ns_set, H1.
  - exact H2.
  - intros w'. rewrite nmem_set, <- H3. destruct (N.eqb_spec w' w) as [->|]; cbn; [|reflexivity].
    unfold mem. unfold get_store in Hg. rewrite Hg. reflexivity.
  - intros w' s'. unfold get_store; cbn. rewrite nf_set. destruct (N.eqb_spec w' w) as [->|].
    + intros E; inversion E; subst; exact Hs.
    + apply H4.
Qed.

Lemma Struct_upsert_instance st w m s :
  Struct st -> store_sorted s -> Struct (upsert_instance st w m s).
Proof.
  intros (H1 & H2 & H3 & H4) Hs. unfold upsert_instance. split; [|split; [|split]]; cbn.
  - apply ns_set, H1.
  - apply ns_set, H2.
  - intros w'. rewrite !nmem_set, H3. reflexivity.
  - intros w' s'. unfold get_store; cbn. rewrite nf_set. destruct (N.eqb_spec w' w) as [->|].
    + intros E; inversion E; subst; exact Hs.
    + apply H4.
Qed.

Lemma insert_node_sorted s n ty : store_sorted s -> store_sorted (insert_node s n ty).
Proof. intros (A & B & C & D). repeat split; cbn; auto. apply ns_set, A. Qed.
Lemma upsert_edge_sorted s e r : store_sorted s -> store_sorted (upsert_edge s e r).
Proof. intros (A & B & C & D). repeat split; cbn; auto. apply ns_set, B. Qed.
Lemma set_node_att_sorted s n v : store_sorted s -> store_sorted (set_node_att s n v).
Proof. intros (A & B & C & D). repeat split; cbn; auto. apply ns_opt_set, C. Qed.
Lemma set_edge_att_sorted s e v : store_sorted s -> store_sorted (set_edge_att s e v).
Proof. intros (A & B & C & D). repeat split; cbn; auto. apply ns_opt_set, D. Qed.

Lemma delete_node_isolated_sorted s n s' :
  store_sorted s -> delete_node_isolated s n = DnOk s' -> store_sorted s'.
Proof.
  intros (A & B & C & D). unfold delete_node_isolated.
  destruct (nfind n (s_nodes s)); [|discriminate]. destruct (existsb _ _); [discriminate|].
  intros E; inversion E; subst. repeat split; cbn; auto; apply ns_del; auto.
Qed.

Lemma delete_edge_exact_sorted s f e s' :
  store_sorted s -> delete_edge_exact s f e = Some s' -> store_sorted s'.
Proof.
  intros (A & B & C & D). unfold delete_edge_exact.
  destruct (nfind e (s_edges s)); [|discriminate]. destruct (_ =? _); [|discriminate].
  intros E; inversion E; subst. repeat split; cbn; auto; apply ns_del; auto.
Qed.

Lemma Struct_store st w s : Struct st -> get_store st w = Some s -> store_sorted s.
Proof. intros (_ & _ & _ & H). apply H. Qed.

Lemma ensure_child_root_Struct st cw cr init st' :
  Struct st -> ensure_child_root st cw cr init = Ok st' -> Struct st'.
Proof.
  intros HS. unfold ensure_child_root. destruct (get_store st cw) as [s|] eqn:G; [|discriminate].
  destruct init as [ty|].
  - destruct (nfind cr (s_nodes s)) as [ty'|].
    + destruct (ty' =? ty); [|discriminate]. intros E; inversion E; subst; exact HS.
    + intros E; inversion E; subst. eapply Struct_put_store; eauto.
      apply insert_node_sorted. eapply Struct_store; eauto.
  - destruct (nfind cr (s_nodes s)); [|discriminate]. intros E; inversion E; subst; exact HS.
Qed.

Lemma set_att_raw_Struct st pw k v st' :
  Struct st -> set_att_raw st pw k v = Ok st' -> Struct st'.
Proof.
  intros HS. unfold set_att_raw. destruct (get_store st pw) as [s|] eqn:G; [|discriminate].
  intros E; inversion E; subst. eapply Struct_put_store; eauto.
  pose proof (Struct_store _ _ _ HS G).
  destruct (ak_edge k); [apply set_edge_att_sorted|apply set_node_att_sorted]; auto.
Qed.

Lemma Struct_delete_instance st w :
  Struct st -> Struct (mk_state (ndel w (st_stores st)) (ndel w (st_insts st))).
Proof.
  intros (H1 & H2 & H3 & H4). split; [|split; [|split]]; cbn.
  - apply ns_del, H1.
  - apply ns_del, H2.
  - intros w'. rewrite !nmem_del by assumption. rewrite H3. reflexivity.
  - intros w' s'. unfold get_store; cbn. rewrite nf_del by assumption.
    destruct (w' =? w); [discriminate|]. apply H4.
Qed.

Lemma apply_op_Struct st o st' : Struct st -> apply_op st o = Ok st' -> Struct st'.
Proof.
  intros HS. destruct o as [k cw cr init|w root parent|w|w n ty|w n|w e f t ty|w f e|k v]; cbn [apply_op].
  - unfold apply_open_portal, bind. destruct (validate_owner st k) as [pw|]; [|discriminate].
    destruct (get_inst st cw) as [m|].
    + destruct (_ || _); [discriminate|].
      destruct (ensure_child_root st cw cr init) as [st1|] eqn:E1; [|discriminate].
      intros E. eapply set_att_raw_Struct; [|exact E]. eapply ensure_child_root_Struct; eauto.
    + destruct init as [ty|]; [|discriminate].
      intros E. eapply set_att_raw_Struct; [|exact E]. apply Struct_upsert_instance; auto.
      apply insert_node_sorted, empty_store_sorted.
  - intros E; inversion E; subst. apply Struct_upsert_instance; auto.
    destruct (get_store st w) eqn:G; [eapply Struct_store; eauto|apply empty_store_sorted].
  - destruct (get_inst st w); [|discriminate]. intros E; inversion E; subst. apply Struct_delete_instance, HS.
  - destruct (get_store st w) as [s|] eqn:G; [|discriminate]. intros E; inversion E; subst.
    eapply Struct_put_store; eauto. apply insert_node_sorted. eapply Struct_store; eauto.
  - destruct (get_store st w) as [s|] eqn:G; [|discriminate].
    destruct (delete_node_isolated s n) as [s'| |] eqn:D; try discriminate.
    intros E; inversion E; subst. eapply Struct_put_store; eauto.
    eapply delete_node_isolated_sorted; eauto. eapply Struct_store; eauto.
  - destruct (get_store st w) as [s|] eqn:G; [|discriminate]. intros E; inversion E; subst.
    eapply Struct_put_store; eauto. apply upsert_edge_sorted. eapply Struct_store; eauto.
  - destruct (get_store st w) as [s|] eqn:G; [|discriminate].
    destruct (delete_edge_exact s f e) as [s'|] eqn:D; [|discriminate].
    intros E; inversion E; subst. eapply Struct_put_store; eauto.
    eapply delete_edge_exact_sorted; eauto. eapply Struct_store; eauto.
  - unfold apply_set_att. destruct (negb (plane_valid k)); [discriminate|].
    destruct (get_store st (ak_warp k)) as [s|] eqn:G; [|discriminate].
    pose proof (Struct_store _ _ _ HS G) as Hss.
    destruct (ak_edge k).
    + destruct (has_edge s (ak_id k)); [|discriminate]. intros E; inversion E; subst.
      eapply Struct_put_store; eauto. apply set_edge_att_sorted, Hss.
    + destruct (nfind (ak_id k) (s_nodes s)); [|discriminate]. intros E; inversion E; subst.
      eapply Struct_put_store; eauto. apply set_node_att_sorted, Hss.
Qed.

Lemma apply_loop_Struct ops : forall st t st' t',
  Struct st -> apply_loop st t ops = Ok (st', t') -> Struct st'.
Proof.
  induction ops as [|o ops IH]; intros st t st' t' HS; cbn [apply_loop].
  - intros E; inversion E; subst; exact HS.
  - destruct (apply_op st o) as [st1|] eqn:E1; [|discriminate].
    apply IH. eapply apply_op_Struct; eauto.
Qed.

Lemma apply_ops_loop ops a s : apply_ops ops a = Ok s -> exists t, apply_loop a false ops = Ok (s, t).
Proof. intros H. apply apply_ops_ok_iff in H. destruct H as [t [H _]]. eauto. Qed.

Lemma apply_ops_Struct ops a s : Struct a -> apply_ops ops a = Ok s -> Struct s.
Proof. intros HS H. apply apply_ops_loop in H. destruct H as [t H]. eapply apply_loop_Struct; eauto. Qed.

(* ------------------------------------------------------------------ *)
(* slots: a state seen as a function from slots to values *)

Inductive slot :=
| SInst (w : N) | SNode (w n : N) | SEdge (w e : N) | SNatt (w n : N) | SEatt (w e : N).
Inductive sval := VInst (m : imeta) | VNode (ty : N) | VEdge (r : erec) | VAtt (v : att).

Definition slot_warp (sl : slot) : N :=
  match sl with SInst w | SNode w _ | SEdge w _ | SNatt w _ | SEatt w _ => w end.

Definition slot_eqb (a b : slot) : bool :=
  match a, b with
  | SInst w, SInst w' => w =? w'
  | SNode w n, SNode w' n' | SEdge w n, SEdge w' n' | SNatt w n, SNatt w' n' | SEatt w n, SEatt w' n' =>
      (w =? w') && (n =? n')
  | _, _ => false
  end.

Lemma slot_eqb_spec a b : slot_eqb a b = true <-> a = b.
Proof.
  destruct a, b; cbn; try (split; discriminate);
    rewrite ?andb_true_iff, ?N.eqb_eq;
    (split; [intros; repeat match goal with H : _ /\ _ |- _ => destruct H end; subst; reflexivity
            |intros H; inversion H; auto]).
Qed.

Lemma slot_eqb_refl a : slot_eqb a a = true.
Proof. apply slot_eqb_spec; reflexivity. Qed.

Lemma slot_eqb_false a b : slot_eqb a b = false <-> a <> b.
Proof. rewrite <- slot_eqb_spec. destruct (slot_eqb a b); split; congruence. Qed.

Definition slook (s : store) (sl : slot) : option sval :=
  match sl with
  | SInst _ => None
  | SNode _ n => option_map VNode (nfind n (s_nodes s))
  | SEdge _ e => option_map VEdge (nfind e (s_edges s))
  | SNatt _ n => option_map VAtt (nfind n (s_natt s))
  | SEatt _ e => option_map VAtt (nfind e (s_eatt s))
  end.

Definition look (st : state) (sl : slot) : option sval :=
  match sl with
  | SInst w => option_map VInst (get_inst st w)
  | _ => match get_store st (slot_warp sl) with Some s => slook s sl | None => None end
  end.

Definition att_slot (k : akey) : slot :=
  if ak_edge k then SEatt (ak_warp k) (ak_id k) else SNatt (ak_warp k) (ak_id k).

(* what an op writes: [Some c] = the slot becomes [c]; [None] = untouched *)
Definition wr (o : op) (sl : slot) : option (option sval) :=
  match o with
  | OpenPortal k cw cr (Some ty) =>
      if slot_eqb sl (SInst cw) then Some (Some (VInst (cr, Some k)))
      else if slot_eqb sl (SNode cw cr) then Some (Some (VNode ty))
      else if slot_eqb sl (att_slot k) then Some (Some (VAtt (Descend cw)))
      else None
  | OpenPortal _ _ _ None => None
  | UpsertWI w r p => if slot_eqb sl (SInst w) then Some (Some (VInst (r, p))) else None
  | DeleteWI w => if slot_warp sl =? w then Some None else None
  | UpsertNode w n ty => if slot_eqb sl (SNode w n) then Some (Some (VNode ty)) else None
  | DeleteNode w n => if slot_eqb sl (SNode w n) || slot_eqb sl (SNatt w n) then Some None else None
  | UpsertEdge w e f t ty => if slot_eqb sl (SEdge w e) then Some (Some (VEdge (f, t, ty))) else None
  | DeleteEdge w f e => if slot_eqb sl (SEdge w e) || slot_eqb sl (SEatt w e) then Some None else None
  | SetAtt k v => if slot_eqb sl (att_slot k) then Some (option_map VAtt v) else None
  end.

Definition upd (o : op) (f : slot -> option sval) (sl : slot) : option sval :=
  match wr o sl with Some c => c | None => f sl end.

(* two structurally sound states with the same slot values are equal *)
Lemma option_map_inj {A B} (f : A -> B) : (forall x y, f x = f y -> x = y) ->
  forall a b, option_map f a = option_map f b -> a = b.
Proof. intros Hi [x|] [y|]; cbn; intros E; inversion E; auto. f_equal; auto. Qed.

Lemma look_ext s1 s2 : Struct s1 -> Struct s2 -> (forall sl, look s1 sl = look s2 sl) -> s1 = s2.
Proof.
  intros HS1 HS2 Hl.
  pose proof HS1 as (A1 & B1 & C1 & D1). pose proof HS2 as (A2 & B2 & C2 & D2).
  assert (Hi : st_insts s1 = st_insts s2).
  { apply n_ext; auto. intros w. specialize (Hl (SInst w)). cbn in Hl.
    apply (option_map_inj VInst) in Hl; [exact Hl|]. intros x y E; inversion E; auto. }
  assert (Hs : st_stores s1 = st_stores s2).
  { apply n_ext; auto. intros w.
    pose proof (sync_store_inst s1 w HS1) as Y1. pose proof (sync_store_inst s2 w HS2) as Y2.
    unfold get_inst in *. rewrite <- Hi in Y2. unfold get_store in *.
    destruct (nfind w (st_stores s1)) as [x1|] eqn:E1, (nfind w (st_stores s2)) as [x2|] eqn:E2.
    - f_equal. destruct (D1 w x1 E1) as (a1 & b1 & c1 & d1). destruct (D2 w x2 E2) as (a2 & b2 & c2 & d2).
      destruct x1 as [n1 e1 na1 ea1], x2 as [n2 e2 na2 ea2]; cbn in *. f_equal.
      + apply n_ext; auto. intros n. specialize (Hl (SNode w n)). cbn in Hl. unfold get_store in Hl.
        rewrite E1, E2 in Hl. cbn in Hl. apply (option_map_inj VNode) in Hl; auto. intros x y E; inversion E; auto.
      + apply n_ext; auto. intros n. specialize (Hl (SEdge w n)). cbn in Hl. unfold get_store in Hl.
        rewrite E1, E2 in Hl. cbn in Hl. apply (option_map_inj VEdge) in Hl; auto. intros x y E; inversion E; auto.
      + apply n_ext; auto. intros n. specialize (Hl (SNatt w n)). cbn in Hl. unfold get_store in Hl.
        rewrite E1, E2 in Hl. cbn in Hl. apply (option_map_inj VAtt) in Hl; auto. intros x y E; inversion E; auto.
      + apply n_ext; auto. intros n. specialize (Hl (SEatt w n)). cbn in Hl. unfold get_store in Hl.
        rewrite E1, E2 in Hl. cbn in Hl. apply (option_map_inj VAtt) in Hl; auto. intros x y E; inversion E; auto.
    - exfalso. destruct Y2 as [Y2 _]. specialize (Y2 eq_refl). destruct Y1 as [_ Y1]. specialize (Y1 Y2). discriminate.
    - exfalso. destruct Y1 as [Y1 _]. specialize (Y1 eq_refl). destruct Y2 as [_ Y2]. specialize (Y2 Y1). discriminate.
    - reflexivity. }
  destruct s1, s2; cbn in *; subst; reflexivity.
Qed.

(* look after replacing one store *)
Lemma look_put_store st w s sl :
  look (put_store st w s) sl =
  match sl with
  | SInst _ => look st sl
  | _ => if slot_warp sl =? w then slook s sl else look st sl
  end.
Proof.
  destruct sl; cbn; try reflexivity; unfold get_store; cbn; rewrite nf_set;
    destruct (N.eqb_spec w0 w); reflexivity.
Qed.

Lemma look_store st sl s :
  get_store st (slot_warp sl) = Some s -> look st sl = match sl with SInst _ => look st sl | _ => slook s sl end.
Proof. destruct sl; cbn; intros E; try reflexivity; rewrite E; reflexivity. Qed.

Ltac eqb_cases :=
  repeat match goal with
         | |- context [?a =? ?b] => destruct (N.eqb_spec a b); subst
         | H : context [?a =? ?b] |- _ => destruct (N.eqb_spec a b); subst
         end.

(* store-level effects *)
Lemma slook_insert_node s n ty sl :
  slook (insert_node s n ty) sl =
  match sl with SNode _ n' => if n' =? n then Some (VNode ty) else slook s sl | _ => slook s sl end.
Proof. destruct sl; cbn; try reflexivity. rewrite nf_set. destruct (n0 =? n); reflexivity. Qed.

Lemma slook_upsert_edge s e r sl :
  slook (upsert_edge s e r) sl =
  match sl with SEdge _ e' => if e' =? e then Some (VEdge r) else slook s sl | _ => slook s sl end.
Proof. destruct sl; cbn; try reflexivity. rewrite nf_set. destruct (e0 =? e); reflexivity. Qed.

Lemma slook_set_node_att s n v sl : store_sorted s ->
  slook (set_node_att s n v) sl =
  match sl with SNatt _ n' => if n' =? n then option_map VAtt v else slook s sl | _ => slook s sl end.
Proof.
  intros (_ & _ & C & _). destruct sl; cbn; try reflexivity. rewrite nf_opt_set by exact C.
  destruct (n0 =? n); reflexivity.
Qed.

Lemma slook_set_edge_att s e v sl : store_sorted s ->
  slook (set_edge_att s e v) sl =
  match sl with SEatt _ e' => if e' =? e then option_map VAtt v else slook s sl | _ => slook s sl end.
Proof.
  intros (_ & _ & _ & D). destruct sl; cbn; try reflexivity. rewrite nf_opt_set by exact D.
  destruct (e0 =? e); reflexivity.
Qed.

Lemma slook_delete_node s n s' sl : store_sorted s -> delete_node_isolated s n = DnOk s' ->
  slook s' sl =
  match sl with
  | SNode _ n' | SNatt _ n' => if n' =? n then None else slook s sl
  | _ => slook s sl
  end.
Proof.
  intros (A & _ & C & _). unfold delete_node_isolated.
  destruct (nfind n (s_nodes s)); [|discriminate]. destruct (existsb _ _); [discriminate|].
  intros E; inversion E; subst. destruct sl; cbn; try reflexivity; rewrite nf_del by assumption;
    match goal with |- context [?x =? ?y] => destruct (x =? y) end; reflexivity.
Qed.

Lemma slook_delete_edge s f e s' sl : store_sorted s -> delete_edge_exact s f e = Some s' ->
  slook s' sl =
  match sl with
  | SEdge _ e' | SEatt _ e' => if e' =? e then None else slook s sl
  | _ => slook s sl
  end.
Proof.
  intros (_ & B & _ & D). unfold delete_edge_exact.
  destruct (nfind e (s_edges s)); [|discriminate]. destruct (_ =? _); [|discriminate].
  intros E; inversion E; subst. destruct sl; cbn; try reflexivity; rewrite nf_del by assumption;
    match goal with |- context [?x =? ?y] => destruct (x =? y) end; reflexivity.
Qed.

(* side condition under which OpenPortal has a state independent effect: it creates its child *)
Definition port_side (st : state) (o : op) : Prop :=
  match o with
  | OpenPortal _ cw _ init => get_inst st cw = None /\ init <> None
  | _ => True
  end.

Lemma look_no_store st sl : get_store st (slot_warp sl) = None ->
  match sl with SInst _ => True | _ => look st sl = None end.
Proof. destruct sl; cbn; intros E; try exact I; rewrite E; reflexivity. Qed.

Lemma look_upsert_instance st w m s sl :
  look (upsert_instance st w m s) sl =
  match sl with
  | SInst w' => if w' =? w then Some (VInst m) else look st sl
  | _ => if slot_warp sl =? w then slook s sl else look st sl
  end.
Proof.
  destruct sl; cbn; unfold get_inst, get_store; cbn; rewrite nf_set;
    destruct (N.eqb_spec w0 w); reflexivity.
Qed.

Lemma slook_empty sl : slook empty_store sl = None.
Proof. destruct sl; reflexivity. Qed.

Lemma validate_owner_ok st k pw : validate_owner st k = Ok pw ->
  pw = ak_warp k /\ plane_valid k = true /\
  exists s, get_store st pw = Some s /\
            (if ak_edge k then has_edge s (ak_id k) = true else nmem (ak_id k) (s_nodes s) = true).
Proof.
  unfold validate_owner. destruct (plane_valid k); cbn; [|discriminate].
  destruct (get_store st (ak_warp k)) as [s|] eqn:G; [|discriminate].
  destruct (ak_edge k).
  - destruct (has_edge s (ak_id k)) eqn:H; [|discriminate]. intros E; inversion E; subst. eauto 6.
  - unfold mem. destruct (nfind (ak_id k) (s_nodes s)) eqn:H; [|discriminate].
    intros E; inversion E; subst. split; [reflexivity|split; [reflexivity|]]. exists s. rewrite H. auto.
Qed.

Ltac slot_cases sl :=
  destruct sl; cbn [wr slot_eqb slot_warp att_slot look slook orb andb]; eqb_cases;
  cbn [orb andb]; try reflexivity; try congruence.

Lemma apply_op_effect st o st' : Struct st -> port_side st o -> apply_op st o = Ok st' ->
  forall sl, look st' sl = upd o (look st) sl.
Proof.
  intros HS Hside.
  destruct o as [k cw cr init|w root parent|w|w n ty|w n|w e f t ty|w f e|k v]; cbn [apply_op]; unfold upd.
  - (* OpenPortal *)
    destruct Hside as [Hni Hinit]. destruct init as [ty|]; [|congruence].
    unfold apply_open_portal, bind. destruct (validate_owner st k) as [pw|] eqn:V; [|discriminate].
    apply validate_owner_ok in V. destruct V as (-> & Hpl & sp & Gp & Hown).
    rewrite Hni. unfold set_att_raw.
    assert (Hne : ak_warp k <> cw).
    { intros E0. rewrite E0 in Gp. apply (sync_store_inst st cw HS) in Hni. congruence. }
    assert (Gc : get_store st cw = None) by (apply (sync_store_inst st cw HS); exact Hni).
    assert (G1 : get_store (upsert_instance st cw (cr, Some k) (insert_node empty_store cr ty)) (ak_warp k) = Some sp).
    { unfold get_store, upsert_instance; cbn. rewrite nf_set. destruct (N.eqb_spec (ak_warp k) cw); [contradiction|exact Gp]. }
    rewrite G1. intros E; inversion E; subst st'. clear E. intros sl.
    pose proof (Struct_store _ _ _ HS Gp) as Hss.
    rewrite look_put_store, look_upsert_instance.
    destruct (ak_edge k) eqn:Ek.
    + destruct sl; cbn [wr slot_eqb slot_warp]; unfold att_slot; rewrite ?Ek; cbn [slot_eqb slot_warp];
        rewrite ?slook_set_edge_att by exact Hss; rewrite ?slook_insert_node, ?slook_empty;
        eqb_cases; cbn [andb orb]; try reflexivity; try congruence;
        try (cbn [look slot_warp slook]; rewrite ?Gp, ?Gc; reflexivity).
    + destruct sl; cbn [wr slot_eqb slot_warp]; unfold att_slot; rewrite ?Ek; cbn [slot_eqb slot_warp];
        rewrite ?slook_set_node_att by exact Hss; rewrite ?slook_insert_node, ?slook_empty;
        eqb_cases; cbn [andb orb]; try reflexivity; try congruence;
        try (cbn [look slot_warp slook]; rewrite ?Gp, ?Gc; reflexivity).
  - (* UpsertWI *)
    intros E; inversion E; subst st'. clear E. intros sl. rewrite look_upsert_instance.
    destruct (get_store st w) as [s|] eqn:G.
    + destruct sl; cbn [wr slot_eqb slot_warp look slook]; eqb_cases; cbn [andb]; try reflexivity;
        try (cbn [look slot_warp]; rewrite G; reflexivity).
    + destruct sl; cbn [wr slot_eqb slot_warp look slook]; eqb_cases; cbn [andb]; try reflexivity;
        try (cbn [look slot_warp]; rewrite G; reflexivity).
  - (* DeleteWI *)
    destruct (get_inst st w) eqn:Gi; [|discriminate]. intros E; inversion E; subst st'. clear E.
    destruct HS as (A & B & _ & _).
    intros sl. destruct sl; cbn [wr slot_warp look]; unfold get_inst, get_store; cbn;
      rewrite nf_del by assumption; eqb_cases; reflexivity.
  - (* UpsertNode *)
    destruct (get_store st w) as [s|] eqn:G; [|discriminate]. intros E; inversion E; subst st'. clear E.
    intros sl. rewrite look_put_store.
    destruct sl; cbn [wr slot_eqb slot_warp]; rewrite ?slook_insert_node; eqb_cases; cbn [andb];
      try reflexivity; try congruence; try (cbn [look slot_warp]; rewrite G; reflexivity).
  - (* DeleteNode *)
    destruct (get_store st w) as [s|] eqn:G; [|discriminate].
    destruct (delete_node_isolated s n) as [s'| |] eqn:D; try discriminate.
    intros E; inversion E; subst st'. clear E. pose proof (Struct_store _ _ _ HS G) as Hss.
    intros sl. rewrite look_put_store.
    destruct sl; cbn [wr slot_eqb slot_warp]; rewrite ?(slook_delete_node _ _ _ _ Hss D); eqb_cases;
      cbn [andb orb]; try reflexivity; try congruence; try (cbn [look slot_warp]; rewrite G; reflexivity).
  - (* UpsertEdge *)
    destruct (get_store st w) as [s|] eqn:G; [|discriminate]. intros E; inversion E; subst st'. clear E.
    intros sl. rewrite look_put_store.
    destruct sl; cbn [wr slot_eqb slot_warp]; rewrite ?slook_upsert_edge; eqb_cases; cbn [andb];
      try reflexivity; try congruence; try (cbn [look slot_warp]; rewrite G; reflexivity).
  - (* DeleteEdge *)
    destruct (get_store st w) as [s|] eqn:G; [|discriminate].
    destruct (delete_edge_exact s f e) as [s'|] eqn:D; try discriminate.
    intros E; inversion E; subst st'. clear E. pose proof (Struct_store _ _ _ HS G) as Hss.
    intros sl. rewrite look_put_store.
    destruct sl; cbn [wr slot_eqb slot_warp]; rewrite ?(slook_delete_edge _ _ _ _ _ Hss D); eqb_cases;
      cbn [andb orb]; try reflexivity; try congruence; try (cbn [look slot_warp]; rewrite G; reflexivity).
  - (* SetAtt *)
    unfold apply_set_att. destruct (plane_valid k); cbn [negb]; [|discriminate].
    destruct (get_store st (ak_warp k)) as [s|] eqn:G; [|discriminate].
    pose proof (Struct_store _ _ _ HS G) as Hss.
    destruct (ak_edge k) eqn:Ek.
    + destruct (has_edge s (ak_id k)); [|discriminate]. intros E; inversion E; subst st'. clear E.
      intros sl. rewrite look_put_store.
      destruct sl; cbn [wr slot_eqb slot_warp]; unfold att_slot; rewrite ?Ek; cbn [slot_eqb slot_warp];
        rewrite ?slook_set_edge_att by exact Hss; eqb_cases;
        cbn [andb]; try reflexivity; try congruence; try (cbn [look slot_warp]; rewrite G; reflexivity).
    + destruct (nfind (ak_id k) (s_nodes s)); [|discriminate]. intros E; inversion E; subst st'. clear E.
      intros sl. rewrite look_put_store.
      destruct sl; cbn [wr slot_eqb slot_warp]; unfold att_slot; rewrite ?Ek; cbn [slot_eqb slot_warp];
        rewrite ?slook_set_node_att by exact Hss; eqb_cases;
        cbn [andb]; try reflexivity; try congruence; try (cbn [look slot_warp]; rewrite G; reflexivity).
Qed.

(* ------------------------------------------------------------------ *)
(* a whole op list as a fold of writes *)

Fixpoint fold_wr (l : list op) (f : slot -> option sval) : slot -> option sval :=
  match l with [] => f | o :: r => fold_wr r (upd o f) end.

Lemma fold_wr_app l1 l2 f : fold_wr (l1 ++ l2) f = fold_wr l2 (fold_wr l1 f).
Proof. revert f; induction l1 as [|o l1 IH]; intros f; cbn; auto. Qed.

Lemma fold_wr_ext l : forall f g, (forall sl, f sl = g sl) -> forall sl, fold_wr l f sl = fold_wr l g sl.
Proof.
  induction l as [|o l IH]; intros f g H sl; cbn; auto.
  apply IH. intros sl'. unfold upd. rewrite H. reflexivity.
Qed.

Lemma fold_wr_none l : forall f sl, (forall o, In o l -> wr o sl = None) -> fold_wr l f sl = f sl.
Proof.
  induction l as [|o l IH]; intros f sl H; cbn; auto.
  rewrite IH by (intros o' Hin; apply H; right; exact Hin).
  unfold upd. rewrite (H o (or_introl eq_refl)). reflexivity.
Qed.

(* every OpenPortal in the list creates its child: the instance slot of its child is empty when it runs *)
Definition ports_fresh (l : list op) (f0 : slot -> option sval) : Prop :=
  forall pre k cw cr init post, l = pre ++ OpenPortal k cw cr init :: post ->
    init <> None /\ fold_wr pre f0 (SInst cw) = None.

Lemma apply_loop_effect l : forall st t st' t', Struct st -> ports_fresh l (look st) ->
  apply_loop st t l = Ok (st', t') -> forall sl, look st' sl = fold_wr l (look st) sl.
Proof.
  induction l as [|o l IH]; intros st t st' t' HS Hpf; cbn [apply_loop fold_wr].
  - intros E; inversion E; subst; reflexivity.
  - destruct (apply_op st o) as [st1|] eqn:E1; [|discriminate]. intros E sl.
    assert (Hside : port_side st o).
    { destruct o; cbn; auto. destruct (Hpf [] k child_warp child_root init l eq_refl) as [Hi Hn].
      split; [|exact Hi]. cbn in Hn. destruct (get_inst st child_warp); [discriminate|reflexivity]. }
    pose proof (apply_op_effect st o st1 HS Hside E1) as Heff.
    rewrite (IH st1 (t || touches st o) st' t' (apply_op_Struct _ _ _ HS E1)); [| |exact E].
    + apply fold_wr_ext. exact Heff.
    + intros pre k cw cr init post El. subst l.
      destruct (Hpf (o :: pre) k cw cr init post eq_refl) as [Hi Hn]. split; [exact Hi|].
      cbn [fold_wr] in Hn. rewrite <- Hn. apply fold_wr_ext. exact Heff.
Qed.

(* ------------------------------------------------------------------ *)
(* sorting by sort_key *)

Lemma key_order : OrderLaws key_cmp.
Proof. unfold key_cmp. repeat apply pair_order; apply N_order. Qed.

Definition ople (a b : op) : Prop := key_cmp (sort_key a) (sort_key b) <> Gt.

Lemma cmp_le_trans {K} (c : K -> K -> comparison) (L : OrderLaws c) x y z :
  c x y <> Gt -> c y z <> Gt -> c x z <> Gt.
Proof.
  intros H1 H2. destruct (c x y) eqn:E1; [|clear H1|congruence].
  - apply (ol_eq c L) in E1; subst; exact H2.
  - destruct (c y z) eqn:E2; [|clear H2|congruence].
    + apply (ol_eq c L) in E2; subst. rewrite E1. discriminate.
    + rewrite (ol_trans c L _ _ _ E1 E2). discriminate.
Qed.

Lemma cmp_le_antisym {K} (c : K -> K -> comparison) (L : OrderLaws c) x y :
  c x y <> Gt -> c y x <> Gt -> x = y.
Proof.
  intros H1 H2. rewrite (ol_antisym c L x y) in H2. destruct (c x y) eqn:E; cbn in H2; try congruence.
  apply (ol_eq c L); exact E.
Qed.

Lemma ople_trans a b c : ople a b -> ople b c -> ople a c.
Proof. apply (cmp_le_trans key_cmp key_order). Qed.

Lemma ople_antisym a b : ople a b -> ople b a -> sort_key a = sort_key b.
Proof. apply (cmp_le_antisym key_cmp key_order). Qed.

Lemma key_lt_ople a b : key_cmp (sort_key a) (sort_key b) = Lt -> ople a b.
Proof. unfold ople. intros ->. discriminate. Qed.

Lemma key_lt_not_ople a b : key_cmp (sort_key a) (sort_key b) = Lt -> ~ ople b a.
Proof. unfold ople. intros H. rewrite (ol_antisym _ key_order), H. cbn. auto. Qed.

Lemma insert_op_perm o l : Permutation (o :: l) (insert_op o l).
Proof.
  induction l as [|x r IH]; cbn; [reflexivity|].
  destruct (key_cmp (sort_key o) (sort_key x)); try reflexivity;
    (eapply perm_trans; [apply perm_swap|apply perm_skip, IH]).
Qed.

Lemma sort_ops_perm l : Permutation l (sort_ops l).
Proof.
  induction l as [|x r IH]; cbn; [reflexivity|].
  eapply perm_trans; [apply perm_skip, IH|apply insert_op_perm].
Qed.

Lemma sort_ops_in o l : In o (sort_ops l) <-> In o l.
Proof.
  split; intros H.
  - eapply Permutation_in; [apply Permutation_sym, sort_ops_perm|exact H].
  - eapply Permutation_in; [apply sort_ops_perm|exact H].
Qed.

Lemma insert_op_sorted o l : StronglySorted ople l -> StronglySorted ople (insert_op o l).
Proof.
  induction l as [|x r IH]; cbn; intros HS.
  - constructor; constructor.
  - inversion HS as [|x' r' HSr HF]; subst.
    destruct (key_cmp (sort_key o) (sort_key x)) eqn:E.
    + constructor; [apply IH, HSr|].
      rewrite Forall_forall. intros y Hy.
      apply (Permutation_in _ (Permutation_sym (insert_op_perm o r))) in Hy. destruct Hy as [<-|Hy].
      * unfold ople. rewrite (ol_antisym _ key_order), E. discriminate.
      * rewrite Forall_forall in HF. apply HF, Hy.
    + constructor; [exact HS|]. constructor; [unfold ople; rewrite E; discriminate|].
      rewrite Forall_forall in *. intros y Hy. eapply ople_trans; [|apply HF, Hy].
      unfold ople; rewrite E; discriminate.
    + constructor; [apply IH, HSr|].
      rewrite Forall_forall. intros y Hy.
      apply (Permutation_in _ (Permutation_sym (insert_op_perm o r))) in Hy. destruct Hy as [<-|Hy].
      * unfold ople. rewrite (ol_antisym _ key_order), E. discriminate.
      * rewrite Forall_forall in HF. apply HF, Hy.
Qed.

Lemma sort_ops_sorted l : StronglySorted ople (sort_ops l).
Proof. induction l as [|x r IH]; cbn; [constructor|apply insert_op_sorted, IH]. Qed.

Lemma ssorted_snoc l x : StronglySorted ople (l ++ [x]) ->
  StronglySorted ople l /\ forall y, In y l -> ople y x.
Proof.
  induction l as [|a l IH]; cbn; intros H.
  - split; [constructor|intros y []].
  - inversion H as [|a' l' HS HF]; subst. destruct (IH HS) as [H1 H2]. split.
    + constructor; [exact H1|]. rewrite Forall_forall in *. intros y Hy. apply HF, in_or_app; left; exact Hy.
    + intros y [<-|Hy]; [|apply H2, Hy]. rewrite Forall_forall in HF. apply HF, in_or_app. right; left; reflexivity.
Qed.

(* the value of a slot after a sorted op list is what the writer with the greatest key wrote *)
Lemma fold_wr_last l : forall f sl o c,
  StronglySorted ople l -> In o l -> wr o sl = Some c ->
  (forall o', In o' l -> wr o' sl <> None ->
     ople o' o /\ (sort_key o' = sort_key o -> wr o' sl = Some c)) ->
  fold_wr l f sl = c.
Proof.
  induction l as [|x l IH] using rev_ind; intros f sl o c HS Hin Hw Hmax; [destruct Hin|].
  rewrite fold_wr_app. cbn [fold_wr]. destruct (ssorted_snoc _ _ HS) as [HSl Hle].
  unfold upd. destruct (wr x sl) as [c'|] eqn:Ex.
  - destruct (Hmax x) as [H1 H2]; [apply in_or_app; right; left; reflexivity|congruence|].
    assert (Hox : ople o x).
    { apply in_app_or in Hin. destruct Hin as [Hin|[<-|[]]]; [apply Hle, Hin|].
      unfold ople. rewrite (proj2 (ol_eq _ key_order _ _) eq_refl). discriminate. }
    rewrite (H2 (ople_antisym _ _ H1 Hox)) in Ex. congruence.
  - apply in_app_or in Hin. destruct Hin as [Hin|[<-|[]]]; [|congruence].
    apply (IH f sl o c HSl Hin Hw). intros o' Hin' Hw'. apply Hmax; [apply in_or_app; left; exact Hin'|exact Hw'].
Qed.

(* ------------------------------------------------------------------ *)
(* the three transitions that did not replay before the fixes c24eacb / fd806f7 / 8f26be3
   (replayed on the implementation by corpus/C04) *)

(* F1: edge 9 moves from source node 1 to source node 2 and keeps its atom attachment *)
Definition w1_before : state :=
  mk_state [(1, mk_store [(1,7);(2,7);(3,7)] [(9,(1,3,8))] [] [(9, Atom 5 [1;2])])] [(1,(1,None))].
Definition w1_after : state :=
  mk_state [(1, mk_store [(1,7);(2,7);(3,7)] [(9,(2,3,8))] [] [(9, Atom 5 [1;2])])] [(1,(1,None))].
Definition w1_third : state :=
  mk_state [(1, mk_store [(1,7);(2,7);(3,7)] [(9,(2,3,8))] [] [])] [(1,(1,None))].

(* edge 9 (1 -> 3) is re-targeted to node 2 while node 3 is deleted *)
Definition w2_before : state :=
  mk_state [(1, mk_store [(1,7);(2,7);(3,7)] [(9,(1,3,8))] [] [])] [(1,(1,None))].
Definition w2_after : state :=
  mk_state [(1, mk_store [(1,7);(2,7)] [(9,(1,2,8))] [] [])] [(1,(1,None))].
Definition w2_ops : list op := [DeleteEdge 1 1 9; DeleteNode 1 3; UpsertEdge 1 9 1 2 8].

(* a portal into new instance 4 is opened on node 2, which is created in the same tick *)
Definition w3_before : state := mk_state [(1, mk_store [(1,7)] [] [] [])] [(1,(1,None))].
Definition w3_after : state :=
  mk_state [(1, mk_store [(1,7);(2,7)] [] [(2, Descend 4)] []); (4, mk_store [(5,6)] [] [] [])]
           [(1,(1,None)); (4,(5,Some (node_alpha 1 2)))].
Definition w3_ops : list op :=
  [UpsertWI 4 5 (Some (node_alpha 1 2)); UpsertNode 1 2 7; UpsertNode 4 5 6; SetAtt (node_alpha 1 2) (Some (Descend 4))].

Lemma w1_facts :
  wfb w1_before = true /\ wfb w1_after = true /\
  apply_ops [UpsertEdge 1 9 2 3 8] w1_before = Ok w1_after /\
  diff w1_before w1_after =
    [DeleteEdge 1 1 9; UpsertEdge 1 9 2 3 8; SetAtt (edge_beta 1 9) (Some (Atom 5 [1;2]))] /\
  apply_ops (diff w1_before w1_after) w1_before = Ok w1_after /\ w1_third <> w1_after.
Proof. repeat split; try (vm_compute; reflexivity). discriminate. Qed.

Lemma w2_facts :
  wfb w2_before = true /\ wfb w2_after = true /\
  apply_ops (patch_new w2_ops) w2_before = Ok w2_after /\
  diff w2_before w2_after = [DeleteEdge 1 1 9; DeleteNode 1 3; UpsertEdge 1 9 1 2 8] /\
  apply_ops (diff w2_before w2_after) w2_before = Ok w2_after.
Proof. repeat split; vm_compute; reflexivity. Qed.

Lemma w3_facts :
  wfb w3_before = true /\ wfb w3_after = true /\
  apply_ops (patch_new w3_ops) w3_before = Ok w3_after /\
  diff w3_before w3_after =
    [UpsertWI 4 5 (Some (node_alpha 1 2)); UpsertNode 1 2 7; UpsertNode 4 5 6;
     SetAtt (node_alpha 1 2) (Some (Descend 4))] /\
  apply_ops (diff w3_before w3_after) w3_before = Ok w3_after.
Proof. repeat split; vm_compute; reflexivity. Qed.
