(* Lemmas about Model/ExtAct.v.  Never imported by Model/. *)
From Coq Require Import List NArith Lia Bool.
From Echo Require Import Base.FinMap Base.Order Base.Bytes Model.ExtAct.
Import ListNotations.
Open Scope N_scope.

(* ------------------------------------------------------------------ boolean equalities *)
Lemma bytes_eqb_eq a b : bytes_eqb a b = true <-> a = b.
Proof.
  revert b; induction a as [|x a IH]; destruct b as [|y b]; cbn; try (split; [discriminate|discriminate]); [tauto|].
  rewrite andb_true_iff, N.eqb_eq, IH. split; [intros [-> ->]; reflexivity|intros E; inversion E; auto].
Qed.

Lemma skind_eqb_eq a b : skind_eqb a b = true <-> a = b.
Proof. destruct a, b; cbn; split; intros E; try reflexivity; try discriminate. Qed.

Ltac split_andb :=
  repeat match goal with
  | H : _ && _ = true |- _ => apply andb_true_iff in H; destruct H
  | H : (_ =? _) = true |- _ => apply N.eqb_eq in H
  end.

Lemma request_eqb_eq a b : request_eqb a b = true <-> a = b.
Proof.
  split.
  - destruct a, b; unfold request_eqb; cbn; intros E; split_andb; subst; reflexivity.
  - intros ->. destruct b; unfold request_eqb; cbn. rewrite !N.eqb_refl. reflexivity.
Qed.

Lemma claim_eqb_eq a b : claim_eqb a b = true <-> a = b.
Proof.
  split.
  - destruct a, b; unfold claim_eqb; cbn; intros E; split_andb; subst; reflexivity.
  - intros ->. destruct b; unfold claim_eqb; cbn. rewrite !N.eqb_refl. reflexivity.
Qed.

Lemma settle_eqb_eq a b : settle_eqb a b = true <-> a = b.
Proof.
  split.
  - destruct a, b; unfold settle_eqb; cbn; intros E; split_andb.
    repeat match goal with
    | H : skind_eqb _ _ = true |- _ => apply skind_eqb_eq in H
    | H : bytes_eqb _ _ = true |- _ => apply bytes_eqb_eq in H
    end. subst; reflexivity.
  - intros ->. destruct b; unfold settle_eqb; cbn. rewrite !N.eqb_refl.
    replace (skind_eqb st_kind st_kind) with true by (symmetry; apply skind_eqb_eq; reflexivity).
    replace (bytes_eqb st_bytes st_bytes) with true by (symmetry; apply bytes_eqb_eq; reflexivity).
    reflexivity.
Qed.

Lemma opt_N_eqb_eq a b : opt_N_eqb a b = true <-> a = b.
Proof.
  destruct a, b; cbn; try (split; [discriminate|discriminate]); try tauto.
  rewrite N.eqb_eq. split; [intros ->; reflexivity|intros E; inversion E; reflexivity].
Qed.

Section Proofs.
  Variable H : bytes -> N.
  Variable D : nat.
  Variable EH : list N.

  Notation step := (step H D EH).
  Notation retry := (retry H).
  Notation recover := (recover H D EH).
  Notation observe := (observe H D EH).
  Notation observe_from := (observe_from H D EH).
  Notation apply_record := (apply_record H D EH).
  Notation apply_body := (apply_body H D EH).

  (* ---------------------------------------------------------------- retry *)
  Lemma retry_state s cand : fst (step s (ORetry cand)) = s.
  Proof. reflexivity. Qed.

  Lemma retry_sound s cand st c :
    snd (step s (ORetry cand)) = OutAdmitted st c ->
    exists e, get (co_index (sy_coord s)) (st_request cand) = Some e /\
              e_settlement e = Some st /\ e_settlement_commit e = Some c /\ st = cand.
  Proof.
    cbn [step snd]. unfold ExtAct.retry.
    destruct (negb (co_ready (sy_coord s))); [discriminate|].
    destruct (get (co_index (sy_coord s)) (st_request cand)) as [e|]; [|discriminate].
    destruct (e_claim e) as [cl|]; [|discriminate].
    destruct (validate_candidate H (e_request e) cl cand); [discriminate|].
    destruct (e_settlement e) as [st'|] eqn:Es; [|discriminate].
    destruct (e_settlement_commit e) as [c'|] eqn:Ec; [|discriminate].
    destruct (settle_eqb st' cand) eqn:E; [|discriminate].
    intros Eo; inversion Eo; subst. apply settle_eqb_eq in E.
    exists e. repeat split; auto.
  Qed.

  Lemma retry_complete s cand e cl c :
    co_ready (sy_coord s) = true ->
    get (co_index (sy_coord s)) (st_request cand) = Some e ->
    e_claim e = Some cl -> validate_candidate H (e_request e) cl cand = None ->
    e_settlement e = Some cand -> e_settlement_commit e = Some c ->
    step s (ORetry cand) = (s, OutAdmitted cand c).
  Proof.
    intros Hr Hg Hc Hv Hs Hsc. cbn [step]. unfold ExtAct.retry.
    rewrite Hr, Hg, Hc, Hv, Hs, Hsc. cbn.
    replace (settle_eqb cand cand) with true by (symmetry; apply settle_eqb_eq; reflexivity).
    reflexivity.
  Qed.
End Proofs.
