(* Lemmas about Model/ExtAct.v.  Never imported by Model/. *)
From Coq Require Import List NArith Arith PeanoNat Lia Bool.
From Echo Require Import Base.FinMap Base.Order Base.Bytes Model.ExtAct.
Import ListNotations.
Open Scope N_scope.

(* ------------------------------------------------------------------ boolean equalities *)
Lemma bytes_eqb_eq a b : bytes_eqb a b = true <-> a = b.
Proof.
  revert b; induction a as [|x a IH]; destruct b as [|y b]; cbn; try (split; [discriminate|discriminate]); [tauto|].
  rewrite andb_true_iff, N.eqb_eq, IH. split; [intros [-> ->]; reflexivity|intros E; inversion E; auto].
Qed.

Lemma skind_eqb_eq a b : skind_eqb a b = true <-> a = b.
Proof. destruct a, b; cbn; split; intros E; try reflexivity; try discriminate. Qed.

Ltac split_andb :=
  repeat match goal with
  | H : _ && _ = true |- _ => apply andb_true_iff in H; destruct H
  | H : (_ =? _) = true |- _ => apply N.eqb_eq in H
  end.

Lemma request_eqb_eq a b : request_eqb a b = true <-> a = b.
Proof.
  split.
  - destruct a, b; unfold request_eqb; cbn; intros E; split_andb; subst; reflexivity.
  - intros ->. destruct b; unfold request_eqb; cbn. rewrite !N.eqb_refl. reflexivity.
Qed.

Lemma claim_eqb_eq a b : claim_eqb a b = true <-> a = b.
Proof.
  split.
  - destruct a, b; unfold claim_eqb; cbn; intros E; split_andb; subst; reflexivity.
  - intros ->. destruct b; unfold claim_eqb; cbn. rewrite !N.eqb_refl. reflexivity.
Qed.

Lemma settle_eqb_eq a b : settle_eqb a b = true <-> a = b.
Proof.
  split.
  - destruct a, b; unfold settle_eqb; cbn; intros E; split_andb.
    repeat match goal with
    | H : skind_eqb _ _ = true |- _ => apply skind_eqb_eq in H
    | H : bytes_eqb _ _ = true |- _ => apply bytes_eqb_eq in H
    end. subst; reflexivity.
  - intros ->. destruct b; unfold settle_eqb; cbn. rewrite !N.eqb_refl.
    replace (skind_eqb st_kind st_kind) with true by (symmetry; apply skind_eqb_eq; reflexivity).
    replace (bytes_eqb st_bytes st_bytes) with true by (symmetry; apply bytes_eqb_eq; reflexivity).
    reflexivity.
Qed.

Lemma opt_N_eqb_eq a b : opt_N_eqb a b = true <-> a = b.
Proof.
  destruct a, b; cbn; try (split; [discriminate|discriminate]); try tauto.
  rewrite N.eqb_eq. split; [intros ->; reflexivity|intros E; inversion E; reflexivity].
Qed.

Section Proofs.
  Variable H : bytes -> N.
  Variable D : nat.
  Variable EH : list N.

  Notation step := (step H D EH).
  Notation retry := (retry H).
  Notation recover := (recover H D EH).
  Notation observe := (observe H D EH).
  Notation observe_from := (observe_from H D EH).
  Notation apply_record := (apply_record H D EH).
  Notation apply_body := (apply_body H D EH).

  (* ---------------------------------------------------------------- retry *)
  Lemma retry_state s cand : fst (step s (ORetry cand)) = s.
  Proof. reflexivity. Qed.

  Lemma retry_sound s cand st c :
    snd (step s (ORetry cand)) = OutAdmitted st c ->
    exists e, get (co_index (sy_coord s)) (st_request cand) = Some e /\
              e_settlement e = Some st /\ e_settlement_commit e = Some c /\ st = cand.
  Proof.
    cbn [step snd]. unfold ExtAct.retry.
    destruct (negb (co_ready (sy_coord s))); [discriminate|].
    destruct (get (co_index (sy_coord s)) (st_request cand)) as [e|]; [|discriminate].
    destruct (e_claim e) as [cl|]; [|discriminate].
    destruct (validate_candidate H (e_request e) cl cand); [discriminate|].
    destruct (e_settlement e) as [st'|] eqn:Es; [|discriminate].
    destruct (e_settlement_commit e) as [c'|] eqn:Ec; [|discriminate].
    destruct (settle_eqb st' cand) eqn:E; [|discriminate].
    intros Eo; inversion Eo; subst. apply settle_eqb_eq in E.
    exists e. repeat split; auto.
  Qed.

  Lemma retry_complete s cand e cl c :
    co_ready (sy_coord s) = true ->
    get (co_index (sy_coord s)) (st_request cand) = Some e ->
    e_claim e = Some cl -> validate_candidate H (e_request e) cl cand = None ->
    e_settlement e = Some cand -> e_settlement_commit e = Some c ->
    step s (ORetry cand) = (s, OutAdmitted cand c).
  Proof.
    intros Hr Hg Hc Hv Hs Hsc. cbn [step]. unfold ExtAct.retry.
    rewrite Hr, Hg, Hc, Hv, Hs, Hsc. cbn.
    replace (settle_eqb cand cand) with true by (symmetry; apply settle_eqb_eq; reflexivity).
    reflexivity.
  Qed.

  (* ---------------------------------------------------------------- index lookups *)
  Definition n_eq := ol_eq _ N_order.
  Definition n_as := ol_antisym _ N_order.
  Definition n_tr := ol_trans _ N_order.

  Notation upsert := (upsert H D EH).
  Notation plan_entry := (plan_entry H D EH).

  Lemma get_upsert_same idx e : get (upsert idx e) (rq_id (e_request e)) = Some e.
  Proof. unfold get, ExtAct.upsert, apply_mutation; cbn [ix_entries]. apply find_set_same. exact n_eq. Qed.

  Lemma get_upsert_other idx e k : k <> rq_id (e_request e) -> get (upsert idx e) k = get idx k.
  Proof. intros Hne. unfold get, ExtAct.upsert, apply_mutation; cbn [ix_entries]. apply find_set_other; [exact n_eq|exact Hne]. Qed.

  Lemma get_mut_same idx e ups : get (apply_mutation idx e ups) (rq_id (e_request e)) = Some e.
  Proof. unfold get, apply_mutation; cbn [ix_entries]. apply find_set_same. exact n_eq. Qed.

  Lemma get_mut_other idx e ups k : k <> rq_id (e_request e) -> get (apply_mutation idx e ups) k = get idx k.
  Proof. intros Hne. unfold get, apply_mutation; cbn [ix_entries]. apply find_set_other; [exact n_eq|exact Hne]. Qed.

  Lemma upsert_sorted idx e : sorted N.compare (ix_entries idx) -> sorted N.compare (ix_entries (upsert idx e)).
  Proof. intros Hs. unfold ExtAct.upsert, apply_mutation; cbn [ix_entries]. apply set_sorted; [exact n_eq|exact n_as|exact Hs]. Qed.

  (* ---------------------------------------------------------------- what observe accepts *)
  Definition entry_ok (k : N) (e : entry) : Prop :=
    rq_id (e_request e) = k /\ validate_identity H (e_request e) = None /\
    match e_claim e with
    | None => e_claim_commit e = None /\ e_settlement e = None /\ e_settlement_commit e = None /\ e_posture e = PRequested
    | Some c =>
        validate_claim H (e_request e) c = None /\ (exists n, e_claim_commit e = Some n) /\
        match e_settlement e with
        | None => e_settlement_commit e = None /\ e_posture e = PClaimed
        | Some s => validate_candidate H (e_request e) c s = None /\ lenN (st_bytes s) <= MAX_SETTLEMENT_BYTES /\
                    (exists n, e_settlement_commit e = Some n) /\ e_posture e = PSettled (st_kind s)
        end
    end.

  Definition ixok (idx : index) : Prop :=
    sorted N.compare (ix_entries idx) /\ forall k e, get idx k = Some e -> entry_ok k e.

  Definition entry_steps (o : option entry) : list lstep :=
    match o with
    | None => []
    | Some e =>
        SRequested :: match e_claim e with
                      | None => []
                      | Some _ => SClaimed :: match e_settlement e with None => [] | Some _ => [SSettled] end
                      end
    end.

  (* every index entry is justified by committed records *)
  Definition backed (l : list txrec) (idx : index) : Prop :=
    forall k e, get idx k = Some e ->
      has l (e_request_commit e) (BRequest (e_request e)) /\
      (forall c, e_claim e = Some c -> exists n, e_claim_commit e = Some n /\ has l n (BClaim c)) /\
      (forall s, e_settlement e = Some s -> exists n, e_settlement_commit e = Some n /\ has l n (BSettle s)).

  (* every committed record is reflected in the index *)
  Definition reflected (l : list txrec) (idx : index) : Prop :=
    forall t, In t l ->
      match tx_body t with
      | BRequest r => exists e, get idx (rq_id r) = Some e /\ e_request e = r /\ e_request_commit e = tx_lsn t
      | BClaim c => exists e, get idx (cl_request c) = Some e /\ e_claim e = Some c /\ e_claim_commit e = Some (tx_lsn t)
      | BSettle s => exists e, get idx (st_request s) = Some e /\ e_settlement e = Some s /\ e_settlement_commit e = Some (tx_lsn t)
      end.

  Definition rel (l : list txrec) (idx : index) : Prop :=
    forall k, steps_of k l = entry_steps (get idx k).

  Definition P (l : list txrec) (idx : index) : Prop :=
    ixok idx /\ rel l idx /\ backed l idx /\ reflected l idx.

  Lemma steps_of_snoc k l t :
    steps_of k (l ++ [t]) = steps_of k l ++ (if body_id (tx_body t) =? k then [body_step (tx_body t)] else []).
  Proof.
    unfold steps_of. rewrite filter_app, map_app. cbn [filter].
    destruct (body_id (tx_body t) =? k); reflexivity.
  Qed.

  Lemma has_snoc l t c b : has l c b -> has (l ++ [t]) c b.
  Proof. intros [x [Hi Hx]]. exists x. split; [apply in_or_app; left; exact Hi|exact Hx]. Qed.

  Lemma has_last l t : has (l ++ [t]) (tx_lsn t) (tx_body t).
  Proof. exists t. split; [apply in_or_app; right; left; reflexivity|split; reflexivity]. Qed.

  Lemma P_empty : P [] empty_index.
  Proof.
    split; [|split; [|split]].
    - split; [exact I|]. intros k e Hg. discriminate.
    - intros k. reflexivity.
    - intros k e Hg. discriminate.
    - intros t [].
  Qed.

  (* ---------------------------------------------------------------- inversion of apply_body *)
  Lemma apply_body_inv idx b c idx' :
    apply_body idx b c = Ok idx' ->
    match b with
    | BRequest r =>
        validate_identity H r = None /\ get idx (rq_id r) = None /\ idx' = upsert idx (mk_requested r c)
    | BClaim cl =>
        exists e, get idx (cl_request cl) = Some e /\ e_claim e = None /\
                  validate_claim H (e_request e) cl = None /\ idx' = upsert idx (with_claim e cl (Some c))
    | BSettle s =>
        (MAX_SETTLEMENT_BYTES <? lenN (st_bytes s)) = false /\ (H32 H (st_bytes s) =? st_digest s) = true /\
        exists e cl, get idx (st_request s) = Some e /\ e_claim e = Some cl /\
                     validate_candidate H (e_request e) cl s = None /\ e_settlement e = None /\
                     idx' = upsert idx (with_settlement e s (Some c))
    end.
  Proof.
    destruct b as [r|cl|s]; cbn [ExtAct.apply_body].
    - destruct (validate_identity H r) eqn:Ev; [discriminate|].
      destruct (get idx (rq_id r)) eqn:Eg; [discriminate|].
      intros E; inversion E; auto.
    - destruct (get idx (cl_request cl)) as [e|] eqn:Eg; [|discriminate].
      destruct (e_claim e) eqn:Ec; [discriminate|].
      destruct (validate_claim H (e_request e) cl) eqn:Ev; [discriminate|].
      intros E; inversion E. exists e. auto.
    - destruct (MAX_SETTLEMENT_BYTES <? lenN (st_bytes s)) eqn:Em; [discriminate|].
      destruct (H32 H (st_bytes s) =? st_digest s) eqn:Ed; cbn [negb]; [|discriminate].
      destruct (get idx (st_request s)) as [e|] eqn:Eg; [|discriminate].
      destruct (e_claim e) as [cl|] eqn:Ec; [|discriminate].
      destruct (validate_candidate H (e_request e) cl s) eqn:Ev; [discriminate|].
      destruct (e_settlement e) eqn:Es.
      + destruct (e_settlement_commit e); [|discriminate].
        destruct (settle_eqb s0 s && (n =? c)); discriminate.
      + intros E; inversion E. split; [reflexivity|split; [reflexivity|]]. exists e, cl. auto.
  Qed.

  Lemma validate_claim_request r c : validate_claim H r c = None -> cl_request c = rq_id r.
  Proof.
    unfold validate_claim.
    destruct (claim_eqb c (claim_for_request H r (cl_adapter c) (cl_ordinal c) (cl_lease c) (cl_policy c))) eqn:E;
      cbn [negb]; [|discriminate].
    intros _. apply claim_eqb_eq in E. rewrite E. reflexivity.
  Qed.

  Lemma validate_candidate_request r c s : validate_candidate H r c s = None -> st_request s = rq_id r.
  Proof.
    unfold validate_candidate.
    destruct (st_request s =? rq_id r) eqn:E; cbn [negb orb]; [|discriminate].
    intros _. apply N.eqb_eq in E. exact E.
  Qed.

  (* ---------------------------------------------------------------- P is preserved by a record *)
  Definition extends (e e' : entry) : Prop :=
    e_request e' = e_request e /\ e_request_commit e' = e_request_commit e /\
    (forall c, e_claim e = Some c -> e_claim e' = Some c /\ e_claim_commit e' = e_claim_commit e) /\
    (forall s, e_settlement e = Some s -> e_settlement e' = Some s /\ e_settlement_commit e' = e_settlement_commit e).

  Definition entry_backed (l : list txrec) (e : entry) : Prop :=
    has l (e_request_commit e) (BRequest (e_request e)) /\
    (forall c, e_claim e = Some c -> exists n, e_claim_commit e = Some n /\ has l n (BClaim c)) /\
    (forall s, e_settlement e = Some s -> exists n, e_settlement_commit e = Some n /\ has l n (BSettle s)).

  Lemma entry_backed_snoc l t e : entry_backed l e -> entry_backed (l ++ [t]) e.
  Proof.
    intros [Hr [Hc Hs]]. split; [apply has_snoc; exact Hr|split].
    - intros c Ec. destruct (Hc c Ec) as [n [En Hn]]. exists n. split; [exact En|apply has_snoc; exact Hn].
    - intros s Es. destruct (Hs s Es) as [n [En Hn]]. exists n. split; [exact En|apply has_snoc; exact Hn].
  Qed.

  Lemma P_upsert l idx t e' :
    P l idx ->
    rq_id (e_request e') = body_id (tx_body t) ->
    entry_ok (body_id (tx_body t)) e' ->
    entry_steps (Some e') = entry_steps (get idx (body_id (tx_body t))) ++ [body_step (tx_body t)] ->
    (forall e, get idx (body_id (tx_body t)) = Some e -> extends e e') ->
    entry_backed (l ++ [t]) e' ->
    match tx_body t with
    | BRequest r => e_request e' = r /\ e_request_commit e' = tx_lsn t
    | BClaim c => e_claim e' = Some c /\ e_claim_commit e' = Some (tx_lsn t)
    | BSettle s => e_settlement e' = Some s /\ e_settlement_commit e' = Some (tx_lsn t)
    end ->
    P (l ++ [t]) (upsert idx e').
  Proof.
    intros [[Hsorted Hok] [Hrel [Hback Hrefl]]] Hid Hok' Hsteps Hext Hb' Hnew.
    set (k0 := body_id (tx_body t)) in *.
    split; [|split; [|split]].
    - split; [apply upsert_sorted; exact Hsorted|].
      intros k e Hg. destruct (N.eq_dec k k0) as [->|Hne].
      + rewrite <- Hid, get_upsert_same in Hg. inversion Hg; subst e. exact Hok'.
      + rewrite get_upsert_other in Hg by (rewrite Hid; exact Hne). apply Hok; exact Hg.
    - intros k. rewrite steps_of_snoc. fold k0. destruct (N.eq_dec k k0) as [->|Hne].
      + rewrite N.eqb_refl. rewrite <- Hid at 2. rewrite get_upsert_same. rewrite Hsteps, Hrel. reflexivity.
      + replace (k0 =? k) with false by (symmetry; apply N.eqb_neq; auto).
        rewrite app_nil_r, get_upsert_other by (rewrite Hid; exact Hne). apply Hrel.
    - intros k e Hg. destruct (N.eq_dec k k0) as [->|Hne].
      + rewrite <- Hid, get_upsert_same in Hg. inversion Hg; subst e. exact Hb'.
      + rewrite get_upsert_other in Hg by (rewrite Hid; exact Hne).
        apply (entry_backed_snoc l t e). apply (Hback k e Hg).
    - intros t' Hin. apply in_app_or in Hin. destruct Hin as [Hin|[<-|[]]].
      + specialize (Hrefl t' Hin).
        destruct (tx_body t') as [r|c|s].
        * destruct Hrefl as [e [Hg [Er Ec]]]. destruct (N.eq_dec (rq_id r) k0) as [E|Hne].
          -- rewrite E in Hg. destruct (Hext e Hg) as [X1 [X2 _]].
             exists e'. rewrite E, <- Hid, get_upsert_same. split; [reflexivity|]. split; congruence.
          -- exists e. rewrite get_upsert_other by (rewrite Hid; exact Hne). auto.
        * destruct Hrefl as [e [Hg [Er Ec]]]. destruct (N.eq_dec (cl_request c) k0) as [E|Hne].
          -- rewrite E in Hg. destruct (Hext e Hg) as [_ [_ [X _]]]. destruct (X c Er) as [Y1 Y2].
             exists e'. rewrite E, <- Hid, get_upsert_same. split; [reflexivity|]. split; congruence.
          -- exists e. rewrite get_upsert_other by (rewrite Hid; exact Hne). auto.
        * destruct Hrefl as [e [Hg [Er Ec]]]. destruct (N.eq_dec (st_request s) k0) as [E|Hne].
          -- rewrite E in Hg. destruct (Hext e Hg) as [_ [_ [_ X]]]. destruct (X s Er) as [Y1 Y2].
             exists e'. rewrite E, <- Hid, get_upsert_same. split; [reflexivity|]. split; congruence.
          -- exists e. rewrite get_upsert_other by (rewrite Hid; exact Hne). auto.
      + unfold k0 in *. destruct (tx_body t) as [r|c|s]; cbn [body_id] in *;
          exists e'; rewrite <- Hid, get_upsert_same; destruct Hnew; auto.
  Qed.

  Lemma apply_body_P l idx t idx' :
    P l idx -> apply_body idx (tx_body t) (tx_lsn t) = Ok idx' -> P (l ++ [t]) idx'.
  Proof.
    intros HP Ha. pose proof HP as [[Hsorted Hok] [Hrel [Hback Hrefl]]].
    apply apply_body_inv in Ha. pose proof (has_last l t) as Hlast.
    destruct (tx_body t) as [r|cl|s] eqn:Eb.
    - destruct Ha as [Hv [Hg ->]].
      apply P_upsert; rewrite ?Eb; cbn [body_id body_step mk_requested e_request e_claim e_settlement
        e_request_commit e_claim_commit e_settlement_commit e_posture]; auto.
      + repeat split; auto.
      + rewrite Hg. reflexivity.
      + intros e He. rewrite Hg in He. discriminate.
      + split; [exact Hlast|split; intros x Hx; discriminate].
    - destruct Ha as [e [Hg [Hc [Hv ->]]]].
      destruct (Hok _ _ Hg) as [Hid [Hvi Hrest]]. rewrite Hc in Hrest. destruct Hrest as [Hcc [Hs [Hsc Hp]]].
      destruct (Hback _ _ Hg) as [Hbr _].
      apply P_upsert; rewrite ?Eb; cbn [body_id body_step with_claim e_request e_claim e_settlement
        e_request_commit e_claim_commit e_settlement_commit e_posture]; auto.
      + split; [exact Hid|]. split; [exact Hvi|]. cbn [with_claim e_request e_claim e_settlement
          e_request_commit e_claim_commit e_settlement_commit e_posture]. rewrite Hs.
        split; [exact Hv|]. split; [eexists; reflexivity|]. split; [exact Hsc|reflexivity].
      + rewrite Hg. cbn [entry_steps with_claim e_claim e_settlement]. rewrite Hc, Hs. reflexivity.
      + intros e0 He0. rewrite Hg in He0. inversion He0; subst e0.
        split; [reflexivity|]. split; [reflexivity|]. split; intros x Hx; congruence.
      + split; [apply has_snoc; exact Hbr|]. split.
        * intros x Hx. cbn in Hx. inversion Hx; subst x. eexists; split; [reflexivity|exact Hlast].
        * intros x Hx. cbn in Hx. congruence.
    - destruct Ha as [Hmax [Hdig [e [cl [Hg [Hc [Hv [Hs ->]]]]]]]].
      destruct (Hok _ _ Hg) as [Hid [Hvi Hrest]]. rewrite Hc, Hs in Hrest.
      destruct Hrest as [Hvc [[n Hcc] [Hsc Hp]]].
      destruct (Hback _ _ Hg) as [Hbr [Hbc _]].
      pose proof (validate_candidate_request _ _ _ Hv) as Hreq.
      apply P_upsert; rewrite ?Eb; cbn [body_id body_step with_settlement e_request e_claim e_settlement
        e_request_commit e_claim_commit e_settlement_commit e_posture]; auto.
      + split; [exact Hid|]. split; [exact Hvi|]. cbn [with_settlement e_request e_claim e_settlement
          e_request_commit e_claim_commit e_settlement_commit e_posture]. rewrite Hc.
        split; [exact Hvc|]. split; [eexists; exact Hcc|]. split; [exact Hv|].
        split; [apply N.ltb_ge in Hmax; exact Hmax|]. split; [eexists; reflexivity|reflexivity].
      + rewrite Hg. cbn [entry_steps with_settlement e_claim e_settlement]. rewrite Hc, Hs. reflexivity.
      + intros e0 He0. rewrite Hg in He0. inversion He0; subst e0.
        split; [reflexivity|]. split; [reflexivity|]. split; intros x Hx; [|congruence].
        split; [exact Hx|reflexivity].
      + split; [apply has_snoc; exact Hbr|]. split.
        * intros x Hx. cbn in Hx. destruct (Hbc x Hx) as [m [Hm Hh]]. exists m. split; [exact Hm|apply has_snoc; exact Hh].
        * intros x Hx. cbn in Hx. inversion Hx; subst x. eexists; split; [reflexivity|exact Hlast].
  Qed.

  Lemma apply_record_P l idx t idx' : P l idx -> apply_record idx t = Ok idx' -> P (l ++ [t]) idx'.
  Proof.
    unfold ExtAct.apply_record. intros HP.
    destruct (apply_body idx (tx_body t) (tx_lsn t)) as [i|] eqn:Ea; [|discriminate].
    destruct ((tx_before t =? root_digest EH idx) && (tx_after t =? root_digest EH i)); [|discriminate].
    intros E; inversion E; subst. eapply apply_body_P; eauto.
  Qed.

  Lemma observe_from_P l2 : forall l1 idx idx', P l1 idx -> observe_from idx l2 = Ok idx' -> P (l1 ++ l2) idx'.
  Proof.
    induction l2 as [|t l2 IH]; intros l1 idx idx' HP Ho.
    - cbn in Ho. inversion Ho; subst. rewrite app_nil_r. exact HP.
    - cbn [ExtAct.observe_from] in Ho. destruct (apply_record idx t) as [i|] eqn:Ea; [|discriminate].
      replace (l1 ++ t :: l2) with ((l1 ++ [t]) ++ l2) by (rewrite <- app_assoc; reflexivity).
      eapply IH; [|exact Ho]. eapply apply_record_P; eauto.
  Qed.

  Lemma observe_P l idx : observe l = Ok idx -> P l idx.
  Proof. intros Ho. apply (observe_from_P l [] empty_index idx P_empty Ho). Qed.

  Lemma observe_from_app idx l1 l2 :
    observe_from idx (l1 ++ l2) =
    match observe_from idx l1 with Ok i => observe_from i l2 | Err e => Err e end.
  Proof.
    revert idx; induction l1 as [|t l1 IH]; intros idx; cbn [app ExtAct.observe_from]; [reflexivity|].
    destruct (apply_record idx t); [apply IH|reflexivity].
  Qed.

  (* ---------------------------------------------------------------- node map basics *)
  Lemma bool_order : OrderLaws bool_cmp.
  Proof.
    split.
    - intros [|] [|]; cbn; split; intros E; try reflexivity; try discriminate.
    - intros [|] [|]; reflexivity.
    - intros [|] [|] [|]; cbn; intros; try discriminate; reflexivity.
  Qed.
  Lemma path_order : OrderLaws path_cmp.
  Proof. apply list_order, bool_order. Qed.
  Definition p_eq := ol_eq _ path_order.
  Definition p_as := ol_antisym _ path_order.
  Definition p_tr := ol_trans _ path_order.

  Notation plan_path := (plan_path H).

  Lemma plan_path_last nodes rest : forall ehs rp leaf,
    exists ups0, snd (plan_path nodes ehs rp rest leaf) = ups0 ++ [(rp, fst (plan_path nodes ehs rp rest leaf))].
  Proof.
    induction rest as [|b rest IH]; intros ehs rp leaf.
    - exists []. reflexivity.
    - cbn [ExtAct.plan_path].
      destruct (plan_path nodes (tl ehs) (b :: rp) rest leaf) as [child ups] eqn:E.
      cbn [fst snd]. exists ups. reflexivity.
  Qed.

  Lemma apply_updates_snoc nodes ups k v :
    apply_updates nodes (ups ++ [(k, v)]) = set path_cmp k v (apply_updates nodes ups).
  Proof. unfold apply_updates. rewrite fold_left_app. reflexivity. Qed.

  Lemma root_after_plan idx e e' :
    root_digest EH (apply_mutation idx e (snd (plan_entry idx e'))) = fst (plan_entry idx e').
  Proof.
    unfold root_digest, apply_mutation, ExtAct.plan_entry; cbn [ix_nodes].
    destruct (plan_path_last (ix_nodes idx) (bits D (rq_id (e_request e'))) EH [] (leaf_hash H e')) as [ups0 E].
    rewrite E, apply_updates_snoc. unfold node_val. rewrite find_set_same by exact p_eq. reflexivity.
  Qed.

  Lemma plan_entry_irrel idx e1 e2 :
    e_request e1 = e_request e2 -> e_claim e1 = e_claim e2 -> e_settlement e1 = e_settlement e2 ->
    plan_entry idx e1 = plan_entry idx e2.
  Proof.
    intros E1 E2 E3. unfold ExtAct.plan_entry, leaf_hash, leaf_preimage. rewrite E1, E2, E3. reflexivity.
  Qed.

  Lemma upsert_as_mutation idx e e' :
    e_request e = e_request e' -> e_claim e = e_claim e' -> e_settlement e = e_settlement e' ->
    upsert idx e = apply_mutation idx e (snd (plan_entry idx e')).
  Proof. intros E1 E2 E3. unfold ExtAct.upsert. rewrite (plan_entry_irrel idx e e'); auto. Qed.

  (* ---------------------------------------------------------------- shape of the transitions *)
  Notation commit_entry := (commit_entry H D EH).
  Notation record_request := (record_request H D EH).
  Notation claim_action := (claim_action H D EH).
  Notation admit_settlement := (admit_settlement H D EH).
  Notation root := (root_digest EH).

  Definition committed (s : sys) : list txrec := sto_committed (sy_store s).

  Definition new_tx (s : sys) (next : entry) (b : body) : txrec :=
    {| tx_lsn := co_next_lsn (sy_coord s); tx_body := b; tx_before := root (co_index (sy_coord s));
       tx_after := fst (plan_entry (co_index (sy_coord s)) next) |}.

  Lemma commit_entry_cases s next b f finish grant :
    commit_entry s next b f finish grant =
    let co := sy_coord s in
    let sto := sy_store s in
    let t := new_tx s next b in
    match f with
    | NoFault =>
        ({| sy_store := {| sto_base := sto_base sto; sto_committed := sto_committed sto ++ [t]; sto_tail := sto_tail sto;
                           sto_torn := sto_torn sto |};
            sy_coord := {| co_index := apply_mutation (co_index co) (finish next (co_next_lsn co)) (snd (plan_entry (co_index co) next));
                           co_next_lsn := co_next_lsn co + 1; co_ready := true |} |}, grant (co_next_lsn co))
    | FailAppend => ({| sy_store := sto; sy_coord := unready co |}, OutErr WalStoreErr)
    | FailFlush =>
        ({| sy_store := {| sto_base := sto_base sto; sto_committed := sto_committed sto; sto_tail := sto_tail sto ++ [t];
                           sto_torn := sto_torn sto |};
            sy_coord := unready co |}, OutErr WalStoreErr)
    | FailAfterSync =>
        ({| sy_store := {| sto_base := sto_base sto; sto_committed := sto_committed sto ++ [t]; sto_tail := sto_tail sto;
                           sto_torn := sto_torn sto |};
            sy_coord := unready co |}, OutErr WalStoreErr)
    | FailTorn =>
        ({| sy_store := {| sto_base := sto_base sto; sto_committed := sto_committed sto; sto_tail := sto_tail sto;
                           sto_torn := true |};
            sy_coord := unready co |}, OutErr WalStoreErr)
    end.
  Proof.
    unfold ExtAct.commit_entry, new_tx.
    destruct (plan_entry (co_index (sy_coord s)) next) as [nr ups].
    destruct f; reflexivity.
  Qed.

  Definition is_err (o : out) : Prop := exists e, o = OutErr e.

  Lemma record_request_cases s r f :
    (exists e, record_request s r f = (s, OutErr e)) \/
    (co_ready (sy_coord s) = true /\ get (co_index (sy_coord s)) (rq_id r) = None /\ validate_identity H r = None /\
     record_request s r f = commit_entry s (mk_requested r 0) (BRequest r) f with_request_commit (fun c => OutToken r c)).
  Proof.
    unfold ExtAct.record_request.
    destruct (co_ready (sy_coord s)); cbn [negb]; [|left; eexists; reflexivity].
    destruct (get (co_index (sy_coord s)) (rq_id r)); [left; eexists; reflexivity|].
    destruct (validate_identity H r); [left; eexists; reflexivity|].
    right. auto.
  Qed.

  Lemma claim_action_cases s r a basis ordinal lease f :
    (exists e, claim_action s r a basis ordinal lease f = (s, OutErr e)) \/
    (exists recovered,
       co_ready (sy_coord s) = true /\ validate_identity H r = None /\
       get (co_index (sy_coord s)) (rq_id r) = Some recovered /\ e_request recovered = r /\ e_claim recovered = None /\
       (rq_max_attempts r <=? ordinal) = false /\ (lease =? 0) = false /\ (au_policy a =? 0) = false /\
       let c := claim_for_request H r (au_adapter a) ordinal lease (au_policy a) in
       claim_action s r a basis ordinal lease f =
       commit_entry s (with_claim recovered c None) (BClaim c) f
                    (fun e commit => with_claim e c (Some commit)) (fun commit => OutGrant r c commit)).
  Proof.
    unfold ExtAct.claim_action.
    destruct (co_ready (sy_coord s)); cbn [negb]; [|left; eexists; reflexivity].
    destruct (validate_identity H r); [left; eexists; reflexivity|].
    destruct (get (co_index (sy_coord s)) (rq_id r)) as [rec|]; [|left; eexists; reflexivity].
    destruct (request_eqb (e_request rec) r) eqn:Er; cbn [negb]; [|left; eexists; reflexivity].
    destruct (e_claim rec) eqn:Ec; [left; eexists; reflexivity|].
    destruct (negb (au_op a =? rq_op r) || negb (au_scope a =? rq_scope r)); [left; eexists; reflexivity|].
    destruct (au_policy a =? 0) eqn:Ep.
    { rewrite orb_true_r. left; eexists; reflexivity. }
    rewrite orb_false_r.
    destruct (negb (au_request a =? rq_id r) || negb (au_basis a =? rq_basis r)); [left; eexists; reflexivity|].
    destruct (negb (basis =? rq_basis r)); [left; eexists; reflexivity|].
    destruct (rq_max_attempts r <=? ordinal) eqn:Eo; [left; eexists; reflexivity|].
    destruct (lease =? 0) eqn:El; [left; eexists; reflexivity|].
    right. exists rec. apply request_eqb_eq in Er. repeat split; auto.
  Qed.

  Lemma admit_settlement_cases s gr gc gcommit cand f :
    (exists e, admit_settlement s gr gc gcommit cand f = (s, OutErr e)) \/
    (exists recovered,
       co_ready (sy_coord s) = true /\
       get (co_index (sy_coord s)) (rq_id gr) = Some recovered /\ e_request recovered = gr /\
       e_claim recovered = Some gc /\ e_claim_commit recovered = Some gcommit /\ e_settlement recovered = None /\
       validate_candidate H gr gc cand = None /\
       admit_settlement s gr gc gcommit cand f =
       commit_entry s (with_settlement recovered cand None) (BSettle cand) f
                    (fun e commit => with_settlement e cand (Some commit)) (fun commit => OutAdmitted cand commit)).
  Proof.
    unfold ExtAct.admit_settlement.
    destruct (co_ready (sy_coord s)); cbn [negb]; [|left; eexists; reflexivity].
    destruct (get (co_index (sy_coord s)) (rq_id gr)) as [rec|]; [|left; eexists; reflexivity].
    destruct (e_claim rec) as [rc|] eqn:Ec; [|left; eexists; reflexivity].
    destruct (request_eqb (e_request rec) gr) eqn:Er; cbn [negb orb]; [|left; eexists; reflexivity].
    destruct (claim_eqb rc gc) eqn:Ecl; cbn [negb orb]; [|left; eexists; reflexivity].
    destruct (opt_N_eqb (e_claim_commit rec) (Some gcommit)) eqn:Eco; cbn [negb]; [|left; eexists; reflexivity].
    destruct (e_settlement rec) eqn:Es; [left; eexists; reflexivity|].
    destruct (validate_candidate H gr gc cand) eqn:Ev; [left; eexists; reflexivity|].
    right. exists rec. apply request_eqb_eq in Er. apply claim_eqb_eq in Ecl. apply opt_N_eqb_eq in Eco.
    subst. repeat split; auto.
  Qed.

  (* ---------------------------------------------------------------- system invariant *)
  Definition sync (s : sys) (idxC : index) : Prop :=
    (co_ready (sy_coord s) = true ->
       sto_tail (sy_store s) = [] /\ sto_torn (sy_store s) = false /\ co_index (sy_coord s) = idxC /\
       co_next_lsn (sy_coord s) = continuation (sto_base (sy_store s)) (committed s)) /\
    (co_ready (sy_coord s) = false ->
       co_index (sy_coord s) = idxC \/
       exists l t, committed s = l ++ [t] /\ observe l = Ok (co_index (sy_coord s))).

  Definition Inv (s : sys) : Prop := exists idxC, observe (committed s) = Ok idxC /\ sync s idxC.

  Lemma continuation_snoc base l t : continuation base (l ++ [t]) = tx_lsn t + 1.
  Proof. unfold continuation. rewrite rev_app_distr. reflexivity. Qed.

  Lemma Inv_init base : Inv (init_sys base).
  Proof.
    exists empty_index. split; [reflexivity|]. split; intros Hr; cbn in *; [auto|discriminate].
  Qed.

  Lemma commit_entry_Inv s next b f finish grant :
    Inv s -> co_ready (sy_coord s) = true ->
    apply_body (co_index (sy_coord s)) b (co_next_lsn (sy_coord s)) =
      Ok (upsert (co_index (sy_coord s)) (finish next (co_next_lsn (sy_coord s)))) ->
    e_request (finish next (co_next_lsn (sy_coord s))) = e_request next ->
    e_claim (finish next (co_next_lsn (sy_coord s))) = e_claim next ->
    e_settlement (finish next (co_next_lsn (sy_coord s))) = e_settlement next ->
    Inv (fst (commit_entry s next b f finish grant)).
  Proof.
    intros [idxC [Hobs [Hsy1 _]]] Hr Ha E1 E2 E3. destruct (Hsy1 Hr) as [Htail [Htorn [Hidx Hlsn]]].
    rewrite commit_entry_cases. cbv zeta.
    set (t := new_tx s next b).
    set (e' := finish next (co_next_lsn (sy_coord s))) in *.
    assert (Hrec : apply_record (co_index (sy_coord s)) t = Ok (upsert (co_index (sy_coord s)) e')).
    { unfold ExtAct.apply_record. cbn [t new_tx tx_body tx_lsn tx_before tx_after]. rewrite Ha.
      rewrite N.eqb_refl. rewrite (upsert_as_mutation _ e' next) by assumption.
      rewrite root_after_plan, N.eqb_refl. reflexivity. }
    assert (Hobs' : observe (committed s ++ [t]) = Ok (upsert (co_index (sy_coord s)) e')).
    { unfold ExtAct.observe. rewrite observe_from_app. fold (observe (committed s)). rewrite Hobs, <- Hidx.
      cbn [ExtAct.observe_from]. rewrite Hrec. reflexivity. }
    destruct f; cbn [fst].
    - exists (upsert (co_index (sy_coord s)) e'). split; [exact Hobs'|].
      split; cbn [sy_coord sy_store co_ready co_index co_next_lsn sto_tail sto_torn sto_base committed sto_committed]; intros X; [|discriminate].
      split; [exact Htail|]. split; [exact Htorn|]. split; [symmetry; apply upsert_as_mutation; assumption|].
      fold (committed s). rewrite continuation_snoc. reflexivity.
    - exists idxC. split; [exact Hobs|].
      split; cbn [sy_coord sy_store unready co_ready co_index]; intros X; [discriminate|left; exact Hidx].
    - exists idxC. split; [exact Hobs|].
      split; cbn [sy_coord sy_store unready co_ready co_index]; intros X; [discriminate|left; exact Hidx].
    - exists (upsert (co_index (sy_coord s)) e'). split; [exact Hobs'|].
      split; cbn [sy_coord sy_store unready co_ready co_index committed sto_committed]; intros X; [discriminate|].
      right. exists (committed s), t. split; [reflexivity|]. rewrite Hidx. exact Hobs.
    - exists idxC. split; [exact Hobs|].
      split; cbn [sy_coord sy_store unready co_ready co_index]; intros X; [discriminate|left; exact Hidx].
  Qed.

  (* ---------------------------------------------------------------- validation facts *)
  Lemma validate_identity_facts r :
    validate_identity H r = None ->
    rq_id r = expected_request_id H r /\ rq_max_bytes r <> 0 /\ rq_max_attempts r = 1 /\
    rq_max_bytes r <= MAX_SETTLEMENT_BYTES.
  Proof.
    unfold validate_identity, budget_check.
    destruct (rq_id r =? expected_request_id H r) eqn:E1; cbn [negb]; [|discriminate].
    destruct (rq_max_bytes r =? 0) eqn:E2; cbn [orb]; [discriminate|].
    destruct (rq_max_attempts r =? 0) eqn:E3; [discriminate|].
    destruct (rq_max_attempts r =? 1) eqn:E4; cbn [negb]; [|discriminate].
    destruct (MAX_SETTLEMENT_BYTES <? rq_max_bytes r) eqn:E5; [discriminate|].
    intros _. apply N.eqb_eq in E1, E4. apply N.eqb_neq in E2. apply N.ltb_ge in E5. auto.
  Qed.

  Lemma validate_candidate_facts r c s :
    validate_candidate H r c s = None ->
    st_request s = rq_id r /\ st_attempt s = cl_attempt c /\ st_adapter s = cl_adapter c /\
    st_basis s = rq_basis r /\ st_schema s = rq_set_schema r /\ st_schema_ev s <> 0 /\ st_ext_ev s <> 0 /\
    lenN (st_bytes s) <= rq_max_bytes r /\ H32 H (st_bytes s) = st_digest s.
  Proof.
    unfold validate_candidate.
    destruct (st_request s =? rq_id r) eqn:E1; cbn [negb orb]; [|discriminate].
    destruct (st_attempt s =? cl_attempt c) eqn:E2; cbn [negb orb]; [|discriminate].
    destruct (st_adapter s =? cl_adapter c) eqn:E3; cbn [negb orb]; [|discriminate].
    destruct (st_basis s =? rq_basis r) eqn:E4; cbn [negb orb]; [|discriminate].
    destruct (st_schema s =? rq_set_schema r) eqn:E5; cbn [negb]; [|discriminate].
    destruct (st_schema_ev s =? 0) eqn:E6; [discriminate|].
    destruct (st_ext_ev s =? 0) eqn:E7; [discriminate|].
    destruct (rq_max_bytes r <? lenN (st_bytes s)) eqn:E8; [discriminate|].
    destruct (H32 H (st_bytes s) =? st_digest s) eqn:E9; cbn [negb]; [|discriminate].
    intros _. apply N.eqb_eq in E1, E2, E3, E4, E5, E9. apply N.eqb_neq in E6, E7. apply N.ltb_ge in E8.
    repeat split; auto.
  Qed.

  Lemma validate_claim_for_request r adapter ordinal lease policy :
    (rq_max_attempts r <=? ordinal) = false -> (lease =? 0) = false -> (policy =? 0) = false ->
    validate_claim H r (claim_for_request H r adapter ordinal lease policy) = None.
  Proof.
    intros E1 E2 E3. unfold validate_claim.
    cbn [claim_for_request cl_adapter cl_ordinal cl_lease cl_policy].
    replace (claim_eqb _ _) with true by (symmetry; apply claim_eqb_eq; reflexivity).
    cbn [negb]. rewrite E1, E2, E3. reflexivity.
  Qed.

  Lemma validate_claim_facts r c :
    validate_claim H r c = None ->
    c = claim_for_request H r (cl_adapter c) (cl_ordinal c) (cl_lease c) (cl_policy c) /\
    cl_ordinal c < rq_max_attempts r /\ cl_lease c <> 0 /\ cl_policy c <> 0.
  Proof.
    unfold validate_claim.
    destruct (claim_eqb c _) eqn:E0; cbn [negb]; [|discriminate].
    destruct (rq_max_attempts r <=? cl_ordinal c) eqn:E1; [discriminate|].
    destruct (cl_lease c =? 0) eqn:E2; [discriminate|].
    destruct (cl_policy c =? 0) eqn:E3; [discriminate|].
    intros _. apply claim_eqb_eq in E0. apply N.leb_gt in E1. apply N.eqb_neq in E2, E3. auto.
  Qed.

  (* ---------------------------------------------------------------- every step preserves Inv *)
  Lemma Inv_ixok s : Inv s -> co_ready (sy_coord s) = true -> P (committed s) (co_index (sy_coord s)).
  Proof.
    intros [idxC [Hobs [Hs _]]] Hr. destruct (Hs Hr) as [_ [_ [-> _]]]. apply observe_P; exact Hobs.
  Qed.

  Lemma step_Inv s o : Inv s -> Inv (fst (step s o)).
  Proof.
    intros HI. destruct o as [r f|r a basis ordinal lease f|gr gc gcommit cand f|cand|id|id|id| |]; cbn [ExtAct.step fst]; auto.
    - destruct (record_request_cases s r f) as [[e ->]|[Hr [Hg [Hv ->]]]]; [exact HI|].
      apply commit_entry_Inv; auto.
      cbn [ExtAct.apply_body]. rewrite Hv, Hg. reflexivity.
    - destruct (claim_action_cases s r a basis ordinal lease f) as [[e ->]|[rec [Hr [Hv [Hg [Her [Hc [Ho [Hl [Hp Heq]]]]]]]]]];
        [exact HI|].
      cbv zeta in Heq. rewrite Heq. apply commit_entry_Inv; auto.
      cbn [ExtAct.apply_body claim_for_request cl_request]. rewrite Hg, Hc, Her.
      rewrite validate_claim_for_request by assumption. reflexivity.
    - destruct (admit_settlement_cases s gr gc gcommit cand f) as [[e ->]|[rec [Hr [Hg [Her [Hc [Hcc [Hs [Hv ->]]]]]]]]];
        [exact HI|].
      apply commit_entry_Inv; auto.
      destruct (Inv_ixok s HI Hr) as [[_ Hok] _]. destruct (Hok _ _ Hg) as [_ [Hvi _]]. rewrite Her in Hvi.
      destruct (validate_identity_facts _ Hvi) as [_ [_ [_ Hmax]]].
      destruct (validate_candidate_facts _ _ _ Hv) as [Hq [_ [_ [_ [_ [_ [_ [Hlen Hdig]]]]]]]].
      cbn [ExtAct.apply_body].
      replace (MAX_SETTLEMENT_BYTES <? lenN (st_bytes cand)) with false by (symmetry; apply N.ltb_ge; lia).
      rewrite Hdig, N.eqb_refl. cbn [negb]. rewrite Hq, Hg, Hc, Her, Hv, Hs. reflexivity.
    - destruct (recover (sy_store s)) as [co|e] eqn:Er; cbn [fst].
      + unfold ExtAct.recover in Er. destruct (sto_torn (sy_store s)) eqn:Etn; [discriminate|].
        destruct (sto_tail (sy_store s)) eqn:Et; [|discriminate].
        destruct (ExtAct.observe H D EH (sto_committed (sy_store s))) as [idx|] eqn:Eo; [|discriminate].
        inversion Er; subst co. exists idx. split; [exact Eo|].
        split; cbn [sy_coord sy_store co_ready co_index co_next_lsn]; intros X; [auto|discriminate].
      + destruct HI as [idxC [Hobs [H1 H2]]]. exists idxC. split; [exact Hobs|].
        split; cbn [sy_coord sy_store unready co_ready co_index]; intros X; [discriminate|].
        destruct (co_ready (sy_coord s)) eqn:Er'.
        * left. apply H1; reflexivity.
        * apply H2; reflexivity.
    - destruct HI as [idxC [Hobs [H1 H2]]]. exists idxC. split; [exact Hobs|].
      split; cbn [sy_coord sy_store truncate sto_tail sto_torn sto_base committed sto_committed]; intros X.
      + destruct (H1 X) as [_ [_ [A B]]]. auto.
      + apply H2; exact X.
  Qed.

  (* ---------------------------------------------------------------- runs *)
  Notation run_from := (run_from H D EH).
  Notation run := (run H D EH).
  Notation state_after := (state_after H D EH).
  Notation trace_of := (trace_of H D EH).

  Lemma run_from_cons s o ops :
    run_from s (o :: ops) =
    (fst (run_from (fst (step s o)) ops), (o, snd (step s o)) :: snd (run_from (fst (step s o)) ops)).
  Proof.
    cbn [ExtAct.run_from]. destruct (step s o) as [s' r]. cbn [fst snd].
    destruct (run_from s' ops) as [s'' tr]. reflexivity.
  Qed.

  Lemma run_from_Inv ops : forall s, Inv s -> Inv (fst (run_from s ops)).
  Proof.
    induction ops as [|o ops IH]; intros s HI; [exact HI|].
    rewrite run_from_cons. cbn [fst]. apply IH, step_Inv, HI.
  Qed.

  Lemma state_after_Inv ops : Inv (state_after ops).
  Proof. apply run_from_Inv, Inv_init. Qed.

  Lemma Inv_recover s : Inv s -> co_ready (sy_coord s) = true -> recover (sy_store s) = Ok (sy_coord s).
  Proof.
    intros [idxC [Hobs [H1 _]]] Hr. destruct (H1 Hr) as [Ht [Htn [Hi Hl]]].
    unfold ExtAct.recover. rewrite Htn, Ht. unfold committed in Hobs. rewrite Hobs.
    destruct (sy_coord s) as [ci cn cr]; cbn in *. subst. reflexivity.
  Qed.

  (* the committed log is always recoverable once the uncommitted tail is dropped, and what is
     recovered is the live index, or the live index plus the one transaction whose acknowledgement
     was lost *)
  Lemma Inv_recover_truncated s :
    Inv s ->
    exists co, recover (truncate (sy_store s)) = Ok co /\ co_ready co = true /\
      (co_ready (sy_coord s) = true -> co = sy_coord s) /\
      (co_index co = co_index (sy_coord s) \/
       exists l t, committed s = l ++ [t] /\ observe l = Ok (co_index (sy_coord s)) /\
                   observe (l ++ [t]) = Ok (co_index co)).
  Proof.
    intros HI. pose proof HI as [idxC [Hobs [H1 H2]]].
    unfold ExtAct.recover, truncate; cbn [sto_tail sto_torn sto_committed sto_base].
    unfold committed in Hobs. rewrite Hobs. eexists; split; [reflexivity|]. split; [reflexivity|]. split.
    - intros Hr. destruct (H1 Hr) as [Ht [_ [Hi Hl]]]. destruct (sy_coord s) as [ci cn cr]; cbn in *. subst. reflexivity.
    - cbn [co_index]. destruct (co_ready (sy_coord s)) eqn:Er.
      + left. destruct (H1 eq_refl) as [_ [_ [Hi _]]]. auto.
      + destruct (H2 eq_refl) as [Hi|[l [t [Hc Ho]]]]; [left; auto|].
        right. exists l, t. split; [exact Hc|]. split; [exact Ho|]. unfold committed in Hc. rewrite <- Hc. exact Hobs.
  Qed.

  Lemma entry_steps_prefix o : exists sfx, entry_steps o ++ sfx = [SRequested; SClaimed; SSettled].
  Proof.
    destruct o as [e|]; cbn [entry_steps]; [|eexists; reflexivity].
    destruct (e_claim e); [|eexists; reflexivity].
    destruct (e_settlement e); eexists; reflexivity.
  Qed.

  Lemma Inv_lifecycle s k : Inv s -> exists sfx, steps_of k (committed s) ++ sfx = [SRequested; SClaimed; SSettled].
  Proof.
    intros [idxC [Hobs _]]. destruct (observe_P _ _ Hobs) as [_ [Hrel _]]. rewrite Hrel. apply entry_steps_prefix.
  Qed.

  (* ---------------------------------------------------------------- the log only grows; grants are backed *)
  Definition log_extends (l l' : list txrec) : Prop := exists sfx, l' = l ++ sfx.

  Lemma log_extends_refl l : log_extends l l.
  Proof. exists []. rewrite app_nil_r. reflexivity. Qed.
  Lemma log_extends_trans a b c : log_extends a b -> log_extends b c -> log_extends a c.
  Proof. intros [x ->] [y ->]. exists (x ++ y). rewrite app_assoc. reflexivity. Qed.
  Lemma has_extends l l' c b : log_extends l l' -> has l c b -> has l' c b.
  Proof. intros [sfx ->] [t [Hi Ht]]. exists t. split; [apply in_or_app; left; exact Hi|exact Ht]. Qed.
  Lemma grant_backed_extends o l l' : log_extends l l' -> grant_backed o l -> grant_backed o l'.
  Proof.
    intros He. destruct o; cbn [grant_backed]; auto.
    - apply has_extends; exact He.
    - intros [A B]. split; [eapply has_extends; eauto|exact B].
    - apply has_extends; exact He.
  Qed.

  (* what one step does to the committed log: nothing, or exactly one appended transaction *)
  Lemma step_log s o :
    committed (fst (step s o)) = committed s \/
    exists t, committed (fst (step s o)) = committed s ++ [t] /\
      ((exists r f, o = ORequest r f /\ tx_body t = BRequest r) \/
       (exists r a b od le f, o = OClaim r a b od le f /\
          tx_body t = BClaim (claim_for_request H r (au_adapter a) od le (au_policy a))) \/
       (exists gr gc gcm cand f, o = OSettle gr gc gcm cand f /\ tx_body t = BSettle cand)) /\
      ((forall e, snd (step s o) <> OutErr e) ->
         snd (step s o) = match tx_body t with
                          | BRequest r => OutToken r (tx_lsn t)
                          | BClaim c => match o with OClaim r _ _ _ _ _ => OutGrant r c (tx_lsn t) | _ => OutRecovered end
                          | BSettle c => OutAdmitted c (tx_lsn t)
                          end).
  Proof.
    destruct o as [r f|r a basis ordinal lease f|gr gc gcommit cand f|cand|id|id|id| |]; cbn [ExtAct.step fst snd]; auto.
    - destruct (record_request_cases s r f) as [[e ->]|[_ [_ [_ ->]]]]; [left; reflexivity|].
      rewrite commit_entry_cases. cbv zeta. destruct f; cbn [fst snd committed sy_store sto_committed]; auto.
      + right. eexists. split; [reflexivity|]. split; [left; eauto|]. intros; reflexivity.
      + right. eexists. split; [reflexivity|]. split; [left; eauto|]. intros He. exfalso. apply (He WalStoreErr). reflexivity.
    - destruct (claim_action_cases s r a basis ordinal lease f) as [[e ->]|[rec [_ [_ [_ [_ [_ [_ [_ [_ Heq]]]]]]]]]];
        [left; reflexivity|].
      cbv zeta in Heq. rewrite Heq, commit_entry_cases. cbv zeta.
      destruct f; cbn [fst snd committed sy_store sto_committed]; auto.
      + right. eexists. split; [reflexivity|]. split; [right; left; repeat eexists|]. intros; reflexivity.
      + right. eexists. split; [reflexivity|]. split; [right; left; repeat eexists|].
        intros He. exfalso. apply (He WalStoreErr). reflexivity.
    - destruct (admit_settlement_cases s gr gc gcommit cand f) as [[e ->]|[rec [_ [_ [_ [_ [_ [_ [_ ->]]]]]]]]];
        [left; reflexivity|].
      rewrite commit_entry_cases. cbv zeta. destruct f; cbn [fst snd committed sy_store sto_committed]; auto.
      + right. eexists. split; [reflexivity|]. split; [right; right; repeat eexists|]. intros; reflexivity.
      + right. eexists. split; [reflexivity|]. split; [right; right; repeat eexists|].
        intros He. exfalso. apply (He WalStoreErr). reflexivity.
    - destruct (recover (sy_store s)); left; reflexivity.
  Qed.

  Lemma step_extends s o : log_extends (committed s) (committed (fst (step s o))).
  Proof.
    destruct (step_log s o) as [->|[t [-> _]]]; [apply log_extends_refl|exists [t]; reflexivity].
  Qed.

  Lemma run_from_extends ops : forall s, log_extends (committed s) (committed (fst (run_from s ops))).
  Proof.
    induction ops as [|o ops IH]; intros s; [apply log_extends_refl|].
    rewrite run_from_cons. cbn [fst]. eapply log_extends_trans; [apply step_extends|apply IH].
  Qed.

  Lemma step_backed s o : Inv s -> grant_backed (snd (step s o)) (committed (fst (step s o))).
  Proof.
    intros HI.
    destruct o as [r f|r a basis ordinal lease f|gr gc gcommit cand f|cand|id|id|id| |]; cbn [ExtAct.step fst snd].
    - destruct (record_request_cases s r f) as [[e ->]|[_ [_ [_ ->]]]]; [exact I|].
      rewrite commit_entry_cases. cbv zeta. destruct f; cbn [fst snd grant_backed]; auto.
      cbn [committed sy_store sto_committed]. apply (has_last (sto_committed (sy_store s)) (new_tx s _ _)).
    - destruct (claim_action_cases s r a basis ordinal lease f) as [[e ->]|[rec [_ [_ [_ [_ [_ [_ [_ [_ Heq]]]]]]]]]];
        [exact I|].
      cbv zeta in Heq. rewrite Heq, commit_entry_cases. cbv zeta. destruct f; cbn [fst snd grant_backed]; auto.
      split; [|reflexivity].
      cbn [committed sy_store sto_committed]. apply (has_last (sto_committed (sy_store s)) (new_tx s _ _)).
    - destruct (admit_settlement_cases s gr gc gcommit cand f) as [[e ->]|[rec [_ [_ [_ [_ [_ [_ [_ ->]]]]]]]]];
        [exact I|].
      rewrite commit_entry_cases. cbv zeta. destruct f; cbn [fst snd grant_backed]; auto.
      cbn [committed sy_store sto_committed]. apply (has_last (sto_committed (sy_store s)) (new_tx s _ _)).
    - unfold ExtAct.retry. destruct (co_ready (sy_coord s)) eqn:Er; cbn [negb]; [|exact I].
      destruct (Inv_ixok s HI Er) as [_ [_ [Hback _]]].
      destruct (get (co_index (sy_coord s)) (st_request cand)) as [e|] eqn:Eg; [|exact I].
      destruct (e_claim e); [|exact I]. destruct (validate_candidate H (e_request e) c cand); [exact I|].
      destruct (e_settlement e) as [st|] eqn:Es; [|exact I].
      destruct (e_settlement_commit e) as [n|] eqn:Ec; [|exact I].
      destruct (settle_eqb st cand); [|exact I]. cbn [grant_backed].
      destruct (Hback _ _ Eg) as [_ [_ Hs]]. destruct (Hs st Es) as [m [Em Hm]]. congruence.
    - unfold ExtAct.recorded_request. destruct (co_ready (sy_coord s)) eqn:Er; cbn [negb]; [|exact I].
      destruct (Inv_ixok s HI Er) as [_ [_ [Hback _]]].
      destruct (get (co_index (sy_coord s)) id) as [e|] eqn:Eg; [|exact I].
      destruct (e_claim e); [exact I|]. cbn [grant_backed]. apply (Hback _ _ Eg).
    - unfold ExtAct.claim_grant. destruct (co_ready (sy_coord s)) eqn:Er; cbn [negb]; [|exact I].
      destruct (Inv_ixok s HI Er) as [[_ Hok] [_ [Hback _]]].
      destruct (get (co_index (sy_coord s)) id) as [e|] eqn:Eg; [|exact I].
      destruct (e_claim e) as [c|] eqn:Ec; [|exact I]. destruct (e_settlement e); [exact I|].
      destruct (e_claim_commit e) as [n|] eqn:Ecc; [|exact I]. cbn [grant_backed].
      destruct (Hback _ _ Eg) as [_ [Hc _]]. destruct (Hc c Ec) as [m [Em Hm]].
      split; [congruence|]. destruct (Hok _ _ Eg) as [_ [_ Hrest]]. rewrite Ec in Hrest.
      destruct Hrest as [Hv _]. apply validate_claim_request; exact Hv.
    - unfold ExtAct.admitted_settlement. destruct (co_ready (sy_coord s)) eqn:Er; cbn [negb]; [|exact I].
      destruct (Inv_ixok s HI Er) as [_ [_ [Hback _]]].
      destruct (get (co_index (sy_coord s)) id) as [e|] eqn:Eg; [|exact I].
      destruct (e_settlement e) as [st|] eqn:Es; [|exact I].
      destruct (e_settlement_commit e) as [n|] eqn:Ec; [|exact I]. cbn [grant_backed].
      destruct (Hback _ _ Eg) as [_ [_ Hs]]. destruct (Hs st Es) as [m [Em Hm]]. congruence.
    - destruct (recover (sy_store s)); exact I.
    - exact I.
  Qed.

  Lemma run_from_backed ops : forall s, Inv s ->
    forall o r, In (o, r) (snd (run_from s ops)) -> grant_backed r (committed (fst (run_from s ops))).
  Proof.
    induction ops as [|o ops IH]; intros s HI o' r Hin; [destruct Hin|].
    rewrite run_from_cons in Hin |- *. cbn [fst snd] in *. destruct Hin as [E|Hin].
    - inversion E; subst. eapply grant_backed_extends; [apply run_from_extends|apply step_backed; exact HI].
    - eapply IH; [apply step_Inv; exact HI|exact Hin].
  Qed.

  (* ---------------------------------------------------------------- at most one claim grant per request id *)
  Definition is_claimed (st : lstep) : bool := match st with SClaimed => true | _ => false end.
  Definition nclaims (k : N) (l : list txrec) : nat := length (filter is_claimed (steps_of k l)).

  Lemma nclaims_snoc k l t :
    nclaims k (l ++ [t]) =
    (nclaims k l + (if N.eqb (body_id (tx_body t)) k && is_claimed (body_step (tx_body t)) then 1 else 0))%nat.
  Proof.
    unfold nclaims. rewrite steps_of_snoc, filter_app, app_length.
    destruct (body_id (tx_body t) =? k); cbn [andb filter length]; [|reflexivity].
    destruct (is_claimed (body_step (tx_body t))); reflexivity.
  Qed.

  Lemma step_claims s o k :
    ((if is_claim_grant k (o, snd (step s o)) then 1 else 0) + nclaims k (committed s) <=
     nclaims k (committed (fst (step s o))))%nat.
  Proof.
    destruct (step_log s o) as [E|[t [E [Hkind Hout]]]].
    - rewrite E. destruct (is_claim_grant k (o, snd (step s o))) eqn:Ec; [|lia].
      exfalso. destruct o; cbn [is_claim_grant] in Ec; try discriminate.
      cbn [ExtAct.step snd] in Ec.
      destruct (claim_action_cases s r a basis ordinal lease f) as [[e He]|[rec [_ [_ [_ [_ [_ [_ [_ [_ Heq]]]]]]]]]].
      + rewrite He in Ec. discriminate.
      + cbv zeta in Heq. cbn [ExtAct.step fst] in E. rewrite Heq, commit_entry_cases in E, Ec. cbv zeta in E, Ec.
        destruct f; cbn [fst snd] in E, Ec; try discriminate.
        unfold committed in E; cbn in E. apply (f_equal (@length _)) in E. rewrite app_length in E. cbn in E. lia.
    - rewrite E, nclaims_snoc. destruct (is_claim_grant k (o, snd (step s o))) eqn:Ec; [|lia].
      destruct o; cbn [is_claim_grant] in Ec; try discriminate.
      destruct (snd (step s (OClaim r a basis ordinal lease f))) as [| r' c' n' | | |] eqn:Eo; try discriminate.
      destruct Hkind as [[r0 [f0 [X _]]]|[[r0 [a0 [b0 [od [le [f0 [X Hb]]]]]]]|[gr [gc [gcm [cand [f0 [X _]]]]]]]]; try discriminate.
      inversion X; subst. rewrite Hb in Hout |- *.
      assert (Hne : forall e, OutGrant r' c' n' <> OutErr e) by (intros e; discriminate).
      specialize (Hout Hne). inversion Hout; subst.
      cbn [body_id body_step claim_for_request cl_request is_claimed]. rewrite Ec. cbn. lia.
  Qed.

  Lemma run_from_claims ops k : forall s,
    (length (filter (is_claim_grant k) (snd (run_from s ops))) + nclaims k (committed s) <=
     nclaims k (committed (fst (run_from s ops))))%nat.
  Proof.
    induction ops as [|o ops IH]; intros s; [cbn; lia|].
    rewrite run_from_cons. cbn [fst snd filter].
    pose proof (step_claims s o k) as Hs. pose proof (IH (fst (step s o))) as Hr.
    destruct (is_claim_grant k (o, snd (step s o))); cbn [length]; lia.
  Qed.

  Lemma Inv_nclaims s k : Inv s -> (nclaims k (committed s) <= 1)%nat.
  Proof.
    intros [idxC [Hobs _]]. destruct (observe_P _ _ Hobs) as [_ [Hrel _]]. unfold nclaims. rewrite Hrel.
    destruct (get idxC k) as [e|]; cbn [entry_steps filter is_claimed length]; [|lia].
    destruct (e_claim e); cbn [filter is_claimed length]; [|lia].
    destruct (e_settlement e); cbn; lia.
  Qed.

  (* ---------------------------------------------------------------- sparse Merkle index: basics *)
  Lemma path_eqb_eq a b : path_eqb a b = true <-> a = b.
  Proof.
    revert b; induction a as [|x a IH]; destruct b as [|y b]; cbn; try (split; [discriminate|discriminate]); [tauto|].
    rewrite andb_true_iff, IH, Bool.eqb_true_iff. split; [intros [-> ->]; reflexivity|intros E; inversion E; auto].
  Qed.

  Lemma bits_length n k : length (bits n k) = n.
  Proof. induction n; cbn; auto. Qed.

  Lemma bits_testbit n k k' :
    bits n k = bits n k' -> forall i, (i < n)%nat -> N.testbit k (N.of_nat i) = N.testbit k' (N.of_nat i).
  Proof.
    induction n as [|n IH]; intros E i Hi; [lia|].
    cbn [bits] in E. inversion E as [[E1 E2]].
    destruct (Nat.eq_dec i n) as [->|Hne]; [exact E1|]. apply IH; [exact E2|lia].
  Qed.

  Lemma bits_inj n k k' : k < 2 ^ N.of_nat n -> k' < 2 ^ N.of_nat n -> bits n k = bits n k' -> k = k'.
  Proof.
    intros Hk Hk' E. apply N.bits_inj. intros m.
    destruct (N.lt_ge_cases m (N.of_nat n)) as [Hlt|Hge].
    - replace m with (N.of_nat (N.to_nat m)) by apply N2Nat.id. apply (bits_testbit n); [exact E|lia].
    - rewrite <- (N.mod_small k (2 ^ N.of_nat n)) by exact Hk.
      rewrite <- (N.mod_small k' (2 ^ N.of_nat n)) by exact Hk'.
      rewrite !N.mod_pow2_bits_high by exact Hge. reflexivity.
  Qed.

  Notation spec_tree := (spec_tree H).
  Notation empty_from := (empty_from H).
  Notation empty_table := (empty_table H D).
  Notation node_hash := (node_hash H).

  Lemma spec_tree_ext n : forall d f g,
    (forall p, length p = n -> f p = g p) -> spec_tree n d f = spec_tree n d g.
  Proof.
    induction n as [|n IH]; intros d f g Hfg; cbn [ExtAct.spec_tree].
    - rewrite (Hfg [] eq_refl). reflexivity.
    - f_equal; apply IH; intros p Hp; apply Hfg; cbn; lia.
  Qed.

  Lemma empty_spec n : forall d, spec_tree n d (fun _ => None) = empty_from n d.
  Proof. induction n as [|n IH]; intros d; cbn; [reflexivity|]. rewrite !IH. reflexivity. Qed.

  Lemma empty_table_nonempty n : empty_table n <> [].
  Proof.
    induction n as [|n IH]; cbn [ExtAct.empty_table]; [discriminate|].
    destruct (empty_table n); [exact IH|discriminate].
  Qed.

  Lemma empty_table_nth n : (n <= D)%nat -> forall j, (j <= n)%nat ->
    nth j (empty_table n) 0 = empty_from (n - j) (D - n + j).
  Proof.
    induction n as [|n IH]; intros Hn j Hj.
    - assert (j = 0)%nat by lia. subst. reflexivity.
    - cbn [ExtAct.empty_table].
      assert (Hn' : (n <= D)%nat) by lia.
      pose proof (IH Hn' 0%nat (Nat.le_0_l _)) as H0.
      destruct (empty_table n) as [|c t] eqn:Et.
      { exfalso. exact (empty_table_nonempty n Et). }
      destruct j as [|j].
      + cbn [nth]. cbn [nth] in H0. rewrite H0.
        replace (S n - 0)%nat with (S n) by lia. replace (n - 0)%nat with n by lia.
        replace (D - S n + 0)%nat with (D - S n)%nat by lia. replace (D - n + 0)%nat with (D - n)%nat by lia.
        cbn [ExtAct.empty_from]. replace (S (D - S n)) with (D - n)%nat by lia. reflexivity.
      + transitivity (nth j (c :: t) 0); [reflexivity|]. rewrite (IH Hn' j) by lia. f_equal; lia.
  Qed.

  Lemma find_apply_notin ups : forall nodes q,
    ~ In q (map fst ups) -> find path_cmp q (apply_updates nodes ups) = find path_cmp q nodes.
  Proof.
    induction ups as [|[k v] ups IH]; intros nodes q Hni; [reflexivity|].
    cbn [apply_updates fold_left fst snd]. fold (apply_updates (set path_cmp k v nodes) ups).
    rewrite IH by (intro X; apply Hni; right; exact X).
    apply find_set_other; [exact p_eq|]. intro E; apply Hni; left; cbn; auto.
  Qed.

  Lemma find_apply_in ups : forall nodes q v,
    NoDup (map fst ups) -> In (q, v) ups -> find path_cmp q (apply_updates nodes ups) = Some v.
  Proof.
    induction ups as [|[k v0] ups IH]; intros nodes q v Hnd Hin; [destruct Hin|].
    cbn [map fst] in Hnd. inversion Hnd as [|a b Hni Hnd']; subst.
    cbn [apply_updates fold_left fst snd]. fold (apply_updates (set path_cmp k v0 nodes) ups).
    destruct Hin as [E|Hin].
    - inversion E; subst. rewrite find_apply_notin by exact Hni. apply find_set_same. exact p_eq.
    - apply IH; auto.
  Qed.

  (* ---------------------------------------------------------------- path update = rebuild *)
  Definition minv (nodes : list (path * N)) (f : path -> option N) : Prop :=
    forall rp, (length rp <= D)%nat ->
      node_val (nth (length rp) EH 0) nodes rp =
      spec_tree (D - length rp) (length rp) (fun sfx => f (rev rp ++ sfx)).

  Definition upd_leaf (f : path -> option N) (kp : path) (leaf : N) : path -> option N :=
    fun p => if path_eqb p kp then Some leaf else f p.

  Lemma tl_skipn {A} n (l : list A) : tl (skipn n l) = skipn (S n) l.
  Proof. revert l; induction n as [|n IH]; intros [|x l]; cbn; auto. apply (IH l). Qed.

  Lemma hd_skipn {A} n (l : list A) d : hd d (skipn n l) = nth n l d.
  Proof. revert l; induction n as [|n IH]; intros [|x l]; cbn; auto. Qed.

  Lemma NoDup_snoc {A} (l : list A) x : NoDup l -> ~ In x l -> NoDup (l ++ [x]).
  Proof.
    induction l as [|y l IH]; intros Hnd Hni; cbn; [constructor; [intros []|constructor]|].
    inversion Hnd; subst. constructor.
    - intro Hin. apply in_app_or in Hin. destruct Hin as [Hin|[E|[]]]; [contradiction|].
      subst. apply Hni. left; reflexivity.
    - apply IH; [assumption|]. intro X; apply Hni; right; exact X.
  Qed.

  Lemma upd_leaf_same f kp leaf : upd_leaf f kp leaf kp = Some leaf.
  Proof. unfold upd_leaf. replace (path_eqb kp kp) with true by (symmetry; apply path_eqb_eq; reflexivity). reflexivity. Qed.

  Lemma upd_leaf_other f kp leaf p : p <> kp -> upd_leaf f kp leaf p = f p.
  Proof.
    intros Hne. unfold upd_leaf. destruct (path_eqb p kp) eqn:E; [|reflexivity].
    apply path_eqb_eq in E. contradiction.
  Qed.

  Lemma plan_path_spec nodes f kp leaf :
    minv nodes f -> length kp = D ->
    forall rest rp, rev rp ++ rest = kp ->
      let r := plan_path nodes (skipn (length rp) EH) rp rest leaf in
      fst r = spec_tree (length rest) (length rp) (fun sfx => upd_leaf f kp leaf (rev rp ++ sfx)) /\
      (forall q v, In (q, v) (snd r) ->
         (length rp <= length q)%nat /\
         exists suf, rev q ++ suf = kp /\
                     v = spec_tree (length suf) (length q) (fun sfx => upd_leaf f kp leaf (rev q ++ sfx))) /\
      (forall pre suf, rest = pre ++ suf -> In (rev pre ++ rp) (map fst (snd r))) /\
      NoDup (map fst (snd r)).
  Proof.
    intros Hinv Hlen. induction rest as [|b rest IH]; intros rp Hkp; cbv zeta.
    - cbn [ExtAct.plan_path fst snd length]. rewrite app_nil_r in Hkp.
      assert (Hv : leaf = spec_tree 0 (length rp) (fun sfx => upd_leaf f kp leaf (rev rp ++ sfx))).
      { cbn [ExtAct.spec_tree]. rewrite app_nil_r, Hkp, upd_leaf_same. reflexivity. }
      split; [exact Hv|]. split; [|split].
      + intros q v [E|[]]. inversion E; subst q v. split; [lia|]. exists []. rewrite app_nil_r. split; [exact Hkp|exact Hv].
      + intros pre suf E. symmetry in E. apply app_eq_nil in E. destruct E as [-> _]. left. reflexivity.
      + cbn. constructor; [intros []|constructor].
    - cbn [ExtAct.plan_path]. rewrite tl_skipn.
      assert (Hkp' : rev (b :: rp) ++ rest = kp).
      { cbn [rev]. rewrite <- app_assoc. exact Hkp. }
      specialize (IH (b :: rp) Hkp'). cbv zeta in IH. cbn [length] in IH.
      destruct (plan_path nodes (skipn (S (length rp)) EH) (b :: rp) rest leaf) as [child ups] eqn:Ep.
      cbn [fst snd] in IH |- *. destruct IH as [Hchild [Hups [Hkeys Hnd]]].
      assert (HD : (length rp + S (length rest) = D)%nat).
      { rewrite <- Hlen, <- Hkp, app_length, rev_length. cbn [length]. lia. }
      set (sib := node_val (hd 0 (skipn (S (length rp)) EH)) nodes (negb b :: rp)).
      assert (Hsib : sib = spec_tree (length rest) (S (length rp))
                                     (fun sfx => upd_leaf f kp leaf (rev rp ++ negb b :: sfx))).
      { unfold sib. rewrite hd_skipn.
        pose proof (Hinv (negb b :: rp)) as X. cbn [length] in X. rewrite X by lia.
        replace (D - S (length rp))%nat with (length rest) by lia.
        apply spec_tree_ext. intros p _. cbn [rev]. rewrite <- app_assoc. cbn [app].
        symmetry. apply upd_leaf_other. rewrite <- Hkp. intro E. apply app_inv_head in E.
        inversion E as [[E1 E2]]. destruct b; discriminate. }
      assert (Hchild' : child = spec_tree (length rest) (S (length rp))
                                         (fun sfx => upd_leaf f kp leaf (rev rp ++ b :: sfx))).
      { rewrite Hchild. apply spec_tree_ext. intros p _. cbn [rev]. rewrite <- app_assoc. reflexivity. }
      set (h := if b then node_hash (length rp) sib child else node_hash (length rp) child sib).
      assert (Hh : h = spec_tree (length (b :: rest)) (length rp) (fun sfx => upd_leaf f kp leaf (rev rp ++ sfx))).
      { cbn [length ExtAct.spec_tree]. unfold h. destruct b; cbn [negb] in Hsib; rewrite Hsib, Hchild'; reflexivity. }
      split; [exact Hh|]. split; [|split].
      + intros q v Hin. apply in_app_or in Hin. destruct Hin as [Hin|[E|[]]].
        * destruct (Hups q v Hin) as [Hl Hx]. split; [lia|exact Hx].
        * inversion E; subst q v. split; [lia|]. exists (b :: rest). split; [exact Hkp|exact Hh].
      + intros pre suf E. rewrite map_app. apply in_or_app. destruct pre as [|b' pre].
        * right. left. reflexivity.
        * left. cbn [app] in E. inversion E; subst b'. cbn [rev]. rewrite <- app_assoc. cbn [app].
          apply (Hkeys pre suf). assumption.
      + rewrite map_app. cbn [map fst]. apply NoDup_snoc; [exact Hnd|].
        intro Hin. apply in_map_iff in Hin. destruct Hin as [[q v] [Eq Hin]]. cbn [fst] in Eq. subst q.
        destruct (Hups rp v Hin) as [Hl _]. lia.
  Qed.

  Lemma minv_update nodes f kp leaf :
    minv nodes f -> length kp = D ->
    minv (apply_updates nodes (snd (plan_path nodes EH [] kp leaf))) (upd_leaf f kp leaf).
  Proof.
    intros Hinv Hlen.
    pose proof (plan_path_spec nodes f kp leaf Hinv Hlen kp [] eq_refl) as X. cbv zeta in X.
    cbn [length skipn] in X. destruct X as [_ [Hups [Hkeys Hnd]]].
    intros rq Hrq. unfold node_val.
    destruct (in_dec (list_eq_dec Bool.bool_dec) rq (map fst (snd (plan_path nodes EH [] kp leaf)))) as [Hin|Hni].
    - apply in_map_iff in Hin. destruct Hin as [[q v] [Eq Hin]]. cbn [fst] in Eq. subst q.
      rewrite (find_apply_in _ nodes rq v Hnd Hin).
      destruct (Hups rq v Hin) as [_ [suf [Hk Hv]]]. rewrite Hv.
      replace (D - length rq)%nat with (length suf); [reflexivity|].
      rewrite <- Hlen, <- Hk, app_length, rev_length. lia.
    - rewrite find_apply_notin by exact Hni. fold (node_val (nth (length rq) EH 0) nodes rq).
      rewrite (Hinv rq Hrq). apply spec_tree_ext. intros p Hp. symmetry. apply upd_leaf_other.
      intro E. apply Hni. specialize (Hkeys (rev rq) p (eq_sym E)).
      rewrite rev_involutive, app_nil_r in Hkeys. exact Hkeys.
  Qed.

  (* ---------------------------------------------------------------- root = function of the entries *)
  Notation leaf_lookup := (leaf_lookup H D).

  Lemma path_eqb_sym a b : path_eqb a b = path_eqb b a.
  Proof.
    destruct (path_eqb a b) eqn:E1, (path_eqb b a) eqn:E2; auto.
    - apply path_eqb_eq in E1. subst. assert (path_eqb b b = true) by (apply path_eqb_eq; reflexivity). congruence.
    - apply path_eqb_eq in E2. subst. assert (path_eqb a a = true) by (apply path_eqb_eq; reflexivity). congruence.
  Qed.

  Lemma in_set {K V} (cmp : K -> K -> comparison) k v (m : list (K * V)) x :
    In x (set cmp k v m) -> x = (k, v) \/ In x m.
  Proof.
    induction m as [|[k1 v1] r IH]; cbn; [intros [E|[]]; auto|].
    destruct (cmp k k1); cbn; intros [E|Hin]; auto.
    destruct (IH Hin); auto.
  Qed.

  Lemma leaf_lookup_set es k e p :
    (forall k' e', In (k', e') es -> k' < 2 ^ N.of_nat D) -> k < 2 ^ N.of_nat D ->
    leaf_lookup (set N.compare k e es) p = upd_leaf (leaf_lookup es) (bits D k) (leaf_hash H e) p.
  Proof.
    intros Hb Hk. unfold upd_leaf. rewrite (path_eqb_sym p).
    induction es as [|[k1 e1] r IH]; cbn [set ExtAct.leaf_lookup]; [reflexivity|].
    assert (Hb' : forall k' e', In (k', e') r -> k' < 2 ^ N.of_nat D) by (intros; eapply Hb; right; eauto).
    destruct (N.compare k k1) eqn:Ec; cbn [ExtAct.leaf_lookup].
    - apply N.compare_eq in Ec. subst k1. destruct (path_eqb (bits D k) p); reflexivity.
    - reflexivity.
    - rewrite (IH Hb'). destruct (path_eqb (bits D k1) p) eqn:E1; [|reflexivity].
      destruct (path_eqb (bits D k) p) eqn:E2; [|reflexivity].
      exfalso. apply path_eqb_eq in E1, E2. assert (k = k1).
      { apply (bits_inj D); [exact Hk|eapply Hb; left; reflexivity|congruence]. }
      subst. rewrite N.compare_refl in Ec. discriminate.
  Qed.

  Definition J (idx : index) : Prop :=
    minv (ix_nodes idx) (leaf_lookup (ix_entries idx)) /\
    (forall k e, In (k, e) (ix_entries idx) -> k < 2 ^ N.of_nat D).

  Lemma J_empty : EH = empty_table D -> J empty_index.
  Proof.
    intros HEH. split; [|intros k e []].
    intros rp Hrp. cbn [ix_nodes ix_entries empty_index]. unfold node_val. cbn [find].
    rewrite HEH, (empty_table_nth D (le_n D)) by exact Hrp.
    replace (D - D + length rp)%nat with (length rp) by lia.
    rewrite <- empty_spec. apply spec_tree_ext. intros; reflexivity.
  Qed.

  Lemma J_upsert idx e : J idx -> rq_id (e_request e) < 2 ^ N.of_nat D -> J (upsert idx e).
  Proof.
    intros [Hm Hb] Hk. split.
    - unfold ExtAct.upsert, apply_mutation, ExtAct.plan_entry; cbn [ix_nodes ix_entries].
      pose proof (minv_update (ix_nodes idx) _ (bits D (rq_id (e_request e))) (leaf_hash H e) Hm (bits_length _ _)) as X.
      intros rp Hrp. rewrite (X rp Hrp). apply spec_tree_ext. intros p _.
      symmetry. apply leaf_lookup_set; assumption.
    - intros k e' Hin. unfold ExtAct.upsert, apply_mutation in Hin; cbn [ix_entries] in Hin.
      apply in_set in Hin. destruct Hin as [E|Hin]; [inversion E; subst; exact Hk|eapply Hb; eauto].
  Qed.

  Lemma J_root idx : J idx -> root idx = spec_root H D (ix_entries idx).
  Proof.
    intros [Hm _]. specialize (Hm [] (Nat.le_0_l D)). cbn [length rev app] in Hm.
    unfold root_digest, spec_root. rewrite Nat.sub_0_r in Hm.
    replace (hd 0 EH) with (nth 0 EH 0) by (destruct EH; reflexivity).
    rewrite Hm. apply spec_tree_ext. intros; reflexivity.
  Qed.

  Lemma fold_upsert_J es : forall idx, J idx -> (forall e, In e es -> rq_id (e_request e) < 2 ^ N.of_nat D) ->
    J (fold_left upsert es idx).
  Proof.
    induction es as [|e es IH]; intros idx HJ Hb; [exact HJ|].
    cbn [fold_left]. apply IH; [apply J_upsert; [exact HJ|apply Hb; left; reflexivity]|].
    intros e' Hin; apply Hb; right; exact Hin.
  Qed.

  Lemma root_rebuilt :
    EH = empty_table D -> forall es, (forall e, In e es -> rq_id (e_request e) < 2 ^ N.of_nat D) ->
    root (fold_left upsert es empty_index) = spec_root H D (ix_entries (fold_left upsert es empty_index)).
  Proof. intros HEH es Hb. apply J_root, fold_upsert_J; [apply J_empty; exact HEH|exact Hb]. Qed.

  (* the coordinator's index (D = 256: request ids are 32-byte digests) *)
  Lemma H32_lt l : H32 H l < 2 ^ 256.
  Proof.
    unfold H32, mask256. rewrite N.land_ones. apply N.mod_lt. apply N.pow_nonzero. discriminate.
  Qed.

  Lemma apply_body_J idx b c idx' :
    D = 256%nat -> J idx -> ixok idx -> apply_body idx b c = Ok idx' -> J idx'.
  Proof.
    intros HD HJ [_ Hok] Ha. apply apply_body_inv in Ha.
    assert (Hpow : 2 ^ N.of_nat D = 2 ^ 256) by (rewrite HD; reflexivity).
    assert (Hkey : forall k e, get idx k = Some e -> rq_id (e_request e) < 2 ^ N.of_nat D).
    { intros k e Hg. destruct (Hok _ _ Hg) as [Hid _]. rewrite Hid. destruct HJ as [_ Hb].
      apply (Hb k e). apply find_in with (cmp := N.compare); [exact n_eq|exact Hg]. }
    destruct b as [r|cl|s].
    - destruct Ha as [Hv [_ ->]]. apply J_upsert; [exact HJ|]. cbn [mk_requested e_request].
      destruct (validate_identity_facts _ Hv) as [-> _]. rewrite Hpow. apply H32_lt.
    - destruct Ha as [e [Hg [_ [_ ->]]]]. apply J_upsert; [exact HJ|]. cbn [with_claim e_request]. eapply Hkey; eauto.
    - destruct Ha as [_ [_ [e [cl [Hg [_ [_ [_ ->]]]]]]]]. apply J_upsert; [exact HJ|].
      cbn [with_settlement e_request]. eapply Hkey; eauto.
  Qed.

  Lemma observe_from_PJ l2 : D = 256%nat -> forall l1 idx idx',
    P l1 idx -> J idx -> observe_from idx l2 = Ok idx' -> J idx'.
  Proof.
    intros HD. induction l2 as [|t l2 IH]; intros l1 idx idx' HP HJ Ho.
    - cbn in Ho. inversion Ho; subst. exact HJ.
    - cbn [ExtAct.observe_from] in Ho. destruct (apply_record idx t) as [i|] eqn:Ea; [|discriminate].
      apply (IH (l1 ++ [t]) i idx'); [eapply apply_record_P; eauto| |exact Ho].
      unfold ExtAct.apply_record in Ea.
      destruct (apply_body idx (tx_body t) (tx_lsn t)) as [i'|] eqn:Eb; [|discriminate].
      destruct ((tx_before t =? root idx) && (tx_after t =? root i')); [|discriminate].
      inversion Ea; subst. eapply apply_body_J; eauto. apply HP.
  Qed.

  Lemma Inv_root s :
    D = 256%nat -> EH = empty_table D -> Inv s ->
    root (co_index (sy_coord s)) = spec_root H D (ix_entries (co_index (sy_coord s))).
  Proof.
    intros HD HEH [idxC [Hobs [H1 H2]]]. apply J_root.
    assert (HJ : forall l idx, observe l = Ok idx -> J idx).
    { intros l idx Ho. eapply (observe_from_PJ l HD [] empty_index idx P_empty (J_empty HEH)). exact Ho. }
    destruct (co_ready (sy_coord s)) eqn:Er.
    - destruct (H1 eq_refl) as [_ [_ [-> _]]]. eapply HJ; eauto.
    - destruct (H2 eq_refl) as [->|[l [t [_ Ho]]]]; eapply HJ; eauto.
  Qed.

  (* ---------------------------------------------------------------- remaining facts *)
  Lemma Inv_grants_agree s c1 n1 c2 n2 :
    Inv s -> has (committed s) n1 (BClaim c1) -> has (committed s) n2 (BClaim c2) ->
    cl_request c1 = cl_request c2 -> c1 = c2 /\ n1 = n2.
  Proof.
    intros [idxC [Hobs _]] [t1 [Hi1 [Hl1 Hb1]]] [t2 [Hi2 [Hl2 Hb2]]] Hk.
    destruct (observe_P _ _ Hobs) as [_ [_ [_ Hrefl]]].
    pose proof (Hrefl t1 Hi1) as R1. pose proof (Hrefl t2 Hi2) as R2. rewrite Hb1 in R1. rewrite Hb2 in R2.
    destruct R1 as [e1 [G1 [C1 N1]]]. destruct R2 as [e2 [G2 [C2 N2]]].
    rewrite Hk in G1. rewrite G1 in G2. inversion G2; subst e2. split; congruence.
  Qed.

  Lemma Inv_settlement_exact s st n :
    Inv s -> has (committed s) n (BSettle st) ->
    exists r cl nr nc,
      has (committed s) nr (BRequest r) /\ has (committed s) nc (BClaim cl) /\
      validate_identity H r = None /\ validate_claim H r cl = None /\ validate_candidate H r cl st = None.
  Proof.
    intros [idxC [Hobs _]] [t [Hi [Hl Hb]]].
    destruct (observe_P _ _ Hobs) as [[_ Hok] [_ [Hback Hrefl]]].
    pose proof (Hrefl t Hi) as R. rewrite Hb in R. destruct R as [e [Hg [Hs _]]].
    destruct (Hok _ _ Hg) as [_ [Hvi Hrest]]. destruct (Hback _ _ Hg) as [Hbr [Hbc _]].
    destruct (e_claim e) as [cl|] eqn:Ec.
    - destruct Hrest as [Hvc [_ Hrest]]. rewrite Hs in Hrest. destruct Hrest as [Hvs _].
      destruct (Hbc cl eq_refl) as [nc [_ Hnc]].
      exists (e_request e), cl, (e_request_commit e), nc. auto.
    - destruct Hrest as [_ [X _]]. congruence.
  Qed.

  Lemma fault_step s o :
    op_fault o <> NoFault ->
    is_grant (snd (step s o)) = false /\
    co_index (sy_coord (fst (step s o))) = co_index (sy_coord s) /\
    (op_fault o <> FailAfterSync -> committed (fst (step s o)) = committed s).
  Proof.
    intros Hf.
    destruct o as [r f|r a basis ordinal lease f|gr gc gcommit cand f|cand|id|id|id| |]; cbn [op_fault] in Hf;
      try (exfalso; apply Hf; reflexivity); cbn [ExtAct.step op_fault].
    - destruct (record_request_cases s r f) as [[e ->]|[_ [_ [_ ->]]]]; [cbn; auto|].
      rewrite commit_entry_cases. cbv zeta. destruct f; cbn; auto; try (exfalso; apply Hf; reflexivity).
      repeat split; auto. intros X; exfalso; apply X; reflexivity.
    - destruct (claim_action_cases s r a basis ordinal lease f) as [[e ->]|[rec [_ [_ [_ [_ [_ [_ [_ [_ Heq]]]]]]]]]];
        [cbn; auto|].
      cbv zeta in Heq. rewrite Heq, commit_entry_cases. cbv zeta.
      destruct f; cbn; auto; try (exfalso; apply Hf; reflexivity).
      repeat split; auto. intros X; exfalso; apply X; reflexivity.
    - destruct (admit_settlement_cases s gr gc gcommit cand f) as [[e ->]|[rec [_ [_ [_ [_ [_ [_ [_ ->]]]]]]]]];
        [cbn; auto|].
      rewrite commit_entry_cases. cbv zeta. destruct f; cbn; auto; try (exfalso; apply Hf; reflexivity).
      repeat split; auto. intros X; exfalso; apply X; reflexivity.
  Qed.
End Proofs.

(* ------------------------------------------------------------------ statements pinned in Props/C17.v *)
Definition committed_after H D EH ops := committed (state_after H D EH ops).

Lemma lifecycle_prefix_run H D EH ops k :
  exists sfx, steps_of k (committed_after H D EH ops) ++ sfx = [SRequested; SClaimed; SSettled].
Proof. apply (Inv_lifecycle H D EH), state_after_Inv. Qed.

Lemma one_claim_run H D EH ops k :
  (length (filter (is_claim_grant k) (trace_of H D EH ops)) <= 1)%nat.
Proof.
  pose proof (run_from_claims H D EH ops k (init_sys 0)) as X.
  pose proof (Inv_nclaims H D EH _ k (state_after_Inv H D EH ops)) as Y.
  assert (Z : nclaims k (committed (init_sys 0)) = 0%nat) by reflexivity.
  unfold trace_of, state_after in *. unfold ExtAct.run in *. lia.
Qed.

Lemma log_before_grant_run H D EH ops o r :
  In (o, r) (trace_of H D EH ops) -> grant_backed r (committed_after H D EH ops).
Proof. apply (run_from_backed H D EH ops (init_sys 0) (Inv_init H D EH 0)). Qed.

Lemma grants_agree_run H D EH ops o1 r1 c1 n1 o2 r2 c2 n2 :
  In (o1, OutGrant r1 c1 n1) (trace_of H D EH ops) -> In (o2, OutGrant r2 c2 n2) (trace_of H D EH ops) ->
  rq_id r1 = rq_id r2 -> c1 = c2 /\ n1 = n2.
Proof.
  intros I1 I2 Hk. apply log_before_grant_run in I1, I2. cbn [grant_backed] in I1, I2.
  destruct I1 as [B1 K1], I2 as [B2 K2].
  eapply (Inv_grants_agree H D EH _ c1 n1 c2 n2 (state_after_Inv H D EH ops)); eauto. congruence.
Qed.

Lemma settlement_exact_run H D EH ops st n :
  has (committed_after H D EH ops) n (BSettle st) ->
  exists r cl nr nc,
    has (committed_after H D EH ops) nr (BRequest r) /\ has (committed_after H D EH ops) nc (BClaim cl) /\
    rq_id r = st_request st /\ cl_request cl = st_request st /\
    st_attempt st = cl_attempt cl /\ st_adapter st = cl_adapter cl /\
    cl_attempt cl = attempt_id H (rq_id r) (cl_ordinal cl) (cl_adapter cl) (cl_lease cl) (cl_policy cl) /\
    cl_ordinal cl < rq_max_attempts r /\ rq_max_attempts r = 1 /\
    st_basis st = rq_basis r /\ st_schema st = rq_set_schema r /\
    lenN (st_bytes st) <= rq_max_bytes r /\ rq_max_bytes r <= MAX_SETTLEMENT_BYTES /\
    H32 H (st_bytes st) = st_digest st /\ st_schema_ev st <> 0 /\ st_ext_ev st <> 0.
Proof.
  intros Hh. destruct (Inv_settlement_exact H D EH _ st n (state_after_Inv H D EH ops) Hh)
    as [r [cl [nr [nc [Hr [Hc [Vi [Vc Vs]]]]]]]].
  exists r, cl, nr, nc.
  destruct (validate_identity_facts H _ Vi) as [_ [_ [Ha Hm]]].
  destruct (validate_claim_facts H _ _ Vc) as [Ecl [Ho _]].
  destruct (validate_candidate_facts H _ _ _ Vs) as [A1 [A2 [A3 [A4 [A5 [A6 [A7 [A8 A9]]]]]]]].
  pose proof (validate_claim_request H _ _ Vc) as Hq.
  repeat split; auto; try congruence.
  rewrite Ecl at 1. reflexivity.
Qed.

Lemma recover_eq_live_run H D EH ops :
  co_ready (sy_coord (state_after H D EH ops)) = true ->
  recover H D EH (sy_store (state_after H D EH ops)) = Ok (sy_coord (state_after H D EH ops)).
Proof. apply (Inv_recover H D EH), state_after_Inv. Qed.

Lemma recover_after_crash_run H D EH ops :
  let s := state_after H D EH ops in
  exists co, recover H D EH (truncate (sy_store s)) = Ok co /\ co_ready co = true /\
    (co_ready (sy_coord s) = true -> co = sy_coord s) /\
    (co_index co = co_index (sy_coord s) \/
     exists l t, sto_committed (sy_store s) = l ++ [t] /\ observe H D EH l = Ok (co_index (sy_coord s)) /\
                 observe H D EH (l ++ [t]) = Ok (co_index co)).
Proof. cbv zeta. apply (Inv_recover_truncated H D EH), state_after_Inv. Qed.

Lemma root_rebuilt_run H ops :
  let EH := empty_table H 256 256 in
  let idx := co_index (sy_coord (state_after H 256 EH ops)) in
  root_digest EH idx = spec_root H 256 (ix_entries idx).
Proof. cbv zeta. apply Inv_root; [reflexivity|reflexivity|apply state_after_Inv]. Qed.
