(* C05 proofs, part 3: checkpoints, linked chains, witnesses. *)
From Coq Require Import List NArith Bool Lia PeanoNat.
From Echo Require Import Base.Bytes Model.Chain.
From Echo Require Import Proofs.ChainProofs Proofs.ChainProofs2.
Import ListNotations.
Open Scope N_scope.

Section MoreReplay.
  Variable H : bytes -> N.
  Variable St : Type.
  Variable apply : St -> list op -> option St.
  Variable root : St -> N.
  Variable lc : bool.
  Variable wl : N.
  Variable u0 : N.

  Notation run := (run H St apply root lc wl u0).
  Notation advance_one := (advance_one H St apply root lc wl u0).
  Notation artifacts := (artifacts H).

  Lemma run_snoc_root es e t w r : run (es ++ [e]) t w = inr r -> root (rs_state r) = e_root e.
  Proof.
    rewrite run_app. destruct (run es t w) as [x|w1]; [discriminate|]. cbn.
    destruct (advance_one (t + lenN es) e w1) as [x|w2] eqn:A; [discriminate|].
    intros E; injection E as <-.
    destruct (advance_one_ok _ _ _ _ _ _ _ _ _ _ _ A) as (p & s & a & _ & _ & _ & Er & _ & _ & ->). exact Er.
  Qed.

  Lemma firstn_snoc {A} (l : list A) k e : nth_error l k = Some e -> firstn (S k) l = firstn k l ++ [e].
  Proof.
    revert k; induction l as [|x l IH]; intros [|k] Nx; cbn in *; try discriminate.
    - injection Nx as ->. reflexivity.
    - f_equal. auto.
  Qed.

  Variable art_eqb : art -> art -> bool.
  Hypothesis art_eqb_sound : forall a b, art_eqb a b = true -> a = b.

  Lemma arts_match_run es : forall arts t w r,
    arts_match H art_eqb es arts = true -> run es t w = inr r -> rs_hist r = rs_hist w ++ arts.
  Proof.
    induction es as [|e es IH]; intros [|a arts] t w r M R; cbn in M; try discriminate.
    - cbn in R. injection R as <-. rewrite app_nil_r. reflexivity.
    - destruct (e_patch e) as [p|] eqn:Ep; [|discriminate].
      destruct (artifacts e p) as [x|a'] eqn:Ar; [discriminate|].
      apply andb_prop in M. destruct M as [Ma Mr]. apply art_eqb_sound in Ma. subst a'.
      cbn in R. destruct (advance_one t e w) as [x|w1] eqn:A; [discriminate|].
      destruct (advance_one_ok _ _ _ _ _ _ _ _ _ _ _ A) as (p0 & s & a0 & Ep0 & _ & _ & _ & _ & Ar0 & ->).
      rewrite Ep in Ep0. injection Ep0 as <-. rewrite Ar in Ar0. injection Ar0 as <-.
      rewrite (IH _ _ _ _ Mr R). cbn [rs_hist]. rewrite <- app_assoc. reflexivity.
  Qed.

  (* a checkpoint accepted by add_checkpoint carries exactly the verified replay's root and tick history *)
  Theorem checkpoint_validated_proof h cp base bw r :
    h_u0 h = u0 ->
    validate_checkpoint H St root art_eqb h cp = None ->
    replay_at H St apply root lc wl h base bw (cp_tick cp) = inr r ->
    root (rs_state (cp_state cp)) = root (rs_state r) /\ rs_hist (cp_state cp) = rs_hist r.
  Proof.
    intros Hu V R. unfold validate_checkpoint in V.
    destruct (lenN (h_entries h) <? cp_tick cp) eqn:L; [discriminate|].
    destruct (root (rs_state (cp_state cp)) =? cp_hash cp); cbn [negb] in V; [|discriminate].
    destruct (expected_root_at h (cp_tick cp)) as [x|] eqn:Ex; [|discriminate].
    destruct (root (rs_state (cp_state cp)) =? x) eqn:Erx; cbn [negb] in V; [|discriminate].
    destruct (rs_tick St (cp_state cp) =? cp_tick cp); cbn [negb] in V; [|discriminate].
    destruct (arts_match H art_eqb (slice (h_entries h) 0 (cp_tick cp)) (rs_hist (cp_state cp))) eqn:M;
      cbn [negb] in V; [|discriminate].
    apply N.eqb_eq in Erx. apply N.ltb_ge in L.
    unfold replay_at in R. rewrite (proj2 (N.ltb_ge _ _) L) in R.
    destruct (bw =? h_u0 h); cbn [negb] in R; [|discriminate].
    destruct (root base =? h_boundary h) eqn:Eb; cbn [negb] in R; [|discriminate].
    rewrite Hu in R. apply N.eqb_eq in Eb.
    split.
    - rewrite Erx. unfold expected_root_at in Ex.
      destruct (cp_tick cp =? 0) eqn:E0.
      + apply N.eqb_eq in E0. rewrite E0 in R. injection Ex as <-.
        unfold slice in R. cbn in R. injection R as <-. cbn. auto.
      + apply N.eqb_neq in E0.
        destruct (lookupN (h_entries h) (cp_tick cp - 1)) as [e|] eqn:Le; [|discriminate].
        injection Ex as <-. unfold lookupN in Le.
        unfold slice in R. rewrite N.sub_0_r in R. replace (N.to_nat 0) with 0%nat in R by reflexivity.
        cbn [skipn] in R.
        replace (N.to_nat (cp_tick cp)) with (S (N.to_nat (cp_tick cp - 1))) in R by lia.
        rewrite (firstn_snoc _ _ _ Le) in R. symmetry. eapply run_snoc_root; eauto.
    - rewrite (arts_match_run _ _ _ _ _ M R). reflexivity.
  Qed.

  (* -------------------------------------------------------------------------------------------- linked chains *)
  (* what the coordinator produces (coordinator_chain_linked) and what a linking verifier would check *)
  Definition linked (es : list entry) : Prop :=
    forall i e0 e1, nth_error es i = Some e0 -> nth_error es (S i) = Some e1 -> parent_ids e1 = [e_commit e0].

  Lemma linked_prefix es e : linked (es ++ [e]) -> linked es.
  Proof.
    intros L i e0 e1 N0 N1. apply (L i); rewrite nth_error_app1; auto; apply nth_error_Some; congruence.
  Qed.

  Lemma nth_snoc2_a {A} (es : list A) x e : nth_error ((es ++ [x]) ++ [e]) (length es) = Some x.
  Proof.
    rewrite <- app_assoc. rewrite nth_error_app2 by lia. rewrite Nat.sub_diag. reflexivity.
  Qed.
  Lemma nth_snoc2_b {A} (es : list A) x e : nth_error ((es ++ [x]) ++ [e]) (S (length es)) = Some e.
  Proof.
    rewrite nth_error_app2 by (rewrite app_length; cbn; lia). rewrite app_length. cbn [length].
    replace (S (length es) - (length es + 1))%nat with 0%nat by lia. reflexivity.
  Qed.

  Theorem linked_tip_binds_proof es : forall es' e e' t t' w w' r r',
    length es = length es' ->
    Forall (fun x => wf_entry x = true) (es ++ [e]) -> Forall (fun x => wf_entry x = true) (es' ++ [e']) ->
    run (es ++ [e]) t w = inr r -> run (es' ++ [e']) t' w' = inr r' ->
    linked (es ++ [e]) -> linked (es' ++ [e']) ->
    e_commit e = e_commit e' ->
    map e_commit (es ++ [e]) = map e_commit (es' ++ [e']) \/ Collision H.
  Proof.
    induction es as [|x es IH] using rev_ind; intros es' e e' t t' w w' r r' Len W W' R R' L L' Ec.
    - destruct es'; [|discriminate]. cbn. left. congruence.
    - destruct es' as [|y es'] using rev_ind; [rewrite app_length in Len; cbn in Len; lia|]. clear IHes'.
      rewrite !app_length in Len. cbn in Len. assert (Len' : length es = length es') by lia.
      pose proof R as R0. pose proof R' as R0'.
      rewrite run_app in R0, R0'.
      destruct (run (es ++ [x]) t w) as [?|w1] eqn:R1; [discriminate|].
      destruct (run (es' ++ [y]) t' w') as [?|w1'] eqn:R1'; [discriminate|].
      cbn in R0, R0'.
      destruct (advance_one (t + lenN (es ++ [x])) e w1) as [?|w2] eqn:A; [discriminate|].
      destruct (advance_one (t' + lenN (es' ++ [y])) e' w1') as [?|w2'] eqn:A'; [discriminate|].
      apply Forall_app in W. destruct W as [W1 We]. apply Forall_app in W'. destruct W' as [W1' We'].
      inversion We as [|? ? We1 _]; subst. inversion We' as [|? ? We1' _]; subst.
      destruct (step_binds _ _ _ _ _ _ _ _ _ _ _ _ _ _ _ We1 We1' A A' Ec) as [[Hce _]|C]; [|right; exact C].
      destruct Hce as (Hpar & _).
      pose proof (L _ _ _ (nth_snoc2_a es x e) (nth_snoc2_b es x e)) as P.
      pose proof (L' _ _ _ (nth_snoc2_a es' y e') (nth_snoc2_b es' y e')) as P'.
      assert (Exy : e_commit x = e_commit y) by congruence.
      destruct (IH es' x y t t' w w' w1 w1' Len' W1 W1' R1 R1' (linked_prefix _ _ L) (linked_prefix _ _ L') Exy)
        as [Hm|C]; [|right; exact C].
      left. rewrite (map_app _ (es ++ [x])), (map_app _ (es' ++ [y])), Hm. cbn. congruence.
  Qed.

  (* -------------------------------------------------------------------------------------------- with the check on *)
  Lemma coord_ok t e w :
    lc = true -> coord_link_check St lc wl t e w = None ->
    e_wl e = wl /\ e_tick e = t /\
    match last_commit St w with Some c => In c (parent_ids e) | None => True end.
  Proof.
    intros -> C. unfold coord_link_check in C. cbn [negb] in C.
    destruct (e_wl e =? wl) eqn:E1; cbn [negb] in C; [|discriminate].
    destruct (e_tick e =? t) eqn:E2; cbn [negb] in C; [|discriminate].
    apply N.eqb_eq in E1, E2. repeat split; auto.
    destruct (last_commit St w) as [c|]; auto.
    destruct (existsb (N.eqb c) (parent_ids e)) eqn:Ex; [|discriminate].
    apply existsb_exists in Ex. destruct Ex as (x & Hin & Hx). apply N.eqb_eq in Hx. subst x. exact Hin.
  Qed.

  Lemma last_commit_after t e w w' : advance_one t e w = inr w' -> last_commit St w' = Some (e_commit e).
  Proof.
    intros A. destruct (advance_one_ok _ _ _ _ _ _ _ _ _ _ _ A) as (p & s & a & _ & _ & _ & _ & _ & Ar & ->).
    unfold last_commit. cbn [rs_hist]. rewrite rev_app_distr. cbn.
    destruct (artifacts_ok _ _ _ _ Ar) as (_ & _ & -> & _). reflexivity.
  Qed.

  (* every position of a history that verifies carries its own coordinate *)
  Lemma run_coords es : forall t w r, lc = true -> run es t w = inr r ->
    forall k e, nth_error es k = Some e -> e_wl e = wl /\ e_tick e = t + N.of_nat k.
  Proof.
    induction es as [|x es IH]; intros t w r Hl R [|k] e Nx; cbn in Nx; try discriminate.
    - injection Nx as <-. cbn in R. destruct (advance_one t x w) as [?|w1] eqn:A; [discriminate|].
      destruct (coord_ok _ _ _ Hl (advance_one_coord _ _ _ _ _ _ _ _ _ _ _ A)) as (E1 & E2 & _).
      split; auto. rewrite E2. lia.
    - cbn in R. destruct (advance_one t x w) as [?|w1] eqn:A; [discriminate|].
      destruct (IH _ _ _ Hl R k e Nx) as (E1 & E2). split; auto. rewrite E2. lia.
  Qed.

  Lemma pointwise_prefix {A} (l' : list A) : forall l,
    (forall i y, nth_error l' i = Some y -> nth_error l i = Some y) -> l' = firstn (length l') l.
  Proof.
    induction l' as [|x l' IH]; intros l Hp; cbn; auto.
    destruct l as [|y l]; [specialize (Hp 0%nat x eq_refl); discriminate|].
    pose proof (Hp 0%nat x eq_refl) as H0. cbn in H0. injection H0 as ->. f_equal.
    apply IH. intros i z Nz. apply (Hp (S i) z Nz).
  Qed.

  Lemma structural_pointwise es es' t0 : forall k w r',
    lc = true ->
    (forall y, In y es' -> e_wl y = wl -> exists j, nth_error es j = Some y /\ e_tick y = t0 + N.of_nat j) ->
    run es' (t0 + N.of_nat k) w = inr r' ->
    forall i y, nth_error es' i = Some y -> nth_error es (k + i) = Some y.
  Proof.
    induction es' as [|x xs IH]; intros k w r' Hl Hsrc R i y Ny; [destruct i; discriminate|].
    cbn in R. destruct (advance_one (t0 + N.of_nat k) x w) as [?|w1] eqn:A; [discriminate|].
    destruct (coord_ok _ _ _ Hl (advance_one_coord _ _ _ _ _ _ _ _ _ _ _ A)) as (E1 & E2 & _).
    destruct (Hsrc x (or_introl eq_refl) E1) as (j & Nj & Tj).
    assert (j = k) by lia. subst j.
    destruct i as [|i]; cbn in Ny.
    - injection Ny as <-. rewrite Nat.add_0_r. exact Nj.
    - replace (k + S i)%nat with (S k + i)%nat by lia.
      apply (IH (S k) w1 r' Hl); auto.
      + intros z Hz. apply Hsrc. right. exact Hz.
      + replace (t0 + N.of_nat (S k)) with (t0 + N.of_nat k + 1) by lia. exact R.
  Qed.

  (* Structural tamper (swap / duplication / removal / repetition / as-is transplant from another worldline, in any
     combination): if the edited history still passes replay it is a PREFIX of the original one - i.e. the only
     undetected structural edit is truncation, whose result is the original result for that tick. *)
  Theorem replay_structural_tamper_proof es es' t w w' r r' :
    lc = true ->
    run es t w = inr r ->
    (forall y, In y es' -> In y es \/ e_wl y <> wl) ->
    run es' t w' = inr r' ->
    es' = firstn (length es') es.
  Proof.
    intros Hl R Hsrc R'. apply pointwise_prefix. intros i y Ny.
    apply (structural_pointwise es es' t 0 w' r' Hl); auto.
    - intros z Hz Ez. destruct (Hsrc z Hz) as [Hin|Hn]; [|congruence].
      apply In_nth_error in Hin. destruct Hin as (j & Nj). exists j. split; auto.
      apply (run_coords _ _ _ _ Hl R j z Nj).
    - rewrite N.add_0_r. exact R'.
  Qed.

  (* a verified history of single-parent entries is linked *)
  Lemma run_linked es : forall t w r,
    lc = true -> run es t w = inr r -> (forall e, In e es -> (length (parent_ids e) <= 1)%nat) -> linked es.
  Proof.
    induction es as [|x es IH]; intros t w r Hl R Hs i e0 e1 N0 N1; [destruct i; discriminate|].
    cbn in R. destruct (advance_one t x w) as [?|w1] eqn:A; [discriminate|].
    destruct i as [|i]; cbn in N0, N1.
    - injection N0 as <-. destruct es as [|y es]; [discriminate|]. cbn in N1. injection N1 as <-.
      cbn in R. destruct (advance_one (t + 1) y w1) as [?|w2] eqn:A2; [discriminate|].
      destruct (coord_ok _ _ _ Hl (advance_one_coord _ _ _ _ _ _ _ _ _ _ _ A2)) as (_ & _ & L).
      rewrite (last_commit_after _ _ _ _ A) in L.
      assert (Hlen : (length (parent_ids y) <= 1)%nat) by (apply Hs; right; left; reflexivity).
      destruct (parent_ids y) as [|c [|c' rest]]; cbn in L, Hlen; [tauto| |lia].
      destruct L as [->|[]]. reflexivity.
    - apply (IH _ _ _ Hl R (fun e He => Hs e (or_intror He)) i e0 e1 N0 N1).
  Qed.

  (* With the check on, replay itself establishes the link, so ONE trusted tip commit id pins the whole commit-id
     chain of any history of single-parent entries that verifies (and then, by replay_anchored, every committed
     field of every entry and the state root). *)
  Theorem replay_tip_anchored_proof es es' e e' t t' w w' r r' :
    lc = true ->
    length es = length es' ->
    Forall (fun x => wf_entry x = true) (es ++ [e]) -> Forall (fun x => wf_entry x = true) (es' ++ [e']) ->
    (forall x, In x (es ++ [e]) -> (length (parent_ids x) <= 1)%nat) ->
    (forall x, In x (es' ++ [e']) -> (length (parent_ids x) <= 1)%nat) ->
    run (es ++ [e]) t w = inr r -> run (es' ++ [e']) t' w' = inr r' ->
    e_commit e = e_commit e' ->
    map e_commit (es ++ [e]) = map e_commit (es' ++ [e']) \/ Collision H.
  Proof.
    intros Hl Len W W' S S' R R' Ec.
    eapply linked_tip_binds_proof; eauto; eapply run_linked; eauto.
  Qed.
End MoreReplay.

(* the two theorems that need the check, specialised to lc = true (the code as it is) *)
Lemma replay_structural_tamper_on (H : bytes -> N) (St : Type) (apply : St -> list op -> option St)
  (root : St -> N) (wl u0 : N) es es' t w w' r r' :
  run H St apply root true wl u0 es t w = inr r ->
  (forall y, In y es' -> In y es \/ e_wl y <> wl) ->
  run H St apply root true wl u0 es' t w' = inr r' ->
  es' = firstn (length es') es.
Proof. apply replay_structural_tamper_proof. reflexivity. Qed.

Lemma replay_tip_anchored_on (H : bytes -> N) (St : Type) (apply : St -> list op -> option St)
  (root : St -> N) (wl u0 : N) es es' e e' t t' w w' r r' :
  length es = length es' ->
  Forall (fun x => wf_entry x = true) (es ++ [e]) -> Forall (fun x => wf_entry x = true) (es' ++ [e']) ->
  (forall x, In x (es ++ [e]) -> (length (parent_ids x) <= 1)%nat) ->
  (forall x, In x (es' ++ [e']) -> (length (parent_ids x) <= 1)%nat) ->
  run H St apply root true wl u0 (es ++ [e]) t w = inr r -> run H St apply root true wl u0 (es' ++ [e']) t' w' = inr r' ->
  e_commit e = e_commit e' ->
  map e_commit (es ++ [e]) = map e_commit (es' ++ [e']) \/ Collision H.
Proof. apply replay_tip_anchored_proof. reflexivity. Qed.

(* ------------------------------------------------------------------------------------------------ witnesses *)
(* a tiny concrete instance of the parameters: the state is a number, a patch `[DeleteWarpInstance v]` sets it to v
   (an absolute write, like SetAttachment / UpsertNode in the real op set), the root is the state itself *)
Definition wapply (s : N) (ops : list op) : option N :=
  match ops with [DeleteWarpInstance v] => Some v | _ => None end.
Definition wroot (s : N) : N := s.

Section Witness.
  Variable H : bytes -> N.

  Definition wbody (v : N) : pbody :=
    {| pb_policy := 0; pb_rule_pack := 0; pb_status := 1; pb_in := []; pb_out := []; pb_ops := [DeleteWarpInstance v] |}.
  Definition wpatch (v plan : N) : patch :=
    {| p_gtick := 0; p_policy := 0; p_rule_pack := 0; p_plan := plan; p_decision := 0; p_rewrites := 0; p_warp := 0;
       p_ops := [DeleteWarpInstance v]; p_in := []; p_out := []; p_digest := patch_digest H (wbody v) |}.
  Definition wentry (tick v plan : N) (parents : list pref) : entry :=
    {| e_wl := 1; e_tick := tick; e_gtick := tick; e_head := Some (1, 1); e_parents := parents; e_kind := 0;
       e_root := v; e_pdig := patch_digest H (wbody v);
       e_commit := commit_id H {| cb_parents := map pr_commit parents; cb_root := v;
                                  cb_pdig := patch_digest H (wbody v); cb_policy := 0 |};
       e_patch := Some (wpatch v plan); e_receipt := None; e_outputs := []; e_atoms := 0 |}.
  Definition we0 := wentry 0 1 0 [].
  Definition we1 := wentry 1 2 0 [e_ref we0].
  Definition wbase : rstate N := {| rs_state := 0; rs_hist := [] |}.

  Lemma wbody_replay v plan : replay_body (wpatch v plan) = wbody v.
  Proof. reflexivity. Qed.

  Lemma wadvance t tick v plan parents (w : rstate N) :
    tick < u64_max ->
    exists a, advance_one H N wapply wroot false 1 0 t (wentry tick v plan parents) w =
              inr {| rs_state := v; rs_hist := rs_hist w ++ [a] |} /\
              a_commit a = e_commit (wentry tick v plan parents) /\ a_plan a = plan.
  Proof.
    intros Lt. unfold advance_one, coord_link_check. cbn [negb e_patch wentry p_warp wpatch p_ops wapply wroot e_root].
    rewrite !N.eqb_refl. cbn [negb].
    unfold artifacts. rewrite wbody_replay. cbn [e_pdig p_digest e_tick e_receipt wentry wpatch]. rewrite !N.eqb_refl. cbn [negb].
    destruct (u64_max <=? tick) eqn:Le; [apply N.leb_le in Le; lia|].
    eexists. split; [reflexivity|]. cbn. auto.
  Qed.

  (* FULL statement "any alteration is rejected or yields the original result" is FALSE of the replay verifier:
     an entry replaced by a copy of a later entry (duplication) is accepted whenever its patch is an absolute write,
     because replay checks every entry against itself only (its own root / digest / commit id), never against its
     position or its predecessor.  Holds for EVERY hash function. *)
  Theorem replay_any_tamper_refuted_proof :
    exists (h : list entry) (dup : entry),
      nth_error h 1 = Some dup /\
      exists r r1 r1' r',
        run H N wapply wroot false 1 0 h 0 wbase = inr r /\                                     (* the original verifies *)
        run H N wapply wroot false 1 0 (firstn 1 h) 0 wbase = inr r1 /\                          (* original, tick 1 *)
        run H N wapply wroot false 1 0 (firstn 1 (replace_nth 0 dup h)) 0 wbase = inr r1' /\     (* entry 0 := entry 1 *)
        rs_state r1 <> rs_state r1' /\ rs_tick N r1 = rs_tick N r1' /\
        run H N wapply wroot false 1 0 (replace_nth 0 dup h) 0 wbase = inr r'.                  (* ... and all of it *)
  Proof.
    assert (L0 : 0 < u64_max) by reflexivity. assert (L1 : 1 < u64_max) by reflexivity.
    exists [we0; we1], we1. split; [reflexivity|].
    cbn [firstn replace_nth run].
    destruct (wadvance 0 0 1 0 [] wbase L0) as (a0 & A0 & _).
    destruct (wadvance 0 1 2 0 [e_ref we0] wbase L1) as (b0 & B0 & _).
    destruct (wadvance (0 + 1) 1 2 0 [e_ref we0] {| rs_state := 1; rs_hist := rs_hist wbase ++ [a0] |} L1)
      as (a1 & A1 & _).
    destruct (wadvance (0 + 1) 1 2 0 [e_ref we0] {| rs_state := 2; rs_hist := rs_hist wbase ++ [b0] |} L1)
      as (b1 & B1 & _).
    fold we0 in A0. fold we1 in B0, A1, B1.
    rewrite A0, A1, B0, B1.
    do 4 eexists. repeat split; try reflexivity. cbn. discriminate.
  Qed.

  (* information: the diagnostic plan digest is retained, replayed into the result, and bound by nothing (documented:
     docs/spec/merkle-commit.md decision 3) - the core result is unaffected *)
  Theorem diagnostics_unbound_refuted_proof :
    exists e e', agree_except Fpatch e e' /\
      exists r r', run H N wapply wroot false 1 0 [e] 0 wbase = inr r /\ run H N wapply wroot false 1 0 [e'] 0 wbase = inr r' /\
                   core_result N wroot r = core_result N wroot r' /\ map a_plan (rs_hist r) <> map a_plan (rs_hist r').
  Proof.
    assert (L0 : 0 < u64_max) by reflexivity.
    exists we0, (wentry 0 1 7 []). split.
    - unfold agree_except. repeat split; intros; try reflexivity. congruence.
    - cbn [run].
      destruct (wadvance 0 0 1 0 [] wbase L0) as (a0 & A0 & C0 & P0).
      destruct (wadvance 0 0 1 7 [] wbase L0) as (b0 & B0 & D0 & Q0).
      fold we0 in A0. rewrite A0, B0. do 2 eexists. repeat split; try reflexivity.
      + unfold core_result, rs_tick. cbn. rewrite C0, D0. reflexivity.
      + cbn. rewrite P0, Q0. discriminate.
  Qed.
End Witness.

(* a concrete hash function for the non-vacuity Example of Props/C05.v *)
Definition Hpoly (l : bytes) : N := fold_left (fun a b => (a * 257 + b + 1) mod two256) l 7.

(* ------------------------------------------------------------------------------------------------ the link check at work *)
Section LinkCheck.
  Variable H : bytes -> N.
  Variable St : Type.
  Variable apply : St -> list op -> option St.
  Variable root : St -> N.
  Variable wl u0 : N.

  Notation run := (run H St apply root true wl u0).
  Notation advance_one := (advance_one H St apply root true wl u0).

  (* the first entry of ANY run (full, cursor step, restored checkpoint) that starts on a state whose last replayed
     commit is c is rejected when none of its parents is c *)
  Lemma link_rejects_first e rest t w c :
    last_commit St w = Some c -> ~ In c (parent_ids e) -> exists x, run (e :: rest) t w = inl x.
  Proof.
    intros L Hn. cbn [Chain.run].
    destruct (advance_one t e w) as [x|w'] eqn:A; [eauto|]. exfalso.
    pose proof (advance_one_coord H St apply root true wl u0 _ _ _ _ A) as C.
    eapply coord_ok in C; [|reflexivity]. destruct C as (_ & _ & Hl). rewrite L in Hl. auto.
  Qed.

  Lemma run_snoc_last_commit pre p t w w1 : run (pre ++ [p]) t w = inr w1 -> last_commit St w1 = Some (e_commit p).
  Proof.
    rewrite (run_app H St apply root true wl u0). destruct (run pre t w) as [x|w0]; [discriminate|]. cbn [Chain.run].
    destruct (advance_one (t + lenN pre) p w0) as [x|w2] eqn:A; [discriminate|].
    intros E; injection E as <-. eapply (last_commit_after H St apply root true wl u0); eauto.
  Qed.

  (* An entry served at coordinate k >= 1 whose recorded parents do not contain the commit of the verified entry k-1
     (a re-labelled copy of entry k-1, whose parents name entry k-2, or of entry k+1, whose parents name entry k, or
     anything else) is rejected: by the full replay of the edited history to any target beyond k, and by every
     incremental run that starts at k on a state whose last replayed commit is that of entry k-1. *)
  Theorem replay_unlinked_entry_rejected_proof pre p e rest t w w1 :
    run (pre ++ [p]) t w = inr w1 ->
    ~ In (e_commit p) (parent_ids e) ->
    (exists x, run ((pre ++ [p]) ++ e :: rest) t w = inl x) /\
    (forall w2 t2, last_commit St w2 = Some (e_commit p) -> exists x, run (e :: rest) t2 w2 = inl x).
  Proof.
    intros R Hn. split.
    - rewrite (run_app H St apply root true wl u0), R.
      eapply link_rejects_first; eauto. eapply run_snoc_last_commit; eauto.
    - intros w2 t2 L. eapply link_rejects_first; eauto.
  Qed.
End LinkCheck.

(* At the genesis coordinate nothing is replayed before the entry, so the link check has nothing to compare with: an
   entry that records parents is accepted there (advance_replay_state only checks the link when tick_history is
   non-empty).  Its commit id differs from the parent-less genesis commit, or H collides. *)
Section Genesis.
  Variable H : bytes -> N.
  Local Transparent id32 u64le u32le u16le.

  Lemma wadvance_on tick v plan parents :
    tick < u64_max ->
    exists a, advance_one H N wapply wroot true 1 0 tick (wentry H tick v plan parents) wbase =
              inr {| rs_state := v; rs_hist := [a] |} /\
              a_commit a = e_commit (wentry H tick v plan parents).
  Proof.
    intros Lt. unfold advance_one, coord_link_check, last_commit.
    cbn [negb wbase rs_hist rev e_wl e_tick e_patch wentry p_warp wpatch p_ops wapply wroot e_root rs_state app].
    rewrite !N.eqb_refl. cbn [negb].
    unfold artifacts. rewrite wbody_replay. cbn [e_pdig p_digest e_tick e_receipt wentry wpatch]. rewrite !N.eqb_refl. cbn [negb].
    destruct (u64_max <=? tick) eqn:Le; [apply N.leb_le in Le; lia|].
    eexists. split; [reflexivity|]. cbn. auto.
  Qed.

  Lemma commit_preimage_parents_differ x root pdig pol :
    commit_preimage {| cb_parents := []; cb_root := root; cb_pdig := pdig; cb_policy := pol |} <>
    commit_preimage {| cb_parents := [x]; cb_root := root; cb_pdig := pdig; cb_policy := pol |}.
  Proof.
    intros E. apply (f_equal (@length N)) in E. unfold commit_preimage, flat in E.
    cbn [cb_parents cb_root cb_pdig cb_policy map concat] in E.
    rewrite !app_length in E. unfold id32, u16le, u32le, u64le in E.
    rewrite !be_bytes_length, !le_bytes_length in E. cbn [length] in E. lia.
  Qed.

  Theorem genesis_entry_with_parents_accepted_refuted_proof :
    exists (e0 e : entry),
      e_parents e0 = [] /\ e_parents e <> [] /\
      exists r r', run H N wapply wroot true 1 0 [e0] 0 wbase = inr r /\
                   run H N wapply wroot true 1 0 [e] 0 wbase = inr r' /\
                   rs_state r = rs_state r' /\
                   (map a_commit (rs_hist r) <> map a_commit (rs_hist r') \/ Collision H).
  Proof.
    assert (L0 : 0 < u64_max) by reflexivity.
    exists (we0 H), (wentry H 0 1 0 [{| pr_wl := 1; pr_tick := 7; pr_commit := 5 |}]).
    split; [reflexivity|]. split; [discriminate|].
    cbn [run].
    destruct (wadvance_on 0 1 0 [] L0) as (a0 & A0 & C0).
    destruct (wadvance_on 0 1 0 [{| pr_wl := 1; pr_tick := 7; pr_commit := 5 |}] L0) as (a1 & A1 & C1).
    fold (we0 H) in A0, C0. rewrite A0, A1. do 2 eexists. repeat split; try reflexivity.
    cbn [rs_hist map]. rewrite C0, C1.
    destruct (N.eq_dec (e_commit (we0 H))
                       (e_commit (wentry H 0 1 0 [{| pr_wl := 1; pr_tick := 7; pr_commit := 5 |}]))) as [E|Hn].
    - right. unfold we0, wentry in E. cbn [e_commit map pr_commit] in E. unfold commit_id in E.
      destruct (hash_eq_cases H _ _ E) as [Ep|C]; auto.
      exfalso. eapply commit_preimage_parents_differ; eauto.
    - left. congruence.
  Qed.
End Genesis.
