(* Lemmas about Model/Root.v (C06), part 4: every state built through the GraphStore / WarpState
   API or by apply_ops_to_state is well formed (the hypothesis of the layout and agreement
   theorems). *)
From Coq Require Import List NArith Lia Permutation Bool.
From Echo Require Import Base.FinMap Base.Order Base.Bytes Model.Root Proofs.RootProofs Proofs.RootProofs2 Proofs.RootProofs3.
Import ListNotations.
Open Scope N_scope.

(* ------------------------------------------------------------------ *)
(* bucket maps under set / del / drop_edges *)

Lemma flat_set_perm {V} (k : N) (v : list V) (m : list (N * list V)) :
  Permutation (flat_map snd (set N.compare k v m)) (v ++ flat_map snd (del N.compare k m)).
Proof.
  induction m as [|[k1 v1] r IH]; cbn.
  - rewrite app_nil_r. reflexivity.
  - destruct (N.compare k k1) eqn:E; cbn.
    + reflexivity.
    + reflexivity.
    + rewrite IH. rewrite !app_assoc. apply Permutation_app_tail, Permutation_app_comm.
Qed.

Lemma flat_del_perm {V} (k : N) (m : list (N * list V)) : sorted N.compare m ->
  Permutation (flat_map snd m)
    (match find N.compare k m with Some b => b | None => [] end ++ flat_map snd (del N.compare k m)).
Proof.
  induction m as [|[k1 v1] r IH]; cbn [flat_map find del snd]; intros Hs; auto.
  destruct (N.compare k k1) eqn:E.
  - reflexivity.
  - assert (F : find N.compare k ((k1, v1) :: r) = None) by (apply (find_lb_none N.compare n_tr); [exact Hs|exact E]).
    cbn in F. rewrite E in F. rewrite F. reflexivity.
  - destruct Hs as [_ Hs]. cbn [flat_map snd]. rewrite (IH Hs) at 1.
    rewrite !app_assoc. apply Permutation_app_tail, Permutation_app_comm.
Qed.

Definition keep (p : edge -> bool) (b : list edge) : list edge := filter (fun e => negb (p e)) b.

Lemma filter_flat_map {A B} (f : B -> bool) (g : A -> list B) l :
  filter f (flat_map g l) = flat_map (fun x => filter f (g x)) l.
Proof. induction l as [|x l IH]; cbn; auto. rewrite filter_app, IH. reflexivity. Qed.

Lemma drop_edges_flat p m : flat_map snd (drop_edges p m) = keep p (flat_map snd m).
Proof.
  unfold keep. rewrite filter_flat_map. unfold drop_edges. rewrite flat_map_flat_map.
  apply flat_map_ext. intros [k b]. cbn [fst snd].
  destruct (filter (fun e => negb (p e)) b) eqn:E; cbn; rewrite ?app_nil_r; reflexivity.
Qed.

Lemma drop_edges_in p m k b' :
  In (k, b') (drop_edges p m) -> exists b, In (k, b) m /\ b' = keep p b /\ b' <> [].
Proof.
  unfold drop_edges. rewrite in_flat_map. intros ([k1 b] & Hin & H). cbn [fst snd] in H.
  fold (keep p b) in H. destruct (keep p b) as [|x r] eqn:E; [destruct H|].
  destruct H as [H|[]]. inversion H; subst. exists b. split; [exact Hin|]. split; [auto|discriminate].
Qed.

Lemma lb_drop p k m : sorted N.compare m -> lb N.compare k m -> lb N.compare k (drop_edges p m).
Proof.
  intros Hs Hlb. pose proof (lb_all N.compare n_tr k m Hs Hlb) as Hall.
  destruct (drop_edges p m) as [|[k1 b1] r] eqn:E; [exact I|]. cbn.
  assert (Hin : In (k1, b1) (drop_edges p m)) by (rewrite E; left; reflexivity).
  apply drop_edges_in in Hin. destruct Hin as (b & Hin & _). eapply Hall; exact Hin.
Qed.

Lemma drop_edges_cons p k b r :
  drop_edges p ((k, b) :: r) =
  match keep p b with [] => drop_edges p r | b' => (k, b') :: drop_edges p r end.
Proof. unfold drop_edges. cbn. fold (keep p b). destruct (keep p b); reflexivity. Qed.

Lemma sorted_drop p m : sorted N.compare m -> sorted N.compare (drop_edges p m).
Proof.
  induction m as [|[k b] r IH]; intros Hs; [exact I|].
  destruct Hs as [Hlb Hs]. rewrite drop_edges_cons. destruct (keep p b) as [|x b']; [apply IH; exact Hs|].
  split; [apply lb_drop; auto|apply IH; exact Hs].
Qed.

Lemma find_drop p n m : sorted N.compare m ->
  find N.compare n (drop_edges p m) =
  match find N.compare n m with
  | Some b => match keep p b with [] => None | b' => Some b' end
  | None => None
  end.
Proof.
  induction m as [|[k b] r IH]; intros Hs; [reflexivity|].
  destruct Hs as [Hlb Hs]. rewrite drop_edges_cons. cbn [find].
  destruct (N.compare n k) eqn:E.
  - apply N.compare_eq_iff in E. subst k. destruct (keep p b) as [|x b'] eqn:K.
    + apply (find_lb_none N.compare n_tr); [apply sorted_drop; exact Hs|apply lb_drop; auto].
    + cbn. rewrite N.compare_refl. reflexivity.
  - destruct (keep p b) as [|x b']; [|cbn; rewrite E]; apply IH; exact Hs.
  - destruct (keep p b) as [|x b']; [|cbn; rewrite E]; apply IH; exact Hs.
Qed.

(* push_edge *)
Lemma find_push f e m n :
  find N.compare n (push_edge f e m) =
  if n =? f then Some (match find N.compare f m with Some b => b | None => [] end ++ [e])
  else find N.compare n m.
Proof.
  unfold push_edge. destruct (n =? f) eqn:E.
  - apply N.eqb_eq in E. subst n. destruct (find N.compare f m); apply (find_set_same N.compare n_eq).
  - assert (n <> f) by (intros ->; rewrite N.eqb_refl in E; discriminate).
    destruct (find N.compare f m); apply (find_set_other N.compare n_eq); assumption.
Qed.

Lemma sorted_push f e m : sorted N.compare m -> sorted N.compare (push_edge f e m).
Proof. intros Hs. unfold push_edge. destruct (find N.compare f m); apply (set_sorted N.compare n_eq n_as); exact Hs. Qed.

Lemma flat_push_perm f e m : sorted N.compare m ->
  Permutation (flat_map snd (push_edge f e m)) (flat_map snd m ++ [e]).
Proof.
  intros Hs. unfold push_edge. pose proof (flat_del_perm f m Hs) as HP.
  destruct (find N.compare f m) as [b|].
  - rewrite flat_set_perm, HP. rewrite <- !app_assoc. apply Permutation_app_head. apply Permutation_app_comm.
  - rewrite flat_set_perm, HP. cbn [app]. apply Permutation_cons_append.
Qed.

(* ------------------------------------------------------------------ *)
(* WfStore is preserved by every GraphStore operation *)

Lemma WfStore_intro st :
  sorted N.compare (st_nodes st) -> sorted N.compare (st_from st) ->
  sorted N.compare (st_natt st) -> sorted N.compare (st_eatt st) ->
  (forall n b, find N.compare n (st_from st) = Some b -> b <> [] /\ forall e, In e b -> e_from e = n) ->
  NoDup (map e_id (all_edges st)) -> WfStore st.
Proof.
  intros H1 H2 H3 H4 H5 H6. split; auto.
  intros n b F. destruct (H5 n b F) as [Hne Hf]. split; [exact Hne|]. split; [exact Hf|].
  apply (find_in N.compare n_eq) in F. unfold all_edges in H6.
  apply (nodup_segment e_id snd _ (n, b) H6 F).
Qed.

Lemma wf_empty_store : WfStore empty_store.
Proof. apply WfStore_intro; cbn; auto; try (intros n b H; discriminate); try constructor. Qed.

Lemma wf_insert_node st id ty : WfStore st -> WfStore (insert_node st id ty).
Proof.
  intros [H1 H2 H3 H4 H5 H6]. apply WfStore_intro; cbn; auto.
  - apply (set_sorted N.compare n_eq n_as); exact H1.
  - intros n b F. destruct (H5 n b F) as (A & B & _). auto.
Qed.

Lemma sorted_set_opt {V} k (v : option V) m : sorted N.compare m -> sorted N.compare (set_opt k v m).
Proof.
  intros Hs. destruct v; cbn; [apply (set_sorted N.compare n_eq n_as)|apply (del_sorted N.compare n_tr)]; exact Hs.
Qed.

Lemma wf_set_node_att st id v : WfStore st -> WfStore (set_node_att st id v).
Proof.
  intros [H1 H2 H3 H4 H5 H6]. apply WfStore_intro; cbn; auto.
  - apply sorted_set_opt; exact H3.
  - intros n b F. destruct (H5 n b F) as (A & B & _). auto.
Qed.

Lemma wf_set_edge_att st id v : WfStore st -> WfStore (set_edge_att st id v).
Proof.
  intros [H1 H2 H3 H4 H5 H6]. apply WfStore_intro; cbn; auto.
  - apply sorted_set_opt; exact H4.
  - intros n b F. destruct (H5 n b F) as (A & B & _). auto.
Qed.

Lemma sorted_del_keys {V} ks (m : list (N * V)) : sorted N.compare m -> sorted N.compare (del_keys ks m).
Proof.
  unfold del_keys. revert m. induction ks as [|k ks IH]; cbn; intros m Hs; auto.
  apply IH. apply (del_sorted N.compare n_tr); exact Hs.
Qed.

(* dropping edges keeps the bucket invariants *)
Lemma wf_drop st p nodes' natt' eatt' :
  WfStore st -> sorted N.compare nodes' -> sorted N.compare natt' -> sorted N.compare eatt' ->
  WfStore (mkStore nodes' (drop_edges p (st_from st)) natt' eatt').
Proof.
  intros [H1 H2 H3 H4 H5 H6] S1 S3 S4. apply WfStore_intro; cbn; auto.
  - apply sorted_drop; exact H2.
  - intros n b' F. rewrite find_drop in F by exact H2.
    destruct (find N.compare n (st_from st)) as [b|] eqn:Fb; [|discriminate].
    destruct (H5 n b Fb) as (_ & Hf & _).
    destruct (keep p b) as [|x r] eqn:K; [discriminate|]. inversion F; subst b'.
    split; [discriminate|]. intros e He. apply Hf. rewrite <- K in He. apply filter_In in He. tauto.
  - unfold all_edges. cbn. rewrite drop_edges_flat. apply NoDup_map_filter. exact H6.
Qed.

Lemma wf_insert_edge st e : WfStore st -> WfStore (insert_edge st e).
Proof.
  intros Wst. pose proof Wst as [H1 H2 H3 H4 H5 H6].
  set (p := fun x => e_id x =? e_id e).
  pose proof (wf_drop st p _ _ _ Wst H1 H3 H4) as [D1 D2 D3 D4 D5 D6]. cbn in D1, D2, D3, D4, D5, D6.
  unfold insert_edge. fold p. apply WfStore_intro; cbn; auto.
  - apply sorted_push; exact D2.
  - intros n b F. rewrite find_push in F. destruct (n =? e_from e) eqn:En.
    + apply N.eqb_eq in En. subst n. inversion F; subst b. split; [destruct (find N.compare (e_from e) (drop_edges p (st_from st))); [destruct l|]; discriminate|].
      intros x Hx. apply in_app_iff in Hx. destruct Hx as [Hx|[<-|[]]]; [|reflexivity].
      destruct (find N.compare (e_from e) (drop_edges p (st_from st))) as [b0|] eqn:F0; [|destruct Hx].
      destruct (D5 _ _ F0) as (_ & Hf & _). apply Hf; exact Hx.
    + destruct (D5 _ _ F) as (A & B & _). auto.
  - unfold all_edges. cbn.
    eapply Permutation_NoDup; [apply Permutation_map, Permutation_sym, flat_push_perm; exact D2|].
    rewrite map_app. cbn. apply NoDup_app_intro.
    + unfold all_edges in D6. cbn in D6. exact D6.
    + constructor; [intros []|constructor].
    + intros x Hx [<-|[]]. rewrite drop_edges_flat in Hx. apply in_map_iff in Hx.
      destruct Hx as (y & Ey & Hy). unfold keep in Hy. apply filter_In in Hy. destruct Hy as [_ Hy].
      unfold p in Hy. rewrite Ey, N.eqb_refl in Hy. discriminate.
Qed.

Lemma wf_delete_edge_exact st from id : WfStore st -> WfStore (fst (delete_edge_exact st from id)).
Proof.
  intros Wst. unfold delete_edge_exact. destruct (edge_owner st id) as [f|]; [|exact Wst].
  destruct (f =? from); [|exact Wst]. cbn [fst].
  apply wf_drop; [exact Wst|apply Wst|apply Wst|apply (del_sorted N.compare n_tr); apply Wst].
Qed.

Lemma wf_delete_node_cascade st id : WfStore st -> WfStore (fst (delete_node_cascade st id)).
Proof.
  intros Wst. unfold delete_node_cascade. destruct (find N.compare id (st_nodes st)); [|exact Wst]. cbn [fst].
  apply wf_drop; [exact Wst| | |].
  - apply (del_sorted N.compare n_tr); apply Wst.
  - apply (del_sorted N.compare n_tr); apply Wst.
  - apply sorted_del_keys; apply Wst.
Qed.

Lemma del_absent {V} k (m : list (N * V)) : sorted N.compare m -> find N.compare k m = None -> del N.compare k m = m.
Proof.
  induction m as [|[k1 v1] r IH]; cbn; intros Hs F; auto.
  destruct Hs as [_ Hs]. destruct (N.compare k k1) eqn:E; [discriminate|reflexivity|].
  f_equal. apply IH; auto.
Qed.

Lemma wf_delete_node_isolated st id : WfStore st -> WfStore (fst (delete_node_isolated st id)).
Proof.
  intros Wst. unfold delete_node_isolated. destruct (find N.compare id (st_nodes st)) as [ty0|]; [|exact Wst].
  unfold bucket_of. destruct (find N.compare id (st_from st)) as [b|] eqn:F.
  - destruct (wfs_bucket st Wst id b F) as (Hne & _). destruct b; [contradiction|exact Wst].
  - destruct (existsb (fun e => e_to e =? id) (all_edges st)); [exact Wst|]. cbn [fst].
    rewrite (del_absent id (st_from st)) by (auto; apply Wst).
    pose proof Wst as [H1 H2 H3 H4 H5 H6]. apply WfStore_intro; cbn; auto.
    + apply (del_sorted N.compare n_tr); exact H1.
    + apply (del_sorted N.compare n_tr); exact H3.
    + intros n0 b0 Fb. destruct (H5 n0 b0 Fb) as (A & B & _). auto.
Qed.

(* ------------------------------------------------------------------ *)
(* WarpState level *)

Record WfState (s : state) : Prop := {
  wst_stores : sorted N.compare (s_stores s);
  wst_insts : sorted N.compare (s_insts s);
  wst_store : forall w st, get_store s w = Some st -> WfStore st;
  wst_sync : forall w, is_some (get_inst s w) = is_some (get_store s w)
}.

Lemma wf_state_to_prop s : wf_state s = true -> WfState s.
Proof.
  intros W. destruct (wf_state_sorted s W) as [S1 S2]. split; auto.
  - intros w st. apply wf_state_store. exact W.
  - intros w. unfold wf_state in W. rewrite !andb_true_iff in W. destruct W as [[[[_ _] _] H4] H5].
    rewrite forallb_forall in H4, H5. unfold get_inst, get_store in *.
    destruct (find N.compare w (s_insts s)) as [i|] eqn:Ei.
    + apply (find_in N.compare n_eq) in Ei. specialize (H4 _ Ei). cbn in H4. rewrite H4. reflexivity.
    + destruct (find N.compare w (s_stores s)) as [st|] eqn:Es; [|reflexivity].
      apply (find_in N.compare n_eq) in Es. specialize (H5 _ Es). cbn in H5. rewrite Ei in H5. discriminate.
Qed.

Lemma nodupb_complete l : NoDup l -> nodupb l = true.
Proof.
  induction 1 as [|x l Hni Hnd IH]; cbn; auto. rewrite IH, andb_true_r. apply negb_true_iff.
  destruct (existsb (N.eqb x) l) eqn:E; auto. apply existsb_exists in E. destruct E as (y & Hy & Exy).
  apply N.eqb_eq in Exy. subst y. contradiction.
Qed.

Lemma wf_store_of_prop st : WfStore st -> wf_store st = true.
Proof.
  intros [H1 H2 H3 H4 H5 H6]. unfold wf_store. rewrite !andb_true_iff.
  repeat split; try (apply sortedb_spec; assumption).
  - apply forallb_forall. intros [n b] Hin. cbn [fst snd].
    apply (in_find N.compare n_eq n_as n_tr) in Hin; [|exact H2].
    destruct (H5 n b Hin) as (Hne & Hf & _). apply andb_true_iff. split.
    + destruct b; [contradiction|reflexivity].
    + apply forallb_forall. intros e He. apply N.eqb_eq. apply Hf; exact He.
  - apply nodupb_complete; exact H6.
Qed.

Lemma wf_state_of_prop s : WfState s -> wf_state s = true.
Proof.
  intros [S1 S2 HS HY]. unfold wf_state. rewrite !andb_true_iff.
  repeat split; try (apply sortedb_spec; assumption).
  - apply forallb_forall. intros [w st] Hin. cbn [snd]. apply wf_store_of_prop. apply (HS w).
    apply (in_find N.compare n_eq n_as n_tr); assumption.
  - apply forallb_forall. intros [w i] Hin. cbn [fst].
    apply (in_find N.compare n_eq n_as n_tr) in Hin; [|exact S2].
    rewrite <- HY. unfold get_inst. rewrite Hin. reflexivity.
  - apply forallb_forall. intros [w st] Hin. cbn [fst].
    apply (in_find N.compare n_eq n_as n_tr) in Hin; [|exact S1].
    rewrite HY. unfold get_store. rewrite Hin. reflexivity.
Qed.

Lemma get_put s w st' w' :
  get_store (put_store s w st') w' = if w' =? w then Some st' else get_store s w'.
Proof.
  unfold get_store, put_store. cbn. destruct (w' =? w) eqn:E.
  - apply N.eqb_eq in E. subst. apply (find_set_same N.compare n_eq).
  - apply (find_set_other N.compare n_eq). intros ->. rewrite N.eqb_refl in E. discriminate.
Qed.

Lemma wf_put_store s w st' :
  WfState s -> is_some (get_store s w) = true -> WfStore st' -> WfState (put_store s w st').
Proof.
  intros [S1 S2 HS HY] Hsome Wst. split.
  - cbn. apply (set_sorted N.compare n_eq n_as); exact S1.
  - exact S2.
  - intros w' st. rewrite get_put. destruct (w' =? w); [intros E; inversion E; subst; exact Wst|apply HS].
  - intros w'. rewrite get_put. unfold get_inst. cbn. fold (get_inst s w'). destruct (w' =? w) eqn:E; [|apply HY].
    apply N.eqb_eq in E. subst w'. rewrite HY, Hsome. reflexivity.
Qed.

Lemma wf_with_store s w f :
  WfState s -> (forall st, WfStore st -> WfStore (f st)) -> WfState (with_store s w f).
Proof.
  intros Ws Hf. unfold with_store. destruct (get_store s w) as [st|] eqn:E; [|exact Ws].
  apply wf_put_store; [exact Ws|rewrite E; reflexivity|]. apply Hf. apply (wst_store s Ws w); exact E.
Qed.

Lemma wf_set_both s w st' i :
  WfState s -> WfStore st' ->
  WfState (mkState (set N.compare w st' (s_stores s)) (set N.compare w i (s_insts s))).
Proof.
  intros [S1 S2 HS HY] Wst. split; cbn.
  - apply (set_sorted N.compare n_eq n_as); exact S1.
  - apply (set_sorted N.compare n_eq n_as); exact S2.
  - intros w' st. unfold get_store. cbn. destruct (N.eq_dec w' w) as [->|Hne].
    + rewrite (find_set_same N.compare n_eq). intros E; inversion E; subst; exact Wst.
    + rewrite (find_set_other N.compare n_eq) by exact Hne. apply HS.
  - intros w'. unfold get_inst, get_store. cbn. destruct (N.eq_dec w' w) as [->|Hne].
    + rewrite !(find_set_same N.compare n_eq). reflexivity.
    + rewrite !(find_set_other N.compare n_eq) by exact Hne. apply HY.
Qed.

Lemma wf_upsert_instance s w i : WfState s -> WfState (upsert_instance s w i).
Proof.
  intros Ws. unfold upsert_instance. apply wf_set_both; [exact Ws|].
  destruct (get_store s w) as [st|] eqn:E; [apply (wst_store s Ws w); exact E|apply wf_empty_store].
Qed.

Lemma wf_delete_instance s w : WfState s -> WfState (delete_instance s w).
Proof.
  intros [S1 S2 HS HY]. split; cbn.
  - apply (del_sorted N.compare n_tr); exact S1.
  - apply (del_sorted N.compare n_tr); exact S2.
  - intros w' st. unfold get_store. cbn. destruct (N.eq_dec w' w) as [->|Hne].
    + rewrite (find_del_same N.compare n_eq n_tr) by exact S1. discriminate.
    + rewrite (find_del_other N.compare n_eq) by exact Hne. apply HS.
  - intros w'. unfold get_inst, get_store. cbn. destruct (N.eq_dec w' w) as [->|Hne].
    + rewrite !(find_del_same N.compare n_eq n_tr) by assumption. reflexivity.
    + rewrite !(find_del_other N.compare n_eq) by exact Hne. apply HY.
Qed.

Lemma wf_empty_state : WfState empty_state.
Proof. split; cbn; auto. intros w st H; discriminate. Qed.

Lemma apply_sop_wf s o : WfState s -> WfState (apply_sop s o).
Proof.
  intros Ws. destruct o; cbn [apply_sop].
  - apply wf_upsert_instance; exact Ws.
  - apply wf_with_store; [exact Ws|intros st; apply wf_insert_node].
  - apply wf_with_store; [exact Ws|intros st H; apply wf_insert_edge; exact H].
  - apply wf_with_store; [exact Ws|intros st; apply wf_set_node_att].
  - apply wf_with_store; [exact Ws|intros st; apply wf_set_edge_att].
  - apply wf_with_store; [exact Ws|intros st; apply wf_delete_node_cascade].
  - apply wf_with_store; [exact Ws|intros st; apply wf_delete_node_isolated].
  - apply wf_with_store; [exact Ws|intros st; apply wf_delete_edge_exact].
Qed.

(* every state built by a construction script is well formed *)
Theorem build_wf_w l : wf_state (build l) = true.
Proof.
  apply wf_state_of_prop. unfold build.
  assert (H : forall s, WfState s -> WfState (fold_left apply_sop l s)).
  { induction l as [|o l IH]; cbn; intros s Ws; auto. apply IH, apply_sop_wf; exact Ws. }
  apply H, wf_empty_state.
Qed.

Lemma wf_set_att_raw s k v : WfState s -> WfState (set_att_raw s k v).
Proof.
  intros Ws. unfold set_att_raw. destruct (get_store s (ak_warp k)) as [st|] eqn:E; [|exact Ws].
  apply wf_put_store; [exact Ws|rewrite E; reflexivity|].
  pose proof (wst_store s Ws _ _ E) as Wst.
  destruct (ak_owner k =? 1); [apply wf_set_node_att|apply wf_set_edge_att]; exact Wst.
Qed.

Lemma apply_op_wf s op s' : WfState s -> apply_op s op = Ok s' -> WfState s'.
Proof.
  intros Ws. destruct op as [k cw croot pi|w root p|w|w id ty|w id|w e|w from id|k v]; cbn [apply_op].
  - unfold apply_open_portal. destruct (owner_exists s k); [|discriminate].
    destruct (get_inst s cw) as [ex|].
    + destruct (negb _); [discriminate|]. destruct (get_store s cw) as [cst|] eqn:Ec; [|discriminate].
      destruct pi as [ty|]; destruct (find N.compare croot (st_nodes cst)) as [ty'|].
      * destruct (ty' =? ty); [|discriminate]. intros E; inversion E; subst. apply wf_set_att_raw; exact Ws.
      * intros E; inversion E; subst. apply wf_set_att_raw. apply wf_put_store; [exact Ws|rewrite Ec; reflexivity|].
        apply wf_insert_node. apply (wst_store s Ws cw); exact Ec.
      * intros E; inversion E; subst. apply wf_set_att_raw; exact Ws.
      * discriminate.
    + destruct pi as [ty|]; [|discriminate]. intros E; inversion E; subst. apply wf_set_att_raw.
      apply wf_set_both; [exact Ws|apply wf_insert_node, wf_empty_store].
  - intros E; inversion E; subst. apply wf_upsert_instance; exact Ws.
  - destruct (get_inst s w); [|discriminate]. intros E; inversion E; subst. apply wf_delete_instance; exact Ws.
  - destruct (get_store s w) as [st|] eqn:Es; [|discriminate]. intros E; inversion E; subst.
    apply wf_put_store; [exact Ws|rewrite Es; reflexivity|]. apply wf_insert_node. apply (wst_store s Ws w); exact Es.
  - destruct (get_store s w) as [st|] eqn:Es; [|discriminate].
    pose proof (wf_delete_node_isolated st id (wst_store s Ws w st Es)) as Wd.
    destruct (delete_node_isolated st id) as [st' [| | |]]; try discriminate. intros E; inversion E; subst.
    apply wf_put_store; [exact Ws|rewrite Es; reflexivity|exact Wd].
  - destruct (get_store s w) as [st|] eqn:Es; [|discriminate]. intros E; inversion E; subst.
    apply wf_put_store; [exact Ws|rewrite Es; reflexivity|]. apply wf_insert_edge. apply (wst_store s Ws w); exact Es.
  - destruct (get_store s w) as [st|] eqn:Es; [|discriminate].
    pose proof (wf_delete_edge_exact st from id (wst_store s Ws w st Es)) as Wd.
    destruct (delete_edge_exact st from id) as [st' [|]]; try discriminate. intros E; inversion E; subst.
    apply wf_put_store; [exact Ws|rewrite Es; reflexivity|exact Wd].
  - unfold apply_set_attachment. destruct (owner_exists s k); [|discriminate].
    intros E; inversion E; subst. apply wf_set_att_raw; exact Ws.
Qed.

(* apply_ops_to_state leaves a well-formed state behind, whether it returns Ok or Err *)
Theorem apply_ops_wf_w s ops : wf_state s = true -> wf_state (snd (apply_ops s ops)) = true.
Proof.
  intros W. apply wf_state_of_prop. apply wf_state_to_prop in W.
  assert (H : forall ops s t, WfState s -> WfState (snd (fst (apply_ops_go s ops t)))).
  { induction ops0 as [|op r IH]; cbn; intros s0 t Ws; auto.
    destruct (apply_op s0 op) as [s1|e] eqn:E; cbn; auto. apply IH. eapply apply_op_wf; eauto. }
  unfold apply_ops. specialize (H ops s false W).
  destruct (apply_ops_go s ops false) as [[[e|] s'] [|]]; cbn in *; exact H.
Qed.
