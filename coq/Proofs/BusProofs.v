(* Lemmas about Model/Bus.v (C18). *)
From Coq Require Import List NArith Lia Permutation Bool.
From Echo Require Import Base.FinMap Base.Order Base.Bytes Model.Bus.
Import ListNotations.
Open Scope N_scope.

Lemma ckey_order : OrderLaws ckey_cmp.
Proof. repeat apply pair_order; apply N_order. Qed.

Definition ck_eq := ol_eq _ ckey_order.
Definition ck_as := ol_antisym _ ckey_order.
Definition ck_tr := ol_trans _ ckey_order.

Notation csorted := (sorted ckey_cmp).
Ltac fm := try exact ck_eq; try exact ck_as; try exact ck_tr.

Lemma ckey_eq_dec : forall a b : ckey, {a = b} + {a <> b}.
Proof. repeat decide equality. Qed.

Lemma emit_sorted b k v : csorted b -> csorted (fst (emit b k v)).
Proof.
  intros Hs. unfold emit. destruct (find ckey_cmp k b); cbn; auto.
  apply ins_sorted; fm; auto.
Qed.

Lemma emit_is_ins b k v : csorted b -> fst (emit b k v) = ins ckey_cmp k v b.
Proof.
  intros Hs. unfold emit. destruct (find ckey_cmp k b) eqn:F; cbn; auto.
  symmetry. eapply ins_occupied; fm; eauto.
Qed.

Lemma emit_fold_is_ins es b : csorted b ->
  fold_left (fun b kv => fst (emit b (fst kv) (snd kv))) es b =
  fold_left (fun m kv => ins ckey_cmp (fst kv) (snd kv) m) es b.
Proof.
  revert b; induction es as [|[k v] es IH]; intros b Hs; cbn; auto.
  rewrite emit_is_ins by exact Hs. apply IH. apply ins_sorted; fm; auto.
Qed.

Lemma emit_all_of_list es : emit_all es = of_list ckey_cmp es.
Proof. unfold emit_all, of_list. apply emit_fold_is_ins. exact I. Qed.

Lemma emit_all_sorted es : csorted (emit_all es).
Proof. rewrite emit_all_of_list. apply of_list_sorted; fm; auto. Qed.

(* The bus itself, hence everything computed from it, is independent of emission order. *)
Lemma emit_all_perm es1 es2 :
  NoDup (map fst es1) -> Permutation es1 es2 -> emit_all es1 = emit_all es2.
Proof.
  intros Hnd HP. rewrite !emit_all_of_list.
  apply of_list_perm; fm; auto.
Qed.

Lemma run_tick_perm ps es1 es2 :
  NoDup (map fst es1) -> Permutation es1 es2 -> run_tick ps es1 = run_tick ps es2.
Proof. intros Hnd HP. unfold run_tick. rewrite (emit_all_perm es1 es2); auto. Qed.

(* duplicates *)
Lemma emit_dup b k v x : find ckey_cmp k b = Some x -> emit b k v = (b, EmitDup).
Proof. intros F. unfold emit. rewrite F. reflexivity. Qed.

Lemma emit_fresh b k v : csorted b -> find ckey_cmp k b = None ->
  snd (emit b k v) = EmitOk /\
  find ckey_cmp k (fst (emit b k v)) = Some v /\
  (forall k', k' <> k -> find ckey_cmp k' (fst (emit b k v)) = find ckey_cmp k' b).
Proof.
  intros Hs F. unfold emit. rewrite F. cbn. split; [reflexivity|]. split.
  - rewrite find_ins_same by (fm; auto). rewrite F. reflexivity.
  - intros k' Hne. apply find_ins_other; fm; auto.
Qed.

(* ------------------------------------------------------------------ *)
(* reducers *)

Lemma sum_step_rc a x y : sum_step (sum_step a x) y = sum_step (sum_step a y) x.
Proof.
  unfold sum_step.
  rewrite !N.add_mod_idemp_l by (unfold two64; lia).
  f_equal. lia.
Qed.

Lemma bor_comm a : forall b, bor a b = bor b a.
Proof.
  induction a as [|x a IH]; destruct b as [|y b]; cbn; auto.
  rewrite N.lor_comm, IH. reflexivity.
Qed.

Lemma bor_assoc a : forall b c, bor (bor a b) c = bor a (bor b c).
Proof.
  induction a as [|x a IH]; intros b c; cbn; auto.
  destruct b as [|y b]; cbn; auto.
  destruct c as [|z c]; cbn; auto.
  rewrite N.lor_assoc, IH. reflexivity.
Qed.

Lemma band_comm a : forall b, band a b = band b a.
Proof.
  induction a as [|x a IH]; destruct b as [|y b]; cbn; auto.
  rewrite N.land_comm, IH. reflexivity.
Qed.

Lemma band_assoc a : forall b c, band (band a b) c = band a (band b c).
Proof.
  induction a as [|x a IH]; intros b c; cbn; auto.
  destruct b as [|y b]; cbn; auto.
  destruct c as [|z c]; cbn; auto.
  rewrite N.land_assoc, IH. reflexivity.
Qed.

Lemma apply_op_perm op vs1 vs2 :
  is_commutative op = true -> Permutation vs1 vs2 -> apply_op op vs1 = apply_op op vs2.
Proof.
  intros Hc HP.
  destruct vs1 as [|a r1].
  { apply Permutation_nil in HP; subst. reflexivity. }
  destruct vs2 as [|b r2].
  { apply Permutation_sym, Permutation_nil in HP. discriminate. }
  unfold apply_op.
  destruct op; try discriminate.
  - f_equal. apply fold_left_perm; auto. intros; apply sum_step_rc.
  - f_equal. apply reduce1_perm; auto.
    + apply cmax_comm, bytes_order.
    + apply cmax_assoc, bytes_order.
  - f_equal. apply reduce1_perm; auto.
    + apply cmin_comm, bytes_order.
    + apply cmin_assoc, bytes_order.
  - f_equal. apply reduce1_perm; auto using bor_comm, bor_assoc.
  - f_equal. apply reduce1_perm; auto using band_comm, band_assoc.
Qed.

Lemma noncommutative_exact op :
  is_commutative op = false ->
  exists vs1 vs2, Permutation vs1 vs2 /\ apply_op op vs1 <> apply_op op vs2.
Proof.
  intros H. exists [[1]; [2]], [[2]; [1]]. split; [apply perm_swap|].
  destruct op; try discriminate; cbn; discriminate.
Qed.

(* ------------------------------------------------------------------ *)
(* duplicates are always reported, whatever the order *)

Lemma emit_results_fold es : forall b acc,
  snd (fold_left (fun st kv => let '(b, r) := emit (fst st) (fst kv) (snd kv) in (b, snd st ++ [r]))
         es (b, acc)) =
  acc ++ snd (fold_left (fun st kv => let '(b, r) := emit (fst st) (fst kv) (snd kv) in (b, snd st ++ [r]))
         es (b, [])).
Proof.
  induction es as [|[k v] es IH]; intros b acc; cbn.
  - rewrite app_nil_r; reflexivity.
  - destruct (emit b k v) as [b' r] eqn:E. cbn.
    rewrite (IH b' (acc ++ [r])). rewrite (IH b' [r]). rewrite app_assoc. reflexivity.
Qed.

Definition results_from (b : bus) (es : list (ckey * bytes)) : list emit_result :=
  snd (fold_left (fun st kv => let '(b, r) := emit (fst st) (fst kv) (snd kv) in (b, snd st ++ [r]))
         es (b, [])).

Lemma results_from_cons b k v es :
  results_from b ((k, v) :: es) = snd (emit b k v) :: results_from (fst (emit b k v)) es.
Proof.
  unfold results_from. cbn. destruct (emit b k v) as [b' r]. cbn.
  rewrite emit_results_fold. reflexivity.
Qed.

Lemma find_fold_emit es : forall b k, csorted b ->
  (exists x, find ckey_cmp k b = Some x) ->
  exists x, find ckey_cmp k (fold_left (fun b kv => fst (emit b (fst kv) (snd kv))) es b) = Some x.
Proof.
  induction es as [|[k1 v1] es IH]; intros b k Hs [x Hx]; cbn; [eauto|].
  apply IH; [apply emit_sorted; exact Hs|].
  unfold emit. destruct (find ckey_cmp k1 b) eqn:F; cbn; [eauto|].
  destruct (ckey_cmp k k1) eqn:E.
  - apply ck_eq in E; subst. congruence.
  - rewrite find_ins_other; fm; eauto. intro; subst.
    rewrite (proj2 (ck_eq k1 k1) eq_refl) in E. discriminate.
  - rewrite find_ins_other; fm; eauto. intro; subst.
    rewrite (proj2 (ck_eq k1 k1) eq_refl) in E. discriminate.
Qed.

Lemma dup_reported_from es : forall b, csorted b ->
  (forall k, In k (map fst es) -> find ckey_cmp k b = None) ->
  ~ NoDup (map fst es) -> In EmitDup (results_from b es).
Proof.
  induction es as [|[k v] es IH]; intros b Hs Hfresh Hnd.
  - exfalso; apply Hnd; constructor.
  - rewrite results_from_cons.
    assert (F : find ckey_cmp k b = None) by (apply Hfresh; left; reflexivity).
    destruct (emit_fresh b k v Hs F) as [Hr [Hk Ho]].
    destruct (in_dec ckey_eq_dec k (map fst es)) as [Hin|Hnin].
    + (* k occurs again later: that later emission is a duplicate *)
      right. clear IH Hnd.
      assert (Hs' : csorted (fst (emit b k v))) by (apply emit_sorted; exact Hs).
      assert (Hk' : exists x, find ckey_cmp k (fst (emit b k v)) = Some x) by eauto.
      revert Hs' Hk'. generalize (fst (emit b k v)) as b'. clear - Hin.
      induction es as [|[k1 v1] es IH]; intros b' Hs' Hk'; [destruct Hin|].
      rewrite results_from_cons. cbn in Hin. destruct Hin as [E|Hin].
      * subst k1. destruct Hk' as [x Hx]. left. rewrite (emit_dup _ _ _ _ Hx). reflexivity.
      * right. apply IH; auto.
        -- apply emit_sorted; exact Hs'.
        -- apply (find_fold_emit [(k1, v1)] b' k Hs' Hk').
    + right. apply IH.
      * apply emit_sorted; exact Hs.
      * intros k' Hin'. rewrite Ho; [apply Hfresh; right; exact Hin'|].
        intro; subst; contradiction.
      * intro Hnd'. apply Hnd. cbn. constructor; auto.
Qed.

Lemma emit_all_results_from es : emit_all_results es = results_from [] es.
Proof. reflexivity. Qed.

Lemma dup_always_reported es :
  ~ NoDup (map fst es) -> In EmitDup (emit_all_results es).
Proof.
  intros H. rewrite emit_all_results_from. apply dup_reported_from; auto. exact I.
Qed.

Lemma nodup_no_dup_reported_from es : forall b, csorted b ->
  (forall k, In k (map fst es) -> find ckey_cmp k b = None) ->
  NoDup (map fst es) -> ~ In EmitDup (results_from b es).
Proof.
  induction es as [|[k v] es IH]; intros b Hs Hfresh Hnd.
  - cbn. tauto.
  - rewrite results_from_cons.
    assert (F : find ckey_cmp k b = None) by (apply Hfresh; left; reflexivity).
    destruct (emit_fresh b k v Hs F) as [Hr [Hk Ho]].
    cbn in Hnd. inversion Hnd as [|a l Hni Hnd']; subst.
    intros [H|H]; [rewrite Hr in H; discriminate|].
    revert H. apply IH; auto.
    + apply emit_sorted; exact Hs.
    + intros k' Hin'. rewrite Ho; [apply Hfresh; right; exact Hin'|].
      intro; subst; contradiction.
Qed.

Lemma nodup_no_dup_reported es :
  NoDup (map fst es) -> ~ In EmitDup (emit_all_results es).
Proof.
  intros H. rewrite emit_all_results_from. apply nodup_no_dup_reported_from; auto. exact I.
Qed.

(* ------------------------------------------------------------------ *)
(* compute_emissions_digest sorts channels first: the preimage does not
   depend on the order of the FinalizedChannel slice. *)

Definition n_eq := ol_eq _ N_order.
Definition n_as := ol_antisym _ N_order.
Definition n_tr := ol_trans _ N_order.
Ltac fn := try exact n_eq; try exact n_as; try exact n_tr.

Lemma insert_chan_ins x l :
  sorted N.compare l -> find N.compare (fst x) l = None ->
  insert_chan x l = ins N.compare (fst x) (snd x) l.
Proof.
  destruct x as [k v]. cbn [fst snd].
  induction l as [|[k1 v1] r IH]; cbn; intros Hs Hf; [reflexivity|].
  destruct Hs as [Hlb Hs]. destruct (k ?= k1) eqn:E; try discriminate; auto.
  f_equal. auto.
Qed.

Lemma find_fold_ins_absent (l : list (N * bytes)) : forall m k,
  ~ In k (map fst l) -> find N.compare k m = None ->
  find N.compare k (fold_left (fun m kv => ins N.compare (fst kv) (snd kv) m) l m) = None.
Proof.
  induction l as [|[k1 v1] l IH]; intros m k Hni Hf; cbn; auto.
  apply IH.
  - intro H; apply Hni; right; exact H.
  - rewrite find_ins_other; fn; auto. intro; subst; apply Hni; left; reflexivity.
Qed.

Lemma sort_chans_of_list l :
  NoDup (map fst l) -> sort_chans l = of_list N.compare (rev l).
Proof.
  induction l as [|x l IH]; intros Hnd; [reflexivity|].
  cbn in Hnd. inversion Hnd as [|a b Hni Hnd']; subst.
  cbn [sort_chans fold_right]. fold (sort_chans l). rewrite IH by exact Hnd'.
  cbn [rev]. unfold of_list at 2. rewrite fold_left_app. cbn [fold_left].
  fold (of_list N.compare (rev l)).
  apply insert_chan_ins.
  - apply of_list_sorted; fn.
  - apply find_fold_ins_absent; [|reflexivity].
    rewrite map_rev. rewrite <- in_rev. exact Hni.
Qed.

Lemma digest_order_free c1 c2 :
  NoDup (map fst c1) -> Permutation c1 c2 -> digest_preimage c1 = digest_preimage c2.
Proof.
  intros Hnd HP. unfold digest_preimage.
  assert (Hnd2 : NoDup (map fst c2)).
  { eapply Permutation_NoDup; [|exact Hnd]. apply Permutation_map; exact HP. }
  rewrite (sort_chans_of_list c1 Hnd), (sort_chans_of_list c2 Hnd2).
  unfold lenN. rewrite (Permutation_length HP).
  rewrite (of_list_perm N.compare n_eq n_as n_tr (rev c1) (rev c2)); auto.
  - rewrite <- !Permutation_rev. exact HP.
  - rewrite map_rev. apply NoDup_rev. exact Hnd.
Qed.

(* finalize emits channels in strictly increasing channel order, so the
   report's channel list has distinct channel ids. *)
Lemma group_chans_lb b c : csorted b ->
  (forall k v, In (k, v) b -> c < chan_of k) ->
  forall c' vs, In (c', vs) (group b) -> c < c'.
Proof.
  induction b as [|[k v] r IH]; intros Hs Hlt c' vs Hin; [destruct Hin|].
  cbn in Hs. destruct Hs as [Hlb Hs]. cbn [group] in Hin.
  assert (Hk : c < chan_of k) by (eapply Hlt; left; reflexivity).
  assert (Hr : forall c' vs, In (c', vs) (group r) -> c < c').
  { apply IH; auto. intros k' v' Hin'. eapply Hlt. right; exact Hin'. }
  destruct (group r) as [|[c1 vs1] g] eqn:G.
  - destruct Hin as [E|[]]. inversion E; subst. exact Hk.
  - destruct (N.eqb c1 (chan_of k)) eqn:Eq.
    + destruct Hin as [E|Hin].
      * inversion E; subst. apply Hr with (vs := vs1). left; reflexivity.
      * apply Hr with (vs := vs). right; exact Hin.
    + destruct Hin as [E|Hin].
      * inversion E; subst. exact Hk.
      * apply Hr with (vs := vs). exact Hin.
Qed.
