(* Byte strings as [list N] (each element < 256 when well formed), fixed-width
   little/big-endian integer encodings, and generic fold/permutation lemmas. *)
From Coq Require Import List NArith Lia Permutation.
Import ListNotations.
Open Scope N_scope.

Definition bytes := list N.

Definition byteb (b : N) : bool := b <? 256.
Definition wf_bytes (l : bytes) : bool := forallb byteb l.

(* n-byte little-endian encoding of x (truncating, like `as uN`.to_le_bytes) *)
Fixpoint le_bytes (n : nat) (x : N) : bytes :=
  match n with
  | O => []
  | S n' => (x mod 256) :: le_bytes n' (x / 256)
  end.

Fixpoint from_le (l : bytes) : N :=
  match l with
  | [] => 0
  | b :: r => b + 256 * from_le r
  end.

Definition be_bytes (n : nat) (x : N) : bytes := rev (le_bytes n x).
Definition from_be (l : bytes) : N := from_le (rev l).

Definition lenN {A} (l : list A) : N := N.of_nat (length l).

Lemma le_bytes_length n x : length (le_bytes n x) = n.
Proof. revert x; induction n; cbn; auto. Qed.

Lemma be_bytes_length n x : length (be_bytes n x) = n.
Proof. unfold be_bytes. rewrite rev_length. apply le_bytes_length. Qed.

Lemma le_bytes_wf n x : wf_bytes (le_bytes n x) = true.
Proof.
  revert x; induction n as [|n IH]; intros x; cbn; auto.
  rewrite IH, Bool.andb_true_r. unfold byteb. apply N.ltb_lt.
  apply N.mod_lt. lia.
Qed.

Lemma from_le_le_bytes n x : from_le (le_bytes n x) = x mod (256 ^ N.of_nat n).
Proof.
  revert x; induction n as [|n IH]; intros x.
  - cbn. rewrite N.mod_1_r. reflexivity.
  - cbn [le_bytes from_le]. rewrite IH.
    replace (N.of_nat (S n)) with (N.succ (N.of_nat n)) by lia.
    rewrite N.pow_succ_r'.
    rewrite (N.mod_mul_r x 256 (256 ^ N.of_nat n)); lia.
Qed.

Lemma le_bytes_inj n x y :
  x < 256 ^ N.of_nat n -> y < 256 ^ N.of_nat n -> le_bytes n x = le_bytes n y -> x = y.
Proof.
  intros Hx Hy E. apply (f_equal from_le) in E. rewrite !from_le_le_bytes in E.
  rewrite !N.mod_small in E; auto.
Qed.

(* fold over a permutation *)
Lemma fold_left_perm {A B} (f : A -> B -> A) :
  (forall a x y, f (f a x) y = f (f a y) x) ->
  forall l1 l2, Permutation l1 l2 -> forall a, fold_left f l1 a = fold_left f l2 a.
Proof.
  intros Hc l1 l2 HP. induction HP; intros a; cbn; auto.
  - rewrite Hc. reflexivity.
  - rewrite IHHP1. apply IHHP2.
Qed.

(* reduce without unit: first element seeds the fold *)
Definition reduce1 {A} (f : A -> A -> A) (l : list A) : option A :=
  match l with [] => None | x :: r => Some (fold_left f r x) end.

Lemma reduce1_perm {A} (f : A -> A -> A) :
  (forall a b, f a b = f b a) ->
  (forall a b c, f (f a b) c = f a (f b c)) ->
  forall l1 l2, Permutation l1 l2 -> reduce1 f l1 = reduce1 f l2.
Proof.
  intros Hcomm Hassoc.
  assert (Hrc : forall a x y, f (f a x) y = f (f a y) x).
  { intros a x y. rewrite !Hassoc. f_equal. apply Hcomm. }
  intros l1 l2 HP. induction HP; cbn; auto.
  - f_equal. apply fold_left_perm; auto.
  - f_equal. f_equal. apply Hcomm.
  - congruence.
Qed.

Lemma wf_bytes_app a b : wf_bytes (a ++ b) = andb (wf_bytes a) (wf_bytes b).
Proof. unfold wf_bytes. apply forallb_app. Qed.
