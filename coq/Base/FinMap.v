(* Sorted association lists used as canonical finite maps (BTreeMap model).
   Generic in the key type and a comparison function that is a strict total
   order.  Definitions are executable; lemmas give the map interface plus
   extensionality (two strictly sorted lists with equal lookups are equal),
   which is what makes "insertion order does not matter" a theorem. *)
From Coq Require Import List Permutation Lia.
Import ListNotations.

Section FinMap.
  Context {K V : Type}.
  Variable cmp : K -> K -> comparison.

  Fixpoint find (k : K) (m : list (K * V)) : option V :=
    match m with
    | [] => None
    | (k', v) :: r => match cmp k k' with Eq => Some v | _ => find k r end
    end.

  (* insert-if-absent (BTreeMap entry: Vacant => insert, Occupied => keep) *)
  Fixpoint ins (k : K) (v : V) (m : list (K * V)) : list (K * V) :=
    match m with
    | [] => [(k, v)]
    | (k', v') :: r =>
        match cmp k k' with
        | Lt => (k, v) :: m
        | Eq => m
        | Gt => (k', v') :: ins k v r
        end
    end.

  (* insert-or-overwrite (BTreeMap::insert) *)
  Fixpoint set (k : K) (v : V) (m : list (K * V)) : list (K * V) :=
    match m with
    | [] => [(k, v)]
    | (k', v') :: r =>
        match cmp k k' with
        | Lt => (k, v) :: m
        | Eq => (k, v) :: r
        | Gt => (k', v') :: set k v r
        end
    end.

  Fixpoint del (k : K) (m : list (K * V)) : list (K * V) :=
    match m with
    | [] => []
    | (k', v') :: r =>
        match cmp k k' with
        | Eq => r
        | Lt => m
        | Gt => (k', v') :: del k r
        end
    end.

  Definition mem (k : K) (m : list (K * V)) : bool :=
    match find k m with Some _ => true | None => false end.

  Definition lb (k : K) (m : list (K * V)) : Prop :=
    match m with [] => True | (k', _) :: _ => cmp k k' = Lt end.

  Fixpoint sorted (m : list (K * V)) : Prop :=
    match m with [] => True | (k, _) :: r => lb k r /\ sorted r end.

  Fixpoint sortedb (m : list (K * V)) : bool :=
    match m with
    | [] => true
    | (k, _) :: r =>
        match r with
        | [] => true
        | (k', _) :: _ => match cmp k k' with Lt => sortedb r | _ => false end
        end
    end.

  Definition of_list (l : list (K * V)) : list (K * V) :=
    fold_left (fun m kv => ins (fst kv) (snd kv) m) l [].

  Definition of_list_set (l : list (K * V)) : list (K * V) :=
    fold_left (fun m kv => set (fst kv) (snd kv) m) l [].

  Hypothesis cmp_eq : forall a b, cmp a b = Eq <-> a = b.
  Hypothesis cmp_antisym : forall a b, cmp b a = CompOpp (cmp a b).
  Hypothesis cmp_trans : forall a b c, cmp a b = Lt -> cmp b c = Lt -> cmp a c = Lt.

  Lemma cmp_refl a : cmp a a = Eq.
  Proof. apply cmp_eq; reflexivity. Qed.

  Lemma cmp_gt_lt a b : cmp a b = Gt -> cmp b a = Lt.
  Proof. intros H; rewrite cmp_antisym, H; reflexivity. Qed.

  Lemma cmp_lt_gt a b : cmp a b = Lt -> cmp b a = Gt.
  Proof. intros H; rewrite cmp_antisym, H; reflexivity. Qed.

  Lemma cmp_lt_neq a b : cmp a b = Lt -> a <> b.
  Proof. intros H E; subst; rewrite cmp_refl in H; discriminate. Qed.

  Lemma sortedb_spec m : sortedb m = true <-> sorted m.
  Proof.
    induction m as [|[k v] r IH]; cbn [sortedb sorted]; [tauto|].
    destruct r as [|[k' v'] r'].
    - cbn; tauto.
    - cbn [lb]. destruct (cmp k k') eqn:E.
      + split; [discriminate|intros [H _]; discriminate].
      + rewrite IH; tauto.
      + split; [discriminate|intros [H _]; discriminate].
  Qed.

  Lemma lb_all k m : sorted m -> lb k m -> forall k' v', In (k', v') m -> cmp k k' = Lt.
  Proof.
    revert k; induction m as [|[k1 v1] r IH]; intros k Hs Hlb k' v' Hin; [destruct Hin|].
    cbn in Hs, Hlb. destruct Hs as [Hlb1 Hs]. destruct Hin as [E|Hin].
    - inversion E; subst; exact Hlb.
    - eapply cmp_trans; [exact Hlb|]. eapply IH; eauto.
  Qed.

  Lemma find_lb_none k m : sorted m -> lb k m -> find k m = None.
  Proof.
    intros Hs Hlb. induction m as [|[k1 v1] r IH]; [reflexivity|].
    cbn. pose proof (lb_all k _ Hs Hlb k1 v1 (or_introl eq_refl)) as H. rewrite H.
    cbn in Hs; destruct Hs as [Hlb1 Hs]. apply IH; [exact Hs|].
    destruct r as [|[k2 v2] r2]; [exact I|]. cbn in *. eapply cmp_trans; eauto.
  Qed.

  Lemma find_in k v m : find k m = Some v -> In (k, v) m.
  Proof.
    induction m as [|[k1 v1] r IH]; cbn; [discriminate|].
    destruct (cmp k k1) eqn:E; intros H.
    - apply cmp_eq in E; subst. inversion H; subst; left; reflexivity.
    - right; auto.
    - right; auto.
  Qed.

  Lemma in_find k v m : sorted m -> In (k, v) m -> find k m = Some v.
  Proof.
    induction m as [|[k1 v1] r IH]; intros Hs Hin; [destruct Hin|].
    cbn in Hs; destruct Hs as [Hlb Hs]. cbn. destruct Hin as [E|Hin].
    - inversion E; subst. rewrite cmp_refl; reflexivity.
    - pose proof (lb_all k1 r Hs Hlb k v Hin) as H.
      rewrite (cmp_lt_gt _ _ H). auto.
  Qed.

  Theorem sorted_ext m1 m2 :
    sorted m1 -> sorted m2 -> (forall k, find k m1 = find k m2) -> m1 = m2.
  Proof.
    revert m2; induction m1 as [|[k1 v1] r1 IH]; intros m2 Hs1 Hs2 Hf.
    - destruct m2 as [|[k2 v2] r2]; [reflexivity|].
      specialize (Hf k2). cbn in Hf. rewrite cmp_refl in Hf. discriminate.
    - destruct m2 as [|[k2 v2] r2].
      + specialize (Hf k1). cbn in Hf. rewrite cmp_refl in Hf. discriminate.
      + cbn in Hs1, Hs2. destruct Hs1 as [Hlb1 Hs1], Hs2 as [Hlb2 Hs2].
        destruct (cmp k1 k2) eqn:E.
        * apply cmp_eq in E; subst k2.
          pose proof (Hf k1) as H1. cbn in H1. rewrite cmp_refl in H1. inversion H1; subst v2.
          f_equal. apply IH; auto. intros k. specialize (Hf k). cbn in Hf.
          destruct (cmp k k1) eqn:E1; auto.
          apply cmp_eq in E1; subst k.
          rewrite (find_lb_none k1 r1), (find_lb_none k1 r2); auto.
        * exfalso. specialize (Hf k1). cbn in Hf. rewrite cmp_refl, E in Hf.
          rewrite (find_lb_none k1 r2) in Hf; [discriminate|auto|].
          destruct r2 as [|[k3 v3] r3]; [exact I|]. cbn in *. eapply cmp_trans; eauto.
        * exfalso. specialize (Hf k2). cbn in Hf. rewrite cmp_refl in Hf.
          rewrite (cmp_gt_lt _ _ E) in Hf.
          rewrite (find_lb_none k2 r1) in Hf; [discriminate|auto|].
          destruct r1 as [|[k3 v3] r3]; [exact I|]. cbn in *. eapply cmp_trans; eauto.
          apply cmp_gt_lt; exact E.
  Qed.

  Lemma ins_lb k0 k v m : lb k0 m -> cmp k0 k = Lt -> lb k0 (ins k v m).
  Proof.
    destruct m as [|[k1 v1] r]; cbn; intros H1 H2; [exact H2|].
    destruct (cmp k k1); cbn; auto.
  Qed.

  Lemma ins_sorted k v m : sorted m -> sorted (ins k v m).
  Proof.
    induction m as [|[k1 v1] r IH]; cbn; intros Hs; [tauto|].
    destruct Hs as [Hlb Hs]. destruct (cmp k k1) eqn:E; cbn.
    - tauto.
    - tauto.
    - split; [|auto]. apply ins_lb; [exact Hlb|]. apply cmp_gt_lt; exact E.
  Qed.

  Lemma set_lb k0 k v m : lb k0 m -> cmp k0 k = Lt -> lb k0 (set k v m).
  Proof.
    destruct m as [|[k1 v1] r]; cbn; intros H1 H2; [exact H2|].
    destruct (cmp k k1); cbn; auto.
  Qed.

  Lemma set_sorted k v m : sorted m -> sorted (set k v m).
  Proof.
    induction m as [|[k1 v1] r IH]; cbn; intros Hs; [tauto|].
    destruct Hs as [Hlb Hs]. destruct (cmp k k1) eqn:E; cbn.
    - apply cmp_eq in E; subst. tauto.
    - tauto.
    - split; [|auto]. apply set_lb; [exact Hlb|]. apply cmp_gt_lt; exact E.
  Qed.

  Lemma del_lb k0 k m : sorted m -> lb k0 m -> lb k0 (del k m).
  Proof.
    destruct m as [|[k1 v1] r]; cbn; intros Hs H1; [exact I|].
    destruct (cmp k k1); cbn; auto.
    destruct Hs as [Hlb Hs]. destruct r as [|[k2 v2] r2]; [exact I|]. cbn in *. eapply cmp_trans; eauto.
  Qed.

  Lemma del_sorted k m : sorted m -> sorted (del k m).
  Proof.
    induction m as [|[k1 v1] r IH]; cbn; intros Hs; [tauto|].
    destruct Hs as [Hlb Hs]. destruct (cmp k k1) eqn:E; cbn.
    - exact Hs.
    - tauto.
    - split; [|auto]. apply del_lb; auto.
  Qed.


  (* Lookup characterisations need sortedness: the insertion point is decided
     by the first key that is not smaller. *)
  Lemma find_ins_same k v m : sorted m ->
    find k (ins k v m) = match find k m with Some x => Some x | None => Some v end.
  Proof.
    induction m as [|[k1 v1] r IH]; cbn; intros Hs.
    - rewrite cmp_refl; reflexivity.
    - destruct Hs as [Hlb Hs]. destruct (cmp k k1) eqn:E; cbn.
      + rewrite E; reflexivity.
      + rewrite cmp_refl.
        rewrite (find_lb_none k r); auto.
        destruct r as [|[k2 v2] r2]; [exact I|]. cbn in *. eapply cmp_trans; eauto.
      + rewrite E. auto.
  Qed.

  Lemma find_ins_other k k' v m : k' <> k -> find k' (ins k v m) = find k' m.
  Proof.
    intros Hne. induction m as [|[k1 v1] r IH]; cbn.
    - destruct (cmp k' k) eqn:E; auto. apply cmp_eq in E; contradiction.
    - destruct (cmp k k1) eqn:E; cbn.
      + reflexivity.
      + destruct (cmp k' k) eqn:E'; auto. apply cmp_eq in E'; contradiction.
      + destruct (cmp k' k1); auto.
  Qed.

  Lemma find_set_same k v m : find k (set k v m) = Some v.
  Proof.
    induction m as [|[k1 v1] r IH]; cbn.
    - rewrite cmp_refl; reflexivity.
    - destruct (cmp k k1) eqn:E; cbn.
      + rewrite cmp_refl; reflexivity.
      + rewrite cmp_refl; reflexivity.
      + rewrite E. exact IH.
  Qed.

  Lemma find_set_other k k' v m : k' <> k -> find k' (set k v m) = find k' m.
  Proof.
    intros Hne. induction m as [|[k1 v1] r IH]; cbn.
    - destruct (cmp k' k) eqn:E; auto. apply cmp_eq in E; contradiction.
    - destruct (cmp k k1) eqn:E; cbn.
      + apply cmp_eq in E; subst k1.
        destruct (cmp k' k) eqn:E'; auto. apply cmp_eq in E'; contradiction.
      + destruct (cmp k' k) eqn:E'; auto. apply cmp_eq in E'; contradiction.
      + destruct (cmp k' k1); auto.
  Qed.

  Lemma find_del_same k m : sorted m -> find k (del k m) = None.
  Proof.
    induction m as [|[k1 v1] r IH]; cbn; intros Hs; [reflexivity|].
    destruct Hs as [Hlb Hs]. destruct (cmp k k1) eqn:E; cbn.
    - apply cmp_eq in E; subst. apply find_lb_none; auto.
    - rewrite E. apply find_lb_none; auto.
      destruct r as [|[k2 v2] r2]; [exact I|]. cbn in *. eapply cmp_trans; eauto.
    - rewrite E. auto.
  Qed.

  Lemma find_del_other k k' m : k' <> k -> find k' (del k m) = find k' m.
  Proof.
    intros Hne. induction m as [|[k1 v1] r IH]; cbn; [reflexivity|].
    destruct (cmp k k1) eqn:E; cbn.
    - apply cmp_eq in E; subst k1.
      destruct (cmp k' k) eqn:E'; auto. apply cmp_eq in E'; contradiction.
    - reflexivity.
    - destruct (cmp k' k1); auto.
  Qed.

  (* Occupied entry: map unchanged. *)
  Lemma ins_occupied k v x m : sorted m -> find k m = Some x -> ins k v m = m.
  Proof.
    induction m as [|[k1 v1] r IH]; cbn; intros Hs Hf; [discriminate|].
    destruct Hs as [Hlb Hs]. destruct (cmp k k1) eqn:E.
    - reflexivity.
    - exfalso. rewrite (find_lb_none k r) in Hf; [discriminate|auto|].
      destruct r as [|[k2 v2] r2]; [exact I|]. cbn in *. eapply cmp_trans; eauto.
    - f_equal. auto.
  Qed.

  Lemma ins_comm k1 v1 k2 v2 m : sorted m -> k1 <> k2 ->
    ins k1 v1 (ins k2 v2 m) = ins k2 v2 (ins k1 v1 m).
  Proof.
    intros Hs Hne. apply sorted_ext.
    - apply ins_sorted, ins_sorted, Hs.
    - apply ins_sorted, ins_sorted, Hs.
    - intros k.
      destruct (cmp k k1) eqn:E1.
      + apply cmp_eq in E1; subst k.
        rewrite find_ins_same by (apply ins_sorted, Hs).
        rewrite (find_ins_other k2 k1) by exact Hne.
        rewrite (find_ins_other k2 k1) by exact Hne.
        rewrite find_ins_same by exact Hs. reflexivity.
      + assert (k <> k1) by (intro; subst; rewrite cmp_refl in E1; discriminate).
        rewrite (find_ins_other k1 k) by assumption.
        destruct (cmp k k2) eqn:E2.
        * apply cmp_eq in E2; subst k.
          rewrite find_ins_same by exact Hs.
          rewrite find_ins_same by (apply ins_sorted, Hs).
          rewrite (find_ins_other k1 k2) by assumption. reflexivity.
        * assert (k <> k2) by (intro; subst; rewrite cmp_refl in E2; discriminate).
          rewrite !(find_ins_other k2 k) by assumption.
          rewrite (find_ins_other k1 k) by assumption. reflexivity.
        * assert (k <> k2) by (intro; subst; rewrite cmp_refl in E2; discriminate).
          rewrite !(find_ins_other k2 k) by assumption.
          rewrite (find_ins_other k1 k) by assumption. reflexivity.
      + assert (k <> k1) by (intro; subst; rewrite cmp_refl in E1; discriminate).
        rewrite (find_ins_other k1 k) by assumption.
        destruct (cmp k k2) eqn:E2.
        * apply cmp_eq in E2; subst k.
          rewrite find_ins_same by exact Hs.
          rewrite find_ins_same by (apply ins_sorted, Hs).
          rewrite (find_ins_other k1 k2) by assumption. reflexivity.
        * assert (k <> k2) by (intro; subst; rewrite cmp_refl in E2; discriminate).
          rewrite !(find_ins_other k2 k) by assumption.
          rewrite (find_ins_other k1 k) by assumption. reflexivity.
        * assert (k <> k2) by (intro; subst; rewrite cmp_refl in E2; discriminate).
          rewrite !(find_ins_other k2 k) by assumption.
          rewrite (find_ins_other k1 k) by assumption. reflexivity.
  Qed.

  Lemma fold_ins_sorted l m :
    sorted m -> sorted (fold_left (fun m kv => ins (fst kv) (snd kv) m) l m).
  Proof.
    revert m; induction l as [|[k v] l IH]; cbn; intros m Hs; [exact Hs|].
    apply IH, ins_sorted, Hs.
  Qed.

  Lemma of_list_sorted l : sorted (of_list l).
  Proof. apply fold_ins_sorted; exact I. Qed.

  (* Order-freedom of bulk insertion when keys are pairwise distinct. *)
  Theorem fold_ins_perm l1 l2 m :
    Permutation l1 l2 -> NoDup (map fst l1) -> sorted m ->
    fold_left (fun m kv => ins (fst kv) (snd kv) m) l1 m =
    fold_left (fun m kv => ins (fst kv) (snd kv) m) l2 m.
  Proof.
    intros HP. revert m. induction HP as [|x l l' HP IH|x y l|l l' l'' HP1 IH1 HP2 IH2];
      intros m Hnd Hs.
    - reflexivity.
    - cbn. cbn in Hnd. inversion Hnd; subst. apply IH; [assumption|apply ins_sorted, Hs].
    - cbn. cbn in Hnd. inversion Hnd as [|a b Hni Hnd']; subst.
      rewrite ins_comm; [reflexivity|exact Hs|].
      intro E. apply Hni. left. exact E.
    - rewrite IH1; auto. apply IH2; auto.
      eapply Permutation_NoDup; [|exact Hnd]. apply Permutation_map; exact HP1.
  Qed.

  Corollary of_list_perm l1 l2 :
    Permutation l1 l2 -> NoDup (map fst l1) -> of_list l1 = of_list l2.
  Proof. intros HP Hnd. apply fold_ins_perm; auto. exact I. Qed.

End FinMap.

Arguments find {K V} cmp k m.
Arguments ins {K V} cmp k v m.
Arguments set {K V} cmp k v m.
Arguments del {K V} cmp k m.
Arguments mem {K V} cmp k m.
Arguments sorted {K V} cmp m.
Arguments sortedb {K V} cmp m.
Arguments of_list {K V} cmp l.
Arguments of_list_set {K V} cmp l.
