(* Comparison functions with the three order laws FinMap needs, and
   combinators (lexicographic pairs, lexicographic lists). *)
From Coq Require Import List NArith Lia.
Import ListNotations.

Record OrderLaws {K} (cmp : K -> K -> comparison) : Prop := {
  ol_eq : forall a b, cmp a b = Eq <-> a = b;
  ol_antisym : forall a b, cmp b a = CompOpp (cmp a b);
  ol_trans : forall a b c, cmp a b = Lt -> cmp b c = Lt -> cmp a c = Lt
}.

Lemma N_order : OrderLaws N.compare.
Proof.
  split.
  - apply N.compare_eq_iff.
  - intros a b. apply N.compare_antisym.
  - intros a b c. rewrite !N.compare_lt_iff. lia.
Qed.

Definition pair_cmp {A B} (ca : A -> A -> comparison) (cb : B -> B -> comparison)
  (x y : A * B) : comparison :=
  match ca (fst x) (fst y) with Eq => cb (snd x) (snd y) | c => c end.

Lemma pair_order {A B} ca cb :
  @OrderLaws A ca -> @OrderLaws B cb -> OrderLaws (pair_cmp ca cb).
Proof.
  intros [ea aa ta] [eb ab tb]. split.
  - intros [a1 b1] [a2 b2]; unfold pair_cmp; cbn. destruct (ca a1 a2) eqn:E.
    + apply ea in E; subst. rewrite eb. split; [intros ->; reflexivity|intros H; inversion H; reflexivity].
    + split; [discriminate|]. intros H; inversion H; subst.
      assert (ca a2 a2 = Eq) by (apply ea; reflexivity). congruence.
    + split; [discriminate|]. intros H; inversion H; subst.
      assert (ca a2 a2 = Eq) by (apply ea; reflexivity). congruence.
  - intros [a1 b1] [a2 b2]; unfold pair_cmp; cbn. rewrite (aa a1 a2).
    destruct (ca a1 a2); cbn; auto.
  - intros [a1 b1] [a2 b2] [a3 b3]; unfold pair_cmp; cbn.
    destruct (ca a1 a2) eqn:E12; try discriminate.
    + apply ea in E12; subst a2. destruct (ca a1 a3) eqn:E13; auto; try discriminate.
      apply tb.
    + destruct (ca a2 a3) eqn:E23; try discriminate.
      * apply ea in E23; subst a3. rewrite E12. auto.
      * rewrite (ta _ _ _ E12 E23). auto.
Qed.

Fixpoint list_cmp {A} (c : A -> A -> comparison) (x y : list A) : comparison :=
  match x, y with
  | [], [] => Eq
  | [], _ :: _ => Lt
  | _ :: _, [] => Gt
  | a :: x', b :: y' => match c a b with Eq => list_cmp c x' y' | r => r end
  end.

Lemma list_order {A} c : @OrderLaws A c -> OrderLaws (list_cmp c).
Proof.
  intros [ea aa ta]. split.
  - induction a as [|a x IH]; destruct b as [|b y]; cbn; try (split; [reflexivity|reflexivity] || split; discriminate).
    destruct (c a b) eqn:E.
    + apply ea in E; subst. rewrite IH. split; [intros ->; reflexivity|intros H; inversion H; reflexivity].
    + split; [discriminate|]. intros H; inversion H; subst.
      assert (c b b = Eq) by (apply ea; reflexivity). congruence.
    + split; [discriminate|]. intros H; inversion H; subst.
      assert (c b b = Eq) by (apply ea; reflexivity). congruence.
  - induction a as [|a x IH]; destruct b as [|b y]; cbn; auto.
    rewrite (aa a b). destruct (c a b); cbn; auto.
  - induction a as [|a x IH]; destruct b as [|b y]; destruct c0 as [|d z]; cbn; auto; try discriminate.
    destruct (c a b) eqn:E12; try discriminate.
    + apply ea in E12; subst b. destruct (c a d) eqn:E13; auto; try discriminate. apply IH.
    + destruct (c b d) eqn:E23; try discriminate.
      * apply ea in E23; subst d. rewrite E12. auto.
      * rewrite (ta _ _ _ E12 E23). auto.
Qed.

Definition bytes_cmp := list_cmp N.compare.
Lemma bytes_order : OrderLaws bytes_cmp.
Proof. apply list_order, N_order. Qed.

(* max / min of a total order given by cmp *)
Definition cmax {A} (c : A -> A -> comparison) (a b : A) : A :=
  match c a b with Gt => a | _ => b end.
Definition cmin {A} (c : A -> A -> comparison) (a b : A) : A :=
  match c a b with Gt => b | _ => a end.

Section MaxMin.
  Context {A : Type} (c : A -> A -> comparison) (L : OrderLaws c).

  Let refl a : c a a = Eq. Proof. apply (ol_eq c L); reflexivity. Qed.

  Lemma cmp_gt_trans a b d : c a b = Gt -> c b d = Gt -> c a d = Gt.
  Proof.
    intros H1 H2.
    assert (c b a = Lt) by (rewrite (ol_antisym c L), H1; reflexivity).
    assert (c d b = Lt) by (rewrite (ol_antisym c L), H2; reflexivity).
    rewrite (ol_antisym c L). rewrite (ol_trans c L d b a); auto.
  Qed.

  Lemma cmax_comm a b : cmax c a b = cmax c b a.
  Proof.
    unfold cmax. rewrite (ol_antisym c L a b). destruct (c a b) eqn:E; cbn; auto.
    apply (ol_eq c L) in E; auto.
  Qed.

  Lemma cmin_comm a b : cmin c a b = cmin c b a.
  Proof.
    unfold cmin. rewrite (ol_antisym c L a b). destruct (c a b) eqn:E; cbn; auto.
    apply (ol_eq c L) in E; auto.
  Qed.

  Lemma cmax_assoc a b d : cmax c (cmax c a b) d = cmax c a (cmax c b d).
  Proof.
    unfold cmax.
    destruct (c a b) eqn:Eab; destruct (c b d) eqn:Ebd;
      repeat match goal with
      | H : c ?x ?y = Eq |- _ => apply (ol_eq c L) in H; subst
      end; rewrite ?refl, ?Eab, ?Ebd; auto.
    all: try (rewrite (ol_trans c L _ _ _ Eab Ebd); reflexivity).
    all: try (rewrite (cmp_gt_trans _ _ _ Eab Ebd); reflexivity).
    all: destruct (c a d) eqn:Ead; auto.
  Qed.

  Lemma cmin_assoc a b d : cmin c (cmin c a b) d = cmin c a (cmin c b d).
  Proof.
    unfold cmin.
    destruct (c a b) eqn:Eab; destruct (c b d) eqn:Ebd;
      repeat match goal with
      | H : c ?x ?y = Eq |- _ => apply (ol_eq c L) in H; subst
      end; rewrite ?refl, ?Eab, ?Ebd; auto.
    all: try (rewrite (ol_trans c L _ _ _ Eab Ebd); reflexivity).
    all: try (rewrite (cmp_gt_trans _ _ _ Eab Ebd); reflexivity).
    all: destruct (c a d) eqn:Ead; auto.
  Qed.
End MaxMin.
