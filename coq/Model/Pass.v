(* Model of one scheduler pass: crates/warp-core/src/coordinator.rs
   (SchedulerCoordinator::super_tick_inner, WorldlineRuntime::{refresh_runnable, checkpoint_for,
   restore, rollback_receipt_correlations, record_receipt_correlations, record_scheduler_head_fault,
   record_scheduler_runtime_fault, resolve_scheduler_fault, ingest, submit_intent,
   ingest_ticketed_invocation, set_head_eligibility}, scheduler_fault_scope_for_error),
   provenance_store.rs (ProvenanceService::{checkpoint_for, restore, append_local_commit, tip_ref}),
   head.rs (RunnableWriterSet::rebuild), head_inbox.rs (HeadInbox::{admit, can_admit, ingest}).
   Definitions only.

   Abstractions (named in the evidence / manifest):
   * the engine is the Section variable [commit : S -> list N -> cres]: given the frontier state
     and the admitted batch (ingress ids in id order) it returns a new state with commit id and
     receipt digest, a typed engine error, or a panic.  A failing commit may leave ANY state
     behind ([CErr e s'], [CPanic s']): the model does not rely on the engine's
     RuntimeCommitStateGuard to undo it (the guard is code, exercised by the harness).
   * identities that the code derives by hashing are kept as their preimages: submission id and
     ticketed-ingress id = (head key, ingress id); scheduler run id = (next global tick, keys);
     fault id = fault generation (the collision retry loop of allocate_scheduler_fault_identity
     is not modelled).
   * the [runnable] cache of WorldlineRuntime is not a field: every reader in the code refreshes it
     first, so it is the function [runnable_keys].
   * maps are strictly sorted association lists (BTreeMap); sets are maps to unit. *)
From Coq Require Import List NArith Bool.
From Echo Require Import Base.FinMap Base.Order.
Import ListNotations.
Open Scope N_scope.

Definition tick_max : N := 18446744073709551615.   (* u64::MAX: WorldlineTick::MAX, GlobalTick::MAX *)
Definition lenN {A} (l : list A) : N := N.of_nat (length l).

(* WriterHeadKey { worldline_id, head_id }: derived Ord = lexicographic *)
Definition hkey := (N * N)%type.
Definition hkey_cmp : hkey -> hkey -> comparison := pair_cmp N.compare N.compare.
Definition wl_of (k : hkey) : N := fst k.

(* submission identity = (resolved head, ingress id) *)
Definition sub := (hkey * N)%type.
Definition sub_cmp : sub -> sub -> comparison := pair_cmp hkey_cmp N.compare.

Definition nset := list (N * unit).
Definition sset := list (sub * unit).

(* ------------------------------------------------------------------ heads *)

(* InboxPolicy: KindFilter admits exactly like AcceptAll (filtering happens at ingest) *)
Inductive policy := PAll | PBudget (n : N).

Record head := {
  h_pending : nset;          (* HeadInbox.pending keys (ingress ids, content addresses) *)
  h_policy : policy;
  h_admitted : bool;         (* HeadEligibility::Admitted *)
  h_paused : bool            (* PlaybackMode::Paused *)
}.

Definition with_pending (h : head) (p : nset) : head :=
  {| h_pending := p; h_policy := h_policy h; h_admitted := h_admitted h; h_paused := h_paused h |}.
Definition with_admitted (h : head) (b : bool) : head :=
  {| h_pending := h_pending h; h_policy := h_policy h; h_admitted := b; h_paused := h_paused h |}.

Definition take_n {A} (n : N) (l : list A) : list A := firstn (N.to_nat (N.min n (lenN l))) l.
Definition drop_n {A} (n : N) (l : list A) : list A := skipn (N.to_nat (N.min n (lenN l))) l.

(* HeadInbox::admit: batch in ingress-id order, removed from pending *)
Definition admit (h : head) : list N * head :=
  match h_policy h with
  | PAll => (map fst (h_pending h), with_pending h [])
  | PBudget n => (map fst (take_n n (h_pending h)), with_pending h (drop_n n (h_pending h)))
  end.

(* HeadInbox::can_admit *)
Definition can_admit (h : head) : bool :=
  match h_pending h with
  | [] => false
  | _ :: _ => match h_policy h with PAll => true | PBudget n => 0 <? n end
  end.

(* ------------------------------------------------------------------ frontiers, provenance *)

Record frontier (S : Type) := {
  f_tick : N;                               (* WorldlineFrontier.frontier_tick *)
  f_state : S;                              (* WorldlineState as seen by the engine *)
  f_committed : sset                        (* WorldlineState.committed_ingress *)
}.
Arguments f_tick {S}. Arguments f_state {S}. Arguments f_committed {S}.

(* ProvenanceEntry::local_commit, the fields a pass decides *)
Record entry := {
  e_tick : N; e_gtick : N; e_head : hkey; e_cid : N; e_parent : option N; e_batch : list N
}.

Definition provmap := list (N * list entry).

(* ------------------------------------------------------------------ receipt correlations *)

(* CausalTickReceiptRef as nested pairs so that it can key a map:
   (worldline, (tick_after, (commit_global_tick, (commit id, (submission, (ticket digest, receipt digest)))))) *)
Definition cref := (N * (N * (N * (N * (sub * (N * N))))))%type.
Definition cref_cmp : cref -> cref -> comparison :=
  pair_cmp N.compare (pair_cmp N.compare (pair_cmp N.compare (pair_cmp N.compare
    (pair_cmp sub_cmp (pair_cmp N.compare N.compare))))).
Definition basis := (N * (N * N))%type.     (* (worldline, tick_after, commit id) *)
Definition basis_cmp : basis -> basis -> comparison :=
  pair_cmp N.compare (pair_cmp N.compare N.compare).

Record crec := { c_ref : cref; c_head : hkey; c_ingress : N }.

Record corr := {
  witnessed : sset;                          (* witnessed_submissions (keys) *)
  pending_subs : sset;                       (* pending_witnessed_submission_ids *)
  staged : list (sub * N);                   (* ticketed_runtime_ingress_by_target -> ticket digest *)
  by_tid : list (sub * crec);                (* receipt_correlations_by_ticketed_ingress *)
  by_sub : list (sub * sub);                 (* receipt_correlation_by_submission *)
  by_ticket : list (N * sub);                (* receipt_correlation_by_ticket *)
  by_ref : list (cref * sub);                (* receipt_correlation_by_receipt_ref *)
  by_basis : list (basis * sset)             (* receipt_correlations_by_current_basis *)
}.

(* the six fields a pass may write *)
Definition with_corr (c : corr) p t s k r b : corr :=
  {| witnessed := witnessed c; pending_subs := p; staged := staged c;
     by_tid := t; by_sub := s; by_ticket := k; by_ref := r; by_basis := b |}.

(* ReceiptCorrelationRollbackEntry *)
Record logent := {
  l_sub : sub; l_prev_rec : option crec; l_prev_sub : option sub;
  l_ticket : N; l_prev_ticket : option sub;
  l_ref : cref; l_prev_ref : option sub;
  l_basis : basis; l_prev_basis : option sset;
  l_prev_pending : bool
}.

(* `match previous { Some(p) => map.insert(k, p), None => map.remove(k) }` *)
Definition restore_slot {K V} (cmp : K -> K -> comparison) (k : K) (prev : option V) (m : list (K * V)) :=
  match prev with Some v => set cmp k v m | None => del cmp k m end.

Definition undo_one (c : corr) (e : logent) : corr :=
  with_corr c
    (if l_prev_pending e then set sub_cmp (l_sub e) tt (pending_subs c) else del sub_cmp (l_sub e) (pending_subs c))
    (restore_slot sub_cmp (l_sub e) (l_prev_rec e) (by_tid c))
    (restore_slot sub_cmp (l_sub e) (l_prev_sub e) (by_sub c))
    (restore_slot N.compare (l_ticket e) (l_prev_ticket e) (by_ticket c))
    (restore_slot cref_cmp (l_ref e) (l_prev_ref e) (by_ref c))
    (restore_slot basis_cmp (l_basis e) (l_prev_basis e) (by_basis c)).

(* rollback_receipt_correlations: `entries.drain(..).rev()`; the model keeps the newest entry first *)
Definition rollback (log : list logent) (c : corr) : corr := fold_left undo_one log c.

Inductive corr_res := CorrOk (c : corr) (log : list logent) | CorrMismatch (c : corr) (log : list logent).

Definition opt_default {A} (d : A) (o : option A) : A := match o with Some x => x | None => d end.

(* record_receipt_correlations, one admitted envelope *)
Definition correlate_one (k : hkey) (gt tick_after cid rdig : N) (c : corr) (log : list logent) (id : N)
  : corr_res :=
  let s : sub := (k, id) in
  match find sub_cmp s (staged c) with
  | None => CorrOk c log
  | Some ticket =>
      if mem sub_cmp s (by_tid c) then CorrOk c log
      else
        let r : cref := (wl_of k, (tick_after, (gt, (cid, (s, (ticket, rdig)))))) in
        let b : basis := (wl_of k, (tick_after, cid)) in
        if mem sub_cmp s (by_sub c) || mem N.compare ticket (by_ticket c) || mem cref_cmp r (by_ref c)
           || mem sub_cmp s (opt_default [] (find basis_cmp b (by_basis c)))
        then CorrMismatch c log
        else
          let e := {| l_sub := s; l_prev_rec := find sub_cmp s (by_tid c);
                      l_prev_sub := find sub_cmp s (by_sub c);
                      l_ticket := ticket; l_prev_ticket := find N.compare ticket (by_ticket c);
                      l_ref := r; l_prev_ref := find cref_cmp r (by_ref c);
                      l_basis := b; l_prev_basis := find basis_cmp b (by_basis c);
                      l_prev_pending := mem sub_cmp s (pending_subs c) |} in
          CorrOk (with_corr c
                    (del sub_cmp s (pending_subs c))
                    (set sub_cmp s {| c_ref := r; c_head := k; c_ingress := id |} (by_tid c))
                    (set sub_cmp s s (by_sub c))
                    (set N.compare ticket s (by_ticket c))
                    (set cref_cmp r s (by_ref c))
                    (set basis_cmp b (set sub_cmp s tt (opt_default [] (find basis_cmp b (by_basis c)))) (by_basis c)))
                 (e :: log)
  end.

Fixpoint correlate (k : hkey) (gt tick_after cid rdig : N) (c : corr) (log : list logent) (batch : list N)
  : corr_res :=
  match batch with
  | [] => CorrOk c log
  | id :: rest =>
      match correlate_one k gt tick_after cid rdig c log id with
      | CorrOk c' log' => correlate k gt tick_after cid rdig c' log' rest
      | CorrMismatch c' log' => CorrMismatch c' log'
      end
  end.

(* ------------------------------------------------------------------ faults *)

Inductive scope := SHead (k : hkey) | SRuntime.
Inductive rterr :=
| EEngine (e : N) | EFrontierOverflow (w : N) | EGlobalOverflow | EProvenance
| EUnknownHead (k : hkey) | EUnknownWorldline (w : N) | ECorrMismatch
| ERuntimeFaultActive (g : N) | EGenOverflow.
Inductive cause := CauseErr (e : rterr) | CausePanic.
Inductive fstatus := Active | Resolved (rid : N).
Record fault := {
  ft_gen : N; ft_run : N * list hkey; ft_scope : scope; ft_cause : cause; ft_status : fstatus
}.

(* scheduler_fault_scope_for_error *)
Definition scope_for (k : hkey) (e : rterr) : scope :=
  match e with
  | EEngine _ | EFrontierOverflow _ => SHead k
  | _ => SRuntime
  end.

(* ------------------------------------------------------------------ runtime *)

Section WithState.
Variable S : Type.

Record rt := {
  heads : list (hkey * head);
  fronts : list (N * frontier S);
  gtick : N;
  cor : corr;
  faults : list fault;                 (* scheduler_faults, oldest first *)
  faulted_heads : list (hkey * N);     (* head -> generation of its active fault *)
  rt_fault : option N;
  next_gen : N                         (* next_scheduler_fault_generation *)
}.

Definition upd (r : rt) hs fs c : rt :=
  {| heads := hs; fronts := fs; gtick := gtick r; cor := c; faults := faults r;
     faulted_heads := faulted_heads r; rt_fault := rt_fault r; next_gen := next_gen r |}.
Definition with_gtick (r : rt) g : rt :=
  {| heads := heads r; fronts := fronts r; gtick := g; cor := cor r; faults := faults r;
     faulted_heads := faulted_heads r; rt_fault := rt_fault r; next_gen := next_gen r |}.
Definition with_faults (r : rt) fl fh rf ng : rt :=
  {| heads := heads r; fronts := fronts r; gtick := gtick r; cor := cor r; faults := fl;
     faulted_heads := fh; rt_fault := rf; next_gen := ng |}.

(* RunnableWriterSet::rebuild + refresh_runnable: head-key order, admitted, not paused, not faulted *)
Definition runnable_keys (r : rt) : list hkey :=
  match rt_fault r with
  | Some _ => []
  | None =>
      map fst (filter (fun kh => h_admitted (snd kh) && negb (h_paused (snd kh))
                                 && negb (mem hkey_cmp (fst kh) (faulted_heads r))) (heads r))
  end.

(* allocate_scheduler_fault_identity (generation part) *)
Definition alloc_gen (r : rt) : option N :=
  if next_gen r =? tick_max then None else Some (next_gen r + 1).

(* record_scheduler_head_fault *)
Definition record_head_fault (r : rt) (run : N * list hkey) (k : hkey) (c : cause) : option rt :=
  match find hkey_cmp k (faulted_heads r) with
  | Some _ => Some r
  | None =>
      match alloc_gen r with
      | None => None
      | Some g =>
          Some (with_faults r
                  (faults r ++ [{| ft_gen := g; ft_run := run; ft_scope := SHead k; ft_cause := c; ft_status := Active |}])
                  (set hkey_cmp k g (faulted_heads r)) (rt_fault r) g)
      end
  end.

(* record_scheduler_runtime_fault *)
Definition record_runtime_fault (r : rt) (run : N * list hkey) (c : cause) : option rt :=
  match rt_fault r with
  | Some _ => Some r
  | None =>
      match alloc_gen r with
      | None => None
      | Some g =>
          Some (with_faults r
                  (faults r ++ [{| ft_gen := g; ft_run := run; ft_scope := SRuntime; ft_cause := c; ft_status := Active |}])
                  (faulted_heads r) (Some g) g)
      end
  end.

Definition record_fault (r : rt) (run : N * list hkey) (sc : scope) (c : cause) : option rt :=
  match sc with SHead k => record_head_fault r run k c | SRuntime => record_runtime_fault r run c end.

(* resolve_scheduler_fault *)
Inductive resolve_res := ResOk (r : rt) | ResUnknown | ResAlready.

Fixpoint mark_resolved (g rid : N) (l : list fault) : list fault :=
  match l with
  | [] => []
  | f :: rest =>
      if ft_gen f =? g
      then {| ft_gen := ft_gen f; ft_run := ft_run f; ft_scope := ft_scope f; ft_cause := ft_cause f;
              ft_status := Resolved rid |} :: rest
      else f :: mark_resolved g rid rest
  end.

Definition find_fault (g : N) (l : list fault) : option fault :=
  List.find (fun f => ft_gen f =? g) l.

Definition resolve_fault (r : rt) (g rid : N) : resolve_res :=
  match find_fault g (faults r) with
  | None => ResUnknown
  | Some f =>
      match ft_status f with
      | Resolved _ => ResAlready
      | Active =>
          let fh := match ft_scope f with
                    | SHead k => match find hkey_cmp k (faulted_heads r) with
                                 | Some g' => if g' =? g then del hkey_cmp k (faulted_heads r) else faulted_heads r
                                 | None => faulted_heads r
                                 end
                    | SRuntime => faulted_heads r
                    end in
          let rf := match ft_scope f with
                    | SRuntime => match rt_fault r with
                                  | Some g' => if g' =? g then None else rt_fault r
                                  | None => None
                                  end
                    | SHead _ => rt_fault r
                    end in
          ResOk (with_faults r (mark_resolved g rid (faults r)) fh rf (next_gen r))
      end
  end.

(* set_head_eligibility *)
Definition set_eligibility (r : rt) (k : hkey) (b : bool) : option rt :=
  match find hkey_cmp k (heads r) with
  | None => None
  | Some h => Some (upd r (set hkey_cmp k (with_admitted h b) (heads r)) (fronts r) (cor r))
  end.

(* ------------------------------------------------------------------ ingress (outside a pass) *)

Inductive disp := DAccepted | DDuplicate | DUnknownHead | DUnknownSubmission | DAlreadyStaged | DDuplicateRuntimeIngress.

Definition committed_in (r : rt) (k : hkey) (id : N) : bool :=
  match find N.compare (wl_of k) (fronts r) with
  | Some f => mem sub_cmp (k, id) (f_committed f)
  | None => false
  end.

(* record_witnessed_submission *)
Definition witness (c : corr) (s : sub) : corr :=
  if mem sub_cmp s (witnessed c) then c
  else {| witnessed := set sub_cmp s tt (witnessed c); pending_subs := set sub_cmp s tt (pending_subs c);
          staged := staged c; by_tid := by_tid c; by_sub := by_sub c; by_ticket := by_ticket c;
          by_ref := by_ref c; by_basis := by_basis c |}.

(* WorldlineRuntime::ingest with an ExactHead target *)
Definition ingest (r : rt) (k : hkey) (id : N) : rt * disp :=
  match find hkey_cmp k (heads r) with
  | None => (r, DUnknownHead)
  | Some h =>
      if committed_in r k id then (r, DDuplicate)
      else if mem N.compare id (h_pending h) then (r, DDuplicate)
      else (upd r (set hkey_cmp k (with_pending h (set N.compare id tt (h_pending h))) (heads r))
                (fronts r) (witness (cor r) (k, id)), DAccepted)
  end.

(* WorldlineRuntime::submit_intent with an ExactHead target *)
Definition submit (r : rt) (k : hkey) (id : N) : rt * disp :=
  match find hkey_cmp k (heads r) with
  | None => (r, DUnknownHead)
  | Some _ =>
      if committed_in r k id then (r, DDuplicate)
      else if mem sub_cmp (k, id) (witnessed (cor r)) then (r, DDuplicate)
      else (upd r (heads r) (fronts r) (witness (cor r) (k, id)), DAccepted)
  end.

(* WorldlineRuntime::ingest_ticketed_invocation *)
Definition stage (r : rt) (k : hkey) (id ticket : N) : rt * disp :=
  let s : sub := (k, id) in
  if negb (mem sub_cmp s (witnessed (cor r))) then (r, DUnknownSubmission)
  else match find hkey_cmp k (heads r) with
  | None => (r, DUnknownHead)
  | Some _ =>
      match find sub_cmp s (staged (cor r)) with
      | Some t => if t =? ticket then (r, DDuplicate) else (r, DAlreadyStaged)
      | None =>
          match ingest r k id with
          | (r', DAccepted) =>
              let c := cor r' in
              (upd r' (heads r') (fronts r')
                 {| witnessed := witnessed c; pending_subs := pending_subs c;
                    staged := set sub_cmp s ticket (staged c); by_tid := by_tid c; by_sub := by_sub c;
                    by_ticket := by_ticket c; by_ref := by_ref c; by_basis := by_basis c |}, DAccepted)
          | (r', _) => (r', DDuplicateRuntimeIngress)
          end
      end
  end.

(* ------------------------------------------------------------------ the pass *)

Inductive cres := COk (s : S) (cid rdig : N) | CErr (e : N) (s : S) | CPanic (s : S).
Variable commit : S -> list N -> cres.

Record step := { st_head : hkey; st_count : N; st_tick_after : N; st_gtick : N; st_cid : N }.

(* loop state: runtime, provenance, correlation rollback log *)
Record lstate := { ls_rt : rt; ls_prov : provmap; ls_log : list logent }.

Inductive sres :=
| SCont (st : lstate) (rec : option step)
| SFail (st : lstate) (e : rterr)       (* Err inside the catch_unwind closure *)
| SPanic (st : lstate)                  (* unwind caught by catch_unwind *)
| SOuter (st : lstate) (e : rterr).     (* `?` outside the closure: returned without rollback *)

Definition with_state (f : frontier S) (s : S) : frontier S :=
  {| f_tick := f_tick f; f_state := s; f_committed := f_committed f |}.

Definition add_committed (k : hkey) (batch : list N) (c : sset) : sset :=
  fold_left (fun acc id => set sub_cmp (k, id) tt acc) batch c.

Definition last_cid (es : list entry) : option N :=
  match rev es with [] => None | e :: _ => Some (e_cid e) end.

(* body of `for key in &keys` in super_tick_inner *)
Definition pass_step (next : N) (k : hkey) (st : lstate) : sres :=
  let r := ls_rt st in
  match find hkey_cmp k (heads r) with
  | None => SOuter st (EUnknownHead k)
  | Some h =>
      let '(batch, h') := admit h in
      let hs := set hkey_cmp k h' (heads r) in
      let st1 := {| ls_rt := upd r hs (fronts r) (cor r); ls_prov := ls_prov st; ls_log := ls_log st |} in
      match batch with
      | [] => SCont st1 None
      | _ :: _ =>
          match find N.compare (wl_of k) (fronts r) with
          | None => SFail st1 (EUnknownWorldline (wl_of k))
          | Some f =>
              match find N.compare (wl_of k) (ls_prov st) with
              | None => SFail st1 EProvenance                       (* tip_ref: WorldlineNotFound *)
              | Some es =>
                  match commit (f_state f) batch with
                  | CPanic s' =>
                      SPanic {| ls_rt := upd r hs (set N.compare (wl_of k) (with_state f s') (fronts r)) (cor r);
                                ls_prov := ls_prov st; ls_log := ls_log st |}
                  | CErr e s' =>
                      SFail {| ls_rt := upd r hs (set N.compare (wl_of k) (with_state f s') (fronts r)) (cor r);
                               ls_prov := ls_prov st; ls_log := ls_log st |} (EEngine e)
                  | COk s' cid rdig =>
                      let f1 := with_state f s' in
                      if negb (lenN es =? f_tick f)                     (* append_local_commit: TickGap *)
                      then SFail {| ls_rt := upd r hs (set N.compare (wl_of k) f1 (fronts r)) (cor r);
                                    ls_prov := ls_prov st; ls_log := ls_log st |} EProvenance
                      else
                        let en := {| e_tick := f_tick f; e_gtick := next; e_head := k; e_cid := cid;
                                     e_parent := last_cid es; e_batch := batch |} in
                        let pv := set N.compare (wl_of k) (es ++ [en]) (ls_prov st) in
                        let f2 := {| f_tick := f_tick f; f_state := s';
                                     f_committed := add_committed k batch (f_committed f) |} in
                        if f_tick f =? tick_max                           (* advance_tick: checked_increment *)
                        then SFail {| ls_rt := upd r hs (set N.compare (wl_of k) f2 (fronts r)) (cor r);
                                      ls_prov := pv; ls_log := ls_log st |} (EFrontierOverflow (wl_of k))
                        else
                          let f3 := {| f_tick := f_tick f + 1; f_state := s'; f_committed := f_committed f2 |} in
                          let fs := set N.compare (wl_of k) f3 (fronts r) in
                          match correlate k next (f_tick f + 1) cid rdig (cor r) (ls_log st) batch with
                          | CorrMismatch c' log' =>
                              SFail {| ls_rt := upd r hs fs c'; ls_prov := pv; ls_log := log' |} ECorrMismatch
                          | CorrOk c' log' =>
                              SCont {| ls_rt := upd r hs fs c'; ls_prov := pv; ls_log := log' |}
                                    (Some {| st_head := k; st_count := lenN batch; st_tick_after := f_tick f + 1;
                                             st_gtick := next; st_cid := cid |})
                          end
                  end
              end
          end
      end
  end.

Inductive lres :=
| LDone (st : lstate) (recs : list step)
| LFail (st : lstate) (k : hkey) (e : rterr)
| LPanic (st : lstate)
| LOuter (st : lstate) (e : rterr).

Definition opt_cons {A} (o : option A) (l : list A) : list A := match o with Some x => x :: l | None => l end.

Fixpoint pass_loop (next : N) (keys : list hkey) (st : lstate) : lres :=
  match keys with
  | [] => LDone st []
  | k :: ks =>
      match pass_step next k st with
      | SCont st' o =>
          match pass_loop next ks st' with
          | LDone st'' recs => LDone st'' (opt_cons o recs)
          | other => other
          end
      | SFail st' e => LFail st' k e
      | SPanic st' => LPanic st'
      | SOuter st' e => LOuter st' e
      end
  end.

(* RuntimeCheckpoint: ONLY the touched heads and the frontiers of their worldlines *)
Record checkpoint := {
  cp_gtick : N; cp_heads : list (hkey * head); cp_fronts : list (N * frontier S)
}.

Fixpoint checkpoint_heads (r : rt) (keys : list hkey) : option (list (hkey * head)) :=
  match keys with
  | [] => Some []
  | k :: ks =>
      match find hkey_cmp k (heads r), checkpoint_heads r ks with
      | Some h, Some m => Some (set hkey_cmp k h m)
      | _, _ => None
      end
  end.

Fixpoint checkpoint_fronts (r : rt) (keys : list hkey) : option (list (N * frontier S)) :=
  match keys with
  | [] => Some []
  | k :: ks =>
      match find N.compare (wl_of k) (fronts r), checkpoint_fronts r ks with
      | Some f, Some m => Some (set N.compare (wl_of k) f m)
      | _, _ => None
      end
  end.

Definition checkpoint_for (r : rt) (keys : list hkey) : option checkpoint :=
  match checkpoint_heads r keys, checkpoint_fronts r keys with
  | Some hs, Some fs => Some {| cp_gtick := gtick r; cp_heads := hs; cp_fronts := fs |}
  | _, _ => None
  end.

(* WorldlineRuntime::restore: re-insert every checkpointed head / frontier *)
Definition restore (r : rt) (cp : checkpoint) : rt :=
  with_gtick
    (upd r (fold_left (fun m kh => set hkey_cmp (fst kh) (snd kh) m) (cp_heads cp) (heads r))
           (fold_left (fun m wf => set N.compare (fst wf) (snd wf) m) (cp_fronts cp) (fronts r))
           (cor r))
    (cp_gtick cp).

(* ProvenanceService::checkpoint_for: entry lengths of the touched worldlines *)
Fixpoint prov_checkpoint (p : provmap) (keys : list hkey) : option (list (N * N)) :=
  match keys with
  | [] => Some []
  | k :: ks =>
      match find N.compare (wl_of k) p, prov_checkpoint p ks with
      | Some es, Some m => Some (set N.compare (wl_of k) (lenN es) m)
      | _, _ => None
      end
  end.

(* ProvenanceService::restore: truncate *)
Definition prov_restore (p : provmap) (cp : list (N * N)) : provmap :=
  fold_left (fun m wn => match find N.compare (fst wn) m with
                         | Some es => set N.compare (fst wn) (firstn (N.to_nat (snd wn)) es) m
                         | None => m
                         end) cp p.

Inductive outcome := OOk (recs : list step) | OErr (e : rterr) | OPanic.

(* the frontier-overflow preflight: first runnable head that can admit on a worldline at tick MAX *)
Fixpoint preflight (r : rt) (keys : list hkey) : option (hkey * rterr) :=
  match keys with
  | [] => None
  | k :: ks =>
      match find hkey_cmp k (heads r) with
      | None => Some (k, EUnknownHead k)
      | Some h =>
          if can_admit h then
            match find N.compare (wl_of k) (fronts r) with
            | None => Some (k, EUnknownWorldline (wl_of k))
            | Some f => if f_tick f =? tick_max then Some (k, EFrontierOverflow (wl_of k)) else preflight r ks
            end
          else preflight r ks
      end
  end.

(* `record_...(...)?; return Err(err)`: a failing fault allocation replaces the error *)
Definition fault_then (r : rt) (run : N * list hkey) (sc : scope) (e : rterr) : rt * outcome :=
  match record_fault r run sc (CauseErr e) with
  | Some r' => (r', OErr e)
  | None => (r, OErr EGenOverflow)
  end.

(* SchedulerCoordinator::super_tick *)
Definition super_tick (r : rt) (p : provmap) : rt * provmap * outcome :=
  match rt_fault r with
  | Some g => (r, p, OErr (ERuntimeFaultActive g))
  | None =>
      let keys := runnable_keys r in
      if gtick r =? tick_max then
        let '(r', o) := fault_then r (gtick r, keys) SRuntime EGlobalOverflow in (r', p, o)
      else
        let next := gtick r + 1 in
        let run := (next, keys) in
        match preflight r keys with
        | Some (k, EFrontierOverflow w) =>
            let '(r', o) := fault_then r run (SHead k) (EFrontierOverflow w) in (r', p, o)
        | Some (_, e) => (r, p, OErr e)
        | None =>
            match checkpoint_for r keys with
            | None => (r, p, OErr (EUnknownHead (0, 0)))
            | Some cp =>
                match prov_checkpoint p keys with
                | None => (r, p, OErr EProvenance)
                | Some pcp =>
                    match pass_loop next keys {| ls_rt := r; ls_prov := p; ls_log := [] |} with
                    | LDone st recs => (with_gtick (ls_rt st) next, ls_prov st, OOk recs)
                    | LOuter st e => (ls_rt st, ls_prov st, OErr e)
                    | LFail st k e =>
                        let r1 := ls_rt st in
                        let r2 := restore (upd r1 (heads r1) (fronts r1) (rollback (ls_log st) (cor r1))) cp in
                        let '(r3, o) := fault_then r2 run (scope_for k e) e in
                        (r3, prov_restore (ls_prov st) pcp, o)
                    | LPanic st =>
                        let r1 := ls_rt st in
                        let r2 := restore (upd r1 (heads r1) (fronts r1) (rollback (ls_log st) (cor r1))) cp in
                        (opt_default r2 (record_runtime_fault r2 run CausePanic),
                         prov_restore (ls_prov st) pcp, OPanic)
                    end
                end
            end
        end
  end.

(* what a pass may add: fault evidence only *)
Definition same_but_faults (r r' : rt) : Prop :=
  heads r' = heads r /\ fronts r' = fronts r /\ gtick r' = gtick r /\ cor r' = cor r.

End WithState.

Arguments heads {S}. Arguments fronts {S}. Arguments gtick {S}. Arguments cor {S}.
Arguments faults {S}. Arguments faulted_heads {S}. Arguments rt_fault {S}. Arguments next_gen {S}.
Arguments ls_rt {S}. Arguments ls_prov {S}. Arguments ls_log {S}.
Arguments COk {S}. Arguments CErr {S}. Arguments CPanic {S}.
Arguments SCont {S}. Arguments SFail {S}. Arguments SPanic {S}. Arguments SOuter {S}.
Arguments LDone {S}. Arguments LFail {S}. Arguments LPanic {S}. Arguments LOuter {S}.
Arguments ResOk {S}. Arguments ResUnknown {S}. Arguments ResAlready {S}.
Arguments cp_gtick {S}. Arguments cp_heads {S}. Arguments cp_fronts {S}.

(* ------------------------------------------------------------------ executable instance
   The state is the list of committed batches; the engine is a table: ingress id -> behaviour.
   0 applies, 1 applies-or-is-rejected (footprint conflict: still Ok), 2 typed engine error,
   3 executor panic / footprint violation (unwinds). *)
Definition tstate := list N.
Definition table_commit (tbl : list (N * N)) (s : tstate) (batch : list N) : cres tstate :=
  let beh := map (fun id => opt_default 0 (find N.compare id tbl)) batch in
  if existsb (N.eqb 3) beh then CPanic (s ++ batch)
  else if existsb (N.eqb 2) beh then CErr 2 (s ++ batch)
  else COk (s ++ batch) (lenN s) (lenN batch).

(* ------------------------------------------------------------------ scenario driver (public API calls in sequence) *)

Inductive op :=
| OpIngest (k : hkey) (id : N) | OpTicketed (k : hkey) (id ticket : N) | OpPass
| OpResolve (g rid : N) | OpElig (k : hkey) (b : bool) | OpSwapProv | OpJumpGlobal (k : hkey) (id : N).

Definition disp_code (d : disp) : N :=
  match d with
  | DAccepted => 0 | DDuplicate => 1 | DUnknownHead => 2 | DUnknownSubmission => 3
  | DAlreadyStaged => 4 | DDuplicateRuntimeIngress => 5
  end.
Definition err_code (e : rterr) : N :=
  match e with
  | EEngine _ => 1 | EFrontierOverflow _ => 2 | EGlobalOverflow => 3 | EProvenance => 4
  | EUnknownHead _ => 5 | EUnknownWorldline _ => 6 | ECorrMismatch => 7 | ERuntimeFaultActive _ => 8
  | EGenOverflow => 9
  end.
Definition cause_code (c : cause) : N := match c with CauseErr e => err_code e | CausePanic => 10 end.

Section Scenario.
Variable S : Type.
Variable commit : S -> list N -> cres S.
Variable f_state_after : N -> S.   (* engine state after replaying a history that committed one intent *)

(* (kind, a, b, steps): kind 0 ingest a=disp; 1 ticketed a,b=disps (b=9: not attempted); 2 pass a=0 ok / err code / 10 panic;
   3 resolve a=0 ok,1 unknown,2 already; 4 eligibility a=0 ok,1 unknown; 5 swap; 6 jump a=0 ok,1 unknown worldline *)
Definition oout := (N * N * N * list step)%type.

Definition run_op (st : rt S * provmap) (o : op) : (rt S * provmap) * oout :=
  let '(r, p) := st in
  match o with
  | OpIngest k id => let '(r', d) := ingest S r k id in ((r', p), (0, disp_code d, 0, []))
  | OpTicketed k id t =>
      let '(r1, d1) := submit S r k id in
      match d1 with
      | DAccepted | DDuplicate =>
          let '(r2, d2) := stage S r1 k id t in ((r2, p), (1, disp_code d1, disp_code d2, []))
      | _ => ((r1, p), (1, disp_code d1, 9, []))
      end
  | OpPass =>
      let '(r', p', out) := super_tick S commit r p in
      ((r', p'), match out with
                 | OOk recs => (2, 0, 0, recs)
                 | OErr e => (2, err_code e, 0, [])
                 | OPanic => (2, 10, 0, [])
                 end)
  | OpResolve g rid =>
      match resolve_fault S r g rid with
      | ResOk r' => ((r', p), (3, 0, 0, []))
      | ResUnknown => ((r, p), (3, 1, 0, []))
      | ResAlready => ((r, p), (3, 2, 0, []))
      end
  | OpElig k b =>
      match set_eligibility S r k b with
      | Some r' => ((r', p), (4, 0, 0, []))
      | None => ((r, p), (4, 1, 0, []))
      end
  | OpSwapProv => ((r, map (fun wf => (fst wf, [])) (fronts r)), (5, 0, 0, []))
  | OpJumpGlobal k id =>
      (* WorldlineRuntime::restore_causal_runtime_history from a fresh provenance service that holds ONE crafted
         local commit (worldline of k, tick 0, batch [id], commit_global_tick = u64::MAX): the frontier is rebuilt by
         replay at tick = history length, the committed-ingress ledger is not restored, the global tick becomes
         max(global tick, entry stamp) *)
      match find N.compare (wl_of k) (fronts r) with
      | None => ((r, p), (6, 1, 0, []))
      | Some _ =>
          ((with_gtick S
              (upd S r (heads r)
                   (set N.compare (wl_of k) {| f_tick := 1; f_state := f_state_after id; f_committed := [] |} (fronts r))
                   (cor r))
              (N.max (gtick r) tick_max),
            set N.compare (wl_of k)
                [{| e_tick := 0; e_gtick := tick_max; e_head := k; e_cid := 0; e_parent := None; e_batch := [id] |}]
                (map (fun wf => (fst wf, [])) (fronts r))),
           (6, 0, 0, []))
      end
  end.

Fixpoint run_ops (st : rt S * provmap) (ops : list op) : list (oout * (rt S * provmap)) :=
  match ops with
  | [] => []
  | o :: rest => let '(st', out) := run_op st o in (out, st') :: run_ops st' rest
  end.
End Scenario.

(* WorldlineRuntime::new + register_worldline + register_writer_head + ProvenanceService::register_worldline *)
Definition rt_init {S} (s0 : S) (worlds : list N) (hs : list (hkey * (policy * bool))) : rt S * provmap :=
  ({| heads := fold_left (fun m kh => set hkey_cmp (fst kh)
                             {| h_pending := []; h_policy := fst (snd kh); h_admitted := true; h_paused := snd (snd kh) |} m) hs [];
      fronts := fold_left (fun m w => set N.compare w {| f_tick := 0; f_state := s0; f_committed := [] |} m) worlds [];
      gtick := 0;
      cor := {| witnessed := []; pending_subs := []; staged := []; by_tid := []; by_sub := []; by_ticket := [];
                by_ref := []; by_basis := [] |};
      faults := []; faulted_heads := []; rt_fault := None; next_gen := 0 |},
   fold_left (fun m w => set N.compare w [] m) worlds []).

(* canonical view compared with the implementation's dump *)
Definition view (st : rt tstate * provmap) :=
  let '(r, p) := st in
  (gtick r,
   map (fun wf => (fst wf, f_tick (snd wf),
                   match find N.compare (fst wf) p with Some es => (1, lenN es) | None => (0, 0) end,
                   f_state (snd wf),
                   map (fun se => (snd (fst (fst se)), snd (fst se))) (f_committed (snd wf)))) (fronts r),
   map (fun kh => (fst kh, map fst (h_pending (snd kh)), h_admitted (snd kh), h_paused (snd kh),
                   mem hkey_cmp (fst kh) (faulted_heads r))) (heads r),
   map (fun f => (ft_gen f, match ft_scope f with SHead k => (0, k) | SRuntime => (1, (0, 0)) end,
                  match ft_status f with Active => (0, 0) | Resolved rid => (1, rid) end,
                  cause_code (ft_cause f))) (faults r),
   match rt_fault r with Some _ => 1 | None => 0 end,
   map (fun sc => (fst sc, fst (snd (c_ref (snd sc))), fst (snd (snd (c_ref (snd sc)))))) (by_tid (cor r)),
   lenN (pending_subs (cor r)),
   runnable_keys _ r).

Definition run_case (tbl : list (N * N)) (worlds : list N) (hs : list (hkey * (policy * bool))) (ops : list op) :=
  map (fun os => (fst os, view (snd os))) (run_ops tstate (table_commit tbl) (fun id => [id]) (rt_init [] worlds hs) ops).
