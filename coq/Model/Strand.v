(* Model of speculative lanes (strands): crates/warp-core/src/strand.rs (Strand::new,
   live_basis_report, StrandDivergenceFootprint, ParentMovementFootprint), settlement.rs
   (plan_with_policy_internal, settle_with_policy_internal, overlap_slots_are_clean, both plural
   policies, append_recorded_entry), coordinator.rs (fork_strand, the local-commit part of
   super_tick) and provenance_store.rs (fork, rewrite_entry_for_fork, checkpoint_for / restore,
   append_braid_shell's binding check, replay with recorded-root verification).
   Definitions only.

   Abstraction.  A worldline state is a finite map `slot -> value`; a slot stands for one
   SlotId (node record, edge record, attachment), a value for the record stored there.  A patch
   op is a guarded multi-write: it fails iff a required slot is absent (UpsertNode: no
   requirement; SetAttachment / DeleteNode: the owner node; DeleteEdge: the edge), otherwise it
   writes constants (DeleteNode clears node and alpha attachment, as delete_node_isolated does).
   Hashes are section variables (state root, commit id, artifact / shell ids); nothing is assumed
   about them.  Braid shell bodies, member blinding and retention posture are NOT modelled: the
   shell is reduced to the facts settlement's control flow depends on (digest, plural bindings). *)
From Coq Require Import List NArith Bool Lia.
From Echo Require Import Base.FinMap Base.Order.
Import ListNotations.
Open Scope N_scope.

Definition slot := N.
Definition value := N.
Definition lane := N.

(* ---------------------------------------------------------------- small association lists *)
Fixpoint alookup {A} (k : N) (l : list (N * A)) : option A :=
  match l with
  | [] => None
  | (k', a) :: r => if N.eqb k k' then Some a else alookup k r
  end.

Fixpoint aupdate {A} (k : N) (a : A) (l : list (N * A)) : list (N * A) :=
  match l with
  | [] => []
  | (k', a') :: r => if N.eqb k k' then (k', a) :: r else (k', a') :: aupdate k a r
  end.

Definition amem {A} (k : N) (l : list (N * A)) : bool :=
  match alookup k l with Some _ => true | None => false end.

Definition memN (x : N) (l : list N) : bool := existsb (N.eqb x) l.

(* BTreeSet<SlotId>: strictly increasing list *)
Fixpoint sins (x : N) (l : list N) : list N :=
  match l with
  | [] => [x]
  | y :: r => match N.compare x y with
              | Lt => x :: l
              | Eq => l
              | Gt => y :: sins x r
              end
  end.
Definition set_of (l : list N) : list N := fold_left (fun a x => sins x a) l [].

Definition lenN {A} (l : list A) : N := N.of_nat (length l).
Definition nthN {A} (l : list A) (i : N) : option A := nth_error l (N.to_nat i).
Definition firstnN {A} (n : N) (l : list A) : list A := firstn (N.to_nat n) l.
Definition skipnN {A} (n : N) (l : list A) : list A := skipn (N.to_nat n) l.
Definition u64max : N := 18446744073709551615.

(* ---------------------------------------------------------------- state and patches *)
(* newest binding first; [None] is a tombstone *)
Definition state := list (slot * option value).

Fixpoint sget (st : state) (s : slot) : option value :=
  match st with
  | [] => None
  | (s', v) :: r => if N.eqb s s' then v else sget r s
  end.

Definition sput (st : state) (s : slot) (v : option value) : state := (s, v) :: st.

(* canonical content: strictly sorted, no tombstones *)
Definition canon (st : state) : list (slot * value) :=
  fold_right (fun sv m => match snd sv with
                          | Some x => set N.compare (fst sv) x m
                          | None => del N.compare (fst sv) m
                          end) [] st.

Record op := mkOp { op_req : list slot; op_writes : list (slot * option value) }.

Definition present (st : state) (s : slot) : bool :=
  match sget st s with Some _ => true | None => false end.

Definition write_all (st : state) (ws : list (slot * option value)) : state :=
  fold_left (fun a w => sput a (fst w) (snd w)) ws st.

(* tick_patch.rs: apply_op_to_state *)
Definition apply_op (st : state) (o : op) : option state :=
  if forallb (present st) (op_req o) then Some (write_all st (op_writes o)) else None.

(* apply_ops_to_state: stops at the first failing op *)
Fixpoint apply_ops (st : state) (ops : list op) : option state :=
  match ops with
  | [] => Some st
  | o :: r => match apply_op st o with
              | Some st' => apply_ops st' r
              | None => None
              end
  end.

(* WorldlineTickPatchV1: declared slots + ops *)
Record patch := mkPatch { p_in : list slot; p_out : list slot; p_ops : list op }.
Definition empty_patch : patch := mkPatch [] [] [].

Definition op_slots (o : op) : list slot := map fst (op_writes o).
Definition patch_writes (p : patch) : list slot := flat_map op_slots (p_ops p).

(* ---------------------------------------------------------------- provenance *)
Definition pref := (lane * N * N)%type.      (* ProvenanceRef: worldline, tick, commit id *)
Definition pref_eqb (a b : pref) : bool :=
  let '(l1, t1, c1) := a in let '(l2, t2, c2) := b in
  N.eqb l1 l2 && N.eqb t1 t2 && N.eqb c1 c2.
Definition hkey := (lane * N)%type.          (* WriterHeadKey: worldline, head id *)
Definition hkey_eqb (a b : hkey) : bool := N.eqb (fst a) (fst b) && N.eqb (snd a) (snd b).

Inductive ekind :=
| KLocal
| KImport (src : lane) (src_tick : N) (op_id : N)
| KConflict (artifact : N)
| KPlural (plural_id : N).

Definition is_local (k : ekind) : bool := match k with KLocal => true | _ => false end.

Record entry := mkEntry {
  e_lane : lane; e_tick : N; e_head : option hkey; e_parents : list pref; e_kind : ekind;
  e_root : N; e_commit : N; e_patch : option patch }.

Definition e_ref (e : entry) : pref := (e_lane e, e_tick e, e_commit e).

Record history := mkHistory { h_init : N; h_entries : list entry }.

(* retained braid shell, reduced to what settlement's control flow reads *)
Record shell := mkShell {
  sh_digest : N; sh_target : lane; sh_strand : N; sh_policy : N; sh_frontier : pref;
  sh_verdicts : list N;                 (* 1 import, 2 conflict, 3 plural, in decision order *)
  sh_plurals : list N; sh_imports : list pref }.

Definition shell_eqb (a b : shell) : bool :=
  N.eqb (sh_digest a) (sh_digest b) && N.eqb (sh_target a) (sh_target b) &&
  N.eqb (sh_strand a) (sh_strand b) && N.eqb (sh_policy a) (sh_policy b) &&
  pref_eqb (sh_frontier a) (sh_frontier b) &&
  (if list_eq_dec N.eq_dec (sh_verdicts a) (sh_verdicts b) then true else false) &&
  (if list_eq_dec N.eq_dec (sh_plurals a) (sh_plurals b) then true else false) &&
  (lenN (sh_imports a) =? lenN (sh_imports b)) &&
  forallb (fun ab => pref_eqb (fst ab) (snd ab)) (combine (sh_imports a) (sh_imports b)).

Record prov := mkProv {
  pv_lanes : list (lane * history);
  pv_shells : list (N * shell);          (* digest -> shell *)
  pv_plural_index : list (N * N) }.      (* plural id -> shell digest *)

Definition entries_of (pv : prov) (l : lane) : option (list entry) :=
  option_map h_entries (alookup l (pv_lanes pv)).

Definition tip_ref (es : list entry) : option pref := option_map e_ref (last (map Some es) None).

(* ---------------------------------------------------------------- runtime *)
Record frontier := mkFrontier { f_init : state; f_state : state; f_tick : N }.

Record strand := mkStrand {
  st_id : N; st_src : lane; st_fork_tick : N; st_commit : N; st_boundary : N; st_ref : pref;
  st_child : lane; st_heads : list hkey; st_shared : bool }.

Record runtime := mkRuntime {
  rt_lanes : list (lane * frontier);
  rt_heads : list hkey;
  rt_strands : list (N * strand);
  rt_gtick : N }.

Inductive err :=
| EUnknownWorldline | EUnknownHead | EReplay | EWorldlineExists | EHistoryNotFound
| EHistoryUnavailable | EStrandInvariant | EDuplicateWorldline | EDuplicateHead | EStrandExists
| EStrandNotFound | ENonShared | EDrift | EBasis | EMissingPatch | EApply | ERootMismatch
| EAppend | EGlobalTick | EShell | ETickOverflow.

Inductive result (A : Type) := Ok (a : A) | Err (e : err).
Arguments Ok {A} a.
Arguments Err {A} e.

Definition world := (runtime * prov)%type.

Section WithHash.
  (* compute_state_root over the canonical content, compute_commit_hash_v2 over (root, parent
     commit ids), conflict / plural artifact ids, shell digest: arbitrary functions *)
  Variable Hroot : list (slot * value) -> N.
  Variable Hcommit : N -> list N -> N.
  Variable Hart : lane -> pref -> N -> N.
  Variable Hplural : lane -> pref -> list slot -> N -> N.
  Variable Hshell : lane -> N -> N -> pref -> list N -> list N -> list pref -> N.

  Definition root_of (st : state) : N := Hroot (canon st).

  (* ---------------------------------------------------------------- replay *)
  (* replay_worldline_state_at: apply recorded patches, verify the recorded state root of each *)
  Fixpoint replay_entries (st : state) (es : list entry) : option state :=
    match es with
    | [] => Some st
    | e :: r =>
        match e_patch e with
        | None => None
        | Some p =>
            match apply_ops st (p_ops p) with
            | None => None
            | Some st' => if N.eqb (root_of st') (e_root e) then replay_entries st' r else None
            end
        end
    end.

  Definition replay_at (pv : prov) (l : lane) (init : state) (t : N) : option state :=
    match alookup l (pv_lanes pv) with
    | None => None
    | Some h =>
        if negb (N.eqb (root_of init) (h_init h)) then None
        else if lenN (h_entries h) <? t then None
        else replay_entries init (firstnN t (h_entries h))
    end.

  (* ---------------------------------------------------------------- a committed tick *)
  (* The local-commit path of SchedulerCoordinator::super_tick for one head: the engine produced
     patch [p] for this head's worldline; the patch is applied to the frontier, an entry is
     appended (append_local_commit checks lane, tick = length, parents = tip) and the frontier
     advances.  Any failure restores everything. *)
  Definition tick (w : world) (hk : hkey) (p : patch) : result world :=
    let '(rt, pv) := w in
    if negb (existsb (hkey_eqb hk) (rt_heads rt)) then Err EUnknownHead else
    match alookup (fst hk) (rt_lanes rt), alookup (fst hk) (pv_lanes pv) with
    | Some fr, Some h =>
        if N.eqb (f_tick fr) u64max then Err ETickOverflow else
        match apply_ops (f_state fr) (p_ops p) with
        | None => Err EApply
        | Some st' =>
            let parents := match tip_ref (h_entries h) with Some r => [r] | None => [] end in
            let root := root_of st' in
            let e := mkEntry (fst hk) (f_tick fr) (Some hk) parents KLocal root
                             (Hcommit root (map (fun r => snd r) parents)) (Some p) in
            if negb (N.eqb (f_tick fr) (lenN (h_entries h))) then Err EAppend else
            Ok (mkRuntime (aupdate (fst hk) (mkFrontier (f_init fr) st' (f_tick fr + 1)) (rt_lanes rt))
                          (rt_heads rt) (rt_strands rt) (rt_gtick rt),
                mkProv (aupdate (fst hk) (mkHistory (h_init h) (h_entries h ++ [e])) (pv_lanes pv))
                       (pv_shells pv) (pv_plural_index pv))
        end
    | _, _ => Err EUnknownWorldline
    end.

  (* ---------------------------------------------------------------- fork *)
  (* provenance_store.rs: rewrite_entry_for_fork *)
  Definition rewrite_entry (src child : lane) (e : entry) : entry :=
    mkEntry child (e_tick e)
      (option_map (fun hk : hkey => if N.eqb (fst hk) src then (child, snd hk) else hk) (e_head e))
      (map (fun r : pref => let '(l, t, c) := r in if N.eqb l src then (child, t, c) else r) (e_parents e))
      (e_kind e) (e_root e) (e_commit e) (e_patch e).

  (* LocalProvenanceStore::fork *)
  Definition prov_fork (pv : prov) (src : lane) (k : N) (child : lane) : result prov :=
    if amem child (pv_lanes pv) then Err EWorldlineExists else
    match alookup src (pv_lanes pv) with
    | None => Err EHistoryNotFound
    | Some h =>
        if lenN (h_entries h) <=? k then Err EHistoryUnavailable else
        Ok (mkProv (pv_lanes pv ++ [(child, mkHistory (h_init h)
                                       (map (rewrite_entry src child) (firstnN (k + 1) (h_entries h))))])
                   (pv_shells pv) (pv_plural_index pv))
    end.

  Record fork_req := mkForkReq {
    fq_strand : N; fq_src : lane; fq_tick : N; fq_child : lane; fq_heads : list hkey; fq_shared : bool }.

  (* the body of WorldlineRuntime::fork_strand's closure, in the order of the code *)
  Definition fork_steps (w : world) (q : fork_req) : result world :=
    let '(rt, pv) := w in
    match alookup (fq_src q) (rt_lanes rt) with
    | None => Err EUnknownWorldline
    | Some sfr =>
        match replay_at pv (fq_src q) (f_init sfr) (fq_tick q) with
        | None => Err EReplay
        | Some _ =>
            match prov_fork pv (fq_src q) (fq_tick q) (fq_child q) with
            | Err e => Err e
            | Ok pv1 =>
                match replay_at pv1 (fq_child q) (f_init sfr) (fq_tick q + 1) with
                | None => Err EReplay
                | Some cst =>
                    match option_map h_entries (alookup (fq_src q) (pv_lanes pv1)) with
                    | None => Err EHistoryNotFound
                    | Some ses =>
                        match nthN ses (fq_tick q) with
                        | None => Err EHistoryUnavailable
                        | Some se =>
                            (* Strand::new: INV-S7, exactly one head, INV-S8 *)
                            if N.eqb (fq_child q) (fq_src q) then Err EStrandInvariant else
                            if negb (N.eqb (lenN (fq_heads q)) 1) then Err EStrandInvariant else
                            if negb (forallb (fun hk : hkey => N.eqb (fst hk) (fq_child q)) (fq_heads q))
                            then Err EStrandInvariant else
                            (* register_worldline, register_writer_head, register_strand *)
                            if amem (fq_child q) (rt_lanes rt) then Err EDuplicateWorldline else
                            if existsb (fun hk => existsb (hkey_eqb hk) (rt_heads rt)) (fq_heads q)
                            then Err EDuplicateHead else
                            if amem (fq_strand q) (rt_strands rt) then Err EStrandExists else
                            let s := mkStrand (fq_strand q) (fq_src q) (fq_tick q) (e_commit se) (e_root se)
                                              (e_ref se) (fq_child q) (fq_heads q) (fq_shared q) in
                            Ok (mkRuntime (rt_lanes rt ++ [(fq_child q, mkFrontier (f_init sfr) cst (fq_tick q + 1))])
                                          (rt_heads rt ++ fq_heads q)
                                          (rt_strands rt ++ [(fq_strand q, s)])
                                          (rt_gtick rt),
                                pv1)
                        end
                    end
                end
            end
        end
    end.

  (* fork_strand: runtime and provenance are cloned first and restored on any error *)
  Definition fork_strand (w : world) (q : fork_req) : world * option err :=
    let saved := w in
    match fork_steps w q with
    | Ok w' => (w', None)
    | Err e => (saved, Some e)
    end.

  (* ---------------------------------------------------------------- live basis report *)
  Definition patches_of (es : list entry) : list patch :=
    flat_map (fun e => match e_patch e with Some p => [p] | None => [] end) es.

  (* StrandDivergenceFootprint / ParentMovementFootprint *)
  Definition div_reads (es : list entry) : list slot := set_of (flat_map p_in (patches_of es)).
  Definition div_writes (es : list entry) : list slot := set_of (flat_map p_out (patches_of es)).
  Definition contains_closed (es : list entry) (s : slot) : bool :=
    memN s (div_reads es) || memN s (div_writes es).
  Definition parent_writes (es : list entry) : list slot := set_of (flat_map p_out (patches_of es)).
  Definition overlapping_parent_writes (child_sfx parent_sfx : list entry) : list slot :=
    filter (contains_closed child_sfx) (parent_writes parent_sfx).

  Inductive reval :=
  | AtAnchor
  | AdvancedDisjoint
  | RevalidationRequired (overlap : list slot).

  Record report := mkReport {
    rp_start : N; rp_end : option N; rp_parent_ref : pref;
    rp_reads : list slot; rp_writes : list slot; rp_parent_writes : list slot; rp_reval : reval }.

  (* Strand::live_basis_report *)
  Definition live_basis_report (pv : prov) (s : strand) : result report :=
    let start := st_fork_tick s + 1 in
    match entries_of pv (st_child s), entries_of pv (st_src s) with
    | Some ces, Some pes =>
        if lenN ces <? start then Err EBasis else
        if lenN pes <? start then Err EBasis else
        let owned := skipnN start ces in
        let moved := skipnN start pes in
        let pref_now := match tip_ref pes with Some r => r | None => st_ref s end in
        let rv := if N.eqb (lenN pes) start then AtAnchor
                  else match overlapping_parent_writes owned moved with
                       | [] => AdvancedDisjoint
                       | ov => RevalidationRequired ov
                       end in
        Ok (mkReport start (if N.eqb (lenN ces) 0 then None else Some (lenN ces - 1)) pref_now
                     (div_reads owned) (div_writes owned) (parent_writes moved) rv)
    | _, _ => Err EBasis
    end.

  (* ---------------------------------------------------------------- plan *)
  Inductive reason :=
  | ChannelPolicyConflict | UnsupportedImport | BaseDivergence | ParentFootprintOverlap
  | QuantumMismatch | PluralUpstream.
  Definition reason_code (r : reason) : N :=
    match r with
    | ChannelPolicyConflict => 1 | UnsupportedImport => 2 | BaseDivergence => 3
    | ParentFootprintOverlap => 4 | QuantumMismatch => 5 | PluralUpstream => 6
    end.

  Inductive overlap_reval :=
  | RClean (slots : list slot) | RObstructed (slots : list slot) | RConflict (slots : list slot).

  Inductive decision :=
  | DImport (src : pref) (head : option hkey) (op_id : N) (expected_root : N) (rv : option overlap_reval)
  | DConflict (artifact : N) (src : pref) (why : reason) (rv : option overlap_reval)
  | DPlural (plural_id : N) (src : pref) (slots : list slot) (policy : N).

  Record policy := mkPolicy { pol_id : N; pol_plural : bool }.

  Record plan_t := mkPlan {
    pl_strand : N; pl_target : lane; pl_base : pref; pl_report : report; pl_decisions : list decision }.

  (* overlap_slots_are_clean *)
  Definition vopt_eqb (a b : option value) : bool :=
    match a, b with
    | Some x, Some y => N.eqb x y
    | None, None => true
    | _, _ => false
    end.
  Definition overlap_clean (before after : state) (slots : list slot) : bool :=
    forallb (fun s => vopt_eqb (sget before s) (sget after s)) slots.

  (* overlap_slots_for_patch *)
  Definition overlap_for_patch (p : patch) (basis_overlap : list slot) : list slot :=
    filter (fun s => memN s (p_in p) || memN s (p_out p)) basis_overlap.

  Definition basis_overlap_slots (r : report) : option (list slot) :=
    match rp_reval r with RevalidationRequired ov => Some ov | _ => None end.

  (* one iteration of the loop of plan_with_policy_internal: (decision, simulated', blocked') *)
  Definition plan_step (pol : policy) (target : lane) (at_anchor base_moved : bool)
             (basis_overlap : option (list slot)) (sim : state) (blocked : option reason) (e : entry)
    : decision * state * option reason :=
    let conflict r rv := (DConflict (Hart target (e_ref e) (reason_code r)) (e_ref e) r rv, sim, Some r) in
    let pre := match blocked with
               | Some r => Some r
               | None => if at_anchor && base_moved then Some BaseDivergence
                         else if negb (is_local (e_kind e)) then Some UnsupportedImport
                         else None
               end in
    match pre with
    | Some r => conflict r None
    | None =>
        match e_patch e with
        | None => conflict UnsupportedImport None
        | Some p =>
            let ov := match basis_overlap with Some sl => overlap_for_patch p sl | None => [] end in
            match apply_ops sim (p_ops p) with
            | None =>
                match ov with
                | [] => conflict UnsupportedImport None
                | _ => conflict ParentFootprintOverlap (Some (RObstructed ov))
                end
            | Some cand =>
                let root := root_of cand in
                if at_anchor && negb (N.eqb root (e_root e)) then conflict UnsupportedImport None else
                let import rv := (DImport (e_ref e) (e_head e) (e_commit e) root rv, cand, @None reason) in
                match ov with
                | [] => import None
                | _ =>
                    if overlap_clean sim cand ov then import (Some (RClean ov))
                    else if pol_plural pol then
                      (DPlural (Hplural target (e_ref e) (set_of ov) (pol_id pol)) (e_ref e)
                               (set_of ov) (pol_id pol), sim, Some PluralUpstream)
                    else conflict ParentFootprintOverlap (Some (RConflict ov))
                end
            end
        end
    end.

  (* the loop: a pure fold over the suffix entries threading (simulated, blocked_reason) *)
  Fixpoint plan_rec (pol : policy) (target : lane) (at_anchor base_moved : bool)
           (basis_overlap : option (list slot)) (sim : state) (blocked : option reason)
           (sfx : list entry) : list decision :=
    match sfx with
    | [] => []
    | e :: r =>
        let '(d, sim', b') := plan_step pol target at_anchor base_moved basis_overlap sim blocked e in
        d :: plan_rec pol target at_anchor base_moved basis_overlap sim' b' r
    end.

  (* ensure_frontier_matches_provenance *)
  Definition frontier_matches (rt : runtime) (pv : prov) (l : lane) : result N :=
    match alookup l (rt_lanes rt) with
    | None => Err EUnknownWorldline
    | Some fr =>
        match entries_of pv l with
        | None => Err EHistoryNotFound
        | Some es => if N.eqb (f_tick fr) (lenN es) then Ok (f_tick fr) else Err EDrift
        end
    end.

  (* SettlementService::plan_with_policy (shared_strand + plan_with_policy_internal) *)
  Definition plan (w : world) (sid : N) (pol : policy) : result plan_t :=
    let '(rt, pv) := w in
    match alookup sid (rt_strands rt) with
    | None => Err EStrandNotFound
    | Some s =>
        if negb (st_shared s) then Err ENonShared else
        match frontier_matches rt pv (st_src s) with
        | Err e => Err e
        | Ok target_tick =>
            match frontier_matches rt pv (st_child s) with
            | Err e => Err e
            | Ok _ =>
                match live_basis_report pv s with
                | Err e => Err e
                | Ok rp =>
                    match alookup (st_src s) (rt_lanes rt), entries_of pv (st_src s), entries_of pv (st_child s) with
                    | Some tfr, Some pes, Some ces =>
                        let expected := st_fork_tick s + 1 in
                        let at_anchor := match rp_reval rp with AtAnchor => true | _ => false end in
                        let base_moved :=
                          negb (N.eqb target_tick expected) ||
                          negb (match tip_ref pes with Some r => pref_eqb r (st_ref s) | None => false end) in
                        Ok (mkPlan sid (st_src s) (st_ref s) rp
                                   (plan_rec pol (st_src s) at_anchor base_moved (basis_overlap_slots rp)
                                             (f_state tfr) None (skipnN expected ces)))
                    | _, _, _ => Err EUnknownWorldline
                    end
                end
            end
        end
    end.

  (* ---------------------------------------------------------------- settle *)
  Record settle_out := mkSettleOut {
    so_plan : plan_t; so_imports : list pref; so_conflicts : list pref; so_plurals : list pref;
    so_shell : option N }.

  (* append_recorded_entry *)
  Definition append_recorded (w : world) (target : lane) (k : ekind) (p : patch) (expected_root : N)
    : world * result pref :=
    let '(rt, pv) := w in
    match alookup target (pv_lanes pv), alookup target (rt_lanes rt) with
    | Some h, Some fr =>
        let parents := match tip_ref (h_entries h) with Some r => [r] | None => [] end in
        match apply_ops (f_state fr) (p_ops p) with
        | None => (w, Err EApply)
        | Some st' =>
            (* the frontier state is mutated in place before the root is compared *)
            let rt1 := mkRuntime (aupdate target (mkFrontier (f_init fr) st' (f_tick fr)) (rt_lanes rt))
                                 (rt_heads rt) (rt_strands rt) (rt_gtick rt) in
            let root := root_of st' in
            if negb (N.eqb root expected_root) then ((rt1, pv), Err ERootMismatch) else
            let e := mkEntry target (f_tick fr) None parents k root
                             (Hcommit root (map (fun r => snd r) parents)) (Some p) in
            if negb (N.eqb (f_tick fr) (lenN (h_entries h))) then ((rt1, pv), Err EAppend) else
            if is_local k then ((rt1, pv), Err EAppend) else
            let pv1 := mkProv (aupdate target (mkHistory (h_init h) (h_entries h ++ [e])) (pv_lanes pv))
                              (pv_shells pv) (pv_plural_index pv) in
            if N.eqb (f_tick fr) u64max then ((rt1, pv1), Err ETickOverflow) else
            ((mkRuntime (aupdate target (mkFrontier (f_init fr) st' (f_tick fr + 1)) (rt_lanes rt))
                        (rt_heads rt) (rt_strands rt) (rt_gtick rt), pv1),
             Ok (e_ref e))
        end
    | None, _ => (w, Err EHistoryNotFound)
    | _, None => (w, Err EUnknownWorldline)
    end.

  Definition advance_gtick (w : world) : world * result N :=
    let '(rt, pv) := w in
    if N.eqb (rt_gtick rt) u64max then (w, Err EGlobalTick)
    else ((mkRuntime (rt_lanes rt) (rt_heads rt) (rt_strands rt) (rt_gtick rt + 1), pv), Ok (rt_gtick rt + 1)).

  (* the expected root of a no-op artifact entry is the target's current root *)
  Definition current_root (w : world) (target : lane) : option N :=
    option_map (fun fr => root_of (f_state fr)) (alookup target (rt_lanes (fst w))).

  (* one decision of settle's loop: advance the global tick, append the entry *)
  Definition settle_one (target : lane) (w : world) (d : decision) : world * result (N * pref) :=
    match advance_gtick w with
    | (w1, Err e) => (w1, Err e)
    | (w1, Ok _) =>
        match d with
        | DImport src _ op_id expected _ =>
            let '(sl, stick, _) := src in
            match option_map (fun es => nthN es stick) (entries_of (snd w1) sl) with
            | Some (Some se) =>
                match e_patch se with
                | None => (w1, Err EMissingPatch)
                | Some p =>
                    match append_recorded w1 target (KImport sl stick op_id) p expected with
                    | (w2, Ok r) => (w2, Ok (1, r))
                    | (w2, Err e) => (w2, Err e)
                    end
                end
            | Some None => (w1, Err EHistoryUnavailable)
            | None => (w1, Err EHistoryNotFound)
            end
        | DConflict art _ _ _ =>
            match current_root w1 target with
            | None => (w1, Err EUnknownWorldline)
            | Some root =>
                match append_recorded w1 target (KConflict art) empty_patch root with
                | (w2, Ok r) => (w2, Ok (2, r))
                | (w2, Err e) => (w2, Err e)
                end
            end
        | DPlural pid _ _ _ =>
            match current_root w1 target with
            | None => (w1, Err EUnknownWorldline)
            | Some root =>
                match append_recorded w1 target (KPlural pid) empty_patch root with
                | (w2, Ok r) => (w2, Ok (3, r))
                | (w2, Err e) => (w2, Err e)
                end
            end
        end
    end.

  Fixpoint settle_loop (target : lane) (w : world) (ds : list decision) (acc : list (N * pref))
    : world * result (list (N * pref)) :=
    match ds with
    | [] => (w, Ok (rev acc))
    | d :: r =>
        match settle_one target w d with
        | (w1, Ok x) => settle_loop target w1 r (x :: acc)
        | (w1, Err e) => (w1, Err e)
        end
    end.

  Definition decision_tag (d : decision) : N :=
    match d with DImport _ _ _ _ _ => 1 | DConflict _ _ _ _ => 2 | DPlural _ _ _ _ => 3 end.
  Definition plural_ids (ds : list decision) : list N :=
    flat_map (fun d => match d with DPlural pid _ _ _ => [pid] | _ => [] end) ds.

  (* ProvenanceService::append_braid_shell: idempotent on an identical shell, refuses a divergent
     body under the same digest and a plural id already bound to another shell *)
  Definition append_shell (pv : prov) (sh : shell) : result prov :=
    match alookup (sh_digest sh) (pv_shells pv) with
    | Some old => if shell_eqb old sh then Ok pv else Err EShell
    | None =>
        if existsb (fun pid => match alookup pid (pv_plural_index pv) with
                               | Some d => negb (N.eqb d (sh_digest sh))
                               | None => false
                               end) (sh_plurals sh)
        then Err EShell
        else Ok (mkProv (pv_lanes pv) (pv_shells pv ++ [(sh_digest sh, sh)])
                        (fold_left (fun ix pid => if amem pid ix then aupdate pid (sh_digest sh) ix
                                                  else ix ++ [(pid, sh_digest sh)])
                                   (sh_plurals sh) (pv_plural_index pv)))
    end.

  (* ProvenanceService::checkpoint_for [target] / restore *)
  Record checkpoint := mkCk { ck_lane : lane; ck_len : N; ck_shells : list N; ck_plurals : list N }.
  Definition checkpoint_for (pv : prov) (l : lane) : option checkpoint :=
    option_map (fun h => mkCk l (lenN (h_entries h)) (map fst (pv_shells pv)) (map fst (pv_plural_index pv)))
               (alookup l (pv_lanes pv)).
  Definition restore (pv : prov) (ck : checkpoint) : prov :=
    mkProv (match alookup (ck_lane ck) (pv_lanes pv) with
            | Some h => aupdate (ck_lane ck) (mkHistory (h_init h) (firstnN (ck_len ck) (h_entries h))) (pv_lanes pv)
            | None => pv_lanes pv
            end)
           (filter (fun ds => memN (fst ds) (ck_shells ck)) (pv_shells pv))
           (filter (fun pd => memN (fst pd) (ck_plurals ck)) (pv_plural_index pv)).

  Definition refs_tagged (t : N) (l : list (N * pref)) : list pref :=
    map snd (filter (fun x => N.eqb (fst x) t) l).

  (* SettlementService::settle_with_policy *)
  Definition settle (w : world) (sid : N) (pol : policy) : world * result settle_out :=
    match plan w sid pol with
    | Err e => (w, Err e)
    | Ok pl =>
        match pl_decisions pl with
        | [] => (w, Ok (mkSettleOut pl [] [] [] None))
        | _ =>
            let runtime_before := fst w in
            match checkpoint_for (snd w) (pl_target pl) with
            | None => (w, Err EHistoryNotFound)
            | Some ck =>
                let fail (w1 : world) (e : err) : world * result settle_out :=
                  ((runtime_before, restore (snd w1) ck), Err e) in
                match settle_loop (pl_target pl) w (pl_decisions pl) [] with
                | (w1, Err e) => fail w1 e
                | (w1, Ok refs) =>
                    let tags := map decision_tag (pl_decisions pl) in
                    let front := rp_parent_ref (pl_report pl) in
                    let sh := mkShell (Hshell (pl_target pl) sid (pol_id pol) front tags
                                              (plural_ids (pl_decisions pl)) (refs_tagged 1 refs))
                                      (pl_target pl) sid (pol_id pol) front tags (plural_ids (pl_decisions pl))
                                      (refs_tagged 1 refs) in
                    match append_shell (snd w1) sh with
                    | Err e => fail w1 e
                    | Ok pv2 =>
                        ((fst w1, pv2),
                         Ok (mkSettleOut pl (refs_tagged 1 refs) (refs_tagged 2 refs) (refs_tagged 3 refs)
                                         (Some (sh_digest sh))))
                    end
                end
            end
        end
    end.

  (* ---------------------------------------------------------------- scenarios (used by the tie) *)
  (* one scheduler pass: every listed head commits its patch, or nothing happens; the global tick
     advances once *)
  Fixpoint tick_all (w : world) (ts : list (hkey * patch)) : result world :=
    match ts with
    | [] => Ok w
    | (hk, p) :: r => match tick w hk p with Ok w1 => tick_all w1 r | Err e => Err e end
    end.
  Definition super_tick (w : world) (ts : list (hkey * patch)) : world * option err :=
    if N.eqb (rt_gtick (fst w)) u64max then (w, Some EGlobalTick) else
    match tick_all w ts with
    | Ok (rt, pv) => ((mkRuntime (rt_lanes rt) (rt_heads rt) (rt_strands rt) (rt_gtick rt + 1), pv), None)
    | Err e => (w, Some e)
    end.

  (* failure injection used by the tie: the plural ids of the current plan are bound to a foreign
     shell before settling, so the shell append (the last fallible step) fails *)
  Definition prebind (w : world) (sid : N) (pol : policy) : world * bool :=
    match plan w sid pol with
    | Ok pl =>
        match plural_ids (pl_decisions pl) with
        | [] => (w, false)
        | ids =>
            match append_shell (snd w) (mkShell (Hshell (pl_target pl) 0 171 (pl_base pl) [3] ids [])
                                                (pl_target pl) 0 171 (pl_base pl) [3] ids []) with
            | Ok pv => ((fst w, pv), true)
            | Err _ => (w, false)
            end
        end
    | Err _ => (w, false)
    end.

  Inductive step :=
  | STick (ts : list (hkey * patch))
  | SFork (q : fork_req)
  | SReport (sid : N)
  | SPlan (sid : N) (pol : policy)
  | SSettle (sid : N) (pol : policy) (inject : bool)
  | SNop.

  Definition dec_obs (d : decision) : N * N * N * N * list slot :=
    let rvo (rv : option overlap_reval) : N * list slot :=
      match rv with
      | None => (0, [])
      | Some (RClean l) => (1, l)
      | Some (RObstructed l) => (2, l)
      | Some (RConflict l) => (3, l)
      end in
    match d with
    | DImport src _ _ _ rv => (1, snd (fst src), 0, fst (rvo rv), snd (rvo rv))
    | DConflict _ src why rv => (2, snd (fst src), reason_code why, fst (rvo rv), snd (rvo rv))
    | DPlural _ src sl _ => (3, snd (fst src), 0, 0, sl)
    end.

  Definition err_obs (e : err) : N :=
    match e with
    | EStrandNotFound => 1 | ENonShared => 2 | EDrift => 3 | EShell => 4 | EBasis => 5 | _ => 6
    end.

  Inductive obs :=
  | OTick (l : list (lane * N * list (slot * value)))
  | OTickErr
  | OFork (child_len child_tick : N) (st : list (slot * value))
  | OForkErr
  | OReport (cls : N) (overlap reads writes pwrites : list slot) (start endp1 parent_tick : N)
  | OReportErr
  | ONoStrand
  | OPlan (ds : list (N * N * N * N * list slot))
  | OPlanErr (code : N)
  | OSettle (ds : list (N * N * N * N * list slot)) (imports conflicts plurals : list N) (shell : N)
            (len : N) (st : list (slot * value))
  | OSettleErr (code : N)
  | ONop.

  Definition run_step (w : world) (s : step) : world * obs :=
    match s with
    | STick ts =>
        match super_tick w ts with
        | (w1, None) =>
            (w1, OTick (flat_map (fun t : hkey * patch =>
                          match alookup (fst (fst t)) (rt_lanes (fst w1)) with
                          | Some fr => [(fst (fst t), f_tick fr, canon (f_state fr))]
                          | None => []
                          end) ts))
        | (w1, Some _) => (w1, OTickErr)
        end
    | SFork q =>
        match fork_strand w q with
        | (w1, None) =>
            match alookup (fq_child q) (rt_lanes (fst w1)), entries_of (snd w1) (fq_child q) with
            | Some fr, Some es => (w1, OFork (lenN es) (f_tick fr) (canon (f_state fr)))
            | _, _ => (w1, OForkErr)
            end
        | (w1, Some _) => (w1, OForkErr)
        end
    | SReport sid =>
        match alookup sid (rt_strands (fst w)) with
        | None => (w, ONoStrand)
        | Some s =>
            match live_basis_report (snd w) s with
            | Ok rp =>
                let '(cls, ov) := match rp_reval rp with
                                  | AtAnchor => (0, [])
                                  | AdvancedDisjoint => (1, [])
                                  | RevalidationRequired l => (2, l)
                                  end in
                (w, OReport cls ov (rp_reads rp) (rp_writes rp) (rp_parent_writes rp) (rp_start rp)
                            (match rp_end rp with Some t => t + 1 | None => 0 end)
                            (snd (fst (rp_parent_ref rp))))
            | Err _ => (w, OReportErr)
            end
        end
    | SPlan sid pol =>
        match plan w sid pol with
        | Ok pl => (w, OPlan (map dec_obs (pl_decisions pl)))
        | Err e => (w, OPlanErr (err_obs e))
        end
    | SSettle sid pol inject =>
        let w0 := if inject then fst (prebind w sid pol) else w in
        match settle w0 sid pol with
        | (w1, Ok out) =>
            let target := pl_target (so_plan out) in
            match alookup target (rt_lanes (fst w1)), entries_of (snd w1) target with
            | Some fr, Some es =>
                (w1, OSettle (map dec_obs (pl_decisions (so_plan out)))
                             (map (fun r : pref => snd (fst r)) (so_imports out))
                             (map (fun r : pref => snd (fst r)) (so_conflicts out))
                             (map (fun r : pref => snd (fst r)) (so_plurals out))
                             (match so_shell out with Some _ => 1 | None => 0 end)
                             (lenN es) (canon (f_state fr)))
            | _, _ => (w1, OSettleErr 6)
            end
        | (w1, Err e) => (w1, OSettleErr (err_obs e))
        end
    | SNop => (w, ONop)
    end.

  Fixpoint run (w : world) (ss : list step) : list obs :=
    match ss with
    | [] => []
    | s :: r => let '(w1, o) := run_step w s in o :: run w1 r
    end.

  Fixpoint run_world (w : world) (ss : list step) : world :=
    match ss with
    | [] => w
    | s :: r => run_world (fst (run_step w s)) r
    end.

  (* a runtime with one registered worldline 0 (default head (0,0)) over the given base content *)
  Definition init_state (c : list (slot * value)) : state := map (fun sv => (fst sv, Some (snd sv))) c.
  Definition init_world (c : list (slot * value)) : world :=
    (mkRuntime [(0, mkFrontier (init_state c) (init_state c) 0)] [(0, 0)] [] 0,
     mkProv [(0, mkHistory (root_of (init_state c)) [])] [] []).

End WithHash.

(* ---------------------------------------------------------------- executable instance *)
(* Cheap mixing functions used ONLY to evaluate the model on concrete scenarios (the theorems hold
   for every choice of the five functions; these are kept below 2^60 so vm_compute stays fast). *)
Definition c_root (l : list (slot * value)) : N :=
  fold_left (fun a sv => N.land (a * 1000003 + fst sv * 8191 + snd sv) 1152921504606846975) l 1.
Definition c_commit (r : N) (ps : list N) : N :=
  N.land (fold_left (fun a p => a * 31 + p) ps (r * 7 + 3)) 1152921504606846975.
Definition c_art (t : lane) (r : pref) (code : N) : N := ((t * 64 + fst (fst r)) * 4096 + snd (fst r)) * 8 + code.
Definition c_plural (t : lane) (r : pref) (sl : list slot) (pol : N) : N :=
  fold_left (fun a s => a * 3 + s) sl (((t * 64 + fst (fst r)) * 4096 + snd (fst r)) * 256 + N.land pol 255) + 1125899906842624.
Definition c_shell (t : lane) (sid pol : N) (front : pref) (tags plurals : list N) (imports : list pref) : N :=
  fold_left (fun a r => a * 5 + snd (fst r) + snd r) imports
    (fold_left (fun a x => a * 7 + x) (tags ++ plurals) ((t * 64 + sid) * 256 + N.land pol 255 + snd (fst front) * 65536 + snd front))
  + 36028797018963968.

Definition world_c (c : list (slot * value)) (ss : list step) : world :=
  run_world c_root c_commit c_art c_plural c_shell (init_world c_root c) ss.
Definition settle_c := settle c_root c_commit c_art c_plural c_shell.

Definition run_c (c : list (slot * value)) (ss : list step) : list obs :=
  run c_root c_commit c_art c_plural c_shell (init_world c_root c) ss.
