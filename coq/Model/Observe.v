(* Model of the observation read path:
     crates/warp-core/src/observation.rs   ObservationService::{observe, validate_frame_projection,
         validate_observer_contract, validate_query_observer_contract, resolve_coordinate, basis_posture,
         witness_refs, witness_commit_tick, budget_posture, reading_envelope, compute_artifact_hash,
         observe_optic, validate_optic_budget, attachment_boundary_obstruction, optic_observation_request,
         optic_coordinate_at, optic_observation_error}
     crates/echo-wasm-abi/src/kernel_port.rs   the serde shape of ObservationHashInput (field names, enum tagging)
     crates/echo-wasm-abi/src/canonical.rs     enc_value / write_major (canonical CBOR, map keys sorted by encoding)
     crates/warp-core/src/provenance_store.rs  replay_worldline_state_at (checked replay, no checkpoints)
   Definitions only.

   A [world] is what observation borrows immutably: per worldline the recorded provenance history (entries with
   commit global tick / state root / commit hash / recorded outputs), the genesis (U0) frontier snapshot, the
   strand registration (with the live-basis classification as an INPUT: Strand::live_basis_report is C15's
   subject), the runtime's global tick and the installed contract query observers (identity only).
   The live frontier is derived from the recorded history (frontier tick = number of commits, frontier snapshot =
   the last recorded commit): this is the invariant the coordinator maintains, and the harness checks it on the
   implementation separately.

   The replay part is parametric (Section variables) in the graph state [St], the patch [P], [apply] and [root];
   nothing is assumed about them.

   Tick numbering (the code's documented convention, kernel_port.rs `ObservationAt::Tick`): `Tick t` names the
   t-th committed append (0-based), i.e. the state AFTER commit t = replay cursor coordinate t+1; a frontier read
   in the CommitBoundary/QueryView frames reports `resolved_worldline_tick` = number of commits. *)
From Coq Require Import List NArith Bool Lia String Ascii.
From Echo Require Import Base.Order Base.Bytes.
Import ListNotations.
Open Scope string_scope.
Open Scope list_scope.
Open Scope N_scope.

(* ------------------------------------------------------------------ canonical CBOR (subset used by the DTOs) *)

Inductive cv :=
| CU (n : N)                      (* unsigned integer *)
| CB (b : bytes)                  (* byte string (serialize_bytes: opaque ids) *)
| CT (s : bytes)                  (* text (utf-8 bytes) *)
| CA (l : list cv)                (* array; Vec<u8> fields are arrays of small integers *)
| CM (l : list (bytes * cv))      (* map with text keys *)
| CNull.

(* write_major *)
Definition major (m n : N) : bytes :=
  if n <? 24 then [m * 32 + n]
  else if n <? 256 then [m * 32 + 24; n]
  else if n <? 65536 then (m * 32 + 25) :: be_bytes 2 n
  else if n <? 4294967296 then (m * 32 + 26) :: be_bytes 4 n
  else (m * 32 + 27) :: be_bytes 8 n.

Definition enc_text (s : bytes) : bytes := major 3 (lenN s) ++ s.

(* `buf.sort_by(|a, b| a.2.cmp(&b.2))` on the encoded keys; keys are distinct so stability is irrelevant *)
Fixpoint insert_kv (x : bytes * bytes) (l : list (bytes * bytes)) : list (bytes * bytes) :=
  match l with
  | [] => [x]
  | y :: r => match bytes_cmp (fst x) (fst y) with
              | Gt => y :: insert_kv x r
              | _ => x :: l
              end
  end.
Definition sort_kv (l : list (bytes * bytes)) : list (bytes * bytes) := fold_right insert_kv [] l.

Fixpoint enc (v : cv) : bytes :=
  match v with
  | CU n => major 0 n
  | CB b => major 2 (lenN b) ++ b
  | CT s => enc_text s
  | CA l => major 4 (lenN l) ++ flat_map enc l
  | CM l => major 5 (lenN l) ++
            flat_map (fun kv => fst kv ++ snd kv)
              (sort_kv (map (fun kv => match kv with (k, v') => (enc_text k, enc v') end) l))
  | CNull => [246]
  end.

Definition s2b (s : string) : bytes := map N_of_ascii (list_ascii_of_string s).
Definition T (s : string) : cv := CT (s2b s).
Definition M (l : list (string * cv)) : cv := CM (map (fun kv => (s2b (fst kv), snd kv)) l).
Definition id32 (n : N) : cv := CB (be_bytes 32 n).                 (* opaque_id!: serialize_bytes *)
Definition vec8 (b : bytes) : cv := CA (map CU b).                  (* Vec<u8> through serde: a sequence *)
Definition hash32 (n : N) : cv := vec8 (be_bytes 32 n).             (* Hash.to_vec() *)
Definition optU (o : option N) : cv := match o with Some n => CU n | None => CNull end.

(* ------------------------------------------------------------------ request / result types *)

Inductive at_ := AFrontier | ATick (t : N).
Inductive frame := FCommitBoundary | FRecordedTruth | FQueryView.
Inductive pkind := KHead | KSnapshot | KTruth | KQuery.
Inductive proj := PHead | PSnapshot | PTruth (filter : option (list N)) | PQuery (qid : N) (vars : bytes).
Inductive bplan := BHead | BSnapshot | BTruth | BQuery.
Record aplan := { ap_id : N; ap_artifact : N; ap_schema : N; ap_state_schema : N; ap_update : N; ap_emission : N }.
Inductive oplan := OBuiltin (p : bplan) | OAuthored (a : aplan).
Inductive budget := BUnbounded | BBounded (maxp maxw : N).
Inductive rights := RPublic | RScoped (cap : N).

Record request := {
  r_wl : N; r_at : at_; r_frame : frame; r_proj : proj; r_plan : oplan;
  r_instance : option (N * N * N); r_budget : budget; r_rights : rights
}.

(* ObservationError *)
Inductive oerr :=
| EInvalidWorldline
| EInvalidTick (t : N)
| EUnsupportedFrameProjection (f : frame) (k : pkind)
| EUnsupportedQuery (qid : N)
| EUnsupportedObserverPlan
| EUnsupportedObserverInstance
| EUnsupportedRights
| EBudgetExceeded (maxp pb maxw w : N)
| EObservationUnavailable.

Record pref := { pr_wl : N; pr_tick : N; pr_commit : N }.      (* ProvenanceRef *)

Inductive posture :=
| PoWorldline
| PoHistorical (sid : N)
| PoAtAnchor (sid : N)
| PoDisjoint (sid : N) (pfrom pto : pref)
| PoReval (sid : N) (pfrom pto : pref) (count digest : N).

(* StrandBasisReport.parent_revalidation, or the report failing *)
Inductive live := LAtAnchor | LDisjoint (pfrom pto : pref) | LReval (pfrom pto : pref) (count digest : N) | LUnavailable.

Record resolved := {
  rs_wl : N; rs_at : at_; rs_tick : N; rs_cgt : option N; rs_oagt : option N; rs_root : N; rs_commit : N
}.

Inductive witness := WCommit (r : pref) | WEmpty (wl root commit : N).
Inductive bposture := BpUnbounded | BpBounded (maxp pb maxw w : N).
Inductive payload :=
| PlHead (tick : N) (cgt : option N) (root commit : N)
| PlSnapshot (tick : N) (cgt : option N) (root commit : N)
| PlTruth (chs : list (N * bytes)).

(* ObservationArtifact minus the hash; rights posture (KernelPublic), residual posture (Complete), contract,
   query identity, retained evidence and observer instance are constants on every non-query reading *)
Record artifact := {
  a_resolved : resolved; a_plan : oplan; a_witness : witness; a_posture : posture; a_budget : bposture;
  a_frame : frame; a_proj : proj; a_payload : payload
}.

Inductive result :=
| Reading (a : artifact)
| Obstruction (e : oerr)
(* QueryView/Query request that passed validation and resolved its coordinate: the payload, residual posture and
   query identity come from the installed host observer closure, which is outside the model *)
| QueryDelegated (rs : resolved) (po : posture).

(* ------------------------------------------------------------------ validation *)

Definition kind_of (p : proj) : pkind :=
  match p with PHead => KHead | PSnapshot => KSnapshot | PTruth _ => KTruth | PQuery _ _ => KQuery end.

(* validate_frame_projection *)
Definition valid_pair (f : frame) (k : pkind) : bool :=
  match f, k with
  | FCommitBoundary, (KHead | KSnapshot) => true
  | FRecordedTruth, KTruth => true
  | FQueryView, KQuery => true
  | _, _ => false
  end.

(* builtin_observer_plan *)
Definition builtin_plan (f : frame) (k : pkind) : option bplan :=
  match f, k with
  | FCommitBoundary, KHead => Some BHead
  | FCommitBoundary, KSnapshot => Some BSnapshot
  | FRecordedTruth, KTruth => Some BTruth
  | FQueryView, KQuery => Some BQuery
  | _, _ => None
  end.

Definition bplan_eqb (a b : bplan) : bool :=
  match a, b with BHead, BHead | BSnapshot, BSnapshot | BTruth, BTruth | BQuery, BQuery => true | _, _ => false end.
Definition aplan_eqb (a b : aplan) : bool :=
  (ap_id a =? ap_id b) && (ap_artifact a =? ap_artifact b) && (ap_schema a =? ap_schema b)
  && (ap_state_schema a =? ap_state_schema b) && (ap_update a =? ap_update b) && (ap_emission a =? ap_emission b).

Fixpoint lookupN {A} (k : N) (l : list (N * A)) : option A :=
  match l with
  | [] => None
  | (k', v) :: r => if k =? k' then Some v else lookupN k r
  end.

Definition instance_rights (r : request) : option oerr :=
  match r_instance r with
  | Some _ => Some EUnsupportedObserverInstance
  | None => match r_rights r with RScoped _ => Some EUnsupportedRights | RPublic => None end
  end.

(* validate_observer_contract / validate_query_observer_contract; [queries] = installed observers (id |-> plan) *)
Definition validate_contract (queries : list (N * aplan)) (r : request) : option oerr :=
  match r_frame r, r_proj r with
  | FQueryView, PQuery qid _ =>
      match lookupN qid queries with
      | None => Some (EUnsupportedQuery qid)
      | Some inst =>
          match r_plan r with
          | OBuiltin BQuery => instance_rights r
          | OAuthored a => if aplan_eqb a inst then instance_rights r else Some EUnsupportedObserverPlan
          | OBuiltin _ => Some EUnsupportedObserverPlan
          end
      end
  | f, p =>
      match builtin_plan f (kind_of p) with
      | None => Some (EUnsupportedFrameProjection f (kind_of p))
      | Some expected =>
          match r_plan r with
          | OBuiltin b => if bplan_eqb b expected then instance_rights r else Some EUnsupportedObserverPlan
          | OAuthored _ => Some EUnsupportedObserverPlan
          end
      end
  end.

(* Vec index by a u64 tick; the length test comes first so that huge ticks never reach the unary index *)
Definition nthN {A} (l : list A) (i : N) : option A :=
  if lenN l <=? i then None else nth_error l (N.to_nat i).
Definition last_opt {A} (l : list A) : option A :=
  match l with [] => None | x :: r => Some (last r x) end.

(* option_cycle_tick *)
Definition cycle_tick (g : N) : option N := if g =? 0 then None else Some g.

(* ReadingWitnessRef / witness_commit_tick *)
Definition witness_of (rs : resolved) (f : frame) : witness :=
  match rs_cgt rs with
  | None => WEmpty (rs_wl rs) (rs_root rs) (rs_commit rs)
  | Some _ =>
      match f, rs_at rs with
      | (FCommitBoundary | FQueryView), AFrontier =>
          if rs_tick rs =? 0 then WEmpty (rs_wl rs) (rs_root rs) (rs_commit rs)
          else WCommit {| pr_wl := rs_wl rs; pr_tick := rs_tick rs - 1; pr_commit := rs_commit rs |}
      | _, _ => WCommit {| pr_wl := rs_wl rs; pr_tick := rs_tick rs; pr_commit := rs_commit rs |}
      end
  end.

(* ------------------------------------------------------------------ ABI shape of the hash input *)

Definition at_cv (a : at_) : cv :=
  match a with
  | AFrontier => M [("kind", T "frontier")]
  | ATick t => M [("kind", T "tick"); ("worldline_tick", CU t)]
  end.
Definition frame_cv (f : frame) : cv :=
  match f with FCommitBoundary => T "commit_boundary" | FRecordedTruth => T "recorded_truth" | FQueryView => T "query_view" end.
Definition bplan_cv (b : bplan) : cv :=
  match b with
  | BHead => T "commit_boundary_head" | BSnapshot => T "commit_boundary_snapshot"
  | BTruth => T "recorded_truth_channels" | BQuery => T "query_bytes"
  end.
Definition plan_cv (p : oplan) : cv :=
  match p with
  | OBuiltin b => M [("kind", T "builtin"); ("plan", bplan_cv b)]
  | OAuthored a => M [("kind", T "authored");
                      ("plan", M [("plan_id", id32 (ap_id a)); ("artifact_hash", hash32 (ap_artifact a));
                                  ("schema_hash", hash32 (ap_schema a)); ("state_schema_hash", hash32 (ap_state_schema a));
                                  ("update_law_hash", hash32 (ap_update a)); ("emission_law_hash", hash32 (ap_emission a))])]
  end.
Definition pref_cv (p : pref) : cv :=
  M [("worldline_id", id32 (pr_wl p)); ("worldline_tick", CU (pr_tick p)); ("commit_hash", hash32 (pr_commit p))].
Definition posture_cv (p : posture) : cv :=
  match p with
  | PoWorldline => M [("kind", T "worldline")]
  | PoHistorical s => M [("kind", T "strand_historical"); ("strand_id", id32 s)]
  | PoAtAnchor s => M [("kind", T "strand_at_anchor"); ("strand_id", id32 s)]
  | PoDisjoint s a b => M [("kind", T "strand_parent_advanced_disjoint"); ("strand_id", id32 s);
                           ("parent_from", pref_cv a); ("parent_to", pref_cv b)]
  | PoReval s a b c d => M [("kind", T "strand_revalidation_required"); ("strand_id", id32 s);
                            ("parent_from", pref_cv a); ("parent_to", pref_cv b);
                            ("overlapping_slot_count", CU c); ("overlapping_slots_digest", hash32 d)]
  end.
Definition witness_cv (w : witness) : cv :=
  match w with
  | WCommit r => M [("kind", T "resolved_commit"); ("reference", pref_cv r)]
  | WEmpty wl root commit => M [("kind", T "empty_frontier"); ("worldline_id", id32 wl);
                                ("state_root", hash32 root); ("commit_hash", hash32 commit)]
  end.
(* ReadingBudgetPosture carries no serde tag attribute: externally tagged *)
Definition bposture_cv (b : bposture) : cv :=
  match b with
  | BpUnbounded => T "unbounded_one_shot"
  | BpBounded maxp pb maxw w =>
      M [("bounded", M [("max_payload_bytes", CU maxp); ("payload_bytes", CU pb);
                        ("max_witness_refs", CU maxw); ("witness_refs", CU w)])]
  end.
Definition proj_cv (p : proj) : cv :=
  match p with
  | PHead => M [("kind", T "head")]
  | PSnapshot => M [("kind", T "snapshot")]
  | PTruth f => M [("kind", T "truth_channels");
                   ("channels", match f with None => CNull | Some l => CA (map hash32 l) end)]
  | PQuery q v => M [("kind", T "query"); ("query_id", CU q); ("vars_bytes", vec8 v)]
  end.
Definition meta_cv (tick : N) (cgt : option N) (root commit : N) : cv :=
  M [("worldline_tick", CU tick); ("commit_global_tick", optU cgt); ("state_root", hash32 root); ("commit_id", hash32 commit)].
Definition payload_cv (p : payload) : cv :=
  match p with
  | PlHead t g r c => M [("kind", T "head"); ("head", meta_cv t g r c)]
  | PlSnapshot t g r c => M [("kind", T "snapshot"); ("snapshot", meta_cv t g r c)]
  | PlTruth chs => M [("kind", T "truth_channels");
                      ("channels", CA (map (fun cd => M [("channel_id", hash32 (fst cd)); ("data", vec8 (snd cd))]) chs))]
  end.
Definition observation_version : N := 4.
Definition resolved_cv (r : resolved) : cv :=
  M [("observation_version", CU observation_version); ("worldline_id", id32 (rs_wl r)); ("requested_at", at_cv (rs_at r));
     ("resolved_worldline_tick", CU (rs_tick r)); ("commit_global_tick", optU (rs_cgt r));
     ("observed_after_global_tick", optU (rs_oagt r)); ("state_root", hash32 (rs_root r)); ("commit_hash", hash32 (rs_commit r))].
Definition reading_cv (a : artifact) : cv :=
  M [("observer_plan", plan_cv (a_plan a)); ("observer_instance", CNull); ("observer_basis", frame_cv (a_frame a));
     ("contract", CNull); ("query_identity", CNull); ("retained_evidence", CA []);
     ("witness_refs", CA [witness_cv (a_witness a)]); ("parent_basis_posture", posture_cv (a_posture a));
     ("budget_posture", bposture_cv (a_budget a)); ("rights_posture", T "kernel_public"); ("residual_posture", T "complete")].
Definition hash_input_cv (a : artifact) : cv :=
  M [("resolved", resolved_cv (a_resolved a)); ("reading", reading_cv a); ("frame", frame_cv (a_frame a));
     ("projection", proj_cv (a_proj a)); ("payload", payload_cv (a_payload a))].

(* "echo:observation-artifact:v4\0" *)
Definition artifact_domain : bytes := s2b "echo:observation-artifact:v4" ++ [0].
(* compute_artifact_hash = blake3 of these bytes *)
Definition artifact_preimage (a : artifact) : bytes := artifact_domain ++ enc (hash_input_cv a).

(* payload_wire_len *)
Definition payload_len (p : payload) : N := lenN (enc (payload_cv p)).

(* budget_posture; every reading carries exactly one witness ref *)
Definition budget_posture (b : budget) (p : payload) : oerr + bposture :=
  match b with
  | BUnbounded => inr BpUnbounded
  | BBounded maxp maxw =>
      let pb := payload_len p in
      if (maxp <? pb) || (maxw <? 1) then inl (EBudgetExceeded maxp pb maxw 1)
      else inr (BpBounded maxp pb maxw 1)
  end.

Definition mem_N (x : N) (l : list N) : bool := existsb (N.eqb x) l.

Section Observe.
  Variables St P : Type.
  Variable apply : St -> P -> option St.   (* WorldlineTickPatchV1::apply_to_worldline_state *)
  Variable root : St -> N.                 (* WorldlineState::state_root *)

  (* ProvenanceEntry, observation-relevant fields *)
  Record entry := {
    e_patch : P; e_gtick : N; e_root : N; e_commit : N;
    e_outputs : list (N * bytes)            (* recorded outputs, in stored order *)
  }.

  Record wline := {
    w_base : St;                            (* replay base (U0) *)
    w_gen_root : N; w_gen_commit : N;       (* Engine::snapshot_for_state of the empty frontier *)
    w_hist : list entry;
    w_strand : option (N * live);           (* live strand whose child worldline this is *)
    w_cps : list N                          (* worldline ticks (cursor coordinates) of the stored replay checkpoints *)
  }.

  Record world := { lines : list (N * wline); gtick : N; queries : list (N * aplan) }.

  (* ---------------------------------------------------------------- checked replay (cursor coordinates) *)
  Fixpoint replay_from (s : St) (h : list entry) (n : nat) {struct n} : option St :=
    match n with
    | O => Some s
    | S n' =>
        match h with
        | [] => None
        | e :: h' =>
            match apply s (e_patch e) with
            | None => None
            | Some s' => if root s' =? e_root e then replay_from s' h' n' else None
            end
        end
    end.
  (* replay_worldline_state_at(worldline, base, t): state after applying patches 0..t-1, each verified *)
  Definition replay (w : wline) (t : N) : option St := replay_from (w_base w) (w_hist w) (N.to_nat t).

  (* ---------------------------------------------------------------- resolve_coordinate *)
  Definition of_entry (g id : N) (a : at_) (t : N) (e : entry) (rootv : N) : resolved :=
    {| rs_wl := id; rs_at := a; rs_tick := t; rs_cgt := Some (e_gtick e); rs_oagt := cycle_tick g;
       rs_root := rootv; rs_commit := e_commit e |}.

  Definition resolve (g id : N) (w : wline) (f : frame) (a : at_) : oerr + resolved :=
    let h := w_hist w in
    match f, a with
    | (FCommitBoundary | FQueryView), AFrontier =>
        inr match last_opt h with
            | Some e => {| rs_wl := id; rs_at := a; rs_tick := lenN h; rs_cgt := Some (e_gtick e);
                           rs_oagt := cycle_tick g; rs_root := e_root e; rs_commit := e_commit e |}
            | None => {| rs_wl := id; rs_at := a; rs_tick := 0; rs_cgt := None;
                         rs_oagt := cycle_tick g; rs_root := w_gen_root w; rs_commit := w_gen_commit w |}
            end
    | FRecordedTruth, AFrontier =>
        match last_opt h with
        | None => inl EObservationUnavailable
        | Some e => inr (of_entry g id a (lenN h - 1) e (e_root e))
        end
    | _, ATick t =>
        match nthN h t with
        | None => inl (EInvalidTick t)
        | Some e => inr (of_entry g id a t e (e_root e))
        end
    end.

  (* basis_posture *)
  Definition basis_posture (w : wline) (a : at_) : oerr + posture :=
    match w_strand w with
    | None => inr PoWorldline
    | Some (sid, lv) =>
        match a with
        | ATick _ => inr (PoHistorical sid)
        | AFrontier =>
            match lv with
            | LAtAnchor => inr (PoAtAnchor sid)
            | LDisjoint a b => inr (PoDisjoint sid a b)
            | LReval a b c d => inr (PoReval sid a b c d)
            | LUnavailable => inl EObservationUnavailable
            end
        end
    end.

  Definition filter_outputs (f : option (list N)) (o : list (N * bytes)) : list (N * bytes) :=
    match f with
    | None => o
    | Some l => filter (fun cd => mem_N (fst cd) l) o
    end.

  (* payload by projection; [outs] = recorded outputs of the entry at the resolved tick *)
  Definition payload_of (rs : resolved) (p : proj) (outs : list (N * bytes)) : payload :=
    match p with
    | PHead => PlHead (rs_tick rs) (rs_cgt rs) (rs_root rs) (rs_commit rs)
    | PSnapshot => PlSnapshot (rs_tick rs) (rs_cgt rs) (rs_root rs) (rs_commit rs)
    | PTruth f => PlTruth (filter_outputs f outs)
    | PQuery _ _ => PlTruth []      (* unreachable: query requests are delegated *)
    end.

  Definition outputs_at (w : wline) (t : N) : option (list (N * bytes)) :=
    match nthN (w_hist w) t with Some e => Some (e_outputs e) | None => None end.

  (* the tail of `observe` once the coordinate is resolved: posture, payload, envelope *)
  Definition finish (w : wline) (r : request) (rs : resolved) : result :=
    match basis_posture w (r_at r) with
    | inl e => Obstruction e
    | inr po =>
        match r_proj r with
        | PQuery _ _ => QueryDelegated rs po
        | p =>
            match (match p with PTruth _ => outputs_at w (rs_tick rs) | _ => Some [] end) with
            | None => Obstruction EObservationUnavailable
            | Some outs =>
                let pl := payload_of rs p outs in
                match budget_posture (r_budget r) pl with
                | inl e => Obstruction e
                | inr bp =>
                    Reading {| a_resolved := rs; a_plan := r_plan r; a_witness := witness_of rs (r_frame r);
                               a_posture := po; a_budget := bp; a_frame := r_frame r; a_proj := p; a_payload := pl |}
                end
            end
        end
    end.

  (* ObservationService::observe *)
  Definition observe (W : world) (r : request) : result :=
    match lookupN (r_wl r) (lines W) with
    | None => Obstruction EInvalidWorldline
    | Some w =>
        if negb (valid_pair (r_frame r) (kind_of (r_proj r)))
        then Obstruction (EUnsupportedFrameProjection (r_frame r) (kind_of (r_proj r)))
        else match validate_contract (queries W) r with
             | Some e => Obstruction e
             | None =>
                 match resolve (gtick W) (r_wl r) w (r_frame r) (r_at r) with
                 | inl e => Obstruction e
                 | inr rs => finish w r rs
                 end
             end
    end.

  (* the reading taken from a REPLAYED state [s] at committed tick [t] (entry [e]): same validation, but the
     state root comes from the replayed state instead of the recorded commitment *)
  Definition project (W : world) (w : wline) (r : request) (t : N) (e : entry) (s : St) : result :=
    if negb (valid_pair (r_frame r) (kind_of (r_proj r)))
    then Obstruction (EUnsupportedFrameProjection (r_frame r) (kind_of (r_proj r)))
    else match validate_contract (queries W) r with
         | Some err => Obstruction err
         | None => finish w r (of_entry (gtick W) (r_wl r) (ATick t) t e (root s))
         end.

  (* the documented freshness field (observed_after_global_tick) masked out *)
  Definition mask_rs (rs : resolved) : resolved :=
    {| rs_wl := rs_wl rs; rs_at := rs_at rs; rs_tick := rs_tick rs; rs_cgt := rs_cgt rs; rs_oagt := None;
       rs_root := rs_root rs; rs_commit := rs_commit rs |}.
  Definition mask (x : result) : result :=
    match x with
    | Reading a => Reading {| a_resolved := mask_rs (a_resolved a); a_plan := a_plan a; a_witness := a_witness a;
                              a_posture := a_posture a; a_budget := a_budget a; a_frame := a_frame a;
                              a_proj := a_proj a; a_payload := a_payload a |}
    | QueryDelegated rs po => QueryDelegated (mask_rs rs) po
    | Obstruction e => Obstruction e
    end.

  Definition strand_id_of (w : wline) : option N :=
    match w_strand w with Some (sid, _) => Some sid | None => None end.
End Observe.

Arguments e_patch {P} _.
Arguments e_gtick {P} _.
Arguments e_root {P} _.
Arguments e_commit {P} _.
Arguments e_outputs {P} _.
Arguments w_base {St P} _.
Arguments w_gen_root {St P} _.
Arguments w_gen_commit {St P} _.
Arguments w_hist {St P} _.
Arguments w_strand {St P} _.
Arguments w_cps {St P} _.
Arguments lines {St P} _.
Arguments gtick {St P} _.
Arguments queries {St P} _.
Arguments observe {St P} _ _.
Arguments project {St P} _ _ _ _ _ _ _.
Arguments replay {St P} _ _ _ _.
Arguments replay_from {St P} _ _ _ _ _.
Arguments resolve {St P} _ _ _ _ _.
Arguments finish {St P} _ _ _.
Arguments basis_posture {St P} _ _.
Arguments outputs_at {St P} _ _.
Arguments of_entry {P} _ _ _ _ _ _.
Arguments strand_id_of {St P} _.

(* ------------------------------------------------------------------ the optic bridge (observe_optic) *)

Inductive okind :=   (* OpticObstructionKind, the ones reachable from observe_optic *)
| OMissingWitness | OCapabilityDenied | OBudgetExceeded | OUnsupportedAperture | OUnsupportedProjectionLaw
| OAttachmentDescentRequired | OAttachmentDescentDenied | OLiveTailRequiresReduction | OConflictingFrontier.

Inductive ofocus := FoWorldline (id : N) | FoAttachment | FoOther.
Inductive ocat := OcFrontier | OcTick (t : N) | OcProvenance (r : pref).
Inductive ocoord := CoWorldline (id : N) (a : ocat) | CoOther.
Inductive oshape := ShHead | ShSnapshot | ShTruth | ShQueryBytes | ShByteRange (start len : N) | ShAttachment.
Inductive odescent := DBoundaryOnly | DExplicit.
Record optic_request := {
  o_focus : ofocus; o_coord : ocoord; o_shape : oshape;
  o_max_bytes : option N; o_max_ticks : option N; o_max_attachments : option N; o_descent : odescent
}.

Definition metadata_min_bytes : N := 128.
Definition u64_max : N := 18446744073709551615.

(* validate_optic_budget *)
Definition optic_budget_check (q : optic_request) : option okind :=
  match o_max_bytes q with
  | None => Some OBudgetExceeded
  | Some mb =>
      if mb =? 0 then Some OBudgetExceeded
      else match o_shape q with
           | ShHead | ShSnapshot => if mb <? metadata_min_bytes then Some OBudgetExceeded else None
           | ShByteRange _ len => if mb <? len then Some OBudgetExceeded else None
           | _ => None
           end
  end.

(* attachment_boundary_obstruction *)
Definition optic_attachment_check (q : optic_request) : option okind :=
  match o_focus q with
  | FoAttachment =>
      match o_shape q, o_descent q with
      | ShAttachment, DBoundaryOnly => Some OAttachmentDescentRequired
      | ShAttachment, DExplicit =>
          if (match o_max_attachments q with Some n => n | None => 0 end) =? 0
          then Some OBudgetExceeded else Some OAttachmentDescentDenied
      | _, _ => Some OUnsupportedAperture
      end
  | _ => None
  end.

(* optic_observation_request / optic_coordinate_at *)
Definition optic_to_request (q : optic_request) : okind + request :=
  match o_focus q, o_coord q with
  | FoWorldline fid, CoWorldline cid a =>
      if negb (fid =? cid) then inl OConflictingFrontier
      else
        match (match a with
               | OcFrontier => inr AFrontier
               | OcTick t => inr (ATick t)
               | OcProvenance r => if pr_wl r =? cid then inr (ATick (pr_tick r)) else inl OConflictingFrontier
               end) with
        | inl k => inl k
        | inr at' =>
            match o_shape q with
            | ShHead | ShSnapshot =>
                let '(p, b) := match o_shape q with ShHead => (PHead, BHead) | _ => (PSnapshot, BSnapshot) end in
                inr {| r_wl := cid; r_at := at'; r_frame := FCommitBoundary; r_proj := p; r_plan := OBuiltin b;
                       r_instance := None;
                       r_budget := match o_max_bytes q with
                                   | Some mb => BBounded mb (match o_max_ticks q with Some n => n | None => u64_max end)
                                   | None => BUnbounded
                                   end;
                       r_rights := RPublic |}
            | ShQueryBytes => inl OUnsupportedProjectionLaw
            | _ => inl OUnsupportedAperture
            end
        end
  | _, _ => inl OUnsupportedProjectionLaw
  end.

(* optic_observation_error *)
Definition optic_error_kind (e : oerr) : okind :=
  match e with
  | EInvalidWorldline | EInvalidTick _ | EObservationUnavailable => OMissingWitness
  | EUnsupportedFrameProjection _ _ => OUnsupportedAperture
  | EUnsupportedQuery _ | EUnsupportedObserverPlan | EUnsupportedObserverInstance => OUnsupportedProjectionLaw
  | EUnsupportedRights => OCapabilityDenied
  | EBudgetExceeded _ _ _ _ => OBudgetExceeded
  end.

Inductive optic_result :=
| OReading (a : artifact)          (* envelope + payload of the bridged observation (ReadIdentity is outside the model) *)
| OObstructed (k : okind).

(* LocalProvenanceStore::checkpoint_before: the largest checkpoint tick strictly below [tick] *)
Definition cp_before (cps : list N) (tick : N) : option N :=
  fold_left (fun acc c => if c <? tick
                          then match acc with Some b => if b <? c then Some c else acc | None => Some c end
                          else acc) cps None.

(* checkpoint_plus_tail_witness_basis, obstruction part: a reading witnessed by a commit whose resolved tick lies
   above a non-genesis checkpoint needs the tail [checkpoint .. resolved tick - 1] within the tick budget.
   (The code reads `resolved_worldline_tick` as a cursor coordinate here for frontier AND tick reads.)
   The tail entries themselves always exist below the resolved coordinate, so MissingWitness is unreachable. *)
Definition live_tail_check (cps : list N) (max_ticks : option N) (a : artifact) : option okind :=
  match a_witness a with
  | WEmpty _ _ _ => None
  | WCommit _ =>
      let mat := rs_tick (a_resolved a) in
      if mat =? 0 then None
      else match cp_before cps mat with
           | None => None
           | Some cp =>
               if cp =? 0 then None
               else if (match max_ticks with Some n => n | None => u64_max end) <? (mat - cp)
                    then Some OLiveTailRequiresReduction else None
           end
  end.

(* observe_optic; of the witness-basis derivation only the obstruction is modelled *)
Definition observe_optic {St P} (W : world St P) (q : optic_request) : optic_result :=
  match optic_budget_check q with
  | Some k => OObstructed k
  | None =>
      match optic_attachment_check q with
      | Some k => OObstructed k
      | None =>
          match optic_to_request q with
          | inl k => OObstructed k
          | inr r =>
              match observe W r with
              | Reading a =>
                  match live_tail_check (match lookupN (r_wl r) (lines W) with Some w => w_cps w | None => [] end)
                                        (o_max_ticks q) a with
                  | Some k => OObstructed k
                  | None => OReading a
                  end
              | Obstruction e => OObstructed (optic_error_kind e)
              | QueryDelegated _ _ => OObstructed OUnsupportedProjectionLaw   (* unreachable: r is never a query *)
              end
          end
      end
  end.
