(* Model of crates/warp-core/src/materialization/{bus,reduce_op,emit_key,frame}.rs and
   snapshot.rs::compute_emissions_digest (preimage).  Definitions only.

   The bus is `BTreeMap<ChannelId, BTreeMap<EmitKey, Vec<u8>>>`; iteration is
   channel-major then key order, which is the lexicographic order of the
   composite key (channel, scope_hash, rule_id, subkey).  The model keeps one
   strictly sorted association list under that composite key and groups by
   channel at finalize time. *)
From Coq Require Import List NArith Lia.
From Echo Require Import Base.FinMap Base.Order Base.Bytes.
Import ListNotations.
Open Scope N_scope.

(* (channel, (scope_hash, (rule_id, subkey))) *)
Definition ckey := (N * (N * (N * N)))%type.
Definition ckey_cmp : ckey -> ckey -> comparison :=
  pair_cmp N.compare (pair_cmp N.compare (pair_cmp N.compare N.compare)).
Definition chan_of (k : ckey) : N := fst k.

Definition bus := list (ckey * bytes).

Inductive emit_result := EmitOk | EmitDup.

(* MaterializationBus::emit *)
Definition emit (b : bus) (k : ckey) (v : bytes) : bus * emit_result :=
  match find ckey_cmp k b with
  | Some _ => (b, EmitDup)
  | None => (ins ckey_cmp k v b, EmitOk)
  end.

Definition emit_all (es : list (ckey * bytes)) : bus :=
  fold_left (fun b kv => fst (emit b (fst kv) (snd kv))) es [].

Definition emit_all_results (es : list (ckey * bytes)) : list emit_result :=
  snd (fold_left (fun st kv => let '(b, r) := emit (fst st) (fst kv) (snd kv) in (b, snd st ++ [r]))
         es ([], [])).

Inductive reduce_op := Sum | Max | Min | BitOr | BitAnd | First | Last | Concat.
Inductive policy := PLog | PStrictSingle | PReduce (op : reduce_op).

Definition is_commutative (op : reduce_op) : bool :=
  match op with Sum | Max | Min | BitOr | BitAnd => true | _ => false end.

Definition two64 : N := 18446744073709551616.

Definition sum_val (v : bytes) : N := from_le (firstn 8 v).
Definition sum_step (acc : N) (v : bytes) : N := (acc + sum_val v) mod two64.

Fixpoint bor (a b : bytes) : bytes :=
  match a, b with
  | [], _ => b
  | _, [] => a
  | x :: a', y :: b' => N.lor x y :: bor a' b'
  end.

Fixpoint band (a b : bytes) : bytes :=
  match a, b with
  | x :: a', y :: b' => N.land x y :: band a' b'
  | _, _ => []
  end.

Definition bmax := cmax bytes_cmp.
Definition bmin := cmin bytes_cmp.

Definition opt_default {A} (d : A) (o : option A) : A := match o with Some x => x | None => d end.

(* ReduceOp::apply; values arrive in key order *)
Definition apply_op (op : reduce_op) (vs : list bytes) : bytes :=
  match vs with
  | [] => match op with Sum => le_bytes 8 0 | _ => [] end
  | _ =>
      match op with
      | Sum => le_bytes 8 (fold_left sum_step vs 0)
      | Max => opt_default [] (reduce1 bmax vs)
      | Min => opt_default [] (reduce1 bmin vs)
      | BitOr => opt_default [] (reduce1 bor vs)
      | BitAnd => opt_default [] (reduce1 band vs)
      | First => hd [] vs
      | Last => last vs []
      | Concat => concat vs
      end
  end.

Inductive chan_out :=
| ChanData (chan : N) (data : bytes)
| ChanConflict (chan : N) (count : N).

(* MaterializationBus::finalize_channel *)
Definition finalize_channel (p : policy) (chan : N) (vs : list bytes) : chan_out :=
  match p with
  | PLog => ChanData chan (flat_map (fun d => le_bytes 4 (lenN d) ++ d) vs)
  | PStrictSingle =>
      match vs with
      | _ :: _ :: _ => ChanConflict chan (lenN vs)
      | _ => ChanData chan (hd [] vs)
      end
  | PReduce op => ChanData chan (apply_op op vs)
  end.

(* group consecutive entries of the (sorted) bus by channel *)
Fixpoint group (b : bus) : list (N * list bytes) :=
  match b with
  | [] => []
  | (k, v) :: r =>
      match group r with
      | (c, vs) :: g => if N.eqb c (chan_of k) then (c, v :: vs) :: g
                        else (chan_of k, [v]) :: (c, vs) :: g
      | [] => [(chan_of k, [v])]
      end
  end.

Definition policies := list (N * policy).
Definition policy_of (ps : policies) (chan : N) : policy :=
  opt_default PLog (find N.compare chan ps).

(* MaterializationBus::finalize: one entry per channel in channel order;
   the report's `channels` and `errors` vectors are the two projections. *)
Definition finalize (ps : policies) (b : bus) : list chan_out :=
  map (fun cv => finalize_channel (policy_of ps (fst cv)) (fst cv) (snd cv)) (group b).

Definition report_channels (r : list chan_out) : list (N * bytes) :=
  flat_map (fun o => match o with ChanData c d => [(c, d)] | _ => [] end) r.
Definition report_errors (r : list chan_out) : list (N * N) :=
  flat_map (fun o => match o with ChanConflict c n => [(c, n)] | _ => [] end) r.

(* insertion sort by channel id: `sorted.sort_by(|a,b| a.channel.0.cmp(&b.channel.0))` is stable *)
Fixpoint insert_chan (x : N * bytes) (l : list (N * bytes)) : list (N * bytes) :=
  match l with
  | [] => [x]
  | y :: r => match N.compare (fst x) (fst y) with
              | Lt => x :: l
              | _ => y :: insert_chan x r
              end
  end.
Definition sort_chans (l : list (N * bytes)) : list (N * bytes) :=
  fold_right insert_chan [] l.

(* compute_emissions_digest preimage *)
Definition digest_preimage (chans : list (N * bytes)) : bytes :=
  le_bytes 2 1 ++ le_bytes 8 (lenN chans) ++
  flat_map (fun cd => be_bytes 32 (fst cd) ++ le_bytes 8 (lenN (snd cd)) ++ snd cd) (sort_chans chans).

(* MaterializationFrame::encode / encode_frames *)
Definition frame_magic : bytes := [0x4D; 0x42; 0x55; 0x53].
Definition encode_frame (cd : N * bytes) : bytes :=
  frame_magic ++ le_bytes 2 1 ++ le_bytes 2 0 ++ le_bytes 4 (32 + lenN (snd cd)) ++
  be_bytes 32 (fst cd) ++ snd cd.
Definition encode_frames (l : list (N * bytes)) : bytes := flat_map encode_frame l.

(* what a tick observes *)
Record tick_out := {
  to_channels : list (N * bytes);
  to_errors : list (N * N);
  to_digest_preimage : bytes;
  to_frames : bytes
}.

Definition run_tick (ps : policies) (es : list (ckey * bytes)) : tick_out :=
  let r := finalize ps (emit_all es) in
  {| to_channels := report_channels r;
     to_errors := report_errors r;
     to_digest_preimage := digest_preimage (report_channels r);
     to_frames := encode_frames (report_channels r) |}.
