(* Model of crates/echo-cas/src/{lib,memory,disk,retention}.rs and, at record
   level, of the three causal-history export profiles of
   crates/warp-core/src/wsc/store.rs.  Definitions only.

   The content hash is a Section variable [H : bytes -> N]; nothing is assumed
   about it.  [HashMap<BlobHash, _>] / [HashSet<BlobHash>] expose no iteration
   order, so they are modelled as sorted association lists keyed by the hash
   read as a 256-bit big-endian number ([u8;32] Ord = numeric order).

   MemoryTier  = blobs + pins + byte_count + advisory max_bytes (never enforced:
                 put always succeeds, there is no eviction or removal in this
                 code base; is_over_budget is [byte_count > max], exclusive).
   DiskTier    = one file per hash whose content is an ARBITRARY byte string
                 (the environment may rewrite or delete it) + process-local pins.
                 Filesystem failures (DiskTierError::Io / InvalidBlobPath) are
                 outside the model.
   usize/u64 overflow of byte_count is outside the model (N is unbounded). *)
From Coq Require Import List NArith Lia Bool.
From Echo Require Import Base.FinMap Base.Order Base.Bytes.
Import ListNotations.
Open Scope N_scope.

Definition hset := list (N * unit).
Definition hset_add (h : N) (s : hset) : hset := ins N.compare h tt s.
Definition hset_del (h : N) (s : hset) : hset := del N.compare h s.
Definition hset_mem (h : N) (s : hset) : bool := mem N.compare h s.

Definition blobs := list (N * bytes).

Fixpoint sum_sizes (m : blobs) : N :=
  match m with [] => 0 | (_, b) :: r => lenN b + sum_sizes r end.

(* Operations common to both tiers, environment faults for the disk tier, and
   the observers the public API offers. *)
Inductive op :=
| Put (b : bytes)
| PutV (h : N) (b : bytes)
| Get (h : N)
| Has (h : N)
| Pin (h : N)
| Unpin (h : N)
| IsPinned (h : N)
| ListAll                      (* DiskTier::list; MemoryTier has no list *)
| Reopen                       (* drop the handle and DiskTier::open the same root / MemoryTier: no-op *)
| EnvWrite (h : N) (c : bytes) (* environment: file of h now has content c (flip/truncate/extend/replace/create) *)
| EnvDelete (h : N)            (* environment: file of h removed *)
| EnvStray (h : N).            (* environment: leftover ".<hex>.<n>.tmp" next to h *)

Inductive out :=
| OHash (h : N)                (* put *)
| OOk                          (* put_verified Ok *)
| OMismatch (expected computed : N)   (* CasError::HashMismatch *)
| OBytes (b : option bytes)    (* get *)
| OBool (b : bool)
| OList (l : list N)
| OUnit.

Section WithHash.
  Variable H : bytes -> N.

  Definition Collision : Prop := exists x y : bytes, x <> y /\ H x = H y.

  (* ------------------------------------------------------------------ MemoryTier *)
  Record mtier := { m_blobs : blobs; m_pins : hset; m_bytes : N; m_max : option N }.

  Definition mem_new (max : option N) : mtier :=
    {| m_blobs := []; m_pins := []; m_bytes := 0; m_max := max |}.

  (* MemoryTier::put: Entry::Vacant => count + insert, Occupied => nothing *)
  Definition mem_put (s : mtier) (b : bytes) : mtier * N :=
    let h := H b in
    match find N.compare h (m_blobs s) with
    | Some _ => (s, h)
    | None => ({| m_blobs := set N.compare h b (m_blobs s); m_pins := m_pins s;
                  m_bytes := m_bytes s + lenN b; m_max := m_max s |}, h)
    end.

  (* MemoryTier::put_verified: always hashes first; an already stored key is then an
     idempotent no-op (nothing written, nothing counted) *)
  Definition mem_put_verified (s : mtier) (expected : N) (b : bytes) : mtier * out :=
    let computed := H b in
    if N.eqb computed expected then
      match find N.compare expected (m_blobs s) with
      | Some _ => (s, OOk)
      | None =>
          ({| m_blobs := set N.compare computed b (m_blobs s); m_pins := m_pins s;
              m_bytes := m_bytes s + lenN b; m_max := m_max s |}, OOk)
      end
    else (s, OMismatch expected computed).

  Definition mem_get (s : mtier) (h : N) : option bytes := find N.compare h (m_blobs s).
  Definition mem_has (s : mtier) (h : N) : bool := mem N.compare h (m_blobs s).
  Definition mem_pin (s : mtier) (h : N) : mtier :=
    {| m_blobs := m_blobs s; m_pins := hset_add h (m_pins s); m_bytes := m_bytes s; m_max := m_max s |}.
  Definition mem_unpin (s : mtier) (h : N) : mtier :=
    {| m_blobs := m_blobs s; m_pins := hset_del h (m_pins s); m_bytes := m_bytes s; m_max := m_max s |}.
  Definition mem_is_pinned (s : mtier) (h : N) : bool := hset_mem h (m_pins s).
  Definition mem_len (s : mtier) : N := lenN (m_blobs s).
  Definition mem_pinned_count (s : mtier) : N := lenN (m_pins s).
  Definition mem_over_budget (s : mtier) : bool :=
    match m_max s with Some mx => mx <? m_bytes s | None => false end.

  Definition mem_step (s : mtier) (o : op) : mtier * out :=
    match o with
    | Put b => let '(s', h) := mem_put s b in (s', OHash h)
    | PutV h b => mem_put_verified s h b
    | Get h => (s, OBytes (mem_get s h))
    | Has h => (s, OBool (mem_has s h))
    | Pin h => (mem_pin s h, OUnit)
    | Unpin h => (mem_unpin s h, OUnit)
    | IsPinned h => (s, OBool (mem_is_pinned s h))
    | ListAll | Reopen | EnvWrite _ _ | EnvDelete _ | EnvStray _ => (s, OUnit)
    end.

  (* ------------------------------------------------------------------ DiskTier *)
  Record disk := { d_files : blobs; d_pins : hset }.

  Definition disk_open (files : blobs) : disk := {| d_files := files; d_pins := [] |}.

  (* DiskTier::put_verified: always hashes; temp file + rename replaces any existing file *)
  Definition disk_put_verified (d : disk) (expected : N) (b : bytes) : disk * out :=
    let computed := H b in
    if N.eqb computed expected then
      ({| d_files := set N.compare expected b (d_files d); d_pins := d_pins d |}, OOk)
    else (d, OMismatch expected computed).

  Definition disk_put (d : disk) (b : bytes) : disk * N :=
    (fst (disk_put_verified d (H b) b), H b).

  (* DiskTier::get: read the file, recompute the hash *)
  Definition disk_get (d : disk) (h : N) : out :=
    match find N.compare h (d_files d) with
    | None => OBytes None
    | Some c => let computed := H c in
                if N.eqb computed h then OBytes (Some c) else OMismatch h computed
    end.

  Definition disk_has (d : disk) (h : N) : bool := mem N.compare h (d_files d).
  Definition disk_list (d : disk) : list N := map fst (d_files d).
  Definition disk_pin (d : disk) (h : N) : disk :=
    {| d_files := d_files d; d_pins := hset_add h (d_pins d) |}.
  Definition disk_unpin (d : disk) (h : N) : disk :=
    {| d_files := d_files d; d_pins := hset_del h (d_pins d) |}.
  Definition disk_is_pinned (d : disk) (h : N) : bool := hset_mem h (d_pins d).
  Definition disk_pinned_count (d : disk) : N := lenN (d_pins d).
  Definition disk_reopen (d : disk) : disk := disk_open (d_files d).

  Definition disk_step (d : disk) (o : op) : disk * out :=
    match o with
    | Put b => let '(d', h) := disk_put d b in (d', OHash h)
    | PutV h b => disk_put_verified d h b
    | Get h => (d, disk_get d h)
    | Has h => (d, OBool (disk_has d h))
    | Pin h => (disk_pin d h, OUnit)
    | Unpin h => (disk_unpin d h, OUnit)
    | IsPinned h => (d, OBool (disk_is_pinned d h))
    | ListAll => (d, OList (disk_list d))
    | Reopen => (disk_reopen d, OUnit)
    | EnvWrite h c => ({| d_files := set N.compare h c (d_files d); d_pins := d_pins d |}, OUnit)
    | EnvDelete h => ({| d_files := del N.compare h (d_files d); d_pins := d_pins d |}, OUnit)
    | EnvStray _ => (d, OUnit)
    end.

  (* ------------------------------------------------------------------ runs *)
  Fixpoint run {S} (step : S -> op -> S * out) (s : S) (ops : list op) : S * list out :=
    match ops with
    | [] => (s, [])
    | o :: r => let '(s1, x) := step s o in
                let '(s2, xs) := run step s1 r in (s2, x :: xs)
    end.

  Definition mem_run := run mem_step.
  Definition disk_run := run disk_step.

  (* operations issued through the API (no environment fault) *)
  Definition is_api (o : op) : bool :=
    match o with EnvWrite _ _ | EnvDelete _ | EnvStray _ => false | _ => true end.
  Definition is_pin_op (o : op) : bool :=
    match o with Pin _ | Unpin _ => true | _ => false end.
  (* byte strings a run offered for storage under their own hash *)
  Definition offered (o : op) : list bytes :=
    match o with Put b => [b] | PutV h b => if N.eqb (H b) h then [b] else [] | _ => [] end.

  (* every stored entry hashes to its key; accounting is exact *)
  Definition entries_intact (m : blobs) : Prop := forall h b, In (h, b) m -> H b = h.
  Definition mem_inv (s : mtier) : Prop :=
    sorted N.compare (m_blobs s) /\ sorted N.compare (m_pins s) /\
    entries_intact (m_blobs s) /\ m_bytes s = sum_sizes (m_blobs s).
  Definition disk_inv (d : disk) : Prop :=
    sorted N.compare (d_files d) /\ sorted N.compare (d_pins d) /\ entries_intact (d_files d).

  (* ------------------------------------------------------------------ RetainedBlobIndex *)
  (* SemanticBlobCoordinate { namespace, schema_hash_hex, artifact_hash_hex, role, semantic_digest }:
     strings as UTF-8 bytes, role as its discriminant 0..5, derive(Ord) = lexicographic in field order *)
  Definition coord := (bytes * (bytes * (bytes * (N * N))))%type.
  Definition coord_cmp : coord -> coord -> comparison :=
    pair_cmp bytes_cmp (pair_cmp bytes_cmp (pair_cmp bytes_cmp (pair_cmp N.compare N.compare))).

  (* RetainedBlobDescriptor minus the coordinate (always equal to its key): (content_hash, byte_len) *)
  Definition desc := (N * N)%type.
  Definition index := list (coord * desc).

  Inductive ret_err :=
  | MissingSemanticCoordinate
  | MissingBlob (h : N)
  | RangeExceedsBudget (requested mx : N)
  | RangeOutOfBounds (offset len byte_len : N)
  | SemanticCoordinateConflict (existing new : N).

  Inductive ret_res (A : Type) := ROk (a : A) | RErr (e : ret_err).
  Arguments ROk {A} a.
  Arguments RErr {A} e.

  (* RetainedBlobIndex::retain over a MemoryTier *)
  Definition retain (ix : index) (s : mtier) (c : coord) (b : bytes) : index * mtier * ret_res desc :=
    let h := H b in
    match find coord_cmp c ix with
    | Some (eh, el) =>
        if orb (negb (N.eqb eh h)) (negb (N.eqb el (lenN b))) then
          (ix, s, RErr (SemanticCoordinateConflict eh h))
        else
          let s1 := if mem_has s eh then s else fst (mem_put s b) in
          (ix, mem_pin s1 eh, ROk (eh, el))
    | None =>
        let '(s1, h1) := mem_put s b in
        let d := (h1, lenN b) in
        (set coord_cmp c d ix, mem_pin s1 h1, ROk d)
    end.

  Definition descriptor (ix : index) (c : coord) : option desc := find coord_cmp c ix.

  Definition load_by_hash (s : mtier) (h : N) : ret_res bytes :=
    match mem_get s h with Some b => ROk b | None => RErr (MissingBlob h) end.

  Definition load (ix : index) (s : mtier) (c : coord) : ret_res (desc * bytes) :=
    match find coord_cmp c ix with
    | None => RErr MissingSemanticCoordinate
    | Some d => match load_by_hash s (fst d) with
                | ROk b => ROk (d, b)
                | RErr e => RErr e
                end
    end.

  Definition two64 : N := 18446744073709551616.

  (* RetainedBlobIndex::load_range (offset, len, max_bytes are u64) *)
  Definition load_range (ix : index) (s : mtier) (c : coord) (offset len mx : N)
    : ret_res (desc * N * bytes) :=
    match load ix s c with
    | RErr e => RErr e
    | ROk (d, b) =>
        if mx <? len then RErr (RangeExceedsBudget len mx)
        else if two64 <=? offset + len then RErr (RangeOutOfBounds offset len (snd d))
        else if snd d <? offset + len then RErr (RangeOutOfBounds offset len (snd d))
        else ROk (d, offset, firstn (N.to_nat len) (skipn (N.to_nat offset) b))
    end.

  Inductive iop :=
  | IRetain (c : coord) (b : bytes)
  | ILoad (c : coord)
  | ILoadRange (c : coord) (offset len mx : N)
  | ILoadByHash (h : N)
  | IDescriptor (c : coord)
  | IStore (o : op)          (* direct use of the underlying MemoryTier *)
  | IFreshStore.             (* the index is used against a new, empty MemoryTier *)

  Inductive iout :=
  | IODesc (r : ret_res desc)
  | IOLoad (r : ret_res (desc * bytes))
  | IORange (r : ret_res (desc * N * bytes))
  | IOBytes (r : ret_res bytes)
  | IOOptDesc (d : option desc)
  | IOStore (o : out).

  Definition istate := (index * mtier)%type.

  Definition istep (st : istate) (o : iop) : istate * iout :=
    let '(ix, s) := st in
    match o with
    | IRetain c b => let '(ix', s', r) := retain ix s c b in ((ix', s'), IODesc r)
    | ILoad c => (st, IOLoad (load ix s c))
    | ILoadRange c off len mx => (st, IORange (load_range ix s c off len mx))
    | ILoadByHash h => (st, IOBytes (load_by_hash s h))
    | IDescriptor c => (st, IOOptDesc (descriptor ix c))
    | IStore so => let '(s', x) := mem_step s so in ((ix, s'), IOStore x)
    | IFreshStore => ((ix, mem_new (m_max s)), IOStore OUnit)
    end.

  Fixpoint irun (st : istate) (ops : list iop) : istate * list iout :=
    match ops with
    | [] => (st, [])
    | o :: r => let '(s1, x) := istep st o in
                let '(s2, xs) := irun s1 r in (s2, x :: xs)
    end.

  Definition istate0 : istate := ([], mem_new None).

  (* the content of the first retain issued for coordinate c *)
  Fixpoint first_content (ops : list iop) (c : coord) : option bytes :=
    match ops with
    | [] => None
    | IRetain c' b :: r =>
        match coord_cmp c c' with Eq => Some b | _ => first_content r c end
    | _ :: r => first_content r c
    end.

End WithHash.

Arguments ROk {A} a.
Arguments RErr {A} e.

(* A finite hash table as the hash function of a run: the tie supplies, for every byte
   string that the run hashes, its real BLAKE3 value. *)
Definition table_hash (tbl : list (bytes * N)) (b : bytes) : N :=
  match find bytes_cmp b tbl with Some h => h | None => 0 end.

(* ------------------------------------------------------------------ export profiles (record level) *)
(* Record-level model of the material validation of the self-contained and CAS-addressed
   causal-history export profiles (wsc/store.rs).  Everything that is WSC envelope encoding,
   projection-graph comparison and WAL segment recovery is outside this model. *)

(* RetainedMaterialRecord: (material_digest, (semantic_coordinate_digest, (kind code 1..7, posture code; 0 = Present))) *)
Definition material := (N * (N * (N * N)))%type.
Definition mat_digest (m : material) : N := fst m.
Definition mat_coord (m : material) : N := fst (snd m).
Definition mat_kind (m : material) : N := fst (snd (snd m)).
Definition mat_present (m : material) : bool := N.eqb (snd (snd (snd m))) 0.
Definition mat_cmp : material -> material -> comparison :=
  pair_cmp N.compare (pair_cmp N.compare (pair_cmp N.compare N.compare)).

(* WscSelfContainedRetainedMaterial *)
Definition payload := (material * bytes)%type.
Definition payload_cmp : payload -> payload -> comparison := pair_cmp mat_cmp bytes_cmp.

(* WscCasAddressedRetainedMaterialReference / segment reference at this level:
   ((material_kind, semantic_coordinate_digest), (content_hash, byte_len)); the pair in front is the
   canonicalisation key of canonical_cas_addressed_retained_references *)
Definition cref := ((N * N) * (N * N))%type.
Definition cref_key (r : cref) : N * N := fst r.
Definition cref_kind (r : cref) : N := fst (fst r).
Definition cref_coord (r : cref) : N := snd (fst r).
Definition cref_hash (r : cref) : N := fst (snd r).
Definition cref_len (r : cref) : N := snd (snd r).
Definition key_cmp : N * N -> N * N -> comparison := pair_cmp N.compare N.compare.
Definition cref_cmp : cref -> cref -> comparison := pair_cmp key_cmp (pair_cmp N.compare N.compare).

(* canonical_*: BTreeMap keyed by k; an equal duplicate is absorbed, a different one is a typed
   duplicate-mismatch obstruction *)
Section Canon.
  Context {K V : Type} (kcmp : K -> K -> comparison) (vcmp : V -> V -> comparison) (key : V -> K).
  Definition canon_step (acc : option (list (K * V))) (v : V) : option (list (K * V)) :=
    match acc with
    | None => None
    | Some m => match find kcmp (key v) m with
                | Some e => match vcmp e v with Eq => Some (set kcmp (key v) v m) | _ => None end
                | None => Some (set kcmp (key v) v m)
                end
    end.
  Definition canon (vs : list V) : option (list (K * V)) := fold_left canon_step vs (Some []).
End Canon.

Inductive sc_res :=
| SCOk
| SCDuplicate
| SCDigestMismatch (expected actual : N)
| SCMissing (digest : N)
| SCExtra (digest : N).

Inductive cas_res :=
| CASOk
| CASDuplicate
| CASRefMismatch (missing extra : N)
| CASMissingBlob (hash coord : N)
| CASHashMismatch (expected actual : N)
| CASLenMismatch (expected actual : N).

(* (kind, (digest, coord)) triples compared by validate_cas_addressed_retained_references *)
Definition triple := (N * (N * N))%type.
Definition triple_cmp : triple -> triple -> comparison := pair_cmp N.compare (pair_cmp N.compare N.compare).
Definition mat_triple (m : material) : triple := (mat_kind m, (mat_digest m, mat_coord m)).
Definition cref_triple (r : cref) : triple := (cref_kind r, (cref_hash r, cref_coord r)).
Definition tset (l : list triple) : list (triple * unit) :=
  fold_left (fun s t => ins triple_cmp t tt s) l [].
Definition tdiff (a b : list (triple * unit)) : N :=
  lenN (filter (fun t => negb (mem triple_cmp (fst t) b)) a).

Section ExportWithHash.
  Variable H : bytes -> N.

  (* validate_self_contained_retained_hashes over the canonical (digest-ordered) payload list *)
  Fixpoint sc_hashes (ps : list (N * payload)) : option (N * N) :=
    match ps with
    | [] => None
    | (_, (m, b)) :: r => if N.eqb (H b) (mat_digest m) then sc_hashes r else Some (mat_digest m, H b)
    end.

  Fixpoint sc_missing (mats : list material) (ps : list (N * payload)) : option N :=
    match mats with
    | [] => None
    | m :: r => if mat_present m && negb (mem N.compare (mat_digest m) ps) then Some (mat_digest m)
                else sc_missing r ps
    end.

  Fixpoint sc_extra (mats : list material) (ps : list (N * payload)) : option N :=
    match ps with
    | [] => None
    | (d, _) :: r => if existsb (fun m => N.eqb (mat_digest m) d) mats then sc_extra mats r else Some d
    end.

  (* canonical_self_contained_retained_materials + validate_self_contained_{export,import}_retained_payloads *)
  Definition sc_check (mats : list material) (pays : list payload) : sc_res :=
    match canon N.compare payload_cmp (fun p => mat_digest (fst p)) pays with
    | None => SCDuplicate
    | Some ps =>
        match sc_hashes ps with
        | Some (e, a) => SCDigestMismatch e a
        | None => match sc_missing mats ps with
                  | Some d => SCMissing d
                  | None => match sc_extra mats ps with
                            | Some d => SCExtra d
                            | None => SCOk
                            end
                  end
        end
    end.

  (* validated_cas_blob_bytes: the port returns ARBITRARY bytes for a hash *)
  Definition cas_blob (cas : list (N * bytes)) (r : cref) : cas_res :=
    match find N.compare (cref_hash r) cas with
    | None => CASMissingBlob (cref_hash r) (cref_coord r)
    | Some b => if negb (N.eqb (H b) (cref_hash r)) then CASHashMismatch (cref_hash r) (H b)
                else if negb (N.eqb (lenN b) (cref_len r)) then CASLenMismatch (cref_len r) (lenN b)
                else CASOk
    end.

  Fixpoint cas_blobs (cas : list (N * bytes)) (rs : list cref) : cas_res :=
    match rs with
    | [] => CASOk
    | r :: rest => match cas_blob cas r with CASOk => cas_blobs cas rest | e => e end
    end.

  (* validate_wsc_cas_addressed_wal_export restricted to material: reference set = present records,
     then every segment blob, then every retained blob in canonical (kind, coordinate) order *)
  Definition cas_check (mats : list material) (segrefs retrefs : list cref) (cas : list (N * bytes)) : cas_res :=
    match canon key_cmp cref_cmp cref_key retrefs with
    | None => CASDuplicate
    | Some rs =>
        let expected := tset (map mat_triple (filter mat_present mats)) in
        let actual := tset (map cref_triple (map snd rs)) in
        if orb (negb (N.eqb (tdiff expected actual) 0)) (negb (N.eqb (tdiff actual expected) 0))
        then CASRefMismatch (tdiff expected actual) (tdiff actual expected)
        else match cas_blobs cas segrefs with
             | CASOk => cas_blobs cas (map snd rs)
             | e => e
             end
    end.
End ExportWithHash.

(* canonical_retained_material_records: one record per material digest, a different record for the same
   digest is a typed duplicate-mismatch obstruction (so one content under two coordinates is refused) *)
Definition retention_ok (mats : list material) : bool :=
  match canon N.compare mat_cmp mat_digest mats with Some _ => true | None => false end.

(* a concrete (weak) hash used only by the non-vacuity Example of Props/C20.v *)
Definition toy_hash (b : bytes) : N := fold_left (fun a x => (a * 257 + x + 1) mod 1000003) b 7.
