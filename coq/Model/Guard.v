(* Model of crates/warp-core/src/footprint_guard.rs (FootprintGuard, op_write_targets, check_op),
   the guarded accessors of graph_view.rs and execute_item_enforced of parallel/exec.rs.
   Definitions only.  Ops, attachment keys and the store are those of Model/Patch.v. *)
From Coq Require Import List NArith Bool.
From Echo Require Import Base.FinMap Model.Patch.
Import ListNotations.
Open Scope N_scope.

(* FootprintGuard: per-instance filtered sets *)
Record guard := {
  g_warp : N;
  g_nodes_read : list N; g_nodes_write : list N;
  g_edges_read : list N; g_edges_write : list N;
  g_atts_read : list akey; g_atts_write : list akey;
  g_system : bool
}.

Definition memN (x : N) (l : list N) : bool := existsb (N.eqb x) l.
Definition memK (k : akey) (l : list akey) : bool := existsb (akey_eqb k) l.

(* OpTargets *)
Record targets := {
  t_nodes : list N; t_edges : list N; t_atts : list akey;
  t_instance : bool; t_warp : N
}.

(* op_write_targets *)
Definition op_write_targets (o : op) : targets :=
  match o with
  | UpsertNode w n _ => {| t_nodes := [n]; t_edges := []; t_atts := []; t_instance := false; t_warp := w |}
  | DeleteNode w n => {| t_nodes := [n]; t_edges := []; t_atts := [node_alpha w n]; t_instance := false; t_warp := w |}
  | UpsertEdge w e from _ _ => {| t_nodes := [from]; t_edges := [e]; t_atts := []; t_instance := false; t_warp := w |}
  | DeleteEdge w from e => {| t_nodes := [from]; t_edges := [e]; t_atts := [edge_beta w e]; t_instance := false; t_warp := w |}
  | SetAtt k _ => {| t_nodes := []; t_edges := []; t_atts := [k]; t_instance := false; t_warp := ak_warp k |}
  | OpenPortal k _ _ _ => {| t_nodes := []; t_edges := []; t_atts := [k]; t_instance := true; t_warp := ak_warp k |}
  | UpsertWI w _ _ => {| t_nodes := []; t_edges := []; t_atts := []; t_instance := true; t_warp := w |}
  | DeleteWI w => {| t_nodes := []; t_edges := []; t_atts := []; t_instance := true; t_warp := w |}
  end.

Inductive violation :=
| NodeReadNotDeclared (n : N) | EdgeReadNotDeclared (e : N) | AttachmentReadNotDeclared (k : akey)
| NodeWriteNotDeclared (n : N) | EdgeWriteNotDeclared (e : N) | AttachmentWriteNotDeclared (k : akey)
| CrossWarpEmission (w : N) | UnauthorizedInstanceOp.

Definition first_missing {A} (mem : A -> bool) (l : list A) : option A := List.find (fun x => negb (mem x)) l.

(* FootprintGuard::check_op, in the order of the code *)
Definition check_op (g : guard) (o : op) : option violation :=
  let t := op_write_targets o in
  if t_instance t && negb (g_system g) then Some UnauthorizedInstanceOp
  else if negb (t_warp t =? g_warp g) then Some (CrossWarpEmission (t_warp t))
  else match first_missing (fun n => memN n (g_nodes_write g)) (t_nodes t) with
       | Some n => Some (NodeWriteNotDeclared n)
       | None =>
         match first_missing (fun e => memN e (g_edges_write g)) (t_edges t) with
         | Some e => Some (EdgeWriteNotDeclared e)
         | None =>
           match first_missing (fun k => memK k (g_atts_write g)) (t_atts t) with
           | Some k => Some (AttachmentWriteNotDeclared k)
           | None => None
           end
         end
       end.

(* guarded GraphView accessors: node / edges_from => node read; node_attachment / edge_attachment =>
   attachment read (alpha / beta plane of the view's instance); has_edge => edge read *)
Inductive access := ANode (n : N) | AAdj (n : N) | ANodeAtt (n : N) | AEdgeAtt (e : N) | AHasEdge (e : N).

Definition check_read (g : guard) (a : access) : option violation :=
  match a with
  | ANode n | AAdj n => if memN n (g_nodes_read g) then None else Some (NodeReadNotDeclared n)
  | ANodeAtt n => let k := node_alpha (g_warp g) n in
                  if memK k (g_atts_read g) then None else Some (AttachmentReadNotDeclared k)
  | AEdgeAtt e => let k := edge_beta (g_warp g) e in
                  if memK k (g_atts_read g) then None else Some (AttachmentReadNotDeclared k)
  | AHasEdge e => if memN e (g_edges_read g) then None else Some (EdgeReadNotDeclared e)
  end.

(* what an executor does, as a trace *)
Inductive event := Read (a : access) | Emit (o : op) | ExecPanic.

(* run the executor under the guarded view: stops at the first undeclared read or panic;
   returns the ops emitted so far and whether it stopped abnormally *)
Fixpoint run_exec (g : guard) (tr : list event) : list op * bool :=
  match tr with
  | [] => ([], false)
  | Read a :: r => match check_read g a with
                   | Some _ => ([], true)
                   | None => run_exec g r
                   end
  | Emit o :: r => let '(ops, stopped) := run_exec g r in (o :: ops, stopped)
  | ExecPanic :: _ => ([], true)
  end.

Inductive item_result := ItemOk (ops : list op) | ItemPoisoned.

(* execute_item_enforced: catch_unwind around the executor, then post-hoc check of every op
   emitted (also after a panic); any failure poisons the worker's delta *)
Definition execute_item_enforced (g : guard) (tr : list event) : item_result :=
  let '(ops, stopped) := run_exec g tr in
  if stopped then ItemPoisoned
  else if existsb (fun o => match check_op g o with Some _ => true | None => false end) ops
       then ItemPoisoned else ItemOk ops.

(* ---------- observable locations of one instance's store through GraphView ---------- *)

Inductive loc := LNode (n : N) | LEdge (e : N) | LNodeAtt (n : N) | LEdgeAtt (e : N).

(* node record + adjacency (edges_from) are observed under the node key *)
Definition adj (s : store) (n e : N) : option erec :=
  match nfind e (s_edges s) with
  | Some r => if e_from r =? n then Some r else None
  | None => None
  end.

Definition obs_eq (s s' : store) (l : loc) : Prop :=
  match l with
  | LNode n => nfind n (s_nodes s) = nfind n (s_nodes s') /\ forall e, adj s n e = adj s' n e
  | LEdge e => nmem e (s_edges s) = nmem e (s_edges s')
  | LNodeAtt n => nfind n (s_natt s) = nfind n (s_natt s')
  | LEdgeAtt e => nfind e (s_eatt s) = nfind e (s_eatt s')
  end.

(* the locations attributed to a (non-instance) op of instance w *)
Definition target_locs (o : op) : list loc :=
  let t := op_write_targets o in
  map LNode (t_nodes t) ++ map LEdge (t_edges t) ++
  map (fun k => if ak_edge k then LEdgeAtt (ak_id k) else LNodeAtt (ak_id k)) (t_atts t).

(* store-level effect of the skeleton/attachment ops on the store of their own instance *)
Definition store_apply (s : store) (o : op) : option store :=
  match o with
  | UpsertNode _ n ty => Some (insert_node s n ty)
  | DeleteNode _ n => match delete_node_isolated s n with DnOk s' => Some s' | _ => None end
  | UpsertEdge _ e from to ty => Some (upsert_edge s e (from, to, ty))
  | DeleteEdge _ from e => delete_edge_exact s from e
  | SetAtt k v =>
      if ak_edge k then Some (set_edge_att s (ak_id k) v) else Some (set_node_att s (ak_id k) v)
  | _ => None
  end.

(* an UpsertEdge that moves an existing edge to another source node *)
Definition reparents (s : store) (o : op) : bool :=
  match o with
  | UpsertEdge _ e from _ _ =>
      match nfind e (s_edges s) with Some r => negb (e_from r =? from) | None => false end
  | _ => false
  end.
