(* Model of the state-root computations of warp-core (C06).  Definitions only.

     crates/warp-core/src/graph.rs           GraphStore (nodes, edges_from buckets in insertion order,
                                             attachment planes) and its mutation API
     crates/warp-core/src/warp_state.rs      WarpState (stores + instance metadata)
     crates/warp-core/src/snapshot.rs        collect_reachable_graph, compute_state_root
     crates/warp-core/src/tick_patch.rs      apply_ops_to_state (validation + portal invariants)
     crates/warp-core/src/snapshot_accum.rs  SnapshotAccumulator: from_warp_state, apply_op,
                                             compute_reachability, compute_state_root

   Ids are N (32-byte big-endian values; [u8;32] Ord = numeric order).  BTreeMaps are strictly
   sorted association lists (Base.FinMap); BTreeSets are such maps with unit values.  Edge buckets
   are lists in insertion order, exactly as `Vec<EdgeRecord>` in `edges_from`.  The reverse indexes
   (edges_to, edge_index, edge_to_index) are not represented: they are derived data which the
   store keeps coherent; the model recomputes what they answer by scanning the buckets.
   The model emits hash *preimages* (the exact byte stream fed to the blake3 hasher). *)
From Coq Require Import List NArith Lia Bool Permutation.
From Echo Require Import Base.FinMap Base.Order Base.Bytes.
Import ListNotations.
Open Scope N_scope.

(* ------------------------------------------------------------------ *)
(* Data *)

Definition nkey := (N * N)%type.                 (* NodeKey / EdgeKey: (warp_id, local_id) *)
Definition nkey_cmp : nkey -> nkey -> comparison := pair_cmp N.compare N.compare.

Inductive att := Atom (ty : N) (bs : bytes) | Descend (w : N).

Record edge := mkEdge { e_id : N; e_from : N; e_to : N; e_ty : N }.

Record store := mkStore {
  st_nodes : list (N * N);              (* NodeId -> type id *)
  st_from : list (N * list edge);       (* from -> bucket (insertion order) *)
  st_natt : list (N * att);             (* node attachment plane *)
  st_eatt : list (N * att)              (* edge attachment plane *)
}.

Definition empty_store : store := mkStore [] [] [] [].

(* AttachmentKey: owner tag (1 node, 2 edge), plane tag (1 alpha, 2 beta), owner key *)
Record akey := mkAkey { ak_owner : N; ak_plane : N; ak_warp : N; ak_local : N }.

Record inst := mkInst { i_root : N; i_parent : option akey }.

Record state := mkState {
  s_stores : list (N * store);
  s_insts : list (N * inst)
}.

Definition empty_state : state := mkState [] [].

Definition is_some {A} (o : option A) : bool := match o with Some _ => true | None => false end.

Definition get_store (s : state) (w : N) : option store := find N.compare w (s_stores s).
Definition get_inst (s : state) (w : N) : option inst := find N.compare w (s_insts s).

Definition bucket_of (st : store) (from : N) : list edge :=
  match find N.compare from (st_from st) with Some b => b | None => [] end.

Definition all_edges (st : store) : list edge := flat_map snd (st_from st).

(* what `edge_index.get(id)` answers *)
Definition edge_owner (st : store) (id : N) : option N :=
  match List.find (fun e => e_id e =? id) (all_edges st) with
  | Some e => Some (e_from e)
  | None => None
  end.
Definition has_edge (st : store) (id : N) : bool :=
  match edge_owner st id with Some _ => true | None => false end.

(* ------------------------------------------------------------------ *)
(* GraphStore mutation API *)

(* drop every edge satisfying p, removing buckets that become empty *)
Definition drop_edges (p : edge -> bool) (m : list (N * list edge)) : list (N * list edge) :=
  flat_map (fun fb => match filter (fun e => negb (p e)) (snd fb) with
                      | [] => []
                      | b => [(fst fb, b)]
                      end) m.

Definition push_edge (from : N) (e : edge) (m : list (N * list edge)) : list (N * list edge) :=
  match find N.compare from m with
  | Some b => set N.compare from (b ++ [e]) m
  | None => set N.compare from [e] m
  end.

Definition insert_node (st : store) (id ty : N) : store :=
  mkStore (set N.compare id ty (st_nodes st)) (st_from st) (st_natt st) (st_eatt st).

(* upsert_edge_record: the previous record with this id (in whatever bucket) is removed, the new
   one is appended to its bucket; the edge attachment is retained. *)
Definition insert_edge (st : store) (e : edge) : store :=
  mkStore (st_nodes st)
          (push_edge (e_from e) e (drop_edges (fun x => e_id x =? e_id e) (st_from st)))
          (st_natt st) (st_eatt st).

Definition set_opt {V} (k : N) (v : option V) (m : list (N * V)) : list (N * V) :=
  match v with Some x => set N.compare k x m | None => del N.compare k m end.

Definition set_node_att (st : store) (id : N) (v : option att) : store :=
  mkStore (st_nodes st) (st_from st) (set_opt id v (st_natt st)) (st_eatt st).
Definition set_edge_att (st : store) (id : N) (v : option att) : store :=
  mkStore (st_nodes st) (st_from st) (st_natt st) (set_opt id v (st_eatt st)).

Definition del_keys {V} (ks : list N) (m : list (N * V)) : list (N * V) :=
  fold_left (fun m k => del N.compare k m) ks m.

Definition delete_node_cascade (st : store) (id : N) : store * bool :=
  match find N.compare id (st_nodes st) with
  | None => (st, false)
  | Some _ =>
      let gone := fun e => (e_from e =? id) || (e_to e =? id) in
      let removed := filter gone (all_edges st) in
      (mkStore (del N.compare id (st_nodes st))
               (drop_edges gone (st_from st))
               (del N.compare id (st_natt st))
               (del_keys (map e_id removed) (st_eatt st)), true)
  end.

Inductive del_node_res := DnOk | DnNotFound | DnOutgoing | DnIncoming.

Definition delete_node_isolated (st : store) (id : N) : store * del_node_res :=
  match find N.compare id (st_nodes st) with
  | None => (st, DnNotFound)
  | Some _ =>
      match bucket_of st id with
      | _ :: _ => (st, DnOutgoing)
      | [] =>
          if existsb (fun e => e_to e =? id) (all_edges st) then (st, DnIncoming)
          else (mkStore (del N.compare id (st_nodes st)) (del N.compare id (st_from st))
                        (del N.compare id (st_natt st)) (st_eatt st), DnOk)
      end
  end.

Definition delete_edge_exact (st : store) (from id : N) : store * bool :=
  match edge_owner st id with
  | Some f =>
      if f =? from then
        (mkStore (st_nodes st) (drop_edges (fun x => e_id x =? id) (st_from st))
                 (st_natt st) (del N.compare id (st_eatt st)), true)
      else (st, false)
  | None => (st, false)
  end.

(* ------------------------------------------------------------------ *)
(* WarpState / tick-patch ops *)

Definition put_store (s : state) (w : N) (st : store) : state :=
  mkState (set N.compare w st (s_stores s)) (s_insts s).

(* WarpState::upsert_instance after take_or_create_store *)
Definition upsert_instance (s : state) (w : N) (i : inst) : state :=
  let st := match get_store s w with Some st => st | None => empty_store end in
  mkState (set N.compare w st (s_stores s)) (set N.compare w i (s_insts s)).

Definition delete_instance (s : state) (w : N) : state :=
  mkState (del N.compare w (s_stores s)) (del N.compare w (s_insts s)).

Inductive pinit := PEmpty (ty : N) | PRequire.

Inductive wop :=
| OpenPortal (k : akey) (cw croot : N) (i : pinit)
| UpsertInst (w root : N) (p : option akey)
| DeleteInst (w : N)
| UpsertNode (w id ty : N)
| DeleteNode (w id : N)
| UpsertEdge (w : N) (e : edge)
| DeleteEdge (w from id : N)
| SetAtt (k : akey) (v : option att).

Inductive perr := EMissingWarp | EMissingNode | EMissingEdge | ENotIsolated | EInvalidKey
                | EPortalInit | EPortalInv.
Inductive res (A : Type) := Ok (a : A) | Err (e : perr).
Arguments Ok {A} a. Arguments Err {A} e.

Definition akey_eqb (a b : akey) : bool :=
  (ak_owner a =? ak_owner b) && (ak_plane a =? ak_plane b) &&
  (ak_warp a =? ak_warp b) && (ak_local a =? ak_local b).
Definition oakey_eqb (a b : option akey) : bool :=
  match a, b with
  | None, None => true
  | Some x, Some y => akey_eqb x y
  | _, _ => false
  end.

Definition node_alpha (w id : N) : akey := mkAkey 1 1 w id.
Definition edge_beta (w id : N) : akey := mkAkey 2 2 w id.

Definition plane_valid (k : akey) : bool :=
  ((ak_owner k =? 1) && (ak_plane k =? 1)) || ((ak_owner k =? 2) && (ak_plane k =? 2)).

(* validate_attachment_owner_exists *)
Definition owner_exists (s : state) (k : akey) : res N :=
  if negb (plane_valid k) then Err EInvalidKey else
  match get_store s (ak_warp k) with
  | None => Err EMissingWarp
  | Some st =>
      if ak_owner k =? 1 then
        match find N.compare (ak_local k) (st_nodes st) with
        | None => Err EMissingNode
        | Some _ => Ok (ak_warp k)
        end
      else if has_edge st (ak_local k) then Ok (ak_warp k) else Err EMissingEdge
  end.

(* attachment_value_for_key *)
Definition att_for_key (s : state) (k : akey) : option att :=
  match get_store s (ak_warp k) with
  | None => None
  | Some st => if ak_owner k =? 1 then find N.compare (ak_local k) (st_natt st)
               else find N.compare (ak_local k) (st_eatt st)
  end.

Definition set_att_raw (s : state) (k : akey) (v : option att) : state :=
  match get_store s (ak_warp k) with
  | None => s
  | Some st => put_store s (ak_warp k)
                 (if ak_owner k =? 1 then set_node_att st (ak_local k) v
                  else set_edge_att st (ak_local k) v)
  end.

Definition apply_set_attachment (s : state) (k : akey) (v : option att) : res state :=
  match owner_exists s k with
  | Err e => Err e
  | Ok _ => Ok (set_att_raw s k v)
  end.

Definition apply_open_portal (s : state) (k : akey) (cw croot : N) (pi : pinit) : res state :=
  match owner_exists s k with
  | Err e => Err e
  | Ok _ =>
      let finish (s' : state) := Ok (set_att_raw s' k (Some (Descend cw))) in
      match get_inst s cw with
      | Some ex =>
          if negb (oakey_eqb (i_parent ex) (Some k) && (i_root ex =? croot)) then Err EPortalInv else
          (* ensure_child_root *)
          match get_store s cw with
          | None => Err EMissingWarp
          | Some cst =>
              match pi, find N.compare croot (st_nodes cst) with
              | PEmpty ty, None => finish (put_store s cw (insert_node cst croot ty))
              | PEmpty ty, Some ty' => if ty' =? ty then finish s else Err EPortalInv
              | PRequire, None => Err EMissingNode
              | PRequire, Some _ => finish s
              end
          end
      | None =>
          match pi with
          | PEmpty ty =>
              finish (mkState (set N.compare cw (insert_node empty_store croot ty) (s_stores s))
                              (set N.compare cw (mkInst croot (Some k)) (s_insts s)))
          | PRequire => Err EPortalInit
          end
      end
  end.

Definition apply_op (s : state) (op : wop) : res state :=
  match op with
  | OpenPortal k cw croot pi => apply_open_portal s k cw croot pi
  | UpsertInst w root p => Ok (upsert_instance s w (mkInst root p))
  | DeleteInst w =>
      match get_inst s w with
      | None => Err EMissingWarp
      | Some _ => Ok (delete_instance s w)
      end
  | UpsertNode w id ty =>
      match get_store s w with
      | None => Err EMissingWarp
      | Some st => Ok (put_store s w (insert_node st id ty))
      end
  | DeleteNode w id =>
      match get_store s w with
      | None => Err EMissingWarp
      | Some st =>
          match delete_node_isolated st id with
          | (st', DnOk) => Ok (put_store s w st')
          | (_, DnNotFound) => Err EMissingNode
          | (_, _) => Err ENotIsolated
          end
      end
  | UpsertEdge w e =>
      match get_store s w with
      | None => Err EMissingWarp
      | Some st => Ok (put_store s w (insert_edge st e))
      end
  | DeleteEdge w from id =>
      match get_store s w with
      | None => Err EMissingWarp
      | Some st =>
          match delete_edge_exact st from id with
          | (st', true) => Ok (put_store s w st')
          | (_, false) => Err EMissingEdge
          end
      end
  | SetAtt k v => apply_set_attachment s k v
  end.

Definition is_descend (o : option att) : bool :=
  match o with Some (Descend _) => true | _ => false end.

(* warp_op_touches_portal_topology (evaluated on the state before the op) *)
Definition touches_portal (s : state) (op : wop) : bool :=
  match op with
  | OpenPortal _ _ _ _ | UpsertInst _ _ _ | DeleteInst _ => true
  | SetAtt k v => is_descend v || is_descend (att_for_key s k)
  | DeleteNode w id =>
      match get_store s w with
      | Some st => is_descend (find N.compare id (st_natt st))
      | None => false
      end
  | DeleteEdge w _ id =>
      match get_store s w with
      | Some st => is_descend (find N.compare id (st_eatt st))
      | None => false
      end
  | _ => false
  end.

Definition first_err (l : list (option perr)) : option perr :=
  fold_left (fun a x => match a with Some _ => a | None => x end) l None.

(* validate_descend_target *)
Definition descend_target_err (s : state) (k : akey) (cw : N) : option perr :=
  match get_inst s cw with
  | None => Some EPortalInv
  | Some ci =>
      if negb (oakey_eqb (i_parent ci) (Some k)) then Some EPortalInv
      else match get_store s cw with None => Some EPortalInv | Some _ => None end
  end.

(* validate_portal_invariants: first error in iteration order, or None *)
Definition portal_invariants_err (s : state) : option perr :=
  let orphan := map (fun wi =>
      match i_parent (snd wi) with
      | None => None
      | Some p =>
          match owner_exists s p with
          | Err e => Some e
          | Ok _ =>
              match att_for_key s p with
              | Some (Descend cw) => if cw =? fst wi then None else Some EPortalInv
              | _ => Some EPortalInv
              end
          end
      end) (s_insts s) in
  let dangling := flat_map (fun wst =>
      map (fun nv => match snd nv with
                     | Descend cw => descend_target_err s (node_alpha (fst wst) (fst nv)) cw
                     | _ => None end) (st_natt (snd wst)) ++
      map (fun ev => match snd ev with
                     | Descend cw => descend_target_err s (edge_beta (fst wst) (fst ev)) cw
                     | _ => None end) (st_eatt (snd wst))) (s_stores s) in
  first_err (orphan ++ dangling).

(* apply_ops_to_state: the state is mutated in place, so on error the partially updated state
   is what the caller is left with (second component). *)
Fixpoint apply_ops_go (s : state) (ops : list wop) (touch : bool) : option perr * state * bool :=
  match ops with
  | [] => (None, s, touch)
  | op :: r =>
      let t := touch || touches_portal s op in
      match apply_op s op with
      | Err e => (Some e, s, t)
      | Ok s' => apply_ops_go s' r t
      end
  end.

Definition apply_ops (s : state) (ops : list wop) : option perr * state :=
  match apply_ops_go s ops false with
  | (Some e, s', _) => (Some e, s')
  | (None, s', true) => (portal_invariants_err s', s')
  | (None, s', false) => (None, s')
  end.

(* Construction script: the public GraphStore API reached through `WarpState::store_mut`, plus
   instance creation (a one-op `apply_ops_to_state` whose invariant verdict is ignored). *)
Inductive sop :=
| SInst (w root : N) (p : option akey)
| SNode (w id ty : N)
| SEdge (w : N) (e : edge)
| SNatt (w id : N) (v : option att)
| SEatt (w id : N) (v : option att)
| SDelCascade (w id : N)
| SDelIso (w id : N)
| SDelEdge (w from id : N).

Definition with_store (s : state) (w : N) (f : store -> store) : state :=
  match get_store s w with Some st => put_store s w (f st) | None => s end.

Definition apply_sop (s : state) (o : sop) : state :=
  match o with
  | SInst w root p => upsert_instance s w (mkInst root p)
  | SNode w id ty => with_store s w (fun st => insert_node st id ty)
  | SEdge w e => with_store s w (fun st => insert_edge st e)
  | SNatt w id v => with_store s w (fun st => set_node_att st id v)
  | SEatt w id v => with_store s w (fun st => set_edge_att st id v)
  | SDelCascade w id => with_store s w (fun st => fst (delete_node_cascade st id))
  | SDelIso w id => with_store s w (fun st => fst (delete_node_isolated st id))
  | SDelEdge w from id => with_store s w (fun st => fst (delete_edge_exact st from id))
  end.

Definition build (l : list sop) : state := fold_left apply_sop l empty_state.

(* ------------------------------------------------------------------ *)
(* Reachability: queue-driven traversal shared by both implementations.

   Processing the node popped from the queue visits a list of items in a fixed order:
   `INode k`  = `if reachable_nodes.insert(k) { queue.push_back(k) }`
   `IWarp w`  = `reachable_warps.insert(w)`.                                             *)

Inductive item := INode (k : nkey) | IWarp (w : N).

Definition nset := list (nkey * unit).
Definition wset := list (N * unit).
Definition nmem (k : nkey) (m : nset) : bool := mem nkey_cmp k m.
Definition wmem (w : N) (m : wset) : bool := mem N.compare w m.

Definition bstate := (list nkey * nset * wset)%type.

Definition visit (a : bstate) (it : item) : bstate :=
  let '(q, rn, rw) := a in
  match it with
  | INode k => if nmem k rn then (q, rn, rw) else (q ++ [k], ins nkey_cmp k tt rn, rw)
  | IWarp w => (q, rn, ins N.compare w tt rw)
  end.

Fixpoint gbfs (step : nkey -> list item) (fuel : nat) (a : bstate) : bstate :=
  match fuel with
  | O => a
  | S f =>
      match a with
      | ([], _, _) => a
      | (cur :: q, rn, rw) => gbfs step f (fold_left visit (step cur) (q, rn, rw))
      end
  end.

Definition bfs_init (r : nkey) : bstate :=
  ([r], ins nkey_cmp r tt [], ins N.compare (fst r) tt []).

(* enqueue_descend *)
Definition descend_items (insts : list (N * inst)) (c : N) : list item :=
  IWarp c :: match find N.compare c insts with
             | Some i => [INode (c, i_root i)]
             | None => []
             end.
Definition att_items (insts : list (N * inst)) (o : option att) : list item :=
  match o with Some (Descend c) => descend_items insts c | _ => [] end.

(* body of the `while let Some(current) = queue.pop_front()` loop of collect_reachable_graph *)
Definition step_store (s : state) (cur : nkey) : list item :=
  match get_store s (fst cur) with
  | None => []
  | Some st =>
      flat_map (fun e => INode (fst cur, e_to e)
                         :: att_items (s_insts s) (find N.compare (e_id e) (st_eatt st)))
               (bucket_of st (snd cur))
      ++ att_items (s_insts s) (find N.compare (snd cur) (st_natt st))
  end.

Definition edge_count (s : state) : nat :=
  fold_right (fun wst n => (length (all_edges (snd wst)) + n)%nat) O (s_stores s).

(* every key that is ever enqueued is the root, an edge target or an instance root *)
Definition fuel_of (s : state) : nat := S (S (edge_count s + length (s_insts s))).

Definition reach (s : state) (r : nkey) : nset * wset :=
  let '(_, rn, rw) := gbfs (step_store s) (fuel_of s) (bfs_init r) in (rn, rw).

(* Specification of reachability, stated on the state alone (no queue, no visiting order):
   follow skeleton edges inside an instance; follow a `Descend` attachment of a reachable node or
   of an edge leaving a reachable node into the root node of the named instance. *)
Inductive Reach (s : state) (r : nkey) : nkey -> Prop :=
| R_root : Reach s r r
| R_edge k st e :
    Reach s r k -> get_store s (fst k) = Some st -> In e (bucket_of st (snd k)) ->
    Reach s r (fst k, e_to e)
| R_node_portal k st c i :
    Reach s r k -> get_store s (fst k) = Some st ->
    find N.compare (snd k) (st_natt st) = Some (Descend c) -> get_inst s c = Some i ->
    Reach s r (c, i_root i)
| R_edge_portal k st e c i :
    Reach s r k -> get_store s (fst k) = Some st -> In e (bucket_of st (snd k)) ->
    find N.compare (e_id e) (st_eatt st) = Some (Descend c) -> get_inst s c = Some i ->
    Reach s r (c, i_root i).

(* instances marked reachable (whether or not their metadata exists) *)
Inductive ReachW (s : state) (r : nkey) : N -> Prop :=
| RW_root : ReachW s r (fst r)
| RW_node k st c :
    Reach s r k -> get_store s (fst k) = Some st ->
    find N.compare (snd k) (st_natt st) = Some (Descend c) -> ReachW s r c
| RW_edge k st e c :
    Reach s r k -> get_store s (fst k) = Some st -> In e (bucket_of st (snd k)) ->
    find N.compare (e_id e) (st_eatt st) = Some (Descend c) -> ReachW s r c.

(* Invariants every GraphStore / WarpState operation keeps (boolean, so they can be evaluated):
   maps strictly sorted, no empty bucket, `edge.from` = bucket key, edge ids unique in a store,
   stores and instance metadata present together. *)
Fixpoint nodupb (l : list N) : bool :=
  match l with [] => true | x :: r => negb (existsb (N.eqb x) r) && nodupb r end.

Definition wf_store (st : store) : bool :=
  sortedb N.compare (st_nodes st) && sortedb N.compare (st_from st) &&
  sortedb N.compare (st_natt st) && sortedb N.compare (st_eatt st) &&
  forallb (fun fb => negb (match snd fb with [] => true | _ => false end) &&
                     forallb (fun e => e_from e =? fst fb) (snd fb)) (st_from st) &&
  nodupb (map e_id (all_edges st)).

Definition wf_state (s : state) : bool :=
  sortedb N.compare (s_stores s) && sortedb N.compare (s_insts s) &&
  forallb (fun wst => wf_store (snd wst)) (s_stores s) &&
  forallb (fun wi => is_some (get_store s (fst wi))) (s_insts s) &&
  forallb (fun wst => is_some (get_inst s (fst wst))) (s_stores s).

(* Two states agree on what is reachable from r in the first one: same records, attachments and
   instance metadata at every reachable key; the outgoing edges of a reachable node are the same
   *set* (any bucket order).  Nothing is required of unreachable nodes, edges, attachments or
   instances. *)
Definition opt_rel {A} (R : A -> A -> Prop) (a b : option A) : Prop :=
  match a, b with Some x, Some y => R x y | None, None => True | _, _ => False end.

Definition same_at (s1 s2 : state) (k : nkey) : Prop :=
  opt_rel (fun a b =>
    find N.compare (snd k) (st_nodes a) = find N.compare (snd k) (st_nodes b) /\
    find N.compare (snd k) (st_natt a) = find N.compare (snd k) (st_natt b) /\
    opt_rel (@Permutation edge) (find N.compare (snd k) (st_from a)) (find N.compare (snd k) (st_from b)) /\
    (forall e, In e (bucket_of a (snd k)) ->
               find N.compare (e_id e) (st_eatt a) = find N.compare (e_id e) (st_eatt b)))
    (get_store s1 (fst k)) (get_store s2 (fst k)).

Definition agree_on_reachable (s1 s2 : state) (r : nkey) : Prop :=
  (forall k, Reach s1 r k -> same_at s1 s2 k) /\
  (forall w, ReachW s1 r w ->
             get_inst s1 w = get_inst s2 w /\ is_some (get_store s1 w) = is_some (get_store s2 w)).

(* ------------------------------------------------------------------ *)
(* Byte encodings fed to the hasher *)

Definition id32 (x : N) : bytes := be_bytes 32 x.
Definition u64le (x : N) : bytes := le_bytes 8 x.

(* domain::STATE_ROOT_V1 = b"echo:state_root:v1\0" *)
Definition state_root_v1 : bytes :=
  [101; 99; 104; 111; 58; 115; 116; 97; 116; 101; 95; 114; 111; 111; 116; 58; 118; 49; 0].

Definition enc_att (a : att) : bytes :=
  match a with
  | Atom ty bs => [1] ++ id32 ty ++ u64le (lenN bs) ++ bs
  | Descend w => [2] ++ id32 w
  end.
Definition enc_oatt (o : option att) : bytes :=
  match o with None => [0] | Some a => [1] ++ enc_att a end.

Definition enc_akey (k : akey) : bytes :=
  [ak_owner k] ++ [ak_plane k] ++ id32 (ak_warp k) ++ id32 (ak_local k).
Definition enc_oakey (o : option akey) : bytes :=
  match o with None => [0] | Some k => [1] ++ enc_akey k end.

(* `sort_by(|a, b| a.id.cmp(&b.id))`: stable; insertion sort from the right is stable *)
Fixpoint insert_by {A} (key : A -> N) (x : A) (l : list A) : list A :=
  match l with
  | [] => [x]
  | y :: r => match N.compare (key x) (key y) with
              | Gt => y :: insert_by key x r
              | _ => x :: l
              end
  end.
Definition sort_by {A} (key : A -> N) (l : list A) : list A := fold_right (insert_by key) [] l.

Definition enc_edge (st : store) (e : edge) : bytes :=
  id32 (e_id e) ++ id32 (e_ty e) ++ id32 (e_to e) ++ enc_oatt (find N.compare (e_id e) (st_eatt st)).

Definition hash_nodes (st : store) (w : N) (rn : nset) : bytes :=
  flat_map (fun nt => if nmem (w, fst nt) rn
                      then id32 (fst nt) ++ id32 (snd nt) ++ enc_oatt (find N.compare (fst nt) (st_natt st))
                      else []) (st_nodes st).

Definition hash_buckets (st : store) (w : N) (rn : nset) : bytes :=
  flat_map (fun fb => if nmem (w, fst fb) rn
                      then let es := sort_by e_id (filter (fun e => nmem (w, e_to e) rn) (snd fb)) in
                           id32 (fst fb) ++ u64le (lenN es) ++ flat_map (enc_edge st) es
                      else []) (st_from st).

Definition hash_warp (s : state) (rn : nset) (w : N) : bytes :=
  match get_inst s w, get_store s w with
  | Some i, Some st =>
      id32 w ++ id32 (i_root i) ++ enc_oakey (i_parent i) ++ hash_nodes st w rn ++ hash_buckets st w rn
  | _, _ => []
  end.

(* compute_state_root (snapshot.rs): everything passed to hasher.update, in order *)
Definition root_preimage (s : state) (r : nkey) : bytes :=
  let '(rn, rw) := reach s r in
  state_root_v1 ++ id32 (fst r) ++ id32 (snd r) ++ flat_map (fun wu => hash_warp s rn (fst wu)) rw.

(* The state root under an arbitrary hash function (never axiomatised). *)
Definition Collision (H : bytes -> N) : Prop := exists x y, x <> y /\ H x = H y.
Definition state_root (H : bytes -> N) (s : state) (r : nkey) : N := H (root_preimage s r).

(* ------------------------------------------------------------------ *)
(* Reachable content: the abstract value the state root is meant to commit to.
   Sets are strictly sorted lists; each source node carries its outgoing edges sorted by id. *)

Definition cnode := (N * (N * option att))%type.                (* id, type, attachment *)
Definition cedge := (N * (N * (N * option att)))%type.          (* id, type, target, attachment *)
Definition cbucket := (N * list cedge)%type.                    (* source, edges *)
Record cwarp := mkCwarp {
  cw_id : N; cw_root : N; cw_parent : option akey;
  cw_nodes : list cnode; cw_buckets : list cbucket }.
Definition content := (nkey * list cwarp)%type.

Definition cedge_of (st : store) (e : edge) : cedge :=
  (e_id e, (e_ty e, (e_to e, find N.compare (e_id e) (st_eatt st)))).

Definition content_nodes (st : store) (w : N) (rn : nset) : list cnode :=
  flat_map (fun nt => if nmem (w, fst nt) rn
                      then [(fst nt, (snd nt, find N.compare (fst nt) (st_natt st)))] else [])
           (st_nodes st).

Definition content_buckets (st : store) (w : N) (rn : nset) : list cbucket :=
  flat_map (fun fb => if nmem (w, fst fb) rn
                      then [(fst fb, map (cedge_of st)
                                       (sort_by e_id (filter (fun e => nmem (w, e_to e) rn) (snd fb))))]
                      else []) (st_from st).

Definition content_warp (s : state) (rn : nset) (w : N) : list cwarp :=
  match get_inst s w, get_store s w with
  | Some i, Some st => [mkCwarp w (i_root i) (i_parent i) (content_nodes st w rn) (content_buckets st w rn)]
  | _, _ => []
  end.

Definition reach_content (s : state) (r : nkey) : content :=
  let '(rn, rw) := reach s r in
  (r, flat_map (fun wu => content_warp s rn (fst wu)) rw).

Definition enc_cnode (n : cnode) : bytes :=
  id32 (fst n) ++ id32 (fst (snd n)) ++ enc_oatt (snd (snd n)).
Definition enc_cedge (e : cedge) : bytes :=
  id32 (fst e) ++ id32 (fst (snd e)) ++ id32 (fst (snd (snd e))) ++ enc_oatt (snd (snd (snd e))).
Definition enc_cbucket (b : cbucket) : bytes :=
  id32 (fst b) ++ u64le (lenN (snd b)) ++ flat_map enc_cedge (snd b).
Definition enc_cwarp (c : cwarp) : bytes :=
  id32 (cw_id c) ++ id32 (cw_root c) ++ enc_oakey (cw_parent c) ++
  flat_map enc_cnode (cw_nodes c) ++ flat_map enc_cbucket (cw_buckets c).
Definition enc_content (c : content) : bytes :=
  state_root_v1 ++ id32 (fst (fst c)) ++ id32 (snd (fst c)) ++ flat_map enc_cwarp (snd c).

(* section counts: the only part of the content the byte stream does not delimit *)
Definition skeleton (c : content) : list (nat * nat) :=
  map (fun w => (length (cw_nodes w), length (cw_buckets w))) (snd c).

(* An unambiguous serialisation of the content (the documented stream plus section counts);
   used to compare contents between model and implementation, not hashed by the engine. *)
Definition canon_cwarp (c : cwarp) : bytes :=
  id32 (cw_id c) ++ id32 (cw_root c) ++ enc_oakey (cw_parent c) ++
  u64le (lenN (cw_nodes c)) ++ flat_map enc_cnode (cw_nodes c) ++
  u64le (lenN (cw_buckets c)) ++ flat_map enc_cbucket (cw_buckets c).
Definition canon_content (c : content) : bytes :=
  id32 (fst (fst c)) ++ id32 (snd (fst c)) ++ u64le (lenN (snd c)) ++ flat_map canon_cwarp (snd c).
Definition skeletonN (c : content) : list (N * N) :=
  map (fun w => (lenN (cw_nodes w), lenN (cw_buckets w))) (snd c).

(* ------------------------------------------------------------------ *)
(* SnapshotAccumulator *)

Definition akey_cmp (a b : akey) : comparison :=
  match N.compare (ak_owner a) (ak_owner b) with
  | Eq => match N.compare (ak_warp a) (ak_warp b) with
          | Eq => match N.compare (ak_local a) (ak_local b) with
                  | Eq => N.compare (ak_plane a) (ak_plane b)
                  | c => c end
          | c => c end
  | c => c
  end.

Record acc := mkAcc {
  a_insts : list (N * inst);
  a_nodes : list (nkey * N);            (* (warp, node id) -> type *)
  a_edges : list (nkey * edge);         (* (warp, edge id) -> record *)
  a_natt : list (akey * att);
  a_eatt : list (akey * att)
}.

(* from_warp_state: one BTreeMap::insert per element, stores in warp order *)
Definition from_state (s : state) : acc :=
  mkAcc
    (of_list_set N.compare (s_insts s))
    (of_list_set nkey_cmp
       (flat_map (fun wst => map (fun nt => ((fst wst, fst nt), snd nt)) (st_nodes (snd wst))) (s_stores s)))
    (of_list_set nkey_cmp
       (flat_map (fun wst => map (fun e => ((fst wst, e_id e), e)) (all_edges (snd wst))) (s_stores s)))
    (of_list_set akey_cmp
       (flat_map (fun wst => map (fun nv => (node_alpha (fst wst) (fst nv), snd nv)) (st_natt (snd wst))) (s_stores s)))
    (of_list_set akey_cmp
       (flat_map (fun wst => map (fun ev => (edge_beta (fst wst) (fst ev), snd ev)) (st_eatt (snd wst))) (s_stores s))).

Definition acc_set_att (a : acc) (k : akey) (v : option att) : acc :=
  if ak_owner k =? 1 then
    mkAcc (a_insts a) (a_nodes a) (a_edges a)
          (match v with Some x => set akey_cmp k x (a_natt a) | None => del akey_cmp k (a_natt a) end)
          (a_eatt a)
  else
    mkAcc (a_insts a) (a_nodes a) (a_edges a) (a_natt a)
          (match v with Some x => set akey_cmp k x (a_eatt a) | None => del akey_cmp k (a_eatt a) end).

(* apply_op; None = the Rust code panics (assert!/panic!) *)
Definition acc_apply_op (a : acc) (op : wop) : option acc :=
  match op with
  | OpenPortal k cw croot pi =>
      let owner := if ak_owner k =? 1 then mem nkey_cmp (ak_warp k, ak_local k) (a_nodes a)
                   else mem nkey_cmp (ak_warp k, ak_local k) (a_edges a) in
      if negb owner then None else
      match pi with
      | PEmpty ty =>
          Some (acc_set_att
                  (mkAcc (set N.compare cw (mkInst croot (Some k)) (a_insts a))
                         (set nkey_cmp (cw, croot) ty (a_nodes a))
                         (a_edges a) (a_natt a) (a_eatt a))
                  k (Some (Descend cw)))
      | PRequire =>
          match find N.compare cw (a_insts a) with
          | None => None
          | Some ex =>
              if oakey_eqb (i_parent ex) (Some k) && (i_root ex =? croot)
                 && mem nkey_cmp (cw, croot) (a_nodes a)
              then Some (acc_set_att a k (Some (Descend cw))) else None
          end
      end
  | UpsertInst w root p =>
      Some (mkAcc (set N.compare w (mkInst root p) (a_insts a)) (a_nodes a) (a_edges a) (a_natt a) (a_eatt a))
  | DeleteInst w =>
      Some (mkAcc (del N.compare w (a_insts a))
                  (filter (fun kv => negb (fst (fst kv) =? w)) (a_nodes a))
                  (filter (fun kv => negb (fst (fst kv) =? w)) (a_edges a))
                  (filter (fun kv => negb ((ak_owner (fst kv) =? 1) && (ak_warp (fst kv) =? w))) (a_natt a))
                  (filter (fun kv => negb ((ak_owner (fst kv) =? 2) && (ak_warp (fst kv) =? w))) (a_eatt a)))
  | UpsertNode w id ty =>
      Some (mkAcc (a_insts a) (set nkey_cmp (w, id) ty (a_nodes a)) (a_edges a) (a_natt a) (a_eatt a))
  | DeleteNode w id =>
      if existsb (fun kv => (fst (fst kv) =? w) && ((e_from (snd kv) =? id) || (e_to (snd kv) =? id))) (a_edges a)
      then None
      else Some (mkAcc (a_insts a) (del nkey_cmp (w, id) (a_nodes a)) (a_edges a)
                       (del akey_cmp (node_alpha w id) (a_natt a)) (a_eatt a))
  | UpsertEdge w e =>
      Some (mkAcc (a_insts a) (a_nodes a) (set nkey_cmp (w, e_id e) e (a_edges a)) (a_natt a) (a_eatt a))
  | DeleteEdge w _ id =>
      Some (mkAcc (a_insts a) (a_nodes a) (del nkey_cmp (w, id) (a_edges a)) (a_natt a)
                  (del akey_cmp (edge_beta w id) (a_eatt a)))
  | SetAtt k v => Some (acc_set_att a k v)
  end.

Fixpoint acc_apply (a : acc) (ops : list wop) : option acc :=
  match ops with
  | [] => Some a
  | op :: r => match acc_apply_op a op with Some a' => acc_apply a' r | None => None end
  end.

(* compute_reachability: adjacency index built from the edge table (edge-id order per source) *)
Definition step_acc (a : acc) (cur : nkey) : list item :=
  flat_map (fun kv => if (fst (fst kv) =? fst cur) && (e_from (snd kv) =? snd cur)
                      then INode (fst cur, e_to (snd kv))
                           :: att_items (a_insts a) (find akey_cmp (edge_beta (fst cur) (e_id (snd kv))) (a_eatt a))
                      else []) (a_edges a)
  ++ att_items (a_insts a) (find akey_cmp (node_alpha (fst cur) (snd cur)) (a_natt a)).

Definition acc_fuel (a : acc) : nat := S (S (length (a_edges a) + length (a_insts a))).

Definition acc_reach (a : acc) (r : nkey) : nset * wset :=
  let '(_, rn, rw) := gbfs (step_acc a) (acc_fuel a) (bfs_init r) in (rn, rw).

(* edges_by_source: BTreeMap<NodeId, Vec<&EdgeRowParts>> filled in table order *)
Definition group_by_source (es : list edge) : list (N * list edge) :=
  fold_left (fun m e => push_edge (e_from e) e m) es [].

Definition acc_enc_edge (a : acc) (w : N) (e : edge) : bytes :=
  id32 (e_id e) ++ id32 (e_ty e) ++ id32 (e_to e) ++ enc_oatt (find akey_cmp (edge_beta w (e_id e)) (a_eatt a)).

Definition acc_hash_warp (a : acc) (rn : nset) (w : N) : bytes :=
  match find N.compare w (a_insts a) with
  | None => []
  | Some i =>
      id32 w ++ id32 (i_root i) ++ enc_oakey (i_parent i) ++
      flat_map (fun kt => if (fst (fst kt) =? w) && nmem (fst kt) rn
                          then id32 (snd (fst kt)) ++ id32 (snd kt)
                               ++ enc_oatt (find akey_cmp (node_alpha w (snd (fst kt))) (a_natt a))
                          else []) (a_nodes a) ++
      flat_map (fun fb => let es := sort_by e_id (snd fb) in
                          id32 (fst fb) ++ u64le (lenN es) ++ flat_map (acc_enc_edge a w) es)
               (group_by_source
                  (flat_map (fun kv => if (fst (fst kv) =? w) && nmem (w, e_from (snd kv)) rn
                                          && nmem (w, e_to (snd kv)) rn
                                       then [snd kv] else []) (a_edges a)))
  end.

(* SnapshotAccumulator::compute_state_root: everything passed to hasher.update, in order.
   It starts with domain::STATE_ROOT_V1 like snapshot.rs (since the fix of DESIGN F2; before that
   fix the prefix was missing, i.e. acc_prefix = []). *)
Definition acc_prefix : bytes := state_root_v1.
Definition acc_root_body (a : acc) (r : nkey) : bytes :=
  let '(rn, rw) := acc_reach a r in
  id32 (fst r) ++ id32 (snd r) ++ flat_map (fun wu => acc_hash_warp a rn (fst wu)) rw.
Definition acc_root_preimage (a : acc) (r : nkey) : bytes := acc_prefix ++ acc_root_body a r.

(* ------------------------------------------------------------------ *)
(* Concrete witnesses used by the refutation theorems (and replayed on the real code). *)

Definition f3_w : N := 0x1111111111111111111111111111111111111111111111111111111111111111.
Definition f3_r : N := 0x2222222222222222222222222222222222222222222222222222222222222222.
(* node type whose first 8 bytes read as the little-endian count 1 *)
Definition f3_t1 : N := 0x0100000000000000000000000000000000000000000000000000000000000000.
Definition f3_aty : N := 0xa0a1a2a3a4a5a6a7a8a9aaabacadaeafb0b1b2b3b4b5b6b7b8b9babbbcbdbebf.
(* 31 payload bytes, the last one 0 (it is re-read as the "no attachment" tag of the edge) *)
Definition f3_atom : bytes :=
  [1;2;3;4;5;6;7;8;9;10;11;12;13;14;15;16;17;18;19;20;21;22;23;24;25;26;27;28;29;30;0].

(* State A: one reachable node record (root, type f3_t1) carrying the atom. *)
Definition f3_a : state :=
  build [SInst f3_w f3_r None; SNode f3_w f3_r f3_t1; SNatt f3_w f3_r (Some (Atom f3_aty f3_atom))].

(* The 97 bytes following the count in A's node record, re-read as (edge id, type, target, tag). *)
Definition f3_tail : bytes :=
  skipn 8 (id32 f3_t1) ++ [1; 1] ++ id32 f3_aty ++ u64le 31 ++ f3_atom.
Definition f3_eid : N := from_be (firstn 32 f3_tail).
Definition f3_ety : N := from_be (firstn 32 (skipn 32 f3_tail)).
Definition f3_eto : N := from_be (firstn 32 (skipn 64 f3_tail)).

(* State B: no node record at all, one bucket from the root key with a single edge. *)
Definition f3_b : state :=
  build [SInst f3_w f3_r None; SEdge f3_w (mkEdge f3_eid f3_r f3_eto f3_ety)].

Definition f3_root : nkey := (f3_w, f3_r).

(* A two-instance state (portal through an edge slot) and a second construction of the same
   reachable content: other bucket order, plus an unreachable node, an edge out of it, orphan
   attachments and an unreferenced instance. *)
Definition ex_s1 : state :=
  build [SInst 1 10 None; SInst 2 30 (Some (edge_beta 1 21));
         SNode 1 10 5; SNode 1 11 6; SNode 2 30 7;
         SEdge 1 (mkEdge 20 10 11 8); SEdge 1 (mkEdge 21 10 11 9);
         SEatt 1 21 (Some (Descend 2)); SNatt 1 11 (Some (Atom 4 [1; 2; 3]))].
Definition ex_s2 : state :=
  build [SInst 3 1 None; SInst 2 30 (Some (edge_beta 1 21)); SInst 1 10 None;
         SNode 1 99 1; SNode 2 30 7; SNode 1 11 6; SNode 1 10 5;
         SEdge 1 (mkEdge 21 10 11 9); SEdge 1 (mkEdge 50 99 10 3); SEdge 1 (mkEdge 20 10 11 8);
         SNatt 1 77 (Some (Atom 1 [])); SEatt 1 66 (Some (Descend 3));
         SNatt 1 11 (Some (Atom 4 [1; 2; 3])); SEatt 1 21 (Some (Descend 2))].
Definition ex_root : nkey := (1, 10).

(* smallest state on which the two state-root implementations are compared *)
Definition f2_s : state := build [SInst 7 9 None; SNode 7 9 5].
Definition f2_root : nkey := (7, 9).

(* ------------------------------------------------------------------ *)
(* What the harness observes for one case (evaluated by vm_compute in the correspondence). *)

(* a reachable warp without instance metadata/store: `debug_assert!(false, ...)` in snapshot.rs *)
Definition dangling (s : state) (r : nkey) : bool :=
  existsb (fun wu => negb (is_some (get_inst s (fst wu)) && is_some (get_store s (fst wu))))
          (snd (reach s r)).

Definition flagN (b : bool) : N := if b then 1 else 0.

(* root key = (root warp, its instance's root node), as Engine::with_state requires *)
Definition observe (s : state) (rw : N) :=
  match get_inst s rw with
  | None => None
  | Some i =>
      let r := (rw, i_root i) in
      Some ((flagN (dangling s r), flagN (is_some (i_parent i)), flagN (wf_state s)),
            (root_preimage s r,
             (acc_root_preimage (from_state s) r,
              (canon_content (reach_content s r), skeletonN (reach_content s r)))))
  end.

Definition observe_ops (s : state) (rw : N) (ops : list wop) :=
  let '(e, s') := apply_ops s ops in
  (e,
   match e with
   | Some _ => None
   | None =>
       match get_inst s' rw with
       | None => None
       | Some i =>
           let r := (rw, i_root i) in
           Some ((flagN (dangling s' r), flagN (is_some (i_parent i)), flagN (wf_state s')),
                 (root_preimage s' r,
                  (match acc_apply (from_state s) ops with
                   | Some a => Some (acc_root_preimage a r)
                   | None => None
                   end,
                   canon_content (reach_content s' r))))
       end
   end).
