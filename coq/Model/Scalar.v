(* C19 MODEL (definitions only): deterministic math of crates/warp-math and the float
   helpers of crates/echo-wasm-abi/src/codec.rs.

   An f32 is its 32-bit pattern (N below 2^32).  Part 1 is pure bit algebra
   (F32Scalar::new, neg, abs, canonicalize_zero) and does not mention Flocq.
   Part 2 is the code of trig.rs / scalar.rs / vec3.rs / quat.rs / mat4.rs written
   over a record of float primitives, so that the symmetry and closure theorems
   hold for ANY rounding behaviour of the hardware.  Part 3 instantiates the
   primitives with Flocq's IEEE-754 binary32 (round to nearest even) so that model
   and implementation can be compared bit for bit.  Part 4 is Q32.32 fixed point
   (fixed_q32_32.rs, DFix64 in scalar.rs, fx_from_f32 in codec.rs) in Z with
   explicit saturation.  Part 5 is the xoroshiro128+ PRNG (prng.rs) in N mod 2^64. *)
From Coq Require Import NArith ZArith List Bool.
From Flocq Require Import Core IEEE754.BinarySingleNaN IEEE754.Binary IEEE754.Bits.
From Echo Require Import Model.TrigTable.
Import ListNotations.
Open Scope N_scope.

(* ------------------------------------------------------------------ Part 1: bit patterns *)

Definition TWO31 : N := 0x80000000.
Definition TWO32 : N := 0x100000000.
Definition TWO23 : N := 0x800000.

Definition sign_of (b : N) : bool := TWO31 <=? b.          (* f32::is_sign_negative, b < 2^32 *)
Definition expo (b : N) : N := (b / TWO23) mod 256.
Definition mant (b : N) : N := b mod TWO23.

Definition is_nan (b : N) : bool := (expo b =? 255) && negb (mant b =? 0).
Definition is_inf (b : N) : bool := (expo b =? 255) && (mant b =? 0).
Definition is_finite (b : N) : bool := negb (expo b =? 255).
Definition is_subnormal (b : N) : bool := (expo b =? 0) && negb (mant b =? 0).

Definition CANON_NAN : N := 0x7fc00000.
Definition NEG_ZERO : N := 0x80000000.
Definition ONE : N := 0x3f800000.

(* `num + 0.0` for a non-NaN num under round-to-nearest: -0 + +0 = +0, everything else unchanged. *)
Definition add_pos_zero (b : N) : N := if b =? NEG_ZERO then 0 else b.

(* scalar.rs: F32Scalar::new *)
Definition new (b : N) : N :=
  if is_nan b then CANON_NAN
  else if is_subnormal b then 0
  else add_pos_zero b.

(* codec.rs: canonicalize_f32 (a second copy of the same policy in another crate) *)
Definition codec_canonicalize_f32 (v : N) : N :=
  if is_nan v then 0x7fc00000
  else if is_subnormal v then 0
  else add_pos_zero v.

(* "never -0, never subnormal, NaN only as 0x7fc00000" *)
Definition canonical (b : N) : Prop :=
  b < TWO32 /\ b <> NEG_ZERO /\ is_subnormal b = false /\ (is_nan b = true -> b = CANON_NAN).

Definition canonicalb (b : N) : bool :=
  (b <? TWO32) && negb (b =? NEG_ZERO) && negb (is_subnormal b) && (negb (is_nan b) || (b =? CANON_NAN)).

(* unary minus and abs of f32 are sign-bit operations *)
Definition fneg (b : N) : N := if TWO31 <=? b then b - TWO31 else b + TWO31.
Definition fabs (b : N) : N := if TWO31 <=? b then b - TWO31 else b.

(* `value == 0.0` is true for +0 and -0 only *)
Definition is_zero (b : N) : bool := (b =? 0) || (b =? NEG_ZERO).
(* trig.rs: canonicalize_zero *)
Definition czero (b : N) : N := if is_zero b then 0 else b.

(* ------------------------------------------------------------------ Part 2: code over float primitives *)

Record prims := {
  p_add : N -> N -> N;
  p_sub : N -> N -> N;
  p_mul : N -> N -> N;
  p_div : N -> N -> N;
  p_sqrt : N -> N;            (* libm::sqrtf *)
  p_lt : N -> N -> bool;      (* <  *)
  p_le : N -> N -> bool;      (* <= *)
  p_rem : N -> N -> N;        (* f32::rem_euclid *)
  p_truncf : N -> N;          (* f32::trunc *)
  p_idx : N -> N              (* `t as usize` *)
}.

(* every primitive returns a 32-bit pattern *)
Definition prims_wf (P : prims) : Prop :=
  (forall a b, p_add P a b < TWO32) /\ (forall a b, p_sub P a b < TWO32) /\
  (forall a b, p_mul P a b < TWO32) /\ (forall a b, p_div P a b < TWO32) /\
  (forall a, p_sqrt P a < TWO32) /\ (forall a b, p_rem P a b < TWO32) /\ (forall a, p_truncf P a < TWO32).

Definition FRAC_PI_2 : N := 0x3fc90fdb.
Definition PI : N := 0x40490fdb.
Definition TAU : N := 0x40c90fdb.
Definition THREE : N := 0x40400000.
Definition TWO : N := 0x40000000.
Definition HALF : N := 0x3f000000.
Definition EPSILON : N := 0x358637bd.      (* 1e-6_f32 *)

Definition lut (i : N) : N := nth (N.to_nat i) SIN_QTR_LUT_BITS 0.

Section WithPrims.
Variable P : prims.

Definition FRAC_3PI_2 : N := p_mul P THREE FRAC_PI_2.       (* const FRAC_3PI_2: f32 = 3.0 * FRAC_PI_2 *)

(* trig.rs: sin_qtr_interp *)
Definition sin_qtr_interp (a : N) : N :=
  if negb (p_le P 0 a && p_le P a FRAC_PI_2) then 0
  else
    let t := p_div P (p_mul P a SIN_QTR_SEGMENTS_F32) FRAC_PI_2 in
    if p_le P SIN_QTR_SEGMENTS_F32 t then ONE
    else
      let i0 := p_idx P t in
      let frac := p_sub P t (p_truncf P t) in
      let y0 := lut i0 in
      let y1 := lut (i0 + 1) in
      p_add P y0 (p_mul P frac (p_sub P y1 y0)).

(* trig.rs: sin_cos_f32 (release semantics: the debug_assert tripwire on a non-finite angle is a panic
   in debug builds, documented by the crate's own tests) *)
Definition sin_cos (angle : N) : N * N :=
  if negb (is_finite angle) then (0, ONE)
  else
    let sign_sin := sign_of angle in
    let r := p_rem P (fabs angle) TAU in
    let '(quadrant, a) :=
      if p_lt P r FRAC_PI_2 then (0, r)
      else if p_lt P r PI then (1, p_sub P r FRAC_PI_2)
      else if p_lt P r FRAC_3PI_2 then (2, p_sub P r PI)
      else (3, p_sub P r FRAC_3PI_2) in
    let s := sin_qtr_interp a in
    let c := sin_qtr_interp (p_sub P FRAC_PI_2 a) in
    let '(s1, c1) :=
      match quadrant with
      | 0 => (s, c)
      | 1 => (c, fneg s)
      | 2 => (fneg s, fneg c)
      | _ => (fneg c, s)
      end in
    let s2 := if sign_sin then fneg s1 else s1 in
    (czero s2, czero c1).

(* scalar.rs: operator impls and Scalar for F32Scalar; arguments are the wrapped (canonical) values *)
Definition s_add (a b : N) : N := new (p_add P a b).
Definition s_sub (a b : N) : N := new (p_sub P a b).
Definition s_mul (a b : N) : N := new (p_mul P a b).
Definition s_div (a b : N) : N := new (p_div P a b).
Definition s_neg (a : N) : N := new (fneg a).
Definition s_sin (a : N) : N := new (fst (sin_cos a)).
Definition s_cos (a : N) : N := new (snd (sin_cos a)).
Definition s_sin_cos (a : N) : N * N := let sc := sin_cos a in (new (fst sc), new (snd sc)).

(* lib.rs: det_sqrt_f32 *)
Definition det_sqrt (v : N) : N :=
  if negb (is_finite v) || p_le P v 0 then 0 else p_sqrt P v.

(* ---- vec3.rs (raw f32 components, no canonicalisation) *)
Definition vec3 := (N * N * N)%type.
Definition v_add (a b : vec3) : vec3 :=
  let '(ax, ay, az) := a in let '(bx, by_, bz) := b in (p_add P ax bx, p_add P ay by_, p_add P az bz).
Definition v_sub (a b : vec3) : vec3 :=
  let '(ax, ay, az) := a in let '(bx, by_, bz) := b in (p_sub P ax bx, p_sub P ay by_, p_sub P az bz).
Definition v_scale (a : vec3) (k : N) : vec3 :=
  let '(ax, ay, az) := a in (p_mul P ax k, p_mul P ay k, p_mul P az k).
Definition v_dot (a b : vec3) : N :=
  let '(ax, ay, az) := a in let '(bx, by_, bz) := b in
  p_add P (p_add P (p_mul P ax bx) (p_mul P ay by_)) (p_mul P az bz).
Definition v_cross (a b : vec3) : vec3 :=
  let '(ax, ay, az) := a in let '(bx, by_, bz) := b in
  (p_sub P (p_mul P ay bz) (p_mul P az by_),
   p_sub P (p_mul P az bx) (p_mul P ax bz),
   p_sub P (p_mul P ax by_) (p_mul P ay bx)).
Definition v_length (a : vec3) : N := det_sqrt (v_dot a a).
Definition v_normalize (a : vec3) : vec3 :=
  let len := v_length a in
  if p_le P len EPSILON then (0, 0, 0) else v_scale a (p_div P ONE len).

(* ---- quat.rs *)
Definition quat := (N * N * N * N)%type.
Definition q_identity : quat := (0, 0, 0, ONE).
Definition q_multiply (a b : quat) : quat :=
  let '(ax, ay, az, aw) := a in let '(bx, by_, bz, bw) := b in
  let m := p_mul P in let pl := p_add P in let mi := p_sub P in
  (mi (pl (pl (m aw bx) (m ax bw)) (m ay bz)) (m az by_),
   pl (pl (mi (m aw by_) (m ax bz)) (m ay bw)) (m az bx),
   pl (mi (pl (m aw bz) (m ax by_)) (m ay bx)) (m az bw),
   mi (mi (mi (m aw bw) (m ax bx)) (m ay by_)) (m az bz)).
Definition q_normalize (q : quat) : quat :=
  let '(x, y, z, w) := q in
  let m := p_mul P in let pl := p_add P in
  let len := det_sqrt (pl (pl (pl (m x x) (m y y)) (m z z)) (m w w)) in
  if p_le P len EPSILON then q_identity
  else let inv := p_div P ONE len in (m x inv, m y inv, m z inv, m w inv).
(* f32::max (maxNum): the other operand when one is NaN *)
Definition fmax (a b : N) : N :=
  if is_nan a then b else if is_nan b then a else if p_lt P a b then b else a.

(* from_axis_angle after the squared length has been measured (this part is unchanged by the overflow repair) *)
Definition q_axis_tail (axis : vec3) (len_sq angle : N) : quat :=
  if p_le P len_sq (p_mul P EPSILON EPSILON) then q_identity
  else
    let len := det_sqrt len_sq in
    let norm_axis := v_scale axis (p_div P ONE len) in
    let half := p_mul P angle HALF in
    let '(sin_half, cos_half) := sin_cos half in
    let '(sx, sy, sz) := v_scale norm_axis sin_half in
    (sx, sy, sz, cos_half).

(* quat.rs BEFORE the overflow repair; kept only as the regression reference for the old finding *)
Definition q_from_axis_angle_v0 (axis : vec3) (angle : N) : quat :=
  q_axis_tail axis (v_dot axis axis) angle.

(* `if len_sq.is_infinite() { m = max |component|; if m.is_finite() { axis = axis / m; len_sq = |axis|^2 } }` *)
Definition q_rescale (axis : vec3) : vec3 * N :=
  let len_sq := v_dot axis axis in
  if is_inf len_sq then
    let '(x, y, z) := axis in
    let m := fmax (fmax (fabs x) (fabs y)) (fabs z) in
    if is_finite m then
      let a := (p_div P x m, p_div P y m, p_div P z m) in (a, v_dot a a)
    else (axis, len_sq)
  else (axis, len_sq).

(* quat.rs: from_axis_angle *)
Definition q_from_axis_angle (axis : vec3) (angle : N) : quat :=
  let '(a, len_sq) := q_rescale axis in q_axis_tail a len_sq angle.

(* ---- mat4.rs: column-major list of 16 *)
Definition q_to_mat4 (q0 : quat) : list N :=
  let '(x, y, z, w) := q_normalize q0 in
  let m := p_mul P in let pl := p_add P in let mi := p_sub P in
  let xx := m x x in let yy := m y y in let zz := m z z in
  let xy := m x y in let xz := m x z in let yz := m y z in
  let wx := m w x in let wy := m w y in let wz := m w z in
  [ mi ONE (m TWO (pl yy zz)); m TWO (pl xy wz); m TWO (mi xz wy); 0;
    m TWO (mi xy wz); mi ONE (m TWO (pl xx zz)); m TWO (pl yz wx); 0;
    m TWO (pl xz wy); m TWO (mi yz wx); mi ONE (m TWO (pl xx yy)); 0;
    0; 0; 0; ONE ].

Definition m_at (a : list N) (row col : nat) : N := nth (col * 4 + row) a 0.
Definition m_entry (a b : list N) (row col : nat) : N :=
  fold_left (fun sum k => p_add P sum (p_mul P (m_at a row k) (m_at b k col))) [0; 1; 2; 3]%nat 0.
Definition m_multiply (a b : list N) : list N :=
  flat_map (fun col => map (fun row => m_entry a b row col) [0; 1; 2; 3]%nat) [0; 1; 2; 3]%nat.
Definition m_rotation_x (angle : N) : list N :=
  let '(s, c) := sin_cos angle in let ns := czero (fneg s) in
  [ONE; 0; 0; 0; 0; c; s; 0; 0; ns; c; 0; 0; 0; 0; ONE].
Definition m_rotation_y (angle : N) : list N :=
  let '(s, c) := sin_cos angle in let ns := czero (fneg s) in
  [c; 0; ns; 0; 0; ONE; 0; 0; s; 0; c; 0; 0; 0; 0; ONE].
Definition m_rotation_z (angle : N) : list N :=
  let '(s, c) := sin_cos angle in let ns := czero (fneg s) in
  [c; s; 0; 0; ns; c; 0; 0; 0; 0; ONE; 0; 0; 0; 0; ONE].
Definition m_rotation_from_euler (yaw pitch roll : N) : list N :=
  m_multiply (m_multiply (m_rotation_y yaw) (m_rotation_x pitch)) (m_rotation_z roll).
Definition m_transform_point (a : list N) (p : vec3) : vec3 :=
  let '(x, y, z) := p in
  let m := p_mul P in let pl := p_add P in
  let rowv r := pl (pl (pl (m (m_at a r 0) x) (m (m_at a r 1) y)) (m (m_at a r 2) z)) (m (m_at a r 3) ONE) in
  (rowv 0%nat, rowv 1%nat, rowv 2%nat).
Definition m_transform_direction (a : list N) (p : vec3) : vec3 :=
  let '(x, y, z) := p in
  let m := p_mul P in let pl := p_add P in
  let rowv r := pl (pl (m (m_at a r 0) x) (m (m_at a r 1) y)) (m (m_at a r 2) z) in
  (rowv 0%nat, rowv 1%nat, rowv 2%nat).

End WithPrims.

(* ------------------------------------------------------------------ Part 3: Flocq binary32 primitives *)

Definition Hp24 : Prec_gt_0 24 := eq_refl.
Definition Hpe24 : Prec_lt_emax 24 128 := eq_refl.

Definition b32 (n : N) : binary32 := b32_of_bits (Z.of_N n).
Definition bits32 (f : binary32) : N := Z.to_N (bits_of_b32 f).

Definition f_add (a b : N) : N := bits32 (b32_plus mode_NE (b32 a) (b32 b)).
Definition f_sub (a b : N) : N := bits32 (b32_minus mode_NE (b32 a) (b32 b)).
Definition f_mul (a b : N) : N := bits32 (b32_mult mode_NE (b32 a) (b32 b)).
Definition f_div (a b : N) : N := bits32 (b32_div mode_NE (b32 a) (b32 b)).
Definition f_sqrt (a : N) : N := bits32 (b32_sqrt mode_NE (b32 a)).
Definition f_lt (a b : N) : bool :=
  match b32_compare (b32 a) (b32 b) with Some Lt => true | _ => false end.
Definition f_le (a b : N) : bool :=
  match b32_compare (b32 a) (b32 b) with Some Lt | Some Eq => true | _ => false end.

Definition of_Z32 (m e : Z) (szero : bool) : N :=
  bits32 (binary_normalize 24 128 Hp24 Hpe24 mode_NE m e szero).

(* `%` on f32 (fmod): exact remainder with the sign of the dividend.  Computed on the integer
   significands brought to a common exponent; the result is representable so the final
   normalisation does not round. *)
Definition f_fmod (a b : N) : N :=
  match b32 a, b32 b with
  | B754_finite _ _ sx mx ex _, B754_finite _ _ _ my ey _ =>
      let e := Z.min ex ey in
      let X := (Z.pos mx * 2 ^ (ex - e))%Z in
      let Y := (Z.pos my * 2 ^ (ey - e))%Z in
      let R := (X mod Y)%Z in
      of_Z32 (if sx then - R else R)%Z e sx
  | B754_zero _ _ _, B754_finite _ _ _ _ _ _ => bits32 (b32 a)      (* = a for a 32-bit pattern *)
  | B754_zero _ _ _, B754_infinity _ _ _ => bits32 (b32 a)
  | B754_finite _ _ _ _ _ _, B754_infinity _ _ _ => bits32 (b32 a)
  | _, _ => CANON_NAN
  end.

(* f32::rem_euclid: let r = self % rhs; if r < 0.0 { r + rhs.abs() } else { r } *)
Definition f_rem_euclid (a b : N) : N :=
  let r := f_fmod a b in
  if f_lt r 0 then f_add r (fabs b) else r.

(* f32::trunc *)
Definition f_truncf (a : N) : N :=
  match b32 a with
  | B754_finite _ _ s m e _ =>
      if (0 <=? e)%Z then bits32 (b32 a) else of_Z32 (Btrunc 24 128 (b32 a)) 0 s
  | _ => bits32 (b32 a)          (* = a for a 32-bit pattern *)
  end.

(* `t as usize` (saturating float-to-int cast, NaN -> 0) *)
Definition f_idx (a : N) : N :=
  match b32 a with
  | B754_finite _ _ s m e _ => N.min (Z.to_N (Btrunc 24 128 (b32 a))) 0xffffffffffffffff
  | B754_infinity _ _ false => 0xffffffffffffffff
  | _ => 0
  end.

Definition flocq_prims : prims :=
  {| p_add := f_add; p_sub := f_sub; p_mul := f_mul; p_div := f_div; p_sqrt := f_sqrt;
     p_lt := f_lt; p_le := f_le; p_rem := f_rem_euclid; p_truncf := f_truncf; p_idx := f_idx |}.

(* F32Scalar::new as the code literally computes it (`num + 0.0` through the adder) *)
Definition new_via_adder (b : N) : N :=
  if is_nan b then CANON_NAN else if is_subnormal b then 0 else f_add b 0.

(* ------------------------------------------------------------------ Part 4: Q32.32 fixed point *)

Open Scope Z_scope.

Definition I64_MAX : Z := 0x7fffffffffffffff.
Definition I64_MIN : Z := - 0x8000000000000000.
Definition I128_MAX : Z := 2 ^ 127 - 1.

Definition in_i64 (z : Z) : Prop := I64_MIN <= z <= I64_MAX.

(* saturate_i128_to_i64 *)
Definition sat64 (v : Z) : Z := if v <? I64_MIN then I64_MIN else if I64_MAX <? v then I64_MAX else v.

(* round_shift_right_u64 / _u128 (width = 64 / 128): round to nearest, ties to even *)
Definition round_shift_right (width value shift : Z) : Z :=
  if shift =? 0 then value
  else if width <=? shift then 0
  else
    let q := value / 2 ^ shift in
    let r := value mod 2 ^ shift in
    let half := 2 ^ (shift - 1) in
    if half <? r then q + 1
    else if r <? half then q
    else if Z.odd q then q + 1 else q.

(* fixed_q32_32.rs: from_f32 *)
Definition fx_from_f32 (b : N) : Z :=
  if is_nan b then 0
  else if is_inf b then (if sign_of b then I64_MIN else I64_MAX)
  else
    let e := Z.of_N (expo b) in
    let m := Z.of_N (mant b) in
    if (e =? 0) && (m =? 0) then 0
    else
      let mantissa := if e =? 0 then m else 2 ^ 23 + m in
      let unbiased := if e =? 0 then -126 else e - 127 in
      let shift := unbiased + (32 - 23) in
      let abs_raw :=
        if 0 <=? shift then (if 103 <? shift then I128_MAX else mantissa * 2 ^ shift)
        else round_shift_right 64 mantissa (- shift) in
      sat64 (if sign_of b then - abs_raw else abs_raw).

(* fixed_q32_32.rs: to_f32 *)
Definition fx_to_f32 (raw : Z) : N :=
  if raw =? 0 then 0%N
  else
    let sign := raw <? 0 in
    let abs := Z.abs raw in
    let k := Z.log2 abs in
    let exp := k - 32 in
    let sig := if 23 <? k then round_shift_right 128 abs (k - 23) else abs * 2 ^ (23 - k) in
    let '(sig, exp) := if 2 ^ 24 <=? sig then (sig / 2, exp + 1) else (sig, exp) in
    let exp_field := exp + 127 in
    Z.to_N ((if sign then 2 ^ 31 else 0) + exp_field * 2 ^ 23 + sig mod 2 ^ 23).

(* scalar.rs: DFix64 raw operations *)
Definition dfix_add (a b : Z) : Z := sat64 (a + b).
Definition dfix_sub (a b : Z) : Z := sat64 (a - b).
Definition dfix_neg (a : Z) : Z := if a =? I64_MIN then I64_MAX else - a.

Definition round_half_even_div (q r den : Z) : Z :=     (* q, r = quotient/remainder of magnitudes *)
  if (den <? 2 * r) || ((2 * r =? den) && Z.odd q) then q + 1 else q.

Definition dfix_mul (a b : Z) : Z :=
  let prod := a * b in
  let abs := Z.abs prod in
  let q := abs / 2 ^ 32 in
  let r := abs mod 2 ^ 32 in
  let half := 2 ^ 31 in
  let rounded := if (half <? r) || ((r =? half) && Z.odd q) then q + 1 else q in
  let rounded := Z.min rounded I128_MAX in
  sat64 (if prod <? 0 then - rounded else rounded).

Definition dfix_div (a b : Z) : Z :=
  if b =? 0 then (if a =? 0 then 0 else if a <? 0 then I64_MIN else I64_MAX)
  else
    let abs_num := Z.abs (a * 2 ^ 32) in
    let abs_den := Z.abs b in
    let q := abs_num / abs_den in
    let r := abs_num mod abs_den in
    let rounded := round_half_even_div q r abs_den in
    let rounded := Z.min rounded I128_MAX in
    sat64 (if xorb (a <? 0) (b <? 0) then - rounded else rounded).

Definition dfix_from_f32 (b : N) : Z := fx_from_f32 b.
Definition dfix_to_f32 (raw : Z) : N := fx_to_f32 raw.
Definition dfix_sin (raw : Z) : Z := fx_from_f32 (fst (sin_cos flocq_prims (fx_to_f32 raw))).
Definition dfix_cos (raw : Z) : Z := fx_from_f32 (snd (sin_cos flocq_prims (fx_to_f32 raw))).

(* codec.rs: fx_from_f32 — f64::from(value) * 2^32 is exact; `.trunc() as i64` truncates toward zero
   and saturates; NaN -> 0 *)
Definition codec_fx_from_f32 (b : N) : Z :=
  if is_nan b then 0
  else if is_inf b then (if sign_of b then I64_MIN else I64_MAX)
  else
    let e := Z.of_N (expo b) in
    let m := Z.of_N (mant b) in
    let mantissa := if e =? 0 then m else 2 ^ 23 + m in
    let unbiased := if e =? 0 then -126 else e - 127 in
    let shift := unbiased - 23 + 32 in
    let mag := if 0 <=? shift then mantissa * 2 ^ shift else mantissa / 2 ^ (- shift) in
    sat64 (if sign_of b then - mag else mag).

(* codec.rs: fx_from_i64 *)
Definition codec_fx_from_i64 (n : Z) : Z :=
  if 0x7fffffff <? n then I64_MAX else if n <? - 0x80000000 then I64_MIN else n * 2 ^ 32.

Close Scope Z_scope.

(* ------------------------------------------------------------------ Part 5: PRNG (xoroshiro128+) *)

Definition M64 : N := 0x10000000000000000.
Definition GOLDEN : N := 0x9e3779b97f4a7c15.

Definition rotl64 (x k : N) : N := N.lor (N.shiftl x k mod M64) (N.shiftr x (64 - k)).

Definition prng_state := (N * N)%type.

Definition prng_from_seed (s0 s1 : N) : prng_state :=
  if (s0 =? 0) && (s1 =? 0) then (GOLDEN, 0) else (s0, s1).

Definition splitmix64 (st : N) : N * N :=       (* (new state, output) *)
  let st' := (st + GOLDEN) mod M64 in
  let z := st' in
  let z := (N.lxor z (N.shiftr z 30) * 0xbf58476d1ce4e5b9) mod M64 in
  let z := (N.lxor z (N.shiftr z 27) * 0x94d049bb133111eb) mod M64 in
  (st', N.lxor z (N.shiftr z 31)).

Definition prng_from_seed_u64 (seed : N) : prng_state :=
  let '(st1, a) := splitmix64 seed in
  let '(_, b) := splitmix64 st1 in
  if (a =? 0) && (b =? 0) then (GOLDEN, 0) else (a, b).

Definition prng_next_u64 (st : prng_state) : N * prng_state :=
  let '(s0, s1) := st in
  let result := (s0 + s1) mod M64 in
  let s1 := N.lxor s1 s0 in
  let n0 := N.lxor (N.lxor (rotl64 s0 55) s1) (N.shiftl s1 14 mod M64) in
  let n1 := rotl64 s1 36 in
  (result, (n0, n1)).

Definition prng_next_f32 (st : prng_state) : N * prng_state :=
  let '(raw, st') := prng_next_u64 st in
  let bits := N.lor (N.shiftr raw 41) 0x3f800000 in
  (f_sub bits ONE, st').

(* next_int: `fuel` bounds the rejection loop (each round rejects with probability < 1/2) *)
Fixpoint prng_reject (fuel : nat) (st : prng_state) (bound span : N) : option (N * prng_state) :=
  match fuel with
  | O => None
  | S f =>
      let '(cand, st') := prng_next_u64 st in
      if cand <? bound then Some (cand mod span, st') else prng_reject f st' bound span
  end.

Definition is_pow2 (n : N) : bool := negb (n =? 0) && (N.land n (n - 1) =? 0).

Definition prng_next_int (fuel : nat) (st : prng_state) (min max : Z) : option (Z * prng_state) :=
  if (max <? min)%Z then None      (* assert!(min <= max) panics *)
  else
    let span := (Z.to_N (max - min)%Z + 1)%N in
    if span =? 1 then Some (min, st)
    else
      let r :=
        if is_pow2 span then
          let '(v, st') := prng_next_u64 st in Some (N.land v (span - 1), st')
        else
          let umax := M64 - 1 in
          prng_reject fuel st (umax - umax mod span) span in
      match r with
      | None => None
      | Some (v, st') =>
          (* `value as i64 + i64::from(min)` then `as i32` (two's-complement truncation) *)
          let off := (Z.of_N v + min)%Z in
          let w := (off mod 2 ^ 32)%Z in
          Some ((if (w <? 2 ^ 31)%Z then w else w - 2 ^ 32)%Z, st')
      end.
