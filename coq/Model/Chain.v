(* C05 model: hash-chained provenance history.
     crates/warp-core/src/snapshot.rs          compute_commit_hash_v2                      -> commit_preimage
     crates/warp-core/src/tick_patch.rs        compute_patch_digest_v2 / encode_slots / encode_ops / encode_* ,
                                               WarpTickPatchV1::new (sort + dedup, last wins), WarpOp::sort_key,
                                               SlotId Ord                                  -> patch_preimage, canon_*
     crates/warp-core/src/receipt.rs           compute_tick_receipt_digest                 -> receipt_preimage
     crates/warp-core/src/provenance_store.rs  ProvenanceEntry, validate_shared_entry, validate_local_commit_entry,
                                               append_local_commit, replay_artifacts_for_entry, advance_replay_state,
                                               restore_replay_base, replay_worldline_state_at_from_provenance,
                                               validate_checkpoint_for_history (chain-relevant part)
     crates/warp-core/src/coordinator.rs       super_tick_inner: parents := provenance.tip_ref(worldline)
   Definitions only.  The hash is a parameter [H : bytes -> N] (never an axiom); the graph state type [St], patch
   application [apply] (WorldlineTickPatchV1::apply_to_worldline_state on the raw, un-canonicalised op list) and the
   state root [root] (compute_state_root_for_warp_state) are parameters too (C04 / C06 are about them).
   32-byte ids are [N] (big-endian reading); ticks are u64 in the code and [N] here with tx = tick + 1 overflow
   spelled out. *)
From Coq Require Import List NArith Bool Lia.
From Echo Require Import Base.Bytes.
Import ListNotations.
Open Scope N_scope.

(* ------------------------------------------------------------------------------------------------ widths *)
Definition id32 (x : N) : bytes := be_bytes 32 x.      (* [u8; 32] *)
Definition u16le (x : N) : bytes := le_bytes 2 x.
Definition u32le (x : N) : bytes := le_bytes 4 x.
Definition u64le (x : N) : bytes := le_bytes 8 x.

Definition two256 : N := 2 ^ 256.
Definition idb (x : N) : bool := x <? two256.
Definition u32b (x : N) : bool := x <? 2 ^ 32.
Definition u64b (x : N) : bool := x <? 2 ^ 64.
Definition u64_max : N := 18446744073709551615.

(* domain::COMMIT_ID_V2 = b"echo:commit_id:v2\0", domain::PATCH_DIGEST_V1 = b"echo:patch_digest:v1\0" *)
Definition DOM_COMMIT : bytes := [101;99;104;111;58;99;111;109;109;105;116;95;105;100;58;118;50;0].
Definition DOM_PATCH : bytes := [101;99;104;111;58;112;97;116;99;104;95;100;105;103;101;115;116;58;118;49;0].

(* ------------------------------------------------------------------------------------------------ patch data *)
(* AttachmentOwner::{Node(NodeKey), Edge(EdgeKey)}: tag 1 / 2 ; AttachmentPlane::{Alpha, Beta}: tag 1 / 2 *)
Inductive plane := Alpha | Beta.
Record akey := { ak_edge : bool; ak_warp : N; ak_local : N; ak_plane : plane }.
Definition owner_tag (k : akey) : N := if ak_edge k then 2 else 1.
Definition plane_tag (k : akey) : N := match ak_plane k with Alpha => 1 | Beta => 2 end.

(* AttachmentValue *)
Inductive aval := VAtom (ty : N) (data : bytes) | VDescend (w : N).
(* PortalInit *)
Inductive pinit := PRequireExisting | PEmpty (ty : N).
(* SlotId *)
Inductive slot := SNode (w l : N) | SEdge (w l : N) | SAtt (k : akey) | SPort (w port : N).
(* WarpOp *)
Inductive op :=
| OpenPortal (k : akey) (child_warp child_root : N) (i : pinit)
| UpsertWarpInstance (w root_node : N) (parent : option akey)
| DeleteWarpInstance (w : N)
| UpsertNode (w l ty : N)
| DeleteNode (w l : N)
| UpsertEdge (w from id to ty : N)
| DeleteEdge (w from id : N)
| SetAttachment (k : akey) (v : option aval).

(* well-formedness = the value fits the Rust type (ids 32 bytes, u64 port keys, bytes < 256, lengths < 2^64) *)
Definition wf_akey (k : akey) : bool := idb (ak_warp k) && idb (ak_local k).
Definition wf_aval (v : aval) : bool :=
  match v with
  | VAtom ty d => idb ty && wf_bytes d && u64b (lenN d)
  | VDescend w => idb w
  end.
Definition wf_pinit (i : pinit) : bool := match i with PRequireExisting => true | PEmpty ty => idb ty end.
Definition wf_slot (s : slot) : bool :=
  match s with
  | SNode w l | SEdge w l => idb w && idb l
  | SAtt k => wf_akey k
  | SPort w p => idb w && u64b p
  end.
Definition wf_op (o : op) : bool :=
  match o with
  | OpenPortal k cw cr i => wf_akey k && idb cw && idb cr && wf_pinit i
  | UpsertWarpInstance w r p => idb w && idb r && match p with None => true | Some k => wf_akey k end
  | DeleteWarpInstance w => idb w
  | UpsertNode w l ty => idb w && idb l && idb ty
  | DeleteNode w l => idb w && idb l
  | UpsertEdge w f i t ty => idb w && idb f && idb i && idb t && idb ty
  | DeleteEdge w f i => idb w && idb f && idb i
  | SetAttachment k v => wf_akey k && match v with None => true | Some x => wf_aval x end
  end.

(* ------------------------------------------------------------------------------------------------ encoders *)
(* encode_attachment_key *)
Definition enc_akey (k : akey) : bytes := owner_tag k :: plane_tag k :: id32 (ak_warp k) ++ id32 (ak_local k).
(* encode_attachment_key_opt *)
Definition enc_akey_opt (k : option akey) : bytes :=
  match k with None => [0] | Some k => 1 :: enc_akey k end.
(* encode_attachment_value + encode_atom_payload *)
Definition enc_aval (v : aval) : bytes :=
  match v with
  | VAtom ty d => 1 :: id32 ty ++ u64le (lenN d) ++ d
  | VDescend w => 2 :: id32 w
  end.
Definition enc_aval_opt (v : option aval) : bytes :=
  match v with None => [0] | Some v => 1 :: enc_aval v end.
(* encode_portal_init *)
Definition enc_pinit (i : pinit) : bytes :=
  match i with PRequireExisting => [0] | PEmpty ty => 1 :: id32 ty end.
(* one element of encode_slots *)
Definition enc_slot (s : slot) : bytes :=
  match s with
  | SNode w l => 1 :: id32 w ++ id32 l
  | SEdge w l => 2 :: id32 w ++ id32 l
  | SAtt k => 3 :: enc_akey k
  | SPort w p => 4 :: id32 w ++ u64le p
  end.
(* one element of encode_ops *)
Definition enc_op (o : op) : bytes :=
  match o with
  | OpenPortal k cw cr i => 8 :: enc_akey k ++ id32 cw ++ id32 cr ++ enc_pinit i
  | UpsertWarpInstance w r p => 1 :: id32 w ++ id32 r ++ enc_akey_opt p
  | DeleteWarpInstance w => 2 :: id32 w
  | UpsertNode w l ty => 3 :: id32 w ++ id32 l ++ id32 ty
  | DeleteNode w l => 4 :: id32 w ++ id32 l
  | UpsertEdge w f i t ty => 5 :: id32 w ++ id32 f ++ id32 i ++ id32 t ++ id32 ty
  | DeleteEdge w f i => 6 :: id32 w ++ id32 f ++ id32 i
  | SetAttachment k v => 7 :: enc_akey k ++ enc_aval_opt v
  end.
Definition flat {A} (enc : A -> bytes) (l : list A) : bytes := concat (map enc l).
(* encode_slots / encode_ops: u64 LE count, then the elements *)
Definition enc_slots (l : list slot) : bytes := u64le (lenN l) ++ flat enc_slot l.
Definition enc_ops (l : list op) : bytes := u64le (lenN l) ++ flat enc_op l.

(* the hashed content of a tick patch: compute_patch_digest_v2(policy_id, rule_pack_id, commit_status, in, out, ops) *)
Record pbody := { pb_policy : N; pb_rule_pack : N; pb_status : N; pb_in : list slot; pb_out : list slot;
                  pb_ops : list op }.
Definition wf_pbody (p : pbody) : bool :=
  u32b (pb_policy p) && idb (pb_rule_pack p) && (pb_status p <? 256)
  && forallb wf_slot (pb_in p) && u64b (lenN (pb_in p))
  && forallb wf_slot (pb_out p) && u64b (lenN (pb_out p))
  && forallb wf_op (pb_ops p) && u64b (lenN (pb_ops p)).
Definition patch_preimage (p : pbody) : bytes :=
  DOM_PATCH ++ u16le 2 ++ u32le (pb_policy p) ++ id32 (pb_rule_pack p) ++ [pb_status p]
  ++ enc_slots (pb_in p) ++ enc_slots (pb_out p) ++ enc_ops (pb_ops p).

(* the hashed content of a commit: compute_commit_hash_v2(state_root, parents, patch_digest, policy_id) *)
Record cbody := { cb_parents : list N; cb_root : N; cb_pdig : N; cb_policy : N }.
Definition wf_cbody (c : cbody) : bool :=
  forallb idb (cb_parents c) && u64b (lenN (cb_parents c)) && idb (cb_root c) && idb (cb_pdig c)
  && u32b (cb_policy c).
Definition commit_preimage (c : cbody) : bytes :=
  DOM_COMMIT ++ u16le 2 ++ u64le (lenN (cb_parents c)) ++ flat id32 (cb_parents c)
  ++ id32 (cb_root c) ++ id32 (cb_pdig c) ++ u32le (cb_policy c).

(* TickReceiptEntry: rule_id, scope_hash, scope (warp, local), disposition code 1/2/3 *)
Record rentry := { re_rule : N; re_scope_hash : N; re_warp : N; re_local : N; re_code : N }.
Definition enc_rentry (r : rentry) : bytes :=
  id32 (re_rule r) ++ id32 (re_scope_hash r) ++ id32 (re_warp r) ++ id32 (re_local r) ++ [re_code r].
(* compute_tick_receipt_digest: blake3(0u64 LE) for the empty list, else version u16 2, count, entries *)
Definition receipt_preimage (l : list rentry) : bytes :=
  match l with
  | [] => u64le 0
  | _ => u16le 2 ++ u64le (lenN l) ++ flat enc_rentry l
  end.

(* ------------------------------------------------------------------------------------------------ canonical form *)
(* lexicographic order on equal-length key vectors *)
Fixpoint lex_cmp (a b : list N) : comparison :=
  match a, b with
  | [], [] => Eq
  | [], _ => Lt
  | _, [] => Gt
  | x :: r, y :: s => match x ?= y with Eq => lex_cmp r s | c => c end
  end.

(* SlotId Ord: tag, then NodeKey / EdgeKey (warp, local), AttachmentKey (owner [variant, key], plane),
   (WarpId, PortKey) *)
Definition slot_key (s : slot) : list N :=
  match s with
  | SNode w l => [1; w; l; 0; 0]
  | SEdge w l => [2; w; l; 0; 0]
  | SAtt k => [3; owner_tag k; ak_warp k; ak_local k; plane_tag k]
  | SPort w p => [4; w; p; 0; 0]
  end.
(* sort(); dedup() = ordered set *)
Fixpoint slot_ins (s : slot) (l : list slot) : list slot :=
  match l with
  | [] => [s]
  | x :: r => match lex_cmp (slot_key s) (slot_key x) with
              | Lt => s :: l
              | Eq => l
              | Gt => x :: slot_ins s r
              end
  end.
Definition canon_slots (l : list slot) : list slot := fold_left (fun acc s => slot_ins s acc) l [].

(* WarpOp::sort_key = (kind, warp, a, b); for attachment-keyed ops a = [owner_tag, plane_tag, 0 x 30] *)
Definition tagbuf (k : akey) : N := owner_tag k * 2 ^ 248 + plane_tag k * 2 ^ 240.
Definition op_key (o : op) : list N :=
  match o with
  | OpenPortal k _ _ _ => [1; ak_warp k; tagbuf k; ak_local k]
  | UpsertWarpInstance w _ _ => [2; w; w; 0]
  | DeleteWarpInstance w => [3; w; w; 0]
  | DeleteEdge w f i => [4; w; f; i]
  | DeleteNode w l => [5; w; l; 0]
  | UpsertNode w l _ => [6; w; l; 0]
  | UpsertEdge w f i _ _ => [7; w; f; i]
  | SetAttachment k _ => [8; ak_warp k; tagbuf k; ak_local k]
  end.
(* BTreeMap::insert(sort_key, op): a later op with the same key replaces the earlier one *)
Fixpoint op_ins (o : op) (l : list op) : list op :=
  match l with
  | [] => [o]
  | x :: r => match lex_cmp (op_key o) (op_key x) with
              | Lt => o :: l
              | Eq => o :: r
              | Gt => x :: op_ins o r
              end
  end.
Definition canon_ops (l : list op) : list op := fold_left (fun acc o => op_ins o acc) l [].

(* ------------------------------------------------------------------------------------------------ entries *)
(* WorldlineTickPatchV1 (header + warp + ops + slots + stored digest) *)
Record patch := {
  p_gtick : N; p_policy : N; p_rule_pack : N; p_plan : N; p_decision : N; p_rewrites : N;   (* header *)
  p_warp : N; p_ops : list op; p_in : list slot; p_out : list slot; p_digest : N }.
(* what replay_artifacts_for_entry rebuilds: WarpTickPatchV1::new(policy, rule pack, Committed (code 1), ...) *)
Definition replay_body (p : patch) : pbody :=
  {| pb_policy := p_policy p; pb_rule_pack := p_rule_pack p; pb_status := 1;
     pb_in := canon_slots (p_in p); pb_out := canon_slots (p_out p); pb_ops := canon_ops (p_ops p) |}.

(* ProvenanceRef *)
Record pref := { pr_wl : N; pr_tick : N; pr_commit : N }.
(* TickReceipt: tx, entries, blocked_by; its digest covers the entries only *)
Record receipt := { r_tx : N; r_entries : list rentry; r_blocked : list (list N) }.

(* ProvenanceEntry.  e_kind: 0 = LocalCommit, other values = the recorded non-local kinds *)
Record entry := {
  e_wl : N; e_tick : N; e_gtick : N; e_head : option (N * N); e_parents : list pref; e_kind : N;
  e_root : N; e_pdig : N; e_commit : N;                      (* expected: HashTriplet *)
  e_patch : option patch; e_receipt : option receipt;
  e_outputs : list (N * bytes); e_atoms : N                   (* recorded outputs; atom writes (abstract) *) }.
Definition e_ref (e : entry) : pref := {| pr_wl := e_wl e; pr_tick := e_tick e; pr_commit := e_commit e |}.
Definition parent_ids (e : entry) : list N := map pr_commit (e_parents e).

Definition lookupN {A} (l : list A) (i : N) : option A := nth_error l (N.to_nat i).

(* ReplayError *)
Inductive rerr :=
| EHistoryUnavailable (t : N) | EMissingPatch (t : N) | EApply (t : N) | EStateRoot (t : N) | ECommitHash (t : N)
| EPatchDigest (t : N) | ETickOverflow (t : N) | EReceiptTx (t : N) | EReceiptDigest (t : N)
| ECheckpointRoot (t : N) | EBaseWarp | EBaseBoundary
| EEntryWorldline (t : N) | EEntryTick (t : N) | EParentLink (t : N) | ECheckpointMeta (t : N).

(* HistoryError (append / add_checkpoint) *)
Inductive herr :=
| HWorldlineNotFound | HTickGap | HNonCanonicalParents | HMissingParentRef | HParentCommitHashMismatch
| HMissingHeadKey | HHeadWorldlineMismatch | HMissingPatch | HReceiptTx | HReceiptDigest | HInvalidKind
| HUnavailable | HRootWarp | HInitialBoundary | HCpStateRoot | HCpMeta.

(* one tick_history element (Snapshot, TickReceipt, WarpTickPatchV1) as reconstructed by replay *)
Record art := {
  a_commit : N; a_root : N; a_parents : list N; a_pdig : N; a_policy : N; a_tx : N;
  a_plan : N; a_decision : N; a_rewrites : N;              (* diagnostics copied from the header, unverified *)
  a_receipt : option receipt;                               (* retained receipt (None: an empty one is synthesised) *)
  a_body : pbody }.

Section WithHash.
  Variable H : bytes -> N.

  Definition Collision : Prop := exists x y : bytes, x <> y /\ H x = H y.

  Definition patch_digest (b : pbody) : N := H (patch_preimage b).
  Definition commit_id (c : cbody) : N := H (commit_preimage c).
  Definition receipt_digest (l : list rentry) : N := H (receipt_preimage l).

  (* ---------------------------------------------------------------------------------------------- append *)
  (* one worldline of LocalProvenanceStore, and the store *)
  Record whist := { h_u0 : N; h_boundary : N; h_entries : list entry }.
  Definition store := list (N * whist).
  Fixpoint find_wl (w : N) (st : store) : option whist :=
    match st with [] => None | (k, h) :: r => if k =? w then Some h else find_wl w r end.
  Fixpoint set_wl (w : N) (h : whist) (st : store) : store :=
    match st with
    | [] => []
    | (k, x) :: r => if k =? w then (k, h) :: r else (k, x) :: set_wl w h r
    end.
  Definition lookup (st : store) (w t : N) : option entry :=
    match find_wl w st with Some h => lookupN (h_entries h) t | None => None end.
  (* LocalProvenanceStore::tip_ref *)
  Definition tip_ref (st : store) (w : N) : list pref :=
    match find_wl w st with
    | Some h => match rev (h_entries h) with [] => [] | e :: _ => [e_ref e] end
    | None => []
    end.

  Fixpoint strictly_increasing (l : list N) : bool :=
    match l with
    | x :: ((y :: _) as r) => (x <? y) && strictly_increasing r
    | _ => true
    end.
  Fixpoint parents_resolve (st : store) (ps : list pref) : option herr :=
    match ps with
    | [] => None
    | p :: r => match lookup st (pr_wl p) (pr_tick p) with
                | None => Some HMissingParentRef
                | Some e => if e_commit e =? pr_commit p then parents_resolve st r
                            else Some HParentCommitHashMismatch
                end
    end.
  (* validate_shared_entry (the worldline is looked up by entry.worldline_id, so the id comparison is a tautology) *)
  Definition validate_shared (st : store) (expected_tick : N) (e : entry) : option herr :=
    if negb (e_tick e =? expected_tick) then Some HTickGap
    else if negb (strictly_increasing (parent_ids e)) then Some HNonCanonicalParents
    else parents_resolve st (e_parents e).
  (* validate_local_commit_entry *)
  Definition validate_local (st : store) (expected_tick : N) (e : entry) : option herr :=
    match validate_shared st expected_tick e with
    | Some x => Some x
    | None =>
      match e_head e with
      | None => Some HMissingHeadKey
      | Some (hw, _) =>
        if negb (hw =? e_wl e) then Some HHeadWorldlineMismatch
        else match e_patch e with
             | None => Some HMissingPatch
             | Some p =>
               match (match e_receipt e with
                      | None => None
                      | Some r =>
                        if (u64_max <=? e_tick e) || negb (r_tx r =? e_tick e + 1) then Some HReceiptTx
                        else if negb (receipt_digest (r_entries r) =? p_decision p) then Some HReceiptDigest
                        else None
                      end) with
               | Some x => Some x
               | None => if negb (e_kind e =? 0) then Some HInvalidKind else None
               end
             end
      end
    end.
  (* append_local_commit *)
  Definition append_local (st : store) (e : entry) : herr + store :=
    match find_wl (e_wl e) st with
    | None => inl HWorldlineNotFound
    | Some h =>
      match validate_local st (lenN (h_entries h)) e with
      | Some x => inl x
      | None => inr (set_wl (e_wl e)
                       {| h_u0 := h_u0 h; h_boundary := h_boundary h; h_entries := h_entries h ++ [e] |} st)
      end
    end.

  (* ---------------------------------------------------------------------------------------------- replay *)
  Section Replay.
    Variable St : Type.
    Variable apply : St -> list op -> option St.   (* apply_ops_to_state on the stored (raw) op list *)
    Variable root : St -> N.                       (* compute_state_root_for_warp_state *)

    Definition RootCollision : Prop := exists s1 s2 : St, s1 <> s2 /\ root s1 = root s2.

    (* replayed WorldlineState: graph state + tick_history (current_tick = its length) *)
    Record rstate := { rs_state : St; rs_hist : list art }.
    Definition rs_tick (w : rstate) : N := lenN (rs_hist w).

    (* replay_artifacts_for_entry; [tick] in the errors and tx come from entry.worldline_tick *)
    Definition artifacts (e : entry) (p : patch) : rerr + art :=
      let tick := e_tick e in
      if negb (e_pdig e =? p_digest p) then inl (EPatchDigest tick)
      else if negb (patch_digest (replay_body p) =? p_digest p) then inl (EPatchDigest tick)
      else if u64_max <=? tick then inl (ETickOverflow tick)
      else
        let tx := tick + 1 in
        let a := {| a_commit := e_commit e; a_root := e_root e; a_parents := parent_ids e; a_pdig := e_pdig e;
                    a_policy := p_policy p; a_tx := tx; a_plan := p_plan p; a_decision := p_decision p;
                    a_rewrites := p_rewrites p; a_receipt := e_receipt e; a_body := replay_body p |} in
        match e_receipt e with
        | Some r => if negb (r_tx r =? tx) then inl (EReceiptTx tick)
                    else if negb (receipt_digest (r_entries r) =? p_decision p) then inl (EReceiptDigest tick)
                    else inr a
        | None => inr a
        end.

    (* The coordinate / chain-link check at the head of the loop body of advance_replay_state:
         entry.worldline_id == worldline_id, entry.worldline_tick == tick, and - when something was replayed before
         (tick_history.last()) - some parent of the entry is that commit.
       [lc] switches it on.  lc = true is the code as it is; lc = false is the verifier before the fix
       "advance_replay_state must check the entry coordinate and the parent link", kept so that the theorem
       [unlinked_replay_any_tamper_refuted] documents what the check is for. *)
    Variable lc : bool.
    Variable wl : N.

    Definition last_commit (w : rstate) : option N :=
      match rev (rs_hist w) with [] => None | a :: _ => Some (a_commit a) end.
    Definition coord_link_check (tick : N) (e : entry) (w : rstate) : option rerr :=
      if negb lc then None
      else if negb (e_wl e =? wl) then Some (EEntryWorldline tick)
      else if negb (e_tick e =? tick) then Some (EEntryTick tick)
      else match last_commit w with
           | Some c => if existsb (N.eqb c) (parent_ids e) then None else Some (EParentLink tick)
           | None => None
           end.

    (* body of the loop of advance_replay_state; [tick] is the loop counter, [u0] the worldline's root warp *)
    Definition advance_one (u0 tick : N) (e : entry) (w : rstate) : rerr + rstate :=
      match coord_link_check tick e w with
      | Some x => inl x
      | None =>
      match e_patch e with
      | None => inl (EMissingPatch tick)
      | Some p =>
        if negb (p_warp p =? u0) then inl (EApply tick)
        else match apply (rs_state w) (p_ops p) with
             | None => inl (EApply tick)
             | Some s' =>
               if negb (root s' =? e_root e) then inl (EStateRoot tick)
               else if negb (commit_id {| cb_parents := parent_ids e; cb_root := root s'; cb_pdig := e_pdig e;
                                          cb_policy := p_policy p |} =? e_commit e)
                    then inl (ECommitHash tick)
               else match artifacts e p with
                    | inl x => inl x
                    | inr a => inr {| rs_state := s'; rs_hist := rs_hist w ++ [a] |}
                    end
             end
      end
      end.

    Fixpoint run (u0 : N) (es : list entry) (tick : N) (w : rstate) : rerr + rstate :=
      match es with
      | [] => inr w
      | e :: r => match advance_one u0 tick e w with
                  | inl x => inl x
                  | inr w' => run u0 r (tick + 1) w'
                  end
      end.

    Definition slice {A} (l : list A) (start target : N) : list A :=
      firstn (N.to_nat (target - start)) (skipn (N.to_nat start) l).

    (* replay_worldline_state_at_from_provenance without a checkpoint: validate_replay_base, then advance 0..target *)
    Definition replay_at (h : whist) (base : St) (base_warp target : N) : rerr + rstate :=
      if lenN (h_entries h) <? target then inl (EHistoryUnavailable target)
      else if negb (base_warp =? h_u0 h) then inl EBaseWarp
      else if negb (root base =? h_boundary h) then inl EBaseBoundary
      else run (h_u0 h) (slice (h_entries h) 0 target) 0 {| rs_state := base; rs_hist := [] |}.

    (* expected_state_root_at_materialized_tick *)
    Definition expected_root_at (h : whist) (t : N) : option N :=
      if t =? 0 then Some (h_boundary h)
      else match lookupN (h_entries h) (t - 1) with Some e => Some (e_root e) | None => None end.

    (* a stored checkpoint: (CheckpointRef.worldline_tick, CheckpointRef.state_hash, state) *)
    Record cpoint := { cp_tick : N; cp_hash : N; cp_state : rstate }.

    (* restore_replay_base from a given checkpoint + advance (the nearest-checkpoint choice is C07's subject) *)
    Definition replay_from_cp (h : whist) (cp : cpoint) (target : N) : rerr + rstate :=
      if lenN (h_entries h) <? target then inl (EHistoryUnavailable target)
      else match expected_root_at h (cp_tick cp) with
           | None => inl (EHistoryUnavailable (cp_tick cp - 1))
           | Some expected =>
             if negb (cp_hash cp =? expected) then inl (ECheckpointRoot (cp_tick cp))
             else if negb (root (rs_state (cp_state cp)) =? expected) then inl (ECheckpointRoot (cp_tick cp))
             (* the checkpoint's replay metadata: exactly cp_tick committed ticks, ending in the recorded commit *)
             else if negb (rs_tick (cp_state cp) =? cp_tick cp) then inl (ECheckpointMeta (cp_tick cp))
             else if (if cp_tick cp =? 0 then false
                      else match last_commit (cp_state cp), lookupN (h_entries h) (cp_tick cp - 1) with
                           | Some c, Some e => negb (c =? e_commit e)
                           | _, _ => true
                           end) then inl (ECheckpointMeta (cp_tick cp))
             else run (h_u0 h) (slice (h_entries h) (cp_tick cp) target) (cp_tick cp) (cp_state cp)
           end.

    (* validate_checkpoint_for_history, chain-relevant part: tick within history, state hash consistent with the
       checkpoint's own state and with the committed root, tick_history = the replay artifacts of the entries.
       ([eqb_art] is decidable equality on artifacts, supplied by the instantiation; only its soundness is used.) *)
    Variable art_eqb : art -> art -> bool.
    Fixpoint arts_match (es : list entry) (arts : list art) : bool :=
      match es, arts with
      | [], [] => true
      | e :: r, a :: s =>
        match e_patch e with
        | None => false
        | Some p => match artifacts e p with
                    | inl _ => false
                    | inr a' => art_eqb a a' && arts_match r s
                    end
        end
      | _, _ => false
      end.
    Definition validate_checkpoint (h : whist) (cp : cpoint) : option herr :=
      if lenN (h_entries h) <? cp_tick cp then Some HUnavailable
      else if negb (root (rs_state (cp_state cp)) =? cp_hash cp) then Some HCpStateRoot
      else match expected_root_at h (cp_tick cp) with
           | None => Some HUnavailable
           | Some expected =>
             if negb (root (rs_state (cp_state cp)) =? expected) then Some HCpStateRoot
             else if negb (rs_tick (cp_state cp) =? cp_tick cp) then Some HCpMeta
             else if negb (arts_match (slice (h_entries h) 0 (cp_tick cp)) (rs_hist (cp_state cp))) then Some HCpMeta
             else None
           end.

    (* the compared ("core") result of a verified replay: graph state, its root, commit-id chain, tick *)
    Definition core_result (w : rstate) : St * N * list N * N :=
      (rs_state w, root (rs_state w), map a_commit (rs_hist w), rs_tick w).
  End Replay.
End WithHash.

Arguments rs_state {St} _.
Arguments rs_hist {St} _.
Arguments Build_rstate {St} _ _.
Arguments cp_tick {St} _.
Arguments cp_hash {St} _.
Arguments cp_state {St} _.
Arguments Build_cpoint {St} _ _ _.

(* ------------------------------------------------------------------------------------------------ single-field edits *)
(* The retained fields of an entry.  [Fpatch] / [Fparents] / [Freceipt] / [Foutputs] stand for ANY change inside the
   patch (header fields, warp, any op, any slot, any atom byte, stored digest, presence), the parent list, the
   receipt, the outputs - a superset of the single-field alterations of the property text. *)
Inductive field := Fwl | Ftick | Fgtick | Fhead | Fparents | Fkind | Froot | Fpdig | Fcommit | Fpatch | Freceipt
                 | Foutputs | Fatoms.
Definition agree_except (f : field) (e e' : entry) : Prop :=
  (f <> Fwl -> e_wl e = e_wl e') /\ (f <> Ftick -> e_tick e = e_tick e') /\ (f <> Fgtick -> e_gtick e = e_gtick e')
  /\ (f <> Fhead -> e_head e = e_head e') /\ (f <> Fparents -> e_parents e = e_parents e')
  /\ (f <> Fkind -> e_kind e = e_kind e') /\ (f <> Froot -> e_root e = e_root e') /\ (f <> Fpdig -> e_pdig e = e_pdig e')
  /\ (f <> Fcommit -> e_commit e = e_commit e') /\ (f <> Fpatch -> e_patch e = e_patch e')
  /\ (f <> Freceipt -> e_receipt e = e_receipt e') /\ (f <> Foutputs -> e_outputs e = e_outputs e')
  /\ (f <> Fatoms -> e_atoms e = e_atoms e').
Definition alters_one_field (e e' : entry) : Prop := exists f, agree_except f e e'.

Definition set_commit (e : entry) (c : N) : entry :=
  {| e_wl := e_wl e; e_tick := e_tick e; e_gtick := e_gtick e; e_head := e_head e; e_parents := e_parents e;
     e_kind := e_kind e; e_root := e_root e; e_pdig := e_pdig e; e_commit := c; e_patch := e_patch e;
     e_receipt := e_receipt e; e_outputs := e_outputs e; e_atoms := e_atoms e |}.

Fixpoint replace_nth {A} (n : nat) (x : A) (l : list A) : list A :=
  match l, n with
  | [], _ => []
  | _ :: r, O => x :: r
  | y :: r, S n' => y :: replace_nth n' x r
  end.
