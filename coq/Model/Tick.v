(* Model of the commit pipeline glue in crates/warp-core/src/engine_impl.rs
   (commit_with_receipt / apply_reserved_rewrites / merge_parallel_deltas), parallel/exec.rs
   (build_work_units, execute_work_queue) and parallel/shard.rs (shard_of).  Definitions only.

   Executors are data here: a candidate carries the op list its executor emits against the
   immutable pre-tick view (the harness obtains it by running the real executor on the real
   pre-state).  An op is represented by the rank of its WarpOp::sort_key among the ops of the
   case (computed with the real Ord), a content id (equal ids <=> identical ops), the warp it
   creates (OpenPortal with PortalInit::Empty) and the warp it targets (extract_target_warp). *)
From Coq Require Import List NArith Lia Bool.
From Echo Require Import Model.Sched.
Import ListNotations.
Open Scope N_scope.

Record mop := { op_key : N; op_content : N; op_new : option N; op_target : option N }.

Definition opt_eqb (a b : option N) : bool :=
  match a, b with Some x, Some y => x =? y | None, None => true | _, _ => false end.
Definition mop_eqb (a b : mop) : bool :=
  (op_key a =? op_key b) && (op_content a =? op_content b)
  && opt_eqb (op_new a) (op_new b) && opt_eqb (op_target a) (op_target b).

Inductive merge_result := MergeOk (ops : list mop) | MergeConflict | MergeWriteToNewWarp.

(* windows(2): same key, different op *)
Fixpoint divergent (l : list mop) : bool :=
  match l with
  | a :: ((b :: _) as r) => ((op_key a =? op_key b) && negb (mop_eqb a b)) || divergent r
  | _ => false
  end.

(* dedup_by key on a key-sorted list *)
Fixpoint dedup (l : list mop) : list mop :=
  match l with
  | a :: ((b :: _) as r) => if op_key a =? op_key b then dedup r else a :: dedup r
  | _ => l
  end.

Definition new_warps (l : list mop) : list N :=
  flat_map (fun o => match op_new o with Some w => [w] | None => [] end) l.
Definition writes_new_warp (l : list mop) : bool :=
  let nw := new_warps l in
  existsb (fun o => match op_target o with Some w => existsb (N.eqb w) nw | None => false end) l.

(* merge_parallel_deltas (default build): flatten, sort by key, reject divergent, dedup,
   reject writes into a warp created in the same tick. *)
Definition merge (ops : list mop) : merge_result :=
  let s := isort_by op_key ops in
  if divergent s then MergeConflict
  else let d := dedup s in
       if writes_new_warp d then MergeWriteToNewWarp else MergeOk d.

(* ---------- candidates and the tick ---------- *)

Record cand := {
  c_scope : N;      (* scope hash *)
  c_rule : N;       (* compact rule id *)
  c_warp : N;       (* instance of the scope node *)
  c_node : N;       (* scope node id (first byte selects the shard) *)
  c_fp : footprint;
  c_ops : list mop  (* executor output against the pre-tick state *)
}.

Definition dflt_fp : footprint :=
  {| n_read := []; n_write := []; e_read := []; e_write := []; a_read := []; a_write := [];
     b_in := []; b_out := []; factor_mask := 0 |}.
Definition dflt_cand : cand :=
  {| c_scope := 0; c_rule := 0; c_warp := 0; c_node := 0; c_fp := dflt_fp; c_ops := [] |}.

(* enqueue sequence: indices into the candidate table *)
Definition queue_of (tbl : list cand) (enq : list N) : list (N * N * N) :=
  map (fun h => let c := nth (N.to_nat h) tbl dflt_cand in (c_scope c, c_rule c, h)) enq.

Definition drained (tbl : list cand) (enq : list N) : list cand :=
  map (fun h => nth (N.to_nat h) tbl dflt_cand) (drain_handles (queue_of tbl enq)).

Fixpoint select {A} (l : list A) (d : list bool) : list A :=
  match l, d with
  | x :: l', true :: d' => x :: select l' d'
  | _ :: l', false :: d' => select l' d'
  | _, _ => []
  end.

Definition accepted (cs : list cand) : list cand := select cs (run_reserve (map c_fp cs)).

(* shard routing: first byte of the scope node id (32-byte big-endian) mod 256 *)
Definition shard_of (node : N) : N := (node / 2 ^ 248) mod 256.

(* build_work_units: group by instance in id order, then by shard id; items keep drain order *)
Definition unit_key (c : cand) : N := c_warp c * 256 + shard_of (c_node c).
Fixpoint group_units (l : list cand) : list (list cand) :=
  match l with
  | [] => []
  | c :: r =>
      match group_units r with
      | (d :: u) :: g => if unit_key c =? unit_key d then (c :: d :: u) :: g else [c] :: (d :: u) :: g
      | [] :: g => [c] :: g
      | [] => [[c]]
      end
  end.
Definition work_units (acc : list cand) : list (list cand) := group_units (isort_by unit_key acc).

(* A schedule assigns each unit index to a worker; a worker appends the ops of its units in
   increasing unit index (the atomic counter hands indices out in order). *)
Fixpoint worker_delta (units : list (list cand)) (assign : list N) (w : N) : list mop :=
  match units, assign with
  | u :: us, a :: as' =>
      (if a =? w then flat_map c_ops u else []) ++ worker_delta us as' w
  | u :: us, [] => (if 0 =? w then flat_map c_ops u else []) ++ worker_delta us [] w
  | [], _ => []
  end.
Definition run_schedule (units : list (list cand)) (workers : nat) (assign : list N) : list (list mop) :=
  map (fun w => worker_delta units (map (fun a => a mod N.of_nat workers) assign) (N.of_nat w)) (seq 0 workers).

Definition tick_ops_sched (tbl : list cand) (enq : list N) (workers : nat) (assign : list N) : merge_result :=
  merge (concat (run_schedule (work_units (accepted (drained tbl enq))) workers assign)).

(* single-worker reference: ops of accepted candidates in drain order *)
Definition tick_ops (tbl : list cand) (enq : list N) : merge_result :=
  merge (flat_map c_ops (accepted (drained tbl enq))).

Record tick_out := {
  to_order : list N;                      (* drained handles *)
  to_receipt : option (list (bool * list N));
  to_merged : merge_result
}.
Definition tick (tbl : list cand) (enq : list N) : tick_out :=
  {| to_order := drain_handles (queue_of tbl enq);
     to_receipt := receipt (map c_fp (drained tbl enq));
     to_merged := tick_ops tbl enq |}.

(* ---------- the five shard policies of execute_parallel_sharded_with_policy ---------- *)

Inductive exec_policy := DynPerWorker | DynPerShard | StaticPerWorker | StaticPerShard | DedicatedPerShard.

Definition is_nil {A} (l : list A) : bool := match l with [] => true | _ => false end.

(* shards: 256 item lists indexed by shard id (some empty); per-worker policies return one
   delta per worker, per-shard policies one delta per non-empty shard in shard order *)
Definition policy_deltas (p : exec_policy) (shards : list (list cand)) (workers : nat) (assign : list N)
  : list (list mop) :=
  match p with
  | DynPerWorker => run_schedule shards workers assign
  | StaticPerWorker => run_schedule shards workers (map N.of_nat (seq 0 (length shards)))
  | DynPerShard | StaticPerShard | DedicatedPerShard =>
      map (flat_map c_ops) (filter (fun s => negb (is_nil s)) shards)
  end.

(* ---------- poisoned workers (footprint violation or executor panic under enforcement) ---------- *)

(* [bad c = true]: executing c poisons the worker's delta.  A worker that has returned claims
   nothing further: its scripted units fall to the next live worker (cyclically); when no
   worker is live the remaining units are never executed. *)
Section Poison.
  Variable bad : cand -> bool.

  (* per worker: Some delta = live, None = returned Poisoned *)
  Definition wstate := list (option (list mop)).

  Fixpoint first_live (ws : wstate) (start : nat) (fuel : nat) : option nat :=
    match fuel with
    | O => None
    | S f => match nth (Nat.modulo start (length ws)) ws None with
             | Some _ => Some (Nat.modulo start (length ws))
             | None => first_live ws (S start) f
             end
    end.

  Fixpoint exec_items (items : list cand) (d : list mop) : option (list mop) :=
    match items with
    | [] => Some d
    | c :: r => if bad c then None else exec_items r (d ++ c_ops c)
    end.

  Fixpoint set_nth {A} (n : nat) (x : A) (l : list A) : list A :=
    match l, n with
    | [], _ => []
    | _ :: r, O => x :: r
    | y :: r, S m => y :: set_nth m x r
    end.

  Fixpoint run_poison (units : list (list cand)) (assign : list N) (ws : wstate) : wstate :=
    match units with
    | [] => ws
    | u :: us =>
        let pref := match assign with a :: _ => N.to_nat a | [] => O end in
        let rest := match assign with _ :: r => r | [] => [] end in
        match first_live ws pref (length ws) with
        | None => ws
        | Some w =>
            match nth w ws None with
            | Some d => run_poison us rest (set_nth w (exec_items u d) ws)
            | None => ws
            end
        end
    end.

  Definition poisoned (ws : wstate) : bool := existsb (fun o => match o with None => true | Some _ => false end) ws.

  Inductive sched_result := Failed | Deltas (ds : list (list mop)).
  Definition run_enforced (units : list (list cand)) (workers : nat) (assign : list N) : sched_result :=
    let ws := run_poison units assign (repeat (Some []) workers) in
    if poisoned ws then Failed
    else Deltas (map (fun o => match o with Some d => d | None => [] end) ws).
End Poison.
