(* Model of crates/echo-wasm-abi/src/canonical.rs (ABI canonical CBOR codec):
   encode_value / enc_value / enc_int / enc_float / write_major and
   decode_value / dec_value / read_len / read_uint / read_f / is_exact_int /
   can_fit_f16 / can_fit_f32.  Definitions only, all executable.

   Values are `ciborium::value::Value`; integers are unbounded `Z` (the Rust
   type holds [-2^64, 2^64)), floats are their IEEE-754 binary64 bit pattern
   (`f64::to_bits`), text is its UTF-8 byte string.  Byte strings are `list N`.

   Faithfulness notes (the model follows the code as it IS, after the fixes f8fd569,
   35fff59, 50eacdd in /repo):
   * `enc_float` and `is_exact_int` take the integer path only for integral floats in
     [-2^64, 2^64) (INT_MIN_F..INT_END_F); larger integral floats stay floats.
   * major-1 integers decode through `Integer::try_from(i128)`, which cannot fail for
     -(1+n), n < 2^64; `Decode("integer out of range")` is therefore unreachable and the
     model never returns [EIntRange].
   * half-precision NaNs other than 0x7e00 are rejected with NonCanonicalFloat (checked
     before is_exact_int).
   * `round-then-compare` (`f16::from_f64(f).to_f64() == f`, `f as f32 as f64 == f`)
     is modelled as exact representability on the bit fields ([narrow]); the
     harness validates [narrow]/[widen] against the `half` crate and the Rust
     casts (all 2^16 halves, sampled f32/f64).
   * `write_major` still truncates with `n as u64` in its 8-byte arm (unreachable from
     `encode_value` now; kept because the model follows the function as written).
   * commit 65efcf1 (C13 fix): nesting deeper than MAX_DECODE_DEPTH = 128 is rejected
     (Decode("nesting too deep"), [EDepth]) and declared array/map lengths are charged against
     a budget of bytes.len() before `Vec::with_capacity` ([dec_value_b]); a length above the
     remaining budget is `Incomplete`. *)
From Coq Require Import List NArith ZArith Bool.
From Echo Require Import Base.Bytes Base.Order.
Import ListNotations.
Open Scope N_scope.

(* ------------------------------------------------------------------ results *)

Inductive err :=
| EIncomplete | ETrailing | ETag | EIndefinite | ENonCanonInt | ENonCanonFloat
| EFloatShouldBeInt | EMapKeyOrder | EMapKeyDup
| EBadInfo        (* Decode("invalid length info") *)
| EIntRange       (* Decode("integer out of range"): unreachable in the code, never produced here *)
| EUtf8           (* Decode("utf8: ...") *)
| ESimple         (* Decode("simple value not supported") *)
| EDepth          (* Decode("nesting too deep"): depth > MAX_DECODE_DEPTH *)
| EFuel.          (* model artefact; proved unreachable from [decode] *)

Inductive result (A : Type) := Ok (a : A) | Err (e : err).
Arguments Ok {A} a.
Arguments Err {A} e.

Definition bind {A B} (r : result A) (f : A -> result B) : result B :=
  match r with Ok a => f a | Err e => Err e end.

Inductive value :=
| VBool (b : bool)
| VNull
| VInt (z : Z)
| VFloat (bits : N)
| VText (s : bytes)
| VBytes (s : bytes)
| VArray (l : list value)
| VMap (l : list (value * value))
| VTag (t : N) (v : value).

(* ------------------------------------------------------------------ floats on bit patterns *)

(* bit-field access; [N.shiftr]/[N.land]/[N.shiftl] rather than div/mod/mul so that the
   model evaluates quickly (CborProofs restates them as div/mod/mul by 2^n) *)
Definition shr (a n : N) : N := N.shiftr a n.
Definition shl (a n : N) : N := N.shiftl a n.
Definition low (a n : N) : N := N.land a (N.ones n).

(* packed binary formats: 1 sign bit, [eb] exponent bits, [mb] mantissa bits *)
Definition fsign (eb mb b : N) : N := shr b (eb + mb).
Definition fexp (eb mb b : N) : N := low (shr b mb) eb.
Definition fman (mb b : N) : N := low b mb.
Definition fpack (eb mb s e m : N) : N := shl s (eb + mb) + shl e mb + m.

Definition f64_is_nan (b : N) : bool := (fexp 11 52 b =? 2047) && negb (fman 52 b =? 0).
Definition f64_is_inf (b : N) : bool := (fexp 11 52 b =? 2047) && (fman 52 b =? 0).

Definition CANON_NAN : N := 0x7ff8000000000000.

(* exact widening of a small format (eb, mb) to binary64: f16::to_f64 / f64::from(f32) *)
Definition widen (eb mb h : N) : N :=
  let bias := 2 ^ (eb - 1) - 1 in
  let emax := 2 ^ eb - 1 in
  let s := fsign eb mb h in
  let e := fexp eb mb h in
  let m := fman mb h in
  if e =? emax then
    if m =? 0 then fpack 11 52 s 2047 0
    else fpack 11 52 s 2047 (N.lor (2 ^ 51) (shl m (52 - mb)))
  else if e =? 0 then
    if m =? 0 then fpack 11 52 s 0 0
    else let p := N.log2 m in
         fpack 11 52 s (p + 1024 - bias - mb) (shl (m - 2 ^ p) (52 - p))
  else fpack 11 52 s (e + 1023 - bias) (shl m (52 - mb)).

(* exact narrowing: Some h iff the (non-NaN) binary64 value is representable in (eb, mb) *)
Definition narrow (eb mb b : N) : option N :=
  let bias := 2 ^ (eb - 1) - 1 in
  let emax := 2 ^ eb - 1 in
  let s := fsign 11 52 b in
  let e := fexp 11 52 b in
  let m := fman 52 b in
  if e =? 2047 then (if m =? 0 then Some (fpack eb mb s emax 0) else None)
  else if e =? 0 then (if m =? 0 then Some (fpack eb mb s 0 0) else None)
  else if (1024 - bias <=? e) && (e <=? 1022 + emax - bias) then
    if low m (52 - mb) =? 0
    then Some (fpack eb mb s (e + bias - 1023) (shr m (52 - mb))) else None
  else if (1024 - bias - mb <=? e) && (e <=? 1023 - bias) then
    let p := e - (1024 - bias - mb) in
    let k := 52 - p in
    let sig := 2 ^ 52 + m in
    if low sig k =? 0 then Some (fpack eb mb s 0 (shr sig k)) else None
  else None.

Definition widen16 := widen 5 10.
Definition widen32 := widen 8 23.
Definition narrow16 := narrow 5 10.
Definition narrow32 := narrow 8 23.

Definition zsgn (s : N) (n : N) : Z := if s =? 0 then Z.of_N n else (- Z.of_N n)%Z.

(* is_exact_int(f) together with the value of `f as i128`:
   Some z iff f is finite, integral and -2^64 <= f < 2^64 (INT_MIN_F..INT_END_F). *)
Definition f64_to_int (b : N) : option Z :=
  let s := fsign 11 52 b in
  let e := fexp 11 52 b in
  let m := fman 52 b in
  if e =? 2047 then None
  else if e =? 0 then (if m =? 0 then Some 0%Z else None)
  else
    let sig := 2 ^ 52 + m in
    if 1075 <=? e then
      if e <? 1087 then Some (zsgn s (shl sig (e - 1075)))
      else if (e =? 1087) && (m =? 0) && (s =? 1) then Some (- 2 ^ 64)%Z
           else None
    else
      let k := 1075 - e in
      if 53 <=? k then None
      else if low sig k =? 0 then Some (zsgn s (shr sig k)) else None.

(* ------------------------------------------------------------------ encoder *)

(* write_major(major, n : u128) *)
Definition write_major (major n : N) : bytes :=
  if n <? 24 then [major * 32 + n]
  else if n <? 256 then [major * 32 + 24; n]
  else if n <? 65536 then (major * 32 + 25) :: be_bytes 2 n
  else if n <? 4294967296 then (major * 32 + 26) :: be_bytes 4 n
  else (major * 32 + 27) :: be_bytes 8 n.          (* (n as u64).to_be_bytes(): truncates *)

(* enc_int(n : i128) *)
Definition enc_int (z : Z) : bytes :=
  if (0 <=? z)%Z then write_major 0 (Z.to_N z) else write_major 1 (Z.to_N (-1 - z)).

(* enc_float(f) *)
Definition enc_float (b : N) : bytes :=
  if f64_is_nan b then [0xf9; 0x7e; 0x00]
  else if f64_is_inf b then (if fsign 11 52 b =? 0 then [0xf9; 0x7c; 0x00] else [0xf9; 0xfc; 0x00])
  else match f64_to_int b with
       | Some z => enc_int z
       | None =>
           match narrow16 b with
           | Some h => 0xf9 :: be_bytes 2 h
           | None =>
               match narrow32 b with
               | Some s => 0xfa :: be_bytes 4 s
               | None => 0xfb :: be_bytes 8 b
               end
           end
       end.

Fixpoint concat_results (l : list (result bytes)) : result bytes :=
  match l with
  | [] => Ok []
  | r :: rest => bind r (fun b => bind (concat_results rest) (fun bs => Ok (b ++ bs)))
  end.

(* stable insertion sort on the first component (encoded key bytes) *)
Fixpoint insert_by {A} (x : bytes * A) (l : list (bytes * A)) : list (bytes * A) :=
  match l with
  | [] => [x]
  | y :: r => match bytes_cmp (fst x) (fst y) with
              | Lt => x :: l
              | _ => y :: insert_by x r
              end
  end.

Definition sort_by {A} (l : list (bytes * A)) : list (bytes * A) :=
  fold_right insert_by [] l.

Fixpoint adjacent_dup {A} (l : list (bytes * A)) : bool :=
  match l with
  | x :: ((y :: _) as r) =>
      match bytes_cmp (fst x) (fst y) with Eq => true | _ => adjacent_dup r end
  | _ => false
  end.

(* keys are encoded first (entry order); first failing key wins *)
Fixpoint seq_keys {A} (l : list (result bytes * A)) : result (list (bytes * A)) :=
  match l with
  | [] => Ok []
  | (rk, a) :: rest =>
      bind rk (fun kb => bind (seq_keys rest) (fun r => Ok ((kb, a) :: r)))
  end.

(* the Map arm of enc_value after the per-entry encodings are known *)
Definition finish_map (pairs : list (result bytes * result bytes)) : result bytes :=
  bind (seq_keys pairs) (fun kvs =>
    let sorted := sort_by kvs in
    if adjacent_dup sorted then Err EMapKeyDup
    else bind (concat_results (map (fun kv => bind (snd kv) (fun vb => Ok (fst kv ++ vb))) sorted))
           (fun body => Ok (write_major 5 (lenN pairs) ++ body))).

(* enc_value; `Err ETag` for tags (the only encoder errors are Tag and MapKeyDuplicate;
   ciborium's Value has no other variant reachable from safe construction) *)
Fixpoint enc (v : value) : result bytes :=
  match v with
  | VBool b => Ok [if b then 0xf5 else 0xf4]
  | VNull => Ok [0xf6]
  | VInt z => Ok (enc_int z)
  | VFloat b => Ok (enc_float b)
  | VText s => Ok (write_major 3 (lenN s) ++ s)
  | VBytes s => Ok (write_major 2 (lenN s) ++ s)
  | VArray l =>
      bind (concat_results (map enc l)) (fun body => Ok (write_major 4 (lenN l) ++ body))
  | VMap es => finish_map (map (fun kv => (enc (fst kv), enc (snd kv))) es)
  | VTag _ _ => Err ETag
  end.

(* ------------------------------------------------------------------ decoder *)

(* str::from_utf8 validity (Unicode Table 3-7 well-formed byte sequences) *)
Fixpoint utf8_go (st : option (nat * N * N)) (l : bytes) : bool :=
  match l with
  | [] => match st with None => true | Some _ => false end
  | c :: r =>
      match st with
      | None =>
          if c <? 0x80 then utf8_go None r
          else if (0xC2 <=? c) && (c <=? 0xDF) then utf8_go (Some (1%nat, 0x80, 0xBF)) r
          else if c =? 0xE0 then utf8_go (Some (2%nat, 0xA0, 0xBF)) r
          else if ((0xE1 <=? c) && (c <=? 0xEC)) || (c =? 0xEE) || (c =? 0xEF)
               then utf8_go (Some (2%nat, 0x80, 0xBF)) r
          else if c =? 0xED then utf8_go (Some (2%nat, 0x80, 0x9F)) r
          else if c =? 0xF0 then utf8_go (Some (3%nat, 0x90, 0xBF)) r
          else if (0xF1 <=? c) && (c <=? 0xF3) then utf8_go (Some (3%nat, 0x80, 0xBF)) r
          else if c =? 0xF4 then utf8_go (Some (3%nat, 0x80, 0x8F)) r
          else false
      | Some (k, lo, hi) =>
          if (lo <=? c) && (c <=? hi) then
            match k with
            | 1%nat => utf8_go None r
            | S k' => utf8_go (Some (k', 0x80, 0xBF)) r
            | O => false
            end
          else false
      end
  end.

Definition utf8_valid (l : bytes) : bool := utf8_go None l.

(* read_uint(bytes, idx, nbytes) *)
Definition read_uint (n : nat) (b : bytes) : result (N * bytes) :=
  if (length b <? n)%nat then Err EIncomplete else Ok (from_be (firstn n b), skipn n b).

(* read_len(bytes, idx, info) *)
Definition read_len (info : N) (b : bytes) : result (N * bytes) :=
  if info <? 24 then Ok (info, b)
  else if info =? 24 then
    bind (read_uint 1 b) (fun '(v, r) => if v <=? 23 then Err ENonCanonInt else Ok (v, r))
  else if info =? 25 then
    bind (read_uint 2 b) (fun '(v, r) => if v <=? 0xff then Err ENonCanonInt else Ok (v, r))
  else if info =? 26 then
    bind (read_uint 4 b) (fun '(v, r) => if v <=? 0xffff then Err ENonCanonInt else Ok (v, r))
  else if info =? 27 then
    bind (read_uint 8 b) (fun '(v, r) => if v <=? 0xffffffff then Err ENonCanonInt else Ok (v, r))
  else if info =? 31 then Err EIndefinite
  else Err EBadInfo.

(* the `for _ in 0..len { items.push(dec_value(..)?) }` loop; [d] decodes one value;
   [k] is loop fuel (every successful [d] consumes at least one byte) *)
Fixpoint dec_seq (d : bytes -> result (value * bytes)) (k : nat) (n : N) (b : bytes)
  : result (list value * bytes) :=
  if n =? 0 then Ok ([], b)
  else match k with
       | O => Err EFuel
       | S k' =>
           bind (d b) (fun '(v, b1) =>
           bind (dec_seq d k' (n - 1) b1) (fun '(vs, b2) => Ok (v :: vs, b2)))
       end.

(* the map loop with `last_key`; the key's bytes are the consumed prefix *)
Fixpoint dec_map (d : bytes -> result (value * bytes)) (k : nat) (n : N) (last : option bytes)
  (b : bytes) : result (list (value * value) * bytes) :=
  if n =? 0 then Ok ([], b)
  else match k with
       | O => Err EFuel
       | S k' =>
           bind (d b) (fun '(kv, b1) =>
           let kb := firstn (length b - length b1) b in
           let order_ok :=
             match last with
             | None => Ok tt
             | Some prev =>
                 match bytes_cmp kb prev with
                 | Eq => Err EMapKeyDup
                 | Lt => Err EMapKeyOrder
                 | Gt => Ok tt
                 end
             end in
           bind order_ok (fun _ =>
           bind (d b1) (fun '(vv, b2) =>
           bind (dec_map d k' (n - 1) (Some kb) b2) (fun '(es, b3) => Ok ((kv, vv) :: es, b3)))))
       end.

Definition dec_float16 (r : bytes) : result (value * bytes) :=
  bind (read_uint 2 r) (fun '(h, r1) =>
    let f := widen16 h in
    if f64_is_nan f && negb (h =? 0x7e00) then Err ENonCanonFloat
    else match f64_to_int f with
         | Some _ => Err EFloatShouldBeInt
         | None => Ok (VFloat f, r1)
         end).

Definition dec_float32 (r : bytes) : result (value * bytes) :=
  bind (read_uint 4 r) (fun '(s, r1) =>
    let f := widen32 s in
    match f64_to_int f with
    | Some _ => Err EFloatShouldBeInt
    | None =>
        if f64_is_nan f then Err ENonCanonFloat
        else match narrow16 f with
             | Some _ => Err ENonCanonFloat
             | None => Ok (VFloat f, r1)
             end
    end).

Definition dec_float64 (r : bytes) : result (value * bytes) :=
  bind (read_uint 8 r) (fun '(f, r1) =>
    match f64_to_int f with
    | Some _ => Err EFloatShouldBeInt
    | None =>
        if f64_is_nan f then Err ENonCanonFloat
        else match narrow16 f with
             | Some _ => Err ENonCanonFloat
             | None =>
                 match narrow32 f with
                 | Some _ => Err ENonCanonFloat
                 | None => Ok (VFloat f, r1)
                 end
             end
    end).

(* the arms of dec_value that do not recurse: majors 0-3, 6, 7 *)
Definition dec_scalar (major info : N) (r : bytes) : result (value * bytes) :=
  if major =? 0 then
    bind (read_len info r) (fun '(n, r1) => Ok (VInt (Z.of_N n), r1))
  else if major =? 1 then
    (* Integer::try_from(-(1 + n)) cannot fail for n < 2^64 *)
    bind (read_len info r) (fun '(n, r1) => Ok (VInt (-1 - Z.of_N n)%Z, r1))
  else if (major =? 2) || (major =? 3) then
    bind (read_len info r) (fun '(n, r1) =>
      if lenN r1 <? n then Err EIncomplete
      else
        let data := firstn (N.to_nat n) r1 in
        let r2 := skipn (N.to_nat n) r1 in
        if major =? 2 then Ok (VBytes data, r2)
        else if utf8_valid data then Ok (VText data, r2) else Err EUtf8)
  else if major =? 6 then Err ETag
  else
    if info =? 20 then Ok (VBool false, r)
    else if info =? 21 then Ok (VBool true, r)
    else if info =? 22 then Ok (VNull, r)
    else if info =? 25 then dec_float16 r
    else if info =? 26 then dec_float32 r
    else if info =? 27 then dec_float64 r
    else if info =? 31 then Err EIndefinite
    else Err ESimple.

Definition MAX_DECODE_DEPTH : N := 128.

(* dec_value WITHOUT the element budget (an auxiliary decoder used in the proofs; the budget only
   turns some rejections into Incomplete, see [dec_value_b] and the budget lemmas in CborProofs);
   [fuel] bounds the recursion, [depth] is the Rust `depth` argument *)
Fixpoint dec_value (fuel : nat) (depth : N) (b : bytes) : result (value * bytes) :=
  match fuel with
  | O => Err EFuel
  | S f =>
      if MAX_DECODE_DEPTH <? depth then Err EDepth
      else
      match b with
      | [] => Err EIncomplete
      | b0 :: r =>
          let major := b0 / 32 in
          let info := b0 mod 32 in
          if major =? 4 then
            bind (read_len info r) (fun '(n, r1) =>
            bind (dec_seq (dec_value f (depth + 1)) (S (length r1)) n r1) (fun '(items, r2) =>
              Ok (VArray items, r2)))
          else if major =? 5 then
            bind (read_len info r) (fun '(n, r1) =>
            bind (dec_map (dec_value f (depth + 1)) (S (length r1)) n None r1) (fun '(es, r2) =>
              Ok (VMap es, r2)))
          else dec_scalar major info r
      end
  end.

Definition decode_nb (b : bytes) : result value :=
  match dec_value (S (length b)) 0 b with
  | Ok (v, []) => Ok v
  | Ok (_, _ :: _) => Err ETrailing
  | Err e => Err e
  end.

(* ---- the decoder as it is: the same traversal threading the element budget
   (`reserve_elements`: declared container lengths are charged against bytes.len()) ---- *)
Fixpoint dec_seq_b (d : N -> bytes -> result (value * bytes * N)) (k : nat) (n : N) (bud : N) (b : bytes)
  : result (list value * bytes * N) :=
  if n =? 0 then Ok ([], b, bud)
  else match k with
       | O => Err EFuel
       | S k' =>
           bind (d bud b) (fun '(v, b1, bud1) =>
           bind (dec_seq_b d k' (n - 1) bud1 b1) (fun '(vs, b2, bud2) => Ok (v :: vs, b2, bud2)))
       end.

Fixpoint dec_map_b (d : N -> bytes -> result (value * bytes * N)) (k : nat) (n : N) (last : option bytes)
  (bud : N) (b : bytes) : result (list (value * value) * bytes * N) :=
  if n =? 0 then Ok ([], b, bud)
  else match k with
       | O => Err EFuel
       | S k' =>
           bind (d bud b) (fun '(kv, b1, bud1) =>
           let kb := firstn (length b - length b1) b in
           let order_ok :=
             match last with
             | None => Ok tt
             | Some prev =>
                 match bytes_cmp kb prev with
                 | Eq => Err EMapKeyDup
                 | Lt => Err EMapKeyOrder
                 | Gt => Ok tt
                 end
             end in
           bind order_ok (fun _ =>
           bind (d bud1 b1) (fun '(vv, b2, bud2) =>
           bind (dec_map_b d k' (n - 1) (Some kb) bud2 b2) (fun '(es, b3, bud3) => Ok ((kv, vv) :: es, b3, bud3)))))
       end.

Fixpoint dec_value_b (fuel : nat) (depth : N) (bud : N) (b : bytes) : result (value * bytes * N) :=
  match fuel with
  | O => Err EFuel
  | S f =>
      if MAX_DECODE_DEPTH <? depth then Err EDepth
      else
      match b with
      | [] => Err EIncomplete
      | b0 :: r =>
          let major := b0 / 32 in
          let info := b0 mod 32 in
          if major =? 4 then
            bind (read_len info r) (fun '(n, r1) =>
            if bud <? n then Err EIncomplete            (* reserve_elements *)
            else
            bind (dec_seq_b (dec_value_b f (depth + 1)) (S (length r1)) n (bud - n) r1) (fun '(items, r2, bud2) =>
              Ok (VArray items, r2, bud2)))
          else if major =? 5 then
            bind (read_len info r) (fun '(n, r1) =>
            if bud <? n then Err EIncomplete
            else
            bind (dec_map_b (dec_value_b f (depth + 1)) (S (length r1)) n None (bud - n) r1) (fun '(es, r2, bud2) =>
              Ok (VMap es, r2, bud2)))
          else bind (dec_scalar major info r) (fun '(v, r1) => Ok (v, r1, bud))
      end
  end.

(* decode_value *)
Definition decode (b : bytes) : result value :=
  match dec_value_b (S (length b)) 0 (lenN b) b with
  | Ok (v, [], _) => Ok v
  | Ok (_, _ :: _, _) => Err ETrailing
  | Err e => Err e
  end.

(* ------------------------------------------------------------------ normal form *)

Definition key_bytes (k : value) : bytes :=
  match enc k with Ok b => b | Err _ => [] end.

(* what a value becomes across one encode/decode: integral floats -> integers,
   NaN -> the canonical NaN, map entries in encoded-key order *)
Fixpoint norm (v : value) : value :=
  match v with
  | VFloat b =>
      if f64_is_nan b then VFloat CANON_NAN
      else if f64_is_inf b then VFloat b
      else match f64_to_int b with Some z => VInt z | None => VFloat b end
  | VArray l => VArray (map norm l)
  | VMap es =>
      VMap (map snd (sort_by (map (fun kv => (key_bytes (fst kv), (norm (fst kv), norm (snd kv)))) es)))
  | VTag t x => VTag t (norm x)
  | x => x
  end.

(* ------------------------------------------------------------------ predicates used in the theorems *)

(* every `ciborium::value::Value` the encoder can be given satisfies this: bytes are bytes,
   text is valid UTF-8, lengths fit u64, integers are in [-2^64, 2^64), floats are 64-bit patterns *)
Fixpoint wf_shape (v : value) : bool :=
  match v with
  | VBool _ | VNull => true
  | VInt z => ((- 2 ^ 64 <=? z) && (z <? 2 ^ 64))%Z
  | VFloat b => b <? 2 ^ 64
  | VText s => wf_bytes s && utf8_valid s && (lenN s <? 2 ^ 64)
  | VBytes s => wf_bytes s && (lenN s <? 2 ^ 64)
  | VArray l => (lenN l <? 2 ^ 64) && forallb wf_shape l
  | VMap es => (lenN es <? 2 ^ 64) && forallb (fun kv => wf_shape (fst kv) && wf_shape (snd kv)) es
  | VTag t x => (t <? 2 ^ 64) && wf_shape x
  end.

(* nesting depth: 0 for scalars and empty containers, 1 + the deepest child otherwise (the depth
   at which the decoder meets the deepest node when the root is at depth 0) *)
Fixpoint vdepth (v : value) : N :=
  match v with
  | VArray l => fold_right (fun x acc => N.max (1 + vdepth x) acc) 0 l
  | VMap es => fold_right (fun kv acc => N.max (N.max (1 + vdepth (fst kv)) (1 + vdepth (snd kv))) acc) 0 es
  | VTag _ x => 1 + vdepth x
  | _ => 0
  end.

(* the documented domain of the codec: decode_value rejects nesting deeper than MAX_DECODE_DEPTH,
   so only values of depth <= 128 can round-trip *)
Definition wf_value (v : value) : bool := wf_shape v && (vdepth v <=? MAX_DECODE_DEPTH).

(* ------------------------------------------------------------------ rendering (tie)
   ASCII text of a value, the same syntax the harness prints:
   T F N  i+<hex> i-<hex>  f<16 hex>  t[<hex>] b[<hex>]  a(v,v)  m(k:v,k:v)  g<hex>(v) *)

Definition hexdigit (d : N) : N := if d <? 10 then 48 + d else 87 + d.

Fixpoint hex_fixed (n : nat) (x : N) (acc : bytes) : bytes :=
  match n with
  | O => acc
  | S n' => hex_fixed n' (x / 16) (hexdigit (x mod 16) :: acc)
  end.

Definition hex_min (x : N) : bytes :=
  hex_fixed (N.to_nat ((N.log2 x) / 4 + 1)) x [].

Definition hex_bytes (l : bytes) : bytes :=
  flat_map (fun b => hex_fixed 2 b []) l.

Fixpoint sep_concat (sep : N) (l : list bytes) : bytes :=
  match l with
  | [] => []
  | [x] => x
  | x :: r => x ++ sep :: sep_concat sep r
  end.

Fixpoint show (v : value) : bytes :=
  match v with
  | VBool true => [84]
  | VBool false => [70]
  | VNull => [78]
  | VInt z => 105 :: (if (0 <=? z)%Z then 43 :: hex_min (Z.to_N z) else 45 :: hex_min (Z.to_N (- z)))
  | VFloat b => 102 :: hex_fixed 16 b []
  | VText s => 116 :: 91 :: hex_bytes s ++ [93]
  | VBytes s => 98 :: 91 :: hex_bytes s ++ [93]
  | VArray l => 97 :: 40 :: sep_concat 44 (map show l) ++ [41]
  | VMap es => 109 :: 40 :: sep_concat 44 (map (fun kv => show (fst kv) ++ 58 :: show (snd kv)) es) ++ [41]
  | VTag t x => 103 :: hex_min t ++ 40 :: show x ++ [41]
  end.

Definition err_code (e : err) : N :=
  match e with
  | EIncomplete => 1 | ETrailing => 2 | ETag => 3 | EIndefinite => 4 | ENonCanonInt => 5
  | ENonCanonFloat => 6 | EFloatShouldBeInt => 7 | EMapKeyOrder => 8 | EMapKeyDup => 9
  | EBadInfo => 10 | EIntRange => 11 | EUtf8 => 12 | ESimple => 13 | EDepth => 14 | EFuel => 99
  end.

(* (0, bytes) for Ok, (code, []) for Err *)
Definition show_enc (r : result bytes) : N * bytes :=
  match r with Ok b => (0, b) | Err e => (err_code e, []) end.
Definition show_dec (r : result value) : N * bytes :=
  match r with Ok v => (0, show v) | Err e => (err_code e, []) end.

(* value direction: encode, decode the encoding, re-encode the decoded value *)
Definition run_value (v : value) : (N * bytes) * (N * bytes) * (N * bytes) :=
  let e := enc v in
  (show_enc e,
   match e with Ok b => show_dec (decode b) | Err _ => (100, []) end,
   show_dec (Ok (norm v))).

(* byte direction: decode, re-encode *)
Definition run_bytes (b : bytes) : (N * bytes) * (N * bytes) :=
  let d := decode b in
  (show_dec d, match d with Ok v => show_enc (enc v) | Err _ => (100, []) end).

(* ------------------------------------------------------------------ fingerprints (tie only)
   A polynomial fingerprint of a value, implemented identically in the harness,
   used to compare model and implementation over exhaustive byte universes. *)
Definition FP_MASK : N := N.ones 61.
Definition mix (a b : N) : N := N.land (a * 1000003 + b + 12345) FP_MASK.

Fixpoint fp (v : value) : N :=
  match v with
  | VBool false => 11
  | VBool true => 12
  | VNull => 13
  | VInt z => mix (mix 21 (if (z <? 0)%Z then 1 else 0)) (N.land (Z.to_N (Z.abs z)) FP_MASK)
  | VFloat b => mix 22 (N.land b FP_MASK)
  | VText s => mix (fold_left mix s 23) (lenN s)
  | VBytes s => mix (fold_left mix s 24) (lenN s)
  | VArray l => fold_left mix (map fp l) 25
  | VMap es => fold_left (fun acc kv => mix (mix acc (fst kv)) (snd kv))
                 (map (fun kv => (fp (fst kv), fp (snd kv))) es) 26
  | VTag t x => mix (mix 27 (N.land t FP_MASK)) (fp x)
  end.

Definition NONCANON_FLAG : N := 4611686018427387904.   (* 2^62 *)

(* result class of one byte string: error code, or 1000 + fingerprint (+2^62 if the
   accepted value does not re-encode to the same bytes) *)
Definition code_of (b : bytes) : N :=
  match decode b with
  | Err e => err_code e
  | Ok v =>
      1000 + fp v +
      match enc v with
      | Ok b' => if list_eq_dec N.eq_dec b' b then 0 else NONCANON_FLAG
      | Err _ => NONCANON_FLAG
      end
  end.

(* run-length encoded classes of every byte string prefix ++ s with |s| = n, in
   lexicographic order (s = be_bytes n i for i = 0 .. 256^n - 1); tail recursive *)
Fixpoint exh_loop (fuel : nat) (prefix : bytes) (n : nat) (i : N) (cur cnt : N)
  (acc : list (N * N)) : list (N * N) :=
  match fuel with
  | O => rev_append acc [(cur, cnt)]
  | S fuel' =>
      let c := code_of (prefix ++ be_bytes n i) in
      if c =? cur then exh_loop fuel' prefix n (i + 1) cur (cnt + 1) acc
      else exh_loop fuel' prefix n (i + 1) c 1 ((cur, cnt) :: acc)
  end.

Definition exh_codes (prefix : bytes) (n : nat) : list (N * N) :=
  match N.to_nat (256 ^ N.of_nat n) with
  | O => []
  | S k => exh_loop k prefix n 1 (code_of (prefix ++ be_bytes n 0)) 1 []
  end.

(* fold-fingerprint of the widening table of all 2^16 halves *)
Fixpoint widen16_fp_loop (fuel : nat) (h acc : N) : N :=
  match fuel with
  | O => acc
  | S f => widen16_fp_loop f (h + 1) (mix acc (N.land (widen16 h) FP_MASK))
  end.
Definition widen16_table_fp : N := widen16_fp_loop (N.to_nat 65536) 0 7.
