(* Model of crates/warp-core/src/causal_wal.rs (byte level) -- definitions only.

   Layer A  disk records:      append_segment_record / read_segment_bytes / disk_record_digest
   Layer B  record payloads:   encode_frame / decode_frame / WalFrame::validate_integrity,
                               encode_commit / decode_commit, digests and checksums (preimages)
   Layer C  recovery:          validate_recovery_frame_order, validate_transaction_frames,
                               recover_from_frames_and_commits, recover_wal_segment_bytes,
                               read_filesystem_segments + recover_filesystem_store (one segment),
                               rewrite_filesystem_segments_after_truncation
   Layer D  writer:            FilesystemWalStore::append_transaction with the four fault points,
                               TrustedRuntimeWal cursor (from_recovery / builder), crash = byte prefix

   BLAKE3 is the section variable [H]; [H32 p = H p mod 2^256] is the 32-byte digest.  Hash values
   (ids, digests) are [N] read big-endian; u16/u32/u64 fields are [N] encoded little-endian.
   RecoveryAccessMode only renames the tail posture (Truncated.. / WouldTruncate..): the model has one
   [tail] type for both.  u64 arithmetic overflow ([checked_next], [checked_add]) is modelled by
   unbounded [N]: a stored u64 field can never equal a value >= 2^64, which is the same
   LsnContinuityMismatch the code returns on overflow. *)
From Coq Require Import List NArith Lia Bool.
From Coq Require String Ascii.
From Echo Require Import Base.Bytes.
Import ListNotations.
Open Scope N_scope.

(* ------------------------------------------------------------------ results *)
Inductive err :=
| EDigest            (* WalStoreError::SegmentRecordDigestMismatch (bad magic or bad digest) *)
| EUnknownKind       (* WalStoreError::UnknownDiskRecordKind *)
| EEof | EEnum | ETrailing | EEmbedded   (* WalDecodeError::{UnexpectedEof,UnknownEnumCode,TrailingBytes,InvalidEmbeddedFrame} *)
| ESegMismatch       (* WalStoreError::SegmentMismatch *)
| VPayloadDigest | VHeaderChecksum | VFrameChecksum
| VEmpty | VTxId | VEpoch | VLocalIndex | VLsn | VFirstLsn | VLastLsn | VCount | VRoot | VCommitDigest.

Inductive res (A : Type) := Ok (a : A) | Err (e : err).
Arguments Ok {A} a.
Arguments Err {A} e.

Notation "'let*' x := e 'in' k" :=
  (match e with Ok x => k | Err e' => Err e' end)
  (at level 200, x pattern, e at level 100, k at level 200, right associativity).

Definition err_code (e : err) : N :=
  match e with
  | EDigest => 1 | EUnknownKind => 2 | EEof => 3 | EEnum => 4 | ETrailing => 5 | EEmbedded => 6
  | ESegMismatch => 7 | VPayloadDigest => 8 | VHeaderChecksum => 9 | VFrameChecksum => 10
  | VEmpty => 11 | VTxId => 12 | VEpoch => 13 | VLocalIndex => 14 | VLsn => 15 | VFirstLsn => 16
  | VLastLsn => 17 | VCount => 18 | VRoot => 19 | VCommitDigest => 20
  end.

(* ------------------------------------------------------------------ constants *)
Module WalConst.
Import String Ascii.
Definition ascii_bytes (s : string) : bytes := map N_of_ascii (list_ascii_of_string s).
Definition dom (s : string) : bytes := ascii_bytes s ++ [0].

Definition dom_frame := dom "echo:causal_wal:frame:v1".
Definition dom_payload := dom "echo:causal_wal:payload:v1".
Definition dom_root := dom "echo:causal_wal:records_root:v1".
Definition dom_commit := dom "echo:causal_wal:commit:v1".
Definition dom_hdr := dom "echo:causal_wal:header_checksum:v1".
Definition dom_fchk := dom "echo:causal_wal:frame_checksum:v1".
Definition dom_disk := dom "echo:causal_wal:disk_record:v1".
Definition magic : bytes := ascii_bytes "ECWALR1!".

(* WalRecordKind::stable_code -> label *)
Definition kind_label (k : N) : bytes :=
  ascii_bytes
    match k with
    | 1 => "SubmissionAcceptedRecorded" | 2 => "SubmissionAcceptanceEvidenceRecorded"
    | 3 => "RuntimeLawWitnessRecorded" | 4 => "RuntimeAdmissionTicketIssued"
    | 5 => "TicketedRuntimeIngressRecorded" | 6 => "TickReceiptRecorded"
    | 7 => "RuntimeStateDeltaRecorded" | 8 => "ReceiptCorrelationRecorded"
    | 9 => "ReadingEnvelopeRetained" | 10 => "RetainedMaterialRefRecorded"
    | 11 => "SchedulerFaultQuarantined" | 12 => "TrustedRuntimeControlRecorded"
    | 13 => "CheckpointPublicationRecorded" | 14 => "MaterializationIntentRecorded"
    | 15 => "MaterializationEffectObserved" | 16 => "RecoveryPostureRecorded"
    | 17 => "TopologyStrandForkRecorded" | 18 => "TopologyStrandDropRecorded"
    | 19 => "TopologyBraidEventRecorded" | 20 => "TopologyBraidShellRetained"
    | 21 => "TopologySuffixImportRecorded" | 22 => "SubmissionEnvelopeRetained"
    | 23 => "CausalAnchorFactRecorded" | 24 => "CausalAnchorAdmissionReceiptRecorded"
    | 25 => "ExecutableOperationPackageInstalled" | 26 => "ExecutableOperationExecutionRecorded"
    | 27 => "ExecutableOperationStateDeltaRecorded" | 28 => "ExecutableOperationActionOutcomeRecorded"
    | 29 => "ExternalActionRequestRecorded" | 30 => "ExternalActionClaimRecorded"
    | 31 => "ExternalActionSettlementRecorded"
    | _ => ""
    end%string.

End WalConst.
Export WalConst.

Definition rkind_valid (k : N) : bool := (1 <=? k) && (k <=? 31).   (* WalRecordKind::from_code *)
Definition comp_valid (k : N) : bool := k =? 0.                       (* WalCompressionKind *)
Definition red_valid (k : N) : bool := (1 <=? k) && (k <=? 5).        (* WalRedactionPosture *)
Definition txkind_valid (k : N) : bool := (1 <=? k) && (k <=? 12).    (* WalTransactionKind *)
Definition dur_valid (k : N) : bool := (1 <=? k) && (k <=? 5).        (* WalDurabilityMode *)

(* [Base.Bytes.le_bytes] with shifts instead of div/mod (equal, see WalProofs.le_b_eq): the model is
   executed on real segments and 256-bit div/mod dominates otherwise *)
Fixpoint le_b (n : nat) (x : N) : bytes :=
  match n with
  | O => []
  | S n' => N.land x 255 :: le_b n' (N.shiftr x 8)
  end.
Definition h32b (x : N) : bytes := rev (le_b 32 x).

(* ------------------------------------------------------------------ records *)
Record frame := {
  f_ver : N; f_epoch : N; f_seg : N; f_lsn : N; f_tx : N; f_idx : N; f_kind : N; f_plen : N;
  f_pdig : N; f_codec : N; f_schema : N; f_sver : N; f_cver : N; f_domain : N; f_comp : N;
  f_red : N; f_prev : N; f_hchk : N;
  f_psver : N; f_pbytes : bytes;          (* WalRecordPayload (kind = f_kind after decode) *)
  f_fchk : N }.

Record commit := {
  c_epoch : N; c_tx : N; c_kind : N; c_first : N; c_last : N; c_count : N; c_root : N;
  c_froot : N; c_prev : N; c_dur : N; c_sver : N; c_digest : N }.

Inductive lrec := LFrame (f : frame) | LCommit (c : commit).

(* field ranges of the Rust types (u16/u32/u64/[u8;32]) and valid enum codes *)
Definition wf_frame (f : frame) : Prop :=
  f_ver f < 2 ^ 16 /\ f_epoch f < 2 ^ 256 /\ f_seg f < 2 ^ 64 /\ f_lsn f < 2 ^ 64 /\
  f_tx f < 2 ^ 256 /\ f_idx f < 2 ^ 32 /\ rkind_valid (f_kind f) = true /\ f_plen f < 2 ^ 64 /\
  f_pdig f < 2 ^ 256 /\ f_codec f < 2 ^ 256 /\ f_schema f < 2 ^ 256 /\ f_sver f < 2 ^ 16 /\
  f_cver f < 2 ^ 16 /\ f_domain f < 2 ^ 256 /\ comp_valid (f_comp f) = true /\
  red_valid (f_red f) = true /\ f_prev f < 2 ^ 256 /\ f_hchk f < 2 ^ 32 /\ f_psver f < 2 ^ 16 /\
  lenN (f_pbytes f) < 2 ^ 64 /\ f_fchk f < 2 ^ 32.
Definition wf_commit (c : commit) : Prop :=
  c_epoch c < 2 ^ 256 /\ c_tx c < 2 ^ 256 /\ txkind_valid (c_kind c) = true /\ c_first c < 2 ^ 64 /\
  c_last c < 2 ^ 64 /\ c_count c < 2 ^ 64 /\ c_root c < 2 ^ 256 /\ c_froot c < 2 ^ 256 /\
  c_prev c < 2 ^ 256 /\ dur_valid (c_dur c) = true /\ c_sver c < 2 ^ 16 /\ c_digest c < 2 ^ 256.

(* ------------------------------------------------------------------ byte cursor *)
Definition take (n : nat) (bs : bytes) : res (bytes * bytes) :=
  if Nat.ltb (length bs) n then Err EEof else Ok (firstn n bs, skipn n bs).
Definition rd_le (n : nat) (bs : bytes) : res (N * bytes) :=
  let* (a, r) := take n bs in Ok (from_le a, r).
Definition rd_h (bs : bytes) : res (N * bytes) :=
  let* (a, r) := take 32 bs in Ok (from_be a, r).
Definition rd_vec (bs : bytes) : res (bytes * bytes) :=
  let* (n, r) := rd_le 8 bs in
  if lenN r <? n then Err EEof else Ok (firstn (N.to_nat n) r, skipn (N.to_nat n) r).

Fixpoint bytes_eqb (a b : bytes) : bool :=
  match a, b with
  | [], [] => true
  | x :: a', y :: b' => (x =? y) && bytes_eqb a' b'
  | _, _ => false
  end.

Section WithHash.
Variable H : bytes -> N.
Definition H32 (p : bytes) : N := N.land (H p) (N.ones 256).

(* checksum32: first four digest bytes as a little-endian u32 *)
Definition checksum32 (d p : bytes) : N := from_le (firstn 4 (h32b (H32 (d ++ p)))).

(* ------------------------------------------------------------------ preimages *)
(* WalRecordPayload::digest *)
Definition payload_pre (f : frame) : bytes :=
  dom_payload ++ kind_label (f_kind f) ++ le_b 2 (f_psver f) ++
  le_b 8 (lenN (f_pbytes f)) ++ f_pbytes f.
Definition payload_digest (f : frame) : N := H32 (payload_pre f).

(* WalFrameHeader::checksum_input *)
Definition hdr_input (inc : bool) (f : frame) : bytes :=
  le_b 2 (f_ver f) ++ h32b (f_epoch f) ++ le_b 8 (f_seg f) ++ le_b 8 (f_lsn f) ++
  h32b (f_tx f) ++ le_b 4 (f_idx f) ++ kind_label (f_kind f) ++ le_b 8 (f_plen f) ++
  h32b (f_pdig f) ++ h32b (f_codec f) ++ h32b (f_schema f) ++ le_b 2 (f_sver f) ++
  le_b 2 (f_cver f) ++ h32b (f_domain f) ++ [f_comp f] ++ [f_red f] ++ h32b (f_prev f) ++
  (if inc then le_b 4 (f_hchk f) else []).
Definition hdr_checksum (f : frame) : N := checksum32 dom_hdr (hdr_input false f).
(* compute_frame_checksum *)
Definition fchk_input (f : frame) : bytes :=
  hdr_input true f ++ h32b (payload_digest f) ++ le_b 8 (lenN (f_pbytes f)) ++ f_pbytes f.
Definition frame_checksum (f : frame) : N := checksum32 dom_fchk (fchk_input f).
(* WalFrame::digest *)
Definition frame_digest_pre (f : frame) : bytes :=
  dom_frame ++ hdr_input true f ++ h32b (payload_digest f) ++ le_b 4 (f_fchk f).
Definition frame_digest (f : frame) : N := H32 (frame_digest_pre f).
(* records_root *)
Definition root_pre (fs : list frame) : bytes :=
  dom_root ++ le_b 8 (lenN fs) ++ flat_map (fun f => h32b (frame_digest f)) fs.
Definition records_root (fs : list frame) : N := H32 (root_pre fs).
(* WalTransactionCommit::compute_digest *)
Definition commit_pre (c : commit) : bytes :=
  dom_commit ++ h32b (c_epoch c) ++ h32b (c_tx c) ++ [c_kind c] ++ le_b 8 (c_first c) ++
  le_b 8 (c_last c) ++ le_b 8 (c_count c) ++ h32b (c_root c) ++ h32b (c_froot c) ++
  h32b (c_prev c) ++ [c_dur c] ++ le_b 2 (c_sver c).
Definition commit_digest (c : commit) : N := H32 (commit_pre c).
(* disk_record_digest *)
Definition disk_pre (kind : N) (payload : bytes) : bytes :=
  dom_disk ++ [kind] ++ le_b 8 (lenN payload) ++ payload.
Definition disk_digest (kind : N) (payload : bytes) : N := H32 (disk_pre kind payload).

(* WalFrame::validate_integrity (RecordKindMismatch cannot arise: one kind field) *)
Definition frame_check (f : frame) : option err :=
  if negb (payload_digest f =? f_pdig f) then Some VPayloadDigest
  else if negb (hdr_checksum f =? f_hchk f) then Some VHeaderChecksum
  else if negb (frame_checksum f =? f_fchk f) then Some VFrameChecksum
  else None.
Definition frame_ok (f : frame) : bool := match frame_check f with None => true | Some _ => false end.

(* ------------------------------------------------------------------ codecs *)
Definition encode_frame (f : frame) : bytes :=
  le_b 2 (f_ver f) ++ h32b (f_epoch f) ++ le_b 8 (f_seg f) ++ le_b 8 (f_lsn f) ++
  h32b (f_tx f) ++ le_b 4 (f_idx f) ++ [f_kind f] ++ le_b 8 (f_plen f) ++
  h32b (f_pdig f) ++ h32b (f_codec f) ++ h32b (f_schema f) ++ le_b 2 (f_sver f) ++
  le_b 2 (f_cver f) ++ h32b (f_domain f) ++ [f_comp f] ++ [f_red f] ++ h32b (f_prev f) ++
  le_b 4 (f_hchk f) ++ le_b 2 (f_psver f) ++ le_b 8 (lenN (f_pbytes f)) ++
  f_pbytes f ++ le_b 4 (f_fchk f).

(* decode_frame without the final validate_integrity *)
Definition parse_frame (bs : bytes) : res frame :=
  let* (ver, r) := rd_le 2 bs in
  let* (epoch, r) := rd_h r in
  let* (seg, r) := rd_le 8 r in
  let* (lsn, r) := rd_le 8 r in
  let* (tx, r) := rd_h r in
  let* (idx, r) := rd_le 4 r in
  let* (kind, r) := rd_le 1 r in
  if negb (rkind_valid kind) then Err EEnum else
  let* (plen, r) := rd_le 8 r in
  let* (pdig, r) := rd_h r in
  let* (codec, r) := rd_h r in
  let* (schema, r) := rd_h r in
  let* (sver, r) := rd_le 2 r in
  let* (cver, r) := rd_le 2 r in
  let* (domain, r) := rd_h r in
  let* (comp, r) := rd_le 1 r in
  if negb (comp_valid comp) then Err EEnum else
  let* (red, r) := rd_le 1 r in
  if negb (red_valid red) then Err EEnum else
  let* (prev, r) := rd_h r in
  let* (hchk, r) := rd_le 4 r in
  let* (psver, r) := rd_le 2 r in
  let* (pb, r) := rd_vec r in
  let* (fchk, r) := rd_le 4 r in
  match r with
  | _ :: _ => Err ETrailing
  | [] =>
      Ok {| f_ver := ver; f_epoch := epoch; f_seg := seg; f_lsn := lsn; f_tx := tx; f_idx := idx;
            f_kind := kind; f_plen := plen; f_pdig := pdig; f_codec := codec; f_schema := schema;
            f_sver := sver; f_cver := cver; f_domain := domain; f_comp := comp; f_red := red;
            f_prev := prev; f_hchk := hchk; f_psver := psver; f_pbytes := pb; f_fchk := fchk |}
  end.

Definition decode_frame (bs : bytes) : res frame :=
  let* f := parse_frame bs in
  if frame_ok f then Ok f else Err EEmbedded.

Definition encode_commit (c : commit) : bytes :=
  h32b (c_epoch c) ++ h32b (c_tx c) ++ [c_kind c] ++ le_b 8 (c_first c) ++
  le_b 8 (c_last c) ++ le_b 8 (c_count c) ++ h32b (c_root c) ++ h32b (c_froot c) ++
  h32b (c_prev c) ++ [c_dur c] ++ le_b 2 (c_sver c) ++ h32b (c_digest c).

Definition decode_commit (bs : bytes) : res commit :=
  let* (epoch, r) := rd_h bs in
  let* (tx, r) := rd_h r in
  let* (kind, r) := rd_le 1 r in
  if negb (txkind_valid kind) then Err EEnum else
  let* (first, r) := rd_le 8 r in
  let* (last, r) := rd_le 8 r in
  let* (count, r) := rd_le 8 r in
  let* (root, r) := rd_h r in
  let* (froot, r) := rd_h r in
  let* (prev, r) := rd_h r in
  let* (dur, r) := rd_le 1 r in
  if negb (dur_valid dur) then Err EEnum else
  let* (sver, r) := rd_le 2 r in
  let* (dg, r) := rd_h r in
  match r with
  | _ :: _ => Err ETrailing
  | [] => Ok {| c_epoch := epoch; c_tx := tx; c_kind := kind; c_first := first; c_last := last;
                c_count := count; c_root := root; c_froot := froot; c_prev := prev; c_dur := dur;
                c_sver := sver; c_digest := dg |}
  end.

(* ------------------------------------------------------------------ layer A: disk records *)
(* append_segment_record *)
Definition enc_rec (kind : N) (payload : bytes) : bytes :=
  magic ++ [kind] ++ le_b 8 (lenN payload) ++ payload ++ h32b (disk_digest kind payload).

(* read_segment_bytes, generic in the per-kind payload decoder *)
Section Read.
Context {A : Type}.
Variable dec : N -> bytes -> res A.

Fixpoint read_loop (fuel : nat) (bs : bytes) : res (list A * bool) :=
  match bs with
  | [] => Ok ([], false)
  | _ :: _ =>
      match fuel with
      | O => Ok ([], true)
      | S fuel' =>
          if Nat.ltb (length bs) 17 then Ok ([], true)
          else if negb (bytes_eqb (firstn 8 bs) magic) then Err EDigest
          else
            let kind := nth 8 bs 0 in
            let plen := from_le (firstn 8 (skipn 9 bs)) in
            let rest := skipn 17 bs in
            if lenN rest <? plen + 32 then Ok ([], true)
            else
              let payload := firstn (N.to_nat plen) rest in
              let dig := firstn 32 (skipn (N.to_nat plen) rest) in
              if negb (from_be dig =? disk_digest kind payload) then Err EDigest
              else
                let* v := dec kind payload in
                let* (vs, torn) := read_loop fuel' (skipn (N.to_nat plen + 32) rest) in
                Ok (v :: vs, torn)
      end
  end.

Definition read_records (bs : bytes) : res (list A * bool) := read_loop (length bs) bs.
End Read.

Definition decode_rec (kind : N) (payload : bytes) : res lrec :=
  if kind =? 1 then let* f := decode_frame payload in Ok (LFrame f)
  else if kind =? 2 then let* c := decode_commit payload in Ok (LCommit c)
  else Err EUnknownKind.

Definition read_segment (bs : bytes) : res (list lrec * bool) := read_records decode_rec bs.

Definition lrec_kind (r : lrec) : N := match r with LFrame _ => 1 | LCommit _ => 2 end.
Definition lrec_payload (r : lrec) : bytes :=
  match r with LFrame f => encode_frame f | LCommit c => encode_commit c end.
Definition enc_lrec (r : lrec) : bytes := enc_rec (lrec_kind r) (lrec_payload r).
Definition lrec_size (r : lrec) : nat := (49 + length (lrec_payload r))%nat.
(* what append_frame / flush_commit accept: in-range fields, and frames pass validate_integrity *)
Definition lrec_wf (r : lrec) : Prop :=
  match r with
  | LFrame f => wf_frame f /\ frame_ok f = true
  | LCommit c => wf_commit c
  end.
Definition encode_log (rs : list lrec) : bytes := flat_map enc_lrec rs.

Definition frames_of (rs : list lrec) : list frame :=
  flat_map (fun r => match r with LFrame f => [f] | _ => [] end) rs.
Definition commits_of (rs : list lrec) : list commit :=
  flat_map (fun r => match r with LCommit c => [c] | _ => [] end) rs.

(* ------------------------------------------------------------------ layer C: recovery *)
(* stable insertion sort by key (slice::sort_by_key is stable) *)
Section Sort.
Context {A : Type}.
Variable key : A -> N.
Fixpoint insert_by (x : A) (l : list A) : list A :=
  match l with
  | [] => [x]
  | y :: r => if key y <=? key x then y :: insert_by x r else x :: l
  end.
Definition sort_by (l : list A) : list A := fold_left (fun acc x => insert_by x acc) l [].
End Sort.

(* validate_recovery_frame_order *)
Fixpoint check_order (prev : option N) (fs : list frame) : res unit :=
  match fs with
  | [] => Ok tt
  | f :: r =>
      match frame_check f with
      | Some e => Err e
      | None =>
          match prev with
          | Some p => if f_lsn f =? p + 1 then check_order (Some (f_lsn f)) r else Err VLsn
          | None => check_order (Some (f_lsn f)) r
          end
      end
  end.
Definition validate_order (fs : list frame) : res unit := check_order None (sort_by f_lsn fs).

Definition tx_frames (fs : list frame) (c : commit) : list frame :=
  filter (fun f => (f_tx f =? c_tx c) && (c_first c <=? f_lsn f) && (f_lsn f <=? c_last c)) fs.

Fixpoint check_tx_frames (c : commit) (i : N) (fs : list frame) : res unit :=
  match fs with
  | [] => Ok tt
  | f :: r =>
      match frame_check f with
      | Some e => Err e
      | None =>
          if negb (f_tx f =? c_tx c) then Err VTxId
          else if negb (f_epoch f =? c_epoch c) then Err VEpoch
          else if negb (f_idx f =? i) then Err VLocalIndex
          else if negb (f_lsn f =? c_first c + i) then Err VLsn
          else check_tx_frames c (i + 1) r
      end
  end.

(* validate_transaction_frames *)
Definition validate_tx (fs : list frame) (c : commit) : res unit :=
  match fs with
  | [] => Err VEmpty
  | f0 :: _ =>
      if negb (f_lsn f0 =? c_first c) then Err VFirstLsn
      else if negb (f_lsn (last fs f0) =? c_last c) then Err VLastLsn
      else if negb (lenN fs =? c_count c) then Err VCount
      else
        let* _ := check_tx_frames c 0 fs in
        if negb (records_root fs =? c_root c) then Err VRoot
        else if negb (commit_digest c =? c_digest c) then Err VCommitDigest
        else Ok tt
  end.

Inductive tail := TClean | TAll | TAfter (lsn : N).
Definition rtx := (commit * list frame)%type.

(* frames.iter().map(lsn).min() *)
Definition min_lsn (fs : list frame) : option N :=
  fold_right (fun f acc => match acc with
                           | None => Some (f_lsn f)
                           | Some m => Some (N.min (f_lsn f) m)
                           end) None fs.

(* Lsn::checked_next *)
Definition lsn_next (l : N) : option N := if l =? 2 ^ 64 - 1 then None else Some (l + 1).

(* the commit loop of recover_from_frames_and_commits: commit markers must tile the frame LSN range in
   order ([expected] = first LSN the next marker has to start at; None = no constraint) *)
Fixpoint recover_commits (fs : list frame) (expected : option N) (cs : list commit) : res (list rtx) :=
  match cs with
  | [] => Ok []
  | c :: r =>
      if match expected with Some e => negb (c_first c =? e) | None => false end then Err VLsn
      else
        let t := tx_frames fs c in
        let* _ := validate_tx t c in
        let* ts := recover_commits fs (lsn_next (c_last c)) r in
        Ok ((c, t) :: ts)
  end.

Definition last_commit_lsn (cs : list commit) : option N :=
  match rev cs with [] => None | c :: _ => Some (c_last c) end.

(* the tail posture computed by recover_from_frames_and_commits: "last committed" is the LAST marker
   in iteration order, not the maximum *)
Definition fc_tail (fs : list frame) (cs : list commit) : tail :=
  let lastl := last_commit_lsn cs in
  if existsb (fun f => match lastl with None => true | Some l => l <? f_lsn f end) fs
  then match lastl with Some l => TAfter l | None => TAll end
  else TClean.

(* recover_from_frames_and_commits *)
Definition recover_fc (fs : list frame) (cs : list commit) : res (list rtx * tail) :=
  let* _ := validate_order fs in
  let* ts := recover_commits fs (min_lsn fs) cs in
  Ok (ts, fc_tail fs cs).

(* RecoveryScanReport::last_committed_lsn (maximum, not last) *)
Definition max_step (acc : option N) (t : rtx) : option N :=
  match acc with
  | None => Some (c_last (fst t))
  | Some m => Some (N.max m (c_last (fst t)))
  end.
Definition max_commit_lsn (ts : list rtx) : option N := fold_left max_step ts None.

Definition torn_adjust (torn : bool) (r : list rtx * tail) : list rtx * tail :=
  match r with
  | (ts, TClean) =>
      if torn then (ts, match max_commit_lsn ts with Some l => TAfter l | None => TAll end)
      else (ts, TClean)
  | _ => r
  end.

(* recover_wal_segment_bytes *)
Definition recover_segment (sid : N) (bs : bytes) : res (list rtx * tail) :=
  let* (rs, torn) := read_segment bs in
  let fs := frames_of rs in
  if existsb (fun f => negb (f_seg f =? sid)) fs then Err ESegMismatch
  else
    let* r := recover_fc fs (commits_of rs) in
    Ok (torn_adjust torn r).

(* read_filesystem_segments (one segment file) + recover_filesystem_store *)
Definition recover_store (bs : bytes) : res (list rtx * tail) :=
  let* (rs, torn) := read_segment bs in
  let fs := sort_by f_lsn (frames_of rs) in
  let cs := sort_by c_last (commits_of rs) in
  let* r := recover_fc fs cs in
  Ok (torn_adjust torn r).

(* rewrite_filesystem_segments_after_truncation / rewrite_segment_records: all kept frames, then
   all kept commit markers *)
Definition rewrite_after (after : N) (fs : list frame) (cs : list commit) : bytes :=
  encode_log (map LFrame (filter (fun f => f_lsn f <=? after) fs) ++
              map LCommit (filter (fun c => c_last c <=? after) cs)).

(* writable recovery of the store: what is on disk afterwards *)
Definition repair (bs : bytes) : bytes :=
  match read_segment bs with
  | Err _ => bs
  | Ok (rs, torn) =>
      let fs := sort_by f_lsn (frames_of rs) in
      let cs := sort_by c_last (commits_of rs) in
      match recover_fc fs cs with
      | Err _ => bs
      | Ok r =>
          match snd (torn_adjust torn r) with
          | TClean => bs
          | TAll => []
          | TAfter l => rewrite_after l fs cs
          end
      end
  end.

(* ------------------------------------------------------------------ layer D: writer *)
(* WalTransactionBuilder::push_record + WalFrame::new *)
Record tx_params := {
  p_epoch : N; p_seg : N; p_tx : N; p_txkind : N; p_codec : N; p_schema : N; p_domain : N;
  p_dur : N; p_froot : N }.

Definition with_sums (f : frame) (pdig hchk fchk : N) : frame :=
  {| f_ver := f_ver f; f_epoch := f_epoch f; f_seg := f_seg f; f_lsn := f_lsn f; f_tx := f_tx f;
     f_idx := f_idx f; f_kind := f_kind f; f_plen := f_plen f; f_pdig := pdig;
     f_codec := f_codec f; f_schema := f_schema f; f_sver := f_sver f; f_cver := f_cver f;
     f_domain := f_domain f; f_comp := f_comp f; f_red := f_red f; f_prev := f_prev f;
     f_hchk := hchk; f_psver := f_psver f; f_pbytes := f_pbytes f; f_fchk := fchk |}.

(* WalFrame::new: payload digest, then header checksum, then frame checksum *)
Definition seal_frame (f0 : frame) : frame :=
  let pd := payload_digest f0 in
  let hc := hdr_checksum (with_sums f0 pd 0 0) in
  with_sums f0 pd hc (frame_checksum (with_sums f0 pd hc 0)).

Definition mk_frame (p : tx_params) (lsn idx prev : N) (kp : N * bytes) : frame :=
  seal_frame
    {| f_ver := 1; f_epoch := p_epoch p; f_seg := p_seg p; f_lsn := lsn; f_tx := p_tx p;
       f_idx := idx; f_kind := fst kp; f_plen := lenN (snd kp); f_pdig := 0;
       f_codec := p_codec p; f_schema := p_schema p; f_sver := 1; f_cver := 1;
       f_domain := p_domain p; f_comp := 0; f_red := 1; f_prev := prev; f_hchk := 0;
       f_psver := 1; f_pbytes := snd kp; f_fchk := 0 |}.

Fixpoint mk_frames (p : tx_params) (lsn idx prev : N) (kps : list (N * bytes)) : list frame :=
  match kps with
  | [] => []
  | kp :: r =>
      let f := mk_frame p lsn idx prev kp in
      f :: mk_frames p (lsn + 1) (idx + 1) (frame_digest f) r
  end.

(* WalTransactionBuilder::commit *)
Definition mk_commit (p : tx_params) (fs : list frame) (first prevc : N) : commit :=
  let c0 := {| c_epoch := p_epoch p; c_tx := p_tx p; c_kind := p_txkind p; c_first := first;
               c_last := first + lenN fs - 1; c_count := lenN fs; c_root := records_root fs;
               c_froot := p_froot p; c_prev := prevc; c_dur := p_dur p; c_sver := 1;
               c_digest := 0 |} in
  {| c_epoch := c_epoch c0; c_tx := c_tx c0; c_kind := c_kind c0; c_first := first;
     c_last := c_last c0; c_count := c_count c0; c_root := c_root c0; c_froot := c_froot c0;
     c_prev := prevc; c_dur := c_dur c0; c_sver := 1; c_digest := commit_digest c0 |}.

Record wtx := { w_frames : list frame; w_commit : commit }.

Definition mk_tx (p : tx_params) (first prevf prevc : N) (kps : list (N * bytes)) : wtx :=
  let fs := mk_frames p first 0 prevf kps in
  {| w_frames := fs; w_commit := mk_commit p fs first prevc |}.

Definition tx_recs (t : wtx) : list lrec := map LFrame (w_frames t) ++ [LCommit (w_commit t)].
Definition log_recs (ts : list wtx) : list lrec := flat_map tx_recs ts.
Definition log_bytes (ts : list wtx) : bytes := encode_log (log_recs ts).
Definition rtx_of (t : wtx) : rtx := (w_commit t, w_frames t).
Definition log_frames (ts : list wtx) : list frame := flat_map w_frames ts.

(* A committed transaction as the code itself judges it (validate_transaction_frames accepts it,
   every field is in range) ... *)
Definition tx_valid (t : wtx) : Prop :=
  Forall wf_frame (w_frames t) /\ wf_commit (w_commit t) /\
  validate_tx (w_frames t) (w_commit t) = Ok tt.
(* ... and a log whose transactions follow each other without an LSN hole, starting at [l0] *)
Fixpoint chain_from (l0 : N) (ts : list wtx) : Prop :=
  match ts with
  | [] => True
  | t :: r => c_first (w_commit t) = l0 /\ chain_from (c_last (w_commit t) + 1) r
  end.
Definition log_valid (l0 : N) (ts : list wtx) : Prop := Forall tx_valid ts /\ chain_from l0 ts.
(* frames with consecutive LSNs starting at [l] (an uncommitted tail) *)
Fixpoint consec (l : N) (fs : list frame) : Prop :=
  match fs with
  | [] => True
  | f :: r => f_lsn f = l /\ consec (l + 1) r
  end.

(* the tail posture a reader must report for committed transactions [ts] followed by the
   uncommitted frames [extra] *)
Definition expected_tail (ts : list wtx) (extra : list frame) : tail :=
  match extra with
  | [] => TClean
  | _ => match last_commit_lsn (map w_commit ts) with Some l => TAfter l | None => TAll end
  end.

(* sizes for the byte-prefix statements *)
Definition payload_small (r : lrec) : Prop := lenN (lrec_payload r) < 2 ^ 64.
Definition tx_size (t : wtx) : nat := length (flat_map enc_lrec (tx_recs t)).

End WithHash.

(* ------------------------------------------------------------------ prefix bookkeeping (hash free) *)
(* the records of [rs] that lie wholly inside the first k bytes, given their encoded sizes *)
Fixpoint whole_within {A} (size : A -> nat) (k : nat) (rs : list A) : list A :=
  match rs with
  | [] => []
  | r :: t => if Nat.leb (size r) k then r :: whole_within size (k - size r) t else []
  end.
Fixpoint on_boundary {A} (size : A -> nat) (k : nat) (rs : list A) : bool :=
  match rs with
  | [] => true
  | r :: t =>
      match k with
      | O => true
      | _ => if Nat.leb (size r) k then on_boundary size (k - size r) t else false
      end
  end.

(* ------------------------------------------------------------------ execution support (tie) *)
(* A finite table standing for BLAKE3 on exactly the preimages the run needs: buckets keyed by a cheap
   fingerprint, exact comparison inside the bucket, an out-of-band value for everything else. *)
Definition fp (p : bytes) : N := lenN p.
Definition hash_miss : N := 0x5eed5eed5eed5eed5eed5eed5eed5eed5eed5eed5eed5eed5eed5eed5eed5eed.
Definition tbl_hash (tbl : list (N * list (bytes * N))) (p : bytes) : N :=
  let k := fp p in
  match find (fun e => fst e =? k) tbl with
  | None => hash_miss
  | Some (_, bucket) =>
      match find (fun e => bytes_eqb (fst e) p) bucket with
      | Some (_, d) => d
      | None => hash_miss
      end
  end.

(* big byte strings are passed as one hexadecimal numeral (Coq's list notation parses quadratically) *)
Fixpoint pos_bits (p : positive) : list bool :=
  match p with
  | xH => [true]
  | xO q => false :: pos_bits q
  | xI q => true :: pos_bits q
  end.
Definition bits_byte (l : list bool) : N :=
  fold_right (fun (b : bool) acc => (if b then 1 else 0) + 2 * acc) 0 l.
Fixpoint bits_bytes_le (fuel : nat) (bits : list bool) : bytes :=
  match fuel with
  | O => []
  | S f => match bits with
           | [] => []
           | _ => bits_byte (firstn 8 bits) :: bits_bytes_le f (skipn 8 bits)
           end
  end.
(* the [len]-byte big-endian string whose value is [n] *)
Definition bytes_of_hex (len : N) (n : N) : bytes :=
  let ln := N.to_nat len in
  let le := match n with N0 => [] | Npos p => bits_bytes_le (S ln) (pos_bits p) end in
  rev (le ++ repeat 0 (ln - length le)).

(* framing-only scan (no digest check), used to enumerate the preimages a run will hash *)
Fixpoint raw_scan (fuel : nat) (bs : bytes) : list (N * bytes) :=
  match fuel with
  | O => []
  | S fuel' =>
      if Nat.ltb (length bs) 17 then []
      else
        let kind := nth 8 bs 0 in
        let plen := from_le (firstn 8 (skipn 9 bs)) in
        let rest := skipn 17 bs in
        if lenN rest <? plen + 32 then []
        else (kind, firstn (N.to_nat plen) rest) :: raw_scan fuel' (skipn (N.to_nat plen + 32) rest)
  end.

Definition rec_queries (H : bytes -> N) (kp : N * bytes) : list bytes :=
  disk_pre (fst kp) (snd kp) ::
  (if fst kp =? 1 then
     match parse_frame (snd kp) with
     | Ok f => [payload_pre f; dom_hdr ++ hdr_input false f; dom_fchk ++ fchk_input H f;
                frame_digest_pre H f]
     | Err _ => []
     end
   else if fst kp =? 2 then
     match decode_commit (snd kp) with Ok c => [commit_pre c] | Err _ => [] end
   else []).

Definition queries (H : bytes -> N) (bs : bytes) : list bytes :=
  let raw := raw_scan (length bs) bs in
  let fs := flat_map (fun kp => if fst kp =? 1 then
                                   match parse_frame (snd kp) with Ok f => [f] | Err _ => [] end
                                 else []) raw in
  let cs := flat_map (fun kp => if fst kp =? 2 then
                                   match decode_commit (snd kp) with Ok c => [c] | Err _ => [] end
                                 else []) raw in
  flat_map (rec_queries H) raw ++
  map (fun c => root_pre H (tx_frames fs c)) cs ++
  map (fun c => root_pre H (tx_frames (sort_by f_lsn fs) c)) cs.

(* canonical summaries: (0, tail code, tail lsn, [(tx, commit digest, first, last, #frames)]) or
   (1, error code, 0, []) *)
Definition summary := (N * N * N * list (N * N * N * N * N))%type.
Definition summarize (r : res (list rtx * tail)) : summary :=
  match r with
  | Err e => (1, err_code e, 0, [])
  | Ok (ts, tl) =>
      let txs := map (fun t => (c_tx (fst t), c_digest (fst t), c_first (fst t), c_last (fst t),
                                lenN (snd t))) ts in
      match tl with
      | TClean => (0, 0, 0, txs)
      | TAll => (0, 1, 0, txs)
      | TAfter l => (0, 2, l, txs)
      end
  end.

Definition tx5_eqb (a b : N * N * N * N * N) : bool :=
  let '(a1, a2, a3, a4, a5) := a in
  let '(b1, b2, b3, b4, b5) := b in
  (a1 =? b1) && (a2 =? b2) && (a3 =? b3) && (a4 =? b4) && (a5 =? b5).
Fixpoint list_eqb {A} (eqb : A -> A -> bool) (a b : list A) : bool :=
  match a, b with
  | [], [] => true
  | x :: a', y :: b' => eqb x y && list_eqb eqb a' b'
  | _, _ => false
  end.
Definition summary_eqb (a b : summary) : bool :=
  let '(a1, a2, a3, a4) := a in
  let '(b1, b2, b3, b4) := b in
  (a1 =? b1) && (a2 =? b2) && (a3 =? b3) && list_eqb tx5_eqb a4 b4.

(* run-length encoding of a list of summaries (first element = most recent run) *)
Fixpoint rle_rev (acc : list (summary * N)) (l : list summary) : list (summary * N) :=
  match l with
  | [] => acc
  | s :: r =>
      match acc with
      | (s0, n) :: acc' => if summary_eqb s0 s then rle_rev ((s0, n + 1) :: acc') r
                           else rle_rev ((s, 1) :: acc) r
      | [] => rle_rev [(s, 1)] r
      end
  end.
Definition rle (l : list summary) : list (summary * N) := rev (rle_rev [] l).

(* every byte-length prefix of a segment, recovered *)
Definition prefix_results (H : bytes -> N) (sid : N) (seg : bytes) : list (summary * N) :=
  rle (map (fun k => summarize (recover_segment H sid (firstn k seg))) (seq 0 (S (length seg)))).

(* ------------------------------------------------------------------ damage / edits (tie + theorems) *)
Definition flip_bit (bs : bytes) (i : N) : bytes :=
  let j := N.to_nat (i / 8) in
  firstn j bs ++ match skipn j bs with
                 | [] => []
                 | b :: r => N.lxor b (2 ^ (i mod 8)) :: r
                 end.
Definition zero_range (bs : bytes) (off len : N) : bytes :=
  let o := N.to_nat off in
  let n := Nat.min (N.to_nat len) (length bs - o) in
  firstn o bs ++ repeat 0 n ++ skipn (o + n) bs.

Definition remove_nth {A} (i : nat) (l : list A) : list A := firstn i l ++ skipn (S i) l.
Definition dup_nth {A} (i : nat) (l : list A) : list A :=
  firstn i l ++ match skipn i l with [] => [] | x :: r => x :: x :: r end.
Definition swap_nth {A} (i : nat) (l : list A) : list A :=
  firstn i l ++ match skipn i l with x :: y :: r => y :: x :: r | r => r end.

(* recover_from_frames_and_commits on the frames / commit markers of a segment after an edit *)
Definition recover_fc_edited (H : bytes -> N) (bs : bytes)
  (ef : list frame -> list frame) (ec : list commit -> list commit) : res (list rtx * tail) :=
  let* (rs, _) := read_segment H bs in
  recover_fc H (ef (frames_of rs)) (ec (commits_of rs)).
