(* Model of crates/warp-core/src/scheduler.rs (RadixScheduler reserve / has_conflict / mark_all,
   PendingTx enqueue / radix_sort / drain_in_order, LegacyScheduler), footprint.rs
   (Footprint::independent) and engine_impl.rs (reserve_for_receipt, footprints_conflict).
   Definitions only.

   Resource keys are instance-scoped pairs (warp id, local key): NodeKey, EdgeKey,
   AttachmentKey (owner+plane encoded into the local component by the harness, injectively)
   and WarpScopedPortKey.  Sets are lists (BTreeSet iteration order is irrelevant to every
   function here: they only test membership). *)
From Coq Require Import List NArith Lia Bool.
Import ListNotations.
Open Scope N_scope.

Definition rkey := (N * N)%type.
Definition rkey_eqb (a b : rkey) : bool := N.eqb (fst a) (fst b) && N.eqb (snd a) (snd b).
Definition kmem (k : rkey) (s : list rkey) : bool := existsb (rkey_eqb k) s.
Definition intersects (a b : list rkey) : bool := existsb (fun k => kmem k b) a.

Record footprint := {
  n_read : list rkey; n_write : list rkey;
  e_read : list rkey; e_write : list rkey;
  a_read : list rkey; a_write : list rkey;
  b_in : list rkey; b_out : list rkey;
  factor_mask : N
}.

(* ActiveFootprints: GenSet generation is the constant 1 within a transaction, so each
   GenSet is a plain set. *)
Record active := {
  nodes_written : list rkey; nodes_read : list rkey;
  edges_written : list rkey; edges_read : list rkey;
  atts_written : list rkey; atts_read : list rkey;
  ports : list rkey
}.

Definition active_empty : active :=
  {| nodes_written := []; nodes_read := []; edges_written := []; edges_read := [];
     atts_written := []; atts_read := []; ports := [] |}.

(* RadixScheduler::has_conflict *)
Definition has_conflict (a : active) (f : footprint) : bool :=
  existsb (fun k => kmem k (nodes_written a) || kmem k (nodes_read a)) (n_write f)
  || existsb (fun k => kmem k (nodes_written a)) (n_read f)
  || existsb (fun k => kmem k (edges_written a) || kmem k (edges_read a)) (e_write f)
  || existsb (fun k => kmem k (edges_written a)) (e_read f)
  || existsb (fun k => kmem k (atts_written a) || kmem k (atts_read a)) (a_write f)
  || existsb (fun k => kmem k (atts_written a)) (a_read f)
  || existsb (fun k => kmem k (ports a)) (b_in f)
  || existsb (fun k => kmem k (ports a)) (b_out f).

(* RadixScheduler::mark_all *)
Definition mark_all (a : active) (f : footprint) : active :=
  {| nodes_written := n_write f ++ nodes_written a;
     nodes_read := n_read f ++ nodes_read a;
     edges_written := e_write f ++ edges_written a;
     edges_read := e_read f ++ edges_read a;
     atts_written := a_write f ++ atts_written a;
     atts_read := a_read f ++ atts_read a;
     ports := b_in f ++ b_out f ++ ports a |}.

(* RadixScheduler::reserve: check then mark *)
Definition reserve (a : active) (f : footprint) : active * bool :=
  if has_conflict a f then (a, false) else (mark_all a f, true).

Fixpoint run_reserve_from (a : active) (l : list footprint) : list bool :=
  match l with
  | [] => []
  | f :: r => let '(a', d) := reserve a f in d :: run_reserve_from a' r
  end.
Definition run_reserve (l : list footprint) : list bool := run_reserve_from active_empty l.

(* The specification: pairwise conflict of declared footprints. *)
Definition conflict (x y : footprint) : bool :=
  intersects (n_write x) (n_write y) || intersects (n_write x) (n_read y) || intersects (n_read x) (n_write y)
  || intersects (e_write x) (e_write y) || intersects (e_write x) (e_read y) || intersects (e_read x) (e_write y)
  || intersects (a_write x) (a_write y) || intersects (a_write x) (a_read y) || intersects (a_read x) (a_write y)
  || intersects (b_in x ++ b_out x) (b_in y ++ b_out y).

(* declarative greedy: accept iff no previously accepted candidate conflicts *)
Fixpoint greedy_from (acc : list footprint) (l : list footprint) : list bool :=
  match l with
  | [] => []
  | f :: r => if existsb (conflict f) acc then false :: greedy_from acc r
              else true :: greedy_from (f :: acc) r
  end.
Definition greedy (l : list footprint) : list bool := greedy_from [] l.

(* engine_impl.rs::footprints_conflict (the receipt's blocker predicate) *)
Definition fp_conflict (a b : footprint) : bool :=
  if intersects (b_in a) (b_in b) || intersects (b_in a) (b_out b)
     || intersects (b_out a) (b_in b) || intersects (b_out a) (b_out b) then true
  else if intersects (e_write a) (e_write b) || intersects (e_write a) (e_read b)
          || intersects (e_write b) (e_read a) then true
  else if intersects (a_write a) (a_write b) || intersects (a_write a) (a_read b)
          || intersects (a_write b) (a_read a) then true
  else intersects (n_write a) (n_write b) || intersects (n_write a) (n_read b)
       || intersects (n_write b) (n_read a).

(* footprint.rs::Footprint::independent *)
Definition independent (a b : footprint) : bool :=
  if N.eqb (N.land (factor_mask a) (factor_mask b)) 0 then true
  else negb (fp_conflict a b).

(* LegacyScheduler::reserve over the frontier of accepted footprints *)
Fixpoint run_legacy_from (frontier : list footprint) (l : list footprint) : list bool :=
  match l with
  | [] => []
  | f :: r => if forallb (independent f) frontier
              then true :: run_legacy_from (frontier ++ [f]) r
              else false :: run_legacy_from frontier r
  end.
Definition run_legacy (l : list footprint) : list bool := run_legacy_from [] l.

(* Engine::reserve_for_receipt: per entry (accepted, blockers); blockers are the entry
   indices of previously reserved rewrites whose footprint conflicts (fp_conflict).
   [None] = InternalCorruption("scheduler rejected rewrite but no blockers were found"). *)
Fixpoint receipt_from (a : active) (reserved : list (N * footprint)) (idx : N) (l : list footprint)
  : option (list (bool * list N)) :=
  match l with
  | [] => Some []
  | f :: r =>
      let '(a', d) := reserve a f in
      if d then
        match receipt_from a' (reserved ++ [(idx, f)]) (idx + 1) r with
        | Some t => Some ((true, []) :: t)
        | None => None
        end
      else
        let bl := map fst (filter (fun p => fp_conflict f (snd p)) reserved) in
        match bl with
        | [] => None
        | _ => match receipt_from a' reserved (idx + 1) r with
               | Some t => Some ((false, bl) :: t)
               | None => None
               end
        end
  end.
Definition receipt (l : list footprint) : option (list (bool * list N)) :=
  receipt_from active_empty [] 0 l.

(* ------------------------------------------------------------------ *)
(* Pending queue ordering *)

Record thin := { t_scope : N; t_rule : N; t_nonce : N; t_handle : N }.

(* the 320-bit sort key (scope_be32, rule_id, nonce) read as one number *)
Definition two32 : N := 4294967296.
Definition two16 : N := 65536.
Definition thin_key (r : thin) : N := (t_scope r * two32 + t_rule r) * two32 + t_nonce r.

(* u16_from_u32_le / u16_be_from_pair32 / bucket16 *)
Definition u16_from_u32_le (x idx : N) : N := (x / two16 ^ idx) mod two16.
Definition u16_be_from_pair32 (scope pair_idx_be : N) : N := (scope / two16 ^ (15 - pair_idx_be)) mod two16.
Definition bucket16 (r : thin) (pass : N) : N :=
  if pass =? 0 then u16_from_u32_le (t_nonce r) 0
  else if pass =? 1 then u16_from_u32_le (t_nonce r) 1
  else if pass =? 2 then u16_from_u32_le (t_rule r) 0
  else if pass =? 3 then u16_from_u32_le (t_rule r) 1
  else u16_be_from_pair32 (t_scope r) (19 - pass).

(* One counting-sort pass is a stable sort by the pass digit: modelled as stable insertion
   sort (the histogram/prefix-sum mechanics are exercised by the correspondence check on
   batches above the threshold, not modelled). *)
Fixpoint insert_by {A} (key : A -> N) (x : A) (l : list A) : list A :=
  match l with
  | [] => [x]
  | y :: r => if key x <=? key y then x :: l else y :: insert_by key x r
  end.
Definition isort_by {A} (key : A -> N) (l : list A) : list A := fold_right (insert_by key) [] l.

Definition radix_pass (pass : N) (l : list thin) : list thin := isort_by (fun r => bucket16 r pass) l.
Definition passes : list N := [0;1;2;3;4;5;6;7;8;9;10;11;12;13;14;15;16;17;18;19].
Definition radix_sort (l : list thin) : list thin := fold_left (fun acc p => radix_pass p acc) passes l.

(* cmp_thin as a comparison; sort_unstable_by(cmp_thin) returns the sorted permutation,
   unique because queue keys are distinct: modelled as insertion sort with that comparator. *)
Definition cmp_thin (a b : thin) : comparison :=
  match N.compare (t_scope a) (t_scope b) with
  | Eq => match N.compare (t_rule a) (t_rule b) with
          | Eq => N.compare (t_nonce a) (t_nonce b)
          | c => c
          end
  | c => c
  end.
Fixpoint insert_cmp {A} (c : A -> A -> comparison) (x : A) (l : list A) : list A :=
  match l with
  | [] => [x]
  | y :: r => match c x y with Gt => y :: insert_cmp c x r | _ => x :: l end
  end.
Definition isort_cmp {A} (c : A -> A -> comparison) (l : list A) : list A :=
  fold_right (insert_cmp c) [] l.
Definition small_sort (l : list thin) : list thin := isort_cmp cmp_thin l.

Definition small_sort_threshold : N := 1024.
Definition drain_thin (l : list thin) : list thin :=
  if N.of_nat (length l) <=? small_sort_threshold then small_sort l else radix_sort l.

(* PendingTx::enqueue: index keyed (scope, rule): existing key => payload replaced (last
   wins) and nonce refreshed in place; new key => appended.  Payloads are abstract handles:
   the harness passes the footprint/identity of each candidate as data. *)
Definition wf_thin (r : thin) : Prop :=
  t_scope r < 2 ^ 256 /\ t_rule r < two32 /\ t_nonce r < two32.

Fixpoint refresh (scope rule nonce handle : N) (l : list thin) : option (list thin) :=
  match l with
  | [] => None
  | r :: rest =>
      if (t_scope r =? scope) && (t_rule r =? rule)
      then Some ({| t_scope := scope; t_rule := rule; t_nonce := nonce; t_handle := handle |} :: rest)
      else match refresh scope rule nonce handle rest with
           | Some rest' => Some (r :: rest')
           | None => None
           end
  end.

(* state: (next_nonce, thin vector); [handle] identifies the payload that wins *)
Definition enqueue (st : N * list thin) (c : N * N * N) : N * list thin :=
  let '(scope, rule, handle) := c in
  let '(n, l) := st in
  let n' := (n + 1) mod two32 in
  match refresh scope rule n handle l with
  | Some l' => (n', l')
  | None => (n', l ++ [{| t_scope := scope; t_rule := rule; t_nonce := n; t_handle := handle |}])
  end.

Definition enqueue_all (cs : list (N * N * N)) : list thin := snd (fold_left enqueue cs (0, [])).
Definition drain_handles (cs : list (N * N * N)) : list N := map t_handle (drain_thin (enqueue_all cs)).
