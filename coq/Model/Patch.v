(* Model of crates/warp-core/src/tick_patch.rs (WarpOp, sort_key, WarpTickPatchV1::new
   dedupe, apply_ops_to_state and everything below it, validate_portal_invariants,
   diff_state and everything below it), of the parts of graph.rs it drives
   (insert_node, upsert_edge_record, delete_node_isolated, delete_edge_exact,
   set_*_attachment) and of warp_state.rs.  Definitions only.

   Abstraction.  A GraphStore is four finite maps: nodes (id -> type), edges
   (edge id -> (from, to, type)), node attachments, edge attachments, kept as strictly
   sorted association lists (= the BTreeMaps of the code; `edges` is the code's
   `edges_by_id` view).  The redundant indexes of the real store (edges_from buckets in
   insertion order, edges_to, edge_index, edge_to_index) and GraphStore.warp_id are
   dropped; the harness checks their coherence separately after every operation.
   A WarpState keeps the code's two maps (stores, instances).  Ids are N (32-byte
   big-endian reading).  Errors are the TickPatchError variants with their payloads. *)
From Coq Require Import List NArith Bool.
From Echo Require Import Base.FinMap Base.Order.
Import ListNotations.
Open Scope N_scope.

(* ------------------------------------------------------------------ values *)

Inductive att :=
| Atom (ty : N) (data : list N)
| Descend (w : N).

(* AttachmentKey { owner: Node(NodeKey)|Edge(EdgeKey), plane: Alpha|Beta } *)
Record akey := mk_akey { ak_edge : bool; ak_beta : bool; ak_warp : N; ak_id : N }.

Definition node_alpha (w n : N) : akey := mk_akey false false w n.
Definition edge_beta (w e : N) : akey := mk_akey true true w e.

(* AttachmentKey::is_plane_valid *)
Definition plane_valid (k : akey) : bool := Bool.eqb (ak_edge k) (ak_beta k).

Fixpoint list_eqb (a b : list N) : bool :=
  match a, b with
  | [], [] => true
  | x :: a', y :: b' => (x =? y) && list_eqb a' b'
  | _, _ => false
  end.

Definition att_eqb (a b : att) : bool :=
  match a, b with
  | Atom t d, Atom t' d' => (t =? t') && list_eqb d d'
  | Descend w, Descend w' => w =? w'
  | _, _ => false
  end.

Definition opt_eqb {A} (eqb : A -> A -> bool) (a b : option A) : bool :=
  match a, b with
  | None, None => true
  | Some x, Some y => eqb x y
  | _, _ => false
  end.

Definition akey_eqb (a b : akey) : bool :=
  Bool.eqb (ak_edge a) (ak_edge b) && Bool.eqb (ak_beta a) (ak_beta b) &&
  (ak_warp a =? ak_warp b) && (ak_id a =? ak_id b).

(* EdgeRecord without its id: (from, to, ty) *)
Definition erec := (N * N * N)%type.
Definition e_from (r : erec) : N := fst (fst r).
Definition e_to (r : erec) : N := snd (fst r).
Definition e_ty (r : erec) : N := snd r.
Definition erec_eqb (a b : erec) : bool :=
  (e_from a =? e_from b) && (e_to a =? e_to b) && (e_ty a =? e_ty b).

Record store := mk_store {
  s_nodes : list (N * N);
  s_edges : list (N * erec);
  s_natt : list (N * att);
  s_eatt : list (N * att)
}.
Definition empty_store : store := mk_store [] [] [] [].

(* WarpInstance without its id: (root_node, parent) *)
Definition imeta := (N * option akey)%type.
Definition imeta_eqb (a b : imeta) : bool :=
  (fst a =? fst b) && opt_eqb akey_eqb (snd a) (snd b).

Record state := mk_state {
  st_stores : list (N * store);
  st_insts : list (N * imeta)
}.
Definition empty_state : state := mk_state [] [].

Notation nfind := (find N.compare).
Notation nset := (set N.compare).
Notation ndel := (del N.compare).
Notation nmem := (mem N.compare).

(* ------------------------------------------------------------------ ops *)

Inductive op :=
| OpenPortal (k : akey) (child_warp child_root : N) (init : option N) (* Some ty = Empty{root_record}, None = RequireExisting *)
| UpsertWI (w root : N) (parent : option akey)
| DeleteWI (w : N)
| UpsertNode (w n ty : N)
| DeleteNode (w n : N)
| UpsertEdge (w e from to ty : N)
| DeleteEdge (w from e : N)
| SetAtt (k : akey) (v : option att).

Inductive err :=
| MissingWarp (w : N)
| MissingNode (w n : N)
| MissingEdge (w e : N)
| NodeNotIsolated (w n : N)
| InvalidAttachmentKey (k : akey)
| PortalInitRequired
| PortalInvariantViolation.

Inductive res (A : Type) :=
| Ok (a : A)
| Err (e : err).
Arguments Ok {A} a.
Arguments Err {A} e.

Definition bind {A B} (r : res A) (f : A -> res B) : res B :=
  match r with Ok a => f a | Err e => Err e end.

(* WarpOp::sort_key : (kind, warp, a, b), derived Ord = lexicographic *)
Definition opkey := (N * (N * (N * N)))%type.
Definition key_cmp : opkey -> opkey -> comparison :=
  pair_cmp N.compare (pair_cmp N.compare (pair_cmp N.compare N.compare)).
Definition key_lt (a b : opkey) : Prop := key_cmp a b = Lt.

(* 32-byte buffer with byte 0 = owner tag, byte 1 = plane tag, read big-endian *)
Definition two248 : N := 0x100000000000000000000000000000000000000000000000000000000000000.
Definition two240 : N := 0x1000000000000000000000000000000000000000000000000000000000000.
Definition tagN (k : akey) : N :=
  (if ak_edge k then 2 else 1) * two248 + (if ak_beta k then 2 else 1) * two240.

Definition sort_key (o : op) : opkey :=
  match o with
  | OpenPortal k _ _ _ => (1, (ak_warp k, (tagN k, ak_id k)))
  | UpsertWI w _ _ => (2, (w, (w, 0)))
  | DeleteWI w => (3, (w, (w, 0)))
  | DeleteEdge w from e => (4, (w, (from, e)))
  | DeleteNode w n => (5, (w, (n, 0)))
  | UpsertNode w n _ => (6, (w, (n, 0)))
  | UpsertEdge w e from _ _ => (7, (w, (from, e)))
  | SetAtt k _ => (8, (ak_warp k, (tagN k, ak_id k)))
  end.

(* `ops.sort_by_key(WarpOp::sort_key)`: stable sort = insertion after equal keys *)
Fixpoint insert_op (o : op) (l : list op) : list op :=
  match l with
  | [] => [o]
  | x :: r => match key_cmp (sort_key o) (sort_key x) with
              | Lt => o :: l
              | _ => x :: insert_op o r
              end
  end.
Definition sort_ops (l : list op) : list op := fold_right insert_op [] l.

(* WarpTickPatchV1::new: BTreeMap<WarpOpKey, WarpOp> insert (last wins), into_values *)
Definition patch_new (ops : list op) : list op :=
  map snd (of_list_set key_cmp (map (fun o => (sort_key o, o)) ops)).

(* ------------------------------------------------------------------ GraphStore *)

Definition has_edge (s : store) (e : N) : bool := nmem e (s_edges s).

Definition insert_node (s : store) (n ty : N) : store :=
  mk_store (nset n ty (s_nodes s)) (s_edges s) (s_natt s) (s_eatt s).

(* upsert_edge_record: same id anywhere is replaced; the edge attachment is untouched *)
Definition upsert_edge (s : store) (e : N) (r : erec) : store :=
  mk_store (s_nodes s) (nset e r (s_edges s)) (s_natt s) (s_eatt s).

Definition opt_set {V} (k : N) (v : option V) (m : list (N * V)) : list (N * V) :=
  match v with Some x => nset k x m | None => ndel k m end.

Definition set_node_att (s : store) (n : N) (v : option att) : store :=
  mk_store (s_nodes s) (s_edges s) (opt_set n v (s_natt s)) (s_eatt s).
Definition set_edge_att (s : store) (e : N) (v : option att) : store :=
  mk_store (s_nodes s) (s_edges s) (s_natt s) (opt_set e v (s_eatt s)).

Definition incident (n : N) (kv : N * erec) : bool :=
  (e_from (snd kv) =? n) || (e_to (snd kv) =? n).

Inductive dn_result := DnOk (s : store) | DnNotFound | DnNotIsolated.

(* delete_node_isolated (HasOutgoingEdges / HasIncomingEdges both become NodeNotIsolated) *)
Definition delete_node_isolated (s : store) (n : N) : dn_result :=
  match nfind n (s_nodes s) with
  | None => DnNotFound
  | Some _ =>
      if existsb (incident n) (s_edges s) then DnNotIsolated
      else DnOk (mk_store (ndel n (s_nodes s)) (s_edges s) (ndel n (s_natt s)) (s_eatt s))
  end.

(* delete_edge_exact: None = `false` *)
Definition delete_edge_exact (s : store) (from e : N) : option store :=
  match nfind e (s_edges s) with
  | Some r =>
      if e_from r =? from
      then Some (mk_store (s_nodes s) (ndel e (s_edges s)) (s_natt s) (ndel e (s_eatt s)))
      else None
  | None => None
  end.

(* ------------------------------------------------------------------ WarpState *)

Definition get_store (st : state) (w : N) : option store := nfind w (st_stores st).
Definition get_inst (st : state) (w : N) : option imeta := nfind w (st_insts st).
Definition put_store (st : state) (w : N) (s : store) : state :=
  mk_state (nset w s (st_stores st)) (st_insts st).

(* upsert_instance *)
Definition upsert_instance (st : state) (w : N) (m : imeta) (s : store) : state :=
  mk_state (nset w s (st_stores st)) (nset w m (st_insts st)).

(* attachment_value_for_key: does not look at the plane *)
Definition att_for_key (st : state) (k : akey) : option att :=
  match get_store st (ak_warp k) with
  | None => None
  | Some s => if ak_edge k then nfind (ak_id k) (s_eatt s) else nfind (ak_id k) (s_natt s)
  end.

Definition is_descend (v : option att) : bool :=
  match v with Some (Descend _) => true | _ => false end.

(* ------------------------------------------------------------------ apply *)

(* validate_attachment_owner_exists *)
Definition validate_owner (st : state) (k : akey) : res N :=
  if negb (plane_valid k) then Err (InvalidAttachmentKey k) else
  match get_store st (ak_warp k) with
  | None => Err (MissingWarp (ak_warp k))
  | Some s =>
      if ak_edge k
      then (if has_edge s (ak_id k) then Ok (ak_warp k) else Err (MissingEdge (ak_warp k) (ak_id k)))
      else (match nfind (ak_id k) (s_nodes s) with
            | Some _ => Ok (ak_warp k)
            | None => Err (MissingNode (ak_warp k) (ak_id k))
            end)
  end.

(* ensure_child_root *)
Definition ensure_child_root (st : state) (cw cr : N) (init : option N) : res state :=
  match get_store st cw with
  | None => Err (MissingWarp cw)
  | Some s =>
      match init with
      | Some ty =>
          match nfind cr (s_nodes s) with
          | None => Ok (put_store st cw (insert_node s cr ty))
          | Some ty' => if ty' =? ty then Ok st else Err PortalInvariantViolation
          end
      | None =>
          match nfind cr (s_nodes s) with
          | None => Err (MissingNode cw cr)
          | Some _ => Ok st
          end
      end
  end.

Definition set_att_raw (st : state) (pw : N) (k : akey) (v : option att) : res state :=
  match get_store st pw with
  | None => Err (MissingWarp pw)
  | Some s =>
      Ok (put_store st pw (if ak_edge k then set_edge_att s (ak_id k) v else set_node_att s (ak_id k) v))
  end.

(* apply_open_portal *)
Definition apply_open_portal (st : state) (k : akey) (cw cr : N) (init : option N) : res state :=
  bind (validate_owner st k) (fun pw =>
  bind (match get_inst st cw with
        | Some m =>
            if negb (opt_eqb akey_eqb (snd m) (Some k)) || negb (fst m =? cr)
            then Err PortalInvariantViolation
            else ensure_child_root st cw cr init
        | None =>
            match init with
            | Some ty => Ok (upsert_instance st cw (cr, Some k) (insert_node empty_store cr ty))
            | None => Err PortalInitRequired
            end
        end) (fun st' =>
  set_att_raw st' pw k (Some (Descend cw)))).

(* apply_set_attachment *)
Definition apply_set_att (st : state) (k : akey) (v : option att) : res state :=
  if negb (plane_valid k) then Err (InvalidAttachmentKey k) else
  match get_store st (ak_warp k) with
  | None => Err (MissingWarp (ak_warp k))
  | Some s =>
      if ak_edge k
      then (if has_edge s (ak_id k)
            then Ok (put_store st (ak_warp k) (set_edge_att s (ak_id k) v))
            else Err (MissingEdge (ak_warp k) (ak_id k)))
      else (match nfind (ak_id k) (s_nodes s) with
            | Some _ => Ok (put_store st (ak_warp k) (set_node_att s (ak_id k) v))
            | None => Err (MissingNode (ak_warp k) (ak_id k))
            end)
  end.

(* apply_op_to_state *)
Definition apply_op (st : state) (o : op) : res state :=
  match o with
  | OpenPortal k cw cr init => apply_open_portal st k cw cr init
  | UpsertWI w root parent =>
      let s := match get_store st w with Some s => s | None => empty_store end in
      Ok (upsert_instance st w (root, parent) s)
  | DeleteWI w =>
      match get_inst st w with
      | None => Err (MissingWarp w)
      | Some _ => Ok (mk_state (ndel w (st_stores st)) (ndel w (st_insts st)))
      end
  | UpsertNode w n ty =>
      match get_store st w with
      | None => Err (MissingWarp w)
      | Some s => Ok (put_store st w (insert_node s n ty))
      end
  | DeleteNode w n =>
      match get_store st w with
      | None => Err (MissingWarp w)
      | Some s =>
          match delete_node_isolated s n with
          | DnOk s' => Ok (put_store st w s')
          | DnNotFound => Err (MissingNode w n)
          | DnNotIsolated => Err (NodeNotIsolated w n)
          end
      end
  | UpsertEdge w e from to ty =>
      match get_store st w with
      | None => Err (MissingWarp w)
      | Some s => Ok (put_store st w (upsert_edge s e (from, to, ty)))
      end
  | DeleteEdge w from e =>
      match get_store st w with
      | None => Err (MissingWarp w)
      | Some s =>
          match delete_edge_exact s from e with
          | Some s' => Ok (put_store st w s')
          | None => Err (MissingEdge w e)
          end
      end
  | SetAtt k v => apply_set_att st k v
  end.

(* warp_op_touches_portal_topology *)
Definition touches (st : state) (o : op) : bool :=
  match o with
  | OpenPortal _ _ _ _ | UpsertWI _ _ _ | DeleteWI _ => true
  | SetAtt k v => is_descend v || is_descend (att_for_key st k)
  | DeleteNode w n =>
      match get_store st w with
      | Some s => is_descend (nfind n (s_natt s))
      | None => false
      end
  | DeleteEdge w _ e =>
      match get_store st w with
      | Some s => is_descend (nfind e (s_eatt s))
      | None => false
      end
  | _ => false
  end.

(* validate_descend_target *)
Definition validate_descend_target (st : state) (k : akey) (cw : N) : res unit :=
  match get_inst st cw with
  | None => Err PortalInvariantViolation
  | Some m =>
      if negb (opt_eqb akey_eqb (snd m) (Some k)) then Err PortalInvariantViolation
      else match get_store st cw with
           | None => Err PortalInvariantViolation
           | Some _ => Ok tt
           end
  end.

Fixpoint first_err (l : list (res unit)) : res unit :=
  match l with
  | [] => Ok tt
  | Ok _ :: r => first_err r
  | Err e :: _ => Err e
  end.

Definition check_instance (st : state) (wm : N * imeta) : res unit :=
  match snd (snd wm) with
  | None => Ok tt
  | Some pk =>
      bind (validate_owner st pk) (fun _ =>
        match att_for_key st pk with
        | Some (Descend cw) => if cw =? fst wm then Ok tt else Err PortalInvariantViolation
        | _ => Err PortalInvariantViolation
        end)
  end.

Definition check_store (st : state) (ws : N * store) : res unit :=
  first_err
    (map (fun nv => match snd nv with
                    | Descend cw => validate_descend_target st (node_alpha (fst ws) (fst nv)) cw
                    | _ => Ok tt
                    end) (s_natt (snd ws)) ++
     map (fun ev => match snd ev with
                    | Descend cw => validate_descend_target st (edge_beta (fst ws) (fst ev)) cw
                    | _ => Ok tt
                    end) (s_eatt (snd ws))).

(* validate_portal_invariants *)
Definition validate_portal_invariants (st : state) : res unit :=
  first_err (map (check_instance st) (st_insts st) ++ map (check_store st) (st_stores st)).

Fixpoint apply_loop (st : state) (touched : bool) (ops : list op) : res (state * bool) :=
  match ops with
  | [] => Ok (st, touched)
  | o :: r =>
      let t := touched || touches st o in
      match apply_op st o with
      | Ok st' => apply_loop st' t r
      | Err e => Err e
      end
  end.

(* apply_ops_to_state; WarpTickPatchV1::apply_to_state is this on the patch's ops *)
Definition apply_ops (ops : list op) (st : state) : res state :=
  match apply_loop st false ops with
  | Err e => Err e
  | Ok (st', t) =>
      if t then match validate_portal_invariants st' with
                | Ok _ => Ok st'
                | Err e => Err e
                end
      else Ok st'
  end.

(* ------------------------------------------------------------------ diff *)

Definition mem_key (k : akey) (l : list akey) : bool := existsb (akey_eqb k) l.
Definition mem_nk (w n : N) (l : list (N * N)) : bool :=
  existsb (fun x => (fst x =? w) && (snd x =? n)) l.

(* portal canonicalisation loop: Some (OpenPortal ...) for an instance new in `after` *)
Definition portal_of (before after : state) (wm : N * imeta) : option op :=
  let w := fst wm in
  if nmem w (st_insts before) then None else
  match snd (snd wm) with
  | None => None
  | Some pk =>
      match att_for_key after pk with
      | Some (Descend w') =>
          if w' =? w then
            match get_store after w with
            | None => None
            | Some cs =>
                match nfind (fst (snd wm)) (s_nodes cs) with
                | None => None
                | Some ty =>
                    (* only when the portal's owner already exists before the tick *)
                    match validate_owner before pk with
                    | Ok _ => Some (OpenPortal pk w (fst (snd wm)) (Some ty))
                    | Err _ => None
                    end
                end
            end
          else None
      | _ => None
      end
  end.

Definition portal_ops (before after : state) : list op :=
  flat_map (fun wm => match portal_of before after wm with Some o => [o] | None => [] end)
           (st_insts after).

Definition portal_warps (pops : list op) : list N :=
  flat_map (fun o => match o with OpenPortal _ cw _ _ => [cw] | _ => [] end) pops.
Definition skip_nodes (pops : list op) : list (N * N) :=
  flat_map (fun o => match o with OpenPortal _ cw cr _ => [(cw, cr)] | _ => [] end) pops.
Definition skip_atts (pops : list op) : list akey :=
  flat_map (fun o => match o with OpenPortal k _ _ _ => [k] | _ => [] end) pops.

Definition inst_deletes (before after : state) : list op :=
  flat_map (fun wm => if nmem (fst wm) (st_insts after) then [] else [DeleteWI (fst wm)])
           (st_insts before).

Definition inst_upserts (before after : state) (pw : list N) : list op :=
  flat_map (fun wm =>
              let w := fst wm in
              match get_inst before w with
              | None => if existsb (N.eqb w) pw then [] else [UpsertWI w (fst (snd wm)) (snd (snd wm))]
              | Some mb => if imeta_eqb mb (snd wm) then [] else [UpsertWI w (fst (snd wm)) (snd (snd wm))]
              end)
           (st_insts after).

Definition diff_nodes (w : N) (b a : store) (skipn : list (N * N)) : list op :=
  flat_map (fun nt =>
              let n := fst nt in
              if mem_nk w n skipn then [] else
              match nfind n (s_nodes a) with
              | None => [DeleteNode w n]
              | Some ty => if snd nt =? ty then [] else [UpsertNode w n ty]
              end) (s_nodes b) ++
  flat_map (fun nt =>
              let n := fst nt in
              if mem_nk w n skipn then [] else
              if nmem n (s_nodes b) then [] else [UpsertNode w n (snd nt)]) (s_nodes a).

Definition diff_node_atts (w : N) (b a : store) (skipa : list akey) : list op :=
  flat_map (fun nt =>
              let n := fst nt in
              let bv := nfind n (s_natt b) in
              let av := nfind n (s_natt a) in
              if opt_eqb att_eqb bv av then [] else
              if mem_key (node_alpha w n) skipa then [] else [SetAtt (node_alpha w n) av]) (s_nodes a).

(* edge_is_recreated: a same-id edge that must be replayed as DeleteEdge + UpsertEdge *)
Definition recreated (a : store) (rb ra : erec) : bool :=
  negb (e_from rb =? e_from ra) || (negb (e_to rb =? e_to ra) && negb (nmem (e_to rb) (s_nodes a))).

Definition diff_edges (w : N) (b a : store) : list op :=
  flat_map (fun er => if nmem (fst er) (s_edges a) then [] else [DeleteEdge w (e_from (snd er)) (fst er)])
           (s_edges b) ++
  flat_map (fun er =>
              let e := fst er in
              let ra := snd er in
              match nfind e (s_edges b) with
              | None => [UpsertEdge w e (e_from ra) (e_to ra) (e_ty ra)]
              | Some rb =>
                  if erec_eqb rb ra then [] else
                  (if recreated a rb ra then [DeleteEdge w (e_from rb) e] else []) ++
                  [UpsertEdge w e (e_from ra) (e_to ra) (e_ty ra)]
              end) (s_edges a).

(* `recreated_with_value`: DeleteEdge clears the slot of a recreated edge, its value must be written again *)
Definition recreated_with_value (b a : store) (e : N) (ra : erec) : bool :=
  (match nfind e (s_eatt a) with Some _ => true | None => false end) &&
  (match nfind e (s_edges b) with Some rb => recreated a rb ra | None => false end).

Definition diff_edge_atts (w : N) (b a : store) (skipa : list akey) : list op :=
  flat_map (fun er =>
              let e := fst er in
              let bv := nfind e (s_eatt b) in
              let av := nfind e (s_eatt a) in
              let rwv := recreated_with_value b a e (snd er) in
              if opt_eqb att_eqb bv av && negb rwv then [] else
              if mem_key (edge_beta w e) skipa && negb rwv then [] else [SetAtt (edge_beta w e) av]) (s_edges a).

(* diff_instance (b = before store, a = after store) *)
Definition diff_instance (w : N) (b a : store) (skipn : list (N * N)) (skipa : list akey) : list op :=
  diff_nodes w b a skipn ++ diff_node_atts w b a skipa ++ diff_edges w b a ++ diff_edge_atts w b a skipa.

(* ops in the order the code pushes them *)
Definition diff_raw (before after : state) : list op :=
  let pops := portal_ops before after in
  pops ++ inst_deletes before after ++ inst_upserts before after (portal_warps pops) ++
  flat_map (fun ws =>
              let bs := match get_store before (fst ws) with Some s => s | None => empty_store end in
              diff_instance (fst ws) bs (snd ws) (skip_nodes pops) (skip_atts pops))
           (st_stores after).

(* diff_state *)
Definition diff (before after : state) : list op := sort_ops (diff_raw before after).

(* ------------------------------------------------------------------ well-formedness *)

Notation nsorted := (sorted N.compare).

Definition store_sorted (s : store) : Prop :=
  nsorted (s_nodes s) /\ nsorted (s_edges s) /\ nsorted (s_natt s) /\ nsorted (s_eatt s).

(* attachments only on existing owners *)
Definition store_owned (s : store) : Prop :=
  (forall n, nmem n (s_natt s) = true -> nmem n (s_nodes s) = true) /\
  (forall e, nmem e (s_eatt s) = true -> nmem e (s_edges s) = true).

(* the part of well-formedness every op preserves on its own: canonical maps, stores/instances in step *)
Definition Struct (st : state) : Prop :=
  nsorted (st_stores st) /\ nsorted (st_insts st) /\
  (forall w, nmem w (st_stores st) = nmem w (st_insts st)) /\
  (forall w s, get_store st w = Some s -> store_sorted s).
Definition Owned (st : state) : Prop := forall w s, get_store st w = Some s -> store_owned s.

(* structural well-formedness: canonical maps, stores/instances in step, owned attachments *)
Definition WFs (st : state) : Prop :=
  nsorted (st_stores st) /\ nsorted (st_insts st) /\
  (forall w, nmem w (st_stores st) = nmem w (st_insts st)) /\
  (forall w s, get_store st w = Some s -> store_sorted s /\ store_owned s).

(* referential integrity: edges reference existing nodes of their store *)
Definition store_ref (s : store) : Prop :=
  forall e r, nfind e (s_edges s) = Some r ->
    nmem (e_from r) (s_nodes s) = true /\ nmem (e_to r) (s_nodes s) = true.
Definition RefOk (st : state) : Prop := forall w s, get_store st w = Some s -> store_ref s.

(* portal invariants = what the code validates *)
Definition PI (st : state) : Prop := validate_portal_invariants st = Ok tt.

Definition WF (st : state) : Prop := WFs st /\ RefOk st /\ PI st.

(* boolean checkers (used by Examples and by the correspondence run) *)
Definition sortedN {V} (m : list (N * V)) : bool := sortedb N.compare m.
Definition store_wfb (s : store) : bool :=
  sortedN (s_nodes s) && sortedN (s_edges s) && sortedN (s_natt s) && sortedN (s_eatt s) &&
  forallb (fun nv => nmem (fst nv) (s_nodes s)) (s_natt s) &&
  forallb (fun ev => nmem (fst ev) (s_edges s)) (s_eatt s).
Definition store_refb (s : store) : bool :=
  forallb (fun er => nmem (e_from (snd er)) (s_nodes s) && nmem (e_to (snd er)) (s_nodes s)) (s_edges s).
Definition wfsb (st : state) : bool :=
  sortedN (st_stores st) && sortedN (st_insts st) &&
  list_eqb (map fst (st_stores st)) (map fst (st_insts st)) &&
  forallb (fun ws => store_wfb (snd ws)) (st_stores st).
Definition refb (st : state) : bool := forallb (fun ws => store_refb (snd ws)) (st_stores st).
Definition pib (st : state) : bool :=
  match validate_portal_invariants st with Ok _ => true | Err _ => false end.
Definition wfb (st : state) : bool := wfsb st && refb st && pib st.
