(* Model of crates/warp-core/src/external_action.rs (ExternalActionCoordinatorV1 and the
   request -> claim -> settlement protocol over the WAL store port).  Definitions only.

   What is modelled
   - request / claim / settlement values, their identity digests and canonical payload bytes
     (hash preimages byte for byte), `ExternalActionRequestV1::new`, `validate_identity`,
     the adapter registry (`authorize`, `identity_digest`);
   - the lifecycle index `request_id -> entry` (sorted map) with the sparse Merkle node map
     (`plan_entry` / `apply_mutation` / `root_digest`), generic in the tree depth [D]
     (the code uses 256); node keys `(depth, zero-padded prefix)` are represented by the
     reversed list of the first [depth] key bits (a bijection);
   - the coordinator (`index`, `next_lsn`, `ready`) and every guard of
     record_external_action_request, claim_external_action, admit_external_action_settlement,
     reconcile_external_action_settlement_retry, recorded_request, claim_grant,
     admitted_settlement, in the order the code evaluates them;
   - append_transaction against an abstract store: committed transactions (one frame + commit
     marker each) and an uncommitted tail; a [fault] oracle makes the frame append fail, the
     commit flush fail (frame stays as uncommitted tail) or the acknowledgement fail after
     the marker is durable;
   - observe_external_actions / ExternalActionCoordinatorV1::recover as a fold over the
     committed transactions with the frontier (before/after root) check.
   Abstractions (stated, not hidden)
   - a WAL commit digest is represented by the LSN of its transaction (distinct committed
     transactions have distinct commit digests: hash chain, C05/C10 territory);
   - WAL framing (frame headers, checksums, previous-digest chain, LSN continuity checks) and
     the payload codecs' decode direction are not modelled; `affected_frontiers_root` is
     represented by the pair (before, after);
   - u64 LSN overflow is not modelled.
   [H] is a Section variable (never an axiom); digests are truncated to 32 bytes as by type.
   [B3] is a Gallina implementation of BLAKE3 over primitive 63-bit integers used only to
   *execute* the model on concrete cases (no theorem depends on it). *)
From Coq Require Import List NArith ZArith Lia Bool.
From Coq Require Uint63.
From Echo Require Import Base.FinMap Base.Order Base.Bytes.
Import ListNotations.

(* ------------------------------------------------------------------ BLAKE3 (execution only) *)
Module B3.
Import Uint63.
Local Open Scope uint63_scope.
Definition m32 : int := 4294967295.
Definition add32 (a b : int) : int := (a + b) land m32.
Definition rotr (x k : int) : int := ((x >> k) lor (x << (32 - k))) land m32.

Definition g (a b c d mx my : int) : int * int * int * int :=
  let a := add32 (add32 a b) mx in
  let d := rotr (d lxor a) 16 in
  let c := add32 c d in
  let b := rotr (b lxor c) 12 in
  let a := add32 (add32 a b) my in
  let d := rotr (d lxor a) 8 in
  let c := add32 c d in
  let b := rotr (b lxor c) 7 in
  (a, b, c, d).

Definition round (s m : list int) : list int :=
  match s, m with
  | [s0;s1;s2;s3;s4;s5;s6;s7;s8;s9;s10;s11;s12;s13;s14;s15],
    [m0;m1;m2;m3;m4;m5;m6;m7;m8;m9;m10;m11;m12;m13;m14;m15] =>
    let '(s0,s4,s8,s12) := g s0 s4 s8 s12 m0 m1 in
    let '(s1,s5,s9,s13) := g s1 s5 s9 s13 m2 m3 in
    let '(s2,s6,s10,s14) := g s2 s6 s10 s14 m4 m5 in
    let '(s3,s7,s11,s15) := g s3 s7 s11 s15 m6 m7 in
    let '(s0,s5,s10,s15) := g s0 s5 s10 s15 m8 m9 in
    let '(s1,s6,s11,s12) := g s1 s6 s11 s12 m10 m11 in
    let '(s2,s7,s8,s13) := g s2 s7 s8 s13 m12 m13 in
    let '(s3,s4,s9,s14) := g s3 s4 s9 s14 m14 m15 in
    [s0;s1;s2;s3;s4;s5;s6;s7;s8;s9;s10;s11;s12;s13;s14;s15]
  | _, _ => s
  end.

Definition permute (m : list int) : list int :=
  match m with
  | [m0;m1;m2;m3;m4;m5;m6;m7;m8;m9;m10;m11;m12;m13;m14;m15] =>
    [m2;m6;m3;m10;m7;m0;m4;m13;m1;m11;m12;m5;m9;m14;m15;m8]
  | _ => m
  end.

Definition iv : list int :=
  [0x6A09E667; 0xBB67AE85; 0x3C6EF372; 0xA54FF53A; 0x510E527F; 0x9B05688C; 0x1F83D9AB; 0x5BE0CD19].

Fixpoint rounds (n : nat) (s m : list int) : list int :=
  match n with
  | O => s
  | S O => round s m
  | S n' => rounds n' (round s m) (permute m)
  end.

Fixpoint xor8 (a b : list int) (n : nat) : list int :=
  match n, a, b with
  | S n', x :: a', y :: b' => (x lxor y) :: xor8 a' b' n'
  | _, _, _ => []
  end.

Definition compress (cv block : list int) (counter blen flags : int) : list int :=
  let s := cv ++ firstn 4 iv ++ [counter land m32; (counter >> 32) land m32; blen; flags] in
  let s := rounds 7 s block in
  xor8 (firstn 8 s) (skipn 8 s) 8.

Definition byte_int (b : N) : int := of_Z (Z.of_N b).

Fixpoint words (n : nat) (l : list N) : list int :=
  match n with
  | O => []
  | S n' =>
      match l with
      | b0 :: b1 :: b2 :: b3 :: r =>
          (byte_int b0 lor (byte_int b1 << 8) lor (byte_int b2 << 16) lor (byte_int b3 << 24)) :: words n' r
      | _ => 0 :: words n' []
      end
  end.

Fixpoint pad (n : nat) (l : list N) : list N :=
  match n with
  | O => []
  | S n' => match l with [] => 0%N :: pad n' [] | b :: r => b :: pad n' r end
  end.

Definition block_words (b : list N) : list int := words 16 (pad 64 b).

Fixpoint chunk_blocks (fuel : nat) (cv : list int) (l : list N) (counter : int) (first root : bool) : list int :=
  match fuel with
  | O => cv
  | S f =>
      let blk := firstn 64 l in
      let rest := skipn 64 l in
      let last := match rest with [] => true | _ => false end in
      let flags := (if first then 1 else 0) lor (if last then (2 lor (if root then 8 else 0)) else 0) in
      let cv' := compress cv (block_words blk) counter (of_Z (Z.of_nat (length blk))) flags in
      if last then cv' else chunk_blocks f cv' rest counter false root
  end.

Definition chunk_cv (l : list N) (counter : int) (root : bool) : list int :=
  chunk_blocks 17 iv l counter true root.

Definition parent_cv (lc rc : list int) (root : bool) : list int :=
  compress iv (lc ++ rc) 0 64 (4 lor (if root then 8 else 0)).

Fixpoint pow2_below (fuel : nat) (p n : nat) : nat :=
  match fuel with
  | O => p
  | S f => if Nat.ltb (2 * p) n then pow2_below f (2 * p) n else p
  end.

Fixpoint chunks_of (fuel : nat) (l : list N) : list (list N) :=
  match fuel with
  | O => []
  | S f => match skipn 1024 l with
           | [] => [l]
           | rest => firstn 1024 l :: chunks_of f rest
           end
  end.

Fixpoint tree (fuel : nat) (cs : list (list N)) (counter : int) (root : bool) : list int :=
  match fuel with
  | O => iv
  | S f =>
      match cs with
      | [] => chunk_cv [] counter root
      | [c] => chunk_cv c counter root
      | _ =>
          let n := length cs in
          let k := pow2_below 64 1 n in
          parent_cv (tree f (firstn k cs) counter false)
                    (tree f (skipn k cs) (counter + of_Z (Z.of_nat k)) false) root
      end
  end.

Fixpoint n_of_int (bits : nat) (i : int) : N :=
  match bits with
  | O => 0%N
  | S b => (if is_even i then N.double else N.succ_double) (n_of_int b (i >> 1))
  end.

Definition bswap32 (w : int) : int :=
  ((w land 255) << 24) lor (((w >> 8) land 255) << 16) lor (((w >> 16) land 255) << 8) lor ((w >> 24) land 255).

(* digest as the big-endian value of the 32 output bytes *)
Definition hash (l : list N) : N :=
  let cs := chunks_of (S (length l / 1024)) l in
  fold_left (fun acc w => N.lor (N.shiftl acc 32) (n_of_int 32 (bswap32 w)))
            (tree (S (length cs)) cs 0 true) 0%N.
End B3.

Open Scope N_scope.

(* ------------------------------------------------------------------ bytes helpers *)
Fixpoint le_fast (n : nat) (x : N) : bytes :=
  match n with
  | O => []
  | S n' => N.land x 255 :: le_fast n' (N.shiftr x 8)
  end.
Definition be32 (x : N) : bytes := rev (le_fast 32 x).
Definition le8 (x : N) : bytes := le_fast 8 x.
Definition le4 (x : N) : bytes := le_fast 4 x.
Definition le2 (x : N) : bytes := le_fast 2 x.
Definition mask256 : N := N.ones 256.

Definition bool_cmp (a b : bool) : comparison :=
  match a, b with
  | false, true => Lt
  | true, false => Gt
  | _, _ => Eq
  end.
Definition path := list bool.
Definition path_cmp : path -> path -> comparison := list_cmp bool_cmp.

(* first [n] bits of the low [n] bits of k, most significant first *)
Fixpoint bits (n : nat) (k : N) : path :=
  match n with
  | O => []
  | S n' => N.testbit k (N.of_nat n') :: bits n' k
  end.

Definition MAX_SETTLEMENT_BYTES : N := 1048576.

(* ------------------------------------------------------------------ values *)
Record request := {
  rq_id : N; rq_worldline : N; rq_op : N; rq_in_schema : N; rq_set_schema : N; rq_scope : N;
  rq_basis : N; rq_max_bytes : N; rq_max_attempts : N; rq_input : N; rq_recon : N }.

Record claim := {
  cl_request : N; cl_attempt : N; cl_ordinal : N; cl_adapter : N; cl_lease : N; cl_idem : N;
  cl_recon : N; cl_basis : N; cl_policy : N }.

Inductive skind := Succeeded | Rejected | Failed | OutcomeUnknown.
Definition skind_code (k : skind) : N :=
  match k with Succeeded => 1 | Rejected => 2 | Failed => 3 | OutcomeUnknown => 4 end.

(* settlement candidate and admitted settlement have the same fields
   (declared_result_digest becomes result_digest) *)
Record settle := {
  st_request : N; st_attempt : N; st_adapter : N; st_kind : skind; st_schema : N; st_basis : N;
  st_bytes : bytes; st_digest : N; st_schema_ev : N; st_ext_ev : N }.

Record authz := {
  au_adapter : N; au_op : N; au_scope : N; au_request : N; au_basis : N; au_policy : N }.

Inductive posture := PRequested | PClaimed | PSettled (k : skind).

Record entry := {
  e_request : request; e_request_commit : N;
  e_claim : option claim; e_claim_commit : option N;
  e_settlement : option settle; e_settlement_commit : option N;
  e_posture : posture }.

Inductive err :=
| EmptyBudget | RequestBudgetLimitExceeded | UnsupportedAttemptBudget | RequestIdentityMismatch
| UnauthorizedAdapter | AuthorizationBindingMismatch | MissingLeaseEvidence
| MissingAuthorizationPolicyEvidence | StaleBasis | AttemptBudgetExhausted | ClaimBindingMismatch
| SettlementSchemaMismatch | SettlementResultDigestMismatch | SettlementBudgetExceeded
| SettlementClaimMismatch | DuplicateRequest | DuplicateClaim | DuplicateSettlement
| ConflictingSettlement | MissingRequest | MissingClaim | MissingSettlement
| CoordinatorRecoveryRequired | WalTailNotClean | MissingSchemaAdmissionEvidence
| MissingExternalEvidence | ExternalActionFrontierMismatch | WalStoreErr.

Inductive result (A : Type) := Ok (a : A) | Err (e : err).
Arguments Ok {A} a.
Arguments Err {A} e.

Definition request_eqb (a b : request) : bool :=
  (rq_id a =? rq_id b) && (rq_worldline a =? rq_worldline b) && (rq_op a =? rq_op b) &&
  (rq_in_schema a =? rq_in_schema b) && (rq_set_schema a =? rq_set_schema b) &&
  (rq_scope a =? rq_scope b) && (rq_basis a =? rq_basis b) && (rq_max_bytes a =? rq_max_bytes b) &&
  (rq_max_attempts a =? rq_max_attempts b) && (rq_input a =? rq_input b) && (rq_recon a =? rq_recon b).

Definition claim_eqb (a b : claim) : bool :=
  (cl_request a =? cl_request b) && (cl_attempt a =? cl_attempt b) && (cl_ordinal a =? cl_ordinal b) &&
  (cl_adapter a =? cl_adapter b) && (cl_lease a =? cl_lease b) && (cl_idem a =? cl_idem b) &&
  (cl_recon a =? cl_recon b) && (cl_basis a =? cl_basis b) && (cl_policy a =? cl_policy b).

Definition skind_eqb (a b : skind) : bool := skind_code a =? skind_code b.

Fixpoint bytes_eqb (a b : bytes) : bool :=
  match a, b with
  | [], [] => true
  | x :: a', y :: b' => (x =? y) && bytes_eqb a' b'
  | _, _ => false
  end.

Definition settle_eqb (a b : settle) : bool :=
  (st_request a =? st_request b) && (st_attempt a =? st_attempt b) && (st_adapter a =? st_adapter b) &&
  skind_eqb (st_kind a) (st_kind b) && (st_schema a =? st_schema b) && (st_basis a =? st_basis b) &&
  bytes_eqb (st_bytes a) (st_bytes b) && (st_digest a =? st_digest b) &&
  (st_schema_ev a =? st_schema_ev b) && (st_ext_ev a =? st_ext_ev b).

Definition opt_N_eqb (a b : option N) : bool :=
  match a, b with
  | Some x, Some y => x =? y
  | None, None => true
  | _, _ => false
  end.

(* WAL records: one frame + commit marker per lifecycle transaction *)
Inductive body := BRequest (r : request) | BClaim (c : claim) | BSettle (s : settle).
Record txrec := { tx_lsn : N; tx_body : body; tx_before : N; tx_after : N }.
(* [sto_base] identifies the WAL chain: the commit digest of the n-th committed transaction of
   this store is represented by sto_base + n, so commits of different stores never coincide *)
(* [sto_torn]: the segment ends in a partially written (byte-torn) record *)
Record store := { sto_base : N; sto_committed : list txrec; sto_tail : list txrec; sto_torn : bool }.

(* FailTorn: the frame append fails after part of the record reached the segment file *)
Inductive fault := NoFault | FailAppend | FailFlush | FailAfterSync | FailTorn.

Record index := { ix_entries : list (N * entry); ix_nodes : list (path * N) }.
Record coordinator := { co_index : index; co_next_lsn : N; co_ready : bool }.
Record sys := { sy_store : store; sy_coord : coordinator }.

Definition empty_index : index := {| ix_entries := []; ix_nodes := [] |}.
Definition empty_store (base : N) : store :=
  {| sto_base := base; sto_committed := []; sto_tail := []; sto_torn := false |}.

Section WithHash.
  Variable H : bytes -> N.
  Variable D : nat.      (* depth of the sparse Merkle index; 256 in the code *)
  (* external_action_empty_hashes(): the code computes this table once (OnceLock).  It is a
     Section variable so that execution can pass the precomputed table; every theorem that
     depends on its contents assumes [EH = empty_table D] (defined below), the others hold for
     any table. *)
  Variable EH : list N.

  Definition H32 (l : bytes) : N := N.land (H l) mask256.

  (* ---------------------------------------------------------------- domains / payloads *)
  Definition REQUEST_ID_DOMAIN := (* "echo:external-action:request-id:v1" *) [101;99;104;111;58;101;120;116;101;114;110;97;108;45;97;99;116;105;111;110;58;114;101;113;117;101;115;116;45;105;100;58;118;49] ++ [0].
  Definition ATTEMPT_ID_DOMAIN := (* "echo:external-action:attempt-id:v1" *) [101;99;104;111;58;101;120;116;101;114;110;97;108;45;97;99;116;105;111;110;58;97;116;116;101;109;112;116;45;105;100;58;118;49] ++ [0].
  Definition IDEMPOTENCY_KEY_DOMAIN := (* "echo:external-action:idempotency-key:v1" *) [101;99;104;111;58;101;120;116;101;114;110;97;108;45;97;99;116;105;111;110;58;105;100;101;109;112;111;116;101;110;99;121;45;107;101;121;58;118;49] ++ [0].
  Definition ADAPTER_REGISTRY_ID_DOMAIN := (* "echo:external-action:adapter-registry-id:v1" *) [101;99;104;111;58;101;120;116;101;114;110;97;108;45;97;99;116;105;111;110;58;97;100;97;112;116;101;114;45;114;101;103;105;115;116;114;121;45;105;100;58;118;49] ++ [0].
  Definition INDEX_EMPTY_LEAF_DOMAIN := (* "echo:external-action:index-empty-leaf:v1" *) [101;99;104;111;58;101;120;116;101;114;110;97;108;45;97;99;116;105;111;110;58;105;110;100;101;120;45;101;109;112;116;121;45;108;101;97;102;58;118;49] ++ [0].
  Definition INDEX_LEAF_DOMAIN := (* "echo:external-action:index-leaf:v1" *) [101;99;104;111;58;101;120;116;101;114;110;97;108;45;97;99;116;105;111;110;58;105;110;100;101;120;45;108;101;97;102;58;118;49] ++ [0].
  Definition INDEX_NODE_DOMAIN := (* "echo:external-action:index-node:v1" *) [101;99;104;111;58;101;120;116;101;114;110;97;108;45;97;99;116;105;111;110;58;105;110;100;101;120;45;110;111;100;101;58;118;49] ++ [0].

  Definition request_fields (r : request) : bytes :=
    be32 (rq_worldline r) ++ be32 (rq_op r) ++ be32 (rq_in_schema r) ++ be32 (rq_set_schema r) ++
    be32 (rq_scope r) ++ be32 (rq_basis r) ++ le8 (rq_max_bytes r) ++ le4 (rq_max_attempts r) ++
    be32 (rq_input r) ++ be32 (rq_recon r).

  Definition expected_request_id (r : request) : N := H32 (REQUEST_ID_DOMAIN ++ request_fields r).

  Definition budget_check (r : request) : option err :=
    if (rq_max_bytes r =? 0) || (rq_max_attempts r =? 0) then Some EmptyBudget
    else if negb (rq_max_attempts r =? 1) then Some UnsupportedAttemptBudget
    else if MAX_SETTLEMENT_BYTES <? rq_max_bytes r then Some RequestBudgetLimitExceeded
    else None.

  (* ExternalActionRequestV1::new (fields of [r] other than rq_id are the arguments) *)
  Definition new_request (r : request) : result request :=
    match budget_check r with
    | Some e => Err e
    | None =>
        Ok {| rq_id := expected_request_id r; rq_worldline := rq_worldline r; rq_op := rq_op r;
              rq_in_schema := rq_in_schema r; rq_set_schema := rq_set_schema r; rq_scope := rq_scope r;
              rq_basis := rq_basis r; rq_max_bytes := rq_max_bytes r; rq_max_attempts := rq_max_attempts r;
              rq_input := rq_input r; rq_recon := rq_recon r |}
    end.

  Definition validate_identity (r : request) : option err :=
    if negb (rq_id r =? expected_request_id r) then Some RequestIdentityMismatch
    else budget_check r.

  Definition request_payload (r : request) : bytes :=
    (* "EAR1" *) [69;65;82;49] ++ be32 (rq_id r) ++ request_fields r.

  Definition claim_payload (c : claim) : bytes :=
    (* "EAC1" *) [69;65;67;49] ++ be32 (cl_request c) ++ be32 (cl_attempt c) ++ le4 (cl_ordinal c) ++ be32 (cl_adapter c) ++
    be32 (cl_lease c) ++ be32 (cl_idem c) ++ be32 (cl_recon c) ++ be32 (cl_basis c) ++ be32 (cl_policy c).

  Definition settle_payload (s : settle) : bytes :=
    (* "EAS1" *) [69;65;83;49] ++ be32 (st_request s) ++ be32 (st_attempt s) ++ be32 (st_adapter s) ++ [skind_code (st_kind s)] ++
    be32 (st_schema s) ++ be32 (st_basis s) ++ le8 (lenN (st_bytes s)) ++ st_bytes s ++ be32 (st_digest s) ++
    be32 (st_schema_ev s) ++ be32 (st_ext_ev s).

  Definition idempotency_key (r : request) : N :=
    H32 (IDEMPOTENCY_KEY_DOMAIN ++ be32 (rq_id r) ++ be32 (rq_recon r)).

  Definition attempt_id (request_id ordinal adapter lease policy : N) : N :=
    H32 (ATTEMPT_ID_DOMAIN ++ be32 request_id ++ le4 ordinal ++ be32 adapter ++ be32 lease ++ be32 policy).

  (* ExternalActionClaimV1::for_request *)
  Definition claim_for_request (r : request) (adapter ordinal lease policy : N) : claim :=
    {| cl_request := rq_id r; cl_attempt := attempt_id (rq_id r) ordinal adapter lease policy;
       cl_ordinal := ordinal; cl_adapter := adapter; cl_lease := lease; cl_idem := idempotency_key r;
       cl_recon := rq_recon r; cl_basis := rq_basis r; cl_policy := policy |}.

  (* ExternalActionSettlementCandidateV1::new: the declared digest is the hash of the bytes *)
  Definition result_digest (b : bytes) : N := H32 b.

  (* ---------------------------------------------------------------- registry *)
  Definition binding := (N * (N * N))%type.  (* (operation, (scope, adapter)) *)
  Definition binding_cmp : binding -> binding -> comparison :=
    pair_cmp N.compare (pair_cmp N.compare N.compare).
  Definition registry_canon (bs : list binding) : list (binding * unit) :=
    of_list binding_cmp (map (fun b => (b, tt)) bs).

  Definition registry_identity (bs : list binding) : N :=
    let c := registry_canon bs in
    H32 (ADAPTER_REGISTRY_ID_DOMAIN ++ le8 (lenN c) ++
         flat_map (fun bu => be32 (fst (fst bu)) ++ be32 (fst (snd (fst bu))) ++ be32 (snd (snd (fst bu)))) c).

  Definition authorize (bs : list binding) (r : request) (adapter : N) : result authz :=
    if mem binding_cmp (rq_op r, (rq_scope r, adapter)) (registry_canon bs) then
      Ok {| au_adapter := adapter; au_op := rq_op r; au_scope := rq_scope r; au_request := rq_id r;
            au_basis := rq_basis r; au_policy := registry_identity bs |}
    else Err UnauthorizedAdapter.

  (* ---------------------------------------------------------------- sparse Merkle index *)
  Definition hash_len_prefixed (b : bytes) : bytes := le8 (lenN b) ++ b.

  Definition leaf_preimage (e : entry) : bytes :=
    INDEX_LEAF_DOMAIN ++ be32 (rq_id (e_request e)) ++ hash_len_prefixed (request_payload (e_request e)) ++
    match e_claim e with
    | Some c => [1] ++ hash_len_prefixed (claim_payload c)
    | None => [0]
    end ++
    match e_settlement e with
    | Some s => [1] ++ hash_len_prefixed (settle_payload s)
    | None => [0]
    end.
  Definition leaf_hash (e : entry) : N := H32 (leaf_preimage e).

  Definition node_hash (depth : nat) (l r : N) : N :=
    H32 (INDEX_NODE_DOMAIN ++ le2 (N.of_nat depth) ++ be32 l ++ be32 r).
  Definition empty_leaf : N := H32 INDEX_EMPTY_LEAF_DOMAIN.

  (* empty_from n d = hash of an empty subtree of height n rooted at depth d
     (external_action_empty_hashes()[d] with n = D - d) *)
  Fixpoint empty_from (n d : nat) : N :=
    match n with
    | O => empty_leaf
    | S n' => let c := empty_from n' (S d) in node_hash d c c
    end.

  (* table indexed by the height of the subtree: nth n table = empty_from n (D - n) *)
  Fixpoint empty_table (n : nat) : list N :=
    match n with
    | O => [empty_leaf]
    | S n' =>
        match empty_table n' with
        | c :: t => node_hash (D - n) c c :: c :: t
        | [] => []
        end
    end.

  Definition node_val (eh : N) (nodes : list (path * N)) (rp : path) : N :=
    match find path_cmp rp nodes with Some h => h | None => eh end.

  (* plan_entry: walk the key path; [rp] is the reversed prefix reached so far, [rest] the
     remaining key bits, [ehs] the empty hashes for the subtrees below (height-indexed, tallest
     first).  Returns the hash of the updated subtree at [rp] and the node updates, deepest first
     (the order node_updates is filled in the code). *)
  Fixpoint plan_path (nodes : list (path * N)) (ehs : list N) (rp : path) (rest : path) (leaf : N)
    : N * list (path * N) :=
    match rest with
    | [] => (leaf, [(rp, leaf)])
    | b :: rest' =>
        let ehs' := tl ehs in
        let '(child, ups) := plan_path nodes ehs' (b :: rp) rest' leaf in
        let sib := node_val (hd 0 ehs') nodes (negb b :: rp) in
        let h := if b then node_hash (length rp) sib child else node_hash (length rp) child sib in
        (h, ups ++ [(rp, h)])
    end.

  Definition plan_entry (idx : index) (e : entry) : N * list (path * N) :=
    plan_path (ix_nodes idx) EH [] (bits D (rq_id (e_request e))) (leaf_hash e).

  Definition apply_updates (nodes : list (path * N)) (ups : list (path * N)) : list (path * N) :=
    fold_left (fun m kv => set path_cmp (fst kv) (snd kv) m) ups nodes.

  Definition apply_mutation (idx : index) (e : entry) (ups : list (path * N)) : index :=
    {| ix_entries := set N.compare (rq_id (e_request e)) e (ix_entries idx);
       ix_nodes := apply_updates (ix_nodes idx) ups |}.

  (* insert_entry / replace_entry *)
  Definition upsert (idx : index) (e : entry) : index :=
    apply_mutation idx e (snd (plan_entry idx e)).

  Definition root_digest (idx : index) : N :=
    node_val (hd 0 EH) (ix_nodes idx) [].

  Definition get (idx : index) (id : N) : option entry := find N.compare id (ix_entries idx).

  (* ---------------------------------------------------------------- validation *)
  Definition validate_claim (r : request) (c : claim) : option err :=
    let expected := claim_for_request r (cl_adapter c) (cl_ordinal c) (cl_lease c) (cl_policy c) in
    if negb (claim_eqb c expected) then Some ClaimBindingMismatch
    else if rq_max_attempts r <=? cl_ordinal c then Some AttemptBudgetExhausted
    else if cl_lease c =? 0 then Some MissingLeaseEvidence
    else if cl_policy c =? 0 then Some MissingAuthorizationPolicyEvidence
    else None.

  Definition validate_candidate (r : request) (c : claim) (s : settle) : option err :=
    if negb (st_request s =? rq_id r) || negb (st_attempt s =? cl_attempt c) ||
       negb (st_adapter s =? cl_adapter c) || negb (st_basis s =? rq_basis r)
    then Some SettlementClaimMismatch
    else if negb (st_schema s =? rq_set_schema r) then Some SettlementSchemaMismatch
    else if st_schema_ev s =? 0 then Some MissingSchemaAdmissionEvidence
    else if st_ext_ev s =? 0 then Some MissingExternalEvidence
    else if rq_max_bytes r <? lenN (st_bytes s) then Some SettlementBudgetExceeded
    else if negb (H32 (st_bytes s) =? st_digest s) then Some SettlementResultDigestMismatch
    else None.

  (* ---------------------------------------------------------------- recovery (observe) *)
  Definition mk_requested (r : request) (commit : N) : entry :=
    {| e_request := r; e_request_commit := commit; e_claim := None; e_claim_commit := None;
       e_settlement := None; e_settlement_commit := None; e_posture := PRequested |}.

  Definition with_claim (e : entry) (c : claim) (commit : option N) : entry :=
    {| e_request := e_request e; e_request_commit := e_request_commit e; e_claim := Some c;
       e_claim_commit := commit; e_settlement := e_settlement e;
       e_settlement_commit := e_settlement_commit e; e_posture := PClaimed |}.

  Definition with_settlement (e : entry) (s : settle) (commit : option N) : entry :=
    {| e_request := e_request e; e_request_commit := e_request_commit e; e_claim := e_claim e;
       e_claim_commit := e_claim_commit e; e_settlement := Some s; e_settlement_commit := commit;
       e_posture := PSettled (st_kind s) |}.

  Definition with_request_commit (e : entry) (commit : N) : entry :=
    {| e_request := e_request e; e_request_commit := commit; e_claim := e_claim e;
       e_claim_commit := e_claim_commit e; e_settlement := e_settlement e;
       e_settlement_commit := e_settlement_commit e; e_posture := e_posture e |}.

  (* the record-kind specific part of the loop body of observe_external_actions *)
  Definition apply_body (idx : index) (b : body) (commit : N) : result index :=
    match b with
    | BRequest r =>
        match validate_identity r with
        | Some e => Err e
        | None =>
            match get idx (rq_id r) with
            | Some _ => Err DuplicateRequest
            | None => Ok (upsert idx (mk_requested r commit))
            end
        end
    | BClaim c =>
        match get idx (cl_request c) with
        | None => Err MissingRequest
        | Some e =>
            match e_claim e with
            | Some _ => Err DuplicateClaim
            | None =>
                match validate_claim (e_request e) c with
                | Some er => Err er
                | None => Ok (upsert idx (with_claim e c (Some commit)))
                end
            end
        end
    | BSettle s =>
        (* ExternalActionSettlementV1::from_payload_bytes *)
        if MAX_SETTLEMENT_BYTES <? lenN (st_bytes s) then Err SettlementBudgetExceeded
        else if negb (H32 (st_bytes s) =? st_digest s) then Err SettlementResultDigestMismatch
        else
        (* apply_recovered_settlement *)
        match get idx (st_request s) with
        | None => Err MissingRequest
        | Some e =>
            match e_claim e with
            | None => Err MissingClaim
            | Some c =>
                match validate_candidate (e_request e) c s with
                | Some er => Err er
                | None =>
                    match e_settlement e with
                    | Some existing =>
                        match e_settlement_commit e with
                        | None => Err MissingSettlement
                        | Some ec =>
                            if settle_eqb existing s && (ec =? commit) then Err DuplicateSettlement
                            else Err ConflictingSettlement
                        end
                    | None => Ok (upsert idx (with_settlement e s (Some commit)))
                    end
                end
            end
        end
    end.

  Definition apply_record (idx : index) (t : txrec) : result index :=
    match apply_body idx (tx_body t) (tx_lsn t) with
    | Err e => Err e
    | Ok idx' =>
        if (tx_before t =? root_digest idx) && (tx_after t =? root_digest idx') then Ok idx'
        else Err ExternalActionFrontierMismatch
    end.

  Fixpoint observe_from (idx : index) (l : list txrec) : result index :=
    match l with
    | [] => Ok idx
    | t :: l' =>
        match apply_record idx t with
        | Ok idx' => observe_from idx' l'
        | Err e => Err e
        end
    end.

  Definition observe (l : list txrec) : result index := observe_from empty_index l.

  Definition continuation (base : N) (l : list txrec) : N :=
    match rev l with
    | [] => base
    | t :: _ => tx_lsn t + 1
    end.

  (* ExternalActionCoordinatorV1::recover *)
  Definition recover (s : store) : result coordinator :=
    (* read_snapshot refuses a torn segment (WalStoreError::SegmentHasUncommittedTail) *)
    if sto_torn s then Err WalStoreErr else
    match sto_tail s with
    | _ :: _ => Err WalTailNotClean
    | [] =>
        match observe (sto_committed s) with
        | Err e => Err e
        | Ok idx => Ok {| co_index := idx; co_next_lsn := continuation (sto_base s) (sto_committed s); co_ready := true |}
        end
    end.

  (* ordinary WAL recovery in writable mode: drop the uncommitted tail *)
  Definition truncate (s : store) : store :=
    {| sto_base := sto_base s; sto_committed := sto_committed s; sto_tail := []; sto_torn := false |}.

  (* ---------------------------------------------------------------- live transitions *)
  Definition unready (c : coordinator) : coordinator :=
    {| co_index := co_index c; co_next_lsn := co_next_lsn c; co_ready := false |}.

  (* append_transaction: frame append, then commit flush, then the continuation advances *)
  Definition append_transaction (sto : store) (co : coordinator) (b : body) (before after : N) (f : fault)
    : store * coordinator * result N :=
    let t := {| tx_lsn := co_next_lsn co; tx_body := b; tx_before := before; tx_after := after |} in
    match f with
    | FailAppend => (sto, unready co, Err WalStoreErr)
    | FailTorn =>
        ({| sto_base := sto_base sto; sto_committed := sto_committed sto; sto_tail := sto_tail sto; sto_torn := true |},
         unready co, Err WalStoreErr)
    | FailFlush =>
        ({| sto_base := sto_base sto; sto_committed := sto_committed sto; sto_tail := sto_tail sto ++ [t]; sto_torn := sto_torn sto |},
         unready co, Err WalStoreErr)
    | FailAfterSync =>
        ({| sto_base := sto_base sto; sto_committed := sto_committed sto ++ [t]; sto_tail := sto_tail sto; sto_torn := sto_torn sto |}, unready co, Err WalStoreErr)
    | NoFault =>
        ({| sto_base := sto_base sto; sto_committed := sto_committed sto ++ [t]; sto_tail := sto_tail sto; sto_torn := sto_torn sto |},
         {| co_index := co_index co; co_next_lsn := co_next_lsn co + 1; co_ready := true |},
         Ok (co_next_lsn co))
    end.

  Definition set_index (co : coordinator) (idx : index) : coordinator :=
    {| co_index := idx; co_next_lsn := co_next_lsn co; co_ready := co_ready co |}.

  Inductive out :=
  | OutToken (r : request) (commit : N)
  | OutGrant (r : request) (c : claim) (commit : N)
  | OutAdmitted (s : settle) (commit : N)
  | OutRecovered
  | OutErr (e : err).

  (* common tail of the three transitions: plan, append, then advance the index *)
  Definition commit_entry (s : sys) (next : entry) (b : body) (f : fault)
             (finish : entry -> N -> entry) (grant : N -> out) : sys * out :=
    let co := sy_coord s in
    let idx := co_index co in
    let '(new_root, ups) := plan_entry idx next in
    let '(sto', co', r) := append_transaction (sy_store s) co b (root_digest idx) new_root f in
    match r with
    | Err e => ({| sy_store := sto'; sy_coord := co' |}, OutErr e)
    | Ok commit =>
        ({| sy_store := sto'; sy_coord := set_index co' (apply_mutation idx (finish next commit) ups) |},
         grant commit)
    end.

  (* record_external_action_request *)
  Definition record_request (s : sys) (r : request) (f : fault) : sys * out :=
    let co := sy_coord s in
    if negb (co_ready co) then (s, OutErr CoordinatorRecoveryRequired) else
    match get (co_index co) (rq_id r) with
    | Some _ => (s, OutErr DuplicateRequest)
    | None =>
        match validate_identity r with
        | Some e => (s, OutErr e)
        | None =>
            commit_entry s (mk_requested r 0) (BRequest r) f with_request_commit (fun c => OutToken r c)
        end
    end.

  (* claim_external_action; the token is (request, request_commit_digest) *)
  Definition claim_action (s : sys) (r : request) (a : authz) (basis ordinal lease : N) (f : fault)
    : sys * out :=
    let co := sy_coord s in
    if negb (co_ready co) then (s, OutErr CoordinatorRecoveryRequired) else
    match validate_identity r with
    | Some e => (s, OutErr e)
    | None =>
    match get (co_index co) (rq_id r) with
    | None => (s, OutErr MissingRequest)
    | Some recovered =>
        if negb (request_eqb (e_request recovered) r) then (s, OutErr RequestIdentityMismatch) else
        match e_claim recovered with
        | Some _ => (s, OutErr DuplicateClaim)
        | None =>
            if negb (au_op a =? rq_op r) || negb (au_scope a =? rq_scope r)
            then (s, OutErr UnauthorizedAdapter)
            else if negb (au_request a =? rq_id r) || negb (au_basis a =? rq_basis r) || (au_policy a =? 0)
            then (s, OutErr AuthorizationBindingMismatch)
            else if negb (basis =? rq_basis r) then (s, OutErr StaleBasis)
            else if rq_max_attempts r <=? ordinal then (s, OutErr AttemptBudgetExhausted)
            else if lease =? 0 then (s, OutErr MissingLeaseEvidence)
            else
              let c := claim_for_request r (au_adapter a) ordinal lease (au_policy a) in
              commit_entry s (with_claim recovered c None) (BClaim c) f
                           (fun e commit => with_claim e c (Some commit)) (fun commit => OutGrant r c commit)
        end
    end
    end.

  (* admit_external_action_settlement; the grant is (request, claim, claim_commit_digest) *)
  Definition admit_settlement (s : sys) (gr : request) (gc : claim) (gcommit : N) (cand : settle) (f : fault)
    : sys * out :=
    let co := sy_coord s in
    if negb (co_ready co) then (s, OutErr CoordinatorRecoveryRequired) else
    match get (co_index co) (rq_id gr) with
    | None => (s, OutErr MissingRequest)
    | Some recovered =>
        match e_claim recovered with
        | None => (s, OutErr MissingClaim)
        | Some rc =>
            if negb (request_eqb (e_request recovered) gr) || negb (claim_eqb rc gc) ||
               negb (opt_N_eqb (e_claim_commit recovered) (Some gcommit))
            then (s, OutErr SettlementClaimMismatch)
            else
            match e_settlement recovered with
            | Some _ => (s, OutErr DuplicateSettlement)
            | None =>
                match validate_candidate gr gc cand with
                | Some e => (s, OutErr e)
                | None =>
                    commit_entry s (with_settlement recovered cand None) (BSettle cand) f
                                 (fun e commit => with_settlement e cand (Some commit))
                                 (fun commit => OutAdmitted cand commit)
                end
            end
        end
    end.

  (* reconcile_external_action_settlement_retry: no store, no context, no grant *)
  Definition retry (co : coordinator) (cand : settle) : out :=
    if negb (co_ready co) then OutErr CoordinatorRecoveryRequired else
    match get (co_index co) (st_request cand) with
    | None => OutErr MissingRequest
    | Some recovered =>
        match e_claim recovered with
        | None => OutErr MissingClaim
        | Some c =>
            match validate_candidate (e_request recovered) c cand with
            | Some e => OutErr e
            | None =>
                match e_settlement recovered with
                | None => OutErr MissingSettlement
                | Some st =>
                    match e_settlement_commit recovered with
                    | None => OutErr MissingSettlement
                    | Some commit =>
                        if settle_eqb st cand then OutAdmitted st commit else OutErr ConflictingSettlement
                    end
                end
            end
        end
    end.

  (* ExternalActionCoordinatorV1::{recorded_request, claim_grant, admitted_settlement} *)
  Definition recorded_request (co : coordinator) (id : N) : out :=
    if negb (co_ready co) then OutErr CoordinatorRecoveryRequired else
    match get (co_index co) id with
    | None => OutErr MissingRequest
    | Some e =>
        match e_claim e with
        | Some _ => OutErr DuplicateClaim
        | None => OutToken (e_request e) (e_request_commit e)
        end
    end.

  Definition claim_grant (co : coordinator) (id : N) : out :=
    if negb (co_ready co) then OutErr CoordinatorRecoveryRequired else
    match get (co_index co) id with
    | None => OutErr MissingRequest
    | Some e =>
        match e_claim e with
        | None => OutErr MissingClaim
        | Some c =>
            match e_settlement e with
            | Some _ => OutErr DuplicateSettlement
            | None =>
                match e_claim_commit e with
                | None => OutErr MissingClaim
                | Some commit => OutGrant (e_request e) c commit
                end
            end
        end
    end.

  Definition admitted_settlement (co : coordinator) (id : N) : out :=
    if negb (co_ready co) then OutErr CoordinatorRecoveryRequired else
    match get (co_index co) id with
    | None => OutErr MissingRequest
    | Some e =>
        match e_settlement e, e_settlement_commit e with
        | Some st, Some commit => OutAdmitted st commit
        | _, _ => OutErr MissingSettlement
        end
    end.

  (* ---------------------------------------------------------------- operations *)
  Inductive op :=
  | ORequest (r : request) (f : fault)
  | OClaim (r : request) (a : authz) (basis ordinal lease : N) (f : fault)
  | OSettle (gr : request) (gc : claim) (gcommit : N) (cand : settle) (f : fault)
  | ORetry (cand : settle)
  | ORecordedRequest (id : N)
  | OClaimGrant (id : N)
  | OAdmitted (id : N)
  | ORecover     (* drop the coordinator, recover from the store; a failed recovery leaves no usable coordinator *)
  | OTruncate.   (* writable WAL recovery: remove the uncommitted tail *)

  Definition step (s : sys) (o : op) : sys * out :=
    match o with
    | ORequest r f => record_request s r f
    | OClaim r a basis ordinal lease f => claim_action s r a basis ordinal lease f
    | OSettle gr gc gcommit cand f => admit_settlement s gr gc gcommit cand f
    | ORetry cand => (s, retry (sy_coord s) cand)
    | ORecordedRequest id => (s, recorded_request (sy_coord s) id)
    | OClaimGrant id => (s, claim_grant (sy_coord s) id)
    | OAdmitted id => (s, admitted_settlement (sy_coord s) id)
    | ORecover =>
        match recover (sy_store s) with
        | Ok co => ({| sy_store := sy_store s; sy_coord := co |}, OutRecovered)
        | Err e => ({| sy_store := sy_store s; sy_coord := unready (sy_coord s) |}, OutErr e)
        end
    | OTruncate => ({| sy_store := truncate (sy_store s); sy_coord := sy_coord s |}, OutRecovered)
    end.

  Definition init_sys (base : N) : sys :=
    {| sy_store := empty_store base;
       sy_coord := {| co_index := empty_index; co_next_lsn := base; co_ready := true |} |}.

  (* run with the trace of (operation, output) pairs, oldest first *)
  Fixpoint run_from (s : sys) (ops : list op) : sys * list (op * out) :=
    match ops with
    | [] => (s, [])
    | o :: ops' =>
        let '(s', r) := step s o in
        let '(s'', tr) := run_from s' ops' in
        (s'', (o, r) :: tr)
    end.
  Definition run (ops : list op) : sys * list (op * out) := run_from (init_sys 0) ops.
  Definition state_after (ops : list op) : sys := fst (run ops).
  Definition trace_of (ops : list op) : list (op * out) := snd (run ops).

  (* ---------------------------------------------------------------- specification-side notions *)
  Inductive lstep := SRequested | SClaimed | SSettled.
  Definition body_id (b : body) : N :=
    match b with BRequest r => rq_id r | BClaim c => cl_request c | BSettle s => st_request s end.
  Definition body_step (b : body) : lstep :=
    match b with BRequest _ => SRequested | BClaim _ => SClaimed | BSettle _ => SSettled end.
  (* the recorded lifecycle of one request id, in log order *)
  Definition steps_of (id : N) (l : list txrec) : list lstep :=
    map (fun t => body_step (tx_body t)) (filter (fun t => body_id (tx_body t) =? id) l).

  (* a committed transaction with commit id [c] and body [b] is in the log *)
  Definition has (l : list txrec) (c : N) (b : body) : Prop :=
    exists t, In t l /\ tx_lsn t = c /\ tx_body t = b.

  (* a returned authority is justified by a committed record *)
  Definition grant_backed (o : out) (l : list txrec) : Prop :=
    match o with
    | OutToken r c => has l c (BRequest r)
    | OutGrant r cl c => has l c (BClaim cl) /\ cl_request cl = rq_id r
    | OutAdmitted s c => has l c (BSettle s)
    | _ => True
    end.

  (* a successful claim_external_action for request id [k] in a trace *)
  Definition is_claim_grant (k : N) (x : op * out) : bool :=
    match x with
    | (OClaim _ _ _ _ _ _, OutGrant r _ _) => rq_id r =? k
    | _ => false
    end.

  Definition op_fault (o : op) : fault :=
    match o with
    | ORequest _ f | OClaim _ _ _ _ _ f | OSettle _ _ _ _ f => f
    | _ => NoFault
    end.
  Definition is_grant (o : out) : bool :=
    match o with OutToken _ _ | OutGrant _ _ _ | OutAdmitted _ _ => true | _ => false end.

  (* the sparse Merkle root as a function of the leaves alone: [f] maps the remaining key bits
     to the leaf hash stored there *)
  Fixpoint spec_tree (n d : nat) (f : path -> option N) : N :=
    match n with
    | O => match f [] with Some h => h | None => empty_leaf end
    | S n' => node_hash d (spec_tree n' (S d) (fun p => f (false :: p)))
                          (spec_tree n' (S d) (fun p => f (true :: p)))
    end.

  Fixpoint path_eqb (a b : path) : bool :=
    match a, b with
    | [], [] => true
    | x :: a', y :: b' => Bool.eqb x y && path_eqb a' b'
    | _, _ => false
    end.

  Fixpoint leaf_lookup (es : list (N * entry)) (p : path) : option N :=
    match es with
    | [] => None
    | (k, e) :: r => if path_eqb (bits D k) p then Some (leaf_hash e) else leaf_lookup r p
    end.

  (* root rebuilt from the entries alone *)
  Definition spec_root (es : list (N * entry)) : N := spec_tree D 0 (leaf_lookup es).

  (* ---------------------------------------------------------------- client driver (tie only)
     The public API hands out unforgeable tokens; the driver keeps pools of the values a client
     can hold (requests, authorizations, request tokens, grants, candidates) and two independent
     systems A (false) / B (true) so that tokens of one can be presented to the other.  It is
     sugar over [step] and is not the subject of the theorems (those quantify over arbitrary
     explicit token values). *)
  Inductive rfield := FWorldline | FOp | FInSchema | FSetSchema | FScope | FBasis | FMaxBytes | FMaxAttempts | FInput | FRecon.
  Definition mutate_request (r : request) (fl : rfield) (v : N) : request :=
    {| rq_id := rq_id r;
       rq_worldline := match fl with FWorldline => v | _ => rq_worldline r end;
       rq_op := match fl with FOp => v | _ => rq_op r end;
       rq_in_schema := match fl with FInSchema => v | _ => rq_in_schema r end;
       rq_set_schema := match fl with FSetSchema => v | _ => rq_set_schema r end;
       rq_scope := match fl with FScope => v | _ => rq_scope r end;
       rq_basis := match fl with FBasis => v | _ => rq_basis r end;
       rq_max_bytes := match fl with FMaxBytes => v | _ => rq_max_bytes r end;
       rq_max_attempts := match fl with FMaxAttempts => v | _ => rq_max_attempts r end;
       rq_input := match fl with FInput => v | _ => rq_input r end;
       rq_recon := match fl with FRecon => v | _ => rq_recon r end |}.

  Inductive cmut := MNone | MRequestOf (q : N) | MRequest (v : N) | MAttempt (v : N) | MAdapter (v : N) | MBasis (v : N)
                  | MSchema (v : N) | MDigest (v : N) | MSchemaEv (v : N) | MExtEv (v : N) | MBytes (b : bytes).
  Definition mutate_cand (s : settle) (m : cmut) : settle :=
    {| st_request := match m with MRequest v => v | _ => st_request s end;
       st_attempt := match m with MAttempt v => v | _ => st_attempt s end;
       st_adapter := match m with MAdapter v => v | _ => st_adapter s end;
       st_kind := st_kind s;
       st_schema := match m with MSchema v => v | _ => st_schema s end;
       st_basis := match m with MBasis v => v | _ => st_basis s end;
       st_bytes := match m with MBytes b => b | _ => st_bytes s end;
       st_digest := match m with MDigest v => v | _ => st_digest s end;
       st_schema_ev := match m with MSchemaEv v => v | _ => st_schema_ev s end;
       st_ext_ev := match m with MExtEv v => v | _ => st_ext_ev s end |}.

  Inductive cop :=
  | CNew (r : request)                              (* ExternalActionRequestV1::new -> request pool *)
  | CMut (q : N) (fl : rfield) (v : N)              (* mutate a pub field of pooled request q -> request pool *)
  | CAuth (bs : list binding) (q : N) (adapter : N) (* registry.authorize -> authorization pool *)
  | CRequest (b : bool) (q : N) (f : fault)         (* record -> token pool *)
  | CClaim (b : bool) (t : N) (a : N) (basis ordinal lease : N) (f : fault)   (* consumes token t -> grant pool *)
  | CCand (g : N) (k : skind) (bytes : bytes) (sev eev : N) (m : cmut)        (* candidate from grant g (peek) -> candidate pool *)
  | CSettle (b : bool) (g : N) (c : N) (f : fault)  (* consumes grant g, candidate c *)
  | CRetry (b : bool) (c : N)
  | CRecorded (b : bool) (q : N)                    (* coordinator.recorded_request(id of request q) -> token pool *)
  | CGrant (b : bool) (q : N)                       (* coordinator.claim_grant -> grant pool *)
  | CAdmitted (b : bool) (q : N)
  | CRecover (b : bool)
  | CTruncate (b : bool).

  Record cstate := {
    cs_a : sys; cs_b : sys;
    cs_reqs : list request; cs_auths : list authz;
    cs_tokens : list (option (request * N));
    cs_grants : list (option (request * claim * N));
    cs_cands : list settle }.

  Definition init_cstate : cstate :=
    {| cs_a := init_sys 0; cs_b := init_sys 4294967296; cs_reqs := []; cs_auths := []; cs_tokens := []; cs_grants := []; cs_cands := [] |}.

  Inductive cout := CSkip | COut (o : out) | CReq (r : request) | CAuthz (a : authz) | CCandidate (s : settle).

  Definition nthN {A} (l : list A) (i : N) : option A := nth_error l (N.to_nat i).
  Fixpoint clear_at {A} (l : list (option A)) (i : nat) : list (option A) :=
    match l, i with
    | [], _ => []
    | _ :: r, O => None :: r
    | x :: r, S i' => x :: clear_at r i'
    end.
  Definition get_sys (cs : cstate) (b : bool) : sys := if b then cs_b cs else cs_a cs.
  Definition put_sys (cs : cstate) (b : bool) (s : sys) : cstate :=
    {| cs_a := if b then cs_a cs else s; cs_b := if b then s else cs_b cs; cs_reqs := cs_reqs cs;
       cs_auths := cs_auths cs; cs_tokens := cs_tokens cs; cs_grants := cs_grants cs; cs_cands := cs_cands cs |}.
  Definition push_out (cs : cstate) (o : out) : cstate :=
    match o with
    | OutToken r c =>
        {| cs_a := cs_a cs; cs_b := cs_b cs; cs_reqs := cs_reqs cs; cs_auths := cs_auths cs;
           cs_tokens := cs_tokens cs ++ [Some (r, c)]; cs_grants := cs_grants cs; cs_cands := cs_cands cs |}
    | OutGrant r c n =>
        {| cs_a := cs_a cs; cs_b := cs_b cs; cs_reqs := cs_reqs cs; cs_auths := cs_auths cs;
           cs_tokens := cs_tokens cs; cs_grants := cs_grants cs ++ [Some (r, c, n)]; cs_cands := cs_cands cs |}
    | _ => cs
    end.
  Definition use_token (cs : cstate) (t : N) : cstate :=
    {| cs_a := cs_a cs; cs_b := cs_b cs; cs_reqs := cs_reqs cs; cs_auths := cs_auths cs;
       cs_tokens := clear_at (cs_tokens cs) (N.to_nat t); cs_grants := cs_grants cs; cs_cands := cs_cands cs |}.
  Definition use_grant (cs : cstate) (g : N) : cstate :=
    {| cs_a := cs_a cs; cs_b := cs_b cs; cs_reqs := cs_reqs cs; cs_auths := cs_auths cs;
       cs_tokens := cs_tokens cs; cs_grants := clear_at (cs_grants cs) (N.to_nat g); cs_cands := cs_cands cs |}.

  Definition sys_step (cs : cstate) (b : bool) (o : op) : cstate * cout :=
    let '(s', r) := step (get_sys cs b) o in
    (push_out (put_sys cs b s') r, COut r).

  Definition cstep (cs : cstate) (c : cop) : cstate * cout :=
    match c with
    | CNew r =>
        match new_request r with
        | Ok r' => ({| cs_a := cs_a cs; cs_b := cs_b cs; cs_reqs := cs_reqs cs ++ [r']; cs_auths := cs_auths cs;
                       cs_tokens := cs_tokens cs; cs_grants := cs_grants cs; cs_cands := cs_cands cs |}, CReq r')
        | Err e => (cs, COut (OutErr e))
        end
    | CMut q fl v =>
        match nthN (cs_reqs cs) q with
        | None => (cs, CSkip)
        | Some r =>
            let r' := mutate_request r fl v in
            ({| cs_a := cs_a cs; cs_b := cs_b cs; cs_reqs := cs_reqs cs ++ [r']; cs_auths := cs_auths cs;
                cs_tokens := cs_tokens cs; cs_grants := cs_grants cs; cs_cands := cs_cands cs |}, CReq r')
        end
    | CAuth bs q adapter =>
        match nthN (cs_reqs cs) q with
        | None => (cs, CSkip)
        | Some r =>
            match authorize bs r adapter with
            | Ok a => ({| cs_a := cs_a cs; cs_b := cs_b cs; cs_reqs := cs_reqs cs; cs_auths := cs_auths cs ++ [a];
                          cs_tokens := cs_tokens cs; cs_grants := cs_grants cs; cs_cands := cs_cands cs |}, CAuthz a)
            | Err e => (cs, COut (OutErr e))
            end
        end
    | CRequest b q f =>
        match nthN (cs_reqs cs) q with
        | None => (cs, CSkip)
        | Some r => sys_step cs b (ORequest r f)
        end
    | CClaim b t a basis ordinal lease f =>
        match nthN (cs_tokens cs) t, nthN (cs_auths cs) a with
        | Some (Some (r, _)), Some au => sys_step (use_token cs t) b (OClaim r au basis ordinal lease f)
        | _, _ => (cs, CSkip)
        end
    | CCand g k bytes sev eev m =>
        match nthN (cs_grants cs) g with
        | Some (Some (r, c, _)) =>
            let m := match m with
                     | MRequestOf q => match nthN (cs_reqs cs) q with Some r' => MRequest (rq_id r') | None => MNone end
                     | _ => m
                     end in
            let s := mutate_cand
                       {| st_request := rq_id r; st_attempt := cl_attempt c; st_adapter := cl_adapter c; st_kind := k;
                          st_schema := rq_set_schema r; st_basis := rq_basis r; st_bytes := bytes;
                          st_digest := result_digest bytes; st_schema_ev := sev; st_ext_ev := eev |} m in
            ({| cs_a := cs_a cs; cs_b := cs_b cs; cs_reqs := cs_reqs cs; cs_auths := cs_auths cs;
                cs_tokens := cs_tokens cs; cs_grants := cs_grants cs; cs_cands := cs_cands cs ++ [s] |}, CCandidate s)
        | _ => (cs, CSkip)
        end
    | CSettle b g c f =>
        match nthN (cs_grants cs) g, nthN (cs_cands cs) c with
        | Some (Some (r, cl, n)), Some cand => sys_step (use_grant cs g) b (OSettle r cl n cand f)
        | _, _ => (cs, CSkip)
        end
    | CRetry b c =>
        match nthN (cs_cands cs) c with
        | Some cand => sys_step cs b (ORetry cand)
        | None => (cs, CSkip)
        end
    | CRecorded b q =>
        match nthN (cs_reqs cs) q with
        | Some r => sys_step cs b (ORecordedRequest (rq_id r))
        | None => (cs, CSkip)
        end
    | CGrant b q =>
        match nthN (cs_reqs cs) q with
        | Some r => sys_step cs b (OClaimGrant (rq_id r))
        | None => (cs, CSkip)
        end
    | CAdmitted b q =>
        match nthN (cs_reqs cs) q with
        | Some r => sys_step cs b (OAdmitted (rq_id r))
        | None => (cs, CSkip)
        end
    | CRecover b => sys_step cs b ORecover
    | CTruncate b => sys_step cs b OTruncate
    end.

  (* canonical observation of one system: root, ready, |committed|, |tail|, and per entry
     (id, posture code, request/claim/settlement commit, attempt id, result digest) *)
  Definition opt_code (o : option N) : N := match o with Some x => x + 1 | None => 0 end.
  Definition posture_code (p : posture) : N :=
    match p with PRequested => 0 | PClaimed => 1 | PSettled k => 1 + skind_code k end.
  Definition dump_entry (kv : N * entry) : N * (N * (N * (N * (N * (N * N))))) :=
    let e := snd kv in
    (fst kv, (posture_code (e_posture e), (e_request_commit e, (opt_code (e_claim_commit e),
      (opt_code (e_settlement_commit e),
       (match e_claim e with Some c => cl_attempt c | None => 0 end,
        match e_settlement e with Some s => st_digest s | None => 0 end)))))).
  Definition observe_sys (s : sys) :=
    (root_digest (co_index (sy_coord s)), (if co_ready (sy_coord s) then 1 else 0,
     (lenN (sto_committed (sy_store s)), (lenN (sto_tail (sy_store s)),
      map dump_entry (ix_entries (co_index (sy_coord s))))))).

  Definition cop_sys (c : cop) : bool :=
    match c with
    | CRequest b _ _ | CClaim b _ _ _ _ _ _ | CSettle b _ _ _ | CRetry b _ | CRecorded b _ | CGrant b _
    | CAdmitted b _ | CRecover b | CTruncate b => b
    | _ => false
    end.

  Fixpoint crun_from (cs : cstate) (cops : list cop) :=
    match cops with
    | [] => ([], cs)
    | c :: r =>
        let '(cs', o) := cstep cs c in
        let '(outs, csf) := crun_from cs' r in
        ((o, observe_sys (get_sys cs' (cop_sys c))) :: outs, csf)
    end.
  Definition crun (cops : list cop) := crun_from init_cstate cops.
End WithHash.

(* flat rendering of a driver output: (class, payload, error) *)
Definition render_cout (o : cout) : N * list N * option err :=
  match o with
  | CSkip => (0, [], None)
  | COut (OutErr e) => (1, [], Some e)
  | COut (OutToken r c) => (2, [rq_id r; c], None)
  | COut (OutGrant r cl c) => (3, [rq_id r; cl_attempt cl; cl_idem cl; c], None)
  | COut (OutAdmitted s c) => (4, [st_request s; st_digest s; skind_code (st_kind s); lenN (st_bytes s); c], None)
  | COut OutRecovered => (5, [], None)
  | CReq r => (6, [rq_id r], None)
  | CAuthz a => (7, [au_policy a], None)
  | CCandidate s => (8, [st_attempt s; st_digest s], None)
  end.

(* the instance that is executed against the implementation *)
Definition DEPTH : nat := 256.
Definition EH256 : list N := Eval vm_compute in empty_table B3.hash DEPTH DEPTH.
(* per-op outputs, then recover(store) of both systems at the end of the run, observed like a
   live system (a failed recovery shows the live coordinator) *)
Definition crun256 (cops : list cop) :=
  let '(outs, cs) := crun B3.hash DEPTH EH256 cops in
  (map (fun x => (render_cout (fst x), snd x)) outs,
   map (fun s => match recover B3.hash DEPTH EH256 (sy_store s) with
                 | Ok co => (None, observe_sys EH256 {| sy_store := sy_store s; sy_coord := co |})
                 | Err e => (Some e, observe_sys EH256 s)
                 end) [cs_a cs; cs_b cs]).
