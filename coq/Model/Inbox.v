(* Model of crates/warp-core/src/head_inbox.rs (IngressEnvelope, compute_ingress_id,
   InboxPolicy, HeadInbox::{ingest,inbox_admit,admit_partitioned,set_policy}) and of the
   ingress slice of coordinator.rs (register_writer_head routing tables,
   resolve_target, WorldlineRuntime::ingest, the inbox_admit/commit loop of
   SchedulerCoordinator::super_tick, set_head_eligibility), worldline_state.rs
   (committed_ingress) and engine_impl.rs::commit_with_state (dedupe of the
   admitted batch).  Definitions only.

   Ids (ingress ids, worldline ids, head ids, kinds, hashes) are N below 2^256
   read big-endian; `[u8;32]` Ord is numeric order of that reading.
   `pending : BTreeMap<Hash, IngressEnvelope>` is a strictly sorted association
   list keyed by ingress id.  The hash function is a section variable. *)
From Coq Require Import List NArith Lia Bool.
From Echo Require Import Base.FinMap Base.Order Base.Bytes.
Import ListNotations.
Open Scope N_scope.

(* ------------------------------------------------------------------ *)
(* causal parents *)

(* CausalTickReceiptRef, fields in declaration order (= derived Ord order):
   worldline_id, worldline_tick_after, commit_global_tick, commit_hash,
   submission_id, ticket_digest, receipt_content_digest *)
Definition rref := (N * (N * (N * (N * (N * (N * N))))))%type.
Definition rref_cmp : rref -> rref -> comparison :=
  pair_cmp N.compare (pair_cmp N.compare (pair_cmp N.compare (pair_cmp N.compare
    (pair_cmp N.compare (pair_cmp N.compare N.compare))))).

Definition bool_cmp (a b : bool) : comparison :=
  match a, b with
  | false, true => Lt
  | true, false => Gt
  | _, _ => Eq
  end.

(* IngressCausalParent: (is ContractInverseTarget?, receipt_ref); derived Ord is
   variant index first (TickReceipt < ContractInverseTarget), then the ref. *)
Definition parent := (bool * rref)%type.
Definition parent_cmp : parent -> parent -> comparison := pair_cmp bool_cmp rref_cmp.

(* CausalTickReceiptRef::to_canonical_bytes (176 bytes) *)
Definition rref_bytes (r : rref) : bytes :=
  match r with
  | (wl, (t, (g, (c, (s, (k, d)))))) =>
      be_bytes 32 wl ++ le_bytes 8 t ++ le_bytes 8 g ++
      be_bytes 32 c ++ be_bytes 32 s ++ be_bytes 32 k ++ be_bytes 32 d
  end.

(* b"tick-receipt\0" / b"contract-inverse-target\0" *)
Definition tag_tick_receipt : bytes := [116;105;99;107;45;114;101;99;101;105;112;116;0].
Definition tag_contract_inverse : bytes :=
  [99;111;110;116;114;97;99;116;45;105;110;118;101;114;115;101;45;116;97;114;103;101;116;0].

Definition parent_bytes (p : parent) : bytes :=
  (if fst p then tag_contract_inverse else tag_tick_receipt) ++ rref_bytes (snd p).

(* `causal_parents.sort_unstable(); causal_parents.dedup();` *)
Definition parent_set (ps : list parent) : list (parent * unit) :=
  fold_left (fun m p => ins parent_cmp p tt m) ps [].
Definition canon_parents (ps : list parent) : list parent := map fst (parent_set ps).

(* ------------------------------------------------------------------ *)
(* envelopes and ingress ids *)

Inductive target :=
| TDefault (wl : N)
| TNamed (wl : N) (name : bytes)
| TExact (wl : N) (head : N).

Record envelope := {
  e_kind : N;
  e_bytes : bytes;
  e_parents : list parent;     (* canonical: sorted, duplicate free *)
  e_target : target
}.

(* IngressEnvelope::local_intent_with_causal_parents *)
Definition mk_envelope (t : target) (k : N) (b : bytes) (ps : list parent) : envelope :=
  {| e_kind := k; e_bytes := b; e_parents := canon_parents ps; e_target := t |}.

(* b"ingress:" and b"ingress:causal:v2\0" *)
Definition dom_plain : bytes := [105;110;103;114;101;115;115;58].
Definition dom_causal : bytes := dom_plain ++ [99;97;117;115;97;108;58;118;50;0].

(* preimage of compute_ingress_id(kind, bytes, causal_parents) *)
Definition id_preimage (k : N) (b : bytes) (ps : list parent) : bytes :=
  match ps with
  | [] => dom_plain ++ be_bytes 32 k ++ b
  | _ :: _ =>
      dom_causal ++ be_bytes 32 k ++ le_bytes 8 (lenN b) ++ b ++
      le_bytes 8 (lenN ps) ++ flat_map parent_bytes ps
  end.

Definition env_preimage (e : envelope) : bytes :=
  id_preimage (e_kind e) (e_bytes e) (e_parents e).

(* what the id is meant to identify *)
Definition content (e : envelope) : N * bytes * list parent :=
  (e_kind e, e_bytes e, e_parents e).

(* ------------------------------------------------------------------ *)
(* InboxPolicy / HeadInbox *)

Inductive policy :=
| AcceptAll
| KindFilter (allowed : list N)
| Budgeted (max_per_tick : N).

Record inbox := {
  ib_pending : list (N * envelope);
  ib_policy : policy
}.

Definition inbox_new (p : policy) : inbox := {| ib_pending := []; ib_policy := p |}.

Inductive ingest_result := Accepted | Duplicate | Rejected.

(* HeadInbox::policy_accepts *)
Definition policy_accepts (p : policy) (e : envelope) : bool :=
  match p with
  | AcceptAll | Budgeted _ => true
  | KindFilter allowed => existsb (N.eqb (e_kind e)) allowed
  end.

(* HeadInbox::ingest: policy first, then BTreeMap entry (Occupied keeps the FIRST envelope) *)
Definition ingest (ib : inbox) (i : N) (e : envelope) : inbox * ingest_result :=
  if policy_accepts (ib_policy ib) e then
    match find N.compare i (ib_pending ib) with
    | Some _ => (ib, Duplicate)
    | None => ({| ib_pending := ins N.compare i e (ib_pending ib); ib_policy := ib_policy ib |}, Accepted)
    end
  else (ib, Rejected).

(* first n elements / the rest, n : N (u32 budgets up to 2^32-1 never become nat) *)
Fixpoint takeN {A} (l : list A) (n : N) : list A :=
  match l with
  | [] => []
  | x :: r => if n =? 0 then [] else x :: takeN r (n - 1)
  end.
Fixpoint dropN {A} (l : list A) (n : N) : list A :=
  match l with
  | [] => []
  | x :: r => if n =? 0 then l else dropN r (n - 1)
  end.

(* HeadInbox::admit: (inbox after, admitted batch in ingress-id order) *)
Definition inbox_admit (ib : inbox) : inbox * list (N * envelope) :=
  match ib_policy ib with
  | AcceptAll | KindFilter _ =>
      ({| ib_pending := []; ib_policy := ib_policy ib |}, ib_pending ib)
  | Budgeted n =>
      ({| ib_pending := dropN (ib_pending ib) n; ib_policy := ib_policy ib |}, takeN (ib_pending ib) n)
  end.

(* HeadInbox::can_admit *)
Definition can_admit (ib : inbox) : bool :=
  match ib_policy ib with
  | Budgeted n => negb (n =? 0) && negb (match ib_pending ib with [] => true | _ => false end)
  | _ => negb (match ib_pending ib with [] => true | _ => false end)
  end.

(* HeadInbox::set_policy: replace, then evict what the new policy rejects *)
Definition set_policy (ib : inbox) (p : policy) : inbox :=
  {| ib_pending := filter (fun ie => policy_accepts p (snd ie)) (ib_pending ib); ib_policy := p |}.

(* --- HeadInbox::admit_partitioned ---------------------------------- *)

Definition in_part (pk : N) (ie : N * envelope) : bool := e_kind (snd ie) =? pk.

(* limits: None = usize::MAX (never reached by a list length) *)
Definition lim_min (a b : option N) : option N :=
  match a, b with
  | None, x | x, None => x
  | Some x, Some y => Some (N.min x y)
  end.
Definition lim_zero (a : option N) : bool := match a with Some 0 => true | _ => false end.
Definition lim_dec (a : option N) : option N := match a with Some n => Some (n - 1) | None => None end.

(* first `limit` entries satisfying f (ascending), and everything else *)
Fixpoint split_sel (f : N * envelope -> bool) (limit : option N) (p : list (N * envelope))
  : list (N * envelope) * list (N * envelope) :=
  match p with
  | [] => ([], [])
  | x :: r =>
      if f x && negb (lim_zero limit) then
        let '(s, m) := split_sel f (lim_dec limit) r in (x :: s, m)
      else
        let '(s, m) := split_sel f limit r in (s, x :: m)
  end.

Definition admit_partitioned (ib : inbox) (pk : N) (partition_limit : N) (parent_global_tick : N)
  : inbox * list (N * envelope) :=
  let p := ib_pending ib in
  let has_p := existsb (in_part pk) p in
  let has_o := existsb (fun ie => negb (in_part pk ie)) p in
  if negb (has_p || has_o) then (ib, [])
  else
    let sel := if has_p && has_o then N.even parent_global_tick else has_p in
    let policy_limit := match ib_policy ib with Budgeted n => Some n | _ => None end in
    let limit := if sel then lim_min policy_limit (Some partition_limit) else policy_limit in
    let '(s, m) := split_sel (fun ie => Bool.eqb (in_part pk ie) sel) limit p in
    ({| ib_pending := m; ib_policy := ib_policy ib |}, s).

(* engine_impl.rs commit_with_state: `if !seen_ingress.insert(id) { continue; }` *)
Fixpoint commit_dedupe (seen : list N) (batch : list (N * envelope)) : list (N * envelope) :=
  match batch with
  | [] => []
  | (i, e) :: r =>
      if existsb (N.eqb i) seen then commit_dedupe seen r
      else (i, e) :: commit_dedupe (i :: seen) r
  end.

(* ------------------------------------------------------------------ *)
(* runtime slice *)

Definition hkey := (N * N)%type.              (* WriterHeadKey: (worldline_id, head_id) *)
Definition hkey_cmp : hkey -> hkey -> comparison := pair_cmp N.compare N.compare.
Definition ckey := (hkey * N)%type.           (* committed_ingress element: (head, ingress id) *)
Definition ckey_cmp : ckey -> ckey -> comparison := pair_cmp hkey_cmp N.compare.
Definition nkey := (N * bytes)%type.          (* (worldline, inbox address) *)
Definition nkey_cmp : nkey -> nkey -> comparison := pair_cmp N.compare bytes_cmp.

Record hstate := {
  hs_inbox : inbox;
  hs_admitted : bool          (* HeadEligibility::Admitted; PlaybackMode is Play throughout *)
}.

Record runtime := {
  rt_worlds : list N;
  rt_heads : list (hkey * hstate);
  rt_defaults : list (N * hkey);
  rt_named : list (nkey * hkey);
  rt_committed : list (ckey * unit)
}.

Definition rt_empty (worlds : list N) : runtime :=
  {| rt_worlds := worlds; rt_heads := []; rt_defaults := []; rt_named := []; rt_committed := [] |}.

Inductive reg_result := RegOk | RegUnknownWorldline | RegDuplicateHead | RegDuplicateDefault | RegDuplicateInbox.

(* WorldlineRuntime::register_writer_head *)
Definition register_head (rt : runtime) (h : hkey) (p : policy) (named : option bytes) (is_default : bool)
  : runtime * reg_result :=
  let wl := fst h in
  if negb (existsb (N.eqb wl) (rt_worlds rt)) then (rt, RegUnknownWorldline)
  else if mem hkey_cmp h (rt_heads rt) then (rt, RegDuplicateHead)
  else if is_default && mem N.compare wl (rt_defaults rt) then (rt, RegDuplicateDefault)
  else if match named with Some nm => mem nkey_cmp (wl, nm) (rt_named rt) | None => false end
  then (rt, RegDuplicateInbox)
  else
    ({| rt_worlds := rt_worlds rt;
        rt_heads := set hkey_cmp h {| hs_inbox := inbox_new p; hs_admitted := true |} (rt_heads rt);
        rt_defaults := if is_default then set N.compare wl h (rt_defaults rt) else rt_defaults rt;
        rt_named := match named with Some nm => set nkey_cmp (wl, nm) h (rt_named rt) | None => rt_named rt end;
        rt_committed := rt_committed rt |}, RegOk).

Inductive resolved := RHead (h : hkey) | RMissingDefault | RMissingInbox | RUnknownHead.

(* WorldlineRuntime::resolve_target *)
Definition resolve (rt : runtime) (t : target) : resolved :=
  match t with
  | TDefault wl => match find N.compare wl (rt_defaults rt) with Some h => RHead h | None => RMissingDefault end
  | TNamed wl nm => match find nkey_cmp (wl, nm) (rt_named rt) with Some h => RHead h | None => RMissingInbox end
  | TExact wl hd => if mem hkey_cmp (wl, hd) (rt_heads rt) then RHead (wl, hd) else RUnknownHead
  end.

Inductive disposition :=
| DAccepted (h : hkey) (i : N)
| DDuplicate (h : hkey) (i : N)
| DRejected (h : hkey)
| DMissingDefault
| DMissingInbox
| DUnknownHead.

Inductive op :=
| Submit (e : envelope)
| Pass
| SetPolicy (h : hkey) (p : policy)
| SetElig (h : hkey) (admitted : bool).

Inductive out :=
| OSubmit (d : disposition)
| OPass (batches : list (hkey * list (N * envelope)))
| OUnit (ok : bool).

Definition with_heads (rt : runtime) (hs : list (hkey * hstate)) : runtime :=
  {| rt_worlds := rt_worlds rt; rt_heads := hs; rt_defaults := rt_defaults rt;
     rt_named := rt_named rt; rt_committed := rt_committed rt |}.

Definition with_inbox (s : hstate) (ib : inbox) : hstate :=
  {| hs_inbox := ib; hs_admitted := hs_admitted s |}.

(* record_committed_ingress *)
Definition record_committed (h : hkey) (batch : list (N * envelope)) (cm : list (ckey * unit))
  : list (ckey * unit) :=
  fold_left (fun c ie => set ckey_cmp (h, fst ie) tt c) batch cm.

(* the per-head loop of super_tick_inner over the runnable set (BTreeMap order =
   head-key order): inbox_admit; skip when the batch is empty; otherwise commit the
   (deduplicated) batch and record it as committed ingress of this head. *)
Fixpoint pass_heads (hs : list (hkey * hstate)) (cm : list (ckey * unit))
  : list (hkey * hstate) * list (ckey * unit) * list (hkey * list (N * envelope)) :=
  match hs with
  | [] => ([], cm, [])
  | (h, s) :: r =>
      if hs_admitted s then
        let '(ib', batch) := inbox_admit (hs_inbox s) in
        match batch with
        | [] => let '(r', cm', bs) := pass_heads r cm in ((h, with_inbox s ib') :: r', cm', bs)
        | _ :: _ =>
            let '(r', cm', bs) := pass_heads r (record_committed h batch cm) in
            ((h, with_inbox s ib') :: r', cm', (h, commit_dedupe [] batch) :: bs)
        end
      else
        let '(r', cm', bs) := pass_heads r cm in ((h, s) :: r', cm', bs)
  end.

Inductive ib_op := IbSubmit (e : envelope) | IbAdmit | IbSetPolicy (p : policy).
Inductive ib_out := IoSubmit (r : ingest_result) | IoAdmit (batch : list (N * envelope)) | IoUnit.

Section WithHash.
  Variable H : bytes -> N.

  Definition ingress_id (e : envelope) : N := H (env_preimage e).

  (* bulk ingestion into one inbox *)
  Definition ingest_all (ib : inbox) (l : list envelope) : inbox :=
    fold_left (fun ib e => fst (ingest ib (ingress_id e) e)) l ib.

  Definition ingest_results (ib : inbox) (l : list envelope) : list ingest_result :=
    snd (fold_left (fun st e => let '(ib', r) := ingest (fst st) (ingress_id e) e in (ib', snd st ++ [r]))
           l (ib, [])).

  (* WorldlineRuntime::ingest *)
  Definition submit (rt : runtime) (e : envelope) : runtime * disposition :=
    let i := ingress_id e in
    match resolve rt (e_target e) with
    | RHead h =>
        if mem ckey_cmp (h, i) (rt_committed rt) then (rt, DDuplicate h i)
        else
          match find hkey_cmp h (rt_heads rt) with
          | None => (rt, DUnknownHead)
          | Some s =>
              match ingest (hs_inbox s) i e with
              | (ib', Accepted) => (with_heads rt (set hkey_cmp h (with_inbox s ib') (rt_heads rt)), DAccepted h i)
              | (_, Duplicate) => (rt, DDuplicate h i)
              | (_, Rejected) => (rt, DRejected h)
              end
          end
    | RMissingDefault => (rt, DMissingDefault)
    | RMissingInbox => (rt, DMissingInbox)
    | RUnknownHead => (rt, DUnknownHead)
    end.

  Definition step (rt : runtime) (o : op) : runtime * out :=
    match o with
    | Submit e => let '(rt', d) := submit rt e in (rt', OSubmit d)
    | Pass =>
        let '(hs', cm', bs) := pass_heads (rt_heads rt) (rt_committed rt) in
        ({| rt_worlds := rt_worlds rt; rt_heads := hs'; rt_defaults := rt_defaults rt;
            rt_named := rt_named rt; rt_committed := cm' |}, OPass bs)
    | SetPolicy h p =>
        match find hkey_cmp h (rt_heads rt) with
        | Some s => (with_heads rt (set hkey_cmp h (with_inbox s (set_policy (hs_inbox s) p)) (rt_heads rt)), OUnit true)
        | None => (rt, OUnit false)
        end
    | SetElig h b =>
        match find hkey_cmp h (rt_heads rt) with
        | Some s => (with_heads rt (set hkey_cmp h {| hs_inbox := hs_inbox s; hs_admitted := b |} (rt_heads rt)), OUnit true)
        | None => (rt, OUnit false)
        end
    end.

  Fixpoint run (rt : runtime) (ops : list op) : runtime * list out :=
    match ops with
    | [] => (rt, [])
    | o :: r => let '(rt1, x) := step rt o in let '(rt2, xs) := run rt1 r in (rt2, x :: xs)
    end.

  Definition submit_all (rt : runtime) (l : list envelope) : runtime :=
    fold_left (fun rt e => fst (submit rt e)) l rt.
  (* a bare HeadInbox driven directly (ingest / inbox_admit / set_policy) *)
  Definition ib_step (ib : inbox) (o : ib_op) : inbox * ib_out :=
    match o with
    | IbSubmit e => let '(ib', r) := ingest ib (ingress_id e) e in (ib', IoSubmit r)
    | IbAdmit => let '(ib', b) := inbox_admit ib in (ib', IoAdmit b)
    | IbSetPolicy p => (set_policy ib p, IoUnit)
    end.

  Fixpoint ib_run (ib : inbox) (ops : list ib_op) : inbox * list ib_out :=
    match ops with
    | [] => (ib, [])
    | o :: r => let '(ib1, x) := ib_step ib o in let '(ib2, xs) := ib_run ib1 r in (ib2, x :: xs)
    end.
End WithHash.

(* every (head, ingress id) pair committed by a list of outputs, in commit order *)
Definition commits_of (o : out) : list ckey :=
  match o with
  | OPass bs => flat_map (fun hb => map (fun ie => (fst hb, fst ie)) (snd hb)) bs
  | _ => []
  end.
Definition all_commits (os : list out) : list ckey := flat_map commits_of os.

(* evaluation helper: a finite hash table (preimage -> id) supplied by the tie,
   whose entries are real BLAKE3 digests of the model's preimages *)
Definition table_hash (tbl : list (bytes * N)) (pre : bytes) : N :=
  match find bytes_cmp pre tbl with Some i => i | None => 0 end.
