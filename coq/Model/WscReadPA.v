(* Panic-aware model of crates/warp-core/src/wsc/read.rs :: read_bytes / read_slice (section range
   validation of the WSC snapshot reader).  Definitions only.

     let byte_len = count.saturating_mul(elem_size as u64);      (read_slice only)
     let end = offset.saturating_add(byte_len);
     if end > data.len() as u64 { return Err(SectionOutOfBounds) }
     let slice = &data[offset as usize..end as usize];            <- can panic: order / bounds; `as usize` truncates on 32-bit
     bytemuck::try_cast_slice(slice)?                              <- Err(Alignment) / Err(size), never panics

   The data buffer is abstracted to its length [len] and the alignment of its first byte ([base], the
   address modulo 2^16). *)
From Coq Require Import NArith Lia.
From Echo Require Import Model.CborPA.
Open Scope N_scope.

Definition u64_max : N := 2 ^ 64 - 1.
Definition sat_add (a b : N) : N := N.min (a + b) u64_max.
Definition sat_mul (a b : N) : N := N.min (a * b) u64_max.

Inductive rres :=
| ROk (start stop : N)       (* the returned slice is data[start..stop] *)
| RErrOob                    (* ReadError::SectionOutOfBounds *)
| RErrCast                   (* ReadError::Alignment (bytemuck PodCastError) *)
| RPanic (p : panic).

(* &data[a as usize .. e as usize] *)
Definition index_range (usize_max len a e : N) : rres :=
  let a' := a mod (usize_max + 1) in
  let e' := e mod (usize_max + 1) in
  if e' <? a' then RPanic PSliceOrder
  else if len <? e' then RPanic PIndex
  else ROk a' e'.

Definition read_bytes_pa (usize_max len offset length : N) : rres :=
  let e := sat_add offset length in
  if len <? e then RErrOob else index_range usize_max len offset e.

(* elem = size_of::<T>() (> 0 for every row type), align = align_of::<T>() *)
Definition read_slice_pa (usize_max len base offset count elem align : N) : rres :=
  let byte_len := sat_mul count elem in
  let e := sat_add offset byte_len in
  if len <? e then RErrOob
  else match index_range usize_max len offset e with
       | ROk a z =>
         if negb ((base + a) mod align =? 0) then RErrCast
         else if negb ((z - a) mod elem =? 0) then RErrCast
         else ROk a z
       | r => r
       end.
