(* Model of worldline replay / playback seeking:
     crates/warp-core/src/provenance_store.rs  replay_worldline_state_at_from_provenance, validate_replay_base,
         restore_replay_base (incl. the `target+1` checkpoint lookup), advance_replay_state,
         replay_artifacts_for_entry, finalize_replay_metadata, validate_checkpoint_for_history,
         LocalProvenanceStore::{add_checkpoint, checkpoint, checkpoint_before, checkpoint_state_before, fork, restore}
     crates/warp-core/src/playback.rs          PlaybackCursor::{new, seek_to, step}, map_replay_error
     crates/warp-core/src/worldline_state.rs   replay_base_from_initial, replay_checkpoint_clone, current_tick
   Definitions only.

   The model is parametric (Section variables) in the graph state type [St], the patch type [P], the patch
   application [apply] (WorldlineTickPatchV1::apply_to_worldline_state: mutates in place, so a failing apply
   leaves a partially updated state: [AFail s]), the state root [root] (compute_state_root_for_warp_state), the
   commit hash (compute_commit_hash_v2) and the patch digest accessors.  No property of any of them is assumed.
   One [store] models one worldline of a LocalProvenanceStore / ProvenanceService (so the entry.worldline_id check of
   advance_replay_state has no counterpart; entry.worldline_tick, the parent link and the checkpoint replay-metadata
   checks added by /repo 90bd2fa are modelled).
   Ticks are u64 in the code; they are [N] here with the two u64 corner cases (checked_increment of the lookup
   tick, tx = tick+1) spelled out. *)
From Coq Require Import List NArith Bool Lia.
From Echo Require Import Base.FinMap.
Import ListNotations.
Open Scope N_scope.

Definition u64_max : N := 18446744073709551615.
(* WorldlineTick::checked_increment *)
Definition checked_increment (t : N) : option N := if t <? u64_max then Some (t + 1) else None.

Inductive aresult (St : Type) := AOk (s : St) | AFail (s : St).
Arguments AOk {St} s.
Arguments AFail {St} s.

(* ReplayError (provenance_store.rs) *)
Inductive rerr :=
| EHistoryUnavailable (t : N) | EMissingPatch (t : N) | EApply (t : N) | EStateRoot (t : N) | ECommitHash (t : N)
| EPatchDigest (t : N) | ETickOverflow (t : N) | EReceiptTx (t : N) | EReceiptDigest (t : N)
| ECheckpointRoot (t : N) | EBaseWarp | EBaseBoundary
| EHistoryOther.   (* ReplayError::History(e) for e other than HistoryUnavailable: TickGap, MissingParentRef,
                     CheckpointReplayMetadataMismatch (EntryWorldlineMismatch: one store = one worldline here) *)

(* SeekError (playback.rs) *)
Inductive serr :=
| SPinned (target pin : N) | SHistoryUnavailable (t : N) | SApply (t : N) | SStateRoot (t : N) | SCommitHash (t : N)
| SPatchDigest (t : N) | SReceipt (t : N) | SCheckpointRoot (t : N) | SBaseWarp | SBaseBoundary.

(* HistoryError as returned by add_checkpoint / fork *)
Inductive herr :=
| HUnavailable (t : N) | HRootWarp | HInitialBoundary | HStateRoot (t : N) | HMeta (t : N) (field : N) | HExists.

(* PlaybackCursor::map_replay_error *)
Definition map_replay_error (target : N) (e : rerr) : serr :=
  match e with
  | EHistoryUnavailable t | EMissingPatch t => SHistoryUnavailable t
  | ETickOverflow _ | EHistoryOther => SHistoryUnavailable target
  | EApply t => SApply t
  | EBaseWarp => SBaseWarp
  | EBaseBoundary => SBaseBoundary
  | EPatchDigest t => SPatchDigest t
  | EStateRoot t => SStateRoot t
  | ECommitHash t => SCommitHash t
  | EReceiptTx t | EReceiptDigest t => SReceipt t
  | ECheckpointRoot t => SCheckpointRoot t
  end.

(* replay artifact of one tick: the (Snapshot, TickReceipt, WarpTickPatchV1) triple pushed onto tick_history,
   abstracted to the fields that vary: commit hash, state root, patch digest, tx and the retained receipt. *)
Record art := { a_commit : N; a_root : N; a_pdig : N; a_tx : N; a_receipt : option (N * N) }.

Definition opt_pair_eqb (a b : option (N * N)) : bool :=
  match a, b with
  | None, None => true
  | Some (x1, y1), Some (x2, y2) => (x1 =? x2) && (y1 =? y2)
  | _, _ => false
  end.
Definition art_eqb (a b : art) : bool :=
  (a_commit a =? a_commit b) && (a_root a =? a_root b) && (a_pdig a =? a_pdig b) && (a_tx a =? a_tx b)
  && opt_pair_eqb (a_receipt a) (a_receipt b).
Fixpoint arts_eqb (l1 l2 : list art) : bool :=
  match l1, l2 with
  | [], [] => true
  | a :: r1, b :: r2 => art_eqb a b && arts_eqb r1 r2
  | _, _ => false
  end.
Definition opt_art_eqb (a b : option art) : bool :=
  match a, b with
  | None, None => true
  | Some x, Some y => art_eqb x y
  | _, _ => false
  end.

Definition lenN {A} (l : list A) : N := N.of_nat (length l).
Definition nthN {A} (l : list A) (i : N) : option A := nth_error l (N.to_nat i).
Definition firstnN {A} (n : N) (l : list A) : list A := firstn (N.to_nat n) l.
Definition last_opt {A} (l : list A) : option A :=
  match l with [] => None | x :: r => Some (last r x) end.

Section Seek.
  Variables St P : Type.
  Variable apply : St -> P -> aresult St.
  Variable root : St -> N.
  (* compute_commit_hash_v2(state_root, parent commit hashes, patch_digest, policy_id) *)
  Variable commit_hash : N -> list N -> N -> N -> N.
  Variable p_digest_field : P -> N.   (* WorldlineTickPatchV1.patch_digest (stored field) *)
  Variable p_digest_calc : P -> N.    (* digest of the WarpTickPatchV1 rebuilt from the patch contents *)
  Variable p_policy : P -> N.
  Variable p_decision : P -> N.       (* header.decision_digest *)

  (* ProvenanceEntry, replay-relevant fields *)
  Record entry := {
    e_tick : N;                                 (* worldline_tick carried by the entry itself *)
    e_patch : option P;
    e_root : N; e_pdig : N; e_commit : N;       (* expected: HashTriplet *)
    e_parents : list N;                         (* parent commit hashes *)
    e_receipt : option (N * N);                 (* retained TickReceipt: (tx, digest) *)
    e_out : N                                   (* recorded outputs (finalized channels), abstract *)
  }.

  (* WorldlineState *)
  Record wstate := {
    ws_state : St;             (* warp_state *)
    ws_warp : N;               (* root.warp_id *)
    ws_init : St;              (* initial_state (U0) *)
    ws_hist : list art;        (* tick_history *)
    ws_last : option art;      (* last_snapshot *)
    ws_mat : N;                (* last_materialization (0 = empty) *)
    ws_tx : N                  (* tx_counter *)
  }.
  Definition ws_tick (w : wstate) : N := lenN (ws_hist w).   (* current_tick() *)
  Definition ws_root (w : wstate) : N := root (ws_state w).  (* state_root() *)

  Definition set_state (w : wstate) (s : St) : wstate :=
    {| ws_state := s; ws_warp := ws_warp w; ws_init := ws_init w; ws_hist := ws_hist w;
       ws_last := ws_last w; ws_mat := ws_mat w; ws_tx := ws_tx w |}.
  Definition push_art (w : wstate) (a : art) : wstate :=
    {| ws_state := ws_state w; ws_warp := ws_warp w; ws_init := ws_init w; ws_hist := ws_hist w ++ [a];
       ws_last := ws_last w; ws_mat := ws_mat w; ws_tx := ws_tx w |}.

  (* WorldlineState::replay_base_from_initial *)
  Definition base_from_initial (b : wstate) : wstate :=
    {| ws_state := ws_init b; ws_warp := ws_warp b; ws_init := ws_init b; ws_hist := [];
       ws_last := None; ws_mat := 0; ws_tx := 0 |}.

  (* one worldline of the provenance store; checkpoints: tick |-> (CheckpointRef.state_hash, state), tick-sorted *)
  Definition cpmap := list (N * (N * wstate)).
  Record store := { st_u0 : N; st_boundary : N; st_entries : list entry; st_cps : cpmap }.
  Definition st_len (st : store) : N := lenN (st_entries st).
  Definition with_cps (st : store) (c : cpmap) : store :=
    {| st_u0 := st_u0 st; st_boundary := st_boundary st; st_entries := st_entries st; st_cps := c |}.
  Definition with_entries (st : store) (h : list entry) : store :=
    {| st_u0 := st_u0 st; st_boundary := st_boundary st; st_entries := h; st_cps := st_cps st |}.

  (* replay_artifacts_for_entry *)
  Definition artifacts (tick : N) (e : entry) (p : P) : rerr + art :=
    if negb (e_pdig e =? p_digest_field p) then inl (EPatchDigest tick)
    else if negb (p_digest_calc p =? p_digest_field p) then inl (EPatchDigest tick)
    else match checked_increment tick with
         | None => inl (ETickOverflow tick)
         | Some tx =>
             match e_receipt e with
             | Some (rtx, rdig) =>
                 if negb (rtx =? tx) then inl (EReceiptTx tick)
                 else if negb (rdig =? p_decision p) then inl (EReceiptDigest tick)
                 else inr {| a_commit := e_commit e; a_root := e_root e; a_pdig := e_pdig e; a_tx := tx;
                             a_receipt := e_receipt e |}
             | None => inr {| a_commit := e_commit e; a_root := e_root e; a_pdig := e_pdig e; a_tx := tx;
                              a_receipt := None |}
             end
         end.

  (* body of the loop in advance_replay_state: the state is mutated in place, so the (possibly partially
     updated) state is returned together with the error *)
  (* /repo 90bd2fa: a non-genesis entry must name the commit replayed just before it as a parent *)
  Definition parent_linked (e : entry) (w : wstate) : bool :=
    match last_opt (ws_hist w) with
    | Some a => existsb (N.eqb (a_commit a)) (e_parents e)
    | None => true
    end.

  Definition advance_one (tick : N) (e : entry) (w : wstate) : wstate * option rerr :=
    if negb (e_tick e =? tick) then (w, Some EHistoryOther)             (* HistoryError::TickGap *)
    else if negb (parent_linked e w) then (w, Some EHistoryOther)       (* HistoryError::MissingParentRef *)
    else
    match e_patch e with
    | None => (w, Some (EMissingPatch tick))
    | Some p =>
        match apply (ws_state w) p with
        | AFail s' => (set_state w s', Some (EApply tick))
        | AOk s' =>
            let w' := set_state w s' in
            if negb (root s' =? e_root e) then (w', Some (EStateRoot tick))
            else if negb (commit_hash (root s') (e_parents e) (e_pdig e) (p_policy p) =? e_commit e)
                 then (w', Some (ECommitHash tick))
            else match artifacts tick e p with
                 | inl err => (w', Some err)
                 | inr a => (push_art w' a, None)
                 end
        end
    end.

  Fixpoint advance_loop (h : list entry) (n : nat) (i : N) (w : wstate) (last : option entry)
    : wstate * option entry * option rerr :=
    match n with
    | O => (w, last, None)
    | Datatypes.S n' =>
        match nthN h i with
        | None => (w, last, Some (EHistoryUnavailable i))
        | Some e =>
            match advance_one i e w with
            | (w', Some err) => (w', last, Some err)
            | (w', None) => advance_loop h n' (i + 1) w' (Some e)
            end
        end
    end.

  (* finalize_replay_metadata *)
  Definition finalize (w : wstate) (target : N) (last : option entry) : wstate :=
    if target =? 0 then
      {| ws_state := ws_state w; ws_warp := ws_warp w; ws_init := ws_init w; ws_hist := ws_hist w;
         ws_last := None; ws_mat := 0; ws_tx := 0 |}
    else
      {| ws_state := ws_state w; ws_warp := ws_warp w; ws_init := ws_init w; ws_hist := ws_hist w;
         ws_last := last_opt (ws_hist w);
         ws_mat := match last with Some e => e_out e | None => ws_mat w end;
         ws_tx := target |}.

  (* advance_replay_state: `for raw_tick in start..target` (empty when start >= target) *)
  Definition advance (h : list entry) (w : wstate) (start target : N) : wstate * option rerr :=
    if start =? target then (w, None)
    else match advance_loop h (N.to_nat (target - start)) start w None with
         | (w', _, Some err) => (w', Some err)
         | (w', last, None) => (finalize w' target last, None)
         end.

  (* validate_replay_base *)
  Definition validate_base (st : store) (b : wstate) : option rerr :=
    if negb (ws_warp b =? st_u0 st) then Some EBaseWarp
    else if negb (root (ws_init b) =? st_boundary st) then Some EBaseBoundary
    else None.

  (* checkpoint_before / checkpoint_state_before: binary search for `tick` in the tick-sorted vector, then the
     element just before the match / insertion point = the last checkpoint with a strictly smaller tick *)
  Fixpoint cp_before (cps : cpmap) (tick : N) : option (N * (N * wstate)) :=
    match cps with
    | [] => None
    | (t, c) :: r =>
        if t <? tick then match cp_before r tick with Some x => Some x | None => Some (t, c) end
        else None
    end.

  (* expected_state_root_at_materialized_tick / expected_state_root_for_checkpoint *)
  Definition expected_root_at (st : store) (tick : N) : option N :=
    if tick =? 0 then Some (st_boundary st)
    else match nthN (st_entries st) (tick - 1) with Some e => Some (e_root e) | None => None end.

  Definition lookup_tick (target : N) : N :=
    match checked_increment target with Some x => x | None => target end.

  (* restore_replay_base *)
  Definition restore_base (st : store) (b : wstate) (target : N) : rerr + (wstate * N) :=
    match cp_before (st_cps st) (lookup_tick target) with
    | Some (t, (hash, cw)) =>
        match expected_root_at st t with
        | None => inl (EHistoryUnavailable (t - 1))
        | Some expected =>
            if negb (hash =? expected) then inl (ECheckpointRoot t)
            else if negb (ws_root cw =? expected) then inl (ECheckpointRoot t)
            (* /repo 90bd2fa: the replay metadata must describe exactly t ticks ending in the commit of entry t-1 *)
            else if negb (lenN (ws_hist cw) =? t) then inl EHistoryOther
            else if t =? 0 then inr (cw, t)
            else match nthN (st_entries st) (t - 1) with
                 | None => inl (EHistoryUnavailable (t - 1))
                 | Some e =>
                     match last_opt (ws_hist cw) with
                     | Some a => if a_commit a =? e_commit e then inr (cw, t) else inl EHistoryOther
                     | None => inl EHistoryOther
                     end
                 end
        end
    | None => inr (base_from_initial b, 0)
    end.

  (* replay_worldline_state_at_from_provenance *)
  Definition replay_at (st : store) (b : wstate) (target : N) : rerr + wstate :=
    if st_len st <? target then inl (EHistoryUnavailable target)
    else match validate_base st b with
         | Some e => inl e
         | None =>
             match restore_base st b target with
             | inl e => inl e
             | inr (w, start) =>
                 match advance (st_entries st) w start target with
                 | (_, Some e) => inl e
                 | (w', None) => inr w'
                 end
             end
         end.

  (* Reference semantics: replay ticks 0..t from U0, verifying every tick (no checkpoints). *)
  Definition replay (h : list entry) (b : wstate) (t : N) : wstate * option rerr :=
    advance h (base_from_initial b) 0 t.

  (* ---------------------------------------------------------------- checkpoints *)

  (* validate_checkpoint_for_history; field numbers: 1 tick_history_len, 2 tx_counter, 5 last_snapshot,
     6 last_materialization, 7 tick_history.patch, 8 tick_history.replay_artifacts, 9 tick_history.snapshot
     (committed_ingress / materialization errors are always empty in a ReplayCheckpoint::from_state clone). *)
  Fixpoint check_hist (h : list entry) (i : N) (arts : list art) : option N :=
    match arts with
    | [] => None
    | a :: r =>
        match nthN h i with
        | None => Some 8
        | Some e =>
            match e_patch e with
            | None => Some 7
            | Some p =>
                match artifacts i e p with
                | inl _ => Some 8
                | inr a' => if art_eqb a a' then check_hist h (i + 1) r else Some 9
                end
            end
        end
    end.

  Definition validate_checkpoint (st : store) (tick hash : N) (cw : wstate) : option herr :=
    if st_len st <? tick then Some (HUnavailable tick)
    else if negb (ws_warp cw =? st_u0 st) then Some HRootWarp
    else if negb (root (ws_init cw) =? st_boundary st) then Some HInitialBoundary
    else if negb (ws_root cw =? hash) then Some (HStateRoot tick)
    else match expected_root_at st tick with
         | None => Some (HUnavailable tick)
         | Some expected =>
             if negb (ws_root cw =? expected) then Some (HStateRoot tick)
             else if negb (lenN (ws_hist cw) =? tick) then Some (HMeta tick 1)
             else if negb (ws_tx cw =? tick) then Some (HMeta tick 2)
             else if tick =? 0 then
               match ws_last cw with
               | Some _ => Some (HMeta tick 5)
               | None => if negb (ws_mat cw =? 0) then Some (HMeta tick 6) else None
               end
             else match check_hist (st_entries st) 0 (ws_hist cw) with
                  | Some f => Some (HMeta tick f)
                  | None =>
                      match nthN (st_entries st) (tick - 1) with
                      | None => Some (HUnavailable tick)
                      | Some le =>
                          if negb (ws_mat cw =? e_out le) then Some (HMeta tick 6)
                          else if opt_art_eqb (ws_last cw) (last_opt (ws_hist cw))
                                  && (match ws_last cw with Some _ => true | None => false end)
                               then None else Some (HMeta tick 5)
                      end
                  end
         end.

  (* LocalProvenanceStore::add_checkpoint: validate, then binary-search insert or replace *)
  Definition add_checkpoint (st : store) (tick hash : N) (cw : wstate) : herr + store :=
    match validate_checkpoint st tick hash cw with
    | Some e => inl e
    | None => inr (with_cps st (set N.compare tick (hash, cw) (st_cps st)))
    end.

  (* LocalProvenanceStore::checkpoint = add_checkpoint(ReplayCheckpoint::from_state(state)) *)
  Definition checkpoint_from_state (st : store) (w : wstate) : herr + store :=
    add_checkpoint st (ws_tick w) (ws_root w) w.

  (* LocalProvenanceStore::fork: entries[..=fork_tick], checkpoints with tick <= fork_tick + 1 *)
  Definition fork (st : store) (fork_tick : N) : herr + store :=
    if st_len st <=? fork_tick then inl (HUnavailable fork_tick)
    else match checked_increment fork_tick with
         | None => inl (HUnavailable fork_tick)
         | Some end_idx =>
             inr {| st_u0 := st_u0 st; st_boundary := st_boundary st;
                    st_entries := firstnN end_idx (st_entries st);
                    st_cps := filter (fun c => fst c <=? end_idx) (st_cps st) |}
         end.

  (* LocalProvenanceStore::restore (rollback marker = (entry_len, checkpoint_len)): truncate both vectors *)
  Definition rollback (st : store) (entry_len checkpoint_len : N) : store :=
    {| st_u0 := st_u0 st; st_boundary := st_boundary st;
       st_entries := firstnN entry_len (st_entries st); st_cps := firstnN checkpoint_len (st_cps st) |}.

  (* append_local_commit (entry validation is C05's subject; here: push) *)
  Definition append (st : store) (e : entry) : store := with_entries st (st_entries st ++ [e]).

  (* ---------------------------------------------------------------- cursor *)

  Inductive role := Writer | Reader.
  Inductive mode := Paused | Play | StepForward | StepBack | SeekMode (target : N) (then_play : bool).
  Inductive step_result := NoOp | Advanced | Seeked | ReachedFrontier.

  Record cursor := {
    c_tick : N; c_role : role; c_mode : mode; c_ws : wstate; c_pin : N; c_validated : bool
  }.

  (* PlaybackCursor::new (the base must be an unadvanced canonical U0 state, asserted by the code) *)
  Definition new_cursor (r : role) (b : wstate) (pin : N) : cursor :=
    {| c_tick := 0; c_role := r; c_mode := Paused; c_ws := b; c_pin := pin; c_validated := false |}.

  Definition upd (c : cursor) (t : N) (w : wstate) (v : bool) : cursor :=
    {| c_tick := t; c_role := c_role c; c_mode := c_mode c; c_ws := w; c_pin := c_pin c; c_validated := v |}.
  Definition set_mode (c : cursor) (m : mode) : cursor :=
    {| c_tick := c_tick c; c_role := c_role c; c_mode := m; c_ws := c_ws c; c_pin := c_pin c;
       c_validated := c_validated c |}.
  Definition set_pin (c : cursor) (p : N) : cursor :=
    {| c_tick := c_tick c; c_role := c_role c; c_mode := c_mode c; c_ws := c_ws c; c_pin := p;
       c_validated := c_validated c |}.
  Definition set_role (c : cursor) (r : role) : cursor :=
    {| c_tick := c_tick c; c_role := r; c_mode := c_mode c; c_ws := c_ws c; c_pin := c_pin c;
       c_validated := c_validated c |}.

  (* which way seek_to goes (observable only through failures) *)
  Definition should_restore (st : store) (c : cursor) (target : N) : bool :=
    (target <? c_tick c)
    || match cp_before (st_cps st) (lookup_tick target) with
       | Some (t, _) => c_tick c <? t
       | None => false
       end.

  (* PlaybackCursor::seek_to; returns the cursor as it is left, also on error.  Since /repo commit 7e0a2d4 the forward
     path advances a COPY of the cursor state and publishes it only on success: a rejected forward seek leaves the
     cursor on its previous (verified) state; only `replay_base_validated` stays set. *)
  Definition seek_to (st : store) (b : wstate) (c : cursor) (target : N) : cursor * option serr :=
    if c_pin c <? target then (c, Some (SPinned target (c_pin c)))
    else if st_len st <? target then (c, Some (SHistoryUnavailable target))
    else if target =? c_tick c then
      if negb (c_validated c) && (c_tick c =? 0) then
        match validate_base st b with
        | Some e => (c, Some (map_replay_error target e))
        | None => (upd c (c_tick c) (c_ws c) true, None)
        end
      else (c, None)
    else if should_restore st c target then
      match replay_at st b target with
      | inl e => (c, Some (map_replay_error target e))
      | inr w => (upd c target w true, None)
      end
    else
      match (if c_validated c then None else validate_base st b) with
      | Some e => (c, Some (map_replay_error target e))
      | None =>
          match advance (st_entries st) (c_ws c) (c_tick c) target with
          | (_, Some e) => (upd c (c_tick c) (c_ws c) true, Some (map_replay_error target e))
          | (w, None) => (upd c target w true, None)
          end
      end.

  (* PlaybackCursor::step *)
  Definition step (st : store) (b : wstate) (c : cursor) : cursor * (serr + step_result) :=
    match c_mode c with
    | Paused => (c, inr NoOp)
    | Play =>
        match c_role c with
        | Reader =>
            if c_pin c <=? c_tick c then (set_mode c Paused, inr ReachedFrontier)
            else match checked_increment (c_tick c) with
                 | None => (c, inl (SPinned u64_max (c_pin c)))
                 | Some t => match seek_to st b c t with
                             | (c', Some e) => (c', inl e)
                             | (c', None) => (c', inr Advanced)
                             end
                 end
        | Writer => (c, inr NoOp)
        end
    | StepForward =>
        match c_role c with
        | Reader =>
            if c_pin c <=? c_tick c then (set_mode c Paused, inr ReachedFrontier)
            else match checked_increment (c_tick c) with
                 | None => (c, inl (SPinned u64_max (c_pin c)))
                 | Some t => match seek_to st b c t with
                             | (c', Some e) => (c', inl e)
                             | (c', None) => (set_mode c' Paused, inr Advanced)
                             end
                 end
        | Writer => (set_mode c Paused, inr NoOp)
        end
    | StepBack =>
        match seek_to st b c (c_tick c - 1) with       (* checked_sub(1).unwrap_or(ZERO) = truncated minus *)
        | (c', Some e) => (c', inl e)
        | (c', None) => (set_mode c' Paused, inr Seeked)
        end
    | SeekMode target then_play =>
        match seek_to st b c target with
        | (c', Some e) => (c', inl e)
        | (c', None) => (set_mode c' (if then_play then Play else Paused), inr Seeked)
        end
    end.

  (* a client driving one cursor against one store *)
  Inductive op :=
  | OSeek (t : N) | OStep | OSetMode (m : mode) | OSetPin (p : N) | OSetRole (r : role)
  | OCheckpointHere                       (* provenance.checkpoint(w, cursor.materialized_state()) *)
  | OAddCp (tick hash : N) (cw : wstate). (* provenance.add_checkpoint(w, ReplayCheckpoint{..}) with any content *)

  Inductive outcome :=
  | RSeek (e : option serr) | RStep (r : serr + step_result) | RUnit | RCp (e : option herr).

  Definition run_op (b : wstate) (sc : store * cursor) (o : op) : (store * cursor) * outcome :=
    let (st, c) := sc in
    match o with
    | OSeek t => let (c', e) := seek_to st b c t in ((st, c'), RSeek e)
    | OStep => let (c', r) := step st b c in ((st, c'), RStep r)
    | OSetMode m => ((st, set_mode c m), RUnit)
    | OSetPin p => ((st, set_pin c p), RUnit)
    | OSetRole r => ((st, set_role c r), RUnit)
    | OCheckpointHere =>
        match checkpoint_from_state st (c_ws c) with
        | inl e => ((st, c), RCp (Some e))
        | inr st' => ((st', c), RCp None)
        end
    | OAddCp t hsh cw =>
        match add_checkpoint st t hsh cw with
        | inl e => ((st, c), RCp (Some e))
        | inr st' => ((st', c), RCp None)
        end
    end.

  Fixpoint run_ops (b : wstate) (sc : store * cursor) (ops : list op) : (store * cursor) * list outcome :=
    match ops with
    | [] => (sc, [])
    | o :: r => let (sc', out) := run_op b sc o in
                let (sc'', outs) := run_ops b sc' r in (sc'', out :: outs)
    end.

  (* ---------------------------------------------------------------- the live run that records a history *)

  (* what super_tick appends for one committed tick: the patch, the live post-state root, the commit hash over
     the previous tip, the retained receipt (tx = tick+1, digest = decision digest) and the outputs *)
  Definition record_entry (tick : N) (s' : St) (parent : option N) (p : P) (out : N) : entry :=
    let ps := match parent with Some c => [c] | None => [] end in
    {| e_tick := tick; e_patch := Some p; e_root := root s'; e_pdig := p_digest_field p;
       e_commit := commit_hash (root s') ps (p_digest_field p) (p_policy p);
       e_parents := ps; e_receipt := Some (tick + 1, p_decision p); e_out := out |}.

  Fixpoint live_run (s : St) (tick : N) (parent : option N) (ps : list (P * N)) : option (list entry * list St) :=
    match ps with
    | [] => Some ([], [])
    | (p, out) :: r =>
        match apply s p with
        | AFail _ => None
        | AOk s' =>
            let e := record_entry tick s' parent p out in
            match live_run s' (tick + 1) (Some (e_commit e)) r with
            | None => None
            | Some (es, ss) => Some (e :: es, s' :: ss)
            end
        end
    end.
End Seek.

Arguments e_tick {P} e.
Arguments e_patch {P} e.
Arguments e_root {P} e.
Arguments e_pdig {P} e.
Arguments e_commit {P} e.
Arguments e_parents {P} e.
Arguments e_receipt {P} e.
Arguments e_out {P} e.
Arguments ws_state {St} w.
Arguments ws_warp {St} w.
Arguments ws_init {St} w.
Arguments ws_hist {St} w.
Arguments ws_last {St} w.
Arguments ws_mat {St} w.
Arguments ws_tx {St} w.
Arguments st_u0 {St P} s.
Arguments st_boundary {St P} s.
Arguments st_entries {St P} s.
Arguments st_cps {St P} s.
Arguments c_tick {St} c.
Arguments c_role {St} c.
Arguments c_mode {St} c.
Arguments c_ws {St} c.
Arguments c_pin {St} c.
Arguments c_validated {St} c.

(* ------------------------------------------------------------------ executable instance
   State = sorted slot map (slot -> value); a patch is a list of slot writes (Some v = upsert, None = delete;
   deleting an absent slot fails and leaves the writes before it applied, like apply_ops_to_state), carrying
   its own digest fields.  root / commit_hash are a cheap 64-bit multiplicative mix; they stand for BLAKE3 only
   inside the executed instance (correspondence runs, Examples), never inside a theorem. *)
Definition slotmap := list (N * N).
Record spatch := { sp_writes : list (N * option N); sp_field : N; sp_calc : N; sp_policy : N; sp_decision : N }.

Fixpoint sapply_writes (s : slotmap) (ws : list (N * option N)) : aresult slotmap :=
  match ws with
  | [] => AOk s
  | (k, Some v) :: r => sapply_writes (set N.compare k v s) r
  | (k, None) :: r =>
      match find N.compare k s with
      | Some _ => sapply_writes (del N.compare k s) r
      | None => AFail s
      end
  end.
Definition sapply (s : slotmap) (p : spatch) : aresult slotmap := sapply_writes s (sp_writes p).

Definition mask64 : N := 18446744073709551615.
(* acc * 33 + x mod 2^64, without multiplication (cheap under vm_compute) *)
Definition mix (acc x : N) : N := N.land (N.shiftl acc 5 + acc + x) mask64.
Definition sroot (s : slotmap) : N :=
  fold_left (fun acc kv => mix (mix acc (fst kv + 1)) (snd kv + 1)) s 5381.
Definition scommit (r : N) (parents : list N) (pdig pol : N) : N :=
  fold_left (fun acc x => mix acc (x + 1)) (r :: pdig :: pol :: parents) 7.

Definition s_entry := @entry spatch.
Definition s_wstate := @wstate slotmap.
Definition s_store := @store slotmap spatch.
Definition s_cursor := @cursor slotmap.

Definition s_replay := replay slotmap spatch sapply sroot scommit sp_field sp_calc sp_policy sp_decision.
Definition s_replay_at := replay_at slotmap spatch sapply sroot scommit sp_field sp_calc sp_policy sp_decision.
Definition s_seek_to := seek_to slotmap spatch sapply sroot scommit sp_field sp_calc sp_policy sp_decision.
Definition s_step := step slotmap spatch sapply sroot scommit sp_field sp_calc sp_policy sp_decision.
Definition s_run_ops := run_ops slotmap spatch sapply sroot scommit sp_field sp_calc sp_policy sp_decision.
Definition s_add_checkpoint :=
  add_checkpoint slotmap spatch sroot sp_field sp_calc sp_decision.
Definition s_fork := fork slotmap spatch.
Definition s_live_run := live_run slotmap spatch sapply sroot scommit sp_field sp_policy sp_decision.
Definition s_base (s : slotmap) (warp : N) : s_wstate :=
  {| ws_state := s; ws_warp := warp; ws_init := s; ws_hist := []; ws_last := None; ws_mat := 0; ws_tx := 0 |}.
