(* Panic-aware, cost-aware model of the ABI canonical CBOR decoder
   crates/echo-wasm-abi/src/canonical.rs :: decode_value / dec_value.   Definitions only.

   What "panic-aware" means here.  Every Rust operation of dec_value that can panic is an explicit
   checked step of the model that returns [Panic why]:
     bytes[i]                  -> [get]       (PIndex when i >= len)
     &bytes[a..b]              -> [slice]     (PSliceOrder when a > b, PIndex when b > len)
     *idx += n, *idx + n       -> [uadd]      (PArith when the usize sum overflows; overflow-checks on)
     Vec::with_capacity(n)     -> [with_cap]  (PCapacity when n * size_of::<T>() > isize::MAX)
   What "cost-aware" means.  The state carries three meters:
     cur   bytes currently owned by decoded values / pre-allocated buffers (only grows on the success path)
     peak  high-water mark of live heap bytes = cur + live map-key copies (`last_key`)
     dmax  deepest dec_value recursion level entered (root = 0)
   Live `last_key` copies of the enclosing map frames are passed DOWN the recursion as [kl]
   (they are freed when their frame returns), so no subtraction is needed anywhere.
   An allocation the real allocator cannot satisfy aborts the process; the model keeps going
   and the meter records the request (the tie classifies peak > cap as OOM).
   Error-message strings (CanonError::Decode(String), < 256 bytes) are not charged.

   Configuration [cfg]: [cfg_unguarded] is the decoder before /repo 65efcf1.  [cfg_guarded] (= [cfg_repo],
   the decoder as it is in /repo now) has the guard: a cumulative element budget (initially the
   input length) checked before each Vec::with_capacity, and a nesting limit.

   usize is [usize_max]-bounded; `len as usize` is [as_usize] (identity on 64-bit targets,
   truncation on wasm32).  sizes: size_of::<Value>() = 32, size_of::<(Value, Value)>() = 64
   (ciborium 0.2.2: Integer(i128) forces 16-byte alignment). *)
From Coq Require Import List NArith ZArith Bool Lia.
From Echo Require Import Base.Bytes.
Import ListNotations.
Open Scope N_scope.

(* ------------------------------------------------------------------ results *)

Inductive cerr :=
| EIncomplete | ETrailing | ETag | EIndefinite | ENonCanonInt | ENonCanonFloat | EFloatShouldBeInt
| EMapKeyOrder | EMapKeyDup
| EBadLenInfo      (* Decode("invalid length info") *)
| EIntRange        (* Decode("integer out of range") *)
| EUtf8            (* Decode("utf8: ...") *)
| ESimple          (* Decode("simple value not supported") *)
| EMajor           (* Decode("unknown major type"): unreachable for bytes < 256 *)
| EDepth.          (* guard only: Decode("nesting too deep") *)

Inductive panic := PIndex | PSliceOrder | PArith | PCapacity.

Inductive res (A : Type) :=
| Val (a : A) | Err (e : cerr) | Panic (p : panic) | Fuel.
Arguments Val {A} a.
Arguments Err {A} e.
Arguments Panic {A} p.
Arguments Fuel {A}.

Definition cast {A B} (r : res A) : res B :=
  match r with Val _ => Fuel | Err e => Err e | Panic p => Panic p | Fuel => Fuel end.

(* ciborium::value::Value restricted to what dec_value can build *)
Inductive cval :=
| VInt (z : Z)            (* Integer (i128 inside; here -2^64 .. 2^64-1) *)
| VBytes (l : bytes)
| VText (l : bytes)       (* validated UTF-8 bytes *)
| VArr (l : list cval)
| VMap (l : list (cval * cval))
| VBool (b : bool)
| VNull
| VFloat (bits : N).      (* IEEE-754 binary64 bit pattern; every NaN is [nan_bits] *)

(* ------------------------------------------------------------------ configuration *)

Record cfg := mkcfg {
  usize_max : N;           (* 2^64 - 1 natively, 2^32 - 1 on wasm32 *)
  isize_max : N;
  guard : bool;            (* cumulative element budget before with_capacity *)
  depth_limit : option N   (* Some d: dec_value at depth > d is an error *)
}.

Definition two64 : N := 18446744073709551616.
Definition cfg_unguarded : cfg := mkcfg (two64 - 1) (two64 / 2 - 1) false None.
Definition guard_depth : N := 128.
Definition cfg_guarded : cfg := mkcfg (two64 - 1) (two64 / 2 - 1) true (Some guard_depth).
Definition cfg_guarded32 : cfg := mkcfg (2 ^ 32 - 1) (2 ^ 31 - 1) true (Some guard_depth).
Definition cfg_unguarded32 : cfg := mkcfg (2 ^ 32 - 1) (2 ^ 31 - 1) false None.

(* THE ONE-LINE SWITCH: which configuration models crates/echo-wasm-abi/src/canonical.rs as it is
   in /repo now.  [cfg_guarded] since /repo 65efcf1 (element budget + MAX_DECODE_DEPTH = 128);
   [cfg_unguarded] is the decoder before that commit. *)
Definition cfg_repo : cfg := cfg_guarded.

Definition is_guarded (c : cfg) : bool :=
  guard c && match depth_limit c with Some _ => true | None => false end.

Definition size_value : N := 32.
Definition size_entry : N := 64.

(* ------------------------------------------------------------------ state and checked steps *)

Record st := mkst { idx : N; bud : N; cur : N; peak : N; dmax : N }.

Definition set_idx (s : st) (i : N) : st := mkst i (bud s) (cur s) (peak s) (dmax s).
Definition enter (d : N) (s : st) : st := mkst (idx s) (bud s) (cur s) (peak s) (N.max (dmax s) d).
(* allocate n bytes that stay owned by the value under construction; kl = live key copies *)
Definition alloc (n kl : N) (s : st) : st :=
  mkst (idx s) (bud s) (cur s + n) (N.max (peak s) (cur s + n + kl)) (dmax s).
(* a transient allocation of n bytes (a key copy) on top of kl live ones *)
Definition touch (n kl : N) (s : st) : st :=
  mkst (idx s) (bud s) (cur s) (N.max (peak s) (cur s + n + kl)) (dmax s).

Definition uadd (c : cfg) (a b : N) : option N :=
  if a + b <=? usize_max c then Some (a + b) else None.
Definition as_usize (c : cfg) (n : N) : N := n mod (usize_max c + 1).
Definition get (b : bytes) (i : N) : option N := nth_error b (N.to_nat i).
(* need(bytes, idx, n): bytes.len().saturating_sub(idx) < n  =>  Incomplete *)
Definition need (b : bytes) (i n : N) : bool := n <=? lenN b - i.

(* &bytes[a..e] *)
Definition slice (b : bytes) (a e : N) : res bytes :=
  if e <? a then Panic PSliceOrder
  else if lenN b <? e then Panic PIndex
  else Val (firstn (N.to_nat (e - a)) (skipn (N.to_nat a) b)).

(* Vec::<T>::with_capacity(n), size_of::<T>() = sz *)
Definition with_cap (c : cfg) (n sz kl : N) (s : st) : option st :=
  if isize_max c <? n * sz then None else Some (alloc (n * sz) kl s).

(* proposed guard: `if len > *budget { return Err(Incomplete) } *budget -= len;` *)
Definition reserve (c : cfg) (n : N) (s : st) : option st :=
  if guard c then
    if bud s <? n then None else Some (mkst (idx s) (bud s - n) (cur s) (peak s) (dmax s))
  else Some s.

Definition depth_exceeded (c : cfg) (d : N) : bool :=
  match depth_limit c with Some m => m <? d | None => false end.

(* read_uint: need, then nbytes times `val = (val << 8) | bytes[*idx]; *idx += 1` *)
Fixpoint read_uint_loop (c : cfg) (b : bytes) (k : nat) (i v : N) : res (N * N) :=
  match k with
  | O => Val (v, i)
  | S k' =>
    match get b i with
    | None => Panic PIndex
    | Some x =>
      match uadd c i 1 with
      | None => Panic PArith
      | Some i' => read_uint_loop c b k' i' (N.lor ((v * 256) mod two64) x)
      end
    end
  end.

Definition read_uint (c : cfg) (b : bytes) (i : N) (k : nat) : res (N * N) :=
  if need b i (N.of_nat k) then read_uint_loop c b k i 0 else Err EIncomplete.

(* read_len: value and new index *)
Definition read_len (c : cfg) (b : bytes) (i info : N) : res (N * N) :=
  if info <=? 23 then Val (info, i)
  else if 28 <=? info then (if info =? 31 then Err EIndefinite else Err EBadLenInfo)
  else
    let k := if info =? 24 then 1%nat else if info =? 25 then 2%nat else if info =? 26 then 4%nat else 8%nat in
    match read_uint c b i k with
    | Val (v, i') =>
      let lim := if info =? 24 then 23 else if info =? 25 then 255 else if info =? 26 then 65535 else 4294967295 in
      if v <=? lim then Err ENonCanonInt else Val (v, i')
    | r => r
    end.

(* read_f: need; slice = &bytes[*idx..*idx + n]; *idx += n; big-endian bits *)
Definition read_fbits (c : cfg) (b : bytes) (i n : N) : res (N * N) :=
  if need b i n then
    match uadd c i n with
    | None => Panic PArith
    | Some e =>
      match slice b i e with
      | Val sl => Val (from_be sl, e)
      | r => cast r
      end
    end
  else Err EIncomplete.

(* need(bytes, idx, 2); u16::from_be_bytes([bytes[*idx], bytes[*idx + 1]]) *)
Definition peek2 (c : cfg) (b : bytes) (i : N) : res N :=
  if need b i 2 then
    match get b i with
    | None => Panic PIndex
    | Some h0 =>
      match uadd c i 1 with
      | None => Panic PArith
      | Some i1 =>
        match get b i1 with
        | None => Panic PIndex
        | Some h1 => Val (h0 * 256 + h1)
        end
      end
    end
  else Err EIncomplete.

(* ------------------------------------------------------------------ floats (bit level) *)

Definition nan_bits : N := 0x7ff8000000000000.

Definition bitlen (n : N) : N := N.size n.

(* widen a (ebits, mbits) IEEE value to binary64 bits; NaN -> nan_bits *)
Definition widen (ebits mbits : N) (x : N) : N :=
  let m := x mod 2 ^ mbits in
  let e := (x / 2 ^ mbits) mod 2 ^ ebits in
  let s := x / 2 ^ (mbits + ebits) in
  let bias := 2 ^ (ebits - 1) - 1 in
  let sgn := s * 2 ^ 63 in
  if e =? 2 ^ ebits - 1 then (if m =? 0 then sgn + 2047 * 2 ^ 52 else nan_bits)
  else if e =? 0 then
    (if m =? 0 then sgn
     else let k := bitlen m in   (* m * 2^(1 - bias - mbits) = 1.x * 2^(k - 1 + 1 - bias - mbits) *)
          sgn + (k + 1023 - bias - mbits) * 2 ^ 52 + (m - 2 ^ (k - 1)) * 2 ^ (52 - (k - 1)))
  else sgn + (e + 1023 - bias) * 2 ^ 52 + m * 2 ^ (52 - mbits).

Definition f64_of_f16 (h : N) : N := widen 5 10 h.
Definition f64_of_f32 (w : N) : N := widen 8 23 w.
Definition f64_canon (x : N) : N :=
  if ((x / 2 ^ 52) mod 2048 =? 2047) && negb (x mod 2 ^ 52 =? 0) then nan_bits else x.

Definition f_exp (x : N) : N := (x / 2 ^ 52) mod 2048.
Definition f_man (x : N) : N := x mod 2 ^ 52.
Definition f_is_nan (x : N) : bool := (f_exp x =? 2047) && negb (f_man x =? 0).
Definition f_is_inf (x : N) : bool := (f_exp x =? 2047) && (f_man x =? 0).

Fixpoint ctz_pos (p : positive) : N :=
  match p with xO p' => 1 + ctz_pos p' | _ => 0 end.
Definition ctz (n : N) : N := match n with 0 => 0 | Npos p => ctz_pos p end.

(* finite x = M * 2^E with M odd or 0: returns (M, E) *)
Definition f_decomp (x : N) : N * Z :=
  let e := f_exp x in let m := f_man x in
  let M := if e =? 0 then m else 2 ^ 52 + m in
  let E := if e =? 0 then (-1074)%Z else (Z.of_N e - 1075)%Z in
  let t := ctz M in
  (M / 2 ^ t, (E + Z.of_N t)%Z).

(* is_exact_int: finite, fract() == 0, INT_MIN_F <= f < INT_END_F (-2^64 <= f < 2^64), (f as i128) as f64 == f *)
Definition is_exact_int (x : N) : bool :=
  if f_exp x =? 2047 then false
  else let '(M, E) := f_decomp x in
       if M =? 0 then true
       else if (E <? 0)%Z then false
       else if (64 <? E)%Z then false
       else if x / 2 ^ 63 =? 0 then M * 2 ^ Z.to_N E <? two64 else M * 2 ^ Z.to_N E <=? two64.

(* exactly representable in a format with p significand bits, least exponent lo, top exponent hi *)
Definition fits (p : N) (lo hi : Z) (x : N) : bool :=
  if f_exp x =? 2047 then true
  else let '(M, E) := f_decomp x in
       if M =? 0 then true
       else (lo <=? E)%Z && (bitlen M <=? p) && (Z.of_N (bitlen M) + E - 1 <=? hi)%Z.

Definition can_fit_f16 : N -> bool := fits 11 (-24) 15.
Definition can_fit_f32 : N -> bool := fits 24 (-149) 127.

(* ------------------------------------------------------------------ UTF-8 (core::str::from_utf8) *)

Definition cont (x : N) : bool := (128 <=? x) && (x <=? 191).
Definition btw (lo hi x : N) : bool := (lo <=? x) && (x <=? hi).

Fixpoint utf8_ok (l : bytes) : bool :=
  match l with
  | [] => true
  | b0 :: r =>
    if b0 <? 128 then utf8_ok r
    else if btw 194 223 b0 then
      match r with b1 :: r' => cont b1 && utf8_ok r' | _ => false end
    else if btw 224 239 b0 then
      match r with
      | b1 :: b2 :: r' =>
        (if b0 =? 224 then btw 160 191 b1 else if b0 =? 237 then btw 128 159 b1 else cont b1)
        && cont b2 && utf8_ok r'
      | _ => false
      end
    else if btw 240 244 b0 then
      match r with
      | b1 :: b2 :: b3 :: r' =>
        (if b0 =? 240 then btw 144 191 b1 else if b0 =? 244 then btw 128 143 b1 else cont b1)
        && cont b2 && cont b3 && utf8_ok r'
      | _ => false
      end
    else false
  end.

(* ------------------------------------------------------------------ map key order (slice Ord) *)

Fixpoint bytes_cmp (a b : bytes) : comparison :=
  match a, b with
  | [], [] => Eq
  | [], _ => Lt
  | _, [] => Gt
  | x :: a', y :: b' => match x ?= y with Eq => bytes_cmp a' b' | o => o end
  end.

(* ------------------------------------------------------------------ the decoder *)

Section Dec.
Variable c : cfg.
Variable b : bytes.

(* need(1); b0 = bytes[*idx]; *idx += 1 *)
Definition head (s : st) : res N * st :=
  if need b (idx s) 1 then
    match get b (idx s) with
    | None => (Panic PIndex, s)
    | Some b0 =>
      match uadd c (idx s) 1 with
      | None => (Panic PArith, s)
      | Some i => (Val b0, set_idx s i)
      end
    end
  else (Err EIncomplete, s).

(* majors 0,1,2,3,6,7 and out-of-range majors: no recursion *)
Definition dec_scalar (major info kl : N) (s : st) : res cval * st :=
  if major <=? 1 then
    match read_len c b (idx s) info with
    | Val (n, i) =>
      let s := set_idx s i in
      if major =? 0 then (Val (VInt (Z.of_N n)), s)
      else if n <? two64 then (Val (VInt (- 1 - Z.of_N n)), s) else (Err EIntRange, s)
    | r => (cast r, s)
    end
  else if major <=? 3 then
    match read_len c b (idx s) info with
    | Val (n, i) =>
      let s := set_idx s i in
      let len := as_usize c n in
      if need b (idx s) len then
        match uadd c (idx s) len with
        | None => (Panic PArith, s)
        | Some e =>
          match slice b (idx s) e with
          | Val data =>
            let s := set_idx s e in
            if major =? 2 then (Val (VBytes data), alloc len kl s)
            else if utf8_ok data then (Val (VText data), alloc len kl s)
            else (Err EUtf8, s)
          | r => (cast r, s)
          end
        end
      else (Err EIncomplete, s)
    | r => (cast r, s)
    end
  else if major =? 6 then (Err ETag, s)
  else if major =? 7 then
    if info =? 20 then (Val (VBool false), s)
    else if info =? 21 then (Val (VBool true), s)
    else if info =? 22 then (Val VNull, s)
    else if info =? 25 then
      match peek2 c b (idx s) with
      | Val half_bits =>
        match read_fbits c b (idx s) 2 with
        | Val (h, i) =>
          let s := set_idx s i in let f := f64_of_f16 h in
          if f_is_nan f && negb (half_bits =? 32256) then (Err ENonCanonFloat, s)   (* only 0x7e00 *)
          else if is_exact_int f then (Err EFloatShouldBeInt, s) else (Val (VFloat f), s)
        | r => (cast r, s)
        end
      | r => (cast r, s)
      end
    else if info =? 26 then
      match read_fbits c b (idx s) 4 with
      | Val (w, i) =>
        let s := set_idx s i in let f := f64_of_f32 w in
        if is_exact_int f then (Err EFloatShouldBeInt, s)
        else if can_fit_f16 f then (Err ENonCanonFloat, s)
        else (Val (VFloat f), s)
      | r => (cast r, s)
      end
    else if info =? 27 then
      match read_fbits c b (idx s) 8 with
      | Val (x, i) =>
        let s := set_idx s i in let f := f64_canon x in
        if is_exact_int f then (Err EFloatShouldBeInt, s)
        else if can_fit_f16 f then (Err ENonCanonFloat, s)
        else if can_fit_f32 f then (Err ENonCanonFloat, s)
        else (Val (VFloat f), s)
      | r => (cast r, s)
      end
    else if info =? 31 then (Err EIndefinite, s)
    else (Err ESimple, s)
  else (Err EMajor, s).

(* The three mutually recursive pieces of dec_value are written as non-recursive step functions
   over their continuations (rec calls), then tied by one fuel-indexed mutual fixpoint.
   d = recursion level of this dec_value call, kl = live `last_key` bytes of enclosing frames. *)
Definition arr_k := N -> N -> N -> st -> list cval -> res cval * st.                 (* d kl n s acc *)
Definition map_k := N -> N -> N -> st -> list (cval * cval) -> option bytes -> res cval * st.
Definition dec_k := N -> N -> st -> res cval * st.                                     (* d kl s *)

Definition dec_step (arr : arr_k) (mp : map_k) (d kl : N) (s : st) : res cval * st :=
  let s := enter d s in
  if depth_exceeded c d then (Err EDepth, s) else
  match head s with
  | (Val b0, s) =>
    let major := b0 / 32 in
    let info := b0 mod 32 in
    if major =? 4 then
      match read_len c b (idx s) info with
      | Val (n, i) =>
        let s := set_idx s i in
        let len := as_usize c n in
        match reserve c len s with
        | None => (Err EIncomplete, s)
        | Some s =>
          match with_cap c len size_value kl s with
          | None => (Panic PCapacity, s)
          | Some s => arr d kl len s []
          end
        end
      | r => (cast r, s)
      end
    else if major =? 5 then
      match read_len c b (idx s) info with
      | Val (n, i) =>
        let s := set_idx s i in
        let len := as_usize c n in
        match reserve c len s with
        | None => (Err EIncomplete, s)
        | Some s =>
          match with_cap c len size_entry kl s with
          | None => (Panic PCapacity, s)
          | Some s => mp d kl len s [] None
          end
        end
      | r => (cast r, s)
      end
    else dec_scalar major info kl s
  | (r, s) => (cast r, s)
  end.

(* for _ in 0..len { items.push(dec_value(bytes, idx)?) } *)
Definition arr_step (dec : dec_k) (arr : arr_k) (d kl n : N) (s : st) (acc : list cval) : res cval * st :=
  if n =? 0 then (Val (VArr (rev acc)), s)
  else
    match dec (d + 1) kl s with
    | (Val v, s) => arr d kl (n - 1) s (v :: acc)
    | (r, s) => (cast r, s)
    end.

Definition key_order (kb : bytes) (last : option bytes) : option cerr :=
  match last with
  | Some prev =>
    match bytes_cmp kb prev with
    | Eq => Some EMapKeyDup | Lt => Some EMapKeyOrder | Gt => None
    end
  | None => None
  end.

(* map loop; last = Some kb: the previous key's bytes, a live heap copy of lenN kb bytes *)
Definition map_step (dec : dec_k) (mp : map_k) (d kl n : N) (s : st) (acc : list (cval * cval))
           (last : option bytes) : res cval * st :=
  if n =? 0 then (Val (VMap (rev acc)), s)
  else
    let ll := match last with Some p => lenN p | None => 0 end in
    let key_start := idx s in
    match dec (d + 1) (kl + ll) s with
    | (Val k, s) =>
      match slice b key_start (idx s) with
      | Val kb =>
        match key_order kb last with
        | Some e => (Err e, s)
        | None =>
          (* last_key = Some(kb.to_vec()): new copy allocated while the old one is still live *)
          let s := touch (lenN kb) (kl + ll) s in
          match dec (d + 1) (kl + lenN kb) s with
          | (Val v, s) => mp d kl (n - 1) s ((k, v) :: acc) (Some kb)
          | (r, s) => (cast r, s)
          end
        end
      | r => (cast r, s)
      end
    | (r, s) => (cast r, s)
    end.

Fixpoint dec (f : nat) : dec_k :=
  fun d kl s => match f with O => (Fuel, s) | S f' => dec_step (arr_items f') (map_items f') d kl s end
with arr_items (f : nat) : arr_k :=
  fun d kl n s acc => match f with O => (Fuel, s) | S f' => arr_step (dec f') (arr_items f') d kl n s acc end
with map_items (f : nat) : map_k :=
  fun d kl n s acc last =>
    match f with O => (Fuel, s) | S f' => map_step (dec f') (map_items f') d kl n s acc last end.

Definition fuel_for : nat := 2 * length b + 3.
Definition st0 : st := mkst 0 (lenN b) 0 0 0.

(* decode_value: one value, then idx must equal bytes.len() *)
Definition dec_pa : res cval * st :=
  match dec fuel_for 0 0 st0 with
  | (Val v, s) => if idx s =? lenN b then (Val v, s) else (Err ETrailing, s)
  | r => r
  end.

End Dec.

(* ------------------------------------------------------------------ observables for the tie *)

Definition result {A} (r : res A * st) : res A := fst r.
Definition alloc_peak {A} (r : res A * st) : N := peak (snd r).
Definition depth_max {A} (r : res A * st) : N := dmax (snd r).

Definition is_panic {A} (r : res A) : bool := match r with Panic _ => true | _ => false end.
Definition is_fuel {A} (r : res A) : bool := match r with Fuel => true | _ => false end.

(* heap bytes owned by a decoded value *)
Fixpoint heap_size (v : cval) : N :=
  match v with
  | VBytes l | VText l => lenN l
  | VArr l => size_value * lenN l + fold_right (fun x a => heap_size x + a) 0 l
  | VMap l => size_entry * lenN l + fold_right (fun kv a => heap_size (fst kv) + heap_size (snd kv) + a) 0 l
  | _ => 0
  end.

(* deep inputs for the depth witness: n array-of-one heads then null *)
Definition nest (n : nat) : bytes := repeat 129 n ++ [246].

(* flat pre-order token list of a value (what the harness prints as val=...):
   (0,n) int n | (1,m) int -1-m | (2,len)(9,be) bytes | (3,len)(9,be) text | (4,n) array | (5,n) map
   | (7,0/1/2) false/true/null | (8,bits) float *)
Fixpoint flat (v : cval) : list (N * N) :=
  match v with
  | VInt z => if (z <? 0)%Z then [(1, Z.to_N (- 1 - z))] else [(0, Z.to_N z)]
  | VBytes l => [(2, lenN l); (9, from_be l)]
  | VText l => [(3, lenN l); (9, from_be l)]
  | VArr l => (4, lenN l) :: fold_right (fun x a => flat x ++ a) [] l
  | VMap l => (5, lenN l) :: fold_right (fun kv a => flat (fst kv) ++ flat (snd kv) ++ a) [] l
  | VBool false => [(7, 0)]
  | VBool true => [(7, 1)]
  | VNull => [(7, 2)]
  | VFloat x => [(8, x)]
  end.

Inductive obs_class := OValue | OError (e : cerr) | OPanic (p : panic) | OFuel.

(* everything the tie compares: class, flat value, peak meter, depth meter, final index *)
Definition observe (c : cfg) (b : bytes) : obs_class * list (N * N) * N * N * N :=
  let r := dec_pa c b in
  let s := snd r in
  match fst r with
  | Val v => (OValue, flat v, peak s, dmax s, idx s)
  | Err e => (OError e, [], peak s, dmax s, idx s)
  | Panic p => (OPanic p, [], peak s, dmax s, idx s)
  | Fuel => (OFuel, [], peak s, dmax s, idx s)
  end.
